"""C17: all element access paths of a vector or quaternion see the same N lanes."""
import os, re
from . import core

CFGS = ["sse2", "sse2-rel", "scalar", "coresimd", "fma"]   # fma: +fma,+avx2 (implies sse3 .. sse4.2): feature-gated fast paths


def run(res, only=None):
    cfgs = [c for c in CFGS if not only or c in only]
    wd = os.path.join(core.WORK, res.prop)
    os.makedirs(wd, exist_ok=True)
    # (1) complete BFS: every transition of the register machine (117 registers x every action)
    bfs = os.path.join(wd, "bfs.out")
    res.add_tlc(core.run_tlc("MC_C17", res.tier, bfs, workers=4))
    core.replay_bin(res, "tok", bfs, cfgs, tag="bfs",
                    expect_ops=["acc:ctor:new", "acc:write:field", "acc:write:index_mut", "acc:write:as_mut",
                                "acc:write:with", "acc:read:field", "acc:read:index", "acc:read:to_array",
                                "acc:read:write_to_slice", "acc:read:into_array", "acc:read:into_tuple",
                                "acc:read:as_ref", "acc:read:debug", "acc:read:display", "acc:const:ZERO"])
    # (2) simulated histories of 32 interleaved reads and writes
    sim = os.path.join(wd, "sim.out")
    cfg_text = open(os.path.join(core.SPEC, "MC_C17.cfg")).read().replace("MaxHist = 1", "MaxHist = 32")
    cfg_text = "\n".join(l for l in cfg_text.splitlines() if not l.startswith("PROPERTY")) + "\n"
    num = 40 if res.tier == "quick" else 400
    st = core.run_tlc("MC_C17", res.tier, sim, workers=1, cfg_text=cfg_text,
                      simulate=f"num={num}", seed=res.seed)
    # in simulation mode TLC reports "states checked"
    for l in st["tail"]:
        m = re.search(r"The number of states generated: (\d+)", l)
        if m:
            st["generated"] = st["distinct"] = int(m.group(1))
    res.add_tlc(st)
    core.replay_bin(res, "tok", sim, cfgs, tag="sim")
    # (3) code -> spec: random histories (constructors, writes, reads through every lane-valued path) over random bit patterns, recorded
    #     from every vector type and validated by TLC against the same register actions (Trace_C17.tla extends Access.tla)
    core.record_and_validate(res, "acc", cfgs, draws=3 if res.tier == "quick" else 60, module="Trace_C17", chunks=1, expect_kinds=("acc",))
    res.exhaustive = True
    res.rule = ("BFS: every (register, action) pair of the 3-token register machine for n=2,3,4 (complete), each replayed "
                "on all 34 vector types + Quat/DQuat with the whole register projected after the step; plus TLC-simulated "
                "histories of length 32.  Vec3A registers start from 6 hidden-lane contents.  Code -> spec: random histories of 36 (quick) / 720 "
                "(thorough) calls per type over random bit patterns, each logged call one action of Access.tla with its arguments bound (Trace_C17.tla).")
    res.assumptions = ["data independence of access paths (values are only moved)",
                       "the implementation has no state beyond the register, so transition coverage is history coverage; "
                       "the length-32 simulated histories guard that assumption"]


def replay(res, path, only=None):
    return core.replay_dispatch(res, path, "tok")
