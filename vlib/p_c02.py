"""C02: vector geometry (dot, cross, length, normalize, project, angle) is accurate."""
import os
from . import core

CFGS = ["sse2", "sse2-rel", "scalar", "coresimd", "libm", "fma"]


def run(res, only=None):
    cfgs = [c for c in CFGS if not only or c in only]
    wd = os.path.join(core.WORK, res.prop)
    os.makedirs(wd, exist_ok=True)
    cases = os.path.join(wd, "geom.out")
    res.add_tlc(core.run_tlc("MC_C02", res.tier, cases, workers=8, extra_constants={"Seed": res.seed % 97}))
    core.replay_bin(res, "geom", cases, cfgs, expect_ops=["bilinear", "pyth", "fallback", "angle", "project"])
    # code -> spec: recorded sum-of-products calls on arbitrary f32 inputs, judged by TLC with exact arithmetic
    n = 150 if res.tier == "quick" else 2500
    for cfg in [c for c in cfgs if c in ("sse2", "scalar", "coresimd", "fma")]:
        tr = os.path.join(wd, f"record.{cfg}.ndjson")
        p = core.run_bin(cfg, "geom", ["record", tr, str(res.seed), str(n)])
        if p.returncode != 0:
            raise core.ToolError(f"geom record failed in {cfg}: {p.stderr[-1500:]}")
        core.validate_trace(res, "Trace_C02", tr, cfg)
    # the same bound for the f64 types (and again for f32) with the polynomials defined in the specification (Trace_Poly.tla)
    core.record_and_validate(res, "poly", [c for c in cfgs if c in ("sse2", "scalar", "coresimd", "fma")], draws=8 if res.tier == "quick" else 300,
                             module="Trace_Poly", chunks=1 if res.tier == "quick" else 8, expect_kinds=("poly",),
                             ops=["dot", "cross", "perp_dot", "lerp", "midpoint", "distance_squared", "reflect", "project_onto_normalized", "reject_from_normalized"])
    # code -> spec, relational: normalize family (unit within 16 u, parallel to the input) and the angle between parallel dense vectors
    # (finite, 0 or pi within the arccos conditioning) on random inputs, judged by TLC with exact dyadic arithmetic (Trace_Rel.tla)
    core.record_and_validate(res, "rel", [c for c in cfgs if c in ("sse2", "scalar", "coresimd", "libm", "fma")], draws=3 if res.tier == "quick" else 60,
                             module="Trace_Rel", chunks=2 if res.tier == "quick" else 8, expect_kinds=("rel",),
                             ops=["normalize", "angle_parallel", "length", "distance", "length_recip", "project_onto", "reject_from"])
    res.rule = ("exact: dot/cross/perp_dot/length_squared/distance_squared/element_sum/product over pairs of integer 3-vectors in -2..2 (1/4 of the "
                "15625 pairs in quick; all 117649 pairs over -3..3 in thorough) incl. parallel, anti-parallel, orthogonal and cancelling pairs; "
                "length/length_recip/distance/normalize family on 12 Pythagorean tuples x power-of-two scales 2^-60..2^60 within 4 eps; the "
                "fallback rule of the normalize family on zero, -0, subnormal, underflowing (2^-80), overflowing (2^70, MAX), inf, NaN inputs in "
                "four lane patterns (expected by the Ieee model of length_squared); project/reject/reflect/refract on lattice inputs; "
                "angle_between/angle_to on 14 integer pairs with angles k*pi/12 x 3 scales. Recorded: 20 sum-of-products calls per random "
                "input (24-bit mantissas, exponent spread 2^+-20, orthogonal / nearly parallel / opposite partners) validated by TLC against "
                "|got - exact| <= 6 * 2^-24 * sum|terms| with arbitrary-precision integers. non-trivial = more than one non-zero component.")
    res.assumptions = ["the accuracy of acos_approx between the lattice cosines is only bounded by the 2e-4 tolerance at 9 angles",
                       "Trace_C02 carries f32 events only; the f64 types are judged by Trace_Poly (limb-encoded significands)"]


def replay(res, path, only=None):
    return core.replay_dispatch(res, path, "geom", env_keys=())
