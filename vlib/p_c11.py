"""C11: view and projection matrices map the frustum as documented for each handedness."""
import os
from . import core

CFGS = ["sse2", "sse2-rel", "scalar", "coresimd", "libm"]


def run(res, only=None):
    cfgs = [c for c in CFGS if not only or c in only]
    wd = os.path.join(core.WORK, res.prop)
    os.makedirs(wd, exist_ok=True)
    cases = os.path.join(wd, "cam.out")
    res.add_tlc(core.run_tlc("MC_C11", res.tier, cases, workers=8, extra_constants={"Seed": res.seed % 97}))
    expect = ["view:rh", "view:lh", "perspective_rh_gl", "perspective_lh", "perspective_rh", "perspective_infinite_lh",
              "perspective_infinite_reverse_lh", "perspective_infinite_rh", "perspective_infinite_reverse_rh",
              "orthographic_rh_gl", "orthographic_lh", "orthographic_rh"]
    core.replay_bin(res, "rot", cases, cfgs, expect_ops=expect, env_extra={"HX_PROP": "C11"}, tag="cam")
    # code -> spec on random parameters (Trace_Rel.tla, exact dyadic arithmetic): views with unit dir / up whose sine is 2e-3 .. 1 and random
    # eyes -- rigid, eye -> origin, dir -> -+Z, up into the +Y half-plane with roll <= 2^9 u / |dir x up|; projections with any aspect,
    # near in 2^-7 .. 2^3 and far/near up to 1e6 -- zero pattern, clip w, near/far planes to the documented depths, fov / box planes to +-1
    core.record_and_validate(res, "rel", [c for c in cfgs if c != "sse2-rel"], draws=4 if res.tier == "quick" else 100, module="Trace_Rel",
                             chunks=2 if res.tier == "quick" else 8, expect_kinds=("rel",), ops=["view", "proj"])
    res.rule = ("views: every (eye, dir, up) with integer eyes (off-axis), dir over the 18 lattice directions (axes and face diagonals), up "
                "over the 6 axes not parallel to dir (so up is often not perpendicular to dir), both handednesses: look_to/look_at of Mat4, "
                "Affine3A, Mat3/Mat3A, Quat and f64 forms against the exact matrix whose defining properties TLC proves (rigid, eye->0, "
                "dir->-+Z, up into +Y half-plane). Projections: 7 perspective x tan(fov/2) in {1/2,1,2} x aspect 2^j x (near,far) incl. ratio "
                "32769, and 3 orthographic x 4 boxes (off-centre, non-square): M*(p,1), project_point3, transform_point3 on 48-100 probe "
                "points (corners, edges, plane centres, interior) against exact dyadic clip coordinates.  Code -> spec: the promises themselves "
                "(Trace_Rel.tla: view and proj relations) on random eye / dir / up with |dir x up| down to 2e-3 and random projection parameters with "
                "far/near up to 1e6, decided exactly by TLC per build.")
    res.assumptions = ["fov is passed as 2*atan(2^j) computed in floating point; tolerance 4e-5 / 4e-12 relative to the clip magnitude",
                       "tan(fov/2) is a power of two in the recorded projections (arbitrary fov would need a transcendental function in the specification)"]


def replay(res, path, only=None):
    return core.replay_dispatch(res, path, "rot", env_keys=())
