"""Regenerates MANIFEST.json from the table below (run: python3 -m vlib.manifest_gen)."""
import json, os
from . import core

BASELINE_OFF = ("cd /repo && cargo nextest run --workspace --no-fail-fast --tool-config-file pb:/w/lib/nextest.toml "
                "--profile pb --test-threads 8 --offline || cargo test --workspace --no-fail-fast --offline")

CHECKS = {
 "C01": dict(
   technique="TLA+ reference semantics (exact IEEE-754 on a dyadic lattice) enumerated by TLC and replayed on the real types in 6-8 build configurations; plus TLC trace validation (Trace_Lanes.tla, arbitrary-precision IEEE model IeeeW) of executions recorded on random bit patterns",
   text=("TLC enumerates every call/return state of the element-wise float API over the lattice F1 "
         "(x.25/x.5/x.75 ties, values around 2^22..2^24, 2^31, 2^63, subnormals, extremes, +-0, +-inf, NaN) "
         "with results computed by the Ieee module (integer-only, correctly rounded); each state is replayed "
         "on Vec2/3/3A/4 and DVec2/3/4 in every lane position through every operator spelling in the sse2 "
         "(debug+release), scalar-math, core-simd, +fma/+avx2 and libm builds and compared as IEEE values. "
         "The oracle itself is cross-checked against the Rust primitive on every lane (disagreement = tool error). "
         "In the other direction every operation is executed on random bit patterns in each build, logged with exact operands and "
         "results, and the log is consumed by TLC (Trace_Lanes.tla): each lane must equal the correctly rounded result computed with "
         "arbitrary-precision integers (IeeeW.tla, itself checked against Ieee.tla on all 8464 lattice pairs by MC_IeeeW)."),
   note=("Trusted: TLC, the 170-line bit<->(sign,mantissa,exponent) projection in harness/src/fl.rs (self-tested), "
         "the TLA+ Ieee module (validated against the Rust primitives on every replayed lane). Not decided: operand "
         "pairs whose exact result needs >31-bit integers (skipped, counted), exp/powf values, NEON/wasm32."),
   ref="5 (C01), 2.1"),
 "C16": dict(
   technique="TLA+ token machine (swizzles as index maps derived from the method-name letters), complete TLC enumeration of all names, bit-exact replay on every type",
   text=("The specification derives each getter/setter from the letters of its name; TLC enumerates all 28+117+336 getters and 6+36 "
         "setters (and proves read-after-write, write-what-was-read = identity, composition, and the name counts); every case is "
         "replayed bit-for-bit on all 34 swizzle-implementing types in sse2 (debug+release), scalar-math and core-simd builds with "
         "NaN payloads, -0, equal lanes, and for Vec3A six hidden-lane contents; the result type is checked too. Exhaustive up to "
         "data independence of pure data movement."),
   note="Trusted: TLC, the token palette (harness/src/tv.rs), generated name dispatch (harness/gen_swz.py). NEON/wasm32 not executable here.",
   ref="5 (C16)"),
 "C17": dict(
   technique="TLA+ register machine over 3 tokens: complete BFS of every (register, access-path action) transition plus TLC-simulated length-32 histories, replayed on the real types",
   text=("One register of n lanes; constructors, constants, four write paths and ten read paths are the actions. TLC checks the action "
         "properties WriteChangesOnlyThatLane and ReadsArePure and explores all 117 registers x all actions (complete), then simulates "
         "histories of 32 interleaved reads and writes; each behaviour is executed on all 34 vector types, Quat and DQuat in sse2 "
         "(debug+release), scalar-math and core-simd builds, projecting the whole register after every step and comparing every read "
         "path's observation (including Debug/Display text built from the primitive formatter) bit-for-bit."),
   note="Trusted: TLC, token palette, the per-type access-path table (harness/src/acc.rs). Data independence assumed for values outside the palette.",
   ref="5 (C17)"),
 "C13": dict(
   technique="TLA+ model of Rust integer primitives on unbounded (limb) integers + range rule per family; TLC enumeration; replay in debug and release profiles; plus TLC trace validation (Trace_Lanes.tla) of executions recorded on random operands",
   text=("IntLane.tla defines every integer primitive as exact mathematics on arbitrary-precision integers (Big.tla, validated by TLC "
         "against native arithmetic) followed by the family's range rule (panic/wrap by profile, None, wrap, saturate; /0 and MIN/-1 "
         "panic always; shifts panic or mask). TLC checks checked/wrapping/saturating/plain coherence, the division identities, the "
         "wrap homomorphism and De Morgan on every enumerated state, and emits per-lane outcomes for both profiles; each case is "
         "replayed on the 2-, 3- and 4-lane type of the scalar (27 types) in 4 lane rotations, through every operator spelling and "
         "shift-count type, with panics caught and compared. 8-bit operand pairs are exhaustive in the thorough tier."),
   note=("Trusted: TLC, spec/Big.tla (checked by MC_Big and lane-by-lane against the Rust primitives: disagreement is a tool error), "
         "harness/src/ivec.rs dispatch. 16-bit pairs are not exhaustive (boundary lattice). perp/perp_dot/rotate of 2-lane types not yet modelled."),
   ref="5 (C13), 2.1"),
 "C03": dict(
   technique="TLA+ exact integer linear algebra (Leibniz determinant, adjugate by minors) with TLC-checked theorems; enumeration of integer matrix families replayed exactly on every matrix type and backend",
   text=("LinAlg.tla defines product, transpose, determinant (Leibniz over permutations), adjugate (signed minors) and inverse from the "
         "mathematical definitions; on every enumerated matrix TLC checks det(AB)=det A det B, A adj A = det A I, (AB)^T = B^T A^T, "
         "(AB)v = A(Bv), Leibniz = cofactor expansion. Families: all 4x4 {0,1} matrices (decides the multilinear determinant), 3x3 over "
         "-1..1, 2x2 over -8..8, dense seeded -3..3, signed permutations, unimodular and +-2^k-determinant matrices (exact inverse), "
         "rank-deficient (det exactly 0), affine transforms. Replayed bit-exactly (integers are exact in f32/f64) on Mat2/3/3A/4, "
         "DMat2/3/4 and the affine types through every operator spelling in sse2 (debug, release, +fma), scalar-math and core-simd builds."),
   note=("Trusted: TLC, harness/src/bin/lin.rs. The eps*kappa error bound for ill-conditioned real matrices is not decided; "
         "non-exact inverses are checked relationally (inverse*det = adj within 2e-5 / 1e-12)."),
   ref="5 (C03), 2.2"),
 "C06": dict(
   technique="TLA+ token register machine per matrix shape (complete two-step BFS over constructors/write paths/read paths), data-movement calls (minors, blocks, embeddings), and product laws on integer matrices; replay on all 11 matrix/affine types",
   text=("Layout.tla fixes entry (r,c) at flat index c*R+r; TLC explores every two-step behaviour of the register machine for the five "
         "shapes (2x2, 3x3, 4x4, affine 2x3 and 3x4) over pairwise-distinct tokens (NaN payloads, -0), checks that a write changes "
         "exactly that entry, col/row agreement and transpose involution, and enumerates every minor (i,j), block, embedding and "
         "affine<->matrix move; product laws (M v = sum v[c] col(c), (AB)v = A(Bv), transform_point = L p + t, transform_vector "
         "ignores t, conversion commutes with composition) are decided exactly on integer matrices from MC_C03. Every case is replayed "
         "bit-for-bit on Mat2/3/3A/4, DMat2/3/4, Affine2/3A, DAffine2/3 in sse2 (debug+release), scalar-math and core-simd layouts, "
         "including Debug/Display (with and without precision)."),
   note="Trusted: TLC, token palette, harness/src/mt.rs path table; from/to_cols_array are the base projection all other paths are compared to.",
   ref="5 (C06)"),
 "C04": dict(
   technique="TLA+ Hamilton algebra from i^2=j^2=k^2=ijk=-1 and rotation as the sandwich q v q*, TLC-checked group/algebra theorems, exact replay on integer and Hurwitz-unit quaternions",
   text=("LinAlg.tla defines the Hamilton product from the defining relations and rotation as vec(q (v,0) conj q); TLC checks associativity, "
         "norm multiplicativity, conjugate anti-homomorphism, closure of the 24 Hurwitz units, (pq)v = p(qv), q and -q rotate alike, "
         "length preservation, matrix_of(pq) = matrix_of(p) matrix_of(q), det = +1. All integer-component pairs (-1..1 quick, -2..2 thorough) "
         "and all Hurwitz units x lattice vectors are replayed exactly on Quat and DQuat (Vec3 and Vec3A right-hand sides, poisoned hidden "
         "lane, every spelling incl. *= and Product) in sse2 (debug, release, +fma), scalar-math and core-simd builds."),
   note="Trusted: TLC, harness lin.rs. Rounding bound 'a few eps |v|' for arbitrary unit quaternions is not decided (exact lattice only).",
   ref="5 (C04), 2.2"),
 "C15": dict(
   technique="TLA+ mask register machine (complete over all 2^N masks and operand pairs, full observation after every step), select on tokens, comparison cases from the float and integer lattices; replay on all five mask types from several producers",
   text=("TLC explores every two-step behaviour of the mask machine for N=2,3,4 (constructors, !, &,|,^ and assigning forms over all operand "
         "masks, set, invalid indices) and checks the boolean-algebra laws; after every step the harness compares bitmask, any, all, test(i), "
         "==, Hash, [bool;N], [u32;N], Debug and Display with the specification on BVec2/3/4 and BVec3A/4A, with BVec3A/4A values produced "
         "by constructors and by vector comparisons whose hidden lane is false, true or NaN-derived; select over all masks x token operands "
         "on 34 vector types; the six comparisons over the C01 float lattice (NaN, +-0, +-inf) and the C13 integer lattice."),
   note="Trusted: TLC, harness mask.rs. Hash is required to be a function of the lanes, not byte-identical between BVec3 and BVec3A.",
   ref="5 (C15)"),
 "C14": dict(
   technique="TLA+ conversion semantics on arbitrary-precision integers and exact IEEE scalars (wrap, saturating truncation, round-to-nearest), TLC enumeration over boundary lattices, replay on all 350 as_ casts / 70 From / 156 TryFrom impls; plus TLC trace validation (Trace_Lanes.tla) of conversions recorded on random values",
   text=("MC_C14 defines `as` (int->int wrap, float->int truncate+saturate with NaN->0, int->float and f64->f32 round to nearest even), "
         "From (must be lossless: range inclusion is a TLC-checked theorem) and TryFrom (Ok iff every lane fits) and enumerates every "
         "ordered scalar pair over lattices made of each type's extremes and every narrower target's boundaries +-1; TLC also checks "
         "int->float->int round trips and identity on fitting values. The harness discovers every as_*/From/TryFrom impl between the 34 "
         "vector types from the sources and replays each case in four lane rotations (TryFrom additionally with each value alone in each "
         "lane), and lane-moving conversions (extend/truncate, tuple pairs, Vec3<->Vec3A, Quat<->Vec4, masks) on tokens bit-for-bit."),
   note="Trusted: TLC, Big/Ieee modules (cross-checked against the Rust `as` cast on every lane: disagreement = tool error), gen_conv.py source scan. Not decided: all 2^32 f32 patterns.",
   ref="5 (C14)"),
 "C08": dict(
   technique="TLA+ typed register machine with hidden-lane taint (self-composition invariant), TLC enumeration of all two-step programs, each executed once per hidden payload with bit-identical observations required",
   text=("MC_C08 models Vec3A/Mat3A/Affine3A/BVec3A registers whose hidden lane is copy/injected/garbage; no operation of the "
         "specification can read it, which is the self-composition invariant. TLC enumerates every well-typed program of two steps over 99 "
         "operations; the harness executes each program under 12 hidden payloads (0.5, MAX, +-inf, quiet/signalling NaN, all-ones, -0, "
         "subnormal, +-1000, copy of z) injected through every public route, and after every step requires ~400 observation words "
         "(all accessors, reductions, comparisons, mask queries, conversions, products, inverses, Debug/Display of all registers) to be "
         "bit-identical across payloads, in sse2 (debug+release) and core-simd builds."),
   note="Trusted: TLC, harness hid.rs. Oracle = agreement across payload runs; absolute values are decided by C01/C03/C06/C15/C16.",
   ref="5 (C08)"),
 "C09": dict(
   technique="TLA+ exact rotations over the ring Z[sqrt2,1/2] (Euler sequences defined from the variant spelling, Rodrigues on lattice axes), TLC-checked rotation theorems, replay with a stated tolerance; relational rebuild checks for extraction and near gimbal lock",
   text=("Rot.tla defines elemental rotations by the right-hand rule, Rodrigues' formula on the 18 lattice axes and EulerMat(order) from the "
         "letters of the variant name (Ex reversed); TLC checks every constructed matrix is in SO(3), the axis is fixed, angle addition, "
         "periodicity, quaternion/matrix agreement on quarter turns and the intrinsic/extrinsic duality, then enumerates constructors and "
         "24 orders x 45-degree angle triples (gimbal lock on the grid). The harness compares Quat/Mat3/Mat3A/Mat4/Affine3A/Mat2/Affine2 "
         "and f64 forms with the exact ring values (tolerance 1e-5 / 1e-12, two orders above rounding and four below any convention "
         "error), requires extraction to rebuild the rotation, and bounds to_euler's rebuild error by 64 eps/d at distances 1e-2..1e-7 "
         "from the singularity; sse2 (debug+release), scalar-math, core-simd and libm builds."),
   note="Trusted: TLC, harness rot.rs tolerance comparison. Off-grid angles and body-diagonal axes are covered only relationally; growth inside 1e-7 of gimbal lock undecided.",
   ref="5 (C09)"),
 "C05": dict(
   technique="TLA+ conversion graph (9 representations, 38 conversion functions) with the action-preservation property; TLC enumerates every chain of up to 4 conversions from exact grid rotations; homomorphism laws exactly on integer affine maps and Hurwitz quaternions",
   text=("MC_C05 makes each public conversion an edge whose effect on the abstract action (the exact rotation matrix over Z[sqrt2,1/2]) is "
         "the identity (action property ActionPreserved); TLC enumerates all chains of length <= 4 from seed rotations on the 45-degree "
         "grid, labelled with the matrix->quaternion branch they fall in (all four are reached and counted). The harness walks each chain "
         "on the real types and after every hop compares the image of three probe vectors through every applying method (q*v, M*v, "
         "transform_point/vector, project_point) with the exact matrix; conversion commuting with composition, inversion and identity is "
         "checked exactly on integer affine maps (MC_C03 aff family) and Hurwitz quaternions (MC_C04)."),
   note="Trusted: TLC, harness rot.rs/lin.rs. Tolerance 4e-5 (f32 involved) / 1e-11 (f64 only). Rotations within 1e-3 of 0/pi about arbitrary axes not enumerated.",
   ref="5 (C05)"),
 "C10": dict(
   technique="TLA+ exact T*R*S composition over the ring (scales +-2^j, grid rotations, integer translations) with TLC-checked determinant/orthogonality theorems; replay of every constructor and relational decomposition checks",
   text=("MC_C10 defines Compose(s,R,t) = T R S exactly (columns of R scaled, translation last) and TLC checks det = product of scales, "
         "orthogonal columns of the given lengths and the determinant-sign predicate on every enumerated case: all 8 (3-D) / 4 (2-D) sign "
         "patterns x magnitude patterns x dense grid rotations x translations. The harness compares each from_* constructor and the "
         "documented product of elementary constructors on Mat4/DMat4/Affine3A/DAffine3/Affine2/DAffine2/Mat3/Mat3A/DMat3/Mat2 with the "
         "exact matrix (last row/column exactly), and checks to_scale_rotation_translation / to_scale_angle_translation relationally: "
         "translation exact, unit rotation, negative x scale iff det < 0, recomposition reproduces the transform."),
   note="Trusted: TLC, harness rot.rs. Scale magnitudes are powers of two; arbitrary magnitudes in [1e-3,1e3] are not enumerated.",
   ref="5 (C10)"),
 "C11": dict(
   technique="TLA+ exact view construction over the ring with its defining properties as TLC-checked theorems, and projection constructors specified by their plane mappings with exact dyadic clip coordinates; replay with a stated tolerance",
   text=("MC_C11 builds look_to_rh/lh exactly over Z[sqrt2,1/2] and TLC proves on every enumerated (eye, dir, up) that the result is rigid "
         "(orthonormal, det +1), sends the eye to the origin, dir to -Z/+Z and up into the +Y half of the YZ plane; projections are defined by "
         "the documented depth mapping (near/far -> [-1,1], [0,1], infinite, reverse), fov/box planes -> +-1 and clip w = -+z, with TLC "
         "checking the promises at the near/far planes and frustum containment. The harness compares look_to/look_at of Mat4/DMat4/"
         "Affine3A/DAffine3/Mat3/Mat3A/Quat/DQuat with the exact matrix (non-perpendicular up hints, off-axis eyes, both handednesses) and "
         "M*(p,1), project_point3, transform_point3 of all 10 projection constructors on 48-100 probe points per parameter set."),
   note="Trusted: TLC, harness rot.rs tolerance comparison (4e-5 / 4e-12 relative). Parameters off the dyadic grids are not enumerated.",
   ref="5 (C11)"),
 "C12": dict(
   technique="TLA+ exact lerp family (Ieee), exact single-axis quaternion/vector interpolation over the ring with the shorter-arc rule as arithmetic on eighth-turns, relational statements for arcs/orthonormal bases/move/clamp; TLC enumeration and replay",
   text=("MC_C12 computes vector lerp/midpoint and FloatExt lerp/inverse_lerp exactly (TLC checks the end points are hit exactly for finite "
         "operands), models slerp/lerp/rotate_towards between rotations about one axis as integer arithmetic on eighth-turns with the "
         "shorter-arc flip (q vs -q) and checks both ends are reached, and enumerates planar rotate_towards/slerp of vectors with "
         "different lengths, positive/zero/overshooting/negative steps. The harness compares Quat/DQuat and Vec2/Vec3/Vec3A/DVec results "
         "with the exact grid rotation, and evaluates the stated relations for from_rotation_arc(_colinear/_2d) over all lattice "
         "direction pairs, any_orthogonal/orthonormal vector/pair over the lattice sphere (z = -1 included), move_towards on Pythagorean "
         "segments and clamp_length(_min/_max)."),
   note="Trusted: TLC, harness interp.rs. Tolerances 2e-4 (f32 angle-derived; polynomial arccos/sine) / 1e-9 (f64); angle = s*theta between lattice arcs undecided.",
   ref="5 (C12)"),
 "C18": dict(
   technique="TLA+ call machine over a generated vocabulary of 839 public float functions x argument slots x special values (specified outcome: returns), and a slice/index model with canary tokens; replay under catch_unwind in five builds including AddressSanitizer",
   text=("tools/gen_c18.py produces from one table both spec/C18Ops.tla and the harness dispatch, so the specification quantifies over "
         "exactly the functions the harness can call. MC_C18 enumerates every function x slot x {all lanes, each lane/entry} x 9 special "
         "values and 8 special pairs per slot pair with the specified outcome 'returns'; MC_C18b models from_slice/write_to_slice/"
         "from_cols_slice/write_cols_to_slice on canary sequences (panic iff short, destination unchanged on panic, exactly N elements "
         "touched; TLC checks these as theorems) and Index/IndexMut/col/col_mut/row/minor for every index 0..N+2 and usize::MAX. "
         "Replayed with exactly-sized heap buffers in sse2 (debug+release), scalar-math, core-simd and a nightly AddressSanitizer build, "
         "where a sanitizer report is a violation."),
   note=("Trusted: TLC, the function table (a function missing from the table is not covered), harness safe.rs/safety.rs. Memory safety is "
         "observed on the replayed behaviours, not proved. Integer panics are decided by C13, mask test/set by C15."),
   ref="5 (C18)"),
 "C19": dict(
   technique="TLA+ serial form (token stream, acceptance by length, padding-freedom, row/column listings) for all 52 value types, TLC enumeration of every length 0..N+2, replay through an exact recording Serializer/Deserializer, bytemuck/rkyv/mint and cross-build JSON comparison",
   text=("MC_C19 defines for every public value type its serde token stream TupleStruct(name, N), e1..eN, End, acceptance of an element "
         "sequence iff its length is N, padding-freedom (storage = N x scalar size) and the row-major listing of matrices; TLC enumerates "
         "every type x every sequence length 0..N+2. The harness drives the real impls with an in-memory token-stream Serializer and "
         "Deserializer (exact names, hints, element types and bits; hint-honouring and hint-ignoring carriers), serde_json round trips whose "
         "texts are compared between the SIMD, scalar-math and core-simd builds, bytemuck byte images/zeroed/a compile-time Pod probe "
         "(Pod only without padding), rkyv archive round trips and mint column/row matrix layouts."),
   note="Trusted: TLC, harness ser.rs (recording serde carrier). Element palette instead of all bit patterns; rkyv only for implementing types.",
   ref="5 (C19)"),
 "C20": dict(
   technique="TLA+ type-state machine over precondition classes (invariant OutputsMeetPreconditions, configuration-independent Outcome), TLC enumeration of all two-step chains and simulation of length-12 chains, replay in builds with and without glam-assert, and TLC two-trace validation of bit identity",
   text=("MC_C20 types registers by the precondition class later consumers rely on and gives each of 115 operations the postcondition that it "
         "re-establishes the class of the register it writes; TLC checks OutputsMeetPreconditions and that Outcome(op, cfg) differs between "
         "configurations only for the 12 documented violations, enumerates every two-step chain and simulates chains of length 12. The "
         "harness executes each chain from seeded off-lattice register files in sse2, scalar-math and their glam-assert builds: after every "
         "step the written register must pass glam's own check (is_normalized, affine last row, normalised axes, det != 0), no valid chain "
         "may panic under glam-assert, every violating call must panic there and only there; a digest of all register bits after every "
         "step is recorded and spec/Trace_SameBits.tla (TLC trace validation) requires the traces of the builds with and without the "
         "feature to be identical event by event."),
   note="Trusted: TLC, the operation table tools/gen_c20.py (an operation missing from it is not covered), harness chain.rs.",
   ref="5 (C20)"),
 "C07": dict(
   technique="one TLA+ specification replayed in every build (SSE2 debug/release, scalar-math, core-simd, +fma/+avx2), plus TLC two-trace validation of recorded executions: bit-identical across CPU features (Trace_SameBits), within re-association slack SIMD vs scalar (Trace_Near)",
   text=("The exact-lattice behaviours of MC_C01 (element-wise API incl. fma-sensitive mul_add points), MC_C03 (matrices, affine) and MC_C04 "
         "(quaternions) are replayed in default SSE2, scalar-math, core-simd, SSE2 release and +fma,+avx2 builds: every build must equal the "
         "one specification, hence each other (bit for bit, which on the lattice is also the 'no FMA slips in' claim). TLC-simulated chains "
         "of up to 8 operations over the SIMD-backed types from off-lattice seeds, and the two-step programs of MC_C08, are executed with "
         "identical seeds in each build and recorded; spec/Trace_SameBits.tla requires the +fma,+avx2 (and target-cpu=native in thorough) "
         "trace to equal the baseline trace event by event, and spec/Trace_Near.tla requires the scalar-math and core-simd traces to "
         "agree with the SSE2 trace within 2^-13 + 2^-12 relative (Q14)."),
   note="Trusted: TLC, harness chain.rs/hid.rs digests. SIMD-vs-scalar agreement off the lattice only to the Q14 tolerance, not the analytic bound. NEON/wasm32 not executable.",
   ref="5 (C07)"),
 "C02": dict(
   technique="TLA+ exact geometry on integer/Pythagorean lattices with TLC-checked identities, an Ieee model of the normalize fallback rule, and TLC trace validation (arbitrary-precision integers) of the error bound on recorded calls with arbitrary f32 inputs",
   text=("MC_C02 enumerates integer vector pairs (exact dot/cross/perp_dot/length_squared/distance_squared/element sums; TLC checks orthogonality "
         "of the cross product, Lagrange's identity, antisymmetry), Pythagorean tuples x power-of-two scales for length/length_recip/"
         "distance/normalize family, the fallback rule of the normalize family on zero/subnormal/underflowing/overflowing/non-finite inputs "
         "computed with the Ieee model of length_squared, projections/reflections as exact rationals (TLC checks parallel/orthogonal), and "
         "integer pairs at angles k*pi/12 (TLC checks cos^2). spec/Trace_C02.tla then judges recorded executions: the harness logs every "
         "factor and the returned value of 20 sum-of-products calls per random input (24-bit mantissas, orthogonal / nearly parallel / "
         "opposite partners, Vec3A with foreign hidden lanes) and TLC accepts an event iff |got - exact| <= 6*2^-24*sum|terms|, computed "
         "exactly with spec/Big.tla."),
   note="Trusted: TLC, Big.tla, harness geom.rs logging of factors. acos_approx accuracy between lattice angles is bounded only by 2e-4; f64 error bound not trace-validated.",
   ref="5 (C02)"),
}

PENDING = {}

# code -> spec direction added to the checks after the first round: appended to the technique / text of each property
TRACE = {
 "C02": ("TLC trace validation of recorded calls: sum-of-products bound (Trace_C02, Trace_Poly incl. f64) and the normalize / parallel-angle relations (Trace_Rel, exact dyadic arithmetic)",
         "Recorded executions on random inputs are consumed by TLC: |got - exact| <= K u sum|terms| with the polynomials defined in the specification, and relational promises (unit length within 16u, parallel to the input; angle of parallel dense vectors finite and 0 or pi) decided with exact dyadic rationals."),
 "C03": ("TLC trace validation on random real matrices: A*B, A*v, determinant (Leibniz) within K u sum|monomials| (Trace_Poly), entry-wise operations correctly rounded (Trace_Lanes / IeeeW)",
         "Recorded products, determinants and transforms of random real matrices are judged by TLC against the defining polynomials evaluated with arbitrary-precision integers; entry-wise +, -, scalar * and / must be the correctly rounded IEEE result; inverse(M) must satisfy |det| |(M X - I)_ij| <= 64 u sum_k |M_ik| (P_kj + Perm |X_kj|) and its mirror, a polynomial form of 'epsilon times the condition number'."),
 "C04": ("TLC trace validation on random unit quaternions: Hamilton product and q v q* within K u sum|monomials| (Trace_Poly), component-wise operations correctly rounded (Trace_Lanes)",
         "q*p and q*v for random unit quaternions (angles from 3e-5 to pi) are judged against the polynomial expansion of the Hamilton product / the sandwich q v q*."),
 "C05": ("TLC trace validation: every from_quat / from_mat* pair on random rotations satisfies the quaternion-to-matrix polynomial (Trace_Rel quat_mat)",
         "Random rotations (tiny, generic, nearly half-turn: all four extraction branches) are converted in both directions; TLC checks the quaternion-to-matrix polynomial entry by entry."),
 "C06": ("TLC trace validation: random access histories against the register machine (Trace_C06 extends MC_C06), M*v and transform_point on random reals (Trace_Poly)",
         "Random histories of constructors, entry writes and reads of every matrix / affine type are validated as actions of the MC_C06 machine; M*v = sum v[c] col(c) and transform_point = linear*p + translation are judged on random reals."),
 "C08": ("TLC trace validation of all runs: the observation digest of a program step never depends on the hidden-lane payload (Trace_C08)",
         "Every run (program x payload) is logged step by step; TLC accepts the log iff the digest of everything observable is a function of program and step alone."),
 "C09": ("TLC trace validation on random angles: the 24 Euler products from logged elementary rotations, axis-angle constructors and extractions (Trace_Rel euler, quat_mat)",
         "from_euler of every variant must equal the product of the three logged elementary rotations in the order the variant's name spells (elementary rotations checked for their exact 0/1 pattern and right-hand sign); to_euler and to_axis_angle rebuild the rotation."),
 "C10": ("replayed also in the glam-assert builds with scales 2^-10..2^10 and translations to 40; determinant = product of scales", ""),
 "C11": ("TLC trace validation of the view and projection promises on random parameters, |dir x up| >= 2e-3, far/near <= 1e6 (Trace_Rel view, proj)",
         "look_to/look_at on random eye/dir/up: rigid, eye to origin, dir to -+Z, up into the +Y half-plane with roll <= 2^9 u/|dir x up|; projections: zero pattern, clip w, near/far planes to the documented depths, fov/box planes to +-1, all decided with exact dyadic arithmetic."),
 "C12": ("TLC trace validation on random inputs: move_towards, slerp at j/8 through Chebyshev polynomials of the cosines, rotate_towards within reach, parallel angles (Trace_Rel)",
         "With c = <q0, r_1>: T_8(c) = |<q0,q1>|, <q0,r_j> = T_j(c), <+-q1,r_j> = T_(8-j)(c) decide that the angle from the start is j/8 of the total along the shorter arc, for arcs from 0.002 to 2.9 rad; move_towards returns the target once within reach and otherwise a step of length d towards it."),
 "C17": ("TLC trace validation: random access histories of every vector type against the actions of Access.tla (Trace_C17)",
         "Each logged constructor / write / read over random bit patterns is one action of the register machine with its arguments bound; the logged observation must be the register the action leaves."),
}
# later additions (appended to the entries above, or new entries)
MORE = {
 "C01": ("the fold machine MC_Fold (Sum / Product over 0..3 items incl. the empty iterator) replayed on the float vectors", ""),
 "C03": ("MC_Fold on the matrix types; negation judged with the sign of zero; inverse also on operands scaled by exact powers of two; Mat3A lattice columns with poisoned hidden lanes", ""),
 "C04": ("MC_Fold on Quat / DQuat; normalize relation on arbitrary and nearly-unit quaternions (Trace_Rel); Vec3A operands with poisoned hidden lanes", ""),
 "C06": ("MC_Fold on matrices and affine transforms (order of iterated products); Affine2 <-> Mat3A products; transform_vector with a non-finite translation", ""),
 "C07": ("the slerp relations (slerp8, slerp_int) validated per backend, the conversion machine of C14 and the entry-wise matrix record in every backend", ""),
 "C09": ("every constructor also compared with (cos, sin) of the angle actually passed (f64 evaluation) at 4 eps, angles of up to 125 turns", ""),
 "C10": ("off-grid cases (angles off the 45-degree grid, scales away from the powers of two) judged by round trip and mutual agreement to 8..64 eps; translations up to 2^121 / 2^1017 times larger than the linear part", ""),
 "C12": ("slerp extrapolated to integer factors with a tolerance from the exact conditioning k U_{k-1}(D) (Chebyshev second kind), vector slerp incl. exactly opposite operands, rotate_towards length, clamp_length, orthonormal companions, rotation arcs incl. opposite vectors unit to a few ulp", ""),
 "C13": ("MC_Fold on the integer vectors; placed-extremes patterns for the two-vector reductions", ""),
 "C15": ("TLC trace validation of random mask histories against the actions of MC_C15 (Trace_C15), observations incl. the lanes as seen by select", "Random histories (constructors, !, six binary operator forms with operand masks from every producer, set, out-of-range test/set) of BVec2/3/4 and BVec3A/4A are validated as actions MaskCtor / MaskNot / MaskBin / MaskSet of the mask machine."),
 "C16": ("TLC trace validation of random swizzle histories (Trace_C16: getters written back, setters incl. value-equal twins) on the index maps of Swizzle.tla", "Random histories of getters (written back when they have the register's length) and with_ setters are validated event by event on SwzGet / SwzWith with the documented result type."),
 "C18": ("slices also at element offset 1 of their allocation; the access machine of C17 and the mask machine under the C18 builds (AddressSanitizer included)", ""),
 "C20": ("the extrapolating-slerp postcondition (Trace_Rel slerp_int) with and without assertions; a release build with glam-assert", ""),
}
for _pid, (_t, _x) in MORE.items():
    if _pid in TRACE:
        TRACE[_pid] = (TRACE[_pid][0] + "; " + _t, TRACE[_pid][1] + (" " + _x if _x else ""))
    else:
        TRACE[_pid] = (_t, _x)
for _pid, (_t, _x) in TRACE.items():
    CHECKS[_pid]["technique"] = CHECKS[_pid]["technique"] + "; plus " + _t
    if _x:
        CHECKS[_pid]["text"] = CHECKS[_pid]["text"] + " Code -> spec: " + _x

def main():
    props = [json.loads(l) for l in open(os.path.join(core.VERIF, "properties.jsonl"))]
    checks = []
    na = []
    for p in props:
        pid = p["id"]
        if pid in CHECKS:
            c = CHECKS[pid]
            checks.append({
                "property_id": pid,
                "quick_cmd": f"./check {pid} --tier quick",
                "thorough_cmd": f"./check {pid} --tier thorough",
                "evidence_file": f"/verif/evidence/{pid}.json",
                "replay_cmd_template": f"./check {pid} --replay {{path}}",
                "engine": "tla-glamvm",
                "level_claimed": {"category": "model_checking", "text": c["text"], "design_ref": "DESIGN.md section " + c["ref"]},
                "level_note": c["note"],
                "technique": c["technique"],
            })
        else:
            na.append({"property_id": pid, "reason": PENDING.get(pid, "check under construction in this round: specification module and replay family not built yet")})
    m = {
        "version": 1,
        "setup_cmd": "./setup.sh",
        "hooks": {"guard": "glam_rs_verif", "enable": "none needed: the public API exposes the whole abstract state (DESIGN 3.4)",
                  "baseline_off_cmd": BASELINE_OFF, "source_commits": [], "add_only": True},
        "engines": [{"name": "tla-glamvm", "path": "/verif/spec", "serves_properties": sorted(CHECKS),
                     "kind_free_text": "explicit TLA+ specification (spec/*.tla) checked with TLC; TLC-generated behaviours replayed into the real code by harness/ (Rust) in several build configurations, and recorded executions validated against the specification by TLC"}],
        "checks": checks,
        "not_applicable": na,
        "notes": "Genuine defects found by the checks were repaired with fix: commits in /repo (see known_findings.json, DESIGN.md section 7).",
    }
    json.dump(m, open(os.path.join(core.VERIF, "MANIFEST.json"), "w"), indent=1)
    print(f"MANIFEST.json: {len(checks)} checks, {len(na)} not_applicable")

if __name__ == "__main__":
    main()
