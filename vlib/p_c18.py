"""C18: only documented panics occur and no access goes out of bounds."""
import os
from . import core

CFGS = ["sse2", "sse2-rel", "scalar", "coresimd", "asan"]
CFGS_THOROUGH = CFGS + ["scalar-rel", "asan-coresimd"]
TYPES = ["Vec2", "Vec3", "Vec3A", "Vec4", "DVec2", "DVec3", "DVec4", "Quat", "DQuat", "Mat2", "DMat2", "Mat3", "Mat3A", "DMat3",
         "Mat4", "DMat4", "Affine2", "DAffine2", "Affine3A", "DAffine3"]


def run(res, only=None):
    cfgs = CFGS if res.tier == "quick" else CFGS_THOROUGH
    cfgs = [c for c in cfgs if not only or c in only]
    wd = os.path.join(core.WORK, res.prop)
    os.makedirs(wd, exist_ok=True)
    a = os.path.join(wd, "nopanic.out")
    res.add_tlc(core.run_tlc("MC_C18", res.tier, a, workers=8, extra_constants={"Seed": res.seed % 97}))
    core.replay_bin(res, "safe", a, cfgs, expect_ops=TYPES, tag="nopanic", sanitizer_prop="C18", env_extra={"HX_SEED": str(res.seed)})
    b = os.path.join(wd, "slices.out")
    res.add_tlc(core.run_tlc("MC_C18b", res.tier, b, workers=4))
    expect = [f"{k}:{c}" for k in ("write", "from") for c in ("vec2", "vec3", "vec4", "quat", "mat2", "mat3", "mat4", "aff2", "aff3")] + \
             ["index:vec3", "index_mut:vec4", "col:mat3", "col_mut:mat4", "row:mat2", "minor:mat3", "minor:mat4"]
    core.replay_bin(res, "safe", b, cfgs, expect_ops=expect, tag="slices", sanitizer_prop="C18")
    # mask types: test(i) / set(i, v) panic exactly for i >= N (the mask register machine of MC_C15, replayed here in C18's builds)
    c = os.path.join(wd, "mask.out")
    res.add_tlc(core.run_tlc("MC_C15", res.tier, c, workers=6))
    core.replay_bin(res, "mask", c, [x for x in cfgs if not x.startswith("asan")], tag="mask", env_extra={"HX_PROP": "C18"}, expect_ops=["mask:badindex", "mask:set"])
    # every access path and conversion of the SIMD-backed vectors (arrays, tuples, slices, AsRef, fields) under AddressSanitizer: an
    # over-wide store into a stack temporary is invisible natively
    acs = [x for x in cfgs if x.startswith("asan")]
    if acs:
        d = os.path.join(wd, "access.out")
        res.add_tlc(core.run_tlc("MC_C17", res.tier, d, workers=4))
        core.replay_bin(res, "tok", d, acs, tag="access", env_extra={"HX_PROP": "C18"}, sanitizer_prop="C18", expect_ops=["acc:read:into_tuple", "acc:read:into_array"])
    res.rule = ("no-panic: 839 public float functions of 20 types (table tools/gen_c18.py, shared by specification and harness) x every "
                "argument slot x {all lanes, each single lane/entry} x 9 special values (0, -0, subnormal, 2^-80, 2^70, +-inf, NaN, MAX) plus "
                "8 special pairs in every pair of slots, plus 6 (quick) / 96 (thorough) draws with EVERY slot filled from a seeded pseudo-random mix "
                "of finite, special and arbitrary bit patterns; slices: every class (vec2/3/4 of all 11 scalar families, quat, mat2/3/3A/4, affine) "
                "x from/write x every length 0..N+4 as exactly-sized heap allocations of canary tokens (panic iff short, destination untouched "
                "on panic, exactly N elements read/written); Index/IndexMut/col/col_mut/row/minor for indices 0..N+2 and usize::MAX; all of it "
                "also in a nightly AddressSanitizer build (a sanitizer report is a violation).")
    res.assumptions = ["memory safety is observed (ASan) on the replayed behaviours, not proved", "integer overflow / division panics are decided by C13"]


def replay(res, path, only=None):
    return core.replay_dispatch(res, path, "safe", env_keys=())
