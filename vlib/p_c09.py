"""C09: rotation constructors and all 24 Euler orders follow the documented conventions."""
import os
from . import core

CFGS = ["sse2", "sse2-rel", "scalar", "coresimd", "libm"]


def rot_cases(res, cfgs, prop=None):
    wd = os.path.join(core.WORK, res.prop)
    os.makedirs(wd, exist_ok=True)
    cases = os.path.join(wd, "rot.out")
    res.add_tlc(core.run_tlc("MC_C09", res.tier, cases, workers=8, extra_constants={"Seed": res.seed % 97}))
    core.replay_bin(res, "rot", cases, cfgs, expect_ops=["axis", "axis_angle", "euler", "angle2", "euler_near"],
                    env_extra={"HX_PROP": prop or res.prop}, tag="rot")


def run(res, only=None):
    cfgs = [c for c in CFGS if not only or c in only]
    rot_cases(res, cfgs)
    # code -> spec on RANDOM angles (Trace_Rel.tla): from_euler of all 24 variants equals the product of the three elementary rotations in the
    # order the variant's name spells (elementary rotations checked for their exact 0/1 pattern, equal cosines, opposite sines, right-hand
    # sign); to_euler rebuilds it; axis-angle constructors and extractions agree with the quaternion-to-matrix polynomial
    core.record_and_validate(res, "rel", [c for c in cfgs if c != "sse2-rel"], draws=1 if res.tier == "quick" else 40, module="Trace_Rel",
                             chunks=4 if res.tier == "quick" else 8, expect_kinds=("rel",), ops=["euler", "quat_mat"])
    res.rule = ("exact ring Z[sqrt2,1/2] expectations: from_rotation_x/y/z and from_axis_angle for angles k*45deg (|k|<=9, i.e. beyond "
                "+-2pi) on the 18 lattice axes (coordinate axes and face diagonals), from_scaled_axis, 2-D from_angle/rotate/to_angle/perp, "
                "from_euler for all 24 orders x angle triples of the 45-degree grid (all 8^3 in thorough, 1/3 stride in quick; gimbal lock is "
                "on the grid) on Quat/Mat3/Mat3A/Mat4/Affine3A and f64 forms; extraction (to_euler, to_axis_angle, to_scaled_axis) must "
                "rebuild the rotation; to_euler at distances 1e-2..1e-7 from the singularity must rebuild within 64 eps/d. "
                "Tolerance 1e-5 (f32) / 1e-12 (f64) scaled by the angle; non-trivial = angle not a multiple of a full turn.")
    res.assumptions = ["sin/cos of k*pi/4 computed in floating point are within 1e-7 (f32) / 1e-15 (f64) of the ring value, two orders below the tolerance",
                       "body-diagonal axes (1/sqrt3) and angles off the grid are not covered exactly; error growth inside (0, 1e-7) of gimbal lock is not decided"]


def replay(res, path, only=None):
    return core.replay_dispatch(res, path, "rot", env_keys=())
