"""C08: the unused fourth lane of Vec3A/Mat3A/Affine3A/BVec3A never influences a result."""
import os
from . import core

CFGS = ["sse2", "sse2-rel", "coresimd"]


def run(res, only=None):
    cfgs = [c for c in CFGS if not only or c in only]
    wd = os.path.join(core.WORK, res.prop)
    os.makedirs(wd, exist_ok=True)
    cases = os.path.join(wd, "programs.out")
    res.add_tlc(core.run_tlc("MC_C08", res.tier, cases, workers=8, extra_constants={"MaxLen": 2}))
    stride = "4" if res.tier == "quick" else "1"
    expect = ["add", "cross", "transpose", "inverse", "cmpeq", "not", "select", "mat_mul_vec3a",
              "transform_point3a", "mul_a", "inject", "inject_m", "inject_a", "min", "quat_mul"]
    core.replay_bin(res, "hid", cases, cfgs, env_extra={"HX_STRIDE": stride, "VERIF_SEED": str(res.seed), "HX_PTRACE": os.path.join(wd, "payload.%CFG%.ndjson")},
                    expect_ops=expect)
    for cfg in cfgs:
        # the decision: TLC consumes one event per (program, payload, step) and accepts iff the observation digest never depends on the payload
        core.validate_trace(res, "Trace_C08", os.path.join(wd, f"payload.{cfg}.ndjson"), cfg, cfg=cfg)
    res.rule = ("TLC enumerates every well-typed program of two steps over 99 operations x register choices of the typed register "
                "machine (Vec3A, Mat3A, Affine3A, BVec3A registers, all initially injected); each program (1/4 stride in quick, all "
                "in thorough) is executed once per hidden payload {copy of z, 0, 0.5, MAX, +-inf, qNaN, sNaN, all-ones, -0, subnormal, "
                "+-1000} injected through from_vec4 / From<__m128> / Mat4->Affine3A / comparisons of tainted vectors; after every step "
                "about 400 observation words (every accessor, reduction, comparison, conversion, product, Debug/Display of every "
                "register) must be bit-identical across payloads: the harness localises a difference, TLC (Trace_C08.tla) decides on the trace of "
                "all runs (one digest per program, payload and step).")
    res.assumptions = ["the oracle is agreement between runs that differ only in hidden lanes (the property's own statement); "
                       "absolute values of the same operations are decided by C01/C03/C06/C15/C16",
                       "the lane does not exist under scalar-math; NEON/wasm32 not executable here"]


def replay(res, path, only=None):
    return core.replay_dispatch(res, path, "hid", env_keys=())
