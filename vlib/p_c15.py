"""C15: comparison masks, select and the mask algebra behave as lane-wise booleans."""
import os
from . import core

CFGS = ["sse2", "sse2-rel", "scalar", "coresimd", "fma"]   # fma: +fma,+avx2 (implies sse3 .. sse4.2): feature-gated fast paths


def run(res, only=None):
    cfgs = [c for c in CFGS if not only or c in only]
    wd = os.path.join(core.WORK, res.prop)
    os.makedirs(wd, exist_ok=True)
    # (1) the mask register machine: all 2^N masks, all binary-operator pairs, set/test, bad indices
    a = os.path.join(wd, "mask.out")
    res.add_tlc(core.run_tlc("MC_C15", res.tier, a, workers=6))
    core.replay_bin(res, "mask", a, cfgs, tag="mask",
                    expect_ops=["mask:ctor", "mask:not", "mask:bin", "mask:set", "mask:badindex"])
    # (2) select with token operands for every mask value on every numeric vector type
    b = os.path.join(wd, "select.out")
    res.add_tlc(core.run_tlc("MC_C15s", res.tier, b, workers=2))
    core.replay_bin(res, "mask", b, cfgs, tag="select", expect_ops=["select"])
    # (3) comparison operators: float lattice (NaN, +-0, +-inf, extremes) and integer boundary lattice
    c = os.path.join(wd, "fcmp.out")
    res.add_tlc(core.run_tlc("MC_C01", res.tier, c, workers=8))
    core.replay_bin(res, "lane", c, cfgs, tag="fcmp", env_extra={"HX_PROP": "C15", "HX_KINDS": "c"},
                    expect_ops=["c:cmpeq", "c:cmpne", "c:cmplt", "c:cmple", "c:cmpgt", "c:cmpge"])
    d = os.path.join(wd, "icmp.out")
    res.add_tlc(core.run_tlc("MC_C13", res.tier, d, workers=12, extra_constants={"Seed": res.seed % 97, "Only": '"cmp"'}, timeout=7200))
    icfgs = [x for x in cfgs if x in ("sse2", "sse2-rel")] or cfgs[:1]
    core.replay_bin(res, "int", d, icfgs, tag="icmp", env_extra={"HX_PROP": "C15", "HX_KINDS": "b:cmp"})
    # (4) code -> spec: random histories (16 steps per draw and mask type) of the same machine, judged event by event by Trace_C15.tla
    core.record_and_validate(res, "mask", cfgs, draws=12 if res.tier == "quick" else 300, module="Trace_C15", chunks=1, expect_kinds=("mask",))
    res.exhaustive = True
    res.rule = ("mask machine: every two-step behaviour over {5 constructors x all 2^N masks, !, &,|,^ (+assign) x all 2^N operands, "
                "set(i,v), test/set with invalid indices} for N=2,3,4, with the full observation after every step (bitmask, any, all, "
                "test(i), ==, Hash, [bool;N], [u32;N], Debug, Display), on BVec2/3/4 and BVec3A/4A from several producers (constructor, "
                "vector comparisons with the hidden lane true/false/NaN-produced); select for all masks x token operands on 34 vector "
                "types; the six comparisons over the float lattice (C01 cases) and the integer boundary lattice (C13 cases).")
    res.assumptions = ["Hash is required to be a function of the lanes (and consistent with ==), not to feed identical bytes for BVec3 and BVec3A"]


def replay(res, path, only=None):
    import json
    fam = json.load(open(path)).get("case", {}).get("fam")
    return core.replay_dispatch(res, path, {"lane": "lane", "int": "int"}.get(fam, "mask"))
