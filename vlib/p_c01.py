"""C01: element-wise float vector ops equal the per-lane IEEE primitive on every backend."""
import os, json
from concurrent.futures import ThreadPoolExecutor
from . import core

CFGS_QUICK = ["sse2", "sse2-rel", "scalar", "coresimd", "fma", "libm"]
CFGS_THOROUGH = CFGS_QUICK + ["scalar-rel", "native"]
EXPECT_OPS = (["u:" + o for o in ("neg abs signum floor ceil trunc round fract fract_gl recip "
                                  "is_nan_mask is_finite_mask sign_mask").split()]
              + ["b:" + o for o in "add sub mul div rem min max copysign div_euclid rem_euclid".split()]
              + [k + ":" + o for k in ("vs", "sv") for o in "add sub mul div rem".split()]
              + ["c:" + o for o in "cmpeq cmpne cmplt cmple cmpgt cmpge eq".split()]
              + ["t:clamp", "t:mul_add", "t:abs_diff_eq"]
              + ["r:" + o for o in ("min_element max_element min_position max_position is_nan "
                                    "is_finite is_negative_bitmask").split()]
              + ["f:sum", "f:product"])


def lane_replay(res, cases, cfgs, prop_filter=None, env_extra=None):
    core.build_all(cfgs, ["lane"])
    def one(cfg):
        out = os.path.join(core.WORK, res.prop, f"lane.{cfg}.json")
        p = core.run_bin(cfg, "lane", [cases, out], env_extra=env_extra)
        if p.returncode != 0:
            raise core.ToolError(f"lane replay crashed in {cfg}: rc={p.returncode}\n{p.stderr[-2000:]}")
        core.log("  " + p.stdout.strip())
        return cfg, out
    with ThreadPoolExecutor(max_workers=8) as ex:
        outs = list(ex.map(one, cfgs))
    for cfg, out in outs:
        r = res.add_report(out, cfg)
        missing = [k for k in EXPECT_OPS if r["per_op"].get(k, 0) == 0]
        if missing:
            raise core.ToolError(f"vacuity guard: operations never exercised in {cfg}: {missing}")


def run(res, only=None):
    cfgs = CFGS_QUICK if res.tier == "quick" else CFGS_THOROUGH
    if only:
        cfgs = [c for c in cfgs if c in only]
    os.makedirs(os.path.join(core.WORK, res.prop), exist_ok=True)
    cases = os.path.join(core.WORK, res.prop, "cases.out")
    st = core.run_tlc("MC_C01", res.tier, cases, workers=8)
    res.add_tlc(st)
    lane_replay(res, cases, cfgs)
    res.rule = ("TLC enumerates call/return states over the lattice F1 (ties, 2^22..2^24, 2^31, 2^63, "
                "subnormals, extremes, +-0, +-inf, NaN); one case = one operation on 4-lane operand vectors; "
                "each is replayed in 4 lane rotations on 7 vector types through every spelling. "
                "non-trivial = some operand lane other than 0/1.")
    res.assumptions = ["harness projection fl.rs (bits <-> (sign, odd mantissa, exponent)) is exact (self-tested at start-up)",
                       "NEON/wasm32 sources cannot run here",
                       "lanes whose exact result needs more than 31-bit integers are not predicted (counted as skipped)"]


def replay(res, path, only=None):
    mm = json.load(open(path))
    case = mm["case"]
    os.makedirs(os.path.join(core.WORK, res.prop), exist_ok=True)
    cases = os.path.join(core.WORK, res.prop, "replay.ndjson")
    open(cases, "w").write(json.dumps(case) + "\n")
    cfg = mm.get("cfg", "sse2")
    core.build_all([cfg], ["lane"])
    out = os.path.join(core.WORK, res.prop, f"replay.{cfg}.json")
    p = core.run_bin(cfg, "lane", [cases, out], env_extra={"HX_ONLY_TY": mm["ty"]})
    r = json.load(open(out))
    print(json.dumps(r["mismatches"][:3], indent=1))
    if r["mismatch_count"]:
        print(f"VIOLATION property={res.prop} replay={path}")
        return core.EXIT_VIOLATION
    print("replay: no mismatch")
    return core.EXIT_OK
