"""C01: element-wise float vector ops equal the per-lane IEEE primitive on every backend."""
import os, json
from concurrent.futures import ThreadPoolExecutor
from . import core

CFGS_QUICK = ["sse2", "sse2-rel", "scalar", "coresimd", "fma", "libm"]
CFGS_THOROUGH = CFGS_QUICK + ["scalar-rel", "native"]
EXPECT_OPS = (["u:" + o for o in ("neg abs signum floor ceil trunc round fract fract_gl recip "
                                  "is_nan_mask is_finite_mask sign_mask").split()]
              + ["b:" + o for o in "add sub mul div rem min max copysign div_euclid rem_euclid".split()]
              + [k + ":" + o for k in ("vs", "sv") for o in "add sub mul div rem".split()]
              + ["c:" + o for o in "cmpeq cmpne cmplt cmple cmpgt cmpge eq".split()]
              + ["t:clamp", "t:mul_add", "t:abs_diff_eq"]
              + ["r:" + o for o in ("min_element max_element min_position max_position is_nan "
                                    "is_finite is_negative_bitmask").split()]
              + ["f:sum", "f:product"])



def run(res, only=None):
    cfgs = CFGS_QUICK if res.tier == "quick" else CFGS_THOROUGH
    if only:
        cfgs = [c for c in cfgs if c in only]
    os.makedirs(os.path.join(core.WORK, res.prop), exist_ok=True)
    cases = os.path.join(core.WORK, res.prop, "cases.out")
    res.add_tlc(core.run_tlc("MC_C01", res.tier, cases, workers=8))
    core.replay_bin(res, "lane", cases, cfgs, expect_ops=EXPECT_OPS)
    # Sum / Product of the float vectors are the lane-wise folds from ZERO / ONE, for 0..3 items (the fold machine MC_Fold.tla)
    core.fold_cases(res, [c for c in cfgs if c in ("sse2", "scalar", "coresimd", "sse2-rel")], ["vec"], scalar="float")
    # code -> spec: the same operations on RANDOM bit patterns, logged by `rec float` and judged by TLC (Trace_Lanes / IeeeW)
    rec_cfgs = [c for c in ("sse2", "scalar", "coresimd", "fma", "libm", "sse2-rel") if c in cfgs]
    core.record_and_validate(res, "float", rec_cfgs, draws=2 if res.tier == "quick" else 40,
                             chunks=2 if res.tier == "quick" else 8, expect_kinds=("f1", "f2", "f3", "fc", "fr"))
    res.rule = ("TLC enumerates call/return states over the lattice F1 (ties, 2^22..2^24, 2^31, 2^63, "
                "subnormals, extremes, +-0, +-inf, NaN); one case = one operation on 4-lane operand vectors; "
                "each is replayed in 4 lane rotations on 7 vector types through every spelling. "
                "non-trivial = some operand lane is a finite value other than +-1.  Code -> spec: every operation on random bit patterns "
                "(uniform bits, moderate exponents, quarter-integers, subnormals, 2^23/2^52/2^31/2^63 neighbourhoods, near-overflow; "
                "partners with equal exponent, opposite sign, neighbours, small multiples) recorded per build (2 draws x 7 types in quick, "
                "40 in thorough) and judged lane by lane by TLC with the arbitrary-precision model IeeeW (Trace_Lanes.tla).")
    res.assumptions = ["harness projection fl.rs (bits <-> (sign, odd mantissa, exponent)) is exact (self-tested at start-up)",
                       "NEON/wasm32 sources cannot run here",
                       "lanes whose exact result needs more than 31-bit integers are not predicted (counted as skipped)"]


def replay(res, path, only=None):
    return core.replay_dispatch(res, path, "lane")
