"""C10: scale-rotation-translation composition and decomposition are mutually consistent."""
import os
from . import core

CFGS = ["sse2", "sse2-rel", "scalar", "coresimd", "assert", "assert-scalar"]     # glam-assert builds: no in-domain call may trip an assertion


def run(res, only=None):
    cfgs = [c for c in CFGS if not only or c in only]
    wd = os.path.join(core.WORK, res.prop)
    os.makedirs(wd, exist_ok=True)
    cases = os.path.join(wd, "srt.out")
    res.add_tlc(core.run_tlc("MC_C10", res.tier, cases, workers=8, extra_constants={"Seed": res.seed % 97}))
    core.replay_bin(res, "rot", cases, cfgs, expect_ops=["srt3", "srt2", "srt3:offgrid", "srt2:offgrid", "srt3:huge"], env_extra={"HX_PROP": "C10"}, tag="srt")
    res.rule = ("3-D: scales +-2^j in all 8 sign patterns x magnitude patterns x dense grid rotations (Euler XYZ triples of the 45-degree grid: "
                "every matrix->quaternion branch) x integer translations on Mat4/DMat4/Affine3A/DAffine3: from_scale_rotation_translation, "
                "the product from_translation*from_quat*from_scale, from_rotation_translation, from_mat3_translation against the exact ring "
                "matrix (last row/column exact); to_scale_rotation_translation: translation exact, unit rotation, |scale| with negative x iff "
                "det < 0, recomposition. 2-D: all 4 sign patterns x 8 angles on Affine2/DAffine2/Mat3/Mat3A/DMat3/Mat2.")
    res.assumptions = ["scales are powers of two 2^-10 .. 2^10 (exact); other magnitudes in [1e-3,1e3] are not enumerated", "tolerance 4e-5*max|scale| (f32), 4e-12 (f64)"]


def replay(res, path, only=None):
    return core.replay_dispatch(res, path, "rot", env_keys=())
