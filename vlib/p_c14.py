"""C14: conversions between vector types match the primitive conversions lane by lane."""
import os
from . import core

CFGS = ["sse2", "sse2-rel", "scalar", "coresimd", "fma"]   # fma: +fma,+avx2 (implies sse3 .. sse4.2): feature-gated fast paths


def run(res, only=None):
    cfgs = [c for c in CFGS if not only or c in only]
    wd = os.path.join(core.WORK, res.prop)
    os.makedirs(wd, exist_ok=True)
    a = os.path.join(wd, "numeric.out")
    res.add_tlc(core.run_tlc("MC_C14", res.tier, a, workers=8, extra_constants={"Seed": res.seed % 97}))
    expect = ["ii:i8->u8", "ii:u64->i32", "ii:i32->i64", "if:i64->f32", "if:u32->f64", "fi:f32->i32", "fi:f64->u64",
              "fi:f32->u8", "ff:f64->f32", "ff:f32->f64"]
    core.replay_bin(res, "conv", a, cfgs, tag="numeric", expect_ops=expect)
    b = os.path.join(wd, "moves.out")
    res.add_tlc(core.run_tlc("MC_C14m", res.tier, b, workers=2))
    core.replay_bin(res, "conv", b, cfgs, tag="moves",
                    expect_ops=["move:extend", "move:truncate", "move:pair", "move:pair_front", "move:triple", "move:two",
                                "move:same", "move:mask"])
    # code -> spec: random source values through every as / From / TryFrom impl, judged by TLC (Trace_Lanes)
    core.record_and_validate(res, "conv", cfgs, draws=8 if res.tier == "quick" else 200, chunks=1 if res.tier == "quick" else 4, expect_kinds=("cv",))
    res.rule = ("numeric: every ordered pair of the 10 scalar kinds (usize with u64) x a source lattice (type extremes, boundaries of "
                "every narrower target +-1, 2^24/2^31/2^32/2^53/2^63 neighbourhoods; for floats NaN, +-inf, +-0, fractions, values just "
                "inside/outside each integer range, f64-only values that round/overflow/underflow in f32): 350 as_* casts, 70 From and "
                "156 TryFrom impls (found by scanning the sources), each in 4 lane rotations; TryFrom additionally with every value "
                "alone in every lane position; lane-moving conversions (extend, truncate, tuple pairs, Vec3<->Vec3A, Quat<->Vec4, masks) "
                "on token operands bit-for-bit, Vec3A sources from 6 hidden-lane contents.  Code -> spec: random source values (biased to the "
                "edges of the destination range, TryFrom with at most one offending lane) through every impl, recorded per build and judged by "
                "TLC with arbitrary-precision arithmetic (Trace_Lanes.tla: saturating truncation, nearest-even int->float and f64->f32, wrap).")
    res.assumptions = ["exhaustive 2^32 f32 patterns are not swept (lattice + boundaries); usize is 64 bit here",
                       "int->float results whose odd mantissa needs more than 31 bits are skipped"]


def replay(res, path, only=None):
    return core.replay_dispatch(res, path, "conv")
