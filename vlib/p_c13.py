"""C13: integer vectors are the exact lane-wise lift of Rust integer semantics."""
import os
from . import core

CFGS = ["sse2", "sse2-rel"]
CFGS_THOROUGH = ["sse2", "sse2-rel", "coresimd", "scalar"]


def run(res, only=None):
    cfgs = CFGS if res.tier == "quick" else CFGS_THOROUGH
    cfgs = [c for c in cfgs if not only or c in only]
    wd = os.path.join(core.WORK, res.prop)
    os.makedirs(wd, exist_ok=True)
    # the arbitrary-precision arithmetic of the model is validated against TLC's native integers first
    res.add_tlc(core.run_tlc("MC_Big", res.tier, os.path.join(wd, "big.out"), workers=8))
    # Sum / Product over iterators of 0..3 integer vectors (empty iterators included): the fold machine MC_Fold.tla
    core.fold_cases(res, cfgs, ["vec"], scalar="int")
    cases = os.path.join(wd, "cases.out")
    res.add_tlc(core.run_tlc("MC_C13", res.tier, cases, workers=12, extra_constants={"Seed": res.seed % 97},
                             timeout=7200))
    expect = []
    for t in ("i8", "u8", "i16", "u16", "i32", "u32", "i64", "u64"):
        for k in ("b:add", "b:mul", "b:div", "b:checked_add", "b:saturating_mul", "b:wrapping_sub", "b:cmplt",
                  "vs:add", "sv:sub", "sh:shl", "sh:shr", "shv:shl", "t:clamp", "r1:element_sum", "r2:dot",
                  "r2:manhattan_distance", "x:cross", "f:sum", "f:product", "u:not", "m:" + ("saturating_add_unsigned" if t[0] == "i" else "saturating_add_signed")):
            expect.append(f"{t}:{k}")
    core.replay_bin(res, "int", cases, cfgs, expect_ops=expect)
    # code -> spec: random operands of every width, logged by `rec int` in both profiles and judged by TLC (Trace_Lanes / IntLane)
    core.record_and_validate(res, "int", cfgs, draws=2 if res.tier == "quick" else 40, chunks=2 if res.tier == "quick" else 6,
                             expect_kinds=("i1", "i2", "i3", "im", "is", "ir1", "ir2"))
    res.exhaustive = res.tier == "thorough"
    res.rule = ("operand pairs: all 256x256 for the 8-bit types in the thorough tier (boundary lattice + 24 seeded values in quick); "
                "boundary lattice (MIN, MIN+1, -2^(w/2)+-1, small, 2^(w/2)+-1, 2^(w-2), MAX-1, MAX) for 16/32/64-bit; "
                "shift counts 0,1,w-1,w,w+1,2w,-1,... through every count type; each case in 4 lane rotations on the 2-, 3- and "
                "4-lane type (usize with u64); debug (overflow-checking) and release profiles. Every case counts as non-trivial.  Code -> spec: "
                "every operation on random operands (uniform, near MIN/MAX, 2^k+-1, half-width factors, quotients of the extremes) recorded "
                "per type and profile and judged by TLC with IntLane on arbitrary-precision integers (Trace_Lanes.tla).")
    res.assumptions = ["usize is 64 bit on this target", "exhaustive 16-bit pairs are not enumerated (boundary lattice instead)",
                       "spec/Big.tla limb arithmetic is validated against TLC native integers by MC_Big and against the Rust primitives lane by lane"]


def replay(res, path, only=None):
    return core.replay_dispatch(res, path, "int")
