"""C03: matrix product, transpose, determinant and inverse are the true ones."""
import os
from . import core

CFGS = ["sse2", "sse2-rel", "scalar", "coresimd", "fma"]
EXPECT = ["aff:aff_dense:2", "aff:aff_dense:3", "aff:aff_unimod:2", "aff:aff_unimod:3", "mat:bin01:4", "mat:grid3:3", "mat:dense:2", "mat:dense:3", "mat:dense:4", "mat:perm:4",
          "mat:unimod:2", "mat:unimod:3", "mat:unimod:4", "mat:pow2:3", "mat:pow2:4", "mat:rankdef:3", "mat:rankdef:4"]


def linalg_cases(res, cfgs, only_kinds=None, prop=None):
    wd = os.path.join(core.WORK, res.prop)
    os.makedirs(wd, exist_ok=True)
    cases = os.path.join(wd, "linalg.out")
    res.add_tlc(core.run_tlc("MC_C03", res.tier, cases, workers=12, extra_constants={"Seed": res.seed % 97}, timeout=7200))
    core.replay_bin(res, "lin", cases, cfgs, expect_ops=EXPECT, env_extra={"HX_PROP": prop or res.prop}, tag="linalg")


def run(res, only=None):
    cfgs = [c for c in CFGS if not only or c in only]
    linalg_cases(res, cfgs)
    # Sum / Product over iterators of 0..3 matrices are the folds from ZERO / IDENTITY in iteration order (MC_Fold.tla)
    core.fold_cases(res, cfgs, ["mat"])
    # code -> spec on arbitrary real matrices: products, matrix*vector and determinants recorded per build and judged by TLC against
    # |got - exact| <= K(op) * u * sum|monomials| with arbitrary-precision integers (Trace_Poly.tla defines the polynomials)
    core.record_and_validate(res, "poly", [c for c in cfgs if c != "sse2-rel"], draws=3 if res.tier == "quick" else 60, module="Trace_Poly",
                             chunks=2 if res.tier == "quick" else 8, expect_kinds=("poly",))
    # entry-wise operations (+, -, negation, abs, scalar * and /, every spelling) on random bit patterns: each entry must be the
    # correctly rounded IEEE result (Trace_Lanes.tla / IeeeW)
    core.record_and_validate(res, "mat", [c for c in cfgs if c in ("sse2", "scalar", "coresimd", "fma")], draws=1 if res.tier == "quick" else 30,
                             chunks=2 if res.tier == "quick" else 8, expect_kinds=("f1", "f2"))
    res.exhaustive = res.tier == "thorough"
    res.rule = ("integer matrices: 4x4 over {0,1} (all 65536 in thorough, 1/16 stride in quick: decides the multilinear determinant), "
                "3x3 over -1..1 (all 19683 thorough), 2x2 over -8..8 (all 83521 thorough), seeded dense -3..3 of every size, signed "
                "permutations, unimodular LU products (exact inverse), +-2^k determinants (exact dyadic inverse), rank-deficient "
                "(determinant exactly 0); per matrix: det, transpose, A*B, A*v, (A*B)*v = A*(B*v), +, -, neg, scalar *, /, inverse "
                "(exact where adj/det is representable, inverse*det = adj within 2e-5 / 1e-12 otherwise). non-trivial = more than one non-zero entry.  "
                "Code -> spec: A*B, A*v, determinant, transform_point/vector of every matrix and affine type on random real entries (random "
                "significands, exponents within 2^+-12) recorded per build; TLC evaluates the defining polynomial exactly (Leibniz determinant, "
                "row-by-column products) and accepts iff |got - exact| <= K * u * sum|monomials| (K = 6..24 by operation, u = 2^-24 / 2^-53); "
                "inverse(M) on the same random matrices and on nearly singular ones: |det| |(M X - I)_ij| <= 64 u sum_k |M_ik| (P_kj + Perm |X_kj|) "
                "and the mirrored bound (P, Perm: magnitude sums of the cofactor / determinant monomials).")
    res.assumptions = ["on small-integer entries every intermediate of every backend is exactly representable, so comparison is exact",
                       "the inverse is judged through its residuals against a polynomial condition number, not against adj/det entry by entry",
                       "recorded operands have moderate exponents: no intermediate product (determinant, 1/det) overflows or underflows (DESIGN 7.3)"]


def replay(res, path, only=None):
    return core.replay_dispatch(res, path, "lin")
