"""C16: swizzle getters and with_ setters permute exactly the lanes their names spell."""
import os
from . import core

CFGS = ["sse2", "sse2-rel", "scalar", "coresimd", "fma"]   # fma: +fma,+avx2 (implies sse3 / ssse3 / sse4.x): feature-gated swizzle fast paths
EXPECT = ["swz:get:2", "swz:get:3", "swz:get:4", "swz:with:3", "swz:with:4"]


def run(res, only=None):
    cfgs = [c for c in CFGS if not only or c in only]
    cases = os.path.join(core.WORK, res.prop, "cases.out")
    res.add_tlc(core.run_tlc("MC_C16", res.tier, cases, workers=4))
    core.replay_bin(res, "tok", cases, cfgs, expect_ops=EXPECT)
    # code -> spec: a random history of getters (written back when they have the register's length, so that compositions are exercised) and
    # with_ setters on every vector type, over random bit patterns, judged event by event by Trace_C16.tla on the same index maps
    core.record_and_validate(res, "swz", cfgs, draws=20 if res.tier == "quick" else 400, module="Trace_C16", chunks=1, expect_kinds=("swz",))
    res.exhaustive = True
    res.rule = ("all 28+117+336 getter names and 6+36 setter names (TLC asserts the counts) x 4 source registers "
                "(pairwise-distinct NaN payloads / -0 / subnormal, equal lanes, extremes) replayed bit-for-bit on all "
                "34 swizzle-implementing vector types; Vec3A additionally from 5 hidden-lane contents; result type checked.")
    res.assumptions = ["data independence: swizzles only move values (a value-dependent move would have to special-case a token)",
                       "NEON/wasm32 sources cannot run here"]


def replay(res, path, only=None):
    return core.replay_dispatch(res, path, "tok")
