"""C12: interpolation, steering and clamping helpers hit endpoints and never overshoot."""
import os
from . import core

CFGS = ["sse2", "sse2-rel", "scalar", "coresimd", "libm", "fma"]


def run(res, only=None):
    cfgs = [c for c in CFGS if not only or c in only]
    wd = os.path.join(core.WORK, res.prop)
    os.makedirs(wd, exist_ok=True)
    cases = os.path.join(wd, "interp.out")
    res.add_tlc(core.run_tlc("MC_C12", res.tier, cases, workers=8, extra_constants={"Seed": res.seed % 97}))
    core.replay_bin(res, "interp", cases, cfgs, expect_ops=["lerp", "qslerp", "qtowards", "vtowards", "vslerp", "arc", "ortho", "move", "clamp"])
    # code -> spec, relational, on random inputs (Trace_Rel.tla, exact dyadic arithmetic in TLC): move_towards (target once within reach, else a
    # step of length d towards it), slerp at s = j/8 between random unit quaternions 0.002 .. 2.9 rad apart (Chebyshev relations: the angle from
    # the start is j/8 of the total), rotate_towards beyond the remaining angle (ends on the target, finite), angles between parallel vectors
    core.record_and_validate(res, "rel", [c for c in cfgs if c in ("sse2", "scalar", "coresimd", "libm", "fma")], draws=3 if res.tier == "quick" else 60,
                             module="Trace_Rel", chunks=3 if res.tier == "quick" else 8, expect_kinds=("rel",),
                             ops=["move_towards", "slerp8", "slerp_int", "vslerp8", "rot_reach", "rot_len", "angle_parallel", "clamp_len", "ortho", "arc"])
    res.rule = ("exact (Ieee): vector lerp/midpoint and FloatExt lerp/inverse_lerp/remap over 12x12 dyadic operands (incl. MAX, subnormal, 2^100) "
                "x s in {0,1/4,1/2,3/4,1,-1/2,2} (end points exact); exact rotations: Quat/DQuat slerp, lerp, rotate_towards between all pairs "
                "of rotations by multiples of 90 degrees about each axis (q vs -q, shorter arc; half-turn-apart pairs only at their ends), "
                "Vec2/Vec3/Vec3A rotate_towards and slerp between the 8 planar lattice directions (different lengths, steps 0..beyond, negative "
                "steps) in all three coordinate planes; relational: from_rotation_arc/_colinear/_2d over all 18x18 lattice direction pairs "
                "(parallel, anti-parallel, orthogonal included), any_orthogonal/orthonormal vector/pair over the lattice sphere incl. z=-1, "
                "move_towards along Pythagorean segments (steps 0, 1, beyond, negative), clamp_length/_min/_max on Pythagorean vectors.  Code -> spec on "
                "random inputs: the relations of Trace_Rel.tla (move_towards, slerp at j/8 through Chebyshev polynomials of the cosines, rotate_towards "
                "within reach, angle of parallel vectors) decided exactly by TLC per build.")
    res.assumptions = ["tolerance 2e-4 (f32; acos_approx and the SSE2 sine polynomial) / 1e-9 (f64) for angle-derived results, 4e-5 / 4e-12 otherwise",
                       "slerp's angle = s*theta is decided at s = j/8 for quaternions (not for vector slerp between lattice arcs)"]


def replay(res, path, only=None):
    return core.replay_dispatch(res, path, "interp", env_keys=())
