"""C12: interpolation, steering and clamping helpers hit endpoints and never overshoot."""
import os
from . import core

CFGS = ["sse2", "sse2-rel", "scalar", "coresimd", "libm", "fma"]


def run(res, only=None):
    cfgs = [c for c in CFGS if not only or c in only]
    wd = os.path.join(core.WORK, res.prop)
    os.makedirs(wd, exist_ok=True)
    cases = os.path.join(wd, "interp.out")
    res.add_tlc(core.run_tlc("MC_C12", res.tier, cases, workers=8, extra_constants={"Seed": res.seed % 97}))
    core.replay_bin(res, "interp", cases, cfgs, expect_ops=["lerp", "qslerp", "qtowards", "vtowards", "vslerp", "arc", "ortho", "move", "clamp"])
    res.rule = ("exact (Ieee): vector lerp/midpoint and FloatExt lerp/inverse_lerp/remap over 12x12 dyadic operands (incl. MAX, subnormal, 2^100) "
                "x s in {0,1/4,1/2,3/4,1,-1/2,2} (end points exact); exact rotations: Quat/DQuat slerp, lerp, rotate_towards between all pairs "
                "of rotations by multiples of 90 degrees about each axis (q vs -q, shorter arc; half-turn-apart pairs only at their ends), "
                "Vec2/Vec3/Vec3A rotate_towards and slerp between the 8 planar lattice directions (different lengths, steps 0..beyond, negative "
                "steps) in all three coordinate planes; relational: from_rotation_arc/_colinear/_2d over all 18x18 lattice direction pairs "
                "(parallel, anti-parallel, orthogonal included), any_orthogonal/orthonormal vector/pair over the lattice sphere incl. z=-1, "
                "move_towards along Pythagorean segments (steps 0, 1, beyond, negative), clamp_length/_min/_max on Pythagorean vectors.")
    res.assumptions = ["tolerance 2e-4 (f32; acos_approx and the SSE2 sine polynomial) / 1e-9 (f64) for angle-derived results, 4e-5 / 4e-12 otherwise",
                       "angle = s*theta between lattice arcs is not decided; the near-parallel thresholds are exercised only at lattice inputs"]


def replay(res, path, only=None):
    return core.generic_replay(res, path, "interp", env_keys=())
