"""C19: serialisation and interop round-trip every value, identically across backends."""
import os, json
from . import core

CFGS = ["feat", "feat-scalar", "feat-coresimd"]


def run(res, only=None):
    cfgs = [c for c in CFGS if not only or c in only]
    wd = os.path.join(core.WORK, res.prop)
    os.makedirs(wd, exist_ok=True)
    cases = os.path.join(wd, "serial.out")
    res.add_tlc(core.run_tlc("MC_C19", res.tier, cases, workers=4))
    core.replay_bin(res, "ser", cases, cfgs, expect_ops=["Vec3", "Vec3A", "Mat4", "Affine3A", "DQuat", "BVec3", "BVec3A", "I64Vec2", "USizeVec4", "Mat3A"], tag="ser")
    # byte-identical serde_json output in SIMD and scalar-math builds: compare the texts the builds wrote
    texts = {}
    for cfg in cfgs:
        p = os.path.join(wd, f"ser.{cfg}.json.jsontext")
        texts[cfg] = dict(l.split("=", 1) for l in open(p).read().splitlines() if "=" in l)
    base = cfgs[0]
    for cfg in cfgs[1:]:
        for name, t in texts[base].items():
            if name in texts[cfg] and texts[cfg][name] != t:
                res.mismatches.append({"prop": "C19", "cfg": cfg, "ty": name, "op": "serde_json text differs between builds",
                                       "what": f"{base}: {t} / {cfg}: {texts[cfg][name]}", "case": {"fam": "serial-text", "ty": name}})
    res.extra["json_texts_compared"] = len(texts[base]) * max(len(cfgs) - 1, 0)
    res.exhaustive = True
    res.rule = ("all 52 public value types: serde through an exact in-memory token-stream Serializer/Deserializer (struct name, length hint, "
                "element type and bits; carriers that honour and that ignore the length hint), every element-sequence length 0..N+2 for "
                "rejection, serde_json text round trip and cross-build text identity (SIMD vs scalar-math vs core-simd), bytemuck byte image / "
                "zeroed / Pod only without padding (compile-time probe), rkyv archive round trip, mint column/row matrix layouts.")
    res.assumptions = ["palette elements instead of all bit patterns (pure data movement)", "rkyv checked for the types that implement it (not USizeVec, masks)"]


def replay(res, path, only=None):
    return core.replay_dispatch(res, path, "ser", env_keys=())
