"""C07: backend and build-configuration independence of all SIMD-backed types."""
import os, re
from . import core

SIMD_SCALAR = ["sse2", "scalar", "coresimd"]          # must agree up to re-association slack (exactly on the exact lattices)
FEATURES = ["sse2-rel", "fma"]                        # must agree bit for bit
FEATURES_THOROUGH = ["sse2-rel", "fma", "native"]


def run(res, only=None):
    wd = os.path.join(core.WORK, res.prop)
    os.makedirs(wd, exist_ok=True)
    feats = FEATURES if res.tier == "quick" else FEATURES_THOROUGH
    ss = [c for c in SIMD_SCALAR if not only or c in only]
    ff = [c for c in feats if not only or c in only]
    allc = list(dict.fromkeys(ss + ff))
    # (1) one specification for every backend: the exact-lattice behaviours of the element-wise API, matrix and
    #     quaternion algebra replayed in every configuration -- equal to the specification, hence to each other
    a = os.path.join(wd, "lane.out")
    res.add_tlc(core.run_tlc("MC_C01", res.tier, a, workers=8))
    core.replay_bin(res, "lane", a, allc, env_extra={"HX_PROP": "C07"}, tag="lane", expect_ops=["b:rem", "u:round", "t:mul_add", "b:div"])
    b = os.path.join(wd, "linalg.out")
    res.add_tlc(core.run_tlc("MC_C03", res.tier, b, workers=12, extra_constants={"Seed": res.seed % 97}))
    core.replay_bin(res, "lin", b, allc, env_extra={"HX_PROP": "C07"}, tag="linalg")
    c = os.path.join(wd, "quat.out")
    res.add_tlc(core.run_tlc("MC_C04", res.tier, c, workers=8, extra_constants={"Seed": res.seed % 97}))
    core.replay_bin(res, "lin", c, allc, env_extra={"HX_PROP": "C07"}, tag="quat")
    # Debug / Display text and every access path of the SIMD-backed vectors, quaternions and matrices equal the one specification in every
    # build (the register machines of C17 and C06): character-identical output across backends follows
    d = os.path.join(wd, "access.out")
    res.add_tlc(core.run_tlc("MC_C17", res.tier, d, workers=4))
    core.replay_bin(res, "tok", d, allc, env_extra={"HX_PROP": "C07"}, tag="access", expect_ops=["acc:read:display", "acc:read:display_prec", "acc:read:debug"])
    e = os.path.join(wd, "layout.out")
    res.add_tlc(core.run_tlc("MC_C06", res.tier, e, workers=4, extra_constants={"MaxHist": 2}))
    core.replay_bin(res, "tok", e, allc, env_extra={"HX_PROP": "C07"}, tag="layout", expect_ops=["mat:read:display", "mat:read:debug"])
    # entry-wise matrix and component-wise quaternion arithmetic on random bit patterns: the correctly rounded result in every build
    core.record_and_validate(res, "mat", allc, draws=1 if res.tier == "quick" else 20, chunks=2 if res.tier == "quick" else 6, expect_kinds=("f1", "f2"))
    # numeric conversions of the SIMD-backed vectors (as_* casts, From, TryFrom of Vec3A / Vec4 and every other type): the conversion machine
    # of C14 replayed in every build -- a vectorised cast (cvttps2dq saturates to MIN, Rust's `as` to MAX / 0 for NaN) differs from the scalar build
    f = os.path.join(wd, "conv.out")
    res.add_tlc(core.run_tlc("MC_C14", res.tier, f, workers=8, extra_constants={"Seed": res.seed % 97}))
    core.replay_bin(res, "conv", f, ss + [c for c in ff if c == "fma"], tag="conv", env_extra={"HX_PROP": "C07"}, expect_ops=["fi:f32->i32", "if:i32->f32", "ff:f32->f64"])
    # the slerp of every backend (the SSE2 one has its own range reduction and polynomial sine) satisfies the same Chebyshev relations of
    # Trace_Rel, also for integer factors far outside [0, 1] where the angle is reduced modulo a turn: equal to one specification, hence
    # to each other, within the relation's tolerance
    core.record_and_validate(res, "rel", ss, draws=4 if res.tier == "quick" else 40, module="Trace_Rel", chunks=2 if res.tier == "quick" else 6,
                             expect_kinds=("rel",), ops=["slerp8", "slerp_int"])
    # (2) random (off-lattice) chains of the SIMD-backed types: TLC-generated programs executed in every build with the same
    #     seeds; traces are compared by TLC: bit for bit across CPU features, within re-association slack SIMD vs scalar
    pr = os.path.join(wd, "chains.out")
    cfg_text = open(os.path.join(core.SPEC, "MC_C20.cfg")).read().replace("MaxLen = 2", "MaxLen = 8")
    num = 60 if res.tier == "quick" else 600
    st = core.run_tlc("MC_C20", res.tier, pr, workers=1, cfg_text=cfg_text, simulate=f"num={num}", seed=res.seed + 7)
    for l in st["tail"]:
        m = re.search(r"The number of states generated: (\d+)", l)
        if m:
            st["generated"] = st["distinct"] = int(m.group(1))
    res.add_tlc(st)
    core.replay_bin(res, "chain", pr, allc, tag="chains", env_extra={"HX_QTRACE": "1"}, expect_ops=["good"])
    hp = os.path.join(wd, "programs.out")
    res.add_tlc(core.run_tlc("MC_C08", res.tier, hp, workers=8, extra_constants={"MaxLen": 2}))
    stride = "16" if res.tier == "quick" else "2"
    for cfg in ff:
        core.replay_bin(res, "hid", hp, [cfg], tag="programs", env_extra={"HX_STRIDE": stride, "VERIF_SEED": str(res.seed),
                        "HX_TRACE": os.path.join(wd, f"programs.{cfg}.trace")})
    for x in ff[1:]:
        core.same_bits(res, os.path.join(wd, f"chains.{ff[0]}.json.trace"), os.path.join(wd, f"chains.{x}.json.trace"), ff[0], x)
        core.same_bits(res, os.path.join(wd, f"programs.{ff[0]}.trace"), os.path.join(wd, f"programs.{x}.trace"), ff[0], x)
    for x in ss[1:]:
        core.near_traces(res, os.path.join(wd, f"chains.{ss[0]}.json.qtrace"), os.path.join(wd, f"chains.{x}.json.qtrace"), ss[0], x)
    res.rule = ("(1) exact-lattice cases of MC_C01 (lane-wise API incl. the fma-sensitive mul_add points), MC_C03 (matrices, affine) and MC_C04 "
                "(quaternions) replayed in default SSE2, scalar-math, core-simd, SSE2 release and +fma,+avx2 (and target-cpu=native in thorough): "
                "every build equals the one specification; (2) TLC-simulated chains of up to 8 operations over Vec3/Vec3A/Quat/Mat3/Mat4/"
                "Affine3A (off-lattice seeds) and the two-step programs of MC_C08 executed in each build with identical seeds: bit digests "
                "compared by TLC (Trace_SameBits) between baseline SSE2 and +fma,+avx2 builds; Q14 values compared by TLC (Trace_Near, "
                "2^-13 absolute + 2^-12 relative) between SSE2, scalar-math and core-simd builds.")
    res.assumptions = ["SIMD-vs-scalar agreement off the lattice is checked to the Q14 tolerance, not to the analytic re-association bound",
                       "Debug/Display character identity is decided against the Fmt grammar in every build by C17/C06"]


def replay(res, path, only=None):
    import json
    fam = json.load(open(path)).get("case", {}).get("fam")
    return core.replay_dispatch(res, path, {"lane": "lane", "lin": "lin", "chain20": "chain", "hid": "hid", "conv": "conv"}.get(fam, "lane"), env_keys=())
