"""C20: glam outputs satisfy glam preconditions; assertions never change results."""
import os, re
from . import core

PAIRS = [("sse2", "assert"), ("scalar", "assert-scalar"), ("sse2-rel", "assert-rel")]     # glam-assert asserts in every profile


def run(res, only=None):
    pairs = [p for p in PAIRS if not only or (p[0] in only or p[1] in only)]
    cfgs = [c for p in pairs for c in p]
    wd = os.path.join(core.WORK, res.prop)
    os.makedirs(wd, exist_ok=True)
    # (1) every two-step chain (every producer followed by every consumer, violating calls last)
    bfs = os.path.join(wd, "pairs.out")
    res.add_tlc(core.run_tlc("MC_C20", res.tier, bfs, workers=8, extra_constants={"MaxLen": 2}))
    core.replay_bin(res, "chain", bfs, cfgs, expect_ops=["good", "viol"], tag="pairs")
    # (2) TLC-simulated chains of length 12
    sim = os.path.join(wd, "sim.out")
    cfg_text = open(os.path.join(core.SPEC, "MC_C20.cfg")).read().replace("MaxLen = 2", "MaxLen = 12")
    num = 30 if res.tier == "quick" else 400
    st = core.run_tlc("MC_C20", res.tier, sim, workers=1, cfg_text=cfg_text, simulate=f"num={num}", seed=res.seed)
    for l in st["tail"]:
        m = re.search(r"The number of states generated: (\d+)", l)
        if m:
            st["generated"] = st["distinct"] = int(m.group(1))
    res.add_tlc(st)
    core.replay_bin(res, "chain", sim, cfgs, expect_ops=["good"], tag="sim")
    # (3) enabling the assertions never changes a value: TLC consumes the traces of the two builds in lock step
    for a, b in pairs:
        for tag in ("pairs", "sim"):
            core.same_bits(res, os.path.join(wd, f"{tag}.{a}.json.trace"), os.path.join(wd, f"{tag}.{b}.json.trace"), a, b)
    # (4) extrapolating slerp (integer factors up to 12 steps outside [0, 1]) keeps its documented postcondition -- a unit quaternion at the
    #     documented angle -- in the builds with and without the assertions: Trace_Rel's Chebyshev relation on recorded calls
    core.record_and_validate(res, "rel", [c for c in dict.fromkeys(cfgs) if c in ("sse2", "assert", "scalar", "assert-scalar")], draws=4 if res.tier == "quick" else 40,
                             module="Trace_Rel", chunks=2 if res.tier == "quick" else 6, expect_kinds=("rel",), ops=["slerp_int"])
    res.rule = ("110 precondition-carrying operations over typed registers (unit vectors, unit quaternions, rotation / rigid / TRS matrices, rigid "
                "affines, f64 mirror) and 12 documented violations (table tools/gen_c20.py shared by specification and harness): every "
                "two-step chain from 3 (quick) / 8 (thorough) seeded off-lattice register files, and TLC-simulated chains of length 12; after "
                "every step the written register must pass glam's own precondition check; no valid chain may panic under glam-assert, every "
                "violating call must; the digests of all register bits after every step are compared between the builds with and without "
                "glam-assert (SSE2 and scalar-math) by TLC trace validation.")
    res.assumptions = ["seeds are finite and non-degenerate (the property's own quantifier)", "debug-glam-assert is the same code path as glam-assert in a debug profile"]


def replay(res, path, only=None):
    return core.replay_dispatch(res, path, "chain", env_keys=())
