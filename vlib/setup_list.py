CFGS = ["sse2", "sse2-rel", "scalar", "coresimd", "fma", "libm", "asan"]
BINS = ["lane", "tok", "int", "lin", "mask", "conv", "hid", "rot", "interp", "safe", "chain", "geom", "rec", "fold"]
# feature builds (serde, bytemuck, mint, rkyv)
FEAT_CFGS = ["feat", "feat-scalar", "feat-coresimd"]
FEAT_BINS = ["ser"]
ASSERT_CFGS = ["assert", "assert-scalar", "assert-rel"]
ASSERT_BINS = ["chain", "rot", "lin"]
