CFGS = ["sse2", "sse2-rel", "scalar", "coresimd", "fma", "libm"]
BINS = ["lane", "tok", "int", "lin", "mask", "conv", "hid", "rot", "interp"]
