"""C06: column-vector, column-major conventions hold across every accessor and product."""
import os
from . import core

CFGS = ["sse2", "sse2-rel", "scalar", "coresimd"]


def run(res, only=None):
    cfgs = [c for c in CFGS if not only or c in only]
    wd = os.path.join(core.WORK, res.prop)
    os.makedirs(wd, exist_ok=True)
    a = os.path.join(wd, "layout.out")
    res.add_tlc(core.run_tlc("MC_C06", res.tier, a, workers=4,
                             extra_constants={"MaxHist": 2 if res.tier == "quick" else 2}))
    core.replay_bin(res, "tok", a, cfgs, tag="layout",
                    expect_ops=["mat:ctor:from_cols", "mat:ctor:from_cols_array", "mat:ctor:from_cols_array_2d",
                                "mat:ctor:from_cols_slice", "mat:ctor:from_diagonal", "mat:write:col_mut",
                                "mat:write:as_mut", "mat:write:field", "mat:read:to_cols_array", "mat:read:rows",
                                "mat:read:cols", "mat:read:transpose", "mat:read:fields", "mat:read:as_ref",
                                "mat:read:to_cols_array_2d", "mat:read:write_cols_to_slice", "mat:read:debug",
                                "mat:read:display", "mat:const:IDENTITY"])
    b = os.path.join(wd, "moves.out")
    res.add_tlc(core.run_tlc("MC_C06m", res.tier, b, workers=2))
    core.replay_bin(res, "tok", b, cfgs, tag="moves",
                    expect_ops=["matmove:minor", "matmove:block", "matmove:embed", "matmove:affine_to_mat",
                                "matmove:mat_to_affine"])
    # product laws (M*v = sum v[c]*col(c), (A*B)*v = A*(B*v), affine point/vector) on the integer lattice
    from . import p_c03
    p_c03.linalg_cases(res, cfgs, only_kinds="conv")
    # code -> spec: random access histories of every matrix / affine type validated against the register machine (Trace_C06.tla extends MC_C06)
    # the order of iterated products (column-vector convention: items.iter().product() = m0 * m1 * m2, the LAST item is applied first), for
    # matrices and affine transforms, 0..3 non-commuting items (MC_Fold.tla)
    core.fold_cases(res, cfgs, ["mat", "aff"])
    core.record_and_validate(res, "macc", cfgs, draws=3 if res.tier == "quick" else 60, module="Trace_C06", chunks=1, expect_kinds=("macc",))
    # code -> spec: M*v = sum v[c]*col(c) and transform_point = linear*p + translation on arbitrary real entries (Trace_Poly.tla)
    core.record_and_validate(res, "poly", [c for c in cfgs if c != "sse2-rel"], draws=6 if res.tier == "quick" else 200, module="Trace_Poly",
                             chunks=1 if res.tier == "quick" else 8, expect_kinds=("poly",), ops=["mul_vec", "affine_point"])
    res.exhaustive = True
    res.rule = ("token machine: for each of the 5 shapes (2x2, 3x3, 4x4, affine 2x3, affine 3x4) all two-step behaviours "
                "over {6 constructors, from_diagonal, 3 constants, 3 write paths x every (r,c) x 2 tokens, 11 read paths} from "
                "a register of pairwise-distinct tokens (NaN payloads included), replayed on all 11 matrix/affine types; every "
                "minor (i,j), block, embedding and affine<->matrix move; product laws on small-integer matrices.")
    res.assumptions = ["data independence of accessors", "to_cols_array/from_cols_array are the base projection; every other path is compared with them"]


def replay(res, path, only=None):
    import json
    mm = json.load(open(path))
    return core.replay_dispatch(res, path, "lin" if mm.get("case", {}).get("fam") == "lin" else "tok")
