"""C04: quaternion algebra: Hamilton product, conjugate, and rotation of vectors."""
import os
from . import core

CFGS = ["sse2", "sse2-rel", "scalar", "coresimd", "fma", "assert", "assert-scalar"]   # glam-assert builds: the algebra has no precondition


def quat_cases(res, cfgs, prop=None):
    wd = os.path.join(core.WORK, res.prop)
    os.makedirs(wd, exist_ok=True)
    cases = os.path.join(wd, "quat.out")
    res.add_tlc(core.run_tlc("MC_C04", res.tier, cases, workers=8, extra_constants={"Seed": res.seed % 97}))
    core.replay_bin(res, "lin", cases, cfgs, expect_ops=["quat", "qrot"], env_extra={"HX_PROP": prop or res.prop}, tag="quat")


def run(res, only=None):
    cfgs = [c for c in CFGS if not only or c in only]
    quat_cases(res, cfgs)
    # Sum / Product over iterators of 0..3 quaternions: folds from ZERO / IDENTITY, Hamilton products in iteration order (MC_Fold.tla)
    core.fold_cases(res, [c for c in cfgs if c not in ("assert", "assert-scalar")], ["quat"])
    # code -> spec on arbitrary unit quaternions: Hamilton product and rotation recorded per build, judged by TLC (Trace_Poly.tla)
    core.record_and_validate(res, "poly", [c for c in cfgs if c not in ("sse2-rel", "assert", "assert-scalar")], draws=12 if res.tier == "quick" else 400, module="Trace_Poly",
                             chunks=1 if res.tier == "quick" else 8, expect_kinds=("poly",), ops=["quat_mul", "quat_rot"])
    # component-wise quaternion operations (+, -, negation, scalar * and /) on random bit patterns (Trace_Lanes.tla)
    core.record_and_validate(res, "mat", [c for c in cfgs if c in ("sse2", "scalar", "coresimd")], draws=3 if res.tier == "quick" else 60,
                             chunks=1 if res.tier == "quick" else 4, expect_kinds=("f1", "f2"), tys=["Quat", "DQuat"])
    # normalize of arbitrary and of nearly-unit quaternions: unit length within 16 u, parallel to the input within 16 u (Trace_Rel.tla)
    core.record_and_validate(res, "rel", [c for c in cfgs if c in ("sse2", "scalar", "coresimd")], draws=6 if res.tier == "quick" else 200, module="Trace_Rel",
                             chunks=1 if res.tier == "quick" else 4, expect_kinds=("rel",), ops=["normalize"], tys=["Quat", "DQuat"])
    res.exhaustive = True
    res.rule = ("all pairs of quaternions with integer components in -1..1 (quick; -2..2 with a 1/4 stride of the right factor in thorough): "
                "Hamilton product (every spelling incl. *= and Product), conjugate, +, -, neg, scalar *, /, dot, length_squared -- exact integers; "
                "all 24 Hurwitz unit quaternions x lattice vectors: q*v on Vec3 and Vec3A (also with a poisoned hidden lane), (-q)*v, "
                "q^-1(qv) = v, (pq)v = p(qv), Mat3/Mat4::from_quat, normalize, length -- exact. non-trivial = more than two non-zero components.  "
                "Code -> spec: q*p (both spellings) and q*v (Vec3, Vec3A) for random unit Quat/DQuat and random vectors, recorded per build; TLC expands "
                "the Hamilton product / the sandwich q v q* into monomials and accepts iff |got - exact| <= K u sum|monomials| (K = 10 / 20).")
    res.assumptions = ["the rotation bound is relative to the sum of the magnitudes of the monomials of q v q* (a few eps*|q|^2*|v|)",
                       "recorded vectors have moderate exponents: the intermediate 2 (v.b) b of q*v does not overflow (the top binade of |v| is not covered, DESIGN 7.3)"]


def replay(res, path, only=None):
    return core.replay_dispatch(res, path, "lin")
