"""Infrastructure shared by every property check: TLC runs, harness builds, replay, trace
validation, known findings, evidence.  See DESIGN.md sections 3, 4 and 8."""
import json, os, re, subprocess, sys, time, shutil, hashlib, threading
from concurrent.futures import ThreadPoolExecutor

VERIF = os.path.dirname(os.path.dirname(os.path.abspath(__file__)))
REPO = os.environ.get("VERIF_REPO", "/repo")
WORK = os.path.join(VERIF, "work")
SPEC = os.path.join(VERIF, "spec")
HARNESS = os.path.join(VERIF, "harness")
TARGETS = os.path.join(WORK, "target")

EXIT_OK, EXIT_VIOLATION, EXIT_TOOL = 0, 1, 2


class ToolError(Exception):
    pass


def log(*a):
    print(*a, file=sys.stderr, flush=True)


# ---------------------------------------------------------------------------------------------
# build matrix (DESIGN 3.2)
# ---------------------------------------------------------------------------------------------
CFGS = {
    "sse2":          dict(features=[], profile="dev"),
    "sse2-rel":      dict(features=[], profile="release"),
    "scalar":        dict(features=["scalar-math"], profile="dev"),
    "scalar-rel":    dict(features=["scalar-math"], profile="release"),
    "coresimd":      dict(features=["core-simd"], profile="dev", toolchain="nightly"),
    "fma":           dict(features=[], profile="release", rustflags="-C target-feature=+fma,+avx2"),
    "native":        dict(features=[], profile="release", rustflags="-C target-cpu=native"),
    "libm":          dict(features=["libm"], profile="dev"),
    "assert":        dict(features=["glam-assert"], profile="dev"),
    "assert-scalar": dict(features=["glam-assert", "scalar-math"], profile="dev"),
    "assert-rel":    dict(features=["glam-assert"], profile="release"),
    "feat":          dict(features=["feat"], profile="dev"),
    "feat-scalar":   dict(features=["feat", "scalar-math"], profile="dev"),
    "feat-coresimd": dict(features=["feat", "core-simd"], profile="dev", toolchain="nightly"),
    "asan":          dict(features=[], profile="dev", toolchain="nightly",
                          rustflags="-Zsanitizer=address", target="x86_64-unknown-linux-gnu"),
    "asan-coresimd": dict(features=["core-simd"], profile="dev", toolchain="nightly",
                          rustflags="-Zsanitizer=address", target="x86_64-unknown-linux-gnu"),
}


def cargo_env(cfg):
    env = dict(os.environ)
    env["CARGO_NET_OFFLINE"] = "true"
    c = CFGS[cfg]
    if c.get("rustflags"):
        env["RUSTFLAGS"] = c["rustflags"]
    else:
        env.pop("RUSTFLAGS", None)
    return env


def bin_path(cfg, binname):
    c = CFGS[cfg]
    prof = "release" if c["profile"] == "release" else "debug"
    base = os.path.join(TARGETS, cfg)
    if c.get("target"):
        base = os.path.join(base, c["target"])
    return os.path.join(base, prof, binname)


_build_lock = threading.Lock()


def build(cfg, bins):
    """(Re)build harness binaries for one configuration from /repo's current working tree."""
    c = CFGS[cfg]
    cmd = ["cargo"]
    if c.get("toolchain"):
        cmd.append("+" + c["toolchain"])
    cmd += ["build", "--offline", "--target-dir", os.path.join(TARGETS, cfg)]
    if c["profile"] == "release":
        cmd.append("--release")
    if c.get("target"):
        cmd += ["--target", c["target"]]
    if c["features"]:
        cmd += ["--features", ",".join(c["features"])]
    for b in bins:
        cmd += ["--bin", b]
    t0 = time.time()
    p = subprocess.run(cmd, cwd=HARNESS, env=cargo_env(cfg), capture_output=True, text=True)
    if p.returncode != 0:
        raise ToolError(f"build failed for cfg={cfg}: {' '.join(cmd)}\n{p.stderr[-4000:]}")
    log(f"  built {cfg} {bins} in {time.time()-t0:.1f}s")
    return [bin_path(cfg, b) for b in bins]


def build_all(cfgs, bins, jobs=4):
    with ThreadPoolExecutor(max_workers=jobs) as ex:
        futs = {cfg: ex.submit(build, cfg, bins) for cfg in cfgs}
        for cfg, f in futs.items():
            f.result()


def run_bin(cfg, binname, args, env_extra=None, timeout=3600):
    env = dict(os.environ)
    env["HX_CFG"] = cfg
    if CFGS[cfg].get("rustflags", "").find("sanitizer") >= 0:
        env["ASAN_OPTIONS"] = "detect_leaks=0:abort_on_error=0:exitcode=66"
    if env_extra:
        env.update(env_extra)
    p = subprocess.run([bin_path(cfg, binname)] + args, env=env, capture_output=True, text=True,
                       timeout=timeout)
    return p


# ---------------------------------------------------------------------------------------------
# TLC
# ---------------------------------------------------------------------------------------------
TLC_JAR_CP = "/opt/veriftools/tla/tla2tools.jar:/opt/veriftools/tla/CommunityModules-deps.jar"


def run_tlc(module, tier, out_path, workers=8, timeout=3600, extra_constants=None, cfg_text=None,
            simulate=None, seed=None, java_opts="-Xss1g", env_extra=None, deque=False):
    """Run TLC on spec/<module>.tla with spec/<module>.cfg (Tier substituted).  Returns stats."""
    os.makedirs(os.path.dirname(out_path), exist_ok=True)
    if cfg_text is None:
        cfg_text = open(os.path.join(SPEC, module + ".cfg")).read()
    cfg_text = re.sub(r'Tier\s*=\s*"[a-z]+"', f'Tier = "{tier}"', cfg_text)
    if extra_constants:
        for k, v in extra_constants.items():
            cfg_text = re.sub(rf'\b{k}\s*=\s*\S+', f'{k} = {v}', cfg_text)
    tag = os.path.basename(out_path)
    cfg_path = os.path.join(WORK, "tlc", f"{tag}.cfg")
    os.makedirs(os.path.dirname(cfg_path), exist_ok=True)
    open(cfg_path, "w").write(cfg_text)
    meta = os.path.join(WORK, "tlc", f"{tag}.meta")
    shutil.rmtree(meta, ignore_errors=True)
    # TLC unpacks its standard modules into java.io.tmpdir on every start and leaves them there: give it a private one
    jtmp = os.path.join(WORK, "tlc", f"{tag}.tmp")
    shutil.rmtree(jtmp, ignore_errors=True)
    os.makedirs(jtmp, exist_ok=True)
    jopts = java_opts + f" -Djava.io.tmpdir={jtmp}"
    if deque:
        jopts += " -Dtlc2.tool.queue.IStateQueue=StateDeque"
    cmd = ["java", "-XX:+UseParallelGC"] + jopts.split() + ["-cp", TLC_JAR_CP, "tlc2.TLC",
           "-workers", str(workers), "-metadir", meta, "-cleanup", "-noGenerateSpecTE",
           "-config", cfg_path]
    if simulate:
        cmd += ["-simulate", simulate]
    if seed is not None:
        cmd += ["-seed", str(seed)]
    cmd.append(module + ".tla")
    env = dict(os.environ)
    env.pop("JAVA_TOOL_OPTIONS", None)
    if env_extra:
        env.update(env_extra)
    t0 = time.time()
    with open(out_path, "w") as out:
        try:
            p = subprocess.run(cmd, cwd=SPEC, stdout=out, stderr=subprocess.STDOUT, env=env,
                               timeout=timeout)
        except subprocess.TimeoutExpired:
            raise ToolError(f"TLC timed out on {module} after {timeout}s")
    shutil.rmtree(meta, ignore_errors=True)
    shutil.rmtree(jtmp, ignore_errors=True)
    st = dict(module=module, wall_s=round(time.time() - t0, 1), rc=p.returncode, generated=0,
              distinct=0, errors=[], violated=None)
    tail = []
    with open(out_path, errors="replace") as f:
        for line in f:
            if line.startswith('<<"'):
                continue
            tail.append(line.rstrip("\n"))
            m = re.match(r"(\d+) states generated, (\d+) distinct states found", line)
            if m:
                st["generated"], st["distinct"] = int(m.group(1)), int(m.group(2))
            m = re.match(r"Finished computing initial states: (\d+) distinct state", line)
            if m:
                st["initial"] = int(m.group(1))
            if line.startswith("Error:"):
                st["errors"].append(line.strip())
            if "Postcondition" in line and "is false" in line:
                st["errors"].append("postcondition false")
            m = re.match(r"Error: Invariant (\S+) is violated", line)
            if m:
                st["violated"] = m.group(1)
    st["tail"] = tail[-40:]
    if p.returncode != 0 and not st["violated"]:
        raise ToolError(f"TLC failed on {module} (rc={p.returncode}):\n" + "\n".join(tail[-30:]))
    if st["violated"]:
        raise ToolError(f"specification theorem {st['violated']} of {module} is violated: the "
                        f"oracle itself is inconsistent\n" + "\n".join(tail[-40:]))
    log(f"  TLC {module} [{tier}]: {st['distinct']} states in {st['wall_s']}s")
    return st


# ---------------------------------------------------------------------------------------------
# known findings (DESIGN 4 rule 6) -- never written at run time
# ---------------------------------------------------------------------------------------------
def load_known():
    p = os.path.join(VERIF, "known_findings.json")
    if not os.path.exists(p):
        return []
    return [e for e in json.load(open(p))["findings"] if e.get("status") == "open"]


def match_known(prop, mm, known):
    """A mismatch is a known finding only if every selector of an open entry matches it."""
    for k in known:
        if k["property"] != prop:
            continue
        sel = k["selector"]
        ok = True
        for key, allowed in sel.items():
            v = mm.get(key)
            if isinstance(allowed, list):
                if v not in allowed:
                    ok = False
            elif isinstance(allowed, dict) and "regex" in allowed:
                if not re.search(allowed["regex"], json.dumps(v)):
                    ok = False
            elif v != allowed:
                ok = False
            if not ok:
                break
        if ok:
            return k
    return None


# ---------------------------------------------------------------------------------------------
# result of one property check
# ---------------------------------------------------------------------------------------------
class Result:
    def __init__(self, prop, tier, seed):
        self.prop, self.tier, self.seed = prop, tier, seed
        self.t0 = time.time()
        self.states = 0
        self.transitions = 0
        self.behaviours = 0          # behaviours replayed / traces validated against the code
        self.evaluations = 0
        self.nontrivial = 0
        self.samples = []
        self.mismatches = []         # dicts from the harness (with 'case')
        self.spec_errors = []
        self.notes = []
        self.tlc = []
        self.cfgs = set()
        self.per_op = {}
        self.exhaustive = False
        self.assumptions = []
        self.rule = ""
        self.extra = {}

    def add_tlc(self, st):
        self.tlc.append({k: st[k] for k in ("module", "wall_s", "generated", "distinct")})
        self.states += st["distinct"]
        self.transitions += max(st["generated"] - st.get("initial", 0), 0)

    def add_report(self, path, cfg):
        r = json.load(open(path))
        self.cfgs.add(cfg)
        self.behaviours += r["cases"]
        self.evaluations += r["evals"]
        self.nontrivial = max(self.nontrivial, r.get("nontrivial", 0))
        for k, v in r.get("per_op", {}).items():
            self.per_op[k] = self.per_op.get(k, 0) + v
        if r.get("samples") and len(self.samples) < 6:
            self.samples += r["samples"][:2]
        self.mismatches += r["mismatches"]
        self.spec_errors += r["spec_errors"]
        if r["mismatch_count"] > len(r["mismatches"]):
            self.notes.append(f"{cfg}: {r['mismatch_count']} mismatches, first {len(r['mismatches'])} kept")
        return r


def finish(res, level_note=None):
    """Apply known findings, write evidence, print verdict, return exit code."""
    known = load_known()
    if res.spec_errors:
        log(f"TOOL ERROR: {len(res.spec_errors)} cases where the specification disagrees with the "
            f"Rust primitive; first: {json.dumps(res.spec_errors[0])[:600]}")
        write_evidence(res, violations=0, tool_error=True)
        return EXIT_TOOL
    viol = []
    kf_seen = {}
    for mm in res.mismatches:
        k = match_known(res.prop, mm, known)
        if k:
            kf_seen.setdefault(k["id"], (k, 0))
            kf_seen[k["id"]] = (k, kf_seen[k["id"]][1] + 1)
        else:
            viol.append(mm)
    for kid, (k, n) in kf_seen.items():
        print(f"KNOWN-FINDING: property={res.prop} {k['what']} [{kid}; {n} observations]")
    rc = EXIT_OK
    if viol:
        os.makedirs(os.path.join(WORK, "replays"), exist_ok=True)
        # one replay file per distinct (ty, op, cfg) signature, at most 5
        seen = set()
        n = 0
        for mm in viol:
            sig = (mm.get("ty"), mm.get("op"), mm.get("cfg"), mm.get("what"))
            if sig in seen:
                continue
            seen.add(sig)
            path = os.path.join(WORK, "replays", f"{res.prop}-{n}.json")
            json.dump(mm, open(path, "w"), indent=1)
            brief = {k: mm[k] for k in mm if k not in ("case",)}
            print(f"VIOLATION property={res.prop} replay={path}")
            log("   " + json.dumps(brief)[:700])
            n += 1
            if n >= 5:
                break
        rc = EXIT_VIOLATION
    write_evidence(res, violations=len(viol))
    log(f"{res.prop} [{res.tier}] done in {time.time()-res.t0:.0f}s: states={res.states} "
        f"behaviours={res.behaviours} evaluations={res.evaluations} violations={len(viol)}")
    return rc


def write_evidence(res, violations, tool_error=False):
    os.makedirs(os.path.join(VERIF, "evidence"), exist_ok=True)
    cov = {
        "states": int(res.states),
        "transitions": int(res.transitions),
        "traces_validated_against_impl": int(res.behaviours),
        "samples": (res.samples[:4] + [x for x in res.samples[4:] if "recorded_event" in x][:3]) if res.samples else [{"note": "no sample recorded"}],
        "evaluations": int(res.evaluations),
        "distinct_nontrivial": int(res.nontrivial),
        "rule": res.rule,
        "exhaustive": bool(res.exhaustive),
        "tlc_runs": res.tlc,
        "build_configurations": sorted(res.cfgs),
        "per_operation_cases": res.per_op,
        "notes": res.notes,
    }
    cov.update(res.extra)
    ev = {
        "property_id": res.prop,
        "tier": res.tier,
        "seed": int(res.seed),
        "level": "model_checking",
        "coverage": cov,
        "assumptions": res.assumptions,
        "wall_s": round(time.time() - res.t0, 1),
        "violations": int(violations),
    }
    if tool_error:
        ev["coverage"]["notes"] = cov["notes"] + ["TOOL ERROR: run aborted"]
    path = os.path.join(VERIF, "evidence", f"{res.prop}.json")
    json.dump(ev, open(path, "w"), indent=1)


# ---------------------------------------------------------------------------------------------
# generic replay of TLC output through one harness binary in several configurations
# ---------------------------------------------------------------------------------------------
def replay_bin(res, binname, cases, cfgs, expect_ops=None, env_extra=None, tag=None, jobs=8, sanitizer_prop=None):
    build_all(cfgs, [binname])
    tag = tag or binname
    os.makedirs(os.path.join(WORK, res.prop), exist_ok=True)

    def one(cfg):
        out = os.path.join(WORK, res.prop, f"{tag}.{cfg}.json")
        if os.path.exists(out):
            os.remove(out)
        p = run_bin(cfg, binname, [cases, out], env_extra=env_extra)
        if sanitizer_prop and p.returncode != 0 and "AddressSanitizer" in (p.stderr or ""):
            # a sanitizer report is an abnormal exit: it is the violation
            rp = os.path.join(WORK, res.prop, f"{tag}.{cfg}.asan.txt")
            open(rp, "w").write(p.stderr[-20000:])
            json.dump({"cfg": cfg, "cases": 0, "evals": 0, "mismatch_count": 1, "spec_error_count": 0, "spec_errors": [],
                       "samples": [], "per_op": {}, "nontrivial": 0,
                       "mismatches": [{"prop": sanitizer_prop, "cfg": cfg, "ty": "?", "op": "AddressSanitizer report", "what": p.stderr[-1500:],
                                       "case": {"fam": "asan", "report": rp}}]}, open(out, "w"))
            return cfg, out
        if p.returncode in (-11, -7, -4) or (p.returncode == -6 and HEAP_ABORT.search(p.stderr or "")):
            # SIGSEGV / SIGBUS / SIGILL inside the library under test (the harness is safe Rust): a violation, not a tool error
            keep = os.path.join(WORK, "replays", f"{res.prop}-crash-{tag}-{cfg}.cases")
            os.makedirs(os.path.dirname(keep), exist_ok=True)
            shutil.copyfile(cases, keep)
            json.dump({"cfg": cfg, "cases": 0, "evals": 0, "mismatch_count": 1, "spec_error_count": 0, "spec_errors": [],
                       "samples": [], "per_op": {}, "nontrivial": 0,
                       "mismatches": [{"prop": sanitizer_prop or res.prop, "cfg": cfg, "ty": "?", "op": f"process killed by signal {-p.returncode} while replaying {tag}",
                                       "what": (p.stderr or "")[-800:], "case": {"fam": "crash", "bin": binname, "cases": keep, "env": env_extra or {}}}]}, open(out, "w"))
            return cfg, out
        if p.returncode != 0 or not os.path.exists(out):
            raise ToolError(f"{binname} replay crashed in {cfg}: rc={p.returncode}\n{p.stdout[-1500:]}\n{p.stderr[-3000:]}")
        log("  " + p.stdout.strip().splitlines()[-1])
        return cfg, out

    with ThreadPoolExecutor(max_workers=jobs) as ex:
        outs = list(ex.map(one, cfgs))
    for cfg, out in outs:
        r = res.add_report(out, cfg)
        if expect_ops and not (r["cases"] == 0 and r["mismatch_count"]):
            missing = [k for k in expect_ops if r["per_op"].get(k, 0) == 0]
            if missing:
                raise ToolError(f"vacuity guard: operations never exercised in {cfg}: {missing[:20]}")
        if r["cases"] == 0 and not r["mismatch_count"]:
            raise ToolError(f"vacuity guard: no case replayed in {cfg}")


# glibc's own heap-consistency aborts (SIGABRT): memory was corrupted by the code under test -- a crash like SIGSEGV, not a tool error
HEAP_ABORT = re.compile(r"free\(\): |malloc\(\): |double free or corruption|corrupted (size|double-linked|top size)|munmap_chunk\(\)|realloc\(\): ")


def generic_replay(res, path, binname, only=None, env_keys=("ty",)):
    """Re-execute exactly the case stored in a replay file, in the configuration it failed in."""
    mm = json.load(open(path))
    case = mm["case"]
    os.makedirs(os.path.join(WORK, res.prop), exist_ok=True)
    cases = os.path.join(WORK, res.prop, "replay.ndjson")
    open(cases, "w").write(json.dumps(case) + "\n")
    cfg = mm.get("cfg", "sse2")
    build_all([cfg], [binname])
    out = os.path.join(WORK, res.prop, f"replay.{cfg}.json")
    env = {}
    if "ty" in mm and "ty" in env_keys:
        env["HX_ONLY_TY"] = mm["ty"]
    if "hx_seed" in mm:
        env["HX_SEED"] = str(mm["hx_seed"])
    p = run_bin(cfg, binname, [cases, out], env_extra=env)
    if not os.path.exists(out):
        raise ToolError(f"replay crashed: {p.stderr[-2000:]}")
    r = json.load(open(out))
    for m in r["mismatches"][:3]:
        m.pop("case", None)
        print(json.dumps(m)[:1200])
    if r["mismatch_count"]:
        print(f"VIOLATION property={res.prop} replay={path}")
        return EXIT_VIOLATION
    print("replay: no mismatch on the current tree")
    return EXIT_OK


# ---------------------------------------------------------------------------------------------
# two-trace validation: TLC consumes two recorded traces in lock step (spec/Trace_SameBits.tla)
# ---------------------------------------------------------------------------------------------
def same_bits(res, trace_a, trace_b, cfg_a, cfg_b, prop=None):
    """Both builds executed the same behaviours; TLC accepts iff every event (bit digest) is equal."""
    out = os.path.join(WORK, res.prop, f"samebits.{cfg_a}.{cfg_b}.out")
    n_a = sum(1 for _ in open(trace_a))
    if n_a == 0:
        raise ToolError(f"vacuity guard: empty trace {trace_a}")
    try:
        st = run_tlc("Trace_SameBits", res.tier, out, workers=1, env_extra={"TRACE_A": trace_a, "TRACE_B": trace_b},
                     java_opts="-Xss1g -Xmx6g", timeout=1800)
        res.add_tlc(st)
        res.behaviours += 1
        res.extra.setdefault("traces_compared_by_tlc", []).append({"a": cfg_a, "b": cfg_b, "events": n_a})
    except ToolError as e:
        txt = open(out, errors="replace").read()
        if "SAMEBITS-REJECTED" in txt:
            first = [l for l in txt.splitlines() if "FIRST-DIFFERENCE" in l or "SAMEBITS-REJECTED" in l]
            res.mismatches.append({"prop": prop or res.prop, "cfg": f"{cfg_a} vs {cfg_b}", "ty": "trace", "op": "values differ between build configurations",
                                   "what": " ".join(first)[:600] + " " + txt[txt.find("FIRST-DIFFERENCE"):][:400],
                                   "case": {"fam": "samebits", "trace_a": trace_a, "trace_b": trace_b}})
        else:
            raise


def near_traces(res, trace_a, trace_b, cfg_a, cfg_b, prop=None):
    """SIMD vs scalar builds: TLC accepts iff every recorded value agrees within the stated slack."""
    out = os.path.join(WORK, res.prop, f"near.{cfg_a}.{cfg_b}.out")
    n_a = sum(1 for _ in open(trace_a))
    if n_a == 0:
        raise ToolError(f"vacuity guard: empty trace {trace_a}")
    try:
        st = run_tlc("Trace_Near", res.tier, out, workers=1, env_extra={"TRACE_A": trace_a, "TRACE_B": trace_b},
                     java_opts="-Xss1g -Xmx6g", timeout=1800)
        res.add_tlc(st)
        res.behaviours += 1
        res.extra.setdefault("traces_compared_by_tlc", []).append({"a": cfg_a, "b": cfg_b, "events": n_a, "mode": "near"})
    except ToolError:
        txt = open(out, errors="replace").read()
        if "SAMEBITS-REJECTED" in txt:
            res.mismatches.append({"prop": prop or res.prop, "cfg": f"{cfg_a} vs {cfg_b}", "ty": "trace", "op": "values differ between backends beyond the re-association slack",
                                   "what": txt[txt.find("SAMEBITS-REJECTED"):][:900], "case": {"fam": "near", "trace_a": trace_a, "trace_b": trace_b}})
        else:
            raise


def fold_cases(res, cfgs, algs, scalar=None):
    """Sum / Product over iterators of 0..MaxLen items (the fold machine MC_Fold.tla), replayed on the real types of the given algebras."""
    wd = os.path.join(WORK, res.prop)
    os.makedirs(wd, exist_ok=True)
    out = os.path.join(wd, "fold.out")
    res.add_tlc(run_tlc("MC_Fold", res.tier, out, workers=4))
    env = {"HX_PROP": res.prop, "HX_ALGS": ",".join(algs)}
    if scalar:
        env["HX_SCALAR"] = scalar
    ops = [f"fold:{a}:{o}:{l}" for a in algs for o in (("product",) if a == "aff" else ("sum", "product")) for l in (0, 1, 3)]
    replay_bin(res, "fold", out, cfgs, tag="fold", env_extra=env, expect_ops=ops)


# trace specifications whose rejected event can be re-executed on its own (or re-recorded deterministically)
EVENT_REPLAY_MODULES = ("Trace_Lanes", "Trace_Poly", "Trace_Rel", "Trace_C17", "Trace_C06", "Trace_C16", "Trace_C15")


def validate_trace(res, module, trace, label, prop=None, env_name="TRACE", cfg=None, case_extra=None):
    """Code -> spec direction: TLC consumes a trace recorded from the real code; rejection is a violation."""
    out = os.path.join(WORK, res.prop, f"{module}.{label}.out")
    n = sum(1 for _ in open(trace))
    if n == 0:
        raise ToolError(f"vacuity guard: empty trace {trace}")
    try:
        st = run_tlc(module, res.tier, out, workers=1, env_extra={env_name: trace}, java_opts="-Xss1g -Xmx6g", timeout=3600)
        res.add_tlc(st)
        res.behaviours += 1
        res.extra.setdefault("traces_validated_by_tlc", []).append({"module": module, "label": label, "events": n})
    except ToolError:
        txt = open(out, errors="replace").read()
        if "TRACE-REJECTED" in txt:
            case = {"fam": "trace", "module": module, "trace": trace}
            m = re.search(r'<<"FIRST-REJECTED-EVENT", ("\{.*\}")>>', txt)
            if m and module in EVENT_REPLAY_MODULES:
                try:
                    case = {"fam": "event", "module": module, "event": json.loads(json.loads(m.group(1))), "cfg": cfg or label}
                    case.update(case_extra or {})
                except ValueError:
                    pass
            ev = case.get("event", {})
            res.mismatches.append({"prop": prop or res.prop, "cfg": cfg or label, "ty": ev.get("ty", ev.get("sty", "trace")),
                                   "op": f"{module}: recorded execution rejected by the specification" + (f" ({ev.get('k')}:{ev.get('op')})" if ev else ""),
                                   "what": txt[txt.find("TRACE-REJECTED"):][:1200], "case": case})
        else:
            raise


def record_and_validate(res, mode, cfgs, draws, module="Trace_Lanes", chunks=4, prop=None, expect_kinds=(), ops=None, tys=None):
    """Code -> spec on arbitrary operands: `rec <mode>` executes the real library on random bit patterns in each
    build configuration and logs every call; TLC (module Trace_Lanes: IeeeW / IntLane with arbitrary-precision
    integers) consumes the log.  The log of each build is split into `chunks` files validated concurrently."""
    from concurrent.futures import ThreadPoolExecutor
    wd = os.path.join(WORK, res.prop)
    os.makedirs(wd, exist_ok=True)
    build_all(cfgs, ["rec"])
    jobs = []
    for cfg in cfgs:
        tr = os.path.join(wd, f"rec.{mode}.{cfg}.ndjson")
        p = run_bin(cfg, "rec", [mode, tr, str(res.seed), str(draws)], env_extra=dict(({"HX_OPS": ",".join(ops)} if ops else {}), **({"HX_TYS": ",".join(tys)} if tys else {})))
        if p.returncode != 0:
            m = re.search(r"REC-PANIC (\S+?):(\d+) :: (.*)", p.stderr)
            if p.returncode == 3 and m and os.path.realpath(m.group(1)).startswith(os.path.realpath(REPO) + os.sep):
                # an uncaught panic INSIDE the library while the recorder was calling it with valid operands: data, not a tool error
                res.mismatches.append({"prop": prop or res.prop, "cfg": cfg, "ty": "recorder", "op": f"panic inside the library while recording ({mode})",
                                       "what": f"{m.group(1)}:{m.group(2)} {m.group(3)[:300]}",
                                       "case": {"fam": "recpanic", "mode": mode, "seed": res.seed, "draws": draws, "ops": ops, "tys": tys, "cfg": cfg}})
                continue
            raise ToolError(f"rec {mode} failed in {cfg}: {p.stderr[-1500:]}")
        summ = json.load(open(tr + ".summary.json"))
        kinds = {k.split(":")[0] for k in summ["per_op"]}
        for k in expect_kinds:
            if k not in kinds:
                raise ToolError(f"vacuity guard: no '{k}' events recorded by rec {mode} in {cfg}")
        lines = open(tr).read().splitlines()
        res.extra.setdefault("recorded_events", {})[f"{mode}:{cfg}"] = len(lines)
        if lines and len(res.samples) < 8 and cfg == cfgs[0]:
            try:
                res.samples.append({"recorded_event": json.loads(lines[len(lines) // 2]), "judged_by": module})
            except ValueError:
                pass
        res.evaluations += len(lines)
        per = (len(lines) + chunks - 1) // chunks
        for k in range(chunks):
            part = lines[k * per:(k + 1) * per]
            if not part:
                continue
            f = os.path.join(wd, f"rec.{mode}.{cfg}.{k}.ndjson")
            open(f, "w").write("\n".join(part) + "\n")
            jobs.append((cfg, k, f))
    sub = []

    def one(job):
        cfg, k, f = job
        r = Result(res.prop, res.tier, res.seed)
        validate_trace(r, module, f, f"{mode}.{cfg}.{k}", prop=prop, cfg=cfg, case_extra={"mode": mode, "seed": res.seed, "draws": draws, "ops": ops, "tys": tys})
        return r
    with ThreadPoolExecutor(max_workers=8) as ex:
        sub = list(ex.map(one, jobs))
    for r in sub:
        res.tlc += r.tlc
        res.states += r.states
        res.transitions += r.transitions
        res.behaviours += r.behaviours
        res.mismatches += r.mismatches
        for k, v in r.extra.items():
            if isinstance(v, list):
                res.extra.setdefault(k, []).extend(v)


def replay_event(res, path):
    """Replay of a rejected trace event: the logged call is executed again on the current tree (same build
    configuration, same operands, same spelling) and the fresh one-event log is judged by the same specification."""
    mm = json.load(open(path))
    case = mm["case"]
    cfg = case.get("cfg", "sse2")
    wd = os.path.join(WORK, res.prop)
    os.makedirs(wd, exist_ok=True)
    build_all([cfg], ["rec"])
    evf = os.path.join(wd, "replay.event.json")
    json.dump(case["event"], open(evf, "w"))
    tr = os.path.join(wd, f"replay.{cfg}.ndjson")
    if case.get("mode") in ("acc", "macc", "swz", "mask"):
        # a history is stateful: the whole deterministic recording is repeated and validated again
        p = run_bin(cfg, "rec", [case["mode"], tr, str(case["seed"]), str(case["draws"])])
    elif case.get("mode") in ("poly", "mat", "rel"):
        # the recorder is deterministic in (mode, seed, draws): record again and keep the event with the same number
        full = os.path.join(wd, f"replay.full.{cfg}.ndjson")
        p = run_bin(cfg, "rec", [case["mode"], full, str(case["seed"]), str(case["draws"])], env_extra=dict(({"HX_OPS": ",".join(case["ops"])} if case.get("ops") else {}), **({"HX_TYS": ",".join(case["tys"])} if case.get("tys") else {})))
        want = case["event"]
        line = next((l for l in open(full) if json.loads(l).get("i") == want["i"]), None)
        if p.returncode != 0 or line is None:
            raise ToolError(f"rec {case['mode']} did not reproduce event {want['i']}: {p.stderr[-800:]}")
        got = json.loads(line)
        if any(got.get(k) != want.get(k) for k in ("op", "ty", "sp", "a", "b", "m", "v", "t", "d", "q0", "q1")):
            raise ToolError(f"rec {case['mode']} produced different operands for event {want['i']}")
        open(tr, "w").write(line)
    else:
        p = run_bin(cfg, "rec", ["replay", tr, evf])
    if p.returncode != 0 or not os.path.exists(tr) or os.path.getsize(tr) == 0:
        raise ToolError(f"rec replay produced no event: {p.stdout[-500:]} {p.stderr[-1500:]}")
    validate_trace(res, case["module"], tr, "replay", cfg=cfg)
    for m in res.mismatches[:2]:
        print(m["what"][:1500])
    if res.mismatches:
        print(f"VIOLATION property={res.prop} replay={path}")
        return EXIT_VIOLATION
    print("replay: the specification accepts the re-executed event on the current tree")
    return EXIT_OK


# which harness binary replays a case of a given family (a check may borrow families from another property's machine)
BIN_OF_FAM = {"acc": "tok", "mat": "tok", "matmove": "tok", "swz": "tok", "cam": "rot", "chain": "rot", "srt": "rot", "rot": "rot",
              "chain20": "chain", "conv": "conv", "move": "conv", "geom": "geom", "hid": "hid", "int": "int", "interp": "interp",
              "lane": "lane", "lin": "lin", "mask": "mask", "select": "mask", "nopanic": "safe", "slice": "safe", "index": "safe", "serial": "ser", "fold": "fold"}


def replay_dispatch(res, path, binname, only=None, env_keys=("ty",)):
    mm = json.load(open(path))
    fam = mm.get("case", {}).get("fam")
    binname = BIN_OF_FAM.get(fam, binname)
    if fam == "event":
        return replay_event(res, path)
    if fam == "trace":
        # a recorded execution that the specification rejected: judge the stored recording again (a fresh recording is made by the check itself)
        case = mm["case"]
        if not os.path.exists(case["trace"]):
            print("replay: the recorded trace is gone; run the check again")
            return EXIT_OK
        validate_trace(res, case["module"], case["trace"], "replay")
        if res.mismatches:
            print(res.mismatches[0]["what"][:800])
            print(f"VIOLATION property={res.prop} replay={path}")
            return EXIT_VIOLATION
        print("replay: the specification accepts the recorded trace")
        return EXIT_OK
    if fam == "recpanic":
        case = mm["case"]
        build_all([case["cfg"]], ["rec"])
        tr = os.path.join(WORK, res.prop, f"replay.{case['cfg']}.ndjson")
        p = run_bin(case["cfg"], "rec", [case["mode"], tr, str(case["seed"]), str(case["draws"])],
                    env_extra=dict(({"HX_OPS": ",".join(case["ops"])} if case.get("ops") else {}), **({"HX_TYS": ",".join(case["tys"])} if case.get("tys") else {})))
        if p.returncode == 3 and "REC-PANIC" in p.stderr:
            print(p.stderr[p.stderr.find("REC-PANIC"):][:400])
            print(f"VIOLATION property={res.prop} replay={path}")
            return EXIT_VIOLATION
        print("replay: the recorder completes on the current tree")
        return EXIT_OK
    if fam == "crash":
        case, cfg = mm["case"], mm.get("cfg", "sse2")
        build_all([cfg], [case["bin"]])
        out = os.path.join(WORK, res.prop, f"replay.{cfg}.json")
        p = run_bin(cfg, case["bin"], [case["cases"], out], env_extra=case.get("env") or None)
        if p.returncode in (-11, -7, -4) or (p.returncode == -6 and HEAP_ABORT.search(p.stderr or "")):
            print(f"process killed by signal {-p.returncode}")
            print(f"VIOLATION property={res.prop} replay={path}")
            return EXIT_VIOLATION
        print("replay: no crash on the current tree")
        return EXIT_OK
    return generic_replay(res, path, binname, only=only, env_keys=env_keys)
