"""C05: Quat, Mat3/Mat3A, Mat4 and Affine types are interchangeable views of a transform."""
import os
from . import core, p_c03, p_c04

CFGS = ["sse2", "sse2-rel", "scalar", "coresimd"]


def run(res, only=None):
    cfgs = [c for c in CFGS if not only or c in only]
    wd = os.path.join(core.WORK, res.prop)
    os.makedirs(wd, exist_ok=True)
    # (1) the conversion graph: all chains of length <= 4 from seed rotations of the exact grid
    cases = os.path.join(wd, "chains.out")
    res.add_tlc(core.run_tlc("MC_C05", res.tier, cases, workers=8, extra_constants={"Seed": res.seed % 97}))
    expect = [f"chain:{s}:{b}" for s in ("Quat", "Mat3", "Mat4", "Affine3A", "DQuat") for b in "xyzw"]
    core.replay_bin(res, "rot", cases, cfgs, expect_ops=expect, env_extra={"HX_PROP": "C05"}, tag="chains")
    # (2) conversion commutes with composition / inversion / identity, exactly, on integer affine maps
    #     (Mat4::from(a*b) = Mat4::from(a)*Mat4::from(b), affine*matrix, inverse) and Hurwitz quaternions
    #     (matrix_of(q) exact, (pq)v = p(qv))
    p_c03.linalg_cases(res, cfgs, prop="C05")
    p_c04.quat_cases(res, cfgs, prop="C05")
    # (3) code -> spec on random rotations (small, generic, nearly half-turn: all four extraction branches): every from_quat and every
    #     from_mat* / from_affine3 pair (q, M) must satisfy the quaternion-to-matrix polynomial entry by entry (Trace_Rel.tla quat_mat)
    core.record_and_validate(res, "rel", [c for c in cfgs if c != "sse2-rel"], draws=2 if res.tier == "quick" else 60, module="Trace_Rel",
                             chunks=2 if res.tier == "quick" else 8, expect_kinds=("rel",), ops=["quat_mat"])
    res.rule = ("conversion graph with 9 representations and 38 conversion functions: every chain of up to 4 conversions from every seed "
                "rotation (Euler XYZ triples of the 45-degree grid: all 512 in thorough, ~47 in quick; all four branches of matrix->quaternion "
                "are reached and counted, half-turns included) with the action on three probe vectors compared with the exact ring matrix "
                "after every hop through every applying method; homomorphism laws exactly on integer affine maps and Hurwitz quaternions.")
    res.assumptions = ["tolerance 4e-5 once an f32 representation is involved, 1e-11 for all-f64 chains",
                       "rotations off the 45-degree grid (e.g. within 1e-3 of angle 0 or pi about arbitrary axes) are not enumerated"]


def replay(res, path, only=None):
    import json
    fam = json.load(open(path)).get("case", {}).get("fam")
    return core.replay_dispatch(res, path, "lin" if fam == "lin" else "rot", env_keys=())
