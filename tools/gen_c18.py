#!/usr/bin/env python3
"""Generates, from ONE table of public float functions, both
   spec/C18Ops.tla           (the operation vocabulary the specification quantifies over) and
   harness/src/safe_gen.rs   (the dispatch that calls each of them on the real types),
so that the specification and the harness cannot drift apart."""
import os
ROOT = os.path.dirname(os.path.dirname(os.path.abspath(__file__)))

# slots: va vb vc (vectors of the type's dimension), wa wb wc (3-vectors), ta tb (2-vectors), sa sb sc sd (scalars),
#        qa qb (quaternions), ma mb (matrices of the type), aa ab (affines of the type)
VA = [  # every float vector type
    ("abs", "{va}.abs()"), ("signum", "{va}.signum()"), ("floor", "{va}.floor()"), ("ceil", "{va}.ceil()"), ("round", "{va}.round()"),
    ("trunc", "{va}.trunc()"), ("fract", "{va}.fract()"), ("fract_gl", "{va}.fract_gl()"), ("recip", "{va}.recip()"), ("exp", "{va}.exp()"),
    ("neg", "-{va}"), ("normalize", "{va}.normalize()"), ("try_normalize", "{va}.try_normalize()"), ("normalize_or_zero", "{va}.normalize_or_zero()"),
    ("normalize_and_length", "{va}.normalize_and_length()"), ("length", "{va}.length()"), ("length_squared", "{va}.length_squared()"),
    ("length_recip", "{va}.length_recip()"), ("is_normalized", "{va}.is_normalized()"), ("is_finite", "{va}.is_finite()"), ("is_nan", "{va}.is_nan()"),
    ("is_nan_mask", "{va}.is_nan_mask()"), ("is_finite_mask", "{va}.is_finite_mask()"), ("min_element", "{va}.min_element()"),
    ("max_element", "{va}.max_element()"), ("min_position", "{va}.min_position()"), ("max_position", "{va}.max_position()"),
    ("element_sum", "{va}.element_sum()"), ("element_product", "{va}.element_product()"), ("is_negative_bitmask", "{va}.is_negative_bitmask()"),
    ("debug", "format!(\"{{:?}}\", {va})"), ("display", "format!(\"{{:.3}}\", {va})"),
    ("add", "{va} + {vb}"), ("sub", "{va} - {vb}"), ("mul", "{va} * {vb}"), ("div", "{va} / {vb}"), ("rem", "{va} % {vb}"),
    ("min", "{va}.min({vb})"), ("max", "{va}.max({vb})"), ("copysign", "{va}.copysign({vb})"), ("div_euclid", "{va}.div_euclid({vb})"),
    ("rem_euclid", "{va}.rem_euclid({vb})"), ("dot", "{va}.dot({vb})"), ("dot_into_vec", "{va}.dot_into_vec({vb})"), ("distance", "{va}.distance({vb})"),
    ("distance_squared", "{va}.distance_squared({vb})"), ("project_onto", "{va}.project_onto({vb})"), ("reject_from", "{va}.reject_from({vb})"),
    ("project_onto_normalized", "{va}.project_onto_normalized({vb})"), ("reject_from_normalized", "{va}.reject_from_normalized({vb})"),
    ("reflect", "{va}.reflect({vb})"), ("midpoint", "{va}.midpoint({vb})"), ("cmplt", "{va}.cmplt({vb})"), ("cmpeq", "{va}.cmpeq({vb})"),
    ("eq", "{va} == {vb}"), ("normalize_or", "{va}.normalize_or({vb})"),
    ("clamp", "{va}.clamp({vb}, {vc})"), ("mul_add", "{va}.mul_add({vb}, {vc})"),
    ("mul_s", "{va} * {sa}"), ("div_s", "{va} / {sa}"), ("rem_s", "{va} % {sa}"), ("s_div", "{sa} / {va}"), ("powf", "{va}.powf({sa})"),
    ("clamp_length_max", "{va}.clamp_length_max({sa})"), ("clamp_length_min", "{va}.clamp_length_min({sa})"),
    ("clamp_length", "{va}.clamp_length({sa}, {sb})"),
    ("lerp", "{va}.lerp({vb}, {sa})"), ("move_towards", "{va}.move_towards({vb}, {sa})"), ("abs_diff_eq", "{va}.abs_diff_eq({vb}, {sa})"),
    ("refract", "{va}.refract({vb}, {sa})"), ("sum", "[{va}, {vb}].iter().sum::<{T}>()"), ("product", "[{va}, {vb}].iter().product::<{T}>()"),
]
V2 = [("perp", "{va}.perp()"), ("perp_dot", "{va}.perp_dot({vb})"), ("angle_to", "{va}.angle_to({vb})"), ("to_angle", "{va}.to_angle()"),
      ("from_angle", "{T}::from_angle({sa})"), ("rotate", "{va}.rotate({vb})"), ("rotate_towards", "{va}.rotate_towards({vb}, {sa})")]
V3 = [("cross", "{va}.cross({vb})"), ("angle_between", "{va}.angle_between({vb})"), ("rotate_towards", "{va}.rotate_towards({vb}, {sa})"),
      ("slerp", "{va}.slerp({vb}, {sa})"), ("any_orthogonal_vector", "{va}.any_orthogonal_vector()"),
      ("any_orthonormal_vector", "{va}.any_orthonormal_vector()"), ("any_orthonormal_pair", "{va}.any_orthonormal_pair()")]
Q = [("from_axis_angle", "{T}::from_axis_angle({wa}, {sa})"), ("from_scaled_axis", "{T}::from_scaled_axis({wa})"), ("from_rotation_x", "{T}::from_rotation_x({sa})"),
     ("from_euler", "{T}::from_euler(glam::EulerRot::XYZ, {sa}, {sb}, {sc})"), ("from_rotation_arc", "{T}::from_rotation_arc({wa}, {wb})"),
     ("from_rotation_arc_colinear", "{T}::from_rotation_arc_colinear({wa}, {wb})"), ("from_rotation_arc_2d", "{T}::from_rotation_arc_2d({ta}, {tb})"),
     ("look_to_rh", "{T}::look_to_rh({wa}, {wb})"), ("look_at_lh", "{T}::look_at_lh({wa}, {wb}, {wc})"),
     ("to_axis_angle", "{qa}.to_axis_angle()"), ("to_scaled_axis", "{qa}.to_scaled_axis()"), ("to_euler", "{qa}.to_euler(glam::EulerRot::ZYX)"),
     ("to_euler_zxz", "{qa}.to_euler(glam::EulerRot::ZXZ)"), ("conjugate", "{qa}.conjugate()"), ("inverse", "{qa}.inverse()"), ("normalize", "{qa}.normalize()"),
     ("length", "{qa}.length()"), ("length_recip", "{qa}.length_recip()"), ("is_normalized", "{qa}.is_normalized()"), ("is_near_identity", "{qa}.is_near_identity()"),
     ("is_nan", "{qa}.is_nan()"), ("is_finite", "{qa}.is_finite()"), ("mul_quat", "{qa} * {qb}"), ("add", "{qa} + {qb}"), ("sub", "{qa} - {qb}"),
     ("dot", "{qa}.dot({qb})"), ("angle_between", "{qa}.angle_between({qb})"), ("lerp", "{qa}.lerp({qb}, {sa})"), ("slerp", "{qa}.slerp({qb}, {sa})"),
     ("rotate_towards", "{qa}.rotate_towards({qb}, {sa})"), ("abs_diff_eq", "{qa}.abs_diff_eq({qb}, {sa})"), ("mul_vec3", "{qa} * {wa}"),
     ("mul_s", "{qa} * {sa}"), ("div_s", "{qa} / {sa}"), ("debug", "format!(\"{{:?}} {{}}\", {qa}, {qa})"), ("xyz", "{qa}.xyz()")]
MA = [("determinant", "{ma}.determinant()"), ("inverse", "{ma}.inverse()"), ("transpose", "{ma}.transpose()"), ("abs", "{ma}.abs()"),
      ("is_nan", "{ma}.is_nan()"), ("is_finite", "{ma}.is_finite()"), ("mul_mat", "{ma} * {mb}"), ("add_mat", "{ma} + {mb}"), ("sub_mat", "{ma} - {mb}"),
      ("eq", "{ma} == {mb}"), ("abs_diff_eq", "{ma}.abs_diff_eq({mb}, {sa})"), ("mul_scalar", "{ma} * {sa}"), ("div_scalar", "{ma} / {sa}"),
      ("mul_vec", "{ma} * {va}"), ("debug", "format!(\"{{:?}} {{}}\", {ma}, {ma})"), ("product", "[{ma}, {mb}].iter().product::<{T}>()")]
M2 = [("from_angle", "{T}::from_angle({sa})"), ("from_scale_angle", "{T}::from_scale_angle({va}, {sa})")]
M3 = [("from_axis_angle", "{T}::from_axis_angle({wa}, {sa})"), ("from_euler", "{T}::from_euler(glam::EulerRot::YXZ, {sa}, {sb}, {sc})"),
      ("to_euler", "{ma}.to_euler(glam::EulerRot::XYZ)"), ("to_euler_xyx", "{ma}.to_euler(glam::EulerRot::XYX)"), ("from_quat", "{T}::from_quat({qa})"),
      ("from_scale_angle_translation", "{T}::from_scale_angle_translation({ta}, {sa}, {tb})"), ("transform_point2", "{ma}.transform_point2({ta})"),
      ("transform_vector2", "{ma}.transform_vector2({ta})"), ("quat_from_mat3", "{Q}::{qfrom}(&{ma})"), ("look_to_rh", "{T}::look_to_rh({wa}, {wb})")]
M4 = [("from_axis_angle", "{T}::from_axis_angle({wa}, {sa})"), ("from_euler", "{T}::from_euler(glam::EulerRot::ZXY, {sa}, {sb}, {sc})"),
      ("to_euler", "{ma}.to_euler(glam::EulerRot::XYZ)"), ("to_scale_rotation_translation", "{ma}.to_scale_rotation_translation()"),
      ("from_scale_rotation_translation", "{T}::from_scale_rotation_translation({wa}, {qa}, {wb})"), ("look_to_rh", "{T}::look_to_rh({wa}, {wb}, {wc})"),
      ("look_at_lh", "{T}::look_at_lh({wa}, {wb}, {wc})"), ("perspective_rh_gl", "{T}::perspective_rh_gl({sa}, {sb}, {sc}, {sd})"),
      ("perspective_lh", "{T}::perspective_lh({sa}, {sb}, {sc}, {sd})"), ("perspective_infinite_reverse_rh", "{T}::perspective_infinite_reverse_rh({sa}, {sb}, {sc})"),
      ("orthographic_rh", "{T}::orthographic_rh({sa}, {sb}, {sc}, {sd}, {sa}, {sb})"), ("orthographic_rh_gl", "{T}::orthographic_rh_gl({sa}, {sb}, {sc}, {sd}, {sb}, {sa})"),
      ("project_point3", "{ma}.project_point3({wa})"), ("transform_point3", "{ma}.transform_point3({wa})"), ("transform_vector3", "{ma}.transform_vector3({wa})"),
      ("quat_from_mat4", "{Q}::from_mat4(&{ma})"), ("from_quat", "{T}::from_quat({qa})")]
A2 = [("inverse", "{aa}.inverse()"), ("mul", "{aa} * {ab}"), ("transform_point2", "{aa}.transform_point2({ta})"), ("transform_vector2", "{aa}.transform_vector2({ta})"),
      ("to_scale_angle_translation", "{aa}.to_scale_angle_translation()"), ("from_scale_angle_translation", "{T}::from_scale_angle_translation({ta}, {sa}, {tb})"),
      ("is_finite", "{aa}.is_finite()"), ("is_nan", "{aa}.is_nan()"), ("abs_diff_eq", "{aa}.abs_diff_eq({ab}, {sa})"), ("debug", "format!(\"{{:?}} {{}}\", {aa}, {aa})")]
A3 = [("inverse", "{aa}.inverse()"), ("mul", "{aa} * {ab}"), ("transform_point3", "{aa}.transform_point3({wa})"), ("transform_vector3", "{aa}.transform_vector3({wa})"),
      ("to_scale_rotation_translation", "{aa}.to_scale_rotation_translation()"), ("from_scale_rotation_translation", "{T}::from_scale_rotation_translation({wa}, {qa}, {wb})"),
      ("look_to_rh", "{T}::look_to_rh({wa}, {wb}, {wc})"), ("look_at_rh", "{T}::look_at_rh({wa}, {wb}, {wc})"), ("from_axis_angle", "{T}::from_axis_angle({wa}, {sa})"),
      ("is_finite", "{aa}.is_finite()"), ("is_nan", "{aa}.is_nan()"), ("quat_from_affine3", "{Q}::from_affine3(&{aa})"), ("mat4_mul", "{M4}::from({aa}) * {aa}"),
      ("debug", "format!(\"{{:?}} {{}}\", {aa}, {aa})")]

# concrete types: (name, scalar, families, dim / extras)
TYPES = [
    ("Vec2", "f32", [VA, V2], dict(n=2)), ("Vec3", "f32", [VA, V3], dict(n=3)), ("Vec3A", "f32", [VA, V3], dict(n=3)), ("Vec4", "f32", [VA], dict(n=4)),
    ("DVec2", "f64", [VA, V2], dict(n=2)), ("DVec3", "f64", [VA, V3], dict(n=3)), ("DVec4", "f64", [VA], dict(n=4)),
    ("Quat", "f32", [Q], dict(n=4)), ("DQuat", "f64", [Q], dict(n=4)),
    ("Mat2", "f32", [MA, M2], dict(n=2)), ("DMat2", "f64", [MA, M2], dict(n=2)),
    ("Mat3", "f32", [MA, M3], dict(n=3, qfrom="from_mat3")), ("Mat3A", "f32", [MA, M3], dict(n=3, qfrom="from_mat3a")), ("DMat3", "f64", [MA, M3], dict(n=3, qfrom="from_mat3")),
    ("Mat4", "f32", [MA, M4], dict(n=4)), ("DMat4", "f64", [MA, M4], dict(n=4)),
    ("Affine2", "f32", [A2], dict(n=2)), ("DAffine2", "f64", [A2], dict(n=2)), ("Affine3A", "f32", [A3], dict(n=3)), ("DAffine3", "f64", [A3], dict(n=3)),
]
SLOTS = ["va", "vb", "vc", "wa", "wb", "wc", "ta", "tb", "sa", "sb", "sc", "sd", "qa", "qb", "ma", "mb", "aa", "ab"]

def pref(sc): return "" if sc == "f32" else "D"

def slot_exprs(name, sc, n):
    d = pref(sc)
    vecn = {2: f"{d}Vec2", 3: f"{d}Vec3", 4: f"{d}Vec4"}
    colv = name if name.startswith(("Vec", "DVec")) else {"Mat3A": "Vec3A"}.get(name, vecn[n])
    own_vec = name if ("Vec" in name) else colv
    e = {}
    for s in ("va", "vb", "vc"):
        e[s] = f"<{own_vec}>::from_slice(&e.{s}[..{n}])"
    for s, t in (("wa", "va"), ("wb", "vb"), ("wc", "vc")):
        e[s] = f"<{d}Vec3>::from_slice(&e.{t}[..3])"
    for s, t in (("ta", "va"), ("tb", "vb")):
        e[s] = f"<{d}Vec2>::from_slice(&e.{t}[..2])"
    for s in ("sa", "sb", "sc", "sd"):
        e[s] = f"e.{s}"
    for s in ("qa", "qb"):
        e[s] = f"<{d}Quat>::from_slice(&e.{s}[..4])"
    if "Mat" in name:
        for s in ("ma", "mb"):
            e[s] = f"<{name}>::from_cols_slice(&e.{s}[..{n * n}])"
    if "Affine" in name:
        k = n * (n + 1)
        for s, t in (("aa", "ma"), ("ab", "mb")):
            e[s] = f"<{name}>::from_cols_slice(&e.{t}[..{k}])"
    e["T"] = name
    e["Q"] = f"{d}Quat"
    e["M4"] = f"{d}Mat4"
    return e

def main():
    rs = ["// GENERATED by tools/gen_c18.py -- do not edit", "#![allow(unused_must_use, clippy::all)]", "use glam::*;", "",
          "/// ordinary argument values, one slot of which the case replaces by a special value",
          "pub struct Env<S> { pub va: [S; 4], pub vb: [S; 4], pub vc: [S; 4], pub sa: S, pub sb: S, pub sc: S, pub sd: S, pub qa: [S; 4], pub qb: [S; 4], pub ma: [S; 16], pub mb: [S; 16] }", ""]
    tla = ["------------------------------- MODULE C18Ops -------------------------------",
           "(* GENERATED by tools/gen_c18.py from the same table as harness/src/safe_gen.rs: the public float *)",
           "(* functions C18 quantifies over, each with the argument slots it reads.                          *)",
           "Ops == {"]
    rows = []
    for name, sc, fams, ex in TYPES:
        n = ex["n"]
        se = slot_exprs(name, sc, n)
        se["qfrom"] = ex.get("qfrom", "from_mat3")
        rs.append(f"pub fn run_{name.lower()}(op: &str, e: &Env<{sc}>) -> bool {{")
        rs.append("    match op {")
        seen = set()
        for fam in fams:
            for op, tmpl in fam:
                if op in seen:
                    continue
                seen.add(op)
                used = sorted({s for s in SLOTS if "{" + s + "}" in tmpl})
                expr = tmpl.format(**se)
                rs.append(f'        "{op}" => {{ let _r = std::hint::black_box({expr}); }}')
                # slot kinds for the spec: the underlying storage slot and its width
                sl = []
                for s in used:
                    base = {"wa": "va", "wb": "vb", "wc": "vc", "ta": "va", "tb": "vb", "aa": "ma", "ab": "mb"}.get(s, s)
                    width = 1 if s[0] == "s" else (3 if s[0] == "w" else 2 if s[0] == "t" else 4 if s[0] == "q" else
                                                  (n * n if s[0] == "m" else n * (n + 1) if s[0] == "a" else n))
                    sl.append((base, min(width, 4)))
                rows.append((name, op, sl))
        rs.append("        _ => return false,")
        rs.append("    }")
        rs.append("    true")
        rs.append("}")
    rs.append("pub fn run(ty: &str, op: &str, e32: &Env<f32>, e64: &Env<f64>) -> bool {")
    rs.append("    match ty {")
    for name, sc, fams, ex in TYPES:
        rs.append(f'        "{name}" => run_{name.lower()}(op, {"e32" if sc == "f32" else "e64"}),')
    rs.append("        _ => false,")
    rs.append("    }")
    rs.append("}")
    rs.append(f"pub const N_OPS: usize = {len(rows)};")
    lines = []
    for name, op, sl in rows:
        slots = ", ".join(f'<<"{b}", {w}>>' for b, w in sl)
        lines.append(f'    [ty |-> "{name}", op |-> "{op}", slots |-> {{{slots}}}]')
    tla.append(",\n".join(lines))
    tla.append("}")
    tla.append("=============================================================================")
    open(os.path.join(ROOT, "harness/src/safe_gen.rs"), "w").write("\n".join(rs) + "\n")
    open(os.path.join(ROOT, "spec/C18Ops.tla"), "w").write("\n".join(tla) + "\n")
    print(len(rows), "operations")

if __name__ == "__main__":
    main()
