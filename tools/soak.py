#!/usr/bin/env python3
"""Soak test of a trace specification against the UNCHANGED tree: many more random draws than any tier uses, to find tolerance
tails (false alarms) before a check does.   tools/soak.py <mode> <module> <draws> <seed> [ops] [cfg]"""
import os, sys, json, subprocess
from concurrent.futures import ThreadPoolExecutor
sys.path.insert(0, os.path.join(os.path.dirname(os.path.abspath(__file__)), ".."))
from vlib import core
mode, module, draws, seed = sys.argv[1], sys.argv[2], int(sys.argv[3]), int(sys.argv[4])
ops = sys.argv[5] if len(sys.argv) > 5 and sys.argv[5] != "-" else None
cfg = sys.argv[6] if len(sys.argv) > 6 else "sse2"
wd = os.path.join(core.WORK, "SOAK"); os.makedirs(wd, exist_ok=True)
core.build_all([cfg], ["rec"])
tr = os.path.join(wd, f"{mode}.{cfg}.{seed}.ndjson")
p = core.run_bin(cfg, "rec", [mode, tr, str(seed), str(draws)], env_extra={"HX_OPS": ops} if ops else None)
lines = open(tr).read().splitlines()
n = 14; per = (len(lines) + n - 1) // n
def one(k):
    part = lines[k * per:(k + 1) * per]
    if not part: return None
    f = os.path.join(wd, f"{mode}.{cfg}.{seed}.{k}.ndjson"); open(f, "w").write("\n".join(part) + "\n")
    r = core.Result("SOAK", "quick", seed); r.prop = "SOAK"
    core.validate_trace(r, module, f, f"{mode}.{seed}.{k}")
    return r.mismatches
with ThreadPoolExecutor(max_workers=7) as ex:
    out = list(ex.map(one, range(n)))
bad = [m for o in out if o for m in o]
print(f"soak {mode}/{module} cfg={cfg} seed={seed}: {len(lines)} events, {len(bad)} chunks rejected")
for m in bad[:5]:
    print(m["what"][:1500])
