#!/usr/bin/env python3
"""Prints a markdown table of what the last run of every check covered (from evidence/*.json)."""
import json, glob, os
rows = []
for f in sorted(glob.glob(os.path.join(os.path.dirname(os.path.abspath(__file__)), "..", "evidence", "C*.json"))):
    e = json.load(open(f)); c = e["coverage"]
    rec = sum(c.get("recorded_events", {}).values()) if isinstance(c.get("recorded_events"), dict) else 0
    tv = len(c.get("traces_validated_by_tlc", [])) + len(c.get("traces_compared_by_tlc", []))
    rows.append((e["property_id"], e["tier"], c["states"], c["traces_validated_against_impl"], c["evaluations"], rec, tv,
                 len(c.get("build_configurations", [])), int(e["wall_s"]), e.get("violations", 0)))
print("| id | tier | TLC states | behaviours replayed / traces validated | evaluations | recorded events | traces judged by TLC | builds | wall s | violations |")
print("|---|---|---|---|---|---|---|---|---|---|")
for r in rows:
    print("| " + " | ".join(str(x) for x in r) + " |")
