#!/bin/sh
# usage: tools/confirm_mutant.sh <agentdir> <k>
# Confirms independently, in the scratch worktree /tmp/wt_confirm, that mutant<k>.diff (a) applies, (b) keeps the
# pinned suite green, (c) makes demo<k>.rs fail, and (d) that the demo passes on the clean tree.
d="$(realpath "$1")"; k="$2"; wt=${WT:-/tmp/wt_confirm}
cd $wt || exit 9
git checkout -q -- . ; rm -f tests/demo*.rs
demo_cmd=$(python3 -c "import json;print(json.load(open('$d/meta$k.json')).get('demo_cmd',''))")
extra=$(echo "$demo_cmd" | grep -o -- "+nightly" | head -1)
feat=$(echo "$demo_cmd" | grep -o -- "--features [a-z,-]*" | head -1)
rf=$(echo "$demo_cmd" | sed -n 's/.*RUSTFLAGS="\([^"]*\)".*/\1/p')
cp "$d/demo$k.rs" tests/demo$k.rs
echo "## clean tree demo ($extra $feat RUSTFLAGS=$rf)"
RUSTFLAGS="$rf" CARGO_TARGET_DIR=target/demo cargo $extra test --offline $feat --test demo$k > $wt/confirm_clean.log 2>&1; c_clean=$?
git apply "$d/mutant$k.diff" || { echo "APPLY FAILED"; git checkout -q -- .; rm -f tests/demo*.rs; exit 9; }
echo "## mutant demo"
RUSTFLAGS="$rf" CARGO_TARGET_DIR=target/demo cargo $extra test --offline $feat --test demo$k > $wt/confirm_mut.log 2>&1; c_mut=$?
rm -f tests/demo$k.rs
echo "## mutant full suite (default config)"
cargo nextest run --workspace --no-fail-fast --offline --test-threads 8 > $wt/confirm_suite.log 2>&1; c_suite=$?
tail -2 $wt/confirm_suite.log
git checkout -q -- . ; rm -f tests/demo*.rs
echo "RESULT dir=$d k=$k demo_clean_rc=$c_clean demo_mutant_rc=$c_mut suite_mutant_rc=$c_suite"
if [ $c_clean = 0 ] && [ $c_mut != 0 ] && [ $c_suite = 0 ]; then echo "CONFIRMED $d $k"; else echo "NOT-CONFIRMED $d $k"; fi
