#!/bin/sh
# usage: tools/try_mutant.sh <patch.diff> <PROP> [extra check args]   -- applies the patch to /repo, runs the
# quick check, and always restores /repo.  Prints the check's exit code.
diff="$1"; prop="$2"; shift 2
diff="$(realpath "$diff")"; cd /verif
git -C /repo diff --quiet || { echo "/repo not clean"; exit 9; }
git -C /repo apply "$(realpath "$diff")" || { echo "patch does not apply"; exit 9; }
./check "$prop" "$@" > work/try_$prop.log 2>&1; rc=$?
git -C /repo checkout -- .
grep -E "^(VIOLATION|KNOWN-FINDING|TOOL ERROR)" work/try_$prop.log | head -5
grep -E "^   \{" work/try_$prop.log | head -2 | cut -c1-400
echo "rc=$rc"
