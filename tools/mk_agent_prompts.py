#!/usr/bin/env python3
"""Prepares a seeding round: for each property id a scratch worktree of /repo under <dir>/wt_<id> and a prompt file <dir>/prompt_<id>.txt that
contains ONLY the property's text (and one-line summaries of the changes earlier rounds already produced, so they are not repeated).
   tools/mk_agent_prompts.py <dir> <round-name> <id>..."""
import json, os, sys, glob, subprocess
ROOT = os.path.dirname(os.path.dirname(os.path.abspath(__file__)))
d, rnd, ids = sys.argv[1], sys.argv[2], sys.argv[3:]
os.makedirs(d, exist_ok=True)
props = {json.loads(l)["id"]: json.loads(l) for l in open(os.path.join(ROOT, "properties.jsonl"))}
for i in ids:
    p = props[i]; wt = f"{d}/wt_{i}"
    if not os.path.isdir(wt):
        subprocess.check_call(["git", "-C", "/repo", "worktree", "add", "--detach", wt, "HEAD"], stdout=subprocess.DEVNULL)
    earlier = []
    for m in sorted(glob.glob(os.path.join(ROOT, "seeded", i + "-*", "meta.json"))):
        earlier.append("  - " + json.load(open(m)).get("what_it_changes", "")[:150].replace("\n", " "))
    for m in sorted(glob.glob(os.path.join(ROOT, "work", "agents*", i, "meta*.json"))):        # rounds not kept yet
        t = "  - " + json.load(open(m)).get("summary", "")[:150].replace("\n", " ")
        if t not in earlier:
            earlier.append(t)
    anchors = p.get("anchors") or p.get("code_anchors") or {}
    text = f"""You are working in a scratch git worktree of the Rust crate glam-rs (a SIMD linear algebra library) at {wt}. Work ONLY inside {wt}. Do NOT read, list or touch /verif or /repo (another engineer's independent work lives there and must stay unseen by you). There is no network: always pass --offline to cargo.

Here is a semantic property the library is supposed to satisfy:

{i}: {p.get('title', '')}

STATEMENT: {p.get('statement', '')}

QUANTIFIED OVER: {(p.get('quantifier') or {}).get('text', '')}

WHY THE EXISTING TESTS CANNOT SETTLE IT: {p.get('why_tests_cant', '')}

CODE ANCHORS: {json.dumps(anchors) if not isinstance(anchors, str) else anchors}

YOUR TASK: produce realistic changes ("mutants") to the library source (files under {wt}/src/ only) that BREAK this property while the crate still compiles and the ENTIRE existing test suite still passes (`cd {wt} && cargo test --offline 2>&1 | tail` ; about 2725 tests, takes ~1-2 min the first time). Each change should be the sort of slip a maintainer could plausibly make and should need something specific to manifest. This is the {rnd} round: the obvious slips (wrong lane / shuffle constant / sign / operand order / copy-paste between generated types / dropped normalisation / wrong threshold) have been done. Look for what is still left (this round, prefer the first two kinds):
  * changes inside SHARED HELPERS and glue that many public functions go through (src/sse2.rs, src/coresimd.rs, src/macros.rs, src/float.rs FloatExt, src/euler.rs, src/f32/math.rs, src/f64/math.rs, the `impl_*` trait-forwarding macros, Deref/DerefMut overlays, `const_*`/free constructor functions, `From`/`Into` chains that hop through an intermediate type);
  * SEMANTICS-PRESERVING-LOOKING REFACTORS: replacing a hand-written body by a call to a "equivalent" public method that differs in one documented corner (ties, NaN, negative zero, empty input, overflow mode, debug vs release, the order of non-commutative products, which operand's sign/length wins);
  * changes that manifest only for SPECIFIC VALUES (boundary integers, MIN/MAX, negative zero, NaN payload/sign, subnormals, ties, values that differ only in a hidden or upper lane), one type of a generated family, one lane, one sign;
  * changes that need a SEQUENCE of two or three API calls, or TWO COOPERATING SITES that each look fine alone;
  * rarely used entry points: trait impls (Sum, Product, From/Into/TryFrom, AsRef/AsMut, Index, Display/Debug with format flags, Hash, PartialEq, Neg/Not on references, assigning operators with reference right-hand sides, scalar-on-the-left operators, shifts by vectors of another type), const constructors, the f64 / i8 / u8 / i16 / u16 / i64 / u64 / usize / isize twins, BVec3A/BVec4A, Mat2/Affine2/DAffine2/DMat2, `_or`, `try_`, `checked_`, `wrapping_`, `saturating_` variants, swizzles with repeated lanes and `with_*` swizzle setters;
  * build-configuration-specific paths (scalar-math, core-simd on nightly, libm, glam-assert, release vs debug, target-feature=+fma / +sse4.1, the serde / bytemuck / rand / approx / mint features where the property mentions them).
Keep each change small (a few lines). Prefer a change whose wrong result is SUBTLE.

Earlier rounds already produced the following changes for this property; do NOT repeat them or close variants of them:
{chr(10).join(earlier) if earlier else '  (none)'}

Produce TWO different mutants touching different mechanisms/files if you can (one is acceptable if the second proves impossible). For each mutant k in 1,2 deliver in {wt}/out/ :
  (1) mutant<k>.diff  = output of `git diff -- src` for that change alone (must apply with `git apply` on a clean checkout);
  (2) demo<k>.rs      = a self-contained Rust integration test file (to be copied to tests/demo<k>.rs; uses only the public glam API and std) that FAILS with the change and PASSES without it;
  (3) meta<k>.json    = {{"property": "{i}", "summary": "...what was changed...", "needs": "...what specific input/type/config/sequence is needed to manifest...", "demo_cmd": "cp out/demo<k>.rs tests/ && cargo test --offline --test demo<k>", "notes": "..."}}.
If the mutant only manifests in a non-default build configuration, say so in meta and give the exact demo command (e.g. `cargo test --offline --features scalar-math --test demo<k>`, `cargo +nightly test --offline --features core-simd --test demo<k>`, `RUSTFLAGS="-C target-feature=+fma" cargo test --offline --test demo<k>`); the default-config test suite must still pass with it.

VERIFY YOURSELF before finishing, for each mutant: (a) with the change applied, the full existing suite passes (`cargo test --offline`), (b) with the change applied the demo fails, (c) on the clean tree the demo passes. If you find that the UNMODIFIED crate already violates the property for some input, report that separately (out/defect.md with the input and the observed output) -- that is valuable. Then leave the worktree source clean (`git checkout -- src`, remove tests/demo*.rs) but keep {wt}/out/. Final answer: the list of files written and a 3-line description per mutant. Do not write anything outside {wt}."""
    open(f"{d}/prompt_{i}.txt", "w").write(text)
    print(wt)
