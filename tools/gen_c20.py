#!/usr/bin/env python3
"""Generates spec/C20Ops.tla and harness/src/chain_gen.rs from one table of precondition-carrying
operations (C20).  Registers are typed by the precondition class they must satisfy:
   v0 v1 : Vec3   finite, non-degenerate          u0 u1 : Vec3 of unit length
   q0 q1 : Quat   of unit length                   r0    : Mat3 rotation (orthonormal axes)
   m0    : Mat4   affine TRS (last row 0,0,0,1, det != 0)    m1 : Mat4 rigid (affine, orthonormal axes)
   a0    : Affine3A rigid        d0 d1 : DQuat unit / DVec3 unit (f64 mirror)
   s0 t0 p0 : scalars (angle, parameter in [0,1], positive length)
An operation reads registers and writes one register; `viol` operations break a documented
precondition on purpose (must panic with glam-assert, must not panic without)."""
import os
ROOT = os.path.dirname(os.path.dirname(os.path.abspath(__file__)))

OPS = [
    # ---- unit-vector producers
    ("u_normalize", "u1", "nz(r.v0).normalize()"), ("u_try_normalize", "u1", "nz(r.v1).try_normalize().unwrap()"),
    ("u_normalize_or_zero", "u0", "nz(r.v0).normalize_or_zero()"), ("u_normalize_and_length", "u1", "nz(r.v1).normalize_and_length().0"),
    ("u_any_orthonormal_vector", "u1", "r.u0.any_orthonormal_vector()"), ("u_any_orthonormal_pair_a", "u1", "r.u0.any_orthonormal_pair().0"),
    ("u_any_orthonormal_pair_b", "u0", "r.u1.any_orthonormal_pair().1"), ("u_rotate", "u1", "r.q0 * r.u0"), ("u_rotate_b", "u0", "r.q1 * r.u1"),
    ("u_rotate_a", "u1", "Vec3::from(r.q0 * Vec3A::from(r.u0))"), ("u_mat_col", "u1", "r.r0.y_axis"), ("u_mat_mul", "u0", "r.r0 * r.u1"),
    ("u_transform_vector", "u1", "r.m1.transform_vector3(r.u0)"), ("u_affine_vector", "u0", "r.a0.transform_vector3(r.u1)"),
    ("u_reflect", "u1", "r.u1.reflect(r.u0)"), ("u_slerp", "u1", "r.u0.slerp(r.u1, r.t0)"), ("u_rotate_towards", "u0", "r.u0.rotate_towards(r.u1, r.p0)"),
    ("u_axis_of_quat", "u1", "r.q0.to_axis_angle().0"), ("u_quat_xyz_dir", "u0", "(r.q1 * Vec3::Z)"),
    ("u_cross_pair", "u1", "{ let (a, b) = r.u0.any_orthonormal_pair(); a.cross(b) }"),
    # ---- general vectors through precondition-carrying consumers
    ("v_rotate", "v1", "r.q0 * r.v0"), ("v_project_onto_normalized", "v1", "r.v0.project_onto_normalized(r.u0)"),
    ("v_reject_from_normalized", "v1", "r.v0.reject_from_normalized(r.u1) + r.v0"), ("v_reflect", "v0", "r.v0.reflect(r.u1)"),
    ("v_clamp_length", "v1", "nz(r.v1).clamp_length(r.p0, r.p0 + 1.0)"), ("v_clamp", "v0", "r.v0.clamp(Vec3::splat(-3.0), Vec3::splat(3.0)) + Vec3::splat(0.25)"),
    ("v_transform_point", "v1", "r.m0.transform_point3(r.v0)"), ("v_transform_point_rigid", "v0", "r.m1.transform_point3(r.v1)"),
    ("v_affine_point", "v1", "r.a0.transform_point3(r.v0)"), ("v_scaled_axis", "v0", "r.q1.to_scaled_axis() + Vec3::splat(0.5)"),
    ("v_refract", "v1", "r.u0.refract(r.u1, 0.5) + r.v0"),
    # bounds that are TIED in a lane satisfy the documented precondition min <= max (a flat box, min == max)
    ("v_clamp_flat", "v0", "r.v0.clamp(Vec3::new(-3.0, -3.0, 0.5), Vec3::new(3.0, 3.0, 0.5))"),
    ("v_clamp_flat_a", "v1", "Vec3::from(Vec3A::from(r.v1).clamp(Vec3A::new(-3.0, -3.0, 0.5), Vec3A::new(3.0, 3.0, 0.5)))"),
    ("v_clamp_flat_4", "v0", "r.v0.extend(1.0).clamp(Vec4::new(-3.0, -3.0, 0.5, 1.0), Vec4::new(3.0, 3.0, 0.5, 1.0)).truncate()"),
    ("v_clamp_flat_2", "v1", "r.v1.truncate().clamp(Vec2::new(-3.0, 0.5), Vec2::new(3.0, 0.5)).extend(0.25)"),
    ("v_clamp_flat_d", "v1", "r.v1.as_dvec3().clamp(DVec3::new(-3.0, -3.0, 0.5), DVec3::new(3.0, 3.0, 0.5)).as_vec3()"),
    ("v_clamp_length_tied", "v1", "nz(r.v1).clamp_length(r.p0, r.p0)"),
    ("v_clamp_signed_zero", "v0", "r.v0.clamp(Vec3::new(-3.0, -0.0, -3.0), Vec3::new(3.0, 0.0, 3.0)) + Vec3::splat(0.25)"),
    # ---- unit-quaternion producers
    ("q_from_axis_angle", "q1", "Quat::from_axis_angle(r.u0, r.s0)"), ("q_from_rotation_x", "q0", "Quat::from_rotation_x(r.s0)"),
    ("q_from_rotation_y", "q1", "Quat::from_rotation_y(r.s0 * 1.7)"), ("q_from_rotation_z", "q1", "Quat::from_rotation_z(-r.s0)"),
    ("q_from_euler_zyx", "q1", "Quat::from_euler(EulerRot::ZYX, r.s0, r.t0, -r.s0 * 0.5)"), ("q_from_euler_xyx", "q0", "Quat::from_euler(EulerRot::XYX, r.t0, r.s0, r.p0)"),
    ("q_from_euler_yxzex", "q1", "Quat::from_euler(EulerRot::YXZEx, r.p0, r.t0, r.s0)"), ("q_from_scaled_axis", "q1", "Quat::from_scaled_axis(r.v0)"),
    ("q_from_scaled_axis_tiny", "q1", "Quat::from_scaled_axis(r.v0 * 1.0e-30)"), ("d_from_scaled_axis_tiny", "d0", "DQuat::from_scaled_axis(DVec3::new(r.v0.x as f64, r.v0.y as f64, r.v0.z as f64) * 1.0e-200)"),
    ("q_from_rotation_arc", "q1", "Quat::from_rotation_arc(r.u0, r.u1)"), ("q_from_rotation_arc_colinear", "q0", "Quat::from_rotation_arc_colinear(r.u1, r.u0)"),
    ("q_from_mat3", "q1", "Quat::from_mat3(&r.r0)"), ("q_from_mat4", "q0", "Quat::from_mat4(&r.m1)"), ("q_from_affine3", "q1", "Quat::from_affine3(&r.a0)"),
    ("q_look_to_rh", "q1", "Quat::look_to_rh(r.u0, r.u0.any_orthonormal_vector())"), ("q_look_to_lh", "q0", "Quat::look_to_lh(r.u1, r.u1.any_orthonormal_pair().1)"),
    ("q_mul", "q1", "r.q0 * r.q1"), ("q_mul_b", "q0", "r.q1 * r.q0"), ("q_inverse", "q1", "r.q0.inverse()"), ("q_conjugate", "q0", "r.q1.conjugate()"),
    ("q_lerp", "q1", "r.q0.lerp(r.q1, r.t0)"), ("q_slerp", "q1", "r.q0.slerp(r.q1, r.t0)"), ("q_slerp_neg", "q0", "r.q0.slerp(-r.q1, r.t0)"),
    ("q_rotate_towards", "q1", "r.q0.rotate_towards(r.q1, r.p0)"), ("q_normalize", "q1", "(r.q0 * 2.5).normalize()"), ("q_neg", "q0", "-r.q0"),
    ("q_axis_angle_roundtrip", "q1", "{ let (a, t) = r.q0.to_axis_angle(); Quat::from_axis_angle(a, t) }"),
    ("q_euler_roundtrip", "q0", "{ let (a, b, c) = r.q1.to_euler(EulerRot::YXZ); Quat::from_euler(EulerRot::YXZ, a, b, c) }"),
    ("q_from_srt_decompose", "q1", "r.m0.to_scale_rotation_translation().1"), ("q_from_rigid_decompose", "q0", "r.m1.to_scale_rotation_translation().1"),
    ("q_from_affine_decompose", "q1", "r.a0.to_scale_rotation_translation().1"),
    # ---- rotation matrices
    ("r_from_quat", "r0", "Mat3::from_quat(r.q0)"), ("r_from_axis_angle", "r0", "Mat3::from_axis_angle(r.u1, r.s0)"), ("r_from_euler", "r0", "Mat3::from_euler(EulerRot::ZXY, r.s0, r.t0, r.p0)"),
    ("r_from_rotation_y", "r0", "Mat3::from_rotation_y(r.s0)"), ("r_mul", "r0", "r.r0 * Mat3::from_quat(r.q1)"), ("r_transpose", "r0", "r.r0.transpose()"),
    ("r_inverse", "r0", "r.r0.inverse()"), ("r_from_mat4", "r0", "Mat3::from_mat4(r.m1)"), ("r_from_mat3a", "r0", "Mat3::from(Mat3A::from_quat(r.q1))"),
    ("r_euler_roundtrip", "r0", "{ let (a, b, c) = r.r0.to_euler(EulerRot::XYZ); Mat3::from_euler(EulerRot::XYZ, a, b, c) }"),
    ("r_look_to", "r0", "Mat3::look_to_rh(r.u0, r.u0.any_orthonormal_vector())"),
    # ---- rigid / TRS Mat4 and Affine3A
    ("m1_from_quat", "m1", "Mat4::from_quat(r.q0)"), ("m1_from_rotation_translation", "m1", "Mat4::from_rotation_translation(r.q1, r.v0)"),
    ("m1_look_to_rh", "m1", "Mat4::look_to_rh(r.v0, r.u0, r.u0.any_orthonormal_vector())"), ("m1_look_at_lh", "m1", "Mat4::look_at_lh(r.v0, r.v0 + r.u1 * 3.0, r.u1.any_orthonormal_pair().0)"),
    # an `up` hint that is NOT perpendicular to the view direction (guarded against the degenerate parallel case)
    ("m1_look_to_oblique", "m1", "{ let up = if r.u0.cross(r.u1).length_squared() > 0.05 { r.u1 } else { r.u0.any_orthonormal_vector() }; Mat4::look_to_rh(r.v0, r.u0, up) }"),
    ("m1_look_at_oblique", "m1", "{ let up = if r.u1.cross(r.u0).length_squared() > 0.05 { r.u0 } else { r.u1.any_orthonormal_vector() }; Mat4::look_at_lh(r.v1, r.v1 + r.u1 * 2.0, up) }"),
    ("a_look_to_oblique", "a0", "{ let up = if r.u0.cross(r.u1).length_squared() > 0.05 { r.u1 } else { r.u0.any_orthonormal_vector() }; Affine3A::look_to_lh(r.v0, r.u0, up) }"),
    ("q_look_to_oblique", "q1", "{ let up = if r.u0.cross(r.u1).length_squared() > 0.05 { r.u1 } else { r.u0.any_orthonormal_vector() }; Quat::look_to_rh(r.u0, up) }"),
    ("r_look_to_oblique", "r0", "{ let up = if r.u1.cross(r.u0).length_squared() > 0.05 { r.u0 } else { r.u1.any_orthonormal_vector() }; Mat3::look_to_lh(r.u1, up) }"),
    ("m1_mul", "m1", "r.m1 * Mat4::from_quat(r.q1)"), ("m1_inverse", "m1", "r.m1.inverse()"), ("m1_from_mat3", "m1", "Mat4::from_mat3(r.r0)"),
    ("m1_from_affine", "m1", "Mat4::from(r.a0)"), ("m1_from_euler", "m1", "Mat4::from_euler(EulerRot::XZY, r.s0, r.p0, r.t0)"),
    ("m1_from_axis_angle", "m1", "Mat4::from_axis_angle(r.u1, r.s0)"),
    ("m0_from_srt", "m0", "Mat4::from_scale_rotation_translation(r.v0.abs() + Vec3::splat(0.5), r.q0, r.v1)"),
    ("m0_recompose", "m0", "{ let (s, q, t) = r.m0.to_scale_rotation_translation(); Mat4::from_scale_rotation_translation(s, q, t) }"),
    ("m0_mul_rigid", "m0", "r.m1 * r.m0"),
    # (the inverse of a non-uniformly scaled TRS has shear, which to_scale_rotation_translation excludes: not an operation of this class)
    ("m0_uniform_inverse", "m0", "Mat4::from_scale_rotation_translation(Vec3::splat(r.p0), r.q1, r.v0).inverse()"),
    ("a_from_quat", "a0", "Affine3A::from_quat(r.q1)"), ("a_from_rotation_translation", "a0", "Affine3A::from_rotation_translation(r.q0, r.v1)"),
    ("a_look_to_rh", "a0", "Affine3A::look_to_rh(r.v1, r.u1, r.u1.any_orthonormal_vector())"), ("a_mul", "a0", "r.a0 * Affine3A::from_quat(r.q0)"),
    ("a_inverse", "a0", "r.a0.inverse()"), ("a_from_mat4", "a0", "Affine3A::from_mat4(r.m1)"), ("a_from_axis_angle", "a0", "Affine3A::from_axis_angle(r.u0, r.s0)"),
    # ---- f64 mirror
    ("d_from_axis_angle", "d0", "DQuat::from_axis_angle(r.d1, r.s0 as f64)"), ("d_mul", "d0", "r.d0 * DQuat::from_rotation_y(r.t0 as f64)"),
    ("d_slerp", "d0", "r.d0.slerp(DQuat::from_rotation_x(r.s0 as f64), r.t0 as f64)"), ("d_slerp_neg", "d0", "r.d0.slerp(-DQuat::from_rotation_z(r.s0 as f64 + 2.0), r.t0 as f64)"),
    ("d_rotate_towards", "d0", "r.d0.rotate_towards(DQuat::from_rotation_z(2.5), r.p0 as f64)"), ("d_unit_rotate", "d1", "r.d0 * r.d1"),
    ("d_from_mat3", "d0", "DQuat::from_mat3(&DMat3::from_quat(r.d0))"), ("d_as_quat", "q1", "r.d0.as_quat()"), ("d_from_quat", "d0", "r.q0.as_dquat().normalize()"),
    ("d_any_orthonormal", "d1", "r.d1.any_orthonormal_vector()"), ("d_inverse", "d0", "r.d0.inverse()"), ("d_lerp", "d0", "r.d0.lerp(DQuat::from_rotation_x(1.0), r.t0 as f64)"),
    # ---- scalars
    ("s_from_angle_between", "s0", "r.u0.angle_between(r.u1) + 0.1"), ("s_from_quat_angle", "s0", "r.q0.angle_between(r.q1) - 0.7"),
    ("s_next", "s0", "(r.s0 * 1.618 + 0.3) % 3.0"), ("t_next", "t0", "(r.t0 * 0.37 + 0.29) % 1.0"), ("p_from_length", "p0", "r.v0.length().min(4.0).max(0.25)"),
]
VIOL = [
    ("viol_from_axis_angle_nonunit", "q1", "Quat::from_axis_angle(r.v0 * 3.0, r.s0)"),
    ("viol_mul_vec3_nonunit", "v1", "(r.q0 * 2.0) * r.v0"),
    ("viol_clamp_length_negative", "v1", "r.v0.clamp_length(-1.0, 2.0)"),
    ("viol_clamp_length_min_gt_max", "v1", "r.v0.clamp_length(3.0, 1.0)"),
    ("viol_clamp_min_gt_max", "v1", "r.v0.clamp(Vec3::ONE, Vec3::ZERO)"),
    # min > max in ONE lane only (the documented precondition is lane-wise: min <= max in every lane)
    ("viol_clamp_one_lane", "v1", "r.v0.clamp(Vec3::new(-9.0, 5.0, -9.0), Vec3::new(9.0, 3.0, 9.0))"),
    ("viol_iclamp_one_lane_i64", "s0", "I64Vec4::new(1, 2, 3, 4).clamp(I64Vec4::new(0, 0, 7, 0), I64Vec4::new(9, 9, 5, 9)).z as f32 + r.s0"),
    ("viol_iclamp_one_lane_u8", "s0", "U8Vec2::new(1, 2).clamp(U8Vec2::new(7, 0), U8Vec2::new(5, 9)).x as f32 + r.s0"),
    ("viol_iclamp_one_lane_i32", "s0", "IVec3::new(1, 2, 3).clamp(IVec3::new(0, 0, 0), IVec3::new(9, -1, 9)).y as f32 + r.s0"),
    ("viol_from_quat_nonunit", "r0", "Mat3::from_quat(r.q0 * 1.5)"),
    ("viol_any_orthonormal_nonunit", "u1", "(r.u0 * 2.0).any_orthonormal_vector()"),
    ("viol_rotation_arc_nonunit", "q1", "Quat::from_rotation_arc(r.v0 * 2.0, r.u1)"),
    ("viol_look_to_nonunit", "m1", "Mat4::look_to_rh(r.v0, r.v1 * 2.0, r.u0)"),
    ("viol_transform_point_projective", "v1", "Mat4::perspective_rh(1.0, 1.5, 0.5, 10.0).transform_point3(r.v0)"),
    ("viol_quat_inverse_nonunit", "q1", "(r.q0 * 0.5).inverse()"),
    ("viol_from_mat3_scaled", "q1", "Quat::from_mat3(&(r.r0 * 2.0))"),
    # each conjunct of a precondition violated on its own: one non-unit column at a time
    ("viol_to_euler_x_scaled", "s0", "(r.m1 * Mat4::from_scale(Vec3::new(2.0, 1.0, 1.0))).to_euler(EulerRot::XYZ).0"),
    ("viol_to_euler_y_scaled", "s0", "(r.m1 * Mat4::from_scale(Vec3::new(1.0, 2.0, 1.0))).to_euler(EulerRot::XYZ).0"),
    ("viol_to_euler_z_scaled", "s0", "(r.m1 * Mat4::from_scale(Vec3::new(1.0, 1.0, 2.0))).to_euler(EulerRot::XYZ).0"),
    ("viol_to_euler3_x_scaled", "s0", "(r.r0 * Mat3::from_diagonal(Vec3::new(0.5, 1.0, 1.0))).to_euler(EulerRot::ZYX).0"),
    ("viol_to_euler3_y_scaled", "s0", "(r.r0 * Mat3::from_diagonal(Vec3::new(1.0, 0.5, 1.0))).to_euler(EulerRot::ZYX).0"),
    ("viol_to_euler3_z_scaled", "s0", "(r.r0 * Mat3::from_diagonal(Vec3::new(1.0, 1.0, 0.5))).to_euler(EulerRot::ZYX).0"),
    ("viol_from_mat3_x_scaled", "q1", "Quat::from_mat3(&(r.r0 * Mat3::from_diagonal(Vec3::new(2.0, 1.0, 1.0))))"),
    ("viol_from_mat3_y_scaled", "q1", "Quat::from_mat3(&(r.r0 * Mat3::from_diagonal(Vec3::new(1.0, 2.0, 1.0))))"),
    ("viol_from_mat3_z_scaled", "q1", "Quat::from_mat3(&(r.r0 * Mat3::from_diagonal(Vec3::new(1.0, 1.0, 2.0))))"),
    ("viol_look_to_up_nonunit", "m1", "Mat4::look_to_rh(r.v0, r.u0, r.u0.any_orthonormal_vector() * 2.0)"),
]
# Ill-conditioned regions: when the INPUTS of an operation satisfy the predicate, its result is discontinuous or amplifies
# rounding by more than 2^10 (angles through arccos near 0 / pi, axes of tiny rotations, arbitrary axes for opposite
# vectors, sign switches, branch thresholds).  Bit-for-bit comparisons between builds (Trace_SameBits) are unaffected;
# the SIMD-vs-scalar comparison with a rounding slack (Trace_Near) is suspended for the rest of such a chain.
ILL = {
    "s_from_angle_between": "r.u0.dot(r.u1).abs() > 0.9999",
    "s_from_quat_angle": "r.q0.dot(r.q1).abs() > 0.9999",
    "u_axis_of_quat": "r.q0.w.abs() > 0.9999",
    "u_rotate_towards": "r.u0.dot(r.u1).abs() > 0.999",
    "u_slerp": "r.u0.dot(r.u1) < -0.999",
    "q_from_rotation_arc": "r.u0.dot(r.u1) < -0.999",
    "q_from_rotation_arc_colinear": "r.u0.dot(r.u1).abs() < 1e-3",
    "q_rotate_towards": "r.q0.dot(r.q1).abs() > 0.9999",
    "u_any_orthonormal_vector": "r.u0.z.abs() < 1e-3", "u_any_orthonormal_pair_a": "r.u0.z.abs() < 1e-3", "u_any_orthonormal_pair_b": "r.u1.z.abs() < 1e-3",
    "u_cross_pair": "r.u0.z.abs() < 1e-3", "q_look_to_rh": "r.u0.z.abs() < 1e-3", "q_look_to_lh": "r.u1.z.abs() < 1e-3", "r_look_to": "r.u0.z.abs() < 1e-3",
    "m1_look_to_rh": "r.u0.z.abs() < 1e-3", "m1_look_at_lh": "r.u1.z.abs() < 1e-3", "a_look_to_rh": "r.u1.z.abs() < 1e-3",
    "m1_look_to_oblique": "(r.u0.cross(r.u1).length_squared() - 0.05).abs() < 1e-3 || r.u0.z.abs() < 1e-3",
    "m1_look_at_oblique": "(r.u1.cross(r.u0).length_squared() - 0.05).abs() < 1e-3 || r.u1.z.abs() < 1e-3",
    "a_look_to_oblique": "(r.u0.cross(r.u1).length_squared() - 0.05).abs() < 1e-3 || r.u0.z.abs() < 1e-3",
    "q_look_to_oblique": "(r.u0.cross(r.u1).length_squared() - 0.05).abs() < 1e-3 || r.u0.z.abs() < 1e-3",
    "r_look_to_oblique": "(r.u1.cross(r.u0).length_squared() - 0.05).abs() < 1e-3 || r.u1.z.abs() < 1e-3",
    "u_normalize": "(r.v0.length_squared() - 1e-4).abs() < 1e-5", "u_try_normalize": "(r.v1.length_squared() - 1e-4).abs() < 1e-5",
    "u_normalize_or_zero": "(r.v0.length_squared() - 1e-4).abs() < 1e-5", "u_normalize_and_length": "(r.v1.length_squared() - 1e-4).abs() < 1e-5",
    "v_clamp_length": "(r.v1.length_squared() - 1e-4).abs() < 1e-5", "v_clamp_length_tied": "(r.v1.length_squared() - 1e-4).abs() < 1e-5",
    "s_next": "((r.s0 * 1.618 + 0.3) / 3.0).fract().abs() < 1e-3 || ((r.s0 * 1.618 + 0.3) / 3.0).fract().abs() > 0.999",
    "t_next": "(r.t0 * 0.37 + 0.29).fract().abs() < 1e-3 || (r.t0 * 0.37 + 0.29).fract().abs() > 0.999",
}
CLASS = {"v": "vec", "u": "unit", "q": "quat", "r": "rot3", "m0": "trs4", "m1": "rigid4", "a": "rigid_affine", "d0": "dquat", "d1": "dunit", "s": "scalar", "t": "scalar", "p": "scalar"}
def cls(reg):
    return CLASS.get(reg, CLASS.get(reg[0]))

def main():
    rs = ["// GENERATED by tools/gen_c20.py -- do not edit", "#![allow(clippy::all)]", "use glam::*;", "",
          "#[derive(Clone, Copy, Debug)]",
          "pub struct Regs { pub v0: Vec3, pub v1: Vec3, pub u0: Vec3, pub u1: Vec3, pub q0: Quat, pub q1: Quat, pub r0: Mat3, pub m0: Mat4, pub m1: Mat4, pub a0: Affine3A, pub d0: DQuat, pub d1: DVec3, pub s0: f32, pub t0: f32, pub p0: f32 }",
          "", "/// The class `vec` of the general registers is \"finite\", not \"non-zero\": glam itself produces exact zeros from",
          "/// non-degenerate inputs (a view matrix maps its eye to the origin).  Normalising a zero vector is outside the domain of",
          "/// normalize / try_normalize().unwrap() / clamp_length(min > 0), so the operations that normalise a general register",
          "/// apply the caller's guard first, as a user must.",
          "fn nz(v: Vec3) -> Vec3 { let l = v.length_squared(); if l > 1e-4 && l < 1e8 { v } else { Vec3::new(0.5, -0.25, 0.125) } }",
          "", "/// run one operation; returns false when the name is unknown", "pub fn step(op: &str, r: &mut Regs) -> bool {", "    match op {"]
    for op, dst, expr in OPS + VIOL:
        rs.append(f'        "{op}" => {{ let x = {expr}; r.{dst} = x; }}')
    rs += ["        _ => return false,", "    }", "    true", "}"]
    rs += ["", "/// true when the operation is applied inside one of its ill-conditioned regions (see tools/gen_c20.py: ILL)",
           "pub fn ill_conditioned(op: &str, r: &Regs) -> bool {", "    match op {"]
    for op, pred in ILL.items():
        rs.append(f'        "{op}" => {pred},')
    rs += ["        _ => false,", "    }", "}"]
    rs.append(f"pub const N_OPS: usize = {len(OPS) + len(VIOL)};")
    tla = ["------------------------------- MODULE C20Ops -------------------------------",
           "(* GENERATED by tools/gen_c20.py from the same table as harness/src/chain_gen.rs.                  *)",
           "(* Each operation writes one register whose class is the precondition later consumers rely on.   *)",
           "Ops == {"]
    tla.append(",\n".join(f'    [op |-> "{op}", dst |-> "{dst}", cls |-> "{cls(dst)}", viol |-> FALSE]' for op, dst, _ in OPS) + ",")
    tla.append(",\n".join(f'    [op |-> "{op}", dst |-> "{dst}", cls |-> "{cls(dst)}", viol |-> TRUE]' for op, dst, _ in VIOL))
    tla.append("}")
    tla.append("=============================================================================")
    open(os.path.join(ROOT, "harness/src/chain_gen.rs"), "w").write("\n".join(rs) + "\n")
    open(os.path.join(ROOT, "spec/C20Ops.tla"), "w").write("\n".join(tla) + "\n")
    print(len(OPS), "operations +", len(VIOL), "violating calls")

if __name__ == "__main__":
    main()
