#!/bin/sh
# TLC with a large stack on every thread including main (recursive limb arithmetic is deep)
exec java -XX:+UseParallelGC -Xss1g -cp /opt/veriftools/tla/tla2tools.jar:/opt/veriftools/tla/CommunityModules-deps.jar tlc2.TLC "$@"
