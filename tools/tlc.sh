#!/bin/sh
# TLC with a large stack on every thread including main (recursive limb arithmetic is deep)
T=$(mktemp -d /verif/work/tlctmp.XXXXXX); trap 'rm -rf "$T"' EXIT
java -XX:+UseParallelGC -Xss1g -Djava.io.tmpdir="$T" -cp /opt/veriftools/tla/tla2tools.jar:/opt/veriftools/tla/CommunityModules-deps.jar tlc2.TLC "$@"
