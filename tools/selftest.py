#!/usr/bin/env python3
"""Binding self-test: the trace specifications accept what the real code recorded and reject the same
recording after one field is corrupted or one event is dropped.  Not a registered check (it reports on the
machinery, not on glam); exit 0 iff every expectation holds.

    tools/selftest.py            (builds sse2 + assert harness binaries if needed, ~1 min)
"""
import json, os, sys
sys.path.insert(0, os.path.join(os.path.dirname(os.path.abspath(__file__)), ".."))
from vlib import core


def fresh(tag):
    r = core.Result("SELFTEST", "quick", 1)
    r.prop = "SELFTEST"
    return r


def expect(name, res, want_reject):
    got = len(res.mismatches) > 0
    ok = got == want_reject
    where = ""
    if got:
        w = res.mismatches[0]["what"]
        where = " :: " + w[:160].replace("\n", " ")
    print(("ok   " if ok else "FAIL ") + name + (" rejected" if got else " accepted") + where)
    return ok


def main():
    wd = os.path.join(core.WORK, "SELFTEST")
    os.makedirs(wd, exist_ok=True)
    core.build_all(["sse2"], ["geom", "chain"])
    core.build_all(["assert"], ["chain"])
    good = True

    # ---- Trace_C02: one recorded execution, judged exactly ------------------------------------------
    tr = os.path.join(wd, "record.ndjson")
    p = core.run_bin("sse2", "geom", ["record", tr, "7", "40"])
    if p.returncode != 0:
        print("tool error: geom record", p.stderr[-400:]); return 2
    lines = open(tr).read().splitlines()
    r = fresh("c02"); core.validate_trace(r, "Trace_C02", tr, "good"); good &= expect("Trace_C02 recorded trace", r, False)
    # corrupt one field: the exponent of the returned value of one event in the middle
    k = next(i for i, l in enumerate(lines) if i > len(lines) // 2 and json.loads(l)["got"][1] != 0)
    ev = json.loads(lines[k]); ev["got"][2] += 1
    bad = os.path.join(wd, "record.exp.ndjson"); open(bad, "w").write("\n".join(lines[:k] + [json.dumps(ev)] + lines[k + 1:]) + "\n")
    r = fresh("c02"); core.validate_trace(r, "Trace_C02", bad, "exp"); good &= expect(f"Trace_C02 exponent of event {k + 1} doubled", r, True)
    good &= (f'"matched", {k}' in r.mismatches[0]["what"]) if r.mismatches else False
    ev = json.loads(lines[k]); ev["got"][0] ^= 1
    bad = os.path.join(wd, "record.sign.ndjson"); open(bad, "w").write("\n".join(lines[:k] + [json.dumps(ev)] + lines[k + 1:]) + "\n")
    r = fresh("c02"); core.validate_trace(r, "Trace_C02", bad, "sign"); good &= expect(f"Trace_C02 sign of event {k + 1} flipped", r, True)
    # a corrupted *term* (what the code was given) with the honest result must be rejected as well
    ev = json.loads(lines[k]); ev["terms"][0][0][2] += 3
    bad = os.path.join(wd, "record.term.ndjson"); open(bad, "w").write("\n".join(lines[:k] + [json.dumps(ev)] + lines[k + 1:]) + "\n")
    r = fresh("c02"); core.validate_trace(r, "Trace_C02", bad, "term")
    print("info Trace_C02 first factor of event scaled by 8:", "rejected" if r.mismatches else "accepted (term was negligible)")

    # ---- Trace_SameBits: the same TLC-generated chains in two builds --------------------------------
    cases = os.path.join(wd, "chains.out")
    cfg_text = open(os.path.join(core.SPEC, "MC_C20.cfg")).read().replace("MaxLen = 2", "MaxLen = 8")
    core.run_tlc("MC_C20", "quick", cases, workers=1, cfg_text=cfg_text, simulate="num=20", seed=5)
    ta = {}
    for cfg in ("sse2", "assert"):
        out = os.path.join(wd, f"chains.{cfg}.json")
        p = core.run_bin(cfg, "chain", [cases, out])
        if p.returncode != 0:
            print("tool error: chain", cfg, p.stderr[-400:]); return 2
        ta[cfg] = out + ".trace"
    r = fresh("sb"); core.same_bits(r, ta["sse2"], ta["assert"], "sse2", "assert"); good &= expect("Trace_SameBits sse2 vs glam-assert", r, False)
    la = open(ta["assert"]).read().splitlines()
    k = len(la) // 2
    ev = json.loads(la[k]); ev["h"] = ("0" if ev["h"][0] != "0" else "1") + ev["h"][1:]
    bad = os.path.join(wd, "chains.digest.trace"); open(bad, "w").write("\n".join(la[:k] + [json.dumps(ev)] + la[k + 1:]) + "\n")
    r = fresh("sb"); core.same_bits(r, ta["sse2"], bad, "sse2", "corrupt"); good &= expect(f"Trace_SameBits digest of event {k + 1} changed", r, True)
    bad = os.path.join(wd, "chains.drop.trace"); open(bad, "w").write("\n".join(la[:k] + la[k + 1:]) + "\n")
    r = fresh("sb"); core.same_bits(r, ta["sse2"], bad, "sse2", "dropped"); good &= expect(f"Trace_SameBits event {k + 1} dropped", r, True)
    bad = os.path.join(wd, "chains.short.trace"); open(bad, "w").write("\n".join(la[:-1]) + "\n")
    r = fresh("sb"); core.same_bits(r, ta["sse2"], bad, "sse2", "short"); good &= expect("Trace_SameBits last event missing", r, True)


    # ---- the recorded-event trace specifications: accept the recording, reject it after ONE field of ONE event is changed ------------
    core.build_all(["sse2"], ["rec", "hid"])

    def flip_lane(w):
        """the smallest change of a logged float lane [s, e, limb...]: the lowest significand bit (or the sign for zero / inf)"""
        w = list(w)
        if len(w) >= 3:
            w[2] ^= 1
        elif len(w) >= 1:
            w[0] ^= 1
        return w

    def one(mode, module, draws, pick, mutate, env=None, label=None):
        nonlocal good
        tr = os.path.join(wd, f"rec.{mode}.ndjson")
        p = core.run_bin("sse2", "rec", [mode, tr, "11", str(draws)], env_extra=env)
        if p.returncode != 0:
            print("tool error: rec", mode, p.stderr[-300:]); good = False; return
        lines = open(tr).read().splitlines()
        r = fresh(mode); core.validate_trace(r, module, tr, f"{mode}.good"); good &= expect(f"{module} {label or mode} recording ({len(lines)} events)", r, False)
        k = next(i for i, l in enumerate(lines) if i >= len(lines) // 3 and pick(json.loads(l)))
        ev = mutate(json.loads(lines[k]))
        bad = os.path.join(wd, f"rec.{mode}.bad.ndjson"); open(bad, "w").write("\n".join(lines[:k] + [json.dumps(ev)] + lines[k + 1:]) + "\n")
        r = fresh(mode); core.validate_trace(r, module, bad, f"{mode}.bad"); good &= expect(f"{module} {label or mode}: one field of event {k + 1} changed", r, True)

    def m_got_lane(ev):
        ev["got"][0] = flip_lane(ev["got"][0]); return ev
    one("float", "Trace_Lanes", 1, lambda e: e["k"] == "f2" and e["op"] == "add" and len(e["got"][0]) >= 3, m_got_lane)
    def m_int(ev):
        ev["got"][0] = [ev["got"][0][0] ^ 1] + ev["got"][0][1:] if len(ev["got"][0]) > 1 else [0, 1]; return ev
    one("int", "Trace_Lanes", 1, lambda e: e["k"] == "i2" and e["out"] == "val" and e["op"] == "wrapping_add", m_int)
    def m_out(ev):
        ev["out"] = "val"; ev["got"] = [[0]] * ev["n"]; return ev
    one("int", "Trace_Lanes", 1, lambda e: e["k"] == "i2" and e["out"] == "panic", m_out, label="int (a logged panic replaced by a value)")
    def m_scalar_exp(ev):
        g = list(ev["got"]); g[1] += 1; ev["got"] = g; return ev
    one("poly", "Trace_Poly", 1, lambda e: e["op"] == "det" and len(e["got"]) >= 3, m_scalar_exp)
    def m_mat_entry(ev):
        ev["got"][1][0] = flip_lane(ev["got"][1][0]); ev["got"][1][0][1] += 2; return ev
    one("poly", "Trace_Poly", 1, lambda e: e["op"] == "mat_mul" and e["ty"] == "Mat3A", m_mat_entry, label="poly (matrix entry)")
    def m_rel(ev):
        g = list(ev["got"][0]); g[1] += 1; ev["got"][0] = g; return ev
    one("rel", "Trace_Rel", 1, lambda e: e["op"] == "normalize" and len(e["got"][0]) >= 3, m_rel, env={"HX_OPS": "normalize,move_towards,slerp8"})
    def m_slerp(ev):
        ev["r"][3], ev["r"][4] = ev["r"][4], ev["r"][3]; return ev          # two interpolation results exchanged
    one("rel", "Trace_Rel", 1, lambda e: e["op"] == "slerp8", m_slerp, env={"HX_OPS": "normalize,move_towards,slerp8"}, label="rel (slerp results 3/8 and 4/8 exchanged)")
    def m_obs(ev):
        ev["obs"][0], ev["obs"][1] = ev["obs"][1], ev["obs"][0]; return ev
    one("acc", "Trace_C17", 1, lambda e: e["op"] == "read" and e["obs"][0] != e["obs"][1], m_obs)
    one("macc", "Trace_C06", 1, lambda e: e["op"] == "read" and e["path"] == "rows" and e["obs"][0] != e["obs"][1], m_obs)
    def m_write_lane(ev):
        ev["lane"] = (ev["lane"] + 1) % 2; return ev
    one("acc", "Trace_C17", 1, lambda e: e["op"] == "write" and e["obs"][0] != e["obs"][1], m_write_lane, label="acc (a write attributed to another lane)")

    # a NaN where a finite result was recorded must be a rejection (not a tool error): non-finite wire forms decode to a sentinel
    def m_nan(ev):
        ev["got"] = []; return ev
    one("poly", "Trace_Poly", 1, lambda e: e["op"] == "dot", m_nan, label="poly (a dot product replaced by NaN)")
    one("rel", "Trace_Rel", 1, lambda e: e["op"] == "length", m_nan, env={"HX_OPS": "normalize,length"}, label="rel (a length replaced by NaN)")
    # swizzle histories: an observed lane pair exchanged; the name of a setter replaced by another
    one("swz", "Trace_C16", 2, lambda e: e["op"] == "get" and e["obs"][0] != e["obs"][1], m_obs)
    def m_name(ev):
        ev["nm"] = list(reversed(ev["nm"])); ev["name"] = "".join(ev["nm"]); return ev
    one("swz", "Trace_C16", 2, lambda e: e["op"] == "with" and e["rhs"][0] != e["rhs"][1], m_name, label="swz (setter attributed to the reversed name)")
    # mask histories: one observed lane flipped; a xor logged as an or
    def m_mask_lane(ev):
        ev["obs"]["sel"][0] = not ev["obs"]["sel"][0]; return ev
    one("mask", "Trace_C15", 2, lambda e: e["op"] == "set", m_mask_lane, label="mask (the lane seen by select flipped)")
    def m_mask_op(ev):
        ev["path"] = "or"; return ev
    one("mask", "Trace_C15", 2, lambda e: e["op"] == "bin" and e["path"].startswith("xor") and any(ev_and for ev_and in e["arg"]) and e["obs"]["test"] != [a or b for a, b in zip(e["arg"], e["obs"]["test"])], m_mask_op, label="mask (a xor logged as an or)")
    def m_mask_panic(ev):
        ev["panicked"] = False; return ev
    one("mask", "Trace_C15", 2, lambda e: e["op"] == "badindex", m_mask_panic, label="mask (an out-of-range index that did not panic)")

    print("SELFTEST", "PASSED" if good else "FAILED")
    return 0 if good else 1


if __name__ == "__main__":
    sys.exit(main())
