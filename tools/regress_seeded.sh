#!/bin/sh
# usage: tools/regress_seeded.sh [ids...]   -- applies every kept seeded change in turn to /repo, runs the quick check of the
# property it breaks, restores /repo, and reports which ones are (still) detected.  Needs /repo clean and otherwise unused.
cd /verif
ids="$@"; [ -z "$ids" ] && ids=$(ls seeded)
ok=0; miss=0
for id in $ids; do
  prop=$(python3 -c "import json;m=json.load(open('seeded/$id/meta.json'));print(m.get('detected_by_property_check', m['property']))")
  out=$(tools/try_mutant.sh seeded/$id/patch.diff $prop 2>&1 | tail -1)
  if [ "$out" = "rc=1" ]; then ok=$((ok+1)); echo "DETECTED $id ($prop)"; else miss=$((miss+1)); echo "NOT-DETECTED $id ($prop) $out"; fi
done
echo "SUMMARY detected=$ok not_detected=$miss"
