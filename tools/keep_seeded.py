#!/usr/bin/env python3
"""keep_seeded.py <agentdir> <k> <seeded-id> <caught-by-check or MISSED> [note]
Copies a confirmed sub-agent mutant into /verif/seeded/<seeded-id>/ (patch.diff, demo.rs, meta.json)."""
import json, os, shutil, sys
d, k, sid, caught = sys.argv[1:5]
note = sys.argv[5] if len(sys.argv) > 5 else ""
out = os.path.join("/verif/seeded", sid)
os.makedirs(out, exist_ok=True)
shutil.copy(os.path.join(d, f"mutant{k}.diff"), os.path.join(out, "patch.diff"))
shutil.copy(os.path.join(d, f"demo{k}.rs"), os.path.join(out, "demo.rs"))
m = json.load(open(os.path.join(d, f"meta{k}.json")))
meta = {
    "id": sid,
    "property": m.get("property"),
    "what_it_changes": m.get("summary"),
    "needs_to_manifest": m.get("needs"),
    "demo_cmd": m.get("demo_cmd", "").replace(f"out/demo{k}.rs", "demo.rs").replace(f"demo{k}", "demo"),
    "author": "independent sub-agent given only the property text and a scratch worktree",
    "confirmed_by_me": "tools/confirm_mutant.sh in scratch worktree /tmp/wt_confirm: patch applies; pinned suite (cargo nextest, default features) passes with it; demo fails with it; demo passes on the clean tree",
    "detection": {"check": caught, "how": "git -C /repo apply patch.diff; ./check <prop> --tier quick; git -C /repo checkout -- .", "note": note},
}
json.dump(meta, open(os.path.join(out, "meta.json"), "w"), indent=1)
print("kept", out)
