//! Uniform access to the 27 integer vector types (family `int`, C13) and the Rust integer
//! primitives used to cross-check the specification's IntLane model.

use glam::*;

pub type Spelled<T> = Vec<(&'static str, T)>;
/// value lanes, or None for a `checked_` operation that returned None
/// outcome of ONE spelling of a vector operation, evaluated under its own catch_unwind (an expected panic of one
/// spelling must not hide what the other spellings do)
#[derive(Clone, Debug, PartialEq)]
pub enum VOut {
    Val(Vec<i128>),
    None,
    Panic,
}
pub fn gv(f: impl FnOnce() -> Vec<i128>) -> VOut {
    match std::panic::catch_unwind(std::panic::AssertUnwindSafe(f)) {
        Ok(v) => VOut::Val(v),
        Err(_) => VOut::Panic,
    }
}
pub fn go(f: impl FnOnce() -> Option<Vec<i128>>) -> VOut {
    match std::panic::catch_unwind(std::panic::AssertUnwindSafe(f)) {
        Ok(Some(v)) => VOut::Val(v),
        Ok(None) => VOut::None,
        Err(_) => VOut::Panic,
    }
}

#[derive(Clone, Debug, PartialEq)]
pub enum Out {
    Val(i128),
    None,
    Panic,
}

fn guard<T>(f: impl FnOnce() -> T) -> Result<T, ()> {
    std::panic::catch_unwind(std::panic::AssertUnwindSafe(f)).map_err(|_| ())
}
fn pv<T: Into<i128>>(f: impl FnOnce() -> T) -> Out {
    match guard(f) {
        Ok(v) => Out::Val(v.into()),
        Err(_) => Out::Panic,
    }
}
fn po<T: Into<i128>>(f: impl FnOnce() -> Option<T>) -> Out {
    match guard(f) {
        Ok(Some(v)) => Out::Val(v.into()),
        Ok(None) => Out::None,
        Err(_) => Out::Panic,
    }
}

/// integer scalar with the Rust primitive for every named operation
pub trait IS: Copy + core::fmt::Debug + 'static {
    const W: u32;
    const SIGNED: bool;
    fn of(v: i128) -> Self;
    fn val(self) -> i128;
    fn prim1(self, op: &str) -> Option<Out>;
    fn prim2(self, b: Self, op: &str) -> Option<Out>;
    /// mixed-signedness op: `b` is a value of the other signedness, same width
    fn prim_mixed(self, b: i128, op: &str) -> Option<Out>;
    fn prim_shift(self, c: i128, op: &str) -> Vec<(&'static str, Out)>;
}

macro_rules! shift_by {
    ($x:expr, $c:expr, $op:expr, $r:expr, [$($ct:ident),+]) => {$(
        if let Ok(c) = <$ct>::try_from($c) {
            let x = $x;
            $r.push((stringify!($ct), if $op == "shl" { pv(|| (x << c) as i128) } else { pv(|| (x >> c) as i128) }));
        }
    )+};
}

macro_rules! impl_is_common {
    ($t:ident) => {
        fn of(v: i128) -> Self { v as $t }
        fn val(self) -> i128 { self as i128 }
        fn prim2(self, b: Self, op: &str) -> Option<Out> {
            let a = self;
            Some(match op {
                "add" => pv(|| (a + b) as i128),
                "sub" => pv(|| (a - b) as i128),
                "mul" => pv(|| (a * b) as i128),
                "div" => pv(|| (a / b) as i128),
                "rem" => pv(|| (a % b) as i128),
                "min" => pv(|| a.min(b) as i128),
                "max" => pv(|| a.max(b) as i128),
                "bitand" => pv(|| (a & b) as i128),
                "bitor" => pv(|| (a | b) as i128),
                "bitxor" => pv(|| (a ^ b) as i128),
                "div_euclid" => pv(|| a.div_euclid(b) as i128),
                "rem_euclid" => pv(|| a.rem_euclid(b) as i128),
                "checked_add" => po(|| a.checked_add(b).map(|v| v as i128)),
                "checked_sub" => po(|| a.checked_sub(b).map(|v| v as i128)),
                "checked_mul" => po(|| a.checked_mul(b).map(|v| v as i128)),
                "checked_div" => po(|| a.checked_div(b).map(|v| v as i128)),
                "wrapping_add" => pv(|| a.wrapping_add(b) as i128),
                "wrapping_sub" => pv(|| a.wrapping_sub(b) as i128),
                "wrapping_mul" => pv(|| a.wrapping_mul(b) as i128),
                "wrapping_div" => pv(|| a.wrapping_div(b) as i128),
                "saturating_add" => pv(|| a.saturating_add(b) as i128),
                "saturating_sub" => pv(|| a.saturating_sub(b) as i128),
                "saturating_mul" => pv(|| a.saturating_mul(b) as i128),
                "saturating_div" => pv(|| a.saturating_div(b) as i128),
                "abs_diff" => pv(|| a.abs_diff(b) as i128),
                "cmpeq" => Out::Val((a == b) as i128),
                "cmpne" => Out::Val((a != b) as i128),
                "cmplt" => Out::Val((a < b) as i128),
                "cmple" => Out::Val((a <= b) as i128),
                "cmpgt" => Out::Val((a > b) as i128),
                "cmpge" => Out::Val((a >= b) as i128),
                _ => return None,
            })
        }
        fn prim_shift(self, c: i128, op: &str) -> Vec<(&'static str, Out)> {
            let mut r = vec![];
            shift_by!(self, c, op, r, [i8, i16, i32, i64, u8, u16, u32, u64]);
            r
        }
    };
}
macro_rules! impl_is {
    ($t:ident, $w:literal, signed, $o:ident) => {
        impl IS for $t {
            const W: u32 = $w;
            const SIGNED: bool = true;
            impl_is_common!($t);
            fn prim1(self, op: &str) -> Option<Out> {
                let a = self;
                Some(match op {
                    "neg" => pv(|| (-a) as i128),
                    "not" => pv(|| (!a) as i128),
                    "abs" => pv(|| a.abs() as i128),
                    "signum" => pv(|| a.signum() as i128),
                    _ => return None,
                })
            }
            fn prim_mixed(self, b: i128, op: &str) -> Option<Out> {
                let a = self;
                let b = b as $o;
                Some(match op {
                    "checked_add_unsigned" => po(|| a.checked_add_unsigned(b).map(|v| v as i128)),
                    "checked_sub_unsigned" => po(|| a.checked_sub_unsigned(b).map(|v| v as i128)),
                    "wrapping_add_unsigned" => pv(|| a.wrapping_add_unsigned(b) as i128),
                    "wrapping_sub_unsigned" => pv(|| a.wrapping_sub_unsigned(b) as i128),
                    "saturating_add_unsigned" => pv(|| a.saturating_add_unsigned(b) as i128),
                    "saturating_sub_unsigned" => pv(|| a.saturating_sub_unsigned(b) as i128),
                    _ => return None,
                })
            }
        }
    };
    ($t:ident, $w:literal, unsigned, $o:ident) => {
        impl IS for $t {
            const W: u32 = $w;
            const SIGNED: bool = false;
            impl_is_common!($t);
            fn prim1(self, op: &str) -> Option<Out> {
                let a = self;
                Some(match op {
                    "not" => pv(|| (!a) as i128),
                    _ => return None,
                })
            }
            fn prim_mixed(self, b: i128, op: &str) -> Option<Out> {
                let a = self;
                let b = b as $o;
                Some(match op {
                    "checked_add_signed" => po(|| a.checked_add_signed(b).map(|v| v as i128)),
                    "wrapping_add_signed" => pv(|| a.wrapping_add_signed(b) as i128),
                    "saturating_add_signed" => pv(|| a.saturating_add_signed(b) as i128),
                    _ => return None,
                })
            }
        }
    };
}
impl_is!(i8, 8, signed, u8);
impl_is!(i16, 16, signed, u16);
impl_is!(i32, 32, signed, u32);
impl_is!(i64, 64, signed, u64);
impl_is!(u8, 8, unsigned, i8);
impl_is!(u16, 16, unsigned, i16);
impl_is!(u32, 32, unsigned, i32);
impl_is!(u64, 64, unsigned, i64);
impl_is!(usize, 64, unsigned, isize);

pub trait IV: Copy + core::fmt::Debug + 'static {
    type S: IS;
    const N: usize;
    const NAME: &'static str;
    const HAS_MIXED: bool;
    fn from_i(l: &[i128]) -> Self;
    fn to_i(&self) -> Vec<i128>;
    fn un(self, op: &str) -> Spelled<VOut>;
    fn bin(self, b: Self, op: &str) -> Spelled<VOut>;
    fn bin_vs(self, s: Self::S, op: &str) -> Spelled<VOut>;
    fn bin_sv(s: Self::S, v: Self, op: &str) -> Spelled<VOut>;
    fn cmp(self, b: Self, op: &str) -> Spelled<Vec<bool>>;
    fn mixed(self, other: &[i128], op: &str) -> Spelled<VOut>;
    fn shift(self, c: i128, op: &str) -> Spelled<VOut>;
    fn shift_v(self, c: &[i128], op: &str) -> Spelled<VOut>;
    fn clamp_(self, lo: Self, hi: Self) -> VOut;
    fn red1(self, op: &str) -> Option<Out>;
    fn red2(self, b: Self, op: &str) -> Option<Out>;
    fn cross_(self, b: Self) -> Option<VOut>;
    fn sum_(vs: &[Self]) -> Spelled<VOut>;
    fn product_(vs: &[Self]) -> Spelled<VOut>;
}

macro_rules! ibin {
    ($a:ident, $b:ident, $op:tt, $opa:tt) => {{
        let mut r = vec![
            ("a op b", gv(|| ($a $op $b).to_i())),
            ("&a op b", gv(|| (&$a $op $b).to_i())),
            ("a op &b", gv(|| ($a $op &$b).to_i())),
            ("&a op &b", gv(|| (&$a $op &$b).to_i())),
        ];
        r.push(("a op= b", gv(|| { let mut t = $a; t $opa $b; t.to_i() })));
        r.push(("a op= &b", gv(|| { let mut t = $a; t $opa &$b; t.to_i() })));
        r
    }};
}
macro_rules! ibin_noassign {
    ($a:ident, $b:ident, $op:tt) => {{
        vec![("a op b", gv(|| ($a $op $b).to_i()))]
    }};
}
macro_rules! isv {
    ($s:ident, $v:ident, $op:tt) => {{
        vec![
            ("s op v", gv(|| ($s $op $v).to_i())),
            ("&s op v", gv(|| (&$s $op $v).to_i())),
            ("s op &v", gv(|| ($s $op &$v).to_i())),
            ("&s op &v", gv(|| (&$s $op &$v).to_i())),
        ]
    }};
}
macro_rules! ishift_by {
    ($x:expr, $c:expr, $op:expr, $r:expr, [$($ct:ident),+]) => {$(
        if let Ok(c) = <$ct>::try_from($c) {
            let x = $x;
            $r.push((stringify!($ct), gv(|| if $op == "shl" { (x << c).to_i() } else { (x >> c).to_i() })));
        }
    )+};
}

macro_rules! impl_iv {
    ($V:ident, $S:ident, $N:literal, [$($i:literal),+], $sign:ident, $mixed:tt, $IV:ident, $UV:ident) => {
        impl IV for $V {
            type S = $S;
            const N: usize = $N;
            const NAME: &'static str = stringify!($V);
            const HAS_MIXED: bool = impl_iv!(@has_mixed $mixed);
            fn from_i(l: &[i128]) -> Self { $V::new($(l[$i] as $S),+) }
            fn to_i(&self) -> Vec<i128> { self.to_array().iter().map(|x| *x as i128).collect() }
            fn un(self, op: &str) -> Spelled<VOut> {
                impl_iv!(@un $sign, self, op)
            }
            fn bin(self, b: Self, op: &str) -> Spelled<VOut> {
                let a = self;
                match op {
                    "add" => ibin!(a, b, +, +=),
                    "sub" => ibin!(a, b, -, -=),
                    "mul" => ibin!(a, b, *, *=),
                    "div" => ibin!(a, b, /, /=),
                    "rem" => ibin!(a, b, %, %=),
                    "bitand" => ibin_noassign!(a, b, &),
                    "bitor" => ibin_noassign!(a, b, |),
                    "bitxor" => ibin_noassign!(a, b, ^),
                    "min" => vec![("method", gv(|| a.min(b).to_i()))],
                    "max" => vec![("method", gv(|| a.max(b).to_i()))],
                    "div_euclid" | "rem_euclid" => impl_iv!(@euclid $sign, a, b, op),
                    "checked_add" => vec![("method", go(|| a.checked_add(b).map(|v| v.to_i())))],
                    "checked_sub" => vec![("method", go(|| a.checked_sub(b).map(|v| v.to_i())))],
                    "checked_mul" => vec![("method", go(|| a.checked_mul(b).map(|v| v.to_i())))],
                    "checked_div" => vec![("method", go(|| a.checked_div(b).map(|v| v.to_i())))],
                    "wrapping_add" => vec![("method", gv(|| a.wrapping_add(b).to_i()))],
                    "wrapping_sub" => vec![("method", gv(|| a.wrapping_sub(b).to_i()))],
                    "wrapping_mul" => vec![("method", gv(|| a.wrapping_mul(b).to_i()))],
                    "wrapping_div" => vec![("method", gv(|| a.wrapping_div(b).to_i()))],
                    "saturating_add" => vec![("method", gv(|| a.saturating_add(b).to_i()))],
                    "saturating_sub" => vec![("method", gv(|| a.saturating_sub(b).to_i()))],
                    "saturating_mul" => vec![("method", gv(|| a.saturating_mul(b).to_i()))],
                    "saturating_div" => vec![("method", gv(|| a.saturating_div(b).to_i()))],
                    _ => vec![],
                }
            }
            fn bin_vs(self, s: $S, op: &str) -> Spelled<VOut> {
                let a = self;
                match op {
                    "add" => ibin!(a, s, +, +=),
                    "sub" => ibin!(a, s, -, -=),
                    "mul" => ibin!(a, s, *, *=),
                    "div" => ibin!(a, s, /, /=),
                    "rem" => ibin!(a, s, %, %=),
                    "bitand" => ibin_noassign!(a, s, &),
                    "bitor" => ibin_noassign!(a, s, |),
                    "bitxor" => ibin_noassign!(a, s, ^),
                    _ => vec![],
                }
            }
            fn bin_sv(s: $S, v: Self, op: &str) -> Spelled<VOut> {
                match op {
                    "add" => isv!(s, v, +),
                    "sub" => isv!(s, v, -),
                    "mul" => isv!(s, v, *),
                    "div" => isv!(s, v, /),
                    "rem" => isv!(s, v, %),
                    _ => vec![],
                }
            }
            fn cmp(self, b: Self, op: &str) -> Spelled<Vec<bool>> {
                let m = match op {
                    "cmpeq" => self.cmpeq(b),
                    "cmpne" => self.cmpne(b),
                    "cmplt" => self.cmplt(b),
                    "cmple" => self.cmple(b),
                    "cmpgt" => self.cmpgt(b),
                    "cmpge" => self.cmpge(b),
                    _ => return vec![],
                };
                let a: [bool; $N] = m.into();
                vec![("method", a.to_vec())]
            }
            fn mixed(self, other: &[i128], op: &str) -> Spelled<VOut> {
                impl_iv!(@mixed $mixed, $sign, self, other, op, [$($i),+])
            }
            fn shift(self, c: i128, op: &str) -> Spelled<VOut> {
                let mut r = vec![];
                ishift_by!(self, c, op, r, [i8, i16, i32, i64, u8, u16, u32, u64]);
                r
            }
            fn shift_v(self, c: &[i128], op: &str) -> Spelled<VOut> {
                let mut r = vec![];
                if c.iter().take($N).all(|x| i32::try_from(*x).is_ok()) {
                    let cv = $IV::new($(c[$i] as i32),+);
                    r.push(("IVec", gv(|| if op == "shl" { (self << cv).to_i() } else { (self >> cv).to_i() })));
                }
                if c.iter().take($N).all(|x| u32::try_from(*x).is_ok()) {
                    let cv = $UV::new($(c[$i] as u32),+);
                    r.push(("UVec", gv(|| if op == "shl" { (self << cv).to_i() } else { (self >> cv).to_i() })));
                }
                r
            }
            fn clamp_(self, lo: Self, hi: Self) -> VOut { gv(|| self.clamp(lo, hi).to_i()) }
            fn red1(self, op: &str) -> Option<Out> {
                let a = self;
                Some(match op {
                    "element_sum" => pv(|| a.element_sum() as i128),
                    "element_product" => pv(|| a.element_product() as i128),
                    "length_squared" => pv(|| a.length_squared() as i128),
                    "min_element" => pv(|| a.min_element() as i128),
                    "max_element" => pv(|| a.max_element() as i128),
                    "min_position" => pv(|| a.min_position() as i128),
                    "max_position" => pv(|| a.max_position() as i128),
                    _ => return None,
                })
            }
            fn red2(self, b: Self, op: &str) -> Option<Out> {
                let a = self;
                Some(match op {
                    "dot" => pv(|| a.dot(b) as i128),
                    "distance_squared" => impl_iv!(@dist2 $sign, a, b),
                    "manhattan_distance" => pv(|| a.manhattan_distance(b) as i128),
                    "checked_manhattan_distance" => po(|| a.checked_manhattan_distance(b).map(|v| v as i128)),
                    "chebyshev_distance" => pv(|| a.chebyshev_distance(b) as i128),
                    _ => return None,
                })
            }
            fn cross_(self, b: Self) -> Option<VOut> { impl_iv!(@cross $N, self, b) }
            fn sum_(vs: &[Self]) -> Spelled<VOut> {
                vec![("iter().sum()", gv(|| vs.iter().sum::<$V>().to_i())),
                     ("copied().sum()", gv(|| vs.iter().copied().sum::<$V>().to_i()))]
            }
            fn product_(vs: &[Self]) -> Spelled<VOut> {
                vec![("iter().product()", gv(|| vs.iter().product::<$V>().to_i())),
                     ("copied().product()", gv(|| vs.iter().copied().product::<$V>().to_i()))]
            }
        }
    };
    (@euclid signed, $a:ident, $b:ident, $op:ident) => {
        if $op == "div_euclid" { vec![("method", gv(|| $a.div_euclid($b).to_i()))] } else { vec![("method", gv(|| $a.rem_euclid($b).to_i()))] }
    };
    (@euclid unsigned, $a:ident, $b:ident, $op:ident) => { vec![] };
    (@has_mixed none) => { false };
    (@has_mixed $o:ident) => { true };
    (@un signed, $s:ident, $op:ident) => {
        match $op {
            "neg" => vec![("-a", gv(|| (-$s).to_i())), ("-&a", gv(|| (-&$s).to_i()))],
            "not" => vec![("!a", gv(|| (!$s).to_i()))],
            "abs" => vec![("method", gv(|| $s.abs().to_i()))],
            "signum" => vec![("method", gv(|| $s.signum().to_i()))],
            _ => vec![],
        }
    };
    (@un unsigned, $s:ident, $op:ident) => {
        match $op {
            "not" => vec![("!a", gv(|| (!$s).to_i()))],
            _ => vec![],
        }
    };
    (@dist2 signed, $a:ident, $b:ident) => { pv(|| $a.distance_squared($b) as i128) };
    (@dist2 unsigned, $a:ident, $b:ident) => { return None };
    (@cross 3, $a:ident, $b:ident) => { Some(gv(|| $a.cross($b).to_i())) };
    (@cross $n:literal, $a:ident, $b:ident) => { None };
    (@mixed none, $sign:ident, $s:ident, $o:ident, $op:ident, [$($i:literal),+]) => { vec![] };
    (@mixed $O:ident, signed, $s:ident, $o:ident, $op:ident, [$($i:literal),+]) => {{
        let b = $O::new($($o[$i] as _),+);
        match $op {
            "checked_add_unsigned" => vec![("method", go(|| $s.checked_add_unsigned(b).map(|v| v.to_i())))],
            "checked_sub_unsigned" => vec![("method", go(|| $s.checked_sub_unsigned(b).map(|v| v.to_i())))],
            "wrapping_add_unsigned" => vec![("method", gv(|| $s.wrapping_add_unsigned(b).to_i()))],
            "wrapping_sub_unsigned" => vec![("method", gv(|| $s.wrapping_sub_unsigned(b).to_i()))],
            "saturating_add_unsigned" => vec![("method", gv(|| $s.saturating_add_unsigned(b).to_i()))],
            "saturating_sub_unsigned" => vec![("method", gv(|| $s.saturating_sub_unsigned(b).to_i()))],
            _ => vec![],
        }
    }};
    (@mixed $O:ident, unsigned, $s:ident, $o:ident, $op:ident, [$($i:literal),+]) => {{
        let b = $O::new($($o[$i] as _),+);
        match $op {
            "checked_add_signed" => vec![("method", go(|| $s.checked_add_signed(b).map(|v| v.to_i())))],
            "wrapping_add_signed" => vec![("method", gv(|| $s.wrapping_add_signed(b).to_i()))],
            "saturating_add_signed" => vec![("method", gv(|| $s.saturating_add_signed(b).to_i()))],
            _ => vec![],
        }
    }};
}

impl_iv!(I8Vec2, i8, 2, [0, 1], signed, U8Vec2, IVec2, UVec2);
impl_iv!(I8Vec3, i8, 3, [0, 1, 2], signed, U8Vec3, IVec3, UVec3);
impl_iv!(I8Vec4, i8, 4, [0, 1, 2, 3], signed, U8Vec4, IVec4, UVec4);
impl_iv!(U8Vec2, u8, 2, [0, 1], unsigned, I8Vec2, IVec2, UVec2);
impl_iv!(U8Vec3, u8, 3, [0, 1, 2], unsigned, I8Vec3, IVec3, UVec3);
impl_iv!(U8Vec4, u8, 4, [0, 1, 2, 3], unsigned, I8Vec4, IVec4, UVec4);
impl_iv!(I16Vec2, i16, 2, [0, 1], signed, U16Vec2, IVec2, UVec2);
impl_iv!(I16Vec3, i16, 3, [0, 1, 2], signed, U16Vec3, IVec3, UVec3);
impl_iv!(I16Vec4, i16, 4, [0, 1, 2, 3], signed, U16Vec4, IVec4, UVec4);
impl_iv!(U16Vec2, u16, 2, [0, 1], unsigned, I16Vec2, IVec2, UVec2);
impl_iv!(U16Vec3, u16, 3, [0, 1, 2], unsigned, I16Vec3, IVec3, UVec3);
impl_iv!(U16Vec4, u16, 4, [0, 1, 2, 3], unsigned, I16Vec4, IVec4, UVec4);
impl_iv!(IVec2, i32, 2, [0, 1], signed, UVec2, IVec2, UVec2);
impl_iv!(IVec3, i32, 3, [0, 1, 2], signed, UVec3, IVec3, UVec3);
impl_iv!(IVec4, i32, 4, [0, 1, 2, 3], signed, UVec4, IVec4, UVec4);
impl_iv!(UVec2, u32, 2, [0, 1], unsigned, IVec2, IVec2, UVec2);
impl_iv!(UVec3, u32, 3, [0, 1, 2], unsigned, IVec3, IVec3, UVec3);
impl_iv!(UVec4, u32, 4, [0, 1, 2, 3], unsigned, IVec4, IVec4, UVec4);
impl_iv!(I64Vec2, i64, 2, [0, 1], signed, U64Vec2, IVec2, UVec2);
impl_iv!(I64Vec3, i64, 3, [0, 1, 2], signed, U64Vec3, IVec3, UVec3);
impl_iv!(I64Vec4, i64, 4, [0, 1, 2, 3], signed, U64Vec4, IVec4, UVec4);
impl_iv!(U64Vec2, u64, 2, [0, 1], unsigned, I64Vec2, IVec2, UVec2);
impl_iv!(U64Vec3, u64, 3, [0, 1, 2], unsigned, I64Vec3, IVec3, UVec3);
impl_iv!(U64Vec4, u64, 4, [0, 1, 2, 3], unsigned, I64Vec4, IVec4, UVec4);
impl_iv!(USizeVec2, usize, 2, [0, 1], unsigned, none, IVec2, UVec2);
impl_iv!(USizeVec3, usize, 3, [0, 1, 2], unsigned, none, IVec3, UVec3);
impl_iv!(USizeVec4, usize, 4, [0, 1, 2, 3], unsigned, none, IVec4, UVec4);

/// Run `$f::<T>(args)` for every vector type whose scalar is named `$name`.
#[macro_export]
macro_rules! for_iv_of {
    ($name:expr, $f:ident ( $($arg:expr),* )) => {
        match $name {
            "i8" => { $f::<glam::I8Vec2>($($arg),*); $f::<glam::I8Vec3>($($arg),*); $f::<glam::I8Vec4>($($arg),*); }
            "u8" => { $f::<glam::U8Vec2>($($arg),*); $f::<glam::U8Vec3>($($arg),*); $f::<glam::U8Vec4>($($arg),*); }
            "i16" => { $f::<glam::I16Vec2>($($arg),*); $f::<glam::I16Vec3>($($arg),*); $f::<glam::I16Vec4>($($arg),*); }
            "u16" => { $f::<glam::U16Vec2>($($arg),*); $f::<glam::U16Vec3>($($arg),*); $f::<glam::U16Vec4>($($arg),*); }
            "i32" => { $f::<glam::IVec2>($($arg),*); $f::<glam::IVec3>($($arg),*); $f::<glam::IVec4>($($arg),*); }
            "u32" => { $f::<glam::UVec2>($($arg),*); $f::<glam::UVec3>($($arg),*); $f::<glam::UVec4>($($arg),*); }
            "i64" => { $f::<glam::I64Vec2>($($arg),*); $f::<glam::I64Vec3>($($arg),*); $f::<glam::I64Vec4>($($arg),*); }
            "u64" => { $f::<glam::U64Vec2>($($arg),*); $f::<glam::U64Vec3>($($arg),*); $f::<glam::U64Vec4>($($arg),*);
                       $f::<glam::USizeVec2>($($arg),*); $f::<glam::USizeVec3>($($arg),*); $f::<glam::USizeVec4>($($arg),*); }
            _ => panic!("scalar type"),
        }
    };
}
