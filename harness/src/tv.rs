//! The T (token) domain: every numeric vector type as N lanes of opaque bit patterns.
//! Tokens are names resolved per scalar type to bit patterns chosen so that any lane mix-up,
//! sign loss, NaN-payload canonicalisation or truncation is visible bit-for-bit.

use glam::*;

#[derive(Clone, Copy, Debug, PartialEq)]
pub enum Sc {
    F32,
    F64,
    I8,
    U8,
    I16,
    U16,
    I32,
    U32,
    I64,
    U64,
    Usize,
}

impl Sc {
    pub fn bits(self) -> u32 {
        match self {
            Sc::I8 | Sc::U8 => 8,
            Sc::I16 | Sc::U16 => 16,
            Sc::F32 | Sc::I32 | Sc::U32 => 32,
            _ => 64,
        }
    }
    pub fn signed(self) -> bool {
        matches!(self, Sc::I8 | Sc::I16 | Sc::I32 | Sc::I64)
    }
    pub fn is_float(self) -> bool {
        matches!(self, Sc::F32 | Sc::F64)
    }
    pub fn mask(self) -> u64 {
        if self.bits() == 64 {
            u64::MAX
        } else {
            (1u64 << self.bits()) - 1
        }
    }
}

/// bit pattern (zero-extended to u64) of a named token in a scalar type
pub fn tok_bits(sc: Sc, tok: &str) -> u64 {
    let m = sc.mask();
    // "~t": the twin of token t -- a value that COMPARES equal to t but has other bits where the type has such values (the other zero
    // of a float); t itself otherwise
    if let Some(t) = tok.strip_prefix('~') {
        let b = tok_bits(sc, t);
        return if sc.is_float() && (b & (m >> 1)) == 0 { b ^ ((m >> 1) + 1) } else { b };
    }
    if let Some(n) = tok.strip_prefix('t').and_then(|x| x.parse::<u64>().ok()) {
        // numbered tokens: pairwise distinct; for floats every third one is a NaN with its own payload
        return match sc {
            Sc::F32 => (if n % 3 == 0 { 0x7fc0_0000 + 0x111 * n as u32 } else if n % 3 == 1 { (1.25f32 * n as f32 - 7.5).to_bits() } else { (-(0.3f32 * n as f32) - 100.0).to_bits() }) as u64,
            Sc::F64 => if n % 3 == 0 { 0x7ff8_0000_0000_0000 + 0x10101 * n } else if n % 3 == 1 { (1.25f64 * n as f64 - 7.5).to_bits() } else { (-(0.3f64 * n as f64) - 100.0).to_bits() },
            _ => (0x0101_0101_0101_0101u64.wrapping_mul(n + 2) ^ (n << 3)) & m,
        };
    }
    match sc {
        Sc::F32 => (match tok {
            "zero" => 0.0f32.to_bits(),
            "one" => 1.0f32.to_bits(),
            "negone" => (-1.0f32).to_bits(),
            "min" => f32::MIN.to_bits(),
            "max" => f32::MAX.to_bits(),
            "nan" => f32::NAN.to_bits(),
            "inf" => f32::INFINITY.to_bits(),
            "neginf" => f32::NEG_INFINITY.to_bits(),
            "p1" => 0x7fc1_2345, // quiet NaN with payload
            "p2" => 0x8000_0000, // -0.0
            "p3" => 0x4049_0fdb, // pi
            "p4" => 0xffc5_4321, // negative quiet NaN with payload
            "p5" => 0x0000_0001, // smallest subnormal
            "p6" => 0xc2f7_0000, // -123.5
            "p7" => 0x7fe0_0001, // another NaN payload
            "p8" => 0x3eaa_aaab, // 1/3
            "q1" => 0x4110_0000, // 9
            "q2" => 0xff80_0000, // -inf
            "q3" => 0x7fc0_beef,
            "q4" => 0x0080_0000, // min normal
            _ => panic!("token {tok}"),
        }) as u64,
        Sc::F64 => match tok {
            "zero" => 0.0f64.to_bits(),
            "one" => 1.0f64.to_bits(),
            "negone" => (-1.0f64).to_bits(),
            "min" => f64::MIN.to_bits(),
            "max" => f64::MAX.to_bits(),
            "nan" => f64::NAN.to_bits(),
            "inf" => f64::INFINITY.to_bits(),
            "neginf" => f64::NEG_INFINITY.to_bits(),
            "p1" => 0x7ff8_1234_5678_9abc,
            "p2" => 0x8000_0000_0000_0000,
            "p3" => core::f64::consts::PI.to_bits(),
            "p4" => 0xfff8_5432_10fe_dcba,
            "p5" => 0x0000_0000_0000_0001,
            "p6" => (-123.5f64).to_bits(),
            "p7" => 0x7ffc_0000_0000_0001,
            "p8" => (1.0f64 / 3.0).to_bits(),
            "q1" => 9.0f64.to_bits(),
            "q2" => f64::NEG_INFINITY.to_bits(),
            "q3" => 0x7ff8_0000_dead_beef,
            "q4" => f64::MIN_POSITIVE.to_bits(),
            _ => panic!("token {tok}"),
        },
        _ => {
            let w = sc.bits();
            let v: u64 = match tok {
                "nan" | "inf" | "neginf" => 0, // float-only constants: never compared on integers
                "zero" => 0,
                "one" => 1,
                "negone" => u64::MAX,
                "min" => {
                    if sc.signed() {
                        1u64 << (w - 1)
                    } else {
                        0
                    }
                }
                "max" => {
                    if sc.signed() {
                        (1u64 << (w - 1)) - 1
                    } else {
                        u64::MAX
                    }
                }
                "p1" => 0x5a5a_5a5a_5a5a_5a5a,
                "p2" => 0xa5a5_a5a5_a5a5_a5a5,
                "p3" => 0x0102_0304_0506_0708,
                "p4" => 0x8091_a2b3_c4d5_e6f7,
                "p5" => 2,
                "p6" => 0xfffe_fffe_fffe_fffe,
                "p7" => 0x7f7e_7d7c_7b7a_7978,
                "p8" => 0x3333_3333_3333_3333,
                "q1" => 0x1111_1111_1111_1111,
                "q2" => 0xeeee_eeee_eeee_eeee,
                "q3" => 0x0f0f_0f0f_0f0f_0f0f,
                "q4" => 0x4000_4000_4000_4000,
                _ => panic!("token {tok}"),
            };
            v & m
        }
    }
}

pub trait Scalar: Copy + core::fmt::Debug + core::fmt::Display + 'static {
    const SC: Sc;
    fn from_u64(b: u64) -> Self;
    fn to_u64(self) -> u64;
}
macro_rules! impl_scalar_int {
    ($t:ident, $sc:ident) => {
        impl Scalar for $t {
            const SC: Sc = Sc::$sc;
            fn from_u64(b: u64) -> Self {
                b as $t
            }
            fn to_u64(self) -> u64 {
                (self as u64) & Sc::$sc.mask()
            }
        }
    };
}
impl_scalar_int!(i8, I8);
impl_scalar_int!(u8, U8);
impl_scalar_int!(i16, I16);
impl_scalar_int!(u16, U16);
impl_scalar_int!(i32, I32);
impl_scalar_int!(u32, U32);
impl_scalar_int!(i64, I64);
impl_scalar_int!(u64, U64);
impl_scalar_int!(usize, Usize);
impl Scalar for f32 {
    const SC: Sc = Sc::F32;
    fn from_u64(b: u64) -> Self {
        f32::from_bits(b as u32)
    }
    fn to_u64(self) -> u64 {
        self.to_bits() as u64
    }
}
impl Scalar for f64 {
    const SC: Sc = Sc::F64;
    fn from_u64(b: u64) -> Self {
        f64::from_bits(b)
    }
    fn to_u64(self) -> u64 {
        self.to_bits()
    }
}

/// A numeric vector type seen as N lanes of bit patterns.
pub trait TV: Copy + core::fmt::Debug + core::fmt::Display + 'static {
    type S: Scalar;
    const N: usize;
    const NAME: &'static str;
    fn from_lanes(l: &[Self::S]) -> Self;
    fn lanes(&self) -> Vec<Self::S>;
    fn from_bits(b: &[u64]) -> Self {
        let l: Vec<Self::S> = b.iter().map(|x| Self::S::from_u64(*x)).collect();
        Self::from_lanes(&l)
    }
    fn to_bits(&self) -> Vec<u64> {
        self.lanes().iter().map(|x| x.to_u64()).collect()
    }
    /// the same visible lanes built through every route that can leave different content in
    /// storage that is not part of the value (the hidden fourth lane of Vec3A)
    fn variants(b: &[u64]) -> Vec<Self> {
        vec![Self::from_bits(b)]
    }
    /// the slice and index API (C18); `None` when the type has no Index impl
    fn from_slice_(s: &[Self::S]) -> Self;
    fn write_to_slice_(&self, s: &mut [Self::S]);
    fn index_(&self, _i: usize) -> Option<Self::S> { None }
    fn index_mut_(&mut self, _i: usize, _v: Self::S) -> bool { false }
    fn from_toks(t: &[&str]) -> Self {
        let b: Vec<u64> = t.iter().map(|x| tok_bits(Self::S::SC, x)).collect();
        Self::from_bits(&b)
    }
}

macro_rules! impl_tv {
    ($($V:ident, $S:ident, $N:literal, [$($i:literal),+]);+ $(;)?) => {$(
        impl TV for $V {
            type S = $S;
            const N: usize = $N;
            const NAME: &'static str = stringify!($V);
            fn from_lanes(l: &[$S]) -> Self { $V::new($(l[$i]),+) }
            fn lanes(&self) -> Vec<$S> { self.to_array().to_vec() }
            fn from_slice_(s: &[$S]) -> Self { $V::from_slice(s) }
            fn write_to_slice_(&self, s: &mut [$S]) { self.write_to_slice(s) }
            fn index_(&self, i: usize) -> Option<$S> { Some(self[i]) }
            fn index_mut_(&mut self, i: usize, v: $S) -> bool { self[i] = v; true }
        }
    )+};
}
impl_tv! {
    Vec2, f32, 2, [0, 1]; Vec3, f32, 3, [0, 1, 2]; Vec4, f32, 4, [0, 1, 2, 3];
    DVec2, f64, 2, [0, 1]; DVec3, f64, 3, [0, 1, 2]; DVec4, f64, 4, [0, 1, 2, 3];
    I8Vec2, i8, 2, [0, 1]; I8Vec3, i8, 3, [0, 1, 2]; I8Vec4, i8, 4, [0, 1, 2, 3];
    U8Vec2, u8, 2, [0, 1]; U8Vec3, u8, 3, [0, 1, 2]; U8Vec4, u8, 4, [0, 1, 2, 3];
    I16Vec2, i16, 2, [0, 1]; I16Vec3, i16, 3, [0, 1, 2]; I16Vec4, i16, 4, [0, 1, 2, 3];
    U16Vec2, u16, 2, [0, 1]; U16Vec3, u16, 3, [0, 1, 2]; U16Vec4, u16, 4, [0, 1, 2, 3];
    IVec2, i32, 2, [0, 1]; IVec3, i32, 3, [0, 1, 2]; IVec4, i32, 4, [0, 1, 2, 3];
    UVec2, u32, 2, [0, 1]; UVec3, u32, 3, [0, 1, 2]; UVec4, u32, 4, [0, 1, 2, 3];
    I64Vec2, i64, 2, [0, 1]; I64Vec3, i64, 3, [0, 1, 2]; I64Vec4, i64, 4, [0, 1, 2, 3];
    U64Vec2, u64, 2, [0, 1]; U64Vec3, u64, 3, [0, 1, 2]; U64Vec4, u64, 4, [0, 1, 2, 3];
    USizeVec2, usize, 2, [0, 1]; USizeVec3, usize, 3, [0, 1, 2]; USizeVec4, usize, 4, [0, 1, 2, 3];
}

/// Invoke `$m!(Type)` for each vector type of the given dimension.
#[macro_export]
macro_rules! for_tv2 { ($m:ident) => { $m!(Vec2); $m!(DVec2); $m!(I8Vec2); $m!(U8Vec2); $m!(I16Vec2); $m!(U16Vec2); $m!(IVec2); $m!(UVec2); $m!(I64Vec2); $m!(U64Vec2); $m!(USizeVec2); }; }
#[macro_export]
macro_rules! for_tv3 { ($m:ident) => { $m!(Vec3); $m!(Vec3A); $m!(DVec3); $m!(I8Vec3); $m!(U8Vec3); $m!(I16Vec3); $m!(U16Vec3); $m!(IVec3); $m!(UVec3); $m!(I64Vec3); $m!(U64Vec3); $m!(USizeVec3); }; }
#[macro_export]
macro_rules! for_tv4 { ($m:ident) => { $m!(Vec4); $m!(DVec4); $m!(I8Vec4); $m!(U8Vec4); $m!(I16Vec4); $m!(U16Vec4); $m!(IVec4); $m!(UVec4); $m!(I64Vec4); $m!(U64Vec4); $m!(USizeVec4); }; }

impl TV for Vec3A {
    type S = f32;
    const N: usize = 3;
    const NAME: &'static str = "Vec3A";
    fn from_lanes(l: &[f32]) -> Self {
        Vec3A::new(l[0], l[1], l[2])
    }
    fn lanes(&self) -> Vec<f32> {
        self.to_array().to_vec()
    }
    fn from_slice_(s: &[f32]) -> Self { Vec3A::from_slice(s) }
    fn write_to_slice_(&self, s: &mut [f32]) { self.write_to_slice(s) }
    fn index_(&self, i: usize) -> Option<f32> { Some(self[i]) }
    fn index_mut_(&mut self, i: usize, v: f32) -> bool { self[i] = v; true }
    fn variants(b: &[u64]) -> Vec<Self> {
        let l: Vec<f32> = b.iter().map(|x| f32::from_bits(*x as u32)).collect();
        // hidden-lane payloads: a finite value unlike any token, a NaN, all-ones, -inf
        let hid = [0x4479_c000u32, 0x7fc0_0bad, 0xffff_ffff, 0xff80_0000, 0x0000_0000];
        let mut v = vec![Vec3A::new(l[0], l[1], l[2])];
        for h in hid {
            v.push(Vec3A::from_vec4(Vec4::new(l[0], l[1], l[2], f32::from_bits(h))));
        }
        v
    }
}
