//! The mask types as N boolean lanes: one trait over BVec2/3/4 and BVec3A/4A (shared by the `mask` replay and the `rec mask` recorder).

use glam::*;
use std::hash::Hash;

pub trait BM: Copy + core::fmt::Debug + core::fmt::Display + PartialEq + Hash + 'static {
    const N: usize;
    const NAME: &'static str;
    fn mk(l: &[bool]) -> Self;
    fn ctor(path: &str, l: &[bool]) -> Option<Self>;
    /// the same mask from several producers: the constructor, and lane-by-lane `set` starting from all-false and from all-true
    fn variants(l: &[bool]) -> Vec<Self> {
        let mut r = vec![Self::mk(l)];
        r.extend(Self::by_set(l));
        r
    }
    fn by_set(l: &[bool]) -> Vec<Self> {
        let mut a = Self::mk(&vec![false; Self::N]);
        let mut b = Self::mk(&vec![true; Self::N]);
        for i in 0..Self::N { a.set_(i, l[i]); b.set_(i, l[i]); }
        vec![a, b]
    }
    fn bools(self) -> Vec<bool>;
    fn u32s(self) -> Vec<u32>;
    fn bitmask_(self) -> u32;
    fn any_(self) -> bool;
    fn all_(self) -> bool;
    fn test_(&self, i: usize) -> bool;
    fn set_(&mut self, i: usize, v: bool);
    fn not_(self) -> Self;
    fn bin(self, op: &str, b: Self) -> Self;
}

macro_rules! impl_bm {
    ($B:ident, $N:literal, $free:ident, [$($i:literal),+] $(, variants = $var:expr)?) => {
        impl BM for $B {
            const N: usize = $N;
            const NAME: &'static str = stringify!($B);
            fn mk(l: &[bool]) -> Self { $B::new($(l[$i]),+) }
            fn ctor(path: &str, l: &[bool]) -> Option<Self> {
                Some(match path {
                    "new" => $B::new($(l[$i]),+),
                    "splat" => $B::splat(l[0]),
                    "from_array" => $B::from_array([$(l[$i]),+]),
                    "from_trait" => <$B as From<[bool; $N]>>::from([$(l[$i]),+]),
                    "free_fn" => $free($(l[$i]),+),
                    _ => return None,
                })
            }
            $( fn variants(l: &[bool]) -> Vec<Self> { ($var)(l) } )?
            fn bools(self) -> Vec<bool> { let a: [bool; $N] = self.into(); a.to_vec() }
            fn u32s(self) -> Vec<u32> { let a: [u32; $N] = self.into(); a.to_vec() }
            fn bitmask_(self) -> u32 { self.bitmask() }
            fn any_(self) -> bool { self.any() }
            fn all_(self) -> bool { self.all() }
            fn test_(&self, i: usize) -> bool { self.test(i) }
            fn set_(&mut self, i: usize, v: bool) { self.set(i, v) }
            fn not_(self) -> Self { !self }
            fn bin(self, op: &str, b: Self) -> Self {
                match op {
                    "and" => self & b,
                    "or" => self | b,
                    "xor" => self ^ b,
                    "and_assign" => { let mut t = self; t &= b; t }
                    "or_assign" => { let mut t = self; t |= b; t }
                    "xor_assign" => { let mut t = self; t ^= b; t }
                    _ => panic!("op {op}"),
                }
            }
        }
    };
}
impl_bm!(BVec2, 2, bvec2, [0, 1]);
impl_bm!(BVec3, 3, bvec3, [0, 1, 2]);
impl_bm!(BVec4, 4, bvec4, [0, 1, 2, 3]);
#[cfg(feature = "scalar-math")]
impl_bm!(BVec4A, 4, bvec4a, [0, 1, 2, 3]);
#[cfg(feature = "scalar-math")]
pub type V4Mask = BVec4;
#[cfg(not(feature = "scalar-math"))]
pub type V4Mask = BVec4A;
#[cfg(not(feature = "scalar-math"))]
impl_bm!(BVec4A, 4, bvec4a, [0, 1, 2, 3], variants = |l: &[bool]| {
    // the same mask produced by a comparison of vectors
    let f = |b: bool| if b { 1.0f32 } else { 0.0 };
    let mut r = vec![BVec4A::new(l[0], l[1], l[2], l[3]),
         Vec4::new(f(l[0]), f(l[1]), f(l[2]), f(l[3])).cmpeq(Vec4::ONE),
         Vec4::new(f(l[0]), f(l[1]), f(l[2]), f(l[3])).cmpgt(Vec4::splat(0.5))];
    r.extend(<BVec4A as BM>::by_set(l));
    r
});
impl_bm!(BVec3A, 3, bvec3a, [0, 1, 2], variants = |l: &[bool]| {
    // the same visible lanes with the hidden fourth lane false / true / whatever new() leaves
    let f = |b: bool| if b { 1.0f32 } else { 0.0 };
    let one = Vec3A::from_vec4(Vec4::ONE);
    let mut r = vec![BVec3A::new(l[0], l[1], l[2]),
         Vec3A::from_vec4(Vec4::new(f(l[0]), f(l[1]), f(l[2]), 0.0)).cmpeq(one),
         Vec3A::from_vec4(Vec4::new(f(l[0]), f(l[1]), f(l[2]), 1.0)).cmpeq(one),
         Vec3A::from_vec4(Vec4::new(f(l[0]), f(l[1]), f(l[2]), f32::NAN)).cmpne(Vec3A::from_vec4(Vec4::new(0.0, 0.0, 0.0, 0.0)))];
    r.extend(<BVec3A as BM>::by_set(l));
    r
});


/// the lanes of a mask as seen by `select` on the natural float vector of its width (1.0 where the mask chose the first operand)
pub trait SelObs: BM {
    fn sel_(self) -> Vec<bool>;
}
macro_rules! impl_selobs { ($($B:ident, $V:ident);+ $(;)?) => {$( impl SelObs for $B { fn sel_(self) -> Vec<bool> { $V::select(self, $V::ONE, $V::ZERO).to_array().iter().map(|x| *x == 1.0).collect() } } )+}; }
impl_selobs!(BVec2, Vec2; BVec3, Vec3; BVec3A, Vec3A; BVec4, DVec4);
#[cfg(not(feature = "scalar-math"))]
impl_selobs!(BVec4A, Vec4);
#[cfg(feature = "scalar-math")]
impl SelObs for BVec4A { fn sel_(self) -> Vec<bool> { let a: [bool; 4] = self.into(); BVec4::from_array(a).sel_() } }
