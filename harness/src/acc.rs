//! Access paths of vectors and quaternions (family `acc`, C17): constructors, constants,
//! write paths and read paths, each by the name the specification uses.

use crate::tv::{Scalar, TV};
use glam::*;

pub enum Obs<S> {
    Lanes(Vec<S>),
    Text(String),
    Bool(bool),
}

/// the write_to_slice read path: into a buffer two elements longer than the vector, pre-filled with canaries; the observation is
/// the first n elements, or the whole buffer (which can never match) when an element beyond n was touched
fn wts<V: TV>(v: &V, n: usize, other: V::S) -> Obs<V::S> {
    use crate::tv::{tok_bits, Scalar};
    let c1 = V::S::from_u64(tok_bits(V::S::SC, "q2"));
    let c2 = V::S::from_u64(tok_bits(V::S::SC, "q4"));
    let mut b = vec![other; n + 2];
    b[n] = c1;
    b[n + 1] = c2;
    v.write_to_slice_(&mut b[..]);
    if b[n].to_u64() == c1.to_u64() && b[n + 1].to_u64() == c2.to_u64() { b.truncate(n); }
    Obs::Lanes(b)
}

pub trait Acc: TV {
    fn ctor(path: &str, l: &[Self::S]) -> Option<Self>;
    fn konst(name: &str) -> Option<Self>;
    /// returns false when the type has no such write path
    fn write(&mut self, path: &str, lane: usize, v: Self::S) -> bool;
    fn read(&self, path: &str) -> Option<Obs<Self::S>>;
}

macro_rules! konsts_common {
    ($V:ident, $name:ident, [$($c:ident),*]) => {
        match $name { $( stringify!($c) => return Some($V::$c), )* _ => {} }
    };
}

macro_rules! impl_acc {
    // ---------------- 2 lanes
    ($V:ident, $S:ident, 2, $free:ident, $class:ident) => {
        impl Acc for $V {
            fn ctor(path: &str, l: &[$S]) -> Option<Self> {
                Some(match path {
                    "new" => $V::new(l[0], l[1]),
                    "from_array" => $V::from_array([l[0], l[1]]),
                    "from_slice" => $V::from_slice(&[l[0], l[1], l[0], l[0]][..]),          // longer than needed: only the first N are read
                    "from_array_trait" => <$V as From<[$S; 2]>>::from([l[0], l[1]]),
                    "from_tuple" => <$V as From<($S, $S)>>::from((l[0], l[1])),
                    "free_fn" => $free(l[0], l[1]),
                    "splat" => $V::splat(l[0]),
                    _ => return None,
                })
            }
            fn konst(name: &str) -> Option<Self> {
                konsts_common!($V, name, [ZERO, ONE, MIN, MAX, X, Y]);
                impl_acc!(@class_consts $class, $V, name, [NEG_X, NEG_Y]);
                None
            }
            fn write(&mut self, path: &str, lane: usize, v: $S) -> bool {
                match path {
                    "field" => match lane { 0 => self.x = v, _ => self.y = v },
                    "index_mut" => self[lane] = v,
                    "as_mut" => { let a: &mut [$S; 2] = self.as_mut(); a[lane] = v; }
                    "with" => *self = match lane { 0 => self.with_x(v), _ => self.with_y(v) },
                    _ => return false,
                }
                true
            }
            fn read(&self, path: &str) -> Option<Obs<$S>> {
                Some(match path {
                    "field" => Obs::Lanes(vec![self.x, self.y]),
                    "index" => Obs::Lanes(vec![self[0], self[1]]),
                    "to_array" => Obs::Lanes(self.to_array().to_vec()),
                    "write_to_slice" => wts(self, 2, self.y),
                    "into_array" => { let a: [$S; 2] = (*self).into(); Obs::Lanes(a.to_vec()) }
                    "into_tuple" => { let t: ($S, $S) = (*self).into(); Obs::Lanes(vec![t.0, t.1]) }
                    "as_ref" => { let a: &[$S; 2] = self.as_ref(); Obs::Lanes(a.to_vec()) }
                    "debug" => Obs::Text(format!("{:?}", self)),
                    "display" => Obs::Text(format!("{}", self)),
                    "display_prec" => Obs::Text(format!("{:.2}", self)),
                    "eq_self" => Obs::Bool(*self == *self),
                    _ => return None,
                })
            }
        }
    };
    // ---------------- 3 lanes
    ($V:ident, $S:ident, 3, $free:ident, $class:ident) => {
        impl Acc for $V {
            fn ctor(path: &str, l: &[$S]) -> Option<Self> {
                Some(match path {
                    "new" => $V::new(l[0], l[1], l[2]),
                    "from_array" => $V::from_array([l[0], l[1], l[2]]),
                    "from_slice" => $V::from_slice(&[l[0], l[1], l[2], l[0], l[0]][..]),
                    "from_array_trait" => <$V as From<[$S; 3]>>::from([l[0], l[1], l[2]]),
                    "from_tuple" => <$V as From<($S, $S, $S)>>::from((l[0], l[1], l[2])),
                    "free_fn" => $free(l[0], l[1], l[2]),
                    "splat" => $V::splat(l[0]),
                    _ => return None,
                })
            }
            fn konst(name: &str) -> Option<Self> {
                konsts_common!($V, name, [ZERO, ONE, MIN, MAX, X, Y, Z]);
                impl_acc!(@class_consts $class, $V, name, [NEG_X, NEG_Y, NEG_Z]);
                None
            }
            fn write(&mut self, path: &str, lane: usize, v: $S) -> bool {
                match path {
                    "field" => match lane { 0 => self.x = v, 1 => self.y = v, _ => self.z = v },
                    "index_mut" => self[lane] = v,
                    "as_mut" => { let a: &mut [$S; 3] = self.as_mut(); a[lane] = v; }
                    "with" => *self = match lane { 0 => self.with_x(v), 1 => self.with_y(v), _ => self.with_z(v) },
                    _ => return false,
                }
                true
            }
            fn read(&self, path: &str) -> Option<Obs<$S>> {
                Some(match path {
                    "field" => Obs::Lanes(vec![self.x, self.y, self.z]),
                    "index" => Obs::Lanes(vec![self[0], self[1], self[2]]),
                    "to_array" => Obs::Lanes(self.to_array().to_vec()),
                    "write_to_slice" => wts(self, 3, self.z),
                    "into_array" => { let a: [$S; 3] = (*self).into(); Obs::Lanes(a.to_vec()) }
                    "into_tuple" => { let t: ($S, $S, $S) = (*self).into(); Obs::Lanes(vec![t.0, t.1, t.2]) }
                    "as_ref" => { let a: &[$S; 3] = self.as_ref(); Obs::Lanes(a.to_vec()) }
                    "debug" => Obs::Text(format!("{:?}", self)),
                    "display" => Obs::Text(format!("{}", self)),
                    "display_prec" => Obs::Text(format!("{:.2}", self)),
                    "eq_self" => Obs::Bool(*self == *self),
                    _ => return None,
                })
            }
        }
    };
    // ---------------- 4 lanes
    ($V:ident, $S:ident, 4, $free:ident, $class:ident) => {
        impl Acc for $V {
            fn ctor(path: &str, l: &[$S]) -> Option<Self> {
                Some(match path {
                    "new" => $V::new(l[0], l[1], l[2], l[3]),
                    "from_array" => $V::from_array([l[0], l[1], l[2], l[3]]),
                    "from_slice" => $V::from_slice(&[l[0], l[1], l[2], l[3], l[0], l[0]][..]),
                    "from_array_trait" => <$V as From<[$S; 4]>>::from([l[0], l[1], l[2], l[3]]),
                    "from_tuple" => <$V as From<($S, $S, $S, $S)>>::from((l[0], l[1], l[2], l[3])),
                    "free_fn" => $free(l[0], l[1], l[2], l[3]),
                    "splat" => $V::splat(l[0]),
                    _ => return None,
                })
            }
            fn konst(name: &str) -> Option<Self> {
                konsts_common!($V, name, [ZERO, ONE, MIN, MAX, X, Y, Z, W]);
                impl_acc!(@class_consts $class, $V, name, [NEG_X, NEG_Y, NEG_Z, NEG_W]);
                None
            }
            fn write(&mut self, path: &str, lane: usize, v: $S) -> bool {
                match path {
                    "field" => match lane { 0 => self.x = v, 1 => self.y = v, 2 => self.z = v, _ => self.w = v },
                    "index_mut" => self[lane] = v,
                    "as_mut" => { let a: &mut [$S; 4] = self.as_mut(); a[lane] = v; }
                    "with" => *self = match lane { 0 => self.with_x(v), 1 => self.with_y(v), 2 => self.with_z(v), _ => self.with_w(v) },
                    _ => return false,
                }
                true
            }
            fn read(&self, path: &str) -> Option<Obs<$S>> {
                Some(match path {
                    "field" => Obs::Lanes(vec![self.x, self.y, self.z, self.w]),
                    "index" => Obs::Lanes(vec![self[0], self[1], self[2], self[3]]),
                    "to_array" => Obs::Lanes(self.to_array().to_vec()),
                    "write_to_slice" => wts(self, 4, self.w),
                    "into_array" => { let a: [$S; 4] = (*self).into(); Obs::Lanes(a.to_vec()) }
                    "into_tuple" => { let t: ($S, $S, $S, $S) = (*self).into(); Obs::Lanes(vec![t.0, t.1, t.2, t.3]) }
                    "as_ref" => { let a: &[$S; 4] = self.as_ref(); Obs::Lanes(a.to_vec()) }
                    "debug" => Obs::Text(format!("{:?}", self)),
                    "display" => Obs::Text(format!("{}", self)),
                    "display_prec" => Obs::Text(format!("{:.2}", self)),
                    "eq_self" => Obs::Bool(*self == *self),
                    _ => return None,
                })
            }
        }
    };
    (@class_consts float, $V:ident, $name:ident, [$($neg:ident),*]) => {
        konsts_common!($V, $name, [NEG_ONE, NAN, INFINITY, NEG_INFINITY $(, $neg)*]);
    };
    (@class_consts signed, $V:ident, $name:ident, [$($neg:ident),*]) => {
        konsts_common!($V, $name, [NEG_ONE $(, $neg)*]);
    };
    (@class_consts unsigned, $V:ident, $name:ident, [$($neg:ident),*]) => {};
}

impl_acc!(Vec2, f32, 2, vec2, float);
impl_acc!(Vec3, f32, 3, vec3, float);
impl_acc!(Vec3A, f32, 3, vec3a, float);
impl_acc!(Vec4, f32, 4, vec4, float);
impl_acc!(DVec2, f64, 2, dvec2, float);
impl_acc!(DVec3, f64, 3, dvec3, float);
impl_acc!(DVec4, f64, 4, dvec4, float);
impl_acc!(I8Vec2, i8, 2, i8vec2, signed);
impl_acc!(I8Vec3, i8, 3, i8vec3, signed);
impl_acc!(I8Vec4, i8, 4, i8vec4, signed);
impl_acc!(U8Vec2, u8, 2, u8vec2, unsigned);
impl_acc!(U8Vec3, u8, 3, u8vec3, unsigned);
impl_acc!(U8Vec4, u8, 4, u8vec4, unsigned);
impl_acc!(I16Vec2, i16, 2, i16vec2, signed);
impl_acc!(I16Vec3, i16, 3, i16vec3, signed);
impl_acc!(I16Vec4, i16, 4, i16vec4, signed);
impl_acc!(U16Vec2, u16, 2, u16vec2, unsigned);
impl_acc!(U16Vec3, u16, 3, u16vec3, unsigned);
impl_acc!(U16Vec4, u16, 4, u16vec4, unsigned);
impl_acc!(IVec2, i32, 2, ivec2, signed);
impl_acc!(IVec3, i32, 3, ivec3, signed);
impl_acc!(IVec4, i32, 4, ivec4, signed);
impl_acc!(UVec2, u32, 2, uvec2, unsigned);
impl_acc!(UVec3, u32, 3, uvec3, unsigned);
impl_acc!(UVec4, u32, 4, uvec4, unsigned);
impl_acc!(I64Vec2, i64, 2, i64vec2, signed);
impl_acc!(I64Vec3, i64, 3, i64vec3, signed);
impl_acc!(I64Vec4, i64, 4, i64vec4, signed);
impl_acc!(U64Vec2, u64, 2, u64vec2, unsigned);
impl_acc!(U64Vec3, u64, 3, u64vec3, unsigned);
impl_acc!(U64Vec4, u64, 4, u64vec4, unsigned);
impl_acc!(USizeVec2, usize, 2, usizevec2, unsigned);
impl_acc!(USizeVec3, usize, 3, usizevec3, unsigned);
impl_acc!(USizeVec4, usize, 4, usizevec4, unsigned);

/// Expected Debug / Display text, built from the primitive formatter of each lane with the
/// grammar of spec/Fmt (Display = "[e1, e2, ...]", Debug = "Name(e1, e2, ...)").
pub fn fmt_expected<S: Scalar>(name: &str, lanes: &[S], debug: bool) -> String {
    fmt_expected_p(name, lanes, debug, false)
}
/// with `prec`: the precision flag `{:.2}` is forwarded to each element (floats; integers ignore it)
pub fn fmt_expected_p<S: Scalar>(name: &str, lanes: &[S], debug: bool, prec: bool) -> String {
    let el: Vec<String> = lanes
        .iter()
        .map(|x| if debug { format!("{:?}", x) } else if prec && S::SC.is_float() { format!("{:.2}", x) } else { format!("{}", x) })
        .collect();
    if debug {
        format!("{}({})", name, el.join(", "))
    } else {
        format!("[{}]", el.join(", "))
    }
}

// ---------------------------------------------------------------- quaternions (4 lanes)
macro_rules! impl_quat_acc {
    ($Q:ident, $S:ident, $V4:ident, $free:ident) => {
        impl TV for $Q {
            type S = $S;
            const N: usize = 4;
            const NAME: &'static str = stringify!($Q);
            fn from_lanes(l: &[$S]) -> Self { $Q::from_xyzw(l[0], l[1], l[2], l[3]) }
            fn lanes(&self) -> Vec<$S> { self.to_array().to_vec() }
            fn from_slice_(s: &[$S]) -> Self { $Q::from_slice(s) }
            fn write_to_slice_(&self, s: &mut [$S]) { self.write_to_slice(s) }
        }
        impl Acc for $Q {
            fn ctor(path: &str, l: &[$S]) -> Option<Self> {
                Some(match path {
                    "new" => $Q::from_xyzw(l[0], l[1], l[2], l[3]),
                    "from_array" => $Q::from_array([l[0], l[1], l[2], l[3]]),
                    "from_slice" => $Q::from_slice(&[l[0], l[1], l[2], l[3], l[0], l[0]][..]),
                    "from_tuple" => $Q::from_vec4($V4::new(l[0], l[1], l[2], l[3])),
                    "free_fn" => $free(l[0], l[1], l[2], l[3]),
                    _ => return None,
                })
            }
            fn konst(name: &str) -> Option<Self> {
                match name {
                    "W" => Some($Q::IDENTITY),
                    "NAN" => Some($Q::NAN),
                    _ => None,
                }
            }
            fn write(&mut self, path: &str, lane: usize, v: $S) -> bool {
                match path {
                    "field" => match lane { 0 => self.x = v, 1 => self.y = v, 2 => self.z = v, _ => self.w = v },
                    _ => return false,
                }
                true
            }
            fn read(&self, path: &str) -> Option<Obs<$S>> {
                Some(match path {
                    "field" => Obs::Lanes(vec![self.x, self.y, self.z, self.w]),
                    "to_array" => Obs::Lanes(self.to_array().to_vec()),
                    "write_to_slice" => wts(self, 4, self.w),
                    "into_array" => { let a: [$S; 4] = (*self).into(); Obs::Lanes(a.to_vec()) }
                    "into_tuple" => { let t: ($S, $S, $S, $S) = (*self).into(); Obs::Lanes(vec![t.0, t.1, t.2, t.3]) }
                    "index" => { let v: $V4 = (*self).into(); Obs::Lanes(v.to_array().to_vec()) }
                    "as_ref" => { let a: &[$S; 4] = self.as_ref(); Obs::Lanes(a.to_vec()) }
                    "debug" => Obs::Text(format!("{:?}", self)),
                    "display" => Obs::Text(format!("{}", self)),
                    "display_prec" => Obs::Text(format!("{:.2}", self)),
                    _ => return None,
                })
            }
        }
    };
}
impl_quat_acc!(Quat, f32, Vec4, quat);
impl_quat_acc!(DQuat, f64, DVec4, dquat);
