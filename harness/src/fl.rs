//! The F domain: exact decoding/encoding between IEEE bit patterns and the
//! specification's (kind, sign, odd mantissa, exponent) scalars.
//! This is the trusted projection of DESIGN 3.3; it decides nothing else.

use serde_json::Value;

#[derive(Clone, Debug, PartialEq)]
pub enum Fl {
    Nan(bool),
    Inf(bool),
    Zero(bool),
    /// (-1)^s * m * 2^e, m odd
    Fin(bool, u64, i32),
    /// the specification declines to predict this lane
    Oom,
    /// the property leaves this lane unspecified
    Any,
}

fn ldexp(mut x: f64, mut e: i32) -> f64 {
    while e > 900 {
        x *= 2f64.powi(900);
        e -= 900;
    }
    while e < -900 {
        x *= 2f64.powi(-900);
        e += 900;
    }
    x * 2f64.powi(e)
}

impl Fl {
    pub fn parse(v: &Value) -> Fl {
        match v {
            Value::String(s) => {
                let (k, sg) = s.split_at(s.len() - 1);
                let sg = sg == "1";
                match k {
                    "nan" => Fl::Nan(sg),
                    "inf" => Fl::Inf(sg),
                    "zero" => Fl::Zero(sg),
                    "oom" => Fl::Oom,
                    "any" => Fl::Any,
                    _ => panic!("bad scalar {s}"),
                }
            }
            Value::Array(a) => Fl::Fin(
                a[0].as_i64().unwrap() == 1,
                a[1].as_u64().unwrap(),
                a[2].as_i64().unwrap() as i32,
            ),
            _ => panic!("bad scalar {v}"),
        }
    }
    pub fn to_json(&self) -> Value {
        match self {
            Fl::Nan(s) => Value::String(format!("nan{}", *s as u8)),
            Fl::Inf(s) => Value::String(format!("inf{}", *s as u8)),
            Fl::Zero(s) => Value::String(format!("zero{}", *s as u8)),
            Fl::Oom => Value::String("oom0".into()),
            Fl::Any => Value::String("any0".into()),
            Fl::Fin(s, m, e) => serde_json::json!([*s as u8, m, e]),
        }
    }
    pub fn is_skip(&self) -> bool {
        matches!(self, Fl::Oom | Fl::Any)
    }
    pub fn to_f64(&self) -> f64 {
        match self {
            Fl::Nan(s) => f64::from_bits(0x7ff8_0000_0000_0000 | ((*s as u64) << 63)),
            Fl::Inf(s) => {
                if *s {
                    f64::NEG_INFINITY
                } else {
                    f64::INFINITY
                }
            }
            Fl::Zero(s) => {
                if *s {
                    -0.0
                } else {
                    0.0
                }
            }
            Fl::Fin(s, m, e) => {
                let x = ldexp(*m as f64, *e);
                if *s {
                    -x
                } else {
                    x
                }
            }
            _ => panic!("no concrete value for {self:?}"),
        }
    }
    pub fn to_f32(&self) -> f32 {
        match self {
            Fl::Nan(s) => f32::from_bits(0x7fc0_0000 | ((*s as u32) << 31)),
            _ => {
                let x = self.to_f64();
                let y = x as f32;
                assert!(
                    (y as f64) == x || x.is_nan(),
                    "lattice value {self:?} is not representable in f32"
                );
                y
            }
        }
    }
    pub fn from_f64(x: f64) -> Fl {
        let b = x.to_bits();
        let s = (b >> 63) == 1;
        let ex = ((b >> 52) & 0x7ff) as i32;
        let fr = b & 0x000f_ffff_ffff_ffff;
        if ex == 0x7ff {
            return if fr == 0 { Fl::Inf(s) } else { Fl::Nan(s) };
        }
        if ex == 0 && fr == 0 {
            return Fl::Zero(s);
        }
        let (mut m, mut e) = if ex == 0 {
            (fr, -1074)
        } else {
            (fr | (1u64 << 52), ex - 1075)
        };
        let tz = m.trailing_zeros();
        m >>= tz;
        e += tz as i32;
        Fl::Fin(s, m, e)
    }
    pub fn from_f32(x: f32) -> Fl {
        if x.is_nan() {
            return Fl::Nan(x.to_bits() >> 31 == 1);
        }
        Fl::from_f64(x as f64)
    }
}

/// The equality the properties use: -0 == +0, NaN ~ NaN; Oom/Any match anything.
pub fn eqv(exp: &Fl, got: &Fl) -> bool {
    match (exp, got) {
        (Fl::Oom, _) | (Fl::Any, _) => true,
        (Fl::Nan(_), Fl::Nan(_)) => true,
        (Fl::Zero(_), Fl::Zero(_)) => true,
        (a, b) => a == b,
    }
}

/// Float scalar types of the library, with the Rust primitive for every named operation
/// (used to cross-check the specification itself: spec != primitive is a tool error).
pub trait Flt: Copy + PartialOrd + core::fmt::Debug + 'static {
    const NAME: &'static str;
    fn from_fl(f: &Fl) -> Self;
    fn to_fl(self) -> Fl;
    fn bits64(self) -> u64;
    fn from_bits64(b: u64) -> Self;
    fn prim1(self, op: &str) -> Option<Self>;
    fn prim2(self, b: Self, op: &str) -> Option<Self>;
    fn prim3(self, b: Self, c: Self, op: &str) -> Option<Self>;
    fn primcmp(self, b: Self, op: &str) -> bool;
}

macro_rules! impl_flt {
    ($t:ident, $name:literal, $from:ident, $to:ident) => {
        impl Flt for $t {
            const NAME: &'static str = $name;
            fn from_fl(f: &Fl) -> Self {
                f.$to()
            }
            fn to_fl(self) -> Fl {
                Fl::$from(self)
            }
            fn bits64(self) -> u64 {
                self.to_bits() as u64
            }
            fn from_bits64(b: u64) -> Self {
                Self::from_bits(b as _)
            }
            fn prim1(self, op: &str) -> Option<Self> {
                Some(match op {
                    "neg" => -self,
                    "abs" => self.abs(),
                    "signum" => self.signum(),
                    "floor" => self.floor(),
                    "ceil" => self.ceil(),
                    "trunc" => self.trunc(),
                    "round" => self.round(),
                    "fract" => self - self.trunc(),
                    "fract_gl" => self - self.floor(),
                    "recip" => 1.0 / self,
                    "exp" => self.exp(),
                    _ => return None,
                })
            }
            fn prim2(self, b: Self, op: &str) -> Option<Self> {
                Some(match op {
                    "add" => self + b,
                    "sub" => self - b,
                    "mul" => self * b,
                    "div" => self / b,
                    "rem" => self % b,
                    "min" => {
                        if self.is_nan() || b.is_nan() {
                            return None;
                        }
                        self.min(b)
                    }
                    "max" => {
                        if self.is_nan() || b.is_nan() {
                            return None;
                        }
                        self.max(b)
                    }
                    "copysign" => self.copysign(b),
                    "div_euclid" => self.div_euclid(b),
                    "rem_euclid" => self.rem_euclid(b),
                    "powf" => self.powf(b),
                    _ => return None,
                })
            }
            fn prim3(self, b: Self, c: Self, op: &str) -> Option<Self> {
                Some(match op {
                    "clamp" => {
                        if self.is_nan() || b.is_nan() || c.is_nan() || b > c {
                            return None;
                        }
                        self.clamp(b, c)
                    }
                    "mul_add" => self.mul_add(b, c),
                    _ => return None,
                })
            }
            fn primcmp(self, b: Self, op: &str) -> bool {
                match op {
                    "cmpeq" => self == b,
                    "cmpne" => self != b,
                    "cmplt" => self < b,
                    "cmple" => self <= b,
                    "cmpgt" => self > b,
                    "cmpge" => self >= b,
                    _ => panic!("cmp {op}"),
                }
            }
        }
    };
}
impl_flt!(f32, "f32", from_f32, to_f32);
impl_flt!(f64, "f64", from_f64, to_f64);

/// Start-up self test of the projection (DESIGN 3.3): decode . encode = identity.
pub fn selftest() {
    let mut x: u64 = 0x9E37_79B9_7F4A_7C15;
    for _ in 0..200_000 {
        x ^= x << 13;
        x ^= x >> 7;
        x ^= x << 17;
        let a = f32::from_bits(x as u32);
        let f = Fl::from_f32(a);
        let b = f.to_f32();
        assert!(
            a.to_bits() == b.to_bits() || (a.is_nan() && b.is_nan()),
            "f32 projection broken on {a:?}"
        );
        let c = f64::from_bits(x);
        let g = Fl::from_f64(c);
        let d = g.to_f64();
        assert!(
            c.to_bits() == d.to_bits() || (c.is_nan() && d.is_nan()),
            "f64 projection broken on {c:?}"
        );
    }
}
