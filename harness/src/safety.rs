//! Slice and index behaviour (C18 second half): exactly-sized heap buffers of canary tokens.
use crate::mt::MT;
use crate::tv::{tok_bits, Scalar, TV};
use crate::{catch, Report};
use glam::*;
use serde_json::{json, Value};

fn toks<S: Scalar>(v: &Value) -> Vec<S> {
    v.as_array().unwrap().iter().map(|x| S::from_u64(tok_bits(S::SC, x.as_str().unwrap()))).collect()
}
fn bits<S: Scalar>(v: &[S]) -> Vec<u64> { v.iter().map(|x| x.to_u64()).collect() }
fn exact_box<S: Scalar>(v: Vec<S>) -> Box<[S]> { v.into_boxed_slice() }
/// one more canary in front: the slice handed to glam then starts one element into the allocation (not 16-byte aligned)
fn canary_pad<S: Scalar>() -> S { S::from_u64(tok_bits(S::SC, "q3")) }
fn padded<S: Scalar>(c: &[S]) -> Vec<S> { let mut v = vec![canary_pad::<S>()]; v.extend_from_slice(c); v }

fn check(rep: &mut Report, c: &Value, ty: &str, what: &str, ok: bool, detail: String) {
    rep.evals += 1;
    if !ok {
        rep.mismatch(json!({"prop": "C18", "ty": ty, "op": what, "kind": c["c"]["kind"], "len": c["c"]["len"], "idx": c["c"]["idx"], "jdx": c["c"]["jdx"],
            "exp": c["exp"]["outcome"], "detail": detail, "case": c}));
    }
}

fn slice_vec<V: TV>(rep: &mut Report, c: &Value) {
    let k = &c["c"];
    let n = k["n"].as_u64().unwrap() as usize;
    let canary: Vec<V::S> = toks(&c["canary"]);
    let want_panic = c["exp"]["outcome"] == "panic";
    let exp_slice: Vec<V::S> = toks(&c["exp"]["slice"]);
    if k["kind"] == "write" {
        let val: Vec<V::S> = (1..=n).map(|i| V::S::from_u64(tok_bits(V::S::SC, &format!("t{i}")))).collect();
        for v in V::variants(&bits(&val)) {
            let mut buf = exact_box(canary.clone());
            let r = catch(|| v.write_to_slice_(&mut buf[..]));
            check(rep, c, V::NAME, "write_to_slice: panics iff the slice is too short", r.is_err() == want_panic, format!("{:?}", r.err()));
            check(rep, c, V::NAME, "write_to_slice: destination (first N written, rest and everything on panic untouched)", bits(&buf) == bits(&exp_slice), format!("{:x?}", bits(&buf)));
            // the same into a slice that starts one element into its allocation: a slice is only aligned like its element type
            let mut off = exact_box(padded(&canary));
            let r = catch(|| v.write_to_slice_(&mut off[1..]));
            check(rep, c, V::NAME, "write_to_slice (slice at element offset 1): panics iff the slice is too short", r.is_err() == want_panic, format!("{:?}", r.err()));
            check(rep, c, V::NAME, "write_to_slice (slice at element offset 1): destination", bits(&off[1..]) == bits(&exp_slice) && off[0].to_u64() == canary_pad::<V::S>().to_u64(), format!("{:x?}", bits(&off)));
        }
    } else {
        let buf = exact_box(canary.clone());
        let r = catch(|| V::from_slice_(&buf[..]));
        check(rep, c, V::NAME, "from_slice: panics iff the slice is too short", r.is_err() == want_panic, String::new());
        if let Ok(v) = r {
            let ev: Vec<V::S> = toks(&c["exp"]["value"]);
            check(rep, c, V::NAME, "from_slice: reads exactly the first N elements", v.to_bits() == bits(&ev), format!("{:x?}", v.to_bits()));
        }
        let off = exact_box(padded(&canary));
        let r = catch(|| V::from_slice_(&off[1..]));
        check(rep, c, V::NAME, "from_slice (slice at element offset 1): panics iff the slice is too short", r.is_err() == want_panic, String::new());
        if let Ok(v) = r {
            let ev: Vec<V::S> = toks(&c["exp"]["value"]);
            check(rep, c, V::NAME, "from_slice (slice at element offset 1): reads exactly the first N elements", v.to_bits() == bits(&ev), format!("{:x?}", v.to_bits()));
        }
    }
}
fn slice_mat<M: MT>(rep: &mut Report, c: &Value) {
    let k = &c["c"];
    let n = k["n"].as_u64().unwrap() as usize;
    let canary: Vec<M::S> = toks(&c["canary"]);
    let want_panic = c["exp"]["outcome"] == "panic";
    let exp_slice: Vec<M::S> = toks(&c["exp"]["slice"]);
    if k["kind"] == "write" {
        let val: Vec<M::S> = (1..=n).map(|i| M::S::from_u64(tok_bits(M::S::SC, &format!("t{i}")))).collect();
        let m = M::from_flat(&val);
        let mut buf = exact_box(canary.clone());
        let r = catch(|| m.write_cols_to_slice_(&mut buf[..]));
        check(rep, c, M::NAME, "write_cols_to_slice: panics iff the slice is too short", r.is_err() == want_panic, format!("{:?}", r.err()));
        check(rep, c, M::NAME, "write_cols_to_slice: destination (first N written, rest and everything on panic untouched)", bits(&buf) == bits(&exp_slice), format!("{:x?}", bits(&buf)));
        let mut off = exact_box(padded(&canary));
        let r = catch(|| m.write_cols_to_slice_(&mut off[1..]));
        check(rep, c, M::NAME, "write_cols_to_slice (slice at element offset 1): panics iff the slice is too short", r.is_err() == want_panic, format!("{:?}", r.err()));
        check(rep, c, M::NAME, "write_cols_to_slice (slice at element offset 1): destination", bits(&off[1..]) == bits(&exp_slice) && off[0].to_u64() == canary_pad::<M::S>().to_u64(), format!("{:x?}", bits(&off)));
    } else {
        let buf = exact_box(canary.clone());
        let r = catch(|| M::from_cols_slice_(&buf[..]));
        check(rep, c, M::NAME, "from_cols_slice: panics iff the slice is too short", r.is_err() == want_panic, String::new());
        if let Ok(m) = r {
            let ev: Vec<M::S> = toks(&c["exp"]["value"]);
            check(rep, c, M::NAME, "from_cols_slice: reads exactly the first N elements", bits(&m.flat()) == bits(&ev), String::new());
        }
        let off = exact_box(padded(&canary));
        let r = catch(|| M::from_cols_slice_(&off[1..]));
        check(rep, c, M::NAME, "from_cols_slice (slice at element offset 1): panics iff the slice is too short", r.is_err() == want_panic, String::new());
        if let Ok(m) = r {
            let ev: Vec<M::S> = toks(&c["exp"]["value"]);
            check(rep, c, M::NAME, "from_cols_slice (slice at element offset 1): reads exactly the first N elements", bits(&m.flat()) == bits(&ev), String::new());
        }
    }
}
fn index_vec<V: TV>(rep: &mut Report, c: &Value) {
    let k = &c["c"];
    let n = k["n"].as_u64().unwrap() as usize;
    let i = k["idx"].as_u64().unwrap();
    let idx = if i == 99 { usize::MAX } else { i as usize };
    let want_panic = c["exp"]["outcome"] == "panic";
    let val: Vec<V::S> = (1..=n).map(|j| V::S::from_u64(tok_bits(V::S::SC, &format!("t{j}")))).collect();
    for v in V::variants(&bits(&val)) {
        if k["kind"] == "index" {
            let r = catch(|| v.index_(idx));
            if let Ok(None) = r { return; }
            check(rep, c, V::NAME, "Index: panics iff the index is out of range", r.is_err() == want_panic, String::new());
            if let Ok(Some(x)) = r { if idx < n { check(rep, c, V::NAME, "Index: returns that lane", x.to_u64() == val[idx].to_u64(), String::new()); } }
        } else {
            let mut w = v;
            let q = V::S::from_u64(tok_bits(V::S::SC, "q1"));
            let r = catch(|| w.index_mut_(idx, q));
            if let Ok(false) = r { return; }
            check(rep, c, V::NAME, "IndexMut: panics iff the index is out of range", r.is_err() == want_panic, String::new());
            let mut e = bits(&val);
            if !want_panic && idx < n { e[idx] = q.to_u64(); }
            check(rep, c, V::NAME, "IndexMut: changes exactly that lane (nothing on panic)", w.to_bits() == e, format!("{:x?}", w.to_bits()));
        }
    }
}
fn index_mat<M: MT>(rep: &mut Report, c: &Value) {
    let k = &c["c"];
    let i = k["idx"].as_u64().unwrap();
    let idx = if i == 99 { usize::MAX } else { i as usize };
    let want_panic = c["exp"]["outcome"] == "panic";
    let val: Vec<M::S> = (1..=M::R * M::C).map(|j| M::S::from_u64(tok_bits(M::S::SC, &format!("t{j}")))).collect();
    let m = M::from_flat(&val);
    let kind = k["kind"].as_str().unwrap();
    match kind {
        "col" => {
            let r = catch(|| m.col_(idx));
            if let Ok(None) = r { return; }
            check(rep, c, M::NAME, "col: panics iff the index is out of range", r.is_err() == want_panic, String::new());
            if let Ok(Some(v)) = r { if idx < M::C { check(rep, c, M::NAME, "col: returns that column", bits(&v) == bits(&val[idx * M::R..(idx + 1) * M::R]), String::new()); } }
        }
        "col_mut" => {
            let mut w = m;
            let r = catch(|| w.col_mut_(idx));
            if let Ok(false) = r { return; }
            check(rep, c, M::NAME, "col_mut: panics iff the index is out of range", r.is_err() == want_panic, String::new());
        }
        _ => {
            let r = catch(|| m.row_(idx));
            if let Ok(None) = r { return; }
            check(rep, c, M::NAME, "row: panics iff the index is out of range", r.is_err() == want_panic, String::new());
            if let (Ok(Some(v)), true) = (r, idx < M::R) {
                let e: Vec<u64> = (0..M::C).map(|cc| val[cc * M::R + idx].to_u64()).collect();
                check(rep, c, M::NAME, "row: returns that row", bits(&v) == e, String::new());
            }
        }
    }
}

pub fn run_case(rep: &mut Report, c: &Value) {
    let k = &c["c"];
    let cls = k["cls"].as_str().unwrap();
    let kind = k["kind"].as_str().unwrap();
    rep.count_op(&format!("{kind}:{cls}"), 1);
    if rep.samples.len() < 3 && rep.evals % 97 == 0 { rep.samples.push(c.clone()); }
    macro_rules! sv { ($V:ident) => { slice_vec::<$V>(rep, c) }; }
    macro_rules! iv { ($V:ident) => { index_vec::<$V>(rep, c) }; }
    match (kind, cls) {
        ("write" | "from", "vec2") => { crate::for_tv2!(sv); }
        ("write" | "from", "vec3") => { crate::for_tv3!(sv); }
        ("write" | "from", "vec4") => { crate::for_tv4!(sv); }
        ("write" | "from", "quat") => { slice_vec::<Quat>(rep, c); slice_vec::<DQuat>(rep, c); }
        ("write" | "from", "mat2") => { slice_mat::<Mat2>(rep, c); slice_mat::<DMat2>(rep, c); }
        ("write" | "from", "mat3") => { slice_mat::<Mat3>(rep, c); slice_mat::<Mat3A>(rep, c); slice_mat::<DMat3>(rep, c); }
        ("write" | "from", "mat4") => { slice_mat::<Mat4>(rep, c); slice_mat::<DMat4>(rep, c); }
        ("write" | "from", "aff2") => { slice_mat::<Affine2>(rep, c); slice_mat::<DAffine2>(rep, c); }
        ("write" | "from", "aff3") => { slice_mat::<Affine3A>(rep, c); slice_mat::<DAffine3>(rep, c); }
        ("index" | "index_mut", "vec2") => { crate::for_tv2!(iv); }
        ("index" | "index_mut", "vec3") => { crate::for_tv3!(iv); }
        ("index" | "index_mut", "vec4") => { crate::for_tv4!(iv); }
        ("col" | "col_mut" | "row", "mat2") => { index_mat::<Mat2>(rep, c); index_mat::<DMat2>(rep, c); }
        ("col" | "col_mut" | "row", "mat3") => { index_mat::<Mat3>(rep, c); index_mat::<Mat3A>(rep, c); index_mat::<DMat3>(rep, c); }
        ("col" | "col_mut" | "row", "mat4") => { index_mat::<Mat4>(rep, c); index_mat::<DMat4>(rep, c); }
        ("minor", _) => {
            let f = |x: u64| if x == 99 { usize::MAX } else { x as usize };
            let (i, j) = (f(k["idx"].as_u64().unwrap()), f(k["jdx"].as_u64().unwrap()));
            let want_panic = c["exp"]["outcome"] == "panic";
            let mut rs: Vec<(&str, bool)> = vec![];
            if cls == "mat3" {
                rs.push(("Mat2::from_mat3_minor", catch(|| Mat2::from_mat3_minor(Mat3::IDENTITY, i, j)).is_err()));
                rs.push(("Mat2::from_mat3a_minor", catch(|| Mat2::from_mat3a_minor(Mat3A::IDENTITY, i, j)).is_err()));
                rs.push(("DMat2::from_mat3_minor", catch(|| DMat2::from_mat3_minor(DMat3::IDENTITY, i, j)).is_err()));
            } else {
                rs.push(("Mat3::from_mat4_minor", catch(|| Mat3::from_mat4_minor(Mat4::IDENTITY, i, j)).is_err()));
                rs.push(("Mat3A::from_mat4_minor", catch(|| Mat3A::from_mat4_minor(Mat4::IDENTITY, i, j)).is_err()));
                rs.push(("DMat3::from_mat4_minor", catch(|| DMat3::from_mat4_minor(DMat4::IDENTITY, i, j)).is_err()));
            }
            for (w, p) in rs { check(rep, c, w, "minor: panics iff an index is out of range", p == want_panic, String::new()); }
        }
        _ => panic!("safety case {kind} {cls}"),
    }
}
