//! Conformance harness: binds the TLA+ specification in /verif/spec to the glam working tree.
//! Replay direction: read the `CASE` lines TLC printed, run the real code, compare.
//! Record direction: drive the real code with seeded random inputs, log one event per call.
#![allow(unused_variables, unused_macros, clippy::all)]

pub mod fl;
pub mod fvec;
pub mod tv;
pub mod acc;
pub mod ivec;
pub mod mt;
pub mod conv_gen;
pub mod safe_gen;
pub mod safety;
pub mod chain_gen;
pub mod swz_gen;
pub mod bm;

use serde_json::{json, Value};
use std::io::{BufRead, Write};

/// Name of the build configuration this binary was compiled in (set by the driver).
pub fn cfg_name() -> String {
    std::env::var("HX_CFG").unwrap_or_else(|_| "unknown".into())
}

/// Iterate over the JSON payloads of TLC's `<<"TAG", "{...}">>` lines in a file.
pub fn read_cases(path: &str, tag: &str, mut f: impl FnMut(Value)) {
    let file = std::fs::File::open(path).unwrap_or_else(|e| panic!("open {path}: {e}"));
    let rd = std::io::BufReader::with_capacity(1 << 20, file);
    let prefix = format!("<<\"{tag}\", \"");
    for line in rd.lines() {
        let line = line.unwrap();
        if let Some(rest) = line.strip_prefix(&prefix) {
            let inner = rest.strip_suffix("\">>").expect("unterminated CASE line");
            // TLC prints the string with \" and \\ escapes: undo them
            let mut s = String::with_capacity(inner.len());
            let mut it = inner.chars();
            while let Some(c) = it.next() {
                if c == '\\' {
                    match it.next() {
                        Some('n') => s.push('\n'),
                        Some('t') => s.push('\t'),
                        Some(o) => s.push(o),
                        None => {}
                    }
                } else {
                    s.push(c);
                }
            }
            let v: Value = serde_json::from_str(&s).unwrap_or_else(|e| panic!("json {e}: {s}"));
            f(v);
        } else if line.starts_with('{') {
            // plain ndjson (replay files written by the driver)
            let v: Value = serde_json::from_str(&line).unwrap();
            f(v);
        }
    }
}

/// Accumulates what a replay run covered and what it found.
pub struct Report {
    pub cfg: String,
    pub cases: u64,
    pub nontrivial: u64,
    pub evals: u64,
    pub lanes_skipped: u64,
    pub lanes_checked: u64,
    pub mismatches: Vec<Value>,
    pub mismatch_count: u64,
    pub spec_errors: Vec<Value>,
    pub spec_error_count: u64,
    pub samples: Vec<Value>,
    pub per_op: std::collections::BTreeMap<String, u64>,
    pub extra_text: Vec<String>,
    pub max_keep: usize,
}

impl Report {
    pub fn new() -> Self {
        Report {
            cfg: cfg_name(),
            cases: 0,
            nontrivial: 0,
            evals: 0,
            lanes_skipped: 0,
            lanes_checked: 0,
            mismatches: vec![],
            mismatch_count: 0,
            spec_errors: vec![],
            spec_error_count: 0,
            samples: vec![],
            per_op: Default::default(),
            extra_text: vec![],
            max_keep: 400,
        }
    }
    /// the implementation disagrees with the specification
    pub fn mismatch(&mut self, mut v: Value) {
        self.mismatch_count += 1;
        if self.mismatches.len() < self.max_keep {
            v["cfg"] = json!(self.cfg);
            self.mismatches.push(v);
        }
    }
    /// the specification disagrees with the Rust primitive: a defect of the oracle (tool error)
    pub fn spec_error(&mut self, v: Value) {
        self.spec_error_count += 1;
        if self.spec_errors.len() < 50 {
            self.spec_errors.push(v);
        }
    }
    pub fn count_op(&mut self, key: &str, n: u64) {
        *self.per_op.entry(key.to_string()).or_insert(0) += n;
    }
    pub fn write(&self, path: &str) {
        let v = json!({
            "cfg": self.cfg, "cases": self.cases, "evals": self.evals, "nontrivial": self.nontrivial,
            "lanes_checked": self.lanes_checked, "lanes_skipped": self.lanes_skipped,
            "mismatch_count": self.mismatch_count, "mismatches": self.mismatches,
            "spec_error_count": self.spec_error_count, "spec_errors": self.spec_errors,
            "samples": self.samples, "per_op": self.per_op,
        });
        let mut f = std::fs::File::create(path).unwrap();
        f.write_all(serde_json::to_string(&v).unwrap().as_bytes()).unwrap();
    }
}

/// Run `f`, turning a panic into `Err(message)`. Panics in code under test are data.
pub fn catch<T>(f: impl FnOnce() -> T) -> Result<T, String> {
    match std::panic::catch_unwind(std::panic::AssertUnwindSafe(f)) {
        Ok(v) => Ok(v),
        Err(e) => Err(if let Some(s) = e.downcast_ref::<&str>() {
            s.to_string()
        } else if let Some(s) = e.downcast_ref::<String>() {
            s.clone()
        } else {
            "panic".into()
        }),
    }
}

pub fn quiet_panics() {
    if std::env::var("HX_LOUD").is_ok() {
        return;
    }
    std::panic::set_hook(Box::new(|_| {}));
}

/// xorshift generator for the record drivers (seeded by VERIF_SEED)
pub struct Rng(pub u64);
impl Rng {
    pub fn new(seed: u64) -> Self {
        Rng(seed.wrapping_mul(0x9E37_79B9_7F4A_7C15) | 1)
    }
    pub fn next(&mut self) -> u64 {
        let mut x = self.0;
        x ^= x << 13;
        x ^= x >> 7;
        x ^= x << 17;
        self.0 = x;
        x.wrapping_mul(0x2545_F491_4F6C_DD1D)
    }
    pub fn below(&mut self, n: u64) -> u64 {
        self.next() % n
    }
}

/// property label for mismatches (a family can serve several properties): HX_PROP or the default
pub fn prop_name(default: &str) -> String {
    std::env::var("HX_PROP").unwrap_or_else(|_| default.to_string())
}
/// HX_KINDS = comma list of `kind` or `kind:op-prefix` selectors restricting which cases are replayed
pub fn kind_enabled(kind: &str, op: &str) -> bool {
    match std::env::var("HX_KINDS") {
        Err(_) => true,
        Ok(l) => l.split(',').any(|sel| match sel.split_once(':') {
            Some((k, o)) => k == kind && op.starts_with(o),
            None => sel == kind,
        }),
    }
}
