//! Replay of family `int` (C13): integer vector operations against the IntLane specification,
//! in the build profile this binary was compiled with (debug: overflow checks; release: wrap).

use hx::ivec::{Out, Spelled, VOut, IS, IV};
use hx::*;
use serde_json::{json, Value};

fn zdec(v: &Value) -> Option<i128> {
    let a = v.as_array().unwrap();
    let s = a[0].as_i64().unwrap();
    if s == 9 {
        return None; // unspecified lane
    }
    let mut m: i128 = 0;
    for (i, l) in a[1..].iter().enumerate() {
        m |= (l.as_u64().unwrap() as i128) << (8 * i);
    }
    Some(if s == 1 { -m } else { m })
}
fn zvec(v: &Value) -> Vec<i128> {
    v.as_array().unwrap().iter().map(|x| zdec(x).unwrap()).collect()
}
fn pick<T: Clone>(v: &[T], r: usize, n: usize) -> Vec<T> {
    (0..n).map(|i| v[(r + i) % v.len()].clone()).collect()
}

#[derive(Debug, Clone, PartialEq)]
enum Exp {
    Val(Vec<Option<i128>>),
    None,
    Panic,
}
fn exp_vec(e: &Value) -> Exp {
    match e["k"].as_str().unwrap() {
        "panic" => Exp::Panic,
        "none" => Exp::None,
        _ => Exp::Val(e["v"].as_array().unwrap().iter().map(zdec).collect()),
    }
}
fn exp_scalar(e: &Value) -> Exp {
    match e["k"].as_str().unwrap() {
        "panic" => Exp::Panic,
        "none" => Exp::None,
        "any" => Exp::Val(vec![None]),
        _ => Exp::Val(vec![zdec(&e["v"])]),
    }
}
/// restrict a 4-lane expectation to lanes (r+i)%4, i<n: panic / None iff some selected lane does
fn exp_lanes(c: &Value, prof: &str, lanes_dbg: &[Exp1], r: usize, n: usize) -> Exp {
    let _ = (c, prof);
    let sel = pick(lanes_dbg, r, n);
    if sel.iter().any(|x| matches!(x, Exp1::Panic)) {
        Exp::Panic
    } else if sel.iter().any(|x| matches!(x, Exp1::None)) {
        Exp::None
    } else {
        Exp::Val(sel.iter().map(|x| if let Exp1::Val(v) = x { *v } else { None }).collect())
    }
}
#[derive(Debug, Clone, PartialEq)]
enum Exp1 {
    Val(Option<i128>),
    None,
    Panic,
}

struct Cx<'a> {
    rep: &'a mut Report,
    prof: &'static str,
    only_ty: Option<String>,
}

fn report<V: IV>(cx: &mut Cx, c: &Value, sp: &str, rot: usize, args: Value, exp: &Exp, got: &Exp) {
    cx.rep.evals += 1;
    let ok = match (exp, got) {
        (Exp::Val(e), Exp::Val(g)) => e.len() == g.len() && e.iter().zip(g).all(|(a, b)| a.is_none() || a == b),
        (a, b) => a == b,
    };
    if !ok {
        cx.rep.mismatch(json!({"prop": hx::prop_name("C13"), "ty": V::NAME, "op": c["op"], "kind": c["kind"], "spelling": sp,
            "rot": rot, "profile": cx.prof, "args": args, "exp": format!("{:?}", exp), "got": format!("{:?}", got), "case": c}));
    }
}
fn got_of(r: Result<Spelled<VOut>, String>) -> Vec<(&'static str, Exp)> {
    match r {
        Err(_) => vec![("any", Exp::Panic)],
        Ok(rs) => rs
            .into_iter()
            .map(|(sp, v)| (sp, match v { VOut::Panic => Exp::Panic, VOut::None => Exp::None, VOut::Val(l) => Exp::Val(l.into_iter().map(Some).collect()) }))
            .collect(),
    }
}

/// per-lane outcomes of the 4-lane expectation are not emitted by TLC (only the vector outcome),
/// so the harness recomputes the per-lane primitive outcome itself for rotations with fewer
/// lanes -- using the Rust primitive, which the spec is cross-checked against on the full 4 lanes.
fn lane_prims<V: IV>(kind: &str, op: &str, a: &[i128], b: &[i128], sc: Option<i128>) -> Vec<Exp1> {
    (0..4)
        .map(|l| {
            let x = <V::S as IS>::of(a[l]);
            let o = match kind {
                "u" => x.prim1(op),
                "b" => x.prim2(<V::S as IS>::of(b[l]), op),
                "vs" => x.prim2(<V::S as IS>::of(sc.unwrap()), op),
                "sv" => <V::S as IS>::of(sc.unwrap()).prim2(x, op),
                "m" => x.prim_mixed(b[l], op),
                _ => None,
            };
            match o {
                Some(Out::Val(v)) => Exp1::Val(Some(v)),
                Some(Out::None) => Exp1::None,
                Some(Out::Panic) => Exp1::Panic,
                None => Exp1::Val(None),
            }
        })
        .collect()
}

fn run_case<V: IV>(cx: &mut Cx, c: &Value) {
    if let Some(t) = &cx.only_ty {
        if t != V::NAME {
            return;
        }
    }
    let kind = c["kind"].as_str().unwrap();
    let op = c["op"].as_str().unwrap();
    let a = c["args"].as_array().unwrap();
    let e = &c["exp"][cx.prof];
    let n = V::N;
    match kind {
        "u" | "b" | "vs" | "sv" | "m" | "sh" | "shv" | "t" | "f" => {
            if kind == "m" && !V::HAS_MIXED {
                return;
            }
            // operands
            let va = if kind == "sv" { zvec(&a[1]) } else if kind == "f" { vec![0; 4] } else { zvec(&a[0]) };
            let vb = match kind {
                "b" | "m" | "shv" | "t" => zvec(&a[1]),
                _ => vec![0; 4],
            };
            let sc = match kind {
                "vs" | "sh" => zdec(&a[1]),
                "sv" => zdec(&a[0]),
                _ => None,
            };
            // the specification's per-lane outcomes
            let spec_lanes: Vec<Exp1> = e.as_array().unwrap().iter().map(|l| match l["k"].as_str().unwrap() {
                "panic" => Exp1::Panic,
                "none" => Exp1::None,
                "any" => Exp1::Val(None),
                _ => Exp1::Val(zdec(&l["v"])),
            }).collect();
            // cross-check of the oracle: IntLane must agree with the Rust primitive on every lane
            if matches!(kind, "u" | "b" | "vs" | "sv" | "m") {
                let p = lane_prims::<V>(kind, op, &va, &vb, sc);
                for l in 0..4 {
                    let agree = match (&spec_lanes[l], &p[l]) {
                        (Exp1::Val(None), _) | (_, Exp1::Val(None)) => true,
                        (x, y) => x == y,
                    };
                    if !agree {
                        cx.rep.spec_error(json!({"what": "IntLane disagrees with the Rust primitive", "ty": V::NAME,
                            "op": op, "kind": kind, "profile": cx.prof, "args": a, "lane": l,
                            "spec": format!("{:?}", spec_lanes[l]), "prim": format!("{:?}", p[l])}));
                        return;
                    }
                }
            }
            let prims = Some(spec_lanes);
            let rots = 4;
            for r in 0..rots {
                let la = pick(&va, r, n);
                let lb = pick(&vb, r, n);
                let exp = exp_lanes(c, cx.prof, prims.as_ref().unwrap(), r, n);
                let x = V::from_i(&la);
                let (args, res): (Value, Result<Spelled<VOut>, String>) = match kind {
                    "u" => (json!([la]), catch(|| x.un(op))),
                    "b" => { let y = V::from_i(&lb); (json!([la, lb]), catch(|| x.bin(y, op))) }
                    "vs" => { let s = <V::S as IS>::of(sc.unwrap()); (json!([la, sc]), catch(|| x.bin_vs(s, op))) }
                    "sv" => { let s = <V::S as IS>::of(sc.unwrap()); (json!([sc, la]), catch(|| V::bin_sv(s, x, op))) }
                    "m" => (json!([la, lb]), catch(|| x.mixed(&lb, op))),
                    "sh" => (json!([la, sc]), catch(|| x.shift(sc.unwrap(), op))),
                    "shv" => (json!([la, lb]), catch(|| x.shift_v(&lb, op))),
                    "t" => {
                        let lc = pick(&zvec(&a[2]), r, n);
                        let y = V::from_i(&lb);
                        let z = V::from_i(&lc);
                        (json!([la, lb, lc]), catch(|| vec![("method", x.clamp_(y, z))]))
                    }
                    "f" => {
                        let seq = a[0].as_array().unwrap();
                        let vs: Vec<V> = seq.iter().map(|v| V::from_i(&pick(&zvec(v), r, n))).collect();
                        (json!(seq), catch(|| if op == "sum" { V::sum_(&vs) } else { V::product_(&vs) }))
                    }
                    _ => unreachable!(),
                };
                for (sp, g) in got_of(res) {
                    // `clamp` with min > max carries a glam_assert only: outcome unspecified
                    report::<V>(cx, c, sp, r, args.clone(), &exp, &g);
                }
            }
        }
        "c" | "b_cmp" => {}
        "r1" | "r2" => {
            let key = format!("n{n}");
            let exp = exp_scalar(&e[&key]);
            let la = pick(&zvec(&a[0]), 0, n);
            let x = V::from_i(&la);
            let (args, got) = if kind == "r1" {
                (json!([la]), x.red1(op))
            } else {
                let lb = pick(&zvec(&a[1]), 0, n);
                (json!([la, lb]), x.red2(V::from_i(&lb), op))
            };
            let Some(g) = got else { return };
            let g = match g { Out::Val(v) => Exp::Val(vec![Some(v)]), Out::None => Exp::None, Out::Panic => Exp::Panic };
            report::<V>(cx, c, "method", 0, args, &exp, &g);
        }
        "x" => {
            if n != 3 { return; }
            let la = pick(&zvec(&a[0]), 0, 3);
            let lb = pick(&zvec(&a[1]), 0, 3);
            let exp = exp_vec(e);
            let x = V::from_i(&la);
            let y = V::from_i(&lb);
            let g = match catch(|| x.cross_(y)) { Err(_) | Ok(Some(VOut::Panic)) => Exp::Panic, Ok(Some(VOut::Val(l))) => Exp::Val(l.into_iter().map(Some).collect()), Ok(_) => return };
            report::<V>(cx, c, "method", 0, json!([la, lb]), &exp, &g);
        }
        _ => panic!("kind {kind}"),
    }
}

fn run_cmp<V: IV>(cx: &mut Cx, c: &Value) {
    // comparison operators arrive as kind "b" with a cmp op: value lanes are 0/1
    let op = c["op"].as_str().unwrap();
    let a = c["args"].as_array().unwrap();
    let ev: Vec<Option<i128>> = c["exp"][cx.prof].as_array().unwrap().iter().map(|l| zdec(&l["v"])).collect();
    let n = V::N;
    for r in 0..4 {
        let la = pick(&zvec(&a[0]), r, n);
        let lb = pick(&zvec(&a[1]), r, n);
        let le = pick(&ev, r, n);
        let x = V::from_i(&la);
        let y = V::from_i(&lb);
        for (sp, g) in x.cmp(y, op) {
            cx.rep.evals += 1;
            let gv: Vec<Option<i128>> = g.iter().map(|b| Some(*b as i128)).collect();
            if gv != le {
                cx.rep.mismatch(json!({"prop": hx::prop_name("C13"), "ty": V::NAME, "op": op, "kind": "b", "spelling": sp, "rot": r,
                    "args": [la, lb], "exp": format!("{:?}", le), "got": format!("{:?}", gv), "case": c}));
            }
        }
    }
}

fn main() {
    let args: Vec<String> = std::env::args().collect();
    quiet_panics();
    let mut rep = Report::new();
    // which overflow profile was this binary (and glam) compiled with?
    let checks = catch(|| {
        let x: i8 = std::hint::black_box(127);
        x + std::hint::black_box(1)
    })
    .is_err();
    let prof = if checks { "dbg" } else { "rel" };
    let mut cx = Cx { rep: &mut rep, prof, only_ty: std::env::var("HX_ONLY_TY").ok() };
    let mut n = 0u64;
    read_cases(&args[1], "CASE", |c| {
        if c["fam"] != "int" || !hx::kind_enabled(c["kind"].as_str().unwrap(), c["op"].as_str().unwrap()) {
            return;
        }
        n += 1;
        cx.rep.nontrivial += 1;
        let ty = c["ty"].as_str().unwrap().to_string();
        let op = c["op"].as_str().unwrap();
        cx.rep.count_op(&format!("{}:{}:{}", ty, c["kind"].as_str().unwrap(), op), 1);
        if cx.rep.samples.len() < 3 && n % 4999 == 1 {
            cx.rep.samples.push(c.clone());
        }
        if op.starts_with("cmp") {
            hx::for_iv_of!(ty.as_str(), run_cmp(&mut cx, &c));
        } else {
            hx::for_iv_of!(ty.as_str(), run_case(&mut cx, &c));
        }
    });
    rep.cases = n;
    rep.write(&args[2]);
    println!("int[{} {}]: cases={} evals={} mismatches={} spec_errors={}", rep.cfg, prof, rep.cases, rep.evals, rep.mismatch_count, rep.spec_error_count);
}
