//! Replay of family `fold` (MC_Fold.tla): Sum / Product over iterators of 0..4 items, by value and by reference, on every numeric
//! vector type, the square matrices, the quaternions and the affine transforms.  The expected value is the specification's accumulator.

use glam::*;
use hx::tv::{Sc, Scalar, TV};
use hx::*;
use serde_json::{json, Value};
use std::iter::{Product, Sum};

fn ints(v: &Value) -> Vec<i64> { v.as_array().unwrap().iter().map(|x| x.as_i64().unwrap()).collect() }
fn val_bits(sc: Sc, x: i64) -> u64 {
    match sc { Sc::F32 => (x as f32).to_bits() as u64, Sc::F64 => (x as f64).to_bits(), _ => (x as u64) & sc.mask() }
}
struct Cx<'a> { rep: &'a mut Report, prop: String, only: Option<String> }

fn judge(cx: &mut Cx, c: &Value, ty: &str, sp: &str, exp: &[f64], got: Result<Vec<f64>, String>) {
    cx.rep.evals += 1;
    let ok = match &got { Ok(g) => g.len() == exp.len() && g.iter().zip(exp).all(|(a, b)| a == b)   /* the specification's integers have one zero */, Err(_) => false };
    if !ok {
        cx.rep.mismatch(json!({"prop": cx.prop, "ty": ty, "op": format!("{} of {} items", c["op"].as_str().unwrap(), c["len"]), "spelling": sp,
            "exp": exp, "got": match got { Ok(g) => json!(g), Err(p) => json!({"panic": p}) }, "case": c}));
    }
}
fn guarded<F: FnOnce() -> Vec<f64> + std::panic::UnwindSafe>(f: F) -> Result<Vec<f64>, String> {
    std::panic::catch_unwind(f).map_err(|e| e.downcast_ref::<String>().cloned().or_else(|| e.downcast_ref::<&str>().map(|s| s.to_string())).unwrap_or_default())
}

/// the four spellings of one fold on a type T whose values are observed as f64 sequences
fn run_ty<T>(cx: &mut Cx, c: &Value, name: &str, items: &[T], obs: fn(&T) -> Vec<f64>, exp: &[f64])
where T: Copy + Sum<T> + for<'a> Sum<&'a T> + Product<T> + for<'a> Product<&'a T> + std::panic::RefUnwindSafe {
    if let Some(o) = &cx.only { if o != name { return; } }
    if c["op"] == "sum" {
        judge(cx, c, name, "items.iter().sum()", exp, guarded(|| obs(&items.iter().sum::<T>())));
        judge(cx, c, name, "items.iter().copied().sum()", exp, guarded(|| obs(&items.iter().copied().sum::<T>())));
        judge(cx, c, name, "items.to_vec().into_iter().sum()", exp, guarded(|| obs(&items.to_vec().into_iter().sum::<T>())));
    } else {
        judge(cx, c, name, "items.iter().product()", exp, guarded(|| obs(&items.iter().product::<T>())));
        judge(cx, c, name, "items.iter().copied().product()", exp, guarded(|| obs(&items.iter().copied().product::<T>())));
        judge(cx, c, name, "items.to_vec().into_iter().product()", exp, guarded(|| obs(&items.to_vec().into_iter().product::<T>())));
    }
}
/// affine transforms only implement Product over references
fn run_prod<T>(cx: &mut Cx, c: &Value, name: &str, items: &[T], obs: fn(&T) -> Vec<f64>, exp: &[f64])
where T: Copy + for<'a> Product<&'a T> + std::panic::RefUnwindSafe {
    if let Some(o) = &cx.only { if o != name { return; } }
    judge(cx, c, name, "items.iter().product()", exp, guarded(|| obs(&items.iter().product::<T>())));
    let v = items.to_vec();
    judge(cx, c, name, "vec.iter().rev().rev().product()", exp, guarded(|| obs(&v.iter().rev().rev().product::<T>())));
}

fn f64s<S: Into<f64> + Copy>(v: &[S]) -> Vec<f64> { v.iter().map(|x| (*x).into()).collect() }

fn main() {
    let args: Vec<String> = std::env::args().collect();
    quiet_panics();
    let mut rep = Report::new();
    let algs: Option<Vec<String>> = std::env::var("HX_ALGS").ok().map(|s| s.split(',').map(|x| x.to_string()).collect());
    let mut cx = Cx { rep: &mut rep, prop: std::env::var("HX_PROP").unwrap_or("C03".into()), only: std::env::var("HX_ONLY_TY").ok() };
    let scal = std::env::var("HX_SCALAR").unwrap_or_default();
    let mut n = 0u64;
    read_cases(&args[1], "CASE", |c| {
        if c["fam"] != "fold" { return; }
        let alg = c["alg"].as_str().unwrap();
        if let Some(a) = &algs { if !a.iter().any(|x| x == alg) { return; } }
        n += 1;
        if c["len"].as_u64().unwrap() != 1 { cx.rep.nontrivial += 1; }
        let k = c["n"].as_u64().unwrap() as usize;
        cx.rep.count_op(&format!("fold:{}:{}:{}", alg, c["op"].as_str().unwrap(), c["len"]), 1);
        let items: Vec<Vec<i64>> = c["items"].as_array().unwrap().iter().map(ints).collect();
        let exp: Vec<f64> = ints(&c["exp"]).iter().map(|x| *x as f64).collect();
        match alg {
            "vec" => {
                macro_rules! go { ($V:ident) => { 'ty: {
                    let sc = <<$V as TV>::S as Scalar>::SC;
                    if (scal == "float" && !sc.is_float()) || (scal == "int" && sc.is_float()) { break 'ty; }
                    let its: Vec<$V> = items.iter().map(|it| <$V as TV>::from_bits(&it.iter().map(|x| val_bits(sc, *x)).collect::<Vec<_>>())).collect();
                    // observed as exact integers (every lane is a small integer in every scalar type)
                    fn obs(v: &$V) -> Vec<f64> { let sc = <<$V as TV>::S as Scalar>::SC; v.to_bits().iter().map(|b| match sc { Sc::F32 => f32::from_bits(*b as u32) as f64, Sc::F64 => f64::from_bits(*b), _ => *b as f64 }).collect() }
                    run_ty::<$V>(&mut cx, &c, <$V as TV>::NAME, &its, obs, &exp);
                }}; }
                match k { 2 => { hx::for_tv2!(go); } 3 => { hx::for_tv3!(go); } _ => { hx::for_tv4!(go); } }
            }
            "mat" => {
                macro_rules! go { ($M:ident, $S:ident) => {{
                    let its: Vec<$M> = items.iter().map(|it| $M::from_cols_slice(&it.iter().map(|x| *x as $S).collect::<Vec<$S>>())).collect();
                    fn obs(m: &$M) -> Vec<f64> { f64s(&m.to_cols_array()) }
                    run_ty::<$M>(&mut cx, &c, stringify!($M), &its, obs, &exp);
                }}; }
                match k { 2 => { go!(Mat2, f32); go!(DMat2, f64); } 3 => { go!(Mat3, f32); go!(Mat3A, f32); go!(DMat3, f64); } _ => { go!(Mat4, f32); go!(DMat4, f64); } }
            }
            "quat" => {
                macro_rules! go { ($Q:ident, $S:ident) => {{
                    let its: Vec<$Q> = items.iter().map(|it| $Q::from_xyzw(it[0] as $S, it[1] as $S, it[2] as $S, it[3] as $S)).collect();
                    fn obs(q: &$Q) -> Vec<f64> { f64s(&q.to_array()) }
                    run_ty::<$Q>(&mut cx, &c, stringify!($Q), &its, obs, &exp);
                }}; }
                go!(Quat, f32); go!(DQuat, f64);
            }
            "aff" => {
                // homogeneous (k+1) x (k+1) column-major -> linear part and translation; observed back the same way
                macro_rules! go2 { ($A:ident, $M3:ident, $S:ident) => {{
                    let its: Vec<$A> = items.iter().map(|it| $A::from_mat3($M3::from_cols_slice(&it.iter().map(|x| *x as $S).collect::<Vec<$S>>()))).collect();
                    fn obs(a: &$A) -> Vec<f64> { f64s(&$M3::from(*a).to_cols_array()) }
                    run_prod::<$A>(&mut cx, &c, stringify!($A), &its, obs, &exp);
                }}; }
                macro_rules! go3 { ($A:ident, $M4:ident, $S:ident) => {{
                    let its: Vec<$A> = items.iter().map(|it| $A::from_mat4($M4::from_cols_slice(&it.iter().map(|x| *x as $S).collect::<Vec<$S>>()))).collect();
                    fn obs(a: &$A) -> Vec<f64> { f64s(&$M4::from(*a).to_cols_array()) }
                    run_prod::<$A>(&mut cx, &c, stringify!($A), &its, obs, &exp);
                }}; }
                if k == 2 { go2!(Affine2, Mat3, f32); go2!(DAffine2, DMat3, f64); } else { go3!(Affine3A, Mat4, f32); go3!(DAffine3, DMat4, f64); }
            }
            _ => {}
        }
        if cx.rep.samples.len() < 3 && n % 97 == 1 { cx.rep.samples.push(c.clone()); }
    });
    rep.cases = n;
    rep.write(&args[2]);
    println!("fold[{}]: cases={} evals={} mismatches={} spec_errors={}", rep.cfg, rep.cases, rep.evals, rep.mismatch_count, rep.spec_error_count);
}
