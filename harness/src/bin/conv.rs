//! Replay of family `conv` (C14): `as` casts, From and TryFrom between the numeric vector types.

use hx::conv_gen::{as_cast, from_conv, prim_as, try_conv, AS_PAIRS, FROM_PAIRS, TRY_PAIRS, TYPES};
use hx::fl::{eqv, Fl};
use hx::*;
use serde_json::{json, Value};

#[derive(Clone, Debug, PartialEq)]
enum Sv { I(i128), F(Fl) }

fn zdec(v: &Value) -> i128 {
    let a = v.as_array().unwrap();
    let mut m: i128 = 0;
    for (i, l) in a[1..].iter().enumerate() { m |= (l.as_u64().unwrap() as i128) << (8 * i); }
    if a[0].as_i64().unwrap() == 1 { -m } else { m }
}
fn is_float(sc: &str) -> bool { sc == "f32" || sc == "f64" }
fn width(sc: &str) -> u32 { match sc { "i8" | "u8" => 8, "i16" | "u16" => 16, "i32" | "u32" | "f32" => 32, _ => 64 } }
fn to_bits(sc: &str, v: &Sv) -> u64 {
    match v {
        Sv::I(x) => (*x as u64) & if width(sc) == 64 { u64::MAX } else { (1u64 << width(sc)) - 1 },
        Sv::F(f) => if sc == "f32" { f.to_f32().to_bits() as u64 } else { f.to_f64().to_bits() },
    }
}
fn of_bits(sc: &str, b: u64) -> Sv {
    match sc {
        "f32" => Sv::F(Fl::from_f32(f32::from_bits(b as u32))),
        "f64" => Sv::F(Fl::from_f64(f64::from_bits(b))),
        "i8" => Sv::I(b as u8 as i8 as i128), "i16" => Sv::I(b as u16 as i16 as i128),
        "i32" => Sv::I(b as u32 as i32 as i128), "i64" => Sv::I(b as i64 as i128),
        "u8" => Sv::I(b as u8 as i128), "u16" => Sv::I(b as u16 as i128), "u32" => Sv::I(b as u32 as i128),
        _ => Sv::I(b as i128),
    }
}
fn same(e: &Sv, g: &Sv) -> bool {
    match (e, g) { (Sv::I(a), Sv::I(b)) => a == b, (Sv::F(a), Sv::F(b)) => eqv(a, b), _ => false }
}
fn scalar_of(ty: &str) -> (&'static str, usize) {
    let t = TYPES.iter().find(|t| t.0 == ty).unwrap();
    (t.1, t.2)
}
/// spec scalar name -> the harness scalar names it stands for (usize is 64 bit here)
fn matches_sc(spec: &str, real: &str) -> bool { spec == real || (spec == "u64" && real == "usize") }

// ------------------------------------------------------------------ lane-moving conversions
use glam::*;
use hx::tv::{tok_bits, Scalar, TV};

fn tk<S: Scalar>(v: &Value) -> Vec<u64> {
    v.as_array().unwrap().iter().map(|x| tok_bits(S::SC, x.as_str().unwrap())).collect()
}
fn one<S: Scalar>(b: u64) -> S { S::from_u64(b) }

macro_rules! moves_family {
    ($rep:ident, $c:ident, $S:ident, $V2:ident, $V3:ident, $V4:ident, $B2:ident, $B3:ident, $B4:ident) => {{
        let kind = $c["kind"].as_str().unwrap();
        let n = $c["n"].as_u64().unwrap();
        let src = tk::<$S>(&$c["src"]);
        let other = tk::<$S>(&$c["other"]);
        let extra = tk::<$S>(&$c["extra"]);
        let exp = tk::<$S>(&$c["exp"]);
        let mut outs: Vec<(String, Vec<u64>)> = vec![];
        let fam = stringify!($V2);
        let r = catch(|| {
            let mut o: Vec<(String, Vec<u64>)> = vec![];
            match (kind, n) {
                ("extend", 2) => o.push((format!("{}::extend", stringify!($V2)), <$V2 as TV>::from_bits(&src).extend(one::<$S>(extra[0])).to_bits())),
                ("extend", 3) => o.push((format!("{}::extend", stringify!($V3)), <$V3 as TV>::from_bits(&src).extend(one::<$S>(extra[0])).to_bits())),
                ("truncate", 3) => o.push((format!("{}::truncate", stringify!($V3)), <$V3 as TV>::from_bits(&src).truncate().to_bits())),
                ("truncate", 4) => o.push((format!("{}::truncate", stringify!($V4)), <$V4 as TV>::from_bits(&src).truncate().to_bits())),
                ("pair", 2) => o.push((format!("{}::from((v2, s))", stringify!($V3)), <$V3>::from((<$V2 as TV>::from_bits(&src), one::<$S>(extra[0]))).to_bits())),
                ("pair", 3) => o.push((format!("{}::from((v3, s))", stringify!($V4)), <$V4>::from((<$V3 as TV>::from_bits(&src), one::<$S>(extra[0]))).to_bits())),
                ("pair_front", 3) => o.push((format!("{}::from((s, v3))", stringify!($V4)), <$V4>::from((one::<$S>(extra[0]), <$V3 as TV>::from_bits(&src))).to_bits())),
                ("triple", 2) => o.push((format!("{}::from((v2, s, s))", stringify!($V4)), <$V4>::from((<$V2 as TV>::from_bits(&src), one::<$S>(extra[0]), one::<$S>(extra[1]))).to_bits())),
                ("two", 2) => o.push((format!("{}::from((v2, v2))", stringify!($V4)), <$V4>::from((<$V2 as TV>::from_bits(&src), <$V2 as TV>::from_bits(&other))).to_bits())),
                ("mask", 2) => { let m: Vec<bool> = $c["mask"].as_array().unwrap().iter().map(|b| b.as_bool().unwrap()).collect();
                    o.push((format!("{}::from({})", stringify!($V2), stringify!($B2)), <$V2>::from($B2::new(m[0], m[1])).to_bits())); }
                ("mask", 3) => { let m: Vec<bool> = $c["mask"].as_array().unwrap().iter().map(|b| b.as_bool().unwrap()).collect();
                    o.push((format!("{}::from({})", stringify!($V3), stringify!($B3)), <$V3>::from($B3::new(m[0], m[1], m[2])).to_bits()));
                    o.push((format!("{}::from(BVec3A)", stringify!($V3)), <$V3>::from(BVec3A::new(m[0], m[1], m[2])).to_bits())); }
                ("mask", 4) => { let m: Vec<bool> = $c["mask"].as_array().unwrap().iter().map(|b| b.as_bool().unwrap()).collect();
                    o.push((format!("{}::from({})", stringify!($V4), stringify!($B4)), <$V4>::from($B4::new(m[0], m[1], m[2], m[3])).to_bits()));
                    #[cfg(not(feature = "scalar-math"))]
                    o.push((format!("{}::from(BVec4A)", stringify!($V4)), <$V4>::from(BVec4A::new(m[0], m[1], m[2], m[3])).to_bits())); }
                _ => {}
            }
            o
        });
        match r { Ok(o) => outs = o, Err(p) => $rep.mismatch(json!({"prop": prop_name("C14"), "ty": fam, "op": kind, "what": "panic", "panic": p, "case": $c})) }
        for (what, g) in outs {
            $rep.evals += 1;
            if g != exp {
                $rep.mismatch(json!({"prop": prop_name("C14"), "ty": fam, "op": what, "exp": $c["exp"], "got_bits": g.iter().map(|x| format!("{:#x}", x)).collect::<Vec<_>>(), "case": $c}));
            }
        }
    }};
}

fn run_move(rep: &mut Report, c: &Value) {
    moves_family!(rep, c, f32, Vec2, Vec3, Vec4, BVec2, BVec3, BVec4);
    moves_family!(rep, c, f64, DVec2, DVec3, DVec4, BVec2, BVec3, BVec4);
    moves_family!(rep, c, i8, I8Vec2, I8Vec3, I8Vec4, BVec2, BVec3, BVec4);
    moves_family!(rep, c, u8, U8Vec2, U8Vec3, U8Vec4, BVec2, BVec3, BVec4);
    moves_family!(rep, c, i16, I16Vec2, I16Vec3, I16Vec4, BVec2, BVec3, BVec4);
    moves_family!(rep, c, u16, U16Vec2, U16Vec3, U16Vec4, BVec2, BVec3, BVec4);
    moves_family!(rep, c, i32, IVec2, IVec3, IVec4, BVec2, BVec3, BVec4);
    moves_family!(rep, c, u32, UVec2, UVec3, UVec4, BVec2, BVec3, BVec4);
    moves_family!(rep, c, i64, I64Vec2, I64Vec3, I64Vec4, BVec2, BVec3, BVec4);
    moves_family!(rep, c, u64, U64Vec2, U64Vec3, U64Vec4, BVec2, BVec3, BVec4);
    moves_family!(rep, c, usize, USizeVec2, USizeVec3, USizeVec4, BVec2, BVec3, BVec4);
    // the f32 SIMD-backed extras
    let kind = c["kind"].as_str().unwrap();
    let n = c["n"].as_u64().unwrap();
    let src = tk::<f32>(&c["src"]);
    let extra = tk::<f32>(&c["extra"]);
    let exp = tk::<f32>(&c["exp"]);
    let mut o: Vec<(&str, Vec<u64>)> = vec![];
    let f = |b: u64| f32::from_bits(b as u32);
    match (kind, n) {
        ("same", 3) => {
            for v in <Vec3A as TV>::variants(&src) { o.push(("Vec3::from(Vec3A)", Vec3::from(v).to_bits())); }
            o.push(("Vec3A::from(Vec3)", Vec3A::from(<Vec3 as TV>::from_bits(&src)).to_bits()));
        }
        ("same", 4) => {
            let v = <Vec4 as TV>::from_bits(&src);
            o.push(("Quat::from_vec4 -> Vec4::from", Vec4::from(Quat::from_vec4(v)).to_bits()));
            o.push(("Quat::from_vec4 -> to_array", Quat::from_vec4(v).to_array().iter().map(|x| x.to_bits() as u64).collect()));
            let d = <DVec4 as TV>::from_bits(&tk::<f64>(&c["src"]));
            if DVec4::from(DQuat::from_vec4(d)).to_bits() != tk::<f64>(&c["exp"]) { o.push(("DQuat::from_vec4 -> DVec4::from", vec![])); }
        }
        ("extend", 3) => for v in <Vec3A as TV>::variants(&src) { o.push(("Vec3A::extend", v.extend(f(extra[0])).to_bits())); },
        ("truncate", 3) => for v in <Vec3A as TV>::variants(&src) { o.push(("Vec3A::truncate", v.truncate().to_bits())); },
        ("truncate", 4) => { o.push(("Vec3A::from_vec4", Vec3A::from_vec4(<Vec4 as TV>::from_bits(&src)).to_bits())); }
        ("pair", 2) => o.push(("Vec3A::from((Vec2, f32))", Vec3A::from((<Vec2 as TV>::from_bits(&src), f(extra[0]))).to_bits())),
        ("pair", 3) => for v in <Vec3A as TV>::variants(&src) { o.push(("Vec4::from((Vec3A, f32))", Vec4::from((v, f(extra[0]))).to_bits())); },
        ("pair_front", 3) => for v in <Vec3A as TV>::variants(&src) { o.push(("Vec4::from((f32, Vec3A))", Vec4::from((f(extra[0]), v)).to_bits())); },
        ("mask", 3) => {
            let m: Vec<bool> = c["mask"].as_array().unwrap().iter().map(|b| b.as_bool().unwrap()).collect();
            o.push(("Vec3A::from(BVec3)", Vec3A::from(BVec3::new(m[0], m[1], m[2])).to_bits()));
            o.push(("Vec3A::from(BVec3A)", Vec3A::from(BVec3A::new(m[0], m[1], m[2])).to_bits()));
        }
        _ => {}
    }
    for (what, g) in o {
        rep.evals += 1;
        if g != exp {
            rep.mismatch(json!({"prop": prop_name("C14"), "ty": "Vec3A/Quat", "op": what, "exp": c["exp"], "got_bits": g.iter().map(|x| format!("{:#x}", x)).collect::<Vec<_>>(), "case": c}));
        }
    }
}

fn main() {
    let args: Vec<String> = std::env::args().collect();
    quiet_panics();
    fl::selftest();
    let mut rep = Report::new();
    let only_ty = std::env::var("HX_ONLY_TY").ok();
    let mut n = 0u64;
    read_cases(&args[1], "CASE", |c| {
        if c["fam"] == "move" {
            n += 1;
            rep.nontrivial += 1;
            rep.count_op(&format!("move:{}", c["kind"].as_str().unwrap()), 1);
            run_move(&mut rep, &c);
            return;
        }
        if c["fam"] != "conv" { return; }
        n += 1;
        rep.nontrivial += 1;
        let kind = c["kind"].as_str().unwrap();
        let s = c["s"].as_str().unwrap();
        let t = c["t"].as_str().unwrap();
        rep.count_op(&format!("{kind}:{s}->{t}"), 1);
        if rep.samples.len() < 3 && n % 211 == 1 { rep.samples.push(c.clone()); }
        let src: Vec<Sv> = c["src"].as_array().unwrap().iter().map(|v| if is_float(s) { Sv::F(Fl::parse(v)) } else { Sv::I(zdec(v)) }).collect();
        let exp: Vec<Option<Sv>> = c["exp"]["as"].as_array().unwrap().iter().map(|v| {
            if is_float(t) { let f = Fl::parse(v); if f.is_skip() { None } else { Some(Sv::F(f)) } } else { Some(Sv::I(zdec(v))) }
        }).collect();
        let fits: Vec<bool> = c["exp"]["fits"].as_array().unwrap().iter().map(|b| b.as_bool().unwrap()).collect();
        let lossless = c["exp"]["lossless"].as_bool().unwrap();
        // every pair of concrete types with these scalars
        let mut pairs: Vec<(&str, &str, &str)> = vec![];
        for (a, b) in AS_PAIRS { pairs.push((a, b, "as")); }
        for (a, b) in FROM_PAIRS { pairs.push((a, b, "from")); }
        for (a, b) in TRY_PAIRS { pairs.push((a, b, "try")); }
        for (sty, dty, how) in pairs {
            let (ssc, nn) = scalar_of(sty);
            let (dsc, _) = scalar_of(dty);
            if !matches_sc(s, ssc) || !matches_sc(t, dsc) { continue; }
            if let Some(o) = &only_ty { if o != sty && o != dty { continue; } }
            for r in 0..4 {
                let idx: Vec<usize> = (0..nn).map(|i| (r + i) % 4).collect();
                let bits: Vec<u64> = idx.iter().map(|i| to_bits(ssc, &src[*i])).collect();
                // oracle cross-check against the primitive cast (once per case and rotation 0)
                if how == "as" && r == 0 {
                    for (k, i) in idx.iter().enumerate() {
                        if let (Some(e), Some(pb)) = (&exp[*i], prim_as(ssc, dsc, bits[k])) {
                            if !same(e, &of_bits(dsc, pb)) {
                                rep.spec_error(json!({"what": "conversion model disagrees with the Rust `as` cast", "s": ssc, "t": dsc,
                                    "src": c["src"][*i], "exp": c["exp"]["as"][*i], "prim": format!("{:?}", of_bits(dsc, pb))}));
                            }
                        }
                    }
                }
                rep.evals += 1;
                let got: Result<Option<Result<Vec<u64>, ()>>, String> = catch(|| match how {
                    "as" => as_cast(sty, dty, &bits).map(Ok),
                    "from" => from_conv(sty, dty, &bits).map(Ok),
                    _ => try_conv(sty, dty, &bits),
                });
                let all_fit = how != "try" || idx.iter().all(|i| fits[*i]);
                let bad = match &got {
                    Err(_) => Some("panic".to_string()),
                    Ok(None) => Some("no dispatch".to_string()),
                    Ok(Some(Err(()))) => if all_fit { Some("Err although every lane fits".into()) } else { None },
                    Ok(Some(Ok(g))) => {
                        if !all_fit { Some("Ok although a lane does not fit".into()) }
                        else {
                            let mut b = None;
                            for (k, i) in idx.iter().enumerate() {
                                if let Some(e) = &exp[*i] {
                                    let gv = of_bits(dsc, g[k]);
                                    if !same(e, &gv) { b = Some(format!("lane {k}: expected {:?} got {:?}", e, gv)); break; }
                                }
                            }
                            if how == "from" && !lossless { b = Some("a From impl exists for a conversion that is not lossless".into()); }
                            b
                        }
                    }
                };
                if let Some(b) = bad {
                    rep.mismatch(json!({"prop": prop_name("C14"), "ty": dty, "src_ty": sty, "op": format!("{how}:{sty}->{dty}"), "rot": r,
                        "src": idx.iter().map(|i| c["src"][*i].clone()).collect::<Vec<_>>(), "what": b, "case": c}));
                }
                // TryFrom: each lane alone in each position, the others zero (which always fits)
                if how == "try" && r == 0 {
                    for l in 0..4 {
                        for p in 0..nn {
                            let mut bb = vec![0u64; nn];
                            bb[p] = to_bits(ssc, &src[l]);
                            rep.evals += 1;
                            let g = catch(|| try_conv(sty, dty, &bb));
                            let ok = match &g {
                                Ok(Some(Ok(v))) => fits[l] && exp[l].as_ref().map(|e| same(e, &of_bits(dsc, v[p]))).unwrap_or(true)
                                    && (0..nn).all(|q| q == p || v[q] == 0),
                                Ok(Some(Err(()))) => !fits[l],
                                _ => false,
                            };
                            if !ok {
                                rep.mismatch(json!({"prop": prop_name("C14"), "ty": dty, "src_ty": sty, "op": format!("try:{sty}->{dty}"),
                                    "what": format!("value of lane {l} alone in position {p}: fits={} got={:?}", fits[l], g), "src": c["src"][l], "case": c}));
                            }
                        }
                    }
                }
            }
        }
    });
    rep.cases = n;
    rep.write(&args[2]);
    println!("conv[{}]: cases={} evals={} mismatches={} spec_errors={}", rep.cfg, rep.cases, rep.evals, rep.mismatch_count, rep.spec_error_count);
}
