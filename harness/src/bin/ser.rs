//! Replay of family `serial` (C19), built only with the `feat` feature set (serde, bytemuck,
//! mint, rkyv): exact token-stream Serializer/Deserializer, byte images, Pod-ness, mint layouts.

use glam::*;
use hx::tv::{tok_bits, Sc};
use hx::*;
use serde::de::{self, DeserializeSeed, SeqAccess, Visitor};
use serde::ser::{self, SerializeTupleStruct};
use serde::{Deserialize, Serialize};
use serde_json::{json, Value};

// ------------------------------------------------------------------ recording serializer
#[derive(Clone, Debug, PartialEq)]
enum Tok { Struct(String, usize), Elem(String, u64), End }

#[derive(Debug)]
struct SErr(String);
impl std::fmt::Display for SErr { fn fmt(&self, f: &mut std::fmt::Formatter) -> std::fmt::Result { write!(f, "{}", self.0) } }
impl std::error::Error for SErr {}
impl ser::Error for SErr { fn custom<T: std::fmt::Display>(m: T) -> Self { SErr(m.to_string()) } }
impl de::Error for SErr { fn custom<T: std::fmt::Display>(m: T) -> Self { SErr(m.to_string()) } }

struct Rec { toks: Vec<Tok> }
macro_rules! ser_prim { ($($f:ident, $t:ty, $name:literal, $conv:expr);+ $(;)?) => { $( fn $f(self, v: $t) -> Result<(), SErr> { self.toks.push(Tok::Elem($name.into(), $conv(v))); Ok(()) } )+ }; }
macro_rules! ser_unsupported { ($($f:ident ( $($a:ident : $t:ty),* ) -> $r:ty);+ $(;)?) => { $( fn $f(self, $($a: $t),*) -> Result<$r, SErr> { Err(SErr(concat!("unexpected ", stringify!($f)).into())) } )+ }; }
impl<'a> ser::Serializer for &'a mut Rec {
    type Ok = ();
    type Error = SErr;
    type SerializeSeq = ser::Impossible<(), SErr>;
    type SerializeTuple = ser::Impossible<(), SErr>;
    type SerializeTupleStruct = Self;
    type SerializeTupleVariant = ser::Impossible<(), SErr>;
    type SerializeMap = ser::Impossible<(), SErr>;
    type SerializeStruct = ser::Impossible<(), SErr>;
    type SerializeStructVariant = ser::Impossible<(), SErr>;
    ser_prim! {
        serialize_bool, bool, "bool", |v| v as u64; serialize_i8, i8, "i8", |v| v as u8 as u64; serialize_i16, i16, "i16", |v| v as u16 as u64;
        serialize_i32, i32, "i32", |v| v as u32 as u64; serialize_i64, i64, "i64", |v| v as u64; serialize_u8, u8, "u8", |v| v as u64;
        serialize_u16, u16, "u16", |v| v as u64; serialize_u32, u32, "u32", |v| v as u64; serialize_u64, u64, "u64", |v| v;
        serialize_f32, f32, "f32", |v: f32| v.to_bits() as u64; serialize_f64, f64, "f64", |v: f64| v.to_bits();
    }
    fn serialize_tuple_struct(self, name: &'static str, len: usize) -> Result<Self, SErr> { self.toks.push(Tok::Struct(name.into(), len)); Ok(self) }
    ser_unsupported! {
        serialize_char(_v: char) -> (); serialize_str(_v: &str) -> (); serialize_bytes(_v: &[u8]) -> (); serialize_none() -> (); serialize_unit() -> ();
        serialize_unit_struct(_n: &'static str) -> (); serialize_unit_variant(_n: &'static str, _i: u32, _v: &'static str) -> ();
        serialize_seq(_l: Option<usize>) -> Self::SerializeSeq; serialize_tuple(_l: usize) -> Self::SerializeTuple;
        serialize_tuple_variant(_n: &'static str, _i: u32, _v: &'static str, _l: usize) -> Self::SerializeTupleVariant;
        serialize_map(_l: Option<usize>) -> Self::SerializeMap; serialize_struct(_n: &'static str, _l: usize) -> Self::SerializeStruct;
        serialize_struct_variant(_n: &'static str, _i: u32, _v: &'static str, _l: usize) -> Self::SerializeStructVariant;
    }
    fn serialize_some<T: ?Sized + Serialize>(self, _v: &T) -> Result<(), SErr> { Err(SErr("unexpected some".into())) }
    fn serialize_newtype_struct<T: ?Sized + Serialize>(self, _n: &'static str, _v: &T) -> Result<(), SErr> { Err(SErr("unexpected newtype".into())) }
    fn serialize_newtype_variant<T: ?Sized + Serialize>(self, _n: &'static str, _i: u32, _v: &'static str, _x: &T) -> Result<(), SErr> { Err(SErr("unexpected variant".into())) }
}
impl<'a> SerializeTupleStruct for &'a mut Rec {
    type Ok = ();
    type Error = SErr;
    fn serialize_field<T: ?Sized + Serialize>(&mut self, v: &T) -> Result<(), SErr> { v.serialize(&mut **self) }
    fn end(self) -> Result<(), SErr> { self.toks.push(Tok::End); Ok(()) }
}

// ------------------------------------------------------------------ exact token-stream deserializer
struct Feed { elems: Vec<(Sc, u64)>, pos: usize, hint: Option<(String, usize)>, honour_hint: bool }
struct ElemDe(Sc, u64);
macro_rules! elem_de { ($($f:ident, $visit:ident, $t:ty, $conv:expr);+ $(;)?) => { $( fn $f<V: Visitor<'de>>(self, v: V) -> Result<V::Value, SErr> { v.$visit($conv(self.1)) } )+ }; }
impl<'de> de::Deserializer<'de> for ElemDe {
    type Error = SErr;
    fn deserialize_any<V: Visitor<'de>>(self, v: V) -> Result<V::Value, SErr> {
        match self.0 {
            Sc::F32 => v.visit_f32(f32::from_bits(self.1 as u32)), Sc::F64 => v.visit_f64(f64::from_bits(self.1)),
            Sc::I8 => v.visit_i8(self.1 as i8), Sc::I16 => v.visit_i16(self.1 as i16), Sc::I32 => v.visit_i32(self.1 as i32), Sc::I64 => v.visit_i64(self.1 as i64),
            Sc::U8 => v.visit_u8(self.1 as u8), Sc::U16 => v.visit_u16(self.1 as u16), Sc::U32 => v.visit_u32(self.1 as u32), _ => v.visit_u64(self.1),
        }
    }
    elem_de! {
        deserialize_f32, visit_f32, f32, |b: u64| f32::from_bits(b as u32); deserialize_f64, visit_f64, f64, |b: u64| f64::from_bits(b);
        deserialize_i8, visit_i8, i8, |b: u64| b as i8; deserialize_i16, visit_i16, i16, |b: u64| b as i16; deserialize_i32, visit_i32, i32, |b: u64| b as i32;
        deserialize_i64, visit_i64, i64, |b: u64| b as i64; deserialize_u8, visit_u8, u8, |b: u64| b as u8; deserialize_u16, visit_u16, u16, |b: u64| b as u16;
        deserialize_u32, visit_u32, u32, |b: u64| b as u32; deserialize_u64, visit_u64, u64, |b: u64| b; deserialize_bool, visit_bool, bool, |b: u64| b != 0;
    }
    serde::forward_to_deserialize_any! { i128 u128 char str string bytes byte_buf option unit unit_struct newtype_struct seq tuple tuple_struct map struct enum identifier ignored_any }
}
impl<'de, 'a> SeqAccess<'de> for &'a mut Feed {
    type Error = SErr;
    fn next_element_seed<T: DeserializeSeed<'de>>(&mut self, seed: T) -> Result<Option<T::Value>, SErr> {
        let limit = if self.honour_hint { self.hint.as_ref().map(|h| h.1).unwrap_or(usize::MAX).min(self.elems.len()) } else { self.elems.len() };
        if self.pos >= limit { return Ok(None); }
        let e = self.elems[self.pos];
        self.pos += 1;
        seed.deserialize(ElemDe(e.0, e.1)).map(Some)
    }
}
impl<'de, 'a> de::Deserializer<'de> for &'a mut Feed {
    type Error = SErr;
    fn deserialize_any<V: Visitor<'de>>(self, _v: V) -> Result<V::Value, SErr> { Err(SErr("only tuple structs".into())) }
    fn deserialize_tuple_struct<V: Visitor<'de>>(self, name: &'static str, len: usize, v: V) -> Result<V::Value, SErr> {
        self.hint = Some((name.to_string(), len));
        v.visit_seq(&mut *self)
    }
    serde::forward_to_deserialize_any! { bool i8 i16 i32 i64 i128 u8 u16 u32 u64 u128 f32 f64 char str string bytes byte_buf option unit unit_struct newtype_struct seq tuple map struct enum identifier ignored_any }
}

fn sc_of(name: &str) -> Sc {
    match name { "f32" => Sc::F32, "f64" => Sc::F64, "i8" => Sc::I8, "u8" => Sc::U8, "i16" => Sc::I16, "u16" => Sc::U16, "i32" => Sc::I32, "u32" => Sc::U32,
                 "i64" => Sc::I64, "u64" => Sc::U64, "usize" => Sc::Usize, "bool" => Sc::U8, s => panic!("scalar {s}") }
}
fn elem_bits(sc: &str, tok: &str) -> u64 {
    if sc == "bool" { let n: u64 = tok[1..].parse().unwrap(); return (n % 3 != 0) as u64; }
    tok_bits(sc_of(sc), tok)
}

/// everything C19 says about one type; `from_elems` builds the value from element bit patterns
#[allow(clippy::too_many_arguments)]
fn check_type<T>(rep: &mut Report, c: &Value, from_elems: impl Fn(&[u64]) -> T, to_elems: impl Fn(&T) -> Vec<u64>, bytes: Option<fn(&T) -> Vec<u8>>, is_pod: bool, zero: Option<T>)
where T: Serialize + for<'de> Deserialize<'de> + Copy + core::fmt::Debug {
    let ty = &c["ty"];
    let name = ty["name"].as_str().unwrap();
    let sc = ty["sc"].as_str().unwrap();
    let n = ty["n"].as_u64().unwrap() as usize;
    let len = c["len"].as_i64().unwrap();
    let mut bad = |rep: &mut Report, what: &str, detail: String| {
        rep.mismatch(json!({"prop": "C19", "ty": name, "op": what, "len": len, "detail": detail, "case": c}));
    };
    let elems: Vec<u64> = c["exp"]["elems"].as_array().unwrap().iter().map(|t| elem_bits(sc, t.as_str().unwrap())).collect();
    if len < 0 {
        let v = from_elems(&elems);
        // serde: exact token stream
        rep.evals += 1;
        let mut r = Rec { toks: vec![] };
        match v.serialize(&mut r) {
            Err(e) => bad(rep, "serialize", e.0),
            Ok(()) => {
                let mut want = vec![Tok::Struct(name.to_string(), n)];
                let en = if sc == "usize" { "u64" } else { sc };
                for b in &elems { want.push(Tok::Elem(en.to_string(), *b)); }
                want.push(Tok::End);
                // usize serialises as u64; masks as bool
                let got: Vec<Tok> = r.toks.iter().map(|t| match t { Tok::Elem(k, b) if k == "usize" => Tok::Elem("u64".into(), *b), o => o.clone() }).collect();
                if got != want { bad(rep, "serialize: token stream", format!("{:?}", got)); }
            }
        }
        // deserialize the exact stream back (hint-honouring and hint-ignoring carriers)
        for honour in [true, false] {
            rep.evals += 1;
            let mut f = Feed { elems: elems.iter().map(|b| (sc_of(sc), *b)).collect(), pos: 0, hint: None, honour_hint: honour };
            match T::deserialize(&mut f) {
                Err(e) => bad(rep, "deserialize of the exact stream", format!("honour_hint={honour}: {}", e.0)),
                Ok(w) => {
                    if to_elems(&w) != elems { bad(rep, "deserialize: value is not bit-identical", format!("{:?}", w)); }
                    if f.pos != n { bad(rep, "deserialize: consumed a different number of elements", format!("{}", f.pos)); }
                    if let Some((hn, hl)) = &f.hint { if hn != name || *hl != n { bad(rep, "deserialize: wrong name / length hint", format!("{hn} {hl}")); } }
                }
            }
        }
        // JSON text (finite palette): round trip, and the text itself is compared across builds by the driver
        rep.evals += 1;
        let fin: Vec<u64> = (1..=n).map(|i| match sc { "f32" => ((i as f32) * 1.25 - 3.0).to_bits() as u64, "f64" => ((i as f64) * 1.25 - 3.0).to_bits(), "bool" => (i % 2) as u64, _ => (i * 7 % 100) as u64 }).collect();
        let fv = from_elems(&fin);
        match serde_json::to_string(&fv) {
            Err(e) => bad(rep, "serde_json::to_string", e.to_string()),
            Ok(s) => {
                rep.extra_text.push(format!("{name}={s}"));
                match serde_json::from_str::<T>(&s) { Ok(w) => if to_elems(&w) != fin { bad(rep, "serde_json round trip", s.clone()) }, Err(e) => bad(rep, "serde_json::from_str", e.to_string()) }
            }
        }
        // byte image (bytemuck): elements in order, native endianness; zeroed = zero; Pod only without padding
        if let Some(bf) = bytes {
            rep.evals += 1;
            let b = bf(&v);
            let sz = ty["sz"].as_u64().unwrap() as usize;
            let mut want: Vec<u8> = vec![];
            for e in &elems { want.extend_from_slice(&e.to_le_bytes()[..sz]); }
            if is_pod {
                if b != want { bad(rep, "bytemuck::bytes_of: byte image", format!("{:x?}", b)); }
                if !c["exp"]["padding_free"].as_bool().unwrap() { bad(rep, "Pod is implemented for a type with padding", String::new()); }
            }
        }
        if is_pod && core::mem::size_of::<T>() != n * ty["sz"].as_u64().unwrap() as usize {
            bad(rep, "Pod is implemented for a type whose size is not N * size_of(scalar)", format!("{}", core::mem::size_of::<T>()));
        }
        if let Some(z) = zero {
            rep.evals += 1;
            if to_elems(&z).iter().any(|b| *b != 0) { bad(rep, "Zeroable::zeroed is not the zero value", format!("{:?}", z)); }
        }
    } else {
        // rejection of every other length
        let k = len as usize;
        for honour in [true, false] {
            rep.evals += 1;
            let mut f = Feed { elems: elems.iter().map(|b| (sc_of(sc), *b)).collect(), pos: 0, hint: None, honour_hint: honour };
            let r = T::deserialize(&mut f);
            // a carrier that knows the sequence length rejects unread elements itself
            let accepted = r.is_ok() && f.pos == k;
            let want = c["exp"]["accept"] == "ok";
            if accepted != want { bad(rep, "deserialize: acceptance of a sequence of this length", format!("honour_hint={honour} len={k} accepted={accepted}")); }
        }
    }
}

trait PodProbe { const IS_POD: bool = false; }
impl<T> PodProbe for T {}
struct Probe<T>(core::marker::PhantomData<T>);
impl<T: bytemuck::Pod> Probe<T> { const IS_POD: bool = true; }

/// rkyv: the archived form is the value itself; its bytes hold the elements in order
macro_rules! rkyv_check {
    ($rep:ident, $c:ident, $T:ty, $v:expr, $to:expr) => {{
        if $c["len"].as_i64().unwrap() < 0 {
            $rep.evals += 1;
            let v: $T = $v;
            match rkyv::to_bytes::<rkyv::rancor::Error>(&v) {
                Err(e) => $rep.mismatch(json!({"prop": "C19", "ty": stringify!($T), "op": "rkyv::to_bytes", "detail": e.to_string(), "case": $c})),
                Ok(bytes) => {
                    let a: &$T = unsafe { rkyv::access_unchecked::<$T>(&bytes) };
                    let back: $T = rkyv::deserialize::<$T, rkyv::rancor::Error>(a).unwrap();
                    if $to(a) != $to(&v) || $to(&back) != $to(&v) || bytes.len() != core::mem::size_of::<$T>() {
                        $rep.mismatch(json!({"prop": "C19", "ty": stringify!($T), "op": "rkyv archive round trip", "detail": format!("{} bytes", bytes.len()), "case": $c}));
                    }
                }
            }
        }
    }};
}

macro_rules! pod_bytes { ($T:ty) => {{ fn f(v: &$T) -> Vec<u8> { bytemuck::bytes_of(v).to_vec() } Some(f as fn(&$T) -> Vec<u8>) }}; }

macro_rules! vec_case {
    ($rep:ident, $c:ident, $name:expr, [$(($T:ident, $S:ty, pod=$pod:tt)),+ $(,)?]) => {
        match $name { $( stringify!($T) => {
            use hx::tv::{Scalar, TV};
            let is_pod = Probe::<$T>::IS_POD;
            check_type::<$T>($rep, $c, |b| <$T as TV>::from_bits(b), |v| v.to_bits(), vec_case!(@bytes $T, $pod), is_pod, vec_case!(@zero $T, $pod));
            {
                let sc = $c["ty"]["sc"].as_str().unwrap();
                let el: Vec<u64> = $c["exp"]["elems"].as_array().unwrap().iter().map(|t| elem_bits(sc, t.as_str().unwrap())).collect();
                if el.len() == <$T as TV>::N { vec_case!(@rkyv $rep, $c, $T, el, $pod); }
            }
            mint_vec::<$T>($rep, $c);
            let _ = <$S as Scalar>::SC;
            true
        } )+ _ => false }
    };
    (@bytes $T:ident, yes) => { pod_bytes!($T) };
    (@bytes $T:ident, no) => { None };
    (@bytes $T:ident, none) => { None };
    (@zero $T:ident, none) => { None };
    (@rkyv $rep:ident, $c:ident, $T:ident, $el:ident, none) => {};
    (@rkyv $rep:ident, $c:ident, $T:ident, $el:ident, $other:tt) => { rkyv_check!($rep, $c, $T, <$T as TV>::from_bits(&$el), |x: &$T| x.to_bits()) };
    (@zero $T:ident, $other:tt) => { Some(<$T as bytemuck::Zeroable>::zeroed()) };
}

/// mint: converting to the mint type and back is the identity, lane by lane and bit for bit, in both directions (Vector and Point forms,
/// Quaternion for the quaternions); a value built directly in the mint type imports to the same lanes
trait MintChk: hx::tv::TV { fn mint_chk(b: &[u64]) -> Option<String>; }
macro_rules! mint_impl {
    (2, $S:ty, $($T:ident),+) => {$( impl MintChk for $T { fn mint_chk(b: &[u64]) -> Option<String> {
        use hx::tv::{Scalar, TV};
        let v = <$T as TV>::from_bits(b);
        let f = |x: u64| <$S as Scalar>::from_u64(x);
        let m: mint::Vector2<$S> = v.into();
        if [m.x.to_u64(), m.y.to_u64()] != [b[0], b[1]] { return Some("into mint::Vector2".into()); }
        if <$T>::from(m).to_bits() != b { return Some("mint::Vector2 round trip".into()); }
        if <$T>::from(mint::Vector2 { x: f(b[0]), y: f(b[1]) }).to_bits() != b { return Some("from mint::Vector2".into()); }
        let p: mint::Point2<$S> = v.into();
        if [p.x.to_u64(), p.y.to_u64()] != [b[0], b[1]] || <$T>::from(p).to_bits() != b { return Some("mint::Point2 round trip".into()); }
        None } } )+};
    (3, $S:ty, $($T:ident),+) => {$( impl MintChk for $T { fn mint_chk(b: &[u64]) -> Option<String> {
        use hx::tv::{Scalar, TV};
        let v = <$T as TV>::from_bits(b);
        let f = |x: u64| <$S as Scalar>::from_u64(x);
        let m: mint::Vector3<$S> = v.into();
        if [m.x.to_u64(), m.y.to_u64(), m.z.to_u64()] != [b[0], b[1], b[2]] { return Some("into mint::Vector3".into()); }
        if <$T>::from(m).to_bits() != b { return Some("mint::Vector3 round trip".into()); }
        if <$T>::from(mint::Vector3 { x: f(b[0]), y: f(b[1]), z: f(b[2]) }).to_bits() != b { return Some("from mint::Vector3".into()); }
        let p: mint::Point3<$S> = v.into();
        if [p.x.to_u64(), p.y.to_u64(), p.z.to_u64()] != [b[0], b[1], b[2]] || <$T>::from(p).to_bits() != b { return Some("mint::Point3 round trip".into()); }
        None } } )+};
    (4, $S:ty, $($T:ident),+) => {$( impl MintChk for $T { fn mint_chk(b: &[u64]) -> Option<String> {
        use hx::tv::{Scalar, TV};
        let v = <$T as TV>::from_bits(b);
        let f = |x: u64| <$S as Scalar>::from_u64(x);
        let m: mint::Vector4<$S> = v.into();
        if [m.x.to_u64(), m.y.to_u64(), m.z.to_u64(), m.w.to_u64()] != [b[0], b[1], b[2], b[3]] { return Some("into mint::Vector4".into()); }
        if <$T>::from(m).to_bits() != b { return Some("mint::Vector4 round trip".into()); }
        if <$T>::from(mint::Vector4 { x: f(b[0]), y: f(b[1]), z: f(b[2]), w: f(b[3]) }).to_bits() != b { return Some("from mint::Vector4".into()); }
        None } } )+};
    (q, $S:ty, $($T:ident),+) => {$( impl MintChk for $T { fn mint_chk(b: &[u64]) -> Option<String> {
        use hx::tv::{Scalar, TV};
        let v = <$T as TV>::from_bits(b);
        let f = |x: u64| <$S as Scalar>::from_u64(x);
        let m: mint::Quaternion<$S> = v.into();
        if [m.v.x.to_u64(), m.v.y.to_u64(), m.v.z.to_u64(), m.s.to_u64()] != [b[0], b[1], b[2], b[3]] { return Some("into mint::Quaternion (v = xyz, s = w)".into()); }
        if <$T>::from(m).to_bits() != b { return Some("mint::Quaternion round trip".into()); }
        if <$T>::from(mint::Quaternion { v: mint::Vector3 { x: f(b[0]), y: f(b[1]), z: f(b[2]) }, s: f(b[3]) }).to_bits() != b { return Some("from mint::Quaternion".into()); }
        None } } )+};
}
mint_impl!(2, f32, Vec2); mint_impl!(3, f32, Vec3, Vec3A); mint_impl!(4, f32, Vec4); mint_impl!(q, f32, Quat);
mint_impl!(2, f64, DVec2); mint_impl!(3, f64, DVec3); mint_impl!(4, f64, DVec4); mint_impl!(q, f64, DQuat);
mint_impl!(2, i8, I8Vec2); mint_impl!(3, i8, I8Vec3); mint_impl!(4, i8, I8Vec4); mint_impl!(2, u8, U8Vec2); mint_impl!(3, u8, U8Vec3); mint_impl!(4, u8, U8Vec4);
mint_impl!(2, i16, I16Vec2); mint_impl!(3, i16, I16Vec3); mint_impl!(4, i16, I16Vec4); mint_impl!(2, u16, U16Vec2); mint_impl!(3, u16, U16Vec3); mint_impl!(4, u16, U16Vec4);
mint_impl!(2, i32, IVec2); mint_impl!(3, i32, IVec3); mint_impl!(4, i32, IVec4); mint_impl!(2, u32, UVec2); mint_impl!(3, u32, UVec3); mint_impl!(4, u32, UVec4);
mint_impl!(2, i64, I64Vec2); mint_impl!(3, i64, I64Vec3); mint_impl!(4, i64, I64Vec4); mint_impl!(2, u64, U64Vec2); mint_impl!(3, u64, U64Vec3); mint_impl!(4, u64, U64Vec4);
mint_impl!(2, usize, USizeVec2); mint_impl!(3, usize, USizeVec3); mint_impl!(4, usize, USizeVec4);
fn mint_vec<T: MintChk>(rep: &mut Report, c: &Value) {
    if c["len"].as_i64().unwrap() >= 0 { return; }
    let sc = c["ty"]["sc"].as_str().unwrap();
    let el: Vec<u64> = c["exp"]["elems"].as_array().unwrap().iter().map(|t| elem_bits(sc, t.as_str().unwrap())).collect();
    if el.len() != T::N { return; }
    rep.evals += 1;
    if let Some(what) = T::mint_chk(&el) {
        rep.mismatch(json!({"prop": "C19", "ty": T::NAME, "op": format!("mint: {what}"), "elems": c["exp"]["elems"], "case": c}));
    }
}

fn run_case(rep: &mut Report, c: &Value) {
    let name = c["ty"]["name"].as_str().unwrap().to_string();
    let name = name.as_str();
    if vec_case!(rep, c, name, [
        (Vec2, f32, pod=yes), (Vec3, f32, pod=yes), (Vec3A, f32, pod=no), (Vec4, f32, pod=yes), (DVec2, f64, pod=yes), (DVec3, f64, pod=yes), (DVec4, f64, pod=yes),
        (I8Vec2, i8, pod=yes), (I8Vec3, i8, pod=yes), (I8Vec4, i8, pod=yes), (U8Vec2, u8, pod=yes), (U8Vec3, u8, pod=yes), (U8Vec4, u8, pod=yes),
        (I16Vec2, i16, pod=yes), (I16Vec3, i16, pod=yes), (I16Vec4, i16, pod=yes), (U16Vec2, u16, pod=yes), (U16Vec3, u16, pod=yes), (U16Vec4, u16, pod=yes),
        (IVec2, i32, pod=yes), (IVec3, i32, pod=yes), (IVec4, i32, pod=yes), (UVec2, u32, pod=yes), (UVec3, u32, pod=yes), (UVec4, u32, pod=yes),
        (I64Vec2, i64, pod=yes), (I64Vec3, i64, pod=yes), (I64Vec4, i64, pod=yes), (U64Vec2, u64, pod=yes), (U64Vec3, u64, pod=yes), (U64Vec4, u64, pod=yes),
        (USizeVec2, usize, pod=none), (USizeVec3, usize, pod=none), (USizeVec4, usize, pod=none),
    ]) { return; }
    use hx::acc::Acc;
    use hx::mt::MT;
    use hx::tv::{Scalar, TV};
    macro_rules! mat { ($M:ident, $pod:tt) => {{
        let is_pod = Probe::<$M>::IS_POD;
        check_type::<$M>(rep, c, |b| { let f: Vec<<$M as MT>::S> = b.iter().map(|x| <<$M as MT>::S as Scalar>::from_u64(*x)).collect(); <$M as MT>::from_flat(&f) },
            |m| m.flat().iter().map(|x| x.to_u64()).collect(), vec_case!(@bytes $M, $pod), is_pod, Some(<$M as bytemuck::Zeroable>::zeroed()));
    }}; }
    macro_rules! quat { ($Q:ident) => {{
        let is_pod = Probe::<$Q>::IS_POD;
        check_type::<$Q>(rep, c, |b| <$Q as TV>::from_bits(b), |q| q.to_bits(), pod_bytes!($Q), is_pod, Some(<$Q as bytemuck::Zeroable>::zeroed()));
        let _ = <$Q as Acc>::konst;
        mint_vec::<$Q>(rep, c);
    }}; }
    macro_rules! mask { ($B:ident, [$($i:literal),+]) => {{
        check_type::<$B>(rep, c, |b| $B::new($(b[$i] != 0),+), |m| { let a: [bool; { [$($i),+].len() }] = (*m).into(); a.iter().map(|x| *x as u64).collect() }, None, false, None);
    }}; }
    match name {
        "Mat2" => mat!(Mat2, yes), "Mat3" => mat!(Mat3, yes), "Mat3A" => mat!(Mat3A, no), "Mat4" => mat!(Mat4, yes),
        "DMat2" => mat!(DMat2, yes), "DMat3" => mat!(DMat3, yes), "DMat4" => mat!(DMat4, yes),
        "Affine2" => mat!(Affine2, no), "Affine3A" => mat!(Affine3A, no), "DAffine2" => mat!(DAffine2, yes), "DAffine3" => mat!(DAffine3, yes),
        "Quat" => quat!(Quat), "DQuat" => quat!(DQuat),
        "BVec2" => mask!(BVec2, [0, 1]), "BVec3" => mask!(BVec3, [0, 1, 2]), "BVec4" => mask!(BVec4, [0, 1, 2, 3]),
        // (in scalar-math builds too: they are distinct types there, and "every glam type serialises ... identically in SIMD and scalar builds")
        "BVec3A" => mask!(BVec3A, [0, 1, 2]),
        "BVec4A" => mask!(BVec4A, [0, 1, 2, 3]),
        _ => rep.spec_error(json!({"what": "type of the specification is not in the harness", "ty": name})),
    }
    // mint: entry (r, c) is preserved by column-major and by row-major mint matrices
    if c["len"].as_i64().unwrap() < 0 && c["ty"]["kind"] == "mat" {
        let sc = c["ty"]["sc"].as_str().unwrap();
        let elems: Vec<u64> = c["exp"]["elems"].as_array().unwrap().iter().map(|t| elem_bits(sc, t.as_str().unwrap())).collect();
        let rowm: Vec<u64> = c["exp"]["rowmajor"].as_array().unwrap().iter().map(|t| elem_bits(sc, t.as_str().unwrap())).collect();
        macro_rules! mint_mat { ($M:ident, $S:ident, $Col:ident, $Row:ident, $n:literal) => {{
            let f: Vec<$S> = elems.iter().map(|x| <$S as Scalar>::from_u64(*x)).collect();
            let m = <$M as MT>::from_flat(&f);
            let cm: mint::$Col<$S> = m.into();
            let ca: [$S; $n] = cm.into();
            let rm: mint::$Row<$S> = m.into();
            let ra: [$S; $n] = rm.into();
            rep.evals += 1;
            let cb: Vec<u64> = ca.iter().map(|x| x.to_u64()).collect();
            let rb: Vec<u64> = ra.iter().map(|x| x.to_u64()).collect();
            if cb != elems { rep.mismatch(json!({"prop": "C19", "ty": name, "op": "mint column matrix layout", "got": format!("{:x?}", cb), "case": c})); }
            if rb != rowm { rep.mismatch(json!({"prop": "C19", "ty": name, "op": "mint row matrix layout", "got": format!("{:x?}", rb), "case": c})); }
            let back1 = $M::from(cm); let back2 = $M::from(rm);
            if back1.flat().iter().map(|x| x.to_u64()).collect::<Vec<_>>() != elems || back2.flat().iter().map(|x| x.to_u64()).collect::<Vec<_>>() != elems {
                rep.mismatch(json!({"prop": "C19", "ty": name, "op": "mint round trip", "case": c}));
            }
        }}; }
        match name {
            "Mat2" => mint_mat!(Mat2, f32, ColumnMatrix2, RowMatrix2, 4), "Mat3" => mint_mat!(Mat3, f32, ColumnMatrix3, RowMatrix3, 9),
            "Mat3A" => mint_mat!(Mat3A, f32, ColumnMatrix3, RowMatrix3, 9), "Mat4" => mint_mat!(Mat4, f32, ColumnMatrix4, RowMatrix4, 16),
            "DMat2" => mint_mat!(DMat2, f64, ColumnMatrix2, RowMatrix2, 4), "DMat3" => mint_mat!(DMat3, f64, ColumnMatrix3, RowMatrix3, 9),
            "DMat4" => mint_mat!(DMat4, f64, ColumnMatrix4, RowMatrix4, 16),
            _ => {}
        }
    }
}

fn main() {
    let args: Vec<String> = std::env::args().collect();
    quiet_panics();
    let mut rep = Report::new();
    let mut n = 0u64;
    read_cases(&args[1], "CASE", |c| {
        if c["fam"] != "serial" { return; }
        n += 1;
        rep.nontrivial += 1;
        rep.count_op(c["ty"]["name"].as_str().unwrap(), 1);
        if rep.samples.len() < 3 && n % 101 == 1 { rep.samples.push(c.clone()); }
        if let Err(p) = catch(|| run_case(&mut rep, &c)) {
            rep.mismatch(json!({"prop": "C19", "ty": c["ty"]["name"], "op": "any", "what": "panic", "panic": p, "case": c}));
        }
    });
    rep.cases = n;
    rep.write(&args[2]);
    // the JSON texts, for the cross-build comparison done by the driver
    let mut t = rep.extra_text.clone();
    t.sort();
    std::fs::write(format!("{}.jsontext", args[2]), t.join("\n")).unwrap();
    println!("ser[{}]: cases={} evals={} mismatches={} spec_errors={}", rep.cfg, rep.cases, rep.evals, rep.mismatch_count, rep.spec_error_count);
}
