//! Family `geom` (C02): replay of the exact geometry cases, and (mode `record`) a seeded random
//! driver that logs sum-of-products calls on arbitrary f32 inputs for trace validation of the
//! error bound by TLC (spec/Trace_C02.tla).

use glam::*;
use hx::fl::Fl;
use hx::*;
use serde_json::{json, Value};
use std::io::Write;

fn ints(v: &Value) -> Vec<i64> { v.as_array().unwrap().iter().map(|x| x.as_i64().unwrap()).collect() }

struct Cx<'a> { rep: &'a mut Report }
fn near(cx: &mut Cx, c: &Value, what: &str, ty: &str, exp: &[f64], got: &[f64], tol: f64) {
    cx.rep.evals += 1;
    let ok = exp.len() == got.len() && exp.iter().zip(got).all(|(e, g)| (e - g).abs() <= tol * e.abs().max(1e-300) || (e - g).abs() <= tol * 1e-30);
    if !ok {
        cx.rep.mismatch(json!({"prop": "C02", "ty": ty, "op": what, "kind": c["kind"], "a": c["a"], "b": c["b"], "k": c["k"], "exp": exp, "got": got, "rel_tol": tol, "case": c}));
    }
}
fn abs_near(cx: &mut Cx, c: &Value, what: &str, ty: &str, exp: &[f64], got: &[f64], tol: f64) {
    cx.rep.evals += 1;
    if !(exp.len() == got.len() && exp.iter().zip(got).all(|(e, g)| (e - g).abs() <= tol)) {
        cx.rep.mismatch(json!({"prop": "C02", "ty": ty, "op": what, "kind": c["kind"], "a": c["a"], "b": c["b"], "k": c["k"], "exp": exp, "got": got, "abs_tol": tol, "case": c}));
    }
}
fn exact(cx: &mut Cx, c: &Value, what: &str, ty: &str, exp: &[i64], got: &[f64]) {
    cx.rep.evals += 1;
    if !(exp.len() == got.len() && exp.iter().zip(got).all(|(e, g)| *e as f64 == *g)) {
        cx.rep.mismatch(json!({"prop": "C02", "ty": ty, "op": what, "kind": c["kind"], "a": c["a"], "b": c["b"], "exp": exp, "got": got, "case": c}));
    }
}
fn holds(cx: &mut Cx, c: &Value, what: &str, ty: &str, ok: bool, detail: String) {
    cx.rep.evals += 1;
    if !ok { cx.rep.mismatch(json!({"prop": "C02", "ty": ty, "op": what, "kind": c["kind"], "a": c["a"], "k": c["k"], "exp": c["exp"], "detail": detail, "case": c})); }
}
macro_rules! f64s { ($e:expr) => { $e.iter().map(|x| *x as f64).collect::<Vec<f64>>() }; }

macro_rules! run_width {
    ($cx:ident, $c:ident, $S:ident, $eps:expr, $atol:expr, $V2:ident, $V3:ident, $V4:ident, $fb2:literal, $fb3:literal, $fb4:literal, [$($V3X:ident),*]) => {{
        let kind = $c["kind"].as_str().unwrap();
        let e = &$c["exp"];
        match kind {
            "bilinear" => {
                let a = ints(&$c["a"]); let b = ints(&$c["b"]);
                let (a3, b3) = ($V3::new(a[0] as $S, a[1] as $S, a[2] as $S), $V3::new(b[0] as $S, b[1] as $S, b[2] as $S));
                exact($cx, $c, "dot", stringify!($V3), &[e["dot"].as_i64().unwrap()], &[a3.dot(b3) as f64]);
                exact($cx, $c, "dot_into_vec", stringify!($V3), &[e["dot"].as_i64().unwrap(); 3], &f64s!(a3.dot_into_vec(b3).to_array()));
                exact($cx, $c, "cross", stringify!($V3), &ints(&e["cross"]), &f64s!(a3.cross(b3).to_array()));
                exact($cx, $c, "length_squared", stringify!($V3), &[e["len2"].as_i64().unwrap()], &[a3.length_squared() as f64]);
                exact($cx, $c, "distance_squared", stringify!($V3), &[e["dist2"].as_i64().unwrap()], &[a3.distance_squared(b3) as f64]);
                exact($cx, $c, "element_sum", stringify!($V3), &[e["sum"].as_i64().unwrap()], &[a3.element_sum() as f64]);
                exact($cx, $c, "element_product", stringify!($V3), &[e["prod"].as_i64().unwrap()], &[a3.element_product() as f64]);
                $( let (ax, bx) = ($V3X::from(a3), $V3X::from(b3));
                   exact($cx, $c, "dot", stringify!($V3X), &[e["dot"].as_i64().unwrap()], &[ax.dot(bx) as f64]);
                   exact($cx, $c, "dot_into_vec", stringify!($V3X), &[e["dot"].as_i64().unwrap(); 3], &f64s!(ax.dot_into_vec(bx).to_array()));
                   exact($cx, $c, "cross", stringify!($V3X), &ints(&e["cross"]), &f64s!(ax.cross(bx).to_array()));
                   exact($cx, $c, "length_squared", stringify!($V3X), &[e["len2"].as_i64().unwrap()], &[ax.length_squared() as f64]);
                   exact($cx, $c, "distance_squared", stringify!($V3X), &[e["dist2"].as_i64().unwrap()], &[ax.distance_squared(bx) as f64]);
                   exact($cx, $c, "element_sum", stringify!($V3X), &[e["sum"].as_i64().unwrap()], &[ax.element_sum() as f64]);
                   exact($cx, $c, "element_product", stringify!($V3X), &[e["prod"].as_i64().unwrap()], &[ax.element_product() as f64]); )*
                let (a2, b2) = ($V2::new(a[0] as $S, a[1] as $S), $V2::new(b[0] as $S, b[1] as $S));
                exact($cx, $c, "dot", stringify!($V2), &[e["dot2"].as_i64().unwrap()], &[a2.dot(b2) as f64]);
                exact($cx, $c, "perp_dot", stringify!($V2), &[e["perp_dot"].as_i64().unwrap()], &[a2.perp_dot(b2) as f64]);
                let (a4, b4) = ($V4::new(a[0] as $S, a[1] as $S, a[2] as $S, a[0] as $S), $V4::new(b[0] as $S, b[1] as $S, b[2] as $S, b[2] as $S));
                exact($cx, $c, "dot", stringify!($V4), &[e["dot4"].as_i64().unwrap()], &[a4.dot(b4) as f64]);
                exact($cx, $c, "dot_into_vec", stringify!($V4), &[e["dot4"].as_i64().unwrap(); 4], &f64s!(a4.dot_into_vec(b4).to_array()));
            }
            "pyth" => {
                let t = ints(&$c["a"]);
                let k = $c["k"].as_i64().unwrap() as i32;
                let sc = (2.0 as $S).powi(k);
                let len = t[4] as f64 * 2f64.powi(k);
                let v4 = $V4::new(t[0] as $S * sc, t[1] as $S * sc, t[2] as $S * sc, t[3] as $S * sc);
                let dir: Vec<f64> = (0..4).map(|i| t[i] as f64 / t[4] as f64).collect();
                let rt = 4.0 * $eps;
                near($cx, $c, "length", stringify!($V4), &[len], &[v4.length() as f64], rt);
                near($cx, $c, "length_recip", stringify!($V4), &[1.0 / len], &[v4.length_recip() as f64], rt);
                abs_near($cx, $c, "normalize", stringify!($V4), &dir, &f64s!(v4.normalize().to_array()), rt);
                abs_near($cx, $c, "try_normalize", stringify!($V4), &dir, &f64s!(v4.try_normalize().map(|v| v.to_array()).unwrap_or([<$S>::NAN; 4])), rt);
                abs_near($cx, $c, "normalize_or_zero", stringify!($V4), &dir, &f64s!(v4.normalize_or_zero().to_array()), rt);
                let (nv, nl) = v4.normalize_and_length();
                abs_near($cx, $c, "normalize_and_length.0", stringify!($V4), &dir, &f64s!(nv.to_array()), rt);
                near($cx, $c, "normalize_and_length.1", stringify!($V4), &[len], &[nl as f64], rt);
                near($cx, $c, "distance", stringify!($V4), &[len], &[(v4 + $V4::ONE * sc).distance($V4::ONE * sc) as f64], rt * 4.0);
                holds($cx, $c, "is_normalized(normalize)", stringify!($V4), v4.normalize().is_normalized(), String::new());
                if t[3] == 0 {
                    let v3 = $V3::new(t[0] as $S * sc, t[1] as $S * sc, t[2] as $S * sc);
                    near($cx, $c, "length", stringify!($V3), &[len], &[v3.length() as f64], rt);
                    near($cx, $c, "length_recip", stringify!($V3), &[1.0 / len], &[v3.length_recip() as f64], rt);
                    abs_near($cx, $c, "normalize", stringify!($V3), &dir[..3], &f64s!(v3.normalize().to_array()), rt);
                    abs_near($cx, $c, "normalize_or", stringify!($V3), &dir[..3], &f64s!(v3.normalize_or($V3::Y).to_array()), rt);
                    $( let vx = $V3X::from(v3);
                       near($cx, $c, "length", stringify!($V3X), &[len], &[vx.length() as f64], rt);
                       near($cx, $c, "length_recip", stringify!($V3X), &[1.0 / len], &[vx.length_recip() as f64], rt);
                       abs_near($cx, $c, "normalize", stringify!($V3X), &dir[..3], &f64s!(vx.normalize().to_array()), rt);
                       abs_near($cx, $c, "try_normalize", stringify!($V3X), &dir[..3], &f64s!(vx.try_normalize().map(|v| v.to_array()).unwrap_or([<$S>::NAN; 3])), rt);
                       let (nv, nl) = vx.normalize_and_length();
                       abs_near($cx, $c, "normalize_and_length.0", stringify!($V3X), &dir[..3], &f64s!(nv.to_array()), rt);
                       near($cx, $c, "normalize_and_length.1", stringify!($V3X), &[len], &[nl as f64], rt); )*
                    if t[2] == 0 {
                        let v2 = $V2::new(t[0] as $S * sc, t[1] as $S * sc);
                        near($cx, $c, "length", stringify!($V2), &[len], &[v2.length() as f64], rt);
                        abs_near($cx, $c, "normalize", stringify!($V2), &dir[..2], &f64s!(v2.normalize().to_array()), rt);
                    }
                }
            }
            "fallback" => {
                let lanes: Vec<$S> = e["v"].as_array().unwrap().iter().map(|x| { let f = Fl::parse(x); if stringify!($S) == "f32" { f.to_f32() as $S } else { f.to_f64() as $S } }).collect();
                macro_rules! fam { ($V:ident, $n:literal, $key:literal) => {{
                    let v = $V::from_slice(&lanes[..$n]);
                    if e[$key] != "unknown" {
                    let fb = e[$key] == "yes";
                    let marker = $V::splat(7.0);
                    holds($cx, $c, "try_normalize is None iff 1/length is not finite and positive", stringify!($V), v.try_normalize().is_none() == fb, format!("{:?} -> {:?}", v, v.try_normalize()));
                    if fb {
                        holds($cx, $c, "normalize_or returns the fallback", stringify!($V), v.normalize_or(marker) == marker, format!("{:?}", v.normalize_or(marker)));
                        holds($cx, $c, "normalize_or_zero returns zero", stringify!($V), v.normalize_or_zero() == $V::ZERO, format!("{:?}", v.normalize_or_zero()));
                        let (nv, nl) = v.normalize_and_length();
                        holds($cx, $c, "normalize_and_length returns (X, 0)", stringify!($V), nv == $V::X && nl == 0.0, format!("{:?} {:?}", nv, nl));
                    } else {
                        holds($cx, $c, "try_normalize is unit", stringify!($V), v.try_normalize().map(|u| u.is_normalized()).unwrap_or(false), format!("{:?}", v.try_normalize()));
                    }
                    // the checked forms never return a non-finite vector
                    holds($cx, $c, "checked normalize forms are finite", stringify!($V), v.try_normalize().map(|u| u.is_finite()).unwrap_or(true) && v.normalize_or_zero().is_finite() && v.normalize_or(marker).is_finite(), String::new());
                    }
                }}; }
                fam!($V2, 2, $fb2); fam!($V3, 3, $fb3); fam!($V4, 4, $fb4);
                $( fam!($V3X, 3, $fb3); )*
            }
            "angle" => {
                let ap = $c["a"].as_array().unwrap();
                let (a, b) = (ints(&ap[0]), ints(&ap[1]));
                let want = ap[2].as_i64().unwrap() as f64 * std::f64::consts::PI / 12.0;
                let sc = (2.0 as $S).powi($c["k"].as_i64().unwrap() as i32);
                let (a3, b3) = ($V3::new(a[0] as $S, a[1] as $S, a[2] as $S), $V3::new(b[0] as $S, b[1] as $S, b[2] as $S) * sc);
                abs_near($cx, $c, "angle_between", stringify!($V3), &[want], &[a3.angle_between(b3) as f64], $atol);
                abs_near($cx, $c, "angle_between (swapped)", stringify!($V3), &[want], &[b3.angle_between(a3) as f64], $atol);
                $( abs_near($cx, $c, "angle_between", stringify!($V3X), &[want], &[$V3X::from(a3).angle_between($V3X::from(b3)) as f64], $atol); )*
                if a[2] == 0 && b[2] == 0 {
                    let (a2, b2) = ($V2::new(a[0] as $S, a[1] as $S), $V2::new(b[0] as $S, b[1] as $S) * sc);
                    let sgn = if (a[0] * b[1] - a[1] * b[0]) < 0 { -1.0 } else { 1.0 };
                    abs_near($cx, $c, "angle_to", stringify!($V2), &[want * sgn], &[a2.angle_to(b2) as f64], $atol);
                    // at exactly half a turn the sign of the angle is not determined
                    if ap[2].as_i64().unwrap() != 12 { abs_near($cx, $c, "angle_to (swapped)", stringify!($V2), &[-want * sgn], &[b2.angle_to(a2) as f64], $atol); }
                    else { abs_near($cx, $c, "angle_to (swapped, magnitude)", stringify!($V2), &[want], &[(b2.angle_to(a2) as f64).abs()], $atol); }
                }
                let (a4, b4) = ($V4::new(a[0] as $S, a[1] as $S, a[2] as $S, 0.0), $V4::new(b[0] as $S, b[1] as $S, b[2] as $S, 0.0) * sc);
                let _ = (a4, b4);
            }
            "project" => {
                let a = ints(&$c["a"]); let b = ints(&$c["b"]);
                let den = e["den"].as_i64().unwrap() as f64;
                let num = ints(&e["num"]);
                let proj: Vec<f64> = num.iter().map(|n| *n as f64 / den).collect();
                let rej: Vec<f64> = (0..3).map(|i| a[i] as f64 - proj[i]).collect();
                let (a3, b3) = ($V3::new(a[0] as $S, a[1] as $S, a[2] as $S), $V3::new(b[0] as $S, b[1] as $S, b[2] as $S));
                let t = 8.0 * $eps * (1.0 + a.iter().map(|x| x.abs() as f64).sum::<f64>());
                abs_near($cx, $c, "project_onto", stringify!($V3), &proj, &f64s!(a3.project_onto(b3).to_array()), t);
                abs_near($cx, $c, "reject_from", stringify!($V3), &rej, &f64s!(a3.reject_from(b3).to_array()), t);
                let bn = b3.normalize();
                abs_near($cx, $c, "project_onto_normalized", stringify!($V3), &proj, &f64s!(a3.project_onto_normalized(bn).to_array()), t);
                abs_near($cx, $c, "reject_from_normalized", stringify!($V3), &rej, &f64s!(a3.reject_from_normalized(bn).to_array()), t);
                let refl: Vec<f64> = ints(&e["refl"]).iter().map(|n| *n as f64 / den).collect();
                abs_near($cx, $c, "reflect", stringify!($V3), &refl, &f64s!(a3.reflect(bn).to_array()), t);
                $( abs_near($cx, $c, "project_onto", stringify!($V3X), &proj, &f64s!($V3X::from(a3).project_onto($V3X::from(b3)).to_array()), t);
                   abs_near($cx, $c, "reject_from", stringify!($V3X), &rej, &f64s!($V3X::from(a3).reject_from($V3X::from(b3)).to_array()), t);
                   abs_near($cx, $c, "reflect", stringify!($V3X), &refl, &f64s!($V3X::from(a3).reflect($V3X::from(bn)).to_array()), t); )*
                // refract with eta = 1 goes straight through when entering (d < 0); total internal reflection gives zero
                let d = a3.normalize_or_zero().dot(bn);
                if d < 0.0 {
                    let i = a3.normalize();
                    abs_near($cx, $c, "refract(eta = 1)", stringify!($V3), &f64s!(i.to_array()), &f64s!(i.refract(bn, 1.0).to_array()), t);
                    if (d as f64).abs() < 0.6 {
                        abs_near($cx, $c, "refract (total internal reflection)", stringify!($V3), &[0.0, 0.0, 0.0], &f64s!(i.refract(bn, 1.5).to_array()), 0.0);
                    }
                }
            }
            _ => panic!("kind {kind}"),
        }
    }};
}

// ------------------------------------------------------------------ record mode: arbitrary f32 inputs
fn fac(x: f32) -> Value {
    match Fl::from_f32(x) {
        Fl::Fin(s, m, e) => json!([s as u8, m, e]),
        _ => json!([0, 0, 0]),
    }
}
fn neg(x: f32) -> f32 { -x }
fn record(path: &str, seed: u64, n: usize) {
    let mut g = Rng::new(seed);
    let mut out = std::io::BufWriter::new(std::fs::File::create(path).unwrap());
    let mut rnd = |g: &mut Rng| -> f32 {
        // arbitrary 24-bit mantissa, exponent spread up to 2^+-20 around a base (|v| within [2^-40, 2^40]); sometimes an exact small integer
        let r = g.next();
        if r % 11 == 0 { return ((r >> 8) % 9) as f32 - 4.0; }
        let m = 1.0 + ((r >> 20) & 0x7f_ffff) as f32 / 8388608.0;
        let e = ((r >> 44) % 41) as i32 - 20;
        let s = if (r >> 63) == 1 { -1.0 } else { 1.0 };
        s * m * 2f32.powi(e)
    };
    for i in 0..n {
        let a: [f32; 4] = [rnd(&mut g), rnd(&mut g), rnd(&mut g), rnd(&mut g)];
        // half of the time make b nearly (anti)parallel or orthogonal to a: catastrophic cancellation
        let mut b: [f32; 4] = [rnd(&mut g), rnd(&mut g), rnd(&mut g), rnd(&mut g)];
        match g.next() % 6 { 0 => { b = [a[1], -a[0], a[3], -a[2]]; } 1 => { b = [a[0] * 1.0000001, a[1], a[2] * 0.9999999, a[3]]; } 2 => { b = [-a[0], -a[1], -a[2], a[3]]; } _ => {} }
        let mut ev = |op: &str, ty: &str, terms: Vec<(f32, f32)>, got: f32| {
            if !got.is_finite() { return; }
            let t: Vec<Value> = terms.iter().map(|(x, y)| json!([fac(*x), fac(*y)])).collect();
            writeln!(out, "{}", json!({"op": op, "ty": ty, "i": i, "terms": t, "got": fac(got)})).unwrap();
        };
        let (v2a, v2b) = (Vec2::new(a[0], a[1]), Vec2::new(b[0], b[1]));
        let (v3a, v3b) = (Vec3::new(a[0], a[1], a[2]), Vec3::new(b[0], b[1], b[2]));
        // Vec3A operands arrive with an unrelated value in the unused fourth lane
        let (xa, xb) = (Vec3A::from_vec4(Vec4::new(a[0], a[1], a[2], a[3])), Vec3A::from_vec4(Vec4::new(b[0], b[1], b[2], b[3])));
        let (v4a, v4b) = (Vec4::from_array(a), Vec4::from_array(b));
        let d3: Vec<(f32, f32)> = (0..3).map(|k| (a[k], b[k])).collect();
        let d4: Vec<(f32, f32)> = (0..4).map(|k| (a[k], b[k])).collect();
        ev("dot", "Vec2", d3[..2].to_vec(), v2a.dot(v2b));
        ev("dot", "Vec3", d3.clone(), v3a.dot(v3b));
        ev("dot", "Vec3A", d3.clone(), xa.dot(xb));
        ev("dot", "Vec4", d4.clone(), v4a.dot(v4b));
        ev("length_squared", "Vec3A", (0..3).map(|k| (a[k], a[k])).collect(), xa.length_squared());
        ev("length_squared", "Vec4", (0..4).map(|k| (a[k], a[k])).collect(), v4a.length_squared());
        ev("perp_dot", "Vec2", vec![(a[0], b[1]), (neg(a[1]), b[0])], v2a.perp_dot(v2b));
        let c3 = v3a.cross(v3b); let cx = xa.cross(xb);
        let ct = [vec![(a[1], b[2]), (neg(b[1]), a[2])], vec![(a[2], b[0]), (neg(b[2]), a[0])], vec![(a[0], b[1]), (neg(b[0]), a[1])]];
        for k in 0..3 { ev("cross", "Vec3", ct[k].clone(), c3[k]); ev("cross", "Vec3A", ct[k].clone(), cx[k]); }
        ev("element_sum", "Vec3A", (0..3).map(|k| (a[k], 1.0)).collect(), xa.element_sum());
        ev("element_sum", "Vec4", (0..4).map(|k| (a[k], 1.0)).collect(), v4a.element_sum());
        let dist: Vec<(f32, f32)> = (0..3).flat_map(|k| vec![(a[k], a[k]), (-2.0 * a[k], b[k]), (b[k], b[k])]).collect();
        ev("distance_squared", "Vec3", dist.clone(), v3a.distance_squared(v3b));
        ev("distance_squared", "Vec3A", dist, xa.distance_squared(xb));
        // matrix * vector rows and quaternion-free 2x2 determinant are sums of products too
        let m2 = Mat2::from_cols_array(&a);
        ev("determinant", "Mat2", vec![(a[0], a[3]), (neg(a[2]), a[1])], m2.determinant());
        let mv = m2 * v2b;
        ev("mul_vec2.x", "Mat2", vec![(a[0], b[0]), (a[2], b[1])], mv.x);
        ev("mul_vec2.y", "Mat2", vec![(a[1], b[0]), (a[3], b[1])], mv.y);
    }
    out.flush().unwrap();
}

fn main() {
    let args: Vec<String> = std::env::args().collect();
    quiet_panics();
    if args[1] == "record" {
        record(&args[2], args[3].parse().unwrap(), args[4].parse().unwrap());
        println!("geom record: wrote {}", args[2]);
        return;
    }
    hx::fl::selftest();
    let mut rep = Report::new();
    let mut cx = Cx { rep: &mut rep };
    let mut n = 0u64;
    read_cases(&args[1], "CASE", |c| {
        if c["fam"] != "geom" { return; }
        n += 1;
        let kind = c["kind"].as_str().unwrap().to_string();
        cx.rep.count_op(&kind, 1);
        let trivial = kind == "bilinear" && (ints(&c["a"]).iter().filter(|x| **x != 0).count() <= 1 || ints(&c["b"]).iter().filter(|x| **x != 0).count() <= 1);
        if !trivial { cx.rep.nontrivial += 1; }
        if cx.rep.samples.len() < 4 && n % 1201 == 1 { cx.rep.samples.push(c.clone()); }
        let r = catch(|| {
            let c = &c;
            let cx = &mut cx;
            run_width!(cx, c, f32, f32::EPSILON as f64, 2e-4, Vec2, Vec3, Vec4, "fb2", "fb3", "fb4", [Vec3A]);
            run_width!(cx, c, f64, f64::EPSILON, 1e-9, DVec2, DVec3, DVec4, "fb2d", "fb3d", "fb4d", []);
        });
        if let Err(p) = r { cx.rep.mismatch(json!({"prop": "C02", "ty": "any", "op": kind, "what": "panic", "panic": p, "case": c})); }
    });
    rep.cases = n;
    rep.write(&args[2]);
    println!("geom[{}]: cases={} evals={} mismatches={}", rep.cfg, rep.cases, rep.evals, rep.mismatch_count);
}
