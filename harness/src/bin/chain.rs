//! Replay of family `chain20` (C20): chains of precondition-carrying operations.  In a
//! glam-assert build no valid chain may panic and every violating call must; in every build the
//! written register must satisfy its class (checked with glam's own predicates); a digest of all
//! register bits after every step is written as a trace, to be compared between builds by TLC.

use glam::*;
use hx::chain_gen::{ill_conditioned, step, Regs};
use hx::*;
use serde_json::{json, Value};
use std::io::Write;

fn init(seed: u64) -> Regs {
    let mut g = Rng::new(seed * 7919 + 13);
    let mut f = |lo: f32, hi: f32| lo + (hi - lo) * ((g.next() >> 40) as f32 / (1u64 << 24) as f32);
    let v0 = Vec3::new(f(0.5, 3.0), f(-3.0, -0.5), f(0.25, 2.0));
    let v1 = Vec3::new(f(-2.0, -0.3), f(0.4, 2.5), f(-1.5, -0.2));
    let u0 = Vec3::new(f(-1.0, 1.0), f(0.2, 1.0), f(-1.0, 1.0)).normalize();
    let u1 = Vec3::new(f(0.3, 1.0), f(-1.0, 1.0), f(-1.0, -0.1)).normalize();
    let q0 = Quat::from_euler(EulerRot::XYZ, f(-3.0, 3.0), f(-1.4, 1.4), f(-3.0, 3.0));
    let q1 = Quat::from_axis_angle(u1, f(0.3, 2.9));
    let s0 = f(-2.5, 2.5);
    Regs {
        v0, v1, u0, u1, q0, q1,
        r0: Mat3::from_quat(q1),
        m0: Mat4::from_scale_rotation_translation(Vec3::new(f(0.5, 2.0), f(0.5, 2.0), f(0.5, 2.0)), q0, v1),
        m1: Mat4::from_rotation_translation(q1, v0),
        a0: Affine3A::from_rotation_translation(q0, v1),
        d0: DQuat::from_euler(EulerRot::ZYX, 0.3, -1.1, 2.0),
        d1: DVec3::new(0.6, -0.48, 0.64),
        s0, t0: f(0.05, 0.95), p0: f(0.3, 2.0),
    }
}

/// the class predicates, through glam's own checks
fn class_ok(r: &Regs) -> Result<(), String> {
    let unit = |v: Vec3, n: &str| if v.is_normalized() { Ok(()) } else { Err(format!("{n} = {v:?} is not normalized (length {})", v.length())) };
    unit(r.u0, "u0")?;
    unit(r.u1, "u1")?;
    if !r.q0.is_normalized() { return Err(format!("q0 = {:?} is not normalized (length {})", r.q0, r.q0.length())); }
    if !r.q1.is_normalized() { return Err(format!("q1 = {:?} is not normalized (length {})", r.q1, r.q1.length())); }
    if !r.d0.is_normalized() { return Err(format!("d0 = {:?} is not normalized (length {})", r.d0, r.d0.length())); }
    if !r.d1.is_normalized() { return Err(format!("d1 = {:?} is not normalized", r.d1)); }
    for (n, c) in [("r0.x", r.r0.x_axis), ("r0.y", r.r0.y_axis), ("r0.z", r.r0.z_axis)] { unit(c, n)?; }
    for (n, m) in [("m0", r.m0), ("m1", r.m1)] {
        // the affine check of transform_point3 / transform_vector3 itself
        if !m.row(3).abs_diff_eq(Vec4::W, 1e-6) { return Err(format!("{n} is not affine: last row {:?}", m.row(3))); }
        if !m.is_finite() { return Err(format!("{n} is not finite")); }
    }
    for (n, c) in [("m1.x", r.m1.x_axis.truncate()), ("m1.y", r.m1.y_axis.truncate()), ("m1.z", r.m1.z_axis.truncate()),
                   ("a0.x", Vec3::from(r.a0.matrix3.x_axis)), ("a0.y", Vec3::from(r.a0.matrix3.y_axis)), ("a0.z", Vec3::from(r.a0.matrix3.z_axis))] { unit(c, n)?; }
    if r.m0.determinant() == 0.0 { return Err("m0 is singular".into()); }
    if !(r.v0.is_finite() && r.v1.is_finite() && r.s0.is_finite() && r.t0.is_finite() && r.p0.is_finite()) { return Err("non-finite general register".into()); }
    Ok(())
}

fn digest(r: &Regs) -> u64 {
    let mut h: u64 = 0xcbf2_9ce4_8422_2325;
    let mut put = |b: u64| { h ^= b; h = h.wrapping_mul(0x1000_0000_01b3); };
    for v in [r.v0, r.v1, r.u0, r.u1] { for x in v.to_array() { put(x.to_bits() as u64); } }
    for q in [r.q0, r.q1] { for x in q.to_array() { put(x.to_bits() as u64); } }
    for x in r.r0.to_cols_array() { put(x.to_bits() as u64); }
    for x in r.m0.to_cols_array() { put(x.to_bits() as u64); }
    for x in r.m1.to_cols_array() { put(x.to_bits() as u64); }
    for x in r.a0.to_cols_array() { put(x.to_bits() as u64); }
    for x in r.d0.to_array() { put(x.to_bits()); }
    for x in r.d1.to_array() { put(x.to_bits()); }
    for x in [r.s0, r.t0, r.p0] { put(x.to_bits() as u64); }
    h
}

/// all register values in Q14 fixed point (for the tolerance comparison between SIMD and scalar builds)
fn fixed(r: &Regs) -> Vec<i64> {
    let mut o: Vec<f64> = vec![];
    for v in [r.v0, r.v1, r.u0, r.u1] { o.extend(v.to_array().iter().map(|x| *x as f64)); }
    for q in [r.q0, r.q1] { o.extend(q.to_array().iter().map(|x| *x as f64)); }
    o.extend(r.r0.to_cols_array().iter().map(|x| *x as f64));
    o.extend(r.m0.to_cols_array().iter().map(|x| *x as f64));
    o.extend(r.m1.to_cols_array().iter().map(|x| *x as f64));
    o.extend(r.a0.to_cols_array().iter().map(|x| *x as f64));
    o.extend([r.s0 as f64, r.t0 as f64, r.p0 as f64]);
    o.iter().map(|x| if x.is_nan() { 1 << 30 } else { (x * 16384.0).round().clamp(-536870912.0, 536870912.0) as i64 }).collect()
}

fn main() {
    let args: Vec<String> = std::env::args().collect();
    quiet_panics();
    let asserting = cfg!(feature = "glam-assert");
    let want_q = std::env::var("HX_QTRACE").is_ok();
    let mut qtrace = std::io::BufWriter::new(std::fs::File::create(format!("{}.qtrace", args[2])).unwrap());
    let mut rep = Report::new();
    let mut trace = std::io::BufWriter::new(std::fs::File::create(format!("{}.trace", args[2])).unwrap());
    let mut n = 0u64;
    read_cases(&args[1], "CASE", |c| {
        if c["fam"] != "chain20" { return; }
        n += 1;
        rep.nontrivial += 1;
        if rep.samples.len() < 3 && n % 7001 == 1 { rep.samples.push(c.clone()); }
        let mut r = init(c["seed"].as_u64().unwrap());
        let mut loose = false;          // an ill-conditioned step was taken: the tolerance comparison between backends is suspended
        for (k, st) in c["chain"].as_array().unwrap().iter().enumerate() {
            let op = st["op"].as_str().unwrap();
            let must_panic = asserting && st["expect_assert"] == "panic";
            let viol = st["expect_assert"] == "panic";
            rep.count_op(if viol { "viol" } else { "good" }, 1);
            rep.evals += 1;
            let mut w = r;
            if ill_conditioned(op, &r) { loose = true; }
            let res = catch(|| { let ok = step(op, &mut w); (ok, w) });
            match res {
                Err(p) => {
                    if !must_panic {
                        rep.mismatch(json!({"prop": "C20", "ty": "chain", "op": op, "step": k, "what": if asserting { "a valid chain panicked under glam-assert" } else { "panic without glam-assert" },
                            "panic": p, "chain": c["chain"], "seed": c["seed"], "case": c}));
                    }
                    break;
                }
                Ok((false, _)) => { rep.spec_error(json!({"what": "operation of the specification is not in the harness", "op": op})); break; }
                Ok((true, w2)) => {
                    if must_panic {
                        rep.mismatch(json!({"prop": "C20", "ty": "chain", "op": op, "step": k, "what": "a documented precondition violation did not panic under glam-assert", "case": c}));
                        break;
                    }
                    if viol { break; }          // plain build: the violating call returns some value; the chain ends here
                    r = w2;
                    if std::env::var("HX_DUMP").is_ok() { eprintln!("step {k} {op}: v0={:?} v1={:?} p0={} s0={} t0={} u0={:?} u1={:?}", r.v0, r.v1, r.p0, r.s0, r.t0, r.u0, r.u1); }
                    if let Err(e) = class_ok(&r) {
                        rep.mismatch(json!({"prop": "C20", "ty": "chain", "op": op, "step": k, "what": "the output does not satisfy the precondition class of its register", "detail": e,
                            "chain": c["chain"], "seed": c["seed"], "case": c}));
                        break;
                    }
                    writeln!(trace, "{{\"c\":{},\"k\":{},\"h\":\"{:016x}\"}}", n, k, digest(&r)).unwrap();
                    if want_q && k + 1 == c["chain"].as_array().unwrap().len() {
                        writeln!(qtrace, "{{\"c\":{},\"k\":{},\"loose\":{},\"q\":{:?}}}", n, k, loose as u8, fixed(&r)).unwrap();
                    }
                }
            }
        }
    });
    trace.flush().unwrap();
    qtrace.flush().unwrap();
    rep.cases = n;
    rep.write(&args[2]);
    println!("chain[{} assert={}]: chains={} steps={} mismatches={} spec_errors={}", rep.cfg, asserting, rep.cases, rep.evals, rep.mismatch_count, rep.spec_error_count);
}
