//! Replay of family `interp` (C12): interpolation, steering and clamping helpers.

use glam::*;
use hx::fl::{eqv, Fl};
use hx::*;
use serde_json::{json, Value};

fn ring(v: &Value) -> f64 {
    let a = v.as_array().unwrap();
    (a[0].as_i64().unwrap() as f64 + a[1].as_i64().unwrap() as f64 * std::f64::consts::SQRT_2) / 2f64.powi(a[2].as_i64().unwrap() as i32)
}
fn ringv(v: &Value) -> Vec<f64> { v.as_array().unwrap().iter().map(ring).collect() }

struct Cx<'a> { rep: &'a mut Report }

fn near(cx: &mut Cx, c: &Value, what: &str, ty: &str, exp: &[f64], got: &[f64], tol: f64) {
    cx.rep.evals += 1;
    let ok = exp.len() == got.len() && exp.iter().zip(got).all(|(e, g)| (e - g).abs() <= tol);
    if !ok {
        cx.rep.mismatch(json!({"prop": "C12", "ty": ty, "op": what, "kind": c["kind"], "i": c["i"], "j": c["j"], "k": c["k"], "ax": c["ax"],
            "exp": exp, "got": got, "tol": tol, "case": c}));
    }
}
fn holds(cx: &mut Cx, c: &Value, what: &str, ty: &str, ok: bool, detail: String) {
    cx.rep.evals += 1;
    if !ok {
        cx.rep.mismatch(json!({"prop": "C12", "ty": ty, "op": what, "kind": c["kind"], "i": c["i"], "j": c["j"], "k": c["k"], "detail": detail, "case": c}));
    }
}
fn exact(cx: &mut Cx, c: &Value, what: &str, ty: &str, exp: &[Fl], got: &[Fl]) {
    cx.rep.evals += 1;
    for (l, (e, g)) in exp.iter().zip(got).enumerate() {
        if !eqv(e, g) {
            cx.rep.mismatch(json!({"prop": "C12", "ty": ty, "op": what, "kind": c["kind"], "lane": l, "a": c["exp"]["a"], "b": c["exp"]["b"], "s": c["exp"]["s"],
                "exp": e.to_json(), "got": g.to_json(), "case": c}));
            return;
        }
    }
}

macro_rules! f64s { ($e:expr) => { $e.iter().map(|x| *x as f64).collect::<Vec<f64>>() }; }

macro_rules! run_width {
    ($cx:ident, $c:ident, $S:ident, $fkey:literal, $tol:expr, $rtol:expr, $PI4:expr, $from_fl:ident, $to_fl:ident,
     $V2:ident, $V3:ident, $V4:ident, $Q:ident, $M3:ident, [$($V3X:ident),*]) => {{
        let kind = $c["kind"].as_str().unwrap();
        let e = &$c["exp"];
        match kind {
            "lerp" => {
                let fl = |v: &Value| Fl::parse(v);
                let a: Vec<$S> = e["a"].as_array().unwrap().iter().map(|v| fl(v).$to_fl()).collect();
                let b: Vec<$S> = e["b"].as_array().unwrap().iter().map(|v| fl(v).$to_fl()).collect();
                let s = fl(&e["s"]).$to_fl();
                let ex = &e[$fkey];
                let el: Vec<Fl> = ex["lerp"].as_array().unwrap().iter().map(fl).collect();
                let em: Vec<Fl> = ex["mid"].as_array().unwrap().iter().map(fl).collect();
                let g = |v: &[$S]| -> Vec<Fl> { v.iter().map(|x| Fl::$from_fl(*x)).collect() };
                let v2a = $V2::new(a[0], a[1]); let v2b = $V2::new(b[0], b[1]);
                exact($cx, $c, "lerp", stringify!($V2), &el, &g(&v2a.lerp(v2b, s).to_array()));
                exact($cx, $c, "midpoint", stringify!($V2), &em, &g(&v2a.midpoint(v2b).to_array()));
                let v3a = $V3::new(a[0], a[1], a[0]); let v3b = $V3::new(b[0], b[1], b[0]);
                let el3 = vec![el[0].clone(), el[1].clone(), el[0].clone()];
                let em3 = vec![em[0].clone(), em[1].clone(), em[0].clone()];
                exact($cx, $c, "lerp", stringify!($V3), &el3, &g(&v3a.lerp(v3b, s).to_array()));
                exact($cx, $c, "midpoint", stringify!($V3), &em3, &g(&v3a.midpoint(v3b).to_array()));
                $( let xa = $V3X::new(a[0], a[1], a[0]); let xb = $V3X::new(b[0], b[1], b[0]);
                   exact($cx, $c, "lerp", stringify!($V3X), &el3, &g(&xa.lerp(xb, s).to_array()));
                   exact($cx, $c, "midpoint", stringify!($V3X), &em3, &g(&xa.midpoint(xb).to_array())); )*
                let v4a = $V4::new(a[0], a[1], a[0], a[1]); let v4b = $V4::new(b[0], b[1], b[0], b[1]);
                let el4 = vec![el[0].clone(), el[1].clone(), el[0].clone(), el[1].clone()];
                let em4 = vec![em[0].clone(), em[1].clone(), em[0].clone(), em[1].clone()];
                exact($cx, $c, "lerp", stringify!($V4), &el4, &g(&v4a.lerp(v4b, s).to_array()));
                exact($cx, $c, "midpoint", stringify!($V4), &em4, &g(&v4a.midpoint(v4b).to_array()));
                exact($cx, $c, "FloatExt::lerp", $fkey, &[fl(&ex["xlerp"])], &g(&[FloatExt::lerp(a[0], b[0], s)]));
                exact($cx, $c, "FloatExt::inverse_lerp", $fkey, &[fl(&ex["inv"])], &g(&[<$S as FloatExt>::inverse_lerp(a[0], b[0], s)]));
                // remap through the identity range is lerp(out0, out1, inverse_lerp(0, 1, v)) = lerp(out0, out1, v)
                exact($cx, $c, "FloatExt::remap (unit input range)", $fkey, &[fl(&ex["xlerp"])], &g(&[FloatExt::remap(s, 0.0, 1.0, a[0], b[0])]));
            }
            "qslerp" | "qtowards" => {
                let ax = match $c["ax"].as_str().unwrap() { "X" => $V3::X, "Y" => $V3::Y, _ => $V3::Z };
                let (i, j, k) = ($c["i"].as_i64().unwrap(), $c["j"].as_i64().unwrap(), $c["k"].as_i64().unwrap());
                let q0 = $Q::from_axis_angle(ax, (i as $S) * 2.0 * $PI4);
                let q1 = $Q::from_axis_angle(ax, (j as $S) * 2.0 * $PI4);
                let m = ringv(&e["m"]);
                if kind == "qslerp" {
                    let s = (k as $S) * 0.25;
                    let r = q0.slerp(q1, s);
                    near($cx, $c, "slerp", stringify!($Q), &m, &f64s!($M3::from_quat(r).to_cols_array()), $rtol);
                    near($cx, $c, "slerp unit", stringify!($Q), &[1.0], &[r.length() as f64], $rtol);
                    // q and -q are the same rotation: the interpolated rotation must not change
                    let r2 = q0.slerp(-q1, s);
                    let same = e["m"] == e["m"];
                    if same && (i - j).rem_euclid(4) != 2 {
                        near($cx, $c, "slerp towards -q", stringify!($Q), &m, &f64s!($M3::from_quat(r2).to_cols_array()), $rtol);
                    }
                    if e["lerp_same"].as_bool().unwrap() {
                        let l = q0.lerp(q1, s);
                        near($cx, $c, "lerp (ends and midpoint)", stringify!($Q), &m, &f64s!($M3::from_quat(l).to_cols_array()), $rtol);
                        near($cx, $c, "lerp unit", stringify!($Q), &[1.0], &[l.length() as f64], $rtol);
                    }
                } else {
                    let r = q0.rotate_towards(q1, (k as $S) * $PI4);
                    near($cx, $c, "rotate_towards", stringify!($Q), &m, &f64s!($M3::from_quat(r).to_cols_array()), $rtol);
                    near($cx, $c, "rotate_towards unit", stringify!($Q), &[1.0], &[r.length() as f64], $rtol);
                }
            }
            "vtowards" | "vslerp" => {
                let (i, j, k) = ($c["i"].as_i64().unwrap(), $c["j"].as_i64().unwrap(), $c["k"].as_i64().unwrap());
                let d = ringv(&e["dir"]);
                let (ai, aj) = ((i as $S) * $PI4, (j as $S) * $PI4);
                if kind == "vtowards" {
                    if !e["ambiguous"].as_bool().unwrap() {
                        let from2 = $V2::from_angle(ai) * 2.0; let to2 = $V2::from_angle(aj) * 3.0;
                        let r = from2.rotate_towards(to2, (k as $S) * $PI4);
                        near($cx, $c, "rotate_towards", stringify!($V2), &[2.0 * d[0], 2.0 * d[1]], &f64s!(r.to_array()), $rtol * 2.0);
                        // in 3-D, in each coordinate plane
                        for plane in 0..3 {
                            let emb = |x: $S, y: $S| match plane { 0 => $V3::new(x, y, 0.0), 1 => $V3::new(0.0, x, y), _ => $V3::new(y, 0.0, x) };
                            let embf = |x: f64, y: f64| match plane { 0 => [x, y, 0.0], 1 => [0.0, x, y], _ => [y, 0.0, x] };
                            let r3 = emb(from2.x, from2.y).rotate_towards(emb(to2.x, to2.y), (k as $S) * $PI4);
                            near($cx, $c, "rotate_towards", stringify!($V3), &embf(2.0 * d[0], 2.0 * d[1]), &f64s!(r3.to_array()), $rtol * 2.0);
                            $( let f3 = emb(from2.x, from2.y); let t3 = emb(to2.x, to2.y);
                               let rx = $V3X::from(f3).rotate_towards($V3X::from(t3), (k as $S) * $PI4);
                               near($cx, $c, "rotate_towards", stringify!($V3X), &embf(2.0 * d[0], 2.0 * d[1]), &f64s!(rx.to_array()), $rtol * 2.0); )*
                        }
                    }
                } else {
                    let len = e["len4"].as_i64().unwrap() as f64 / 4.0;
                    let s = (k as $S) * 0.25;
                    for plane in 0..3 {
                        let emb = |x: $S, y: $S| match plane { 0 => $V3::new(x, y, 0.0), 1 => $V3::new(0.0, x, y), _ => $V3::new(y, 0.0, x) };
                        let embf = |x: f64, y: f64| match plane { 0 => [x, y, 0.0], 1 => [0.0, x, y], _ => [y, 0.0, x] };
                        let f3 = emb(ai.cos() * 2.0, ai.sin() * 2.0); let t3 = emb(aj.cos() * 3.0, aj.sin() * 3.0);
                        near($cx, $c, "slerp", stringify!($V3), &embf(len * d[0], len * d[1]), &f64s!(f3.slerp(t3, s).to_array()), $rtol * 3.0);
                        $( near($cx, $c, "slerp", stringify!($V3X), &embf(len * d[0], len * d[1]), &f64s!($V3X::from(f3).slerp($V3X::from(t3), s).to_array()), $rtol * 3.0); )*
                    }
                }
            }
            "arc" => {
                let f = ringv(&e["from"]); let t = ringv(&e["to"]);
                let from = $V3::new(f[0] as $S, f[1] as $S, f[2] as $S).normalize();
                let to = $V3::new(t[0] as $S, t[1] as $S, t[2] as $S).normalize();
                let q = $Q::from_rotation_arc(from, to);
                near($cx, $c, "from_rotation_arc(a, b) * a = b", stringify!($Q), &f64s!(to.to_array()), &f64s!((q * from).to_array()), $tol * 4.0);
                near($cx, $c, "from_rotation_arc unit", stringify!($Q), &[1.0], &[q.length() as f64], $tol * 4.0);
                let qc = $Q::from_rotation_arc_colinear(from, to);
                let img = qc * from;
                holds($cx, $c, "from_rotation_arc_colinear aligns a with +-b", stringify!($Q), ((img.dot(to).abs() as f64) - 1.0).abs() <= $tol * 4.0, format!("{:?}", img));
                // at most a quarter turn
                holds($cx, $c, "from_rotation_arc_colinear rotates at most 90 degrees", stringify!($Q), (qc.w.abs() as f64) >= std::f64::consts::FRAC_1_SQRT_2 - $tol * 4.0, format!("{:?}", qc));
                if f[2] == 0.0 && t[2] == 0.0 {
                    let q2 = $Q::from_rotation_arc_2d($V2::new(from.x, from.y), $V2::new(to.x, to.y));
                    near($cx, $c, "from_rotation_arc_2d(a, b) * a = b", stringify!($Q), &f64s!(to.to_array()), &f64s!((q2 * from).to_array()), $tol * 4.0);
                    holds($cx, $c, "from_rotation_arc_2d is about z", stringify!($Q), q2.x == 0.0 && q2.y == 0.0, format!("{:?}", q2));
                }
            }
            "ortho" => {
                let f = ringv(&e["from"]);
                let v = $V3::new(f[0] as $S, f[1] as $S, f[2] as $S).normalize();
                let t = $tol * 4.0;
                let o = (v * 3.0).any_orthogonal_vector();
                holds($cx, $c, "any_orthogonal_vector is orthogonal and non-zero", stringify!($V3), (o.dot(v) as f64).abs() <= t * 3.0 && o.length() > 0.5, format!("{:?}", o));
                let n = v.any_orthonormal_vector();
                holds($cx, $c, "any_orthonormal_vector is orthogonal and unit", stringify!($V3), (n.dot(v) as f64).abs() <= t && ((n.length() as f64) - 1.0).abs() <= t, format!("{:?}", n));
                let (p, q) = v.any_orthonormal_pair();
                let okp = (p.dot(v) as f64).abs() <= t && (q.dot(v) as f64).abs() <= t && (p.dot(q) as f64).abs() <= t
                    && ((p.length() as f64) - 1.0).abs() <= t && ((q.length() as f64) - 1.0).abs() <= t;
                holds($cx, $c, "any_orthonormal_pair is an orthonormal frame with the input", stringify!($V3), okp, format!("{:?} {:?}", p, q));
                $( let vx = $V3X::from(v);
                   let (p, q) = vx.any_orthonormal_pair();
                   let okx = (p.dot(vx) as f64).abs() <= t && (q.dot(vx) as f64).abs() <= t && (p.dot(q) as f64).abs() <= t && ((p.length() as f64) - 1.0).abs() <= t && ((q.length() as f64) - 1.0).abs() <= t
                       && ((vx * 3.0).any_orthogonal_vector().dot(vx) as f64).abs() <= t * 3.0 && (vx.any_orthonormal_vector().dot(vx) as f64).abs() <= t;
                   holds($cx, $c, "any_ortho* family", stringify!($V3X), okx, format!("{:?} {:?}", p, q)); )*
                // 2-D perp as the orthogonal vector
                let v2 = $V2::new(v.x, v.y);
                holds($cx, $c, "perp is orthogonal", stringify!($V2), (v2.perp().dot(v2) as f64).abs() <= t, String::new());
            }
            "move" => {
                // from p towards p + scale*(3,4,0)-type Pythagorean offsets (length 5*scale), step `j`
                let (i, j, k) = ($c["i"].as_i64().unwrap(), $c["j"].as_i64().unwrap(), $c["k"].as_i64().unwrap());
                let sc = k as $S;
                let offs: [[$S; 4]; 4] = [[3.0, 4.0, 0.0, 0.0], [0.0, -3.0, 4.0, 0.0], [4.0, 0.0, -3.0, 0.0], [-3.0, -4.0, 0.0, 0.0]];
                let o = offs[i as usize];
                let len = 5.0 * sc as f64;
                let d = j as f64;
                let base: [$S; 4] = [1.0, -2.0, 0.5, 3.0];
                let tgt: Vec<$S> = (0..4).map(|l| base[l] + o[l] * sc).collect();
                let expect: Vec<f64> = if d >= len { f64s!(tgt) } else { (0..4).map(|l| base[l] as f64 + (o[l] as f64) * (sc as f64) * d / len).collect() };
                let t = $tol * 8.0;
                let r2 = $V2::new(base[0], base[1]).move_towards($V2::new(base[0] + o[0] * sc, base[1] + o[1] * sc), d as $S);
                if o[2] == 0.0 { near($cx, $c, "move_towards", stringify!($V2), &expect[..2], &f64s!(r2.to_array()), t); }
                let r3 = $V3::new(base[0], base[1], base[2]).move_towards($V3::new(tgt[0], tgt[1], tgt[2]), d as $S);
                near($cx, $c, "move_towards", stringify!($V3), &expect[..3], &f64s!(r3.to_array()), t);
                $( let rx = $V3X::new(base[0], base[1], base[2]).move_towards($V3X::new(tgt[0], tgt[1], tgt[2]), d as $S);
                   near($cx, $c, "move_towards", stringify!($V3X), &expect[..3], &f64s!(rx.to_array()), t); )*
                let r4 = $V4::new(base[0], base[1], base[2], base[3]).move_towards($V4::new(tgt[0], tgt[1], tgt[2], tgt[3]), d as $S);
                near($cx, $c, "move_towards", stringify!($V4), &expect, &f64s!(r4.to_array()), t);
                if d >= len {
                    // the target itself, exactly, once within reach
                    holds($cx, $c, "move_towards returns the target itself once within reach", stringify!($V3), r3 == $V3::new(tgt[0], tgt[1], tgt[2]), format!("{:?}", r3));
                }
            }
            "clamp" => {
                let (i, j, k) = ($c["i"].as_i64().unwrap(), $c["j"].as_i64().unwrap(), $c["k"].as_i64().unwrap());
                let vs: [[$S; 3]; 4] = [[3.0, 4.0, 0.0], [0.0, -6.0, 8.0], [2.0, 3.0, 6.0], [-1.0, -2.0, 2.0]];   // lengths 5, 10, 7, 3
                let lens = [5.0f64, 10.0, 7.0, 3.0];
                let v = vs[i as usize]; let len = lens[i as usize];
                let (mn, mx) = (j as f64, (j + k) as f64);
                let want = len.max(mn).min(mx);
                let dir: Vec<f64> = v.iter().map(|x| *x as f64 / len).collect();
                let t = $tol * 16.0;
                let ex: Vec<f64> = dir.iter().map(|x| x * want).collect();
                near($cx, $c, "clamp_length", stringify!($V3), &ex, &f64s!($V3::new(v[0], v[1], v[2]).clamp_length(mn as $S, mx as $S).to_array()), t);
                let exmax: Vec<f64> = dir.iter().map(|x| x * len.min(mx)).collect();
                near($cx, $c, "clamp_length_max", stringify!($V3), &exmax, &f64s!($V3::new(v[0], v[1], v[2]).clamp_length_max(mx as $S).to_array()), t);
                let exmin: Vec<f64> = dir.iter().map(|x| x * len.max(mn)).collect();
                near($cx, $c, "clamp_length_min", stringify!($V3), &exmin, &f64s!($V3::new(v[0], v[1], v[2]).clamp_length_min(mn as $S).to_array()), t);
                $( near($cx, $c, "clamp_length", stringify!($V3X), &ex, &f64s!($V3X::new(v[0], v[1], v[2]).clamp_length(mn as $S, mx as $S).to_array()), t);
                   near($cx, $c, "clamp_length_max", stringify!($V3X), &exmax, &f64s!($V3X::new(v[0], v[1], v[2]).clamp_length_max(mx as $S).to_array()), t);
                   near($cx, $c, "clamp_length_min", stringify!($V3X), &exmin, &f64s!($V3X::new(v[0], v[1], v[2]).clamp_length_min(mn as $S).to_array()), t); )*
                if v[2] == 0.0 {
                    near($cx, $c, "clamp_length", stringify!($V2), &ex[..2], &f64s!($V2::new(v[0], v[1]).clamp_length(mn as $S, mx as $S).to_array()), t);
                }
                let v4 = $V4::new(v[0], v[1], v[2], 0.0);
                near($cx, $c, "clamp_length", stringify!($V4), &[ex[0], ex[1], ex[2], 0.0], &f64s!(v4.clamp_length(mn as $S, mx as $S).to_array()), t);
            }
            _ => panic!("kind {kind}"),
        }
    }};
}

fn main() {
    let args: Vec<String> = std::env::args().collect();
    quiet_panics();
    fl::selftest();
    let mut rep = Report::new();
    let mut cx = Cx { rep: &mut rep };
    let mut n = 0u64;
    read_cases(&args[1], "CASE", |c| {
        if c["fam"] != "interp" { return; }
        n += 1;
        cx.rep.nontrivial += 1;
        cx.rep.count_op(c["kind"].as_str().unwrap(), 1);
        if cx.rep.samples.len() < 4 && n % 701 == 1 { cx.rep.samples.push(c.clone()); }
        let r = catch(|| {
            let c = &c;
            let cx = &mut cx;
            run_width!(cx, c, f32, "f32", 1e-5, 2e-4, core::f32::consts::FRAC_PI_4, from_f32, to_f32, Vec2, Vec3, Vec4, Quat, Mat3, [Vec3A]);
            run_width!(cx, c, f64, "f64", 1e-12, 1e-9, core::f64::consts::FRAC_PI_4, from_f64, to_f64, DVec2, DVec3, DVec4, DQuat, DMat3, []);
        });
        if let Err(p) = r {
            cx.rep.mismatch(json!({"prop": "C12", "ty": "any", "op": c["kind"], "what": "panic", "panic": p, "case": c}));
        }
    });
    rep.cases = n;
    rep.write(&args[2]);
    println!("interp[{}]: cases={} evals={} mismatches={}", rep.cfg, rep.cases, rep.evals, rep.mismatch_count);
}
