//! Replay of family `hid` (C08): programs over Vec3A / Mat3A / Affine3A / BVec3A registers are
//! executed once per hidden-lane payload; every visible result and observation must be
//! bit-identical across payloads (and equal to the run whose hidden lanes are benign copies).

use glam::*;
use hx::*;
use serde_json::{json, Value};

#[derive(Clone, Copy)]
struct Regs {
    v: [Vec3A; 3],
    m: [Mat3A; 2],
    a: [Affine3A; 2],
    b: [BVec3A; 2],
}

const PAYLOADS: [u32; 12] = [
    0x0000_0000, // benign-ish zero (index 0 is replaced by "copy of z", i.e. plain new())
    0x3f00_0000, // 0.5
    0x7f7f_ffff, // f32::MAX
    0x7f80_0000, // +inf
    0xff80_0000, // -inf
    0x7fc0_0000, // quiet NaN
    0x7fa0_0000, // signalling NaN
    0xffff_ffff, // all ones (a true mask lane / negative NaN)
    0x8000_0000, // -0.0
    0x0000_0001, // subnormal
    0xc47a_0000, // -1000: below every visible lane
    0x447a_0000, // +1000: above every visible lane
];

fn inject(x: f32, y: f32, z: f32, p: usize) -> Vec3A {
    if p == 0 {
        return Vec3A::new(x, y, z);
    }
    let h = f32::from_bits(PAYLOADS[p]);
    if p % 3 == 1 {
        // a route that does not go through from_vec4: new() leaves a copy of z in the hidden lane, and a later write of the z lane through
        // a field, an index, AsMut or with_z leaves that copy behind
        let mut v = Vec3A::new(x, y, h);
        match (p / 3) % 4 { 0 => { v.z = z; } 1 => { v[2] = z; } 2 => { v.as_mut()[2] = z; } _ => { v = v.with_z(z); } }
        return v;
    }
    if p % 2 == 0 {
        Vec3A::from_vec4(Vec4::new(x, y, z, h))
    } else {
        #[cfg(all(target_feature = "sse2", not(feature = "scalar-math"), not(feature = "core-simd")))]
        {
            let r: core::arch::x86_64::__m128 = Vec4::new(x, y, z, h).into();
            return Vec3A::from(r);
        }
        #[allow(unreachable_code)]
        Vec3A::from_vec4(Vec4::new(x, y, z, h))
    }
}
fn reinject(v: Vec3A, p: usize) -> Vec3A {
    let a = v.to_array();
    inject(a[0], a[1], a[2], p)
}
fn inject_m(m: Mat3A, p: usize) -> Mat3A {
    Mat3A::from_cols(reinject(m.x_axis, p), reinject(m.y_axis, (p + 3) % PAYLOADS.len()), reinject(m.z_axis, (p + 5) % PAYLOADS.len()))
}
fn inject_a(a: Affine3A, p: usize) -> Affine3A {
    if p % 3 == 1 {
        // through Mat4 -> Affine3A: the last row of the Mat4 lands in the hidden lanes
        let mut m4 = Mat4::from(a);
        let h = f32::from_bits(PAYLOADS[p]);
        m4.x_axis.w = h;
        m4.y_axis.w = h;
        m4.z_axis.w = h;
        m4.w_axis.w = h;
        // from_mat4 has a glam_assert on the last row only with glam-assert; payload builds run without it
        Affine3A { matrix3: Mat3A::from_cols(Vec3A::from_vec4(m4.x_axis), Vec3A::from_vec4(m4.y_axis), Vec3A::from_vec4(m4.z_axis)), translation: Vec3A::from_vec4(m4.w_axis) }
    } else {
        Affine3A { matrix3: inject_m(a.matrix3, p), translation: reinject(a.translation, (p + 7) % PAYLOADS.len()) }
    }
}
fn inject_b(lanes: [bool; 3], p: usize) -> BVec3A {
    // a comparison of tainted vectors produces a mask with an arbitrary hidden lane
    let f = |b: bool| if b { 1.0f32 } else { 0.0 };
    let l = inject(f(lanes[0]), f(lanes[1]), f(lanes[2]), p);
    let r = inject(1.0, 1.0, 1.0, (p + 1) % PAYLOADS.len());
    if p == 0 { BVec3A::new(lanes[0], lanes[1], lanes[2]) } else if p % 2 == 0 { l.cmpeq(r) } else { !(l.cmpne(r)) }
}

fn init(p: usize) -> Regs {
    let m = Mat3A::from_cols_array(&[2.0, 0.5, -1.0, 0.0, 1.5, 3.0, -2.0, 1.0, 0.25]);
    let a = Affine3A::from_cols_array(&[1.0, 2.0, 0.0, -0.5, 1.0, 2.0, 0.0, -1.0, 1.5, 3.0, -4.0, 5.0]);
    Regs {
        v: [inject(1.5, -2.0, 3.0, p), inject(4.0, 0.25, -1.0, (p + 1) % PAYLOADS.len().max(1)), inject(-0.5, 2.5, 8.0, p)],
        m: [inject_m(m, p), inject_m(m.transpose() * 0.5, p)],
        a: [inject_a(a, p), inject_a(a.inverse(), p)],
        b: [inject_b([true, false, true], p), inject_b([false, false, true], p)],
    }
}

fn vi(r: &str) -> usize { (r.as_bytes()[1] - b'0') as usize }

fn step(rg: &mut Regs, st: &Value, p: usize) {
    let op = st["op"].as_str().unwrap();
    let a = st["a"].as_str().unwrap();
    let b = st["b"].as_str().unwrap();
    let dst = st["dst"].as_str().unwrap();
    let q = Quat::from_xyzw(0.5, -0.5, 0.5, 0.5);
    let m4 = Mat4::from_cols_array(&[1.0, 0.5, 0.0, 0.0, -0.5, 2.0, 1.0, 0.0, 0.25, 0.0, 1.5, 0.5, 3.0, -2.0, 1.0, 2.0]);
    let s = 2.5f32;
    match dst.as_bytes()[0] {
        b'v' => {
            let r: Vec3A = match op {
                "add" => rg.v[vi(a)] + rg.v[vi(b)],
                "sub" => rg.v[vi(a)] - rg.v[vi(b)],
                "mul" => rg.v[vi(a)] * rg.v[vi(b)],
                "div" => rg.v[vi(a)] / rg.v[vi(b)],
                "rem" => rg.v[vi(a)] % rg.v[vi(b)],
                "min" => rg.v[vi(a)].min(rg.v[vi(b)]),
                "max" => rg.v[vi(a)].max(rg.v[vi(b)]),
                "cross" => rg.v[vi(a)].cross(rg.v[vi(b)]),
                "copysign" => rg.v[vi(a)].copysign(rg.v[vi(b)]),
                "project_onto" => rg.v[vi(a)].project_onto(rg.v[vi(b)]),
                "reject_from" => rg.v[vi(a)].reject_from(rg.v[vi(b)]),
                "reflect" => rg.v[vi(a)].reflect(rg.v[vi(b)]),
                "midpoint" => rg.v[vi(a)].midpoint(rg.v[vi(b)]),
                "div_euclid" => rg.v[vi(a)].div_euclid(rg.v[vi(b)]),
                "rem_euclid" => rg.v[vi(a)].rem_euclid(rg.v[vi(b)]),
                "dot_into_vec" => rg.v[vi(a)].dot_into_vec(rg.v[vi(b)]),
                "neg" => -rg.v[vi(a)],
                "abs" => rg.v[vi(a)].abs(),
                "signum" => rg.v[vi(a)].signum(),
                "floor" => rg.v[vi(a)].floor(),
                "ceil" => rg.v[vi(a)].ceil(),
                "round" => rg.v[vi(a)].round(),
                "trunc" => rg.v[vi(a)].trunc(),
                "fract" => rg.v[vi(a)].fract(),
                "fract_gl" => rg.v[vi(a)].fract_gl(),
                "recip" => rg.v[vi(a)].recip(),
                "exp" => rg.v[vi(a)].exp(),
                "normalize" => rg.v[vi(a)].normalize(),
                "normalize_or_zero" => rg.v[vi(a)].normalize_or_zero(),
                "any_orthogonal_vector" => rg.v[vi(a)].any_orthogonal_vector(),
                "any_orthonormal_vector" => rg.v[vi(a)].normalize_or_zero().any_orthonormal_vector(),
                "zyx" => rg.v[vi(a)].zyx(),
                "yzx" => rg.v[vi(a)].yzx(),
                "xxy" => rg.v[vi(a)].xxy(),
                "zzz" => rg.v[vi(a)].zzz(),
                "with_x" => rg.v[vi(a)].with_x(7.0),
                "with_z" => { let mut t = rg.v[vi(a)]; t.z = -7.0; t }
                "mul_s" => rg.v[vi(a)] * s,
                "s_mul" => s * rg.v[vi(a)],
                "add_s" => rg.v[vi(a)] + s,
                "div_s" => rg.v[vi(a)] / s,
                "clamp_length_max" => rg.v[vi(a)].clamp_length_max(2.0),
                "lerp_self" => rg.v[vi(a)].lerp(rg.v[(vi(a) + 1) % 3], 0.25),
                "from_vec3_roundtrip" => Vec3A::from(Vec3::from(rg.v[vi(a)])),
                "extend_truncate" => Vec3A::from((rg.v[vi(a)].truncate(), rg.v[vi(a)].extend(1.0).z)),
                "quat_mul" => q * rg.v[vi(a)],
                "mat4_transform_point3a" => m4.transform_point3a(rg.v[vi(a)]),
                "mat4_transform_vector3a" => m4.transform_vector3a(rg.v[vi(a)]),
                "mat4_project_point3a" => m4.project_point3a(rg.v[vi(a)]),
                "inject" => reinject(rg.v[vi(a)], p),
                "select" => Vec3A::select(rg.b[vi(a)], rg.v[0], rg.v[1]),
                "mat_mul_vec3a" => rg.m[vi(a)].mul_vec3a(rg.v[vi(b)]),
                "mat_mul_op" => rg.m[vi(a)] * rg.v[vi(b)],
                "col1" => rg.m[vi(a)].col(1),
                "row2" => rg.m[vi(a)].row(2),
                "transform_point3a" => rg.a[vi(a)].transform_point3a(rg.v[vi(b)]),
                "transform_vector3a" => rg.a[vi(a)].transform_vector3a(rg.v[vi(b)]),
                _ => panic!("op {op}"),
            };
            rg.v[vi(dst)] = r;
        }
        b'b' => {
            let r: BVec3A = match op {
                "cmpeq" => rg.v[vi(a)].cmpeq(rg.v[vi(b)]),
                "cmpne" => rg.v[vi(a)].cmpne(rg.v[vi(b)]),
                "cmplt" => rg.v[vi(a)].cmplt(rg.v[vi(b)]),
                "cmple" => rg.v[vi(a)].cmple(rg.v[vi(b)]),
                "cmpgt" => rg.v[vi(a)].cmpgt(rg.v[vi(b)]),
                "cmpge" => rg.v[vi(a)].cmpge(rg.v[vi(b)]),
                "is_nan_mask" => rg.v[vi(a)].is_nan_mask(),
                "is_finite_mask" => rg.v[vi(a)].is_finite_mask(),
                "and" => rg.b[vi(a)] & rg.b[vi(b)],
                "or" => rg.b[vi(a)] | rg.b[vi(b)],
                "xor" => rg.b[vi(a)] ^ rg.b[vi(b)],
                "not" => !rg.b[vi(a)],
                _ => panic!("op {op}"),
            };
            rg.b[vi(dst)] = r;
        }
        b'm' => {
            let r: Mat3A = match op {
                "transpose" => rg.m[vi(a)].transpose(),
                "inverse" => rg.m[vi(a)].inverse(),
                "neg_m" => -rg.m[vi(a)],
                "abs_m" => rg.m[vi(a)].abs(),
                "mul_s_m" => rg.m[vi(a)] * s,
                "inject_m" => inject_m(rg.m[vi(a)], p),
                "mul_mat3" => rg.m[vi(a)] * rg.m[vi(b)],
                "add_mat3" => rg.m[vi(a)] + rg.m[vi(b)],
                "sub_mat3" => rg.m[vi(a)] - rg.m[vi(b)],
                "from_cols" => Mat3A::from_cols(rg.v[0], rg.v[1], rg.v[2]),
                "matrix3_of" => rg.a[vi(a)].matrix3,
                _ => panic!("op {op}"),
            };
            rg.m[vi(dst)] = r;
        }
        _ => {
            let r: Affine3A = match op {
                "inverse_a" => rg.a[vi(a)].inverse(),
                "inject_a" => inject_a(rg.a[vi(a)], p),
                "mul_a" => rg.a[vi(a)] * rg.a[vi(b)],
                "from_mat3a_a" => Affine3A::from_mat3(Mat3::from(rg.m[vi(a)])),
                _ => panic!("op {op}"),
            };
            rg.a[vi(dst)] = r;
        }
    }
}

/// everything the public API can tell about the registers, as comparable words
fn observe(rg: &Regs, out: &mut Vec<u64>, txt: &mut String) {
    let f = |x: f32| x.to_bits() as u64;
    for v in rg.v.iter() {
        let v = *v;
        out.extend(v.to_array().iter().map(|x| f(*x)));
        out.extend([f(v.x), f(v.y), f(v.z), f(v[0]), f(v[1]), f(v[2])]);
        out.extend([f(v.length()), f(v.length_squared()), f(v.length_recip()), f(v.dot(v)), f(v.min_element()), f(v.max_element()),
                    f(v.element_sum()), f(v.element_product()), v.min_position() as u64, v.max_position() as u64,
                    v.is_nan() as u64, v.is_finite() as u64, v.is_negative_bitmask() as u64, v.is_normalized() as u64]);
        let clean = Vec3A::from_array(v.to_array());
        out.extend([(v == clean) as u64, (v != clean) as u64, v.cmpeq(clean).bitmask() as u64, v.cmpeq(clean).all() as u64,
                    v.cmpne(clean).any() as u64, v.abs_diff_eq(clean, 0.0) as u64, f(v.distance(clean)), f(v.angle_between(rg.v[0]))]);
        let a3: [f32; 3] = v.into(); out.extend(a3.iter().map(|x| f(*x)));
        let t3: (f32, f32, f32) = v.into(); out.extend([f(t3.0), f(t3.1), f(t3.2)]);
        out.extend(Vec3::from(v).to_array().iter().map(|x| f(*x)));
        out.extend(v.extend(9.0).to_array().iter().map(|x| f(*x)));
        out.extend(v.truncate().to_array().iter().map(|x| f(*x)));
        out.extend(v.xyzz().to_array().iter().map(|x| f(*x)));
        out.extend(v.zzzz().to_array().iter().map(|x| f(*x)));
        out.extend(v.zyx().to_array().iter().map(|x| f(*x)));
        out.extend(v.zy().to_array().iter().map(|x| f(*x)));
        out.extend(v.as_dvec3().to_array().iter().map(|x| x.to_bits()));
        out.extend(v.as_ivec3().to_array().iter().map(|x| *x as u32 as u64));
        let r: &[f32; 3] = v.as_ref(); out.extend(r.iter().map(|x| f(*x)));
        let mut heap = vec![0.0f32; 3]; v.write_to_slice(&mut heap[..]); out.extend(heap.iter().map(|x| f(*x)));
        // a destination with room to spare: what lies beyond the value must stay as it was, whatever the hidden lane holds
        let mut long = vec![0.0f32; 6]; v.write_to_slice(&mut long[..]); out.extend(long.iter().map(|x| f(*x)));
        out.extend([f(v.normalize_or_zero().x), f(v.max(clean).z), f(v.min(clean).z), f((v * clean).z)]);
        let sum: Vec3A = [v, clean].iter().sum(); out.extend(sum.to_array().iter().map(|x| f(*x)));
        txt.push_str(&format!("{:?}|{}|{:.3}|", v, v, v));
    }
    for m in rg.m.iter() {
        let m = *m;
        out.extend(m.to_cols_array().iter().map(|x| f(*x)));
        out.extend(m.to_cols_array_2d().iter().flatten().map(|x| f(*x)));
        out.extend([f(m.determinant()), m.is_nan() as u64, m.is_finite() as u64]);
        out.extend(m.transpose().to_cols_array().iter().map(|x| f(*x)));
        out.extend(m.inverse().to_cols_array().iter().map(|x| f(*x)));
        out.extend((m * m).to_cols_array().iter().map(|x| f(*x)));
        out.extend((m * Vec3A::new(1.0, 2.0, 3.0)).to_array().iter().map(|x| f(*x)));
        out.extend((m * Vec3::new(1.0, 2.0, 3.0)).to_array().iter().map(|x| f(*x)));
        out.extend(m.row(1).to_array().iter().map(|x| f(*x)));
        out.extend(m.col(2).to_array().iter().map(|x| f(*x)));
        let clean = Mat3A::from_cols_array(&m.to_cols_array());
        out.extend([(m == clean) as u64, m.abs_diff_eq(clean, 0.0) as u64]);
        out.extend(Mat3::from(m).to_cols_array().iter().map(|x| f(*x)));
        out.extend(Mat4::from_mat3a(m).to_cols_array().iter().map(|x| f(*x)));
        out.extend(m.as_dmat3().to_cols_array().iter().map(|x| x.to_bits()));
        out.extend(Mat2::from_mat3a(m).to_cols_array().iter().map(|x| f(*x)));
        out.extend(Mat2::from_mat3a_minor(m, 1, 2).to_cols_array().iter().map(|x| f(*x)));
        let mut heap = vec![0.0f32; 9]; m.write_cols_to_slice(&mut heap[..]); out.extend(heap.iter().map(|x| f(*x)));
        let mut long = vec![0.0f32; 13]; m.write_cols_to_slice(&mut long[..]); out.extend(long.iter().map(|x| f(*x)));
        out.extend(m.transform_point2(Vec2::new(1.0, 2.0)).to_array().iter().map(|x| f(*x)));
        txt.push_str(&format!("{:?}|{}|", m, m));
    }
    for a in rg.a.iter() {
        let a = *a;
        out.extend(a.to_cols_array().iter().map(|x| f(*x)));
        out.extend(a.to_cols_array_2d().iter().flatten().map(|x| f(*x)));
        out.extend([a.is_nan() as u64, a.is_finite() as u64]);
        out.extend(a.inverse().to_cols_array().iter().map(|x| f(*x)));
        out.extend((a * a).to_cols_array().iter().map(|x| f(*x)));
        out.extend(a.transform_point3(Vec3::new(1.0, 2.0, 3.0)).to_array().iter().map(|x| f(*x)));
        out.extend(a.transform_vector3(Vec3::new(1.0, 2.0, 3.0)).to_array().iter().map(|x| f(*x)));
        out.extend(a.transform_point3a(Vec3A::new(1.0, 2.0, 3.0)).to_array().iter().map(|x| f(*x)));
        out.extend(Mat4::from(a).to_cols_array().iter().map(|x| f(*x)));
        out.extend((a * Mat4::IDENTITY).to_cols_array().iter().map(|x| f(*x)));
        out.extend((Mat4::IDENTITY * a).to_cols_array().iter().map(|x| f(*x)));
        let clean = Affine3A::from_cols_array(&a.to_cols_array());
        out.extend([(a == clean) as u64, a.abs_diff_eq(clean, 0.0) as u64]);
        let mut heap = vec![0.0f32; 12]; a.write_cols_to_slice(&mut heap[..]); out.extend(heap.iter().map(|x| f(*x)));
        let mut long = vec![0.0f32; 16]; a.write_cols_to_slice(&mut long[..]); out.extend(long.iter().map(|x| f(*x)));
        out.extend(a.as_daffine3().to_cols_array().iter().map(|x| x.to_bits()));
        txt.push_str(&format!("{:?}|{}|", a, a));
    }
    for b in rg.b.iter() {
        let b = *b;
        let l: [bool; 3] = b.into();
        let u: [u32; 3] = b.into();
        out.extend([b.bitmask() as u64, b.any() as u64, b.all() as u64, b.test(0) as u64, b.test(1) as u64, b.test(2) as u64]);
        out.extend(l.iter().map(|x| *x as u64));
        out.extend(u.iter().map(|x| *x as u64));
        let clean = BVec3A::new(l[0], l[1], l[2]);
        out.extend([(b == clean) as u64, (b != clean) as u64, (!b).bitmask() as u64, (b & clean).bitmask() as u64, (b ^ clean).any() as u64]);
        out.extend(Vec3A::select(b, Vec3A::X, Vec3A::NEG_ONE).to_array().iter().map(|x| f(*x)));
        out.extend(Vec3A::from(b).to_array().iter().map(|x| f(*x)));
        use std::hash::{Hash, Hasher};
        let mut h = std::collections::hash_map::DefaultHasher::new();
        b.hash(&mut h);
        let mut h2 = std::collections::hash_map::DefaultHasher::new();
        clean.hash(&mut h2);
        out.push((h.finish() == h2.finish()) as u64);
        txt.push_str(&format!("{:?}|{}|", b, b));
    }
}

fn main() {
    let args: Vec<String> = std::env::args().collect();
    quiet_panics();
    let mut rep = Report::new();
    let stride: u64 = std::env::var("HX_STRIDE").ok().and_then(|s| s.parse().ok()).unwrap_or(1);
    let seed: u64 = std::env::var("VERIF_SEED").ok().and_then(|s| s.parse().ok()).unwrap_or(1);
    let mut n = 0u64;
    let mut seen = 0u64;
    // optional trace of the benign-payload run (bit digests), compared between CPU-feature builds by TLC
    let mut trace = std::env::var("HX_TRACE").ok().map(|p| std::io::BufWriter::new(std::fs::File::create(p).unwrap()));
    // optional trace of EVERY run: one event per (program, payload, step) with a digest of everything observable after the step;
    // spec/Trace_C08.tla accepts it iff the digest does not depend on the payload
    let mut ptrace = std::env::var("HX_PTRACE").ok().map(|p| std::io::BufWriter::new(std::fs::File::create(p.replace("%CFG%", &hx::cfg_name())).unwrap()));
    read_cases(&args[1], "CASE", |c| {
        if c["fam"] != "hid" { return; }
        seen += 1;
        let steps = c["prog"].as_array().unwrap();
        // single-step programs are always run; longer ones are strided
        if steps.len() > 1 && (seen + seed) % stride != 0 { return; }
        n += 1;
        rep.nontrivial += 1;
        rep.count_op(steps[0]["op"].as_str().unwrap(), 1);
        if rep.samples.len() < 3 && n % 5003 == 1 { rep.samples.push(c.clone()); }
        let mut reference: Option<(Vec<Vec<u64>>, Vec<String>)> = None;
        for p in 0..PAYLOADS.len() {
            let r = catch(|| {
                let mut rg = init(p);
                let mut obs: Vec<Vec<u64>> = vec![];
                let mut txts: Vec<String> = vec![];
                for st in steps {
                    step(&mut rg, st, p);
                    let mut o = vec![];
                    let mut t = String::new();
                    observe(&rg, &mut o, &mut t);
                    obs.push(o);
                    txts.push(t);
                }
                (obs, txts)
            });
            rep.evals += 1;
            if let (Some(t), Ok(o)) = (ptrace.as_mut(), &r) {
                use std::io::Write;
                for (k, (ws, tx)) in o.0.iter().zip(&o.1).enumerate() {
                    let mut h: u64 = 0xcbf2_9ce4_8422_2325;
                    for w in ws { h ^= *w; h = h.wrapping_mul(0x1000_0000_01b3); }
                    for b in tx.bytes() { h ^= b as u64; h = h.wrapping_mul(0x1000_0000_01b3); }
                    writeln!(t, "{{\"c\":{},\"p\":{},\"k\":{},\"h\":\"{:016x}\"}}", n, p, k, h).unwrap();
                }
            }
            match (r, &reference) {
                (Err(pn), _) => {
                    rep.mismatch(json!({"prop": "C08", "ty": "Vec3A/Mat3A/Affine3A/BVec3A", "op": steps.last().unwrap()["op"], "payload": format!("{:#x}", PAYLOADS[p]),
                        "what": "panic", "panic": pn, "case": c}));
                    break;
                }
                (Ok(o), None) => {
                    if let Some(t) = trace.as_mut() {
                        use std::io::Write;
                        let mut h: u64 = 0xcbf2_9ce4_8422_2325;
                        for w in o.0.iter().flatten() { h ^= *w; h = h.wrapping_mul(0x1000_0000_01b3); }
                        for s in &o.1 { for b in s.bytes() { h ^= b as u64; h = h.wrapping_mul(0x1000_0000_01b3); } }
                        writeln!(t, "{{\"c\":{},\"k\":0,\"h\":\"{:016x}\"}}", n, h).unwrap();
                    }
                    reference = Some(o)
                }
                (Ok(o), Some(rf)) => {
                    if o != *rf {
                        // locate the first differing observation
                        let mut loc = String::new();
                        'f: for (k, (x, y)) in o.0.iter().zip(&rf.0).enumerate() {
                            for (i, (u, w)) in x.iter().zip(y).enumerate() {
                                if u != w { loc = format!("step {k} observation word {i}: {:#x} vs {:#x} (payload copy-of-z)", u, w); break 'f; }
                            }
                        }
                        if loc.is_empty() {
                            for (k, (x, y)) in o.1.iter().zip(&rf.1).enumerate() { if x != y { loc = format!("step {k} text: {x} vs {y}"); break; } }
                        }
                        rep.mismatch(json!({"prop": "C08", "ty": "Vec3A/Mat3A/Affine3A/BVec3A", "op": steps.last().unwrap()["op"],
                            "payload": format!("{:#x}", PAYLOADS[p]), "what": loc, "prog": c["prog"], "case": c}));
                        break;
                    }
                }
            }
        }
    });
    rep.cases = n;
    rep.write(&args[2]);
    println!("hid[{}]: programs={} runs={} mismatches={}", rep.cfg, rep.cases, rep.evals, rep.mismatch_count);
}
