//! Replay of families `mask` and `select` (C15): the mask register machine on BVec2/3/4 and
//! BVec3A/4A, and select on every numeric vector type with token operands.

use glam::*;
use hx::tv::{tok_bits, Scalar, TV};
use hx::*;
use serde_json::{json, Value};
use std::hash::{Hash, Hasher};

/// records everything written to it, so that two Hash impls can be compared call by call
#[derive(Default)]
struct RecHasher(Vec<u8>);
impl Hasher for RecHasher {
    fn finish(&self) -> u64 { 0 }
    fn write(&mut self, b: &[u8]) { self.0.extend_from_slice(b); self.0.push(0xfe); }
}
fn rec_hash<T: Hash>(t: &T) -> Vec<u8> {
    let mut h = RecHasher::default();
    t.hash(&mut h);
    h.0
}

use hx::bm::*;

fn bools(v: &Value) -> Vec<bool> {
    v.as_array().unwrap().iter().map(|x| x.as_bool().unwrap()).collect()
}

/// compare everything observable about `m` with the specification's observation
fn observe<B: BM>(rep: &mut Report, c: &Value, k: usize, st: &Value, m: B, peer: Option<(Vec<u8>, String)>) -> bool {
    let o = &st["obs"];
    let lanes = bools(&o["lanes"]);
    let fresh = B::mk(&lanes);
    let mut bad: Vec<String> = vec![];
    if m.bools() != lanes { bad.push(format!("into [bool]: {:?}", m.bools())); }
    if m.bitmask_() as i64 != o["bitmask"].as_i64().unwrap() { bad.push(format!("bitmask {}", m.bitmask_())); }
    if m.any_() != o["any"].as_bool().unwrap() { bad.push(format!("any {}", m.any_())); }
    if m.all_() != o["all"].as_bool().unwrap() { bad.push(format!("all {}", m.all_())); }
    for i in 0..B::N {
        if m.test_(i) != lanes[i] { bad.push(format!("test({i}) {}", m.test_(i))); }
    }
    let eu: Vec<u32> = o["u32"].as_array().unwrap().iter().map(|x| if x.as_i64().unwrap() == 1 { u32::MAX } else { 0 }).collect();
    if m.u32s() != eu { bad.push(format!("into [u32]: {:x?}", m.u32s())); }
    if format!("{}", m) != o["display"].as_str().unwrap() { bad.push(format!("display {}", m)); }
    let ed = format!("{}{}", B::NAME, o["debug_args"].as_str().unwrap());
    if format!("{:?}", m) != ed { bad.push(format!("debug {:?} (expected {ed})", m)); }
    if !(m == fresh) || !(fresh == m) || (m != fresh) { bad.push("== with a freshly constructed mask of the same lanes is false".into()); }
    if rec_hash(&m) != rec_hash(&fresh) { bad.push("Hash differs from a freshly constructed mask of the same lanes".into()); }
    if let Some((ph, pd)) = peer {
        // BVec3A / BVec4A are observationally identical to BVec3 / BVec4
        // (the byte stream fed to the Hasher is NOT compared across the two types: BVec3 hashes its
        // three bools, BVec3A its bitmask; both are functions of the lanes only, which is all the
        // property asks -- demanding equal streams was a false alarm of an earlier version)
        let _ = ph;
        if format!("{}", m) != pd { bad.push("Display differs from the non-A mask type".into()); }
    }
    rep.evals += 1;
    if !bad.is_empty() {
        rep.mismatch(json!({"prop": "C15", "ty": B::NAME, "op": format!("{}:{}", st["act"].as_str().unwrap(), st["op"].as_str().unwrap()),
            "step": k, "exp": o, "observed": bad, "case": c}));
        return false;
    }
    true
}

fn run_mask_ty<B: BM>(rep: &mut Report, c: &Value, peer_of: fn(&[bool]) -> Option<(Vec<u8>, String)>) {
    let init = bools(&c["init"]);
    for m0 in B::variants(&init) {
        let mut m = m0;
        for (k, st) in c["steps"].as_array().unwrap().iter().enumerate() {
            let act = st["act"].as_str().unwrap();
            let op = st["op"].as_str().unwrap();
            let r = catch(|| match act {
                "ctor" => { m = B::ctor(op, &bools(&st["arg"])).unwrap(); true }
                "not" => { m = m.not_(); true }
                "bin" => {
                    // the operand through each of its own variants must give the same result
                    let arg = bools(&st["arg"]);
                    let vs = B::variants(&arg);
                    let r0 = m.bin(op, vs[0]);
                    for v in &vs[1..] {
                        if m.bin(op, *v).bools() != r0.bools() { panic!("result depends on how the operand mask was produced"); }
                    }
                    m = r0;
                    true
                }
                "set" => { m.set_(st["idx"].as_u64().unwrap() as usize, bools(&st["arg"])[0]); true }
                "badindex" => {
                    let i = st["idx"].as_i64().unwrap();
                    let idx = if i < 0 { usize::MAX } else { i as usize };
                    let before = m;
                    let p = if op == "test" { catch(|| { let _ = before.test_(idx); }).is_err() } else { let mut t = before; catch(|| t.set_(idx, true)).is_err() };
                    if !p { panic!("no panic for out-of-range index {idx} in {op}"); }
                    true
                }
                _ => panic!("act {act}"),
            });
            if let Err(p) = r {
                rep.mismatch(json!({"prop": "C15", "ty": B::NAME, "op": format!("{act}:{op}"), "step": k, "got": "panic/violation", "panic": p, "case": c}));
                break;
            }
            let lanes = bools(&st["obs"]["lanes"]);
            if !observe::<B>(rep, c, k, st, m, peer_of(&lanes)) { break; }
        }
    }
}

fn no_peer(_: &[bool]) -> Option<(Vec<u8>, String)> { None }
fn peer3(l: &[bool]) -> Option<(Vec<u8>, String)> { let p = BVec3::new(l[0], l[1], l[2]); Some((rec_hash(&p), format!("{}", p))) }
fn peer4(l: &[bool]) -> Option<(Vec<u8>, String)> { let p = BVec4::new(l[0], l[1], l[2], l[3]); Some((rec_hash(&p), format!("{}", p))) }

// ------------------------------------------------------------------ select
trait Sel: TV {
    fn select_(mask: &[bool], a: Self, b: Self) -> Vec<Self>;
}
macro_rules! impl_sel {
    ($($V:ident, $B:ident, [$($i:literal),+]);+ $(;)?) => {$(
        impl Sel for $V {
            fn select_(m: &[bool], a: Self, b: Self) -> Vec<Self> {
                <$B as BM>::variants(m).into_iter().map(|mk| $V::select(mk, a, b)).collect()
            }
        }
    )+};
}
impl_sel! {
    Vec2, BVec2, [0, 1]; Vec3, BVec3, [0, 1, 2]; Vec3A, BVec3A, [0, 1, 2]; Vec4, V4Mask, [0, 1, 2, 3];
    DVec2, BVec2, [0, 1]; DVec3, BVec3, [0, 1, 2]; DVec4, BVec4, [0, 1, 2, 3];
    I8Vec2, BVec2, [0, 1]; I8Vec3, BVec3, [0, 1, 2]; I8Vec4, BVec4, [0, 1, 2, 3];
    U8Vec2, BVec2, [0, 1]; U8Vec3, BVec3, [0, 1, 2]; U8Vec4, BVec4, [0, 1, 2, 3];
    I16Vec2, BVec2, [0, 1]; I16Vec3, BVec3, [0, 1, 2]; I16Vec4, BVec4, [0, 1, 2, 3];
    U16Vec2, BVec2, [0, 1]; U16Vec3, BVec3, [0, 1, 2]; U16Vec4, BVec4, [0, 1, 2, 3];
    IVec2, BVec2, [0, 1]; IVec3, BVec3, [0, 1, 2]; IVec4, BVec4, [0, 1, 2, 3];
    UVec2, BVec2, [0, 1]; UVec3, BVec3, [0, 1, 2]; UVec4, BVec4, [0, 1, 2, 3];
    I64Vec2, BVec2, [0, 1]; I64Vec3, BVec3, [0, 1, 2]; I64Vec4, BVec4, [0, 1, 2, 3];
    U64Vec2, BVec2, [0, 1]; U64Vec3, BVec3, [0, 1, 2]; U64Vec4, BVec4, [0, 1, 2, 3];
    USizeVec2, BVec2, [0, 1]; USizeVec3, BVec3, [0, 1, 2]; USizeVec4, BVec4, [0, 1, 2, 3];
}

fn run_select_ty<V: Sel>(rep: &mut Report, c: &Value) {
    let tk = |v: &Value| -> Vec<u64> { v.as_array().unwrap().iter().map(|x| tok_bits(<V::S as Scalar>::SC, x.as_str().unwrap())).collect() };
    let mask = bools(&c["mask"]);
    let eb = tk(&c["exp"]);
    for a in V::variants(&tk(&c["a"])) {
        for b in V::variants(&tk(&c["b"])) {
            for g in V::select_(&mask, a, b) {
                rep.evals += 1;
                if g.to_bits() != eb {
                    rep.mismatch(json!({"prop": "C15", "ty": V::NAME, "op": "select", "mask": c["mask"], "exp": c["exp"],
                        "got_bits": g.to_bits().iter().map(|x| format!("{:#x}", x)).collect::<Vec<_>>(), "case": c}));
                    return;
                }
            }
        }
    }
}

fn main() {
    let args: Vec<String> = std::env::args().collect();
    quiet_panics();
    let mut rep = Report::new();
    let mut n = 0u64;
    read_cases(&args[1], "CASE", |c| {
        match c["fam"].as_str().unwrap_or("") {
            "mask" => {
                let st = &c["steps"][0];
                rep.count_op(&format!("mask:{}", st["act"].as_str().unwrap()), 1);
                match c["n"].as_u64().unwrap() {
                    2 => run_mask_ty::<BVec2>(&mut rep, &c, no_peer),
                    3 => { run_mask_ty::<BVec3>(&mut rep, &c, no_peer); run_mask_ty::<BVec3A>(&mut rep, &c, peer3); }
                    _ => { run_mask_ty::<BVec4>(&mut rep, &c, no_peer); run_mask_ty::<BVec4A>(&mut rep, &c, peer4); }
                }
            }
            "select" => {
                rep.count_op("select", 1);
                macro_rules! go { ($V:ident) => { run_select_ty::<$V>(&mut rep, &c) }; }
                match c["n"].as_u64().unwrap() {
                    2 => { hx::for_tv2!(go); }
                    3 => { hx::for_tv3!(go); }
                    _ => { hx::for_tv4!(go); }
                }
            }
            _ => return,
        }
        n += 1;
        rep.nontrivial += 1;
        if rep.samples.len() < 3 && n % 1999 == 1 { rep.samples.push(c.clone()); }
    });
    rep.cases = n;
    rep.write(&args[2]);
    println!("mask[{}]: cases={} evals={} mismatches={} spec_errors={}", rep.cfg, rep.cases, rep.evals, rep.mismatch_count, rep.spec_error_count);
}
