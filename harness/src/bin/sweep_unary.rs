//! Development aid: exhaustive sweep of every f32 bit pattern through the unary lane-wise
//! operations of Vec3A / Vec4, compared with the Rust primitive (IEEE equality).
use glam::*;
use hx::fl::{eqv, Fl, Flt};
fn main() {
    let ops = ["round", "floor", "ceil", "trunc", "fract", "fract_gl", "abs", "signum", "recip", "neg"];
    let step: u64 = std::env::args().nth(1).map(|s| s.parse().unwrap()).unwrap_or(1);
    let mut bad = 0u64;
    let mut n = 0u64;
    let mut b: u64 = 0;
    while b < (1u64 << 32) {
        let x = f32::from_bits(b as u32);
        let y = f32::from_bits((b as u32).wrapping_mul(2654435761));
        let v4 = Vec4::new(x, y, x, y);
        let v3 = Vec3A::new(y, x, y);
        for op in ops {
            let (g4, g3) = match op {
                "round" => (v4.round(), v3.round()),
                "floor" => (v4.floor(), v3.floor()),
                "ceil" => (v4.ceil(), v3.ceil()),
                "trunc" => (v4.trunc(), v3.trunc()),
                "fract" => (v4.fract(), v3.fract()),
                "fract_gl" => (v4.fract_gl(), v3.fract_gl()),
                "abs" => (v4.abs(), v3.abs()),
                "signum" => (v4.signum(), v3.signum()),
                "recip" => (v4.recip(), v3.recip()),
                _ => (-v4, -v3),
            };
            let e = x.prim1(op).unwrap();
            n += 1;
            for g in [g4.x, g4.z, g3.y] {
                if !eqv(&Fl::from_f32(e), &Fl::from_f32(g)) {
                    bad += 1;
                    if bad < 20 {
                        println!("MISMATCH {op} x={x:?} ({:#x}) prim={e:?} got={g:?}", b);
                    }
                }
            }
        }
        b += step;
    }
    println!("sweep: {n} evaluations, {bad} mismatches");
}
