//! Replay of the token-domain families: `swz` (C16) and `acc` (C17).
//! Tokens are opaque names; the harness resolves them per scalar type to bit patterns and
//! compares bit-for-bit.

use glam::*;
use hx::acc::{fmt_expected, fmt_expected_p, Acc, Obs};
use hx::mt::{MObs, MT};
use hx::swz_gen;
use hx::tv::{tok_bits, Scalar, TV};
use hx::*;
use serde_json::{json, Value};

fn toks(v: &Value) -> Vec<String> {
    v.as_array().unwrap().iter().map(|x| x.as_str().unwrap().to_string()).collect()
}
fn bits_of<S: Scalar>(t: &[String]) -> Vec<u64> {
    t.iter().map(|x| tok_bits(S::SC, x)).collect()
}
fn hex(b: &[u64]) -> Value {
    Value::Array(b.iter().map(|x| json!(format!("{:#x}", x))).collect())
}

// ------------------------------------------------------------------ swizzles (C16)
fn family_prefix(name: &str) -> &str {
    // "Vec3A" -> "Vec", "I16Vec4" -> "I16Vec"
    let t = name.trim_end_matches('A');
    &t[..t.len() - 1]
}

fn swz_check<V: TV>(rep: &mut Report, c: &Value, got: Option<swz_gen::SwOut>) {
    let name = c["name"].as_str().unwrap();
    rep.evals += 1;
    let Some((gb, gty)) = got else {
        rep.spec_error(json!({"what": "swizzle name not in harness dispatch", "ty": V::NAME, "name": name}));
        return;
    };
    let exp = toks(&c["exp"]);
    let eb = bits_of::<V::S>(&exp);
    // documented result type: same length as the source -> Self; otherwise the plain vector
    let want_ty = if exp.len() == V::N { V::NAME.to_string() } else { format!("{}{}", family_prefix(V::NAME), exp.len()) };
    if gb != eb || gty != want_ty {
        rep.mismatch(json!({"prop": "C16", "ty": V::NAME, "op": format!("{}_{}", c["kind"].as_str().unwrap(), name),
            "kind": c["kind"], "src": c["src"], "rhs": c["rhs"], "exp": c["exp"], "exp_bits": hex(&eb),
            "got_bits": hex(&gb), "exp_ty": want_ty, "got_ty": gty, "case": c}));
    }
}

fn run_swz(rep: &mut Report, c: &Value) {
    let n = c["n"].as_u64().unwrap() as usize;
    let name = c["name"].as_str().unwrap();
    let src = toks(&c["src"]);
    let rhs = toks(&c["rhs"]);
    let is_get = c["kind"] == "get";
    macro_rules! do2 { ($V:ident) => {{
        for v in <$V as TV>::variants(&bits_of::<<$V as TV>::S>(&src)) {
        if is_get { swz_check::<$V>(rep, c, swz_gen::get2(v, name)); }
        }
    }}; }
    macro_rules! do3 { ($V:ident) => {{
        for v in <$V as TV>::variants(&bits_of::<<$V as TV>::S>(&src)) {
        if is_get { swz_check::<$V>(rep, c, swz_gen::get3(v, name)); }
        else { swz_check::<$V>(rep, c, swz_gen::with3(v, name, &bits_of::<<$V as TV>::S>(&rhs))); }
        }
    }}; }
    macro_rules! do4 { ($V:ident) => {{
        for v in <$V as TV>::variants(&bits_of::<<$V as TV>::S>(&src)) {
        if is_get { swz_check::<$V>(rep, c, swz_gen::get4(v, name)); }
        else { swz_check::<$V>(rep, c, swz_gen::with4(v, name, &bits_of::<<$V as TV>::S>(&rhs))); }
        }
    }}; }
    match n {
        2 => { hx::for_tv2!(do2); }
        3 => { hx::for_tv3!(do3); }
        _ => { hx::for_tv4!(do4); }
    }
}

// ------------------------------------------------------------------ access paths (C17)
fn run_acc_ty<V: Acc>(rep: &mut Report, c: &Value) {
    let init = toks(&c["init"]);
    for reg0 in V::variants(&bits_of::<V::S>(&init)) {
        run_acc_from::<V>(rep, c, reg0);
    }
}

fn run_acc_from<V: Acc>(rep: &mut Report, c: &Value, reg0: V) {
    let mut reg: V = reg0;
    for (k, st) in c["steps"].as_array().unwrap().iter().enumerate() {
        let act = st["act"].as_str().unwrap();
        let path = st["path"].as_str().unwrap();
        let post = toks(&st["post"]);
        let pb = bits_of::<V::S>(&post);
        let pl: Vec<V::S> = pb.iter().map(|b| V::S::from_u64(*b)).collect();
        rep.evals += 1;
        let mut obs: Option<Obs<V::S>> = None;
        let r = catch(|| match act {
            "ctor" => {
                if let Some(v) = V::ctor(path, &pl) { reg = v; true } else { false }
            }
            "const" => {
                if let Some(v) = V::konst(path) { reg = v; true } else { false }
            }
            "write" => {
                let t = V::S::from_u64(tok_bits(V::S::SC, st["tok"].as_str().unwrap()));
                reg.write(path, st["lane"].as_u64().unwrap() as usize, t)
            }
            "read" => { obs = reg.read(path); obs.is_some() }
            _ => panic!("act {act}"),
        });
        let applicable = match r {
            Ok(a) => a,
            Err(p) => {
                rep.mismatch(json!({"prop": "C17", "ty": V::NAME, "op": format!("{act}:{path}"), "step": k,
                    "exp": st["post"], "got": "panic", "panic": p, "case": c}));
                return;
            }
        };
        if !applicable {
            // the type has no such constant/path (e.g. NEG_ONE on unsigned): leave the register
            // as the specification says it would be, so that the rest of the history is checked
            if act != "read" { reg = V::from_bits(&pb); }
            continue;
        }
        // project the whole register after every step (through to_array) ...
        let gb = reg.to_bits();
        let mut bad = gb != pb;
        let mut detail = json!(null);
        // ... and compare the observation of a read path
        if let Some(o) = obs {
            match o {
                Obs::Lanes(l) => {
                    let ob: Vec<u64> = l.iter().map(|x| x.to_u64()).collect();
                    if ob != pb { bad = true; detail = json!({"observed": hex(&ob)}); }
                }
                Obs::Text(s) => {
                    let e = if path == "display_prec" { fmt_expected_p(V::NAME, &pl, false, true) } else { fmt_expected(V::NAME, &pl, path == "debug") };
                    if s != e { bad = true; detail = json!({"observed": s, "expected_text": e}); }
                    if path == "display_prec" && !bad {
                        // other precisions are forwarded the same way: 0 (an explicit zero is a precision, not "none") and 5
                        let isf = <V::S as Scalar>::SC.is_float();
                        let e0 = format!("[{}]", pl.iter().map(|x| if isf { format!("{:.0}", x) } else { format!("{}", x) }).collect::<Vec<_>>().join(", "));
                        let e5 = format!("[{}]", pl.iter().map(|x| if isf { format!("{:.5}", x) } else { format!("{}", x) }).collect::<Vec<_>>().join(", "));
                        let (g0, g5) = (format!("{:.0}", reg), format!("{:.5}", reg));
                        if g0 != e0 { bad = true; detail = json!({"observed": g0, "expected_text": e0, "flag": "{:.0}"}); }
                        else if g5 != e5 { bad = true; detail = json!({"observed": g5, "expected_text": e5, "flag": "{:.5}"}); }
                    }
                }
                Obs::Bool(b) => {
                    // PartialEq of a register with itself: true unless a lane is NaN (floats)
                    let has_nan = <V::S as Scalar>::SC.is_float() && post.iter().any(|t| matches!(t.as_str(), "p1" | "p4" | "p7" | "nan" | "q3"));
                    if b == has_nan { bad = true; detail = json!({"observed": b}); }
                }
            }
        }
        if bad {
            rep.mismatch(json!({"prop": "C17", "ty": V::NAME, "op": format!("{act}:{path}"), "step": k,
                "lane": st["lane"], "tok": st["tok"], "exp": st["post"], "exp_bits": hex(&pb),
                "got_bits": hex(&gb), "detail": detail, "case": c}));
            return;
        }
    }
}

fn run_acc(rep: &mut Report, c: &Value) {
    let n = c["n"].as_u64().unwrap() as usize;
    macro_rules! go { ($V:ident) => { run_acc_ty::<$V>(rep, c) }; }
    match n {
        2 => { hx::for_tv2!(go); }
        3 => { hx::for_tv3!(go); }
        _ => { hx::for_tv4!(go); go!(Quat); go!(DQuat); }
    }
}

// ------------------------------------------------------------------ matrices (C06)
fn run_mat_ty<M: MT>(rep: &mut Report, c: &Value) {
    let init = toks(&c["init"]);
    let ib: Vec<M::S> = bits_of::<M::S>(&init).iter().map(|b| M::S::from_u64(*b)).collect();
    let mut reg: M = M::from_flat(&ib);
    for (k, st) in c["steps"].as_array().unwrap().iter().enumerate() {
        let act = st["act"].as_str().unwrap();
        let path = st["path"].as_str().unwrap();
        let post = toks(&st["post"]);
        let pb = bits_of::<M::S>(&post);
        let pl: Vec<M::S> = pb.iter().map(|b| M::S::from_u64(*b)).collect();
        let ob = bits_of::<M::S>(&toks(&st["obs"]));
        rep.evals += 1;
        let mut obs: Option<MObs<M::S>> = None;
        let r = catch(|| match act {
            "ctor" => { if let Some(v) = M::ctor(path, &pl) { reg = v; true } else { false } }
            "const" => { if let Some(v) = M::konst(path) { reg = v; true } else { false } }
            "write" => {
                let t = M::S::from_u64(tok_bits(M::S::SC, st["tok"].as_str().unwrap()));
                reg.write(path, st["r"].as_u64().unwrap() as usize, st["c"].as_u64().unwrap() as usize, t)
            }
            "read" => { obs = reg.read(path); obs.is_some() }
            _ => panic!("act {act}"),
        });
        let applicable = match r {
            Ok(a) => a,
            Err(p) => {
                rep.mismatch(json!({"prop": "C06", "ty": M::NAME, "op": format!("{act}:{path}"), "step": k,
                    "exp": st["post"], "got": "panic", "panic": p, "case": c}));
                return;
            }
        };
        if !applicable {
            if act != "read" { reg = M::from_flat(&pl); }
            continue;
        }
        let gb: Vec<u64> = reg.flat().iter().map(|x| x.to_u64()).collect();
        let mut bad = gb != pb;
        let mut detail = json!(null);
        if let Some(o) = obs {
            match o {
                MObs::Flat(l) => {
                    let g: Vec<u64> = l.iter().map(|x| x.to_u64()).collect();
                    if g != ob { bad = true; detail = json!({"observed": hex(&g), "expected_obs": hex(&ob)}); }
                }
                MObs::Text(s) => {
                    let e = if path == "display_prec" { M::fmt_expected_prec(&pl) } else { M::fmt_expected(&pl, path == "debug") };
                    if s != e { bad = true; detail = json!({"observed": s, "expected_text": e}); }
                }
                MObs::Bool(b) => { if !b { bad = true; detail = json!({"observed": b}); } }
            }
        }
        if bad {
            rep.mismatch(json!({"prop": "C06", "ty": M::NAME, "op": format!("{act}:{path}"), "step": k,
                "r": st["r"], "c": st["c"], "tok": st["tok"], "exp": st["post"], "exp_bits": hex(&pb),
                "got_bits": hex(&gb), "detail": detail, "case": c}));
            return;
        }
    }
}

fn run_mat(rep: &mut Report, c: &Value) {
    let r = c["r"].as_u64().unwrap();
    let cc = c["c"].as_u64().unwrap();
    match (r, cc) {
        (2, 2) => { run_mat_ty::<Mat2>(rep, c); run_mat_ty::<DMat2>(rep, c); }
        (3, 3) => { run_mat_ty::<Mat3>(rep, c); run_mat_ty::<Mat3A>(rep, c); run_mat_ty::<DMat3>(rep, c); }
        (4, 4) => { run_mat_ty::<Mat4>(rep, c); run_mat_ty::<DMat4>(rep, c); }
        (2, 3) => { run_mat_ty::<Affine2>(rep, c); run_mat_ty::<DAffine2>(rep, c); }
        (3, 4) => { run_mat_ty::<Affine3A>(rep, c); run_mat_ty::<DAffine3>(rep, c); }
        _ => panic!("shape"),
    }
}

/// data movement between matrix shapes: (source type, destination type, conversion)
fn mv<A: MT, B: MT>(rep: &mut Report, c: &Value, what: &str, f: impl FnOnce(A) -> B) {
    let src: Vec<A::S> = bits_of::<A::S>(&toks(&c["src"])).iter().map(|b| A::S::from_u64(*b)).collect();
    let eb = bits_of::<B::S>(&toks(&c["exp"]));
    rep.evals += 1;
    let a = A::from_flat(&src);
    match catch(|| f(a)) {
        Err(p) => rep.mismatch(json!({"prop": "C06", "ty": B::NAME, "op": what, "exp": c["exp"], "got": "panic", "panic": p, "case": c})),
        Ok(b) => {
            let gb: Vec<u64> = b.flat().iter().map(|x| x.to_u64()).collect();
            if gb != eb {
                rep.mismatch(json!({"prop": "C06", "ty": B::NAME, "op": what, "src_ty": A::NAME, "i": c["i"], "j": c["j"],
                    "exp": c["exp"], "exp_bits": hex(&eb), "got_bits": hex(&gb), "case": c}));
            }
        }
    }
}

fn run_matmove(rep: &mut Report, c: &Value) {
    let kind = c["kind"].as_str().unwrap();
    let k = c["k"].as_u64().unwrap();
    let i = c["i"].as_u64().unwrap() as usize;
    let j = c["j"].as_u64().unwrap() as usize;
    match (kind, k) {
        ("minor", 3) => {
            mv::<Mat3, Mat2>(rep, c, "Mat2::from_mat3_minor", |m| Mat2::from_mat3_minor(m, i, j));
            mv::<Mat3A, Mat2>(rep, c, "Mat2::from_mat3a_minor", |m| Mat2::from_mat3a_minor(m, i, j));
            mv::<DMat3, DMat2>(rep, c, "DMat2::from_mat3_minor", |m| DMat2::from_mat3_minor(m, i, j));
        }
        ("minor", 4) => {
            mv::<Mat4, Mat3>(rep, c, "Mat3::from_mat4_minor", |m| Mat3::from_mat4_minor(m, i, j));
            mv::<Mat4, Mat3A>(rep, c, "Mat3A::from_mat4_minor", |m| Mat3A::from_mat4_minor(m, i, j));
            mv::<DMat4, DMat3>(rep, c, "DMat3::from_mat4_minor", |m| DMat3::from_mat4_minor(m, i, j));
        }
        ("block", 3) => {
            mv::<Mat3, Mat2>(rep, c, "Mat2::from_mat3", Mat2::from_mat3);
            mv::<Mat3A, Mat2>(rep, c, "Mat2::from_mat3a", Mat2::from_mat3a);
            mv::<DMat3, DMat2>(rep, c, "DMat2::from_mat3", DMat2::from_mat3);
        }
        ("block", 4) => {
            mv::<Mat4, Mat3>(rep, c, "Mat3::from_mat4", Mat3::from_mat4);
            mv::<Mat4, Mat3A>(rep, c, "Mat3A::from_mat4", Mat3A::from_mat4);
            mv::<DMat4, DMat3>(rep, c, "DMat3::from_mat4", DMat3::from_mat4);
        }
        ("embed", 2) => {
            mv::<Mat2, Mat3>(rep, c, "Mat3::from_mat2", Mat3::from_mat2);
            mv::<Mat2, Mat3A>(rep, c, "Mat3A::from_mat2", Mat3A::from_mat2);
            mv::<DMat2, DMat3>(rep, c, "DMat3::from_mat2", DMat3::from_mat2);
        }
        ("embed", 3) => {
            mv::<Mat3, Mat4>(rep, c, "Mat4::from_mat3", Mat4::from_mat3);
            mv::<Mat3A, Mat4>(rep, c, "Mat4::from_mat3a", Mat4::from_mat3a);
            mv::<DMat3, DMat4>(rep, c, "DMat4::from_mat3", DMat4::from_mat3);
            mv::<Mat3, Mat3A>(rep, &fake_same(c), "Mat3A::from(Mat3)", Mat3A::from);
            mv::<Mat3A, Mat3>(rep, &fake_same(c), "Mat3::from(Mat3A)", Mat3::from);
        }
        ("affine_to_mat", 2) => {
            mv::<Affine2, Mat3>(rep, c, "Mat3::from(Affine2)", Mat3::from);
            mv::<Affine2, Mat3A>(rep, c, "Mat3A::from(Affine2)", Mat3A::from);
            mv::<DAffine2, DMat3>(rep, c, "DMat3::from(DAffine2)", DMat3::from);
        }
        ("affine_to_mat", 3) => {
            mv::<Affine3A, Mat4>(rep, c, "Mat4::from(Affine3A)", Mat4::from);
            mv::<DAffine3, DMat4>(rep, c, "DMat4::from(DAffine3)", DMat4::from);
        }
        ("mat_to_affine", 2) => {
            mv::<Mat3, Affine2>(rep, c, "Affine2::from_mat3", Affine2::from_mat3);
            mv::<Mat3A, Affine2>(rep, c, "Affine2::from_mat3a", Affine2::from_mat3a);
            mv::<DMat3, DAffine2>(rep, c, "DAffine2::from_mat3", DAffine2::from_mat3);
        }
        ("mat_to_affine", 3) => {
            mv::<Mat4, Affine3A>(rep, c, "Affine3A::from_mat4", Affine3A::from_mat4);
            mv::<DMat4, DAffine3>(rep, c, "DAffine3::from_mat4", DAffine3::from_mat4);
        }
        _ => panic!("matmove {kind} {k}"),
    }
}
/// the same case with exp = src (identity move between two layouts of one shape)
fn fake_same(c: &Value) -> Value {
    let mut d = c.clone();
    d["exp"] = d["src"].clone();
    d
}

fn main() {
    let args: Vec<String> = std::env::args().collect();
    quiet_panics();
    let mut rep = Report::new();
    let mut n = 0u64;
    read_cases(&args[1], "CASE", |c| {
        let fam = c["fam"].as_str().unwrap_or("");
        match fam {
            "swz" => {
                rep.count_op(&format!("swz:{}:{}", c["kind"].as_str().unwrap(), c["n"]), 1);
                run_swz(&mut rep, &c);
            }
            "mat" => {
                let st = &c["steps"][0];
                rep.count_op(&format!("mat:{}:{}", st["act"].as_str().unwrap(), st["path"].as_str().unwrap()), 1);
                run_mat(&mut rep, &c);
            }
            "matmove" => {
                rep.count_op(&format!("matmove:{}", c["kind"].as_str().unwrap()), 1);
                run_matmove(&mut rep, &c);
            }
            "acc" => {
                let st = &c["steps"][0];
                rep.count_op(&format!("acc:{}:{}", st["act"].as_str().unwrap(), st["path"].as_str().unwrap()), 1);
                run_acc(&mut rep, &c);
            }
            _ => return,
        }
        n += 1;
        rep.nontrivial += 1;
        if rep.samples.len() < 3 && n % 997 == 1 {
            rep.samples.push(c.clone());
        }
    });
    rep.cases = n;
    rep.write(&args[2]);
    println!("tok[{}]: cases={} evals={} mismatches={} spec_errors={}", rep.cfg, rep.cases, rep.evals, rep.mismatch_count, rep.spec_error_count);
}
