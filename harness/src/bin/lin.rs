//! Replay of family `lin` (C03, C04, C05, C06 product laws): exact integer linear algebra
//! and quaternion algebra cases from TLC, executed on every matrix / quaternion type.

use glam::*;
use hx::mt::MT;
use hx::*;
use serde_json::{json, Value};

fn ints(v: &Value) -> Vec<i64> {
    v.as_array().unwrap().iter().map(|x| x.as_i64().unwrap()).collect()
}

/// float scalar helper
trait Fs: Copy + PartialEq + core::fmt::Debug + 'static {
    fn of(i: i64) -> Self;
    fn f64(self) -> f64;
    fn pow2(k: i32) -> Self;
    fn tol() -> f64;
}
impl Fs for f32 {
    fn of(i: i64) -> Self { i as f32 }
    fn f64(self) -> f64 { self as f64 }
    fn pow2(k: i32) -> Self { 2f32.powi(k) }
    fn tol() -> f64 { 2e-5 }
}
impl Fs for f64 {
    fn of(i: i64) -> Self { i as f64 }
    fn f64(self) -> f64 { self }
    fn pow2(k: i32) -> Self { 2f64.powi(k) }
    fn tol() -> f64 { 1e-12 }
}

/// algebra of a square matrix type, every spelling of every operation
/// the same matrix with poisoned hidden lanes where the type has them (Mat3A: each column is a 16-byte register whose fourth lane is not
/// part of the value): the exact lattice then also decides that no operation lets that lane take part
trait PoisonCols: Sized { fn poisoned(self) -> Self { self } }
impl PoisonCols for Mat2 {} impl PoisonCols for Mat3 {} impl PoisonCols for Mat4 {}
impl PoisonCols for DMat2 {} impl PoisonCols for DMat3 {} impl PoisonCols for DMat4 {}
impl PoisonCols for Mat3A {
    fn poisoned(self) -> Self {
        let c = |v: Vec3A| Vec3A::from_vec4(Vec4::new(v.x, v.y, v.z, hx::fvec::poison()));
        Mat3A::from_cols(c(self.x_axis), c(self.y_axis), c(self.z_axis))
    }
}
fn poison_cols<M: PoisonCols>(m: M) -> M { m.poisoned() }

trait MA: MT + PartialEq {
    type F: Fs;
    fn of_ints(m: &[i64]) -> Self;
    fn vals(&self) -> Vec<f64>;
    fn det(&self) -> Vec<(&'static str, f64)>;
    fn transpose_(&self) -> Self;
    fn inverse_(&self) -> Self;
    fn mul_(&self, b: &Self) -> Vec<(&'static str, Self)>;
    fn add_(&self, b: &Self) -> Vec<(&'static str, Self)>;
    fn sub_(&self, b: &Self) -> Vec<(&'static str, Self)>;
    fn neg_(&self) -> Self;
    fn scale_(&self, s: i64) -> Vec<(&'static str, Self)>;
    fn mulv_(&self, v: &[i64]) -> Vec<(&'static str, Vec<f64>)>;
}

macro_rules! vecn {
    ($V:ident, $S:ident, $v:ident, 2) => { $V::new($v[0] as $S, $v[1] as $S) };
    ($V:ident, $S:ident, $v:ident, 3) => { $V::new($v[0] as $S, $v[1] as $S, $v[2] as $S) };
    ($V:ident, $S:ident, $v:ident, 4) => { $V::new($v[0] as $S, $v[1] as $S, $v[2] as $S, $v[3] as $S) };
}
macro_rules! impl_ma {
    ($M:ident, $S:ident, $N:tt, $mulmat:ident, $addmat:ident, $submat:ident, [$(($V:ident, $mulvec:ident)),+]) => {
        impl MA for $M {
            type F = $S;
            fn of_ints(m: &[i64]) -> Self { let f: Vec<$S> = m.iter().map(|x| *x as $S).collect(); poison_cols(<$M as MT>::from_flat(&f)) }
            fn vals(&self) -> Vec<f64> { self.to_cols_array().iter().map(|x| *x as f64).collect() }
            fn det(&self) -> Vec<(&'static str, f64)> { vec![("determinant", self.determinant() as f64)] }
            fn transpose_(&self) -> Self { self.transpose() }
            fn inverse_(&self) -> Self { self.inverse() }
            fn mul_(&self, b: &Self) -> Vec<(&'static str, Self)> {
                let mut t = *self; t *= *b;
                vec![("a * b", *self * *b), (stringify!($mulmat), self.$mulmat(b)), ("a *= b", t),
                     ("[a, b].iter().product()", [*self, *b].iter().product::<$M>()),
                     ("[a, b].into_iter().product()", [*self, *b].into_iter().product::<$M>())]
            }
            fn add_(&self, b: &Self) -> Vec<(&'static str, Self)> {
                let mut t = *self; t += *b;
                vec![("a + b", *self + *b), (stringify!($addmat), self.$addmat(b)), ("a += b", t),
                     ("[a, b].iter().sum()", [*self, *b].iter().sum::<$M>())]
            }
            fn sub_(&self, b: &Self) -> Vec<(&'static str, Self)> {
                let mut t = *self; t -= *b;
                vec![("a - b", *self - *b), (stringify!($submat), self.$submat(b)), ("a -= b", t)]
            }
            fn neg_(&self) -> Self { -*self }
            fn scale_(&self, s: i64) -> Vec<(&'static str, Self)> {
                let s = s as $S;
                let mut t = *self; t *= s;
                let mut r = vec![("a * s", *self * s), ("s * a", s * *self), ("mul_scalar", self.mul_scalar(s)), ("a *= s", t)];
                if s != 0.0 {
                    // division by the exactly representable reciprocal of a power of two is exact too
                    if s.abs() == 1.0 || s.abs() == 2.0 {
                        let mut u = *self; u /= 1.0 / s;
                        r.push(("a / (1/s)", *self / (1.0 / s)));
                        r.push(("div_scalar(1/s)", self.div_scalar(1.0 / s)));
                        r.push(("a /= (1/s)", u));
                    }
                }
                r
            }
            fn mulv_(&self, v: &[i64]) -> Vec<(&'static str, Vec<f64>)> {
                let mut r = vec![];
                $(
                    let x = vecn!($V, $S, v, $N);
                    r.push((concat!("a * ", stringify!($V)), (*self * x).to_array().iter().map(|c| *c as f64).collect()));
                    r.push((stringify!($mulvec), self.$mulvec(x).to_array().iter().map(|c| *c as f64).collect()));
                )+
                r
            }
        }
    };
}
impl_ma!(Mat2, f32, 2, mul_mat2, add_mat2, sub_mat2, [(Vec2, mul_vec2)]);
impl_ma!(DMat2, f64, 2, mul_mat2, add_mat2, sub_mat2, [(DVec2, mul_vec2)]);
impl_ma!(Mat3, f32, 3, mul_mat3, add_mat3, sub_mat3, [(Vec3, mul_vec3), (Vec3A, mul_vec3a)]);
impl_ma!(Mat3A, f32, 3, mul_mat3, add_mat3, sub_mat3, [(Vec3, mul_vec3), (Vec3A, mul_vec3a)]);
impl_ma!(DMat3, f64, 3, mul_mat3, add_mat3, sub_mat3, [(DVec3, mul_vec3)]);
impl_ma!(Mat4, f32, 4, mul_mat4, add_mat4, sub_mat4, [(Vec4, mul_vec4)]);
impl_ma!(DMat4, f64, 4, mul_mat4, add_mat4, sub_mat4, [(DVec4, mul_vec4)]);

struct Cx<'a> {
    rep: &'a mut Report,
    prop: String,
    only_ty: Option<String>,
}

fn cmp_exact<M: MA>(cx: &mut Cx, c: &Value, op: &str, sp: &str, exp: &[i64], got: &[f64]) {
    cx.rep.evals += 1;
    let ok = exp.len() == got.len() && exp.iter().zip(got).all(|(e, g)| (*e as f64) == *g);
    if !ok {
        let prop = prop_of(&cx.prop, op);
        cx.rep.mismatch(json!({"prop": prop, "ty": M::NAME, "op": op, "spelling": sp, "family": c["f"],
            "m": c["exp"]["m"], "p": c["exp"]["p"], "v": c["exp"]["v"], "exp": exp, "got": got, "case": c}));
    }
}
/// product-law operations belong to C06 as well as C03
fn prop_of(default: &str, _op: &str) -> String {
    default.to_string()
}

fn run_mat<M: MA>(cx: &mut Cx, c: &Value) {
    if let Some(t) = &cx.only_ty { if t != M::NAME { return; } }
    let e = &c["exp"];
    let a = M::of_ints(&ints(&e["m"]));
    let b = M::of_ints(&ints(&e["p"]));
    let v = ints(&e["v"]);
    let s = e["s"].as_i64().unwrap();
    let det = e["det"].as_i64().unwrap();
    let r = catch(|| {
        let mut out: Vec<(&'static str, &'static str, Vec<i64>, Vec<f64>)> = vec![];
        for (sp, d) in a.det() { out.push(("determinant", sp, vec![det], vec![d])); }
        out.push(("transpose", "method", ints(&e["tr"]), a.transpose_().vals()));
        for (sp, m) in a.mul_(&b) { out.push(("mul_mat", sp, ints(&e["mul"]), m.vals())); }
        for (sp, m) in a.add_(&b) { out.push(("add_mat", sp, ints(&e["add"]), m.vals())); }
        for (sp, m) in a.sub_(&b) { out.push(("sub_mat", sp, ints(&e["sub"]), m.vals())); }
        out.push(("neg", "-a", ints(&e["neg"]), a.neg_().vals()));
        for (sp, m) in a.scale_(s) { out.push(("scale", sp, ints(&e["scaled"]), m.vals())); }
        for (sp, w) in a.mulv_(&v) { out.push(("mul_vec", sp, ints(&e["mulv"]), w)); }
        // (A*B)*v and A*(B*v)
        let ab = a.mul_(&b)[0].1;
        for (sp, w) in ab.mulv_(&v) { out.push(("assoc (A*B)*v", sp, ints(&e["assoc"]), w)); }
        let bv = b.mulv_(&v)[0].1.clone();
        let bvi: Vec<i64> = bv.iter().map(|x| *x as i64).collect();
        for (sp, w) in a.mulv_(&bvi) { out.push(("assoc A*(B*v)", sp, ints(&e["assoc"]), w)); }
        out
    });
    match r {
        Err(p) => cx.rep.mismatch(json!({"prop": cx.prop, "ty": M::NAME, "op": "any", "got": "panic", "panic": p, "case": c})),
        Ok(out) => for (op, sp, ex, got) in out { cmp_exact::<M>(cx, c, op, sp, &ex, &got); },
    }
    // inverse
    let invk = e["invk"].as_i64().unwrap();
    if det != 0 {
        cx.rep.evals += 1;
        match catch(|| a.inverse_()) {
            Err(p) => cx.rep.mismatch(json!({"prop": cx.prop, "ty": M::NAME, "op": "inverse", "got": "panic", "panic": p, "case": c})),
            Ok(inv) => {
                let g = inv.vals();
                let adj = ints(&e["adj"]);
                if invk >= 0 {
                    // adj / det is exactly representable: the inverse must be exact
                    let num = ints(&e["invn"]);
                    let sc = 2f64.powi(invk as i32);
                    let ok = num.iter().zip(&g).all(|(n, x)| (*n as f64) / sc == *x);
                    if !ok {
                        cx.rep.mismatch(json!({"prop": cx.prop, "ty": M::NAME, "op": "inverse", "spelling": "exact adj/det",
                            "family": c["f"], "m": e["m"], "det": det, "exp_num": num, "exp_pow2": invk, "got": g, "case": c}));
                    }
                } else {
                    // relational: inverse * det = adj, within a few epsilon of the magnitudes involved
                    let scale = adj.iter().map(|x| x.abs() as f64).fold(1.0, f64::max);
                    let tol = <M::F as Fs>::tol() * scale;
                    let ok = adj.iter().zip(&g).all(|(n, x)| (x * det as f64 - *n as f64).abs() <= tol);
                    if !ok {
                        cx.rep.mismatch(json!({"prop": cx.prop, "ty": M::NAME, "op": "inverse", "spelling": "inverse*det = adj (tolerance)",
                            "family": c["f"], "m": e["m"], "det": det, "adj": adj, "got": g, "tol": tol, "case": c}));
                    }
                }
            }
        }
    }
}

// ------------------------------------------------------------------ affine transforms
macro_rules! LV {
    (Affine2) => { Vec2 }; (DAffine2) => { DVec2 }; (Affine3A) => { Vec3 }; (DAffine3) => { DVec3 };
}
/// one affine type with its homogeneous matrix type and vector types
macro_rules! run_aff {
    ($cx:ident, $c:ident, $A:ident, $S:ident, $N:tt, $L:ident, $H:ident, $lin:ident, $from_lt:ident,
     [$(($V:ident, $tp:ident, $tv:ident)),+], [$(($HV:ident, $htp:ident, $htv:ident)),*], [$($HX:ident),*]) => {{
        let e = &$c["exp"];
        let name = stringify!($A);
        let skip = $cx.only_ty.as_ref().map(|t| t != name).unwrap_or(false);
        if !skip {
        let l = ints(&e["l"]); let t = ints(&e["t"]); let l2 = ints(&e["l2"]); let t2 = ints(&e["t2"]);
        let p = ints(&e["p"]); let g = ints(&e["g"]);
        let mk = |l: &[i64], t: &[i64]| -> $A {
            let lm = <$L as MA>::of_ints(l);
            $A::$from_lt(lm.into(), <LV!($A)>::from_array(core::array::from_fn(|i| t[i] as $S)))
        };
        let r = catch(|| {
            let a = mk(&l, &t);
            let b = mk(&l2, &t2);
            let mut out: Vec<(String, &'static str, Vec<i64>, Vec<f64>)> = vec![];
            $(
                let x = vecn!($V, $S, p, $N);
                out.push(("transform_point".into(), stringify!($tp), ints(&e["tp"]), a.$tp(x).to_array().iter().map(|c| *c as f64).collect()));
                out.push(("transform_vector".into(), stringify!($tv), ints(&e["tv"]), a.$tv(x).to_array().iter().map(|c| *c as f64).collect()));
                // a direction ignores the translation altogether -- also a non-finite one (adding translation * 0 would give NaN)
                {
                    let mut wild = a;
                    wild.translation = <LV!($A)>::from_array(core::array::from_fn(|i| [<$S>::INFINITY, <$S>::NEG_INFINITY, <$S>::NAN][i % 3])).into();
                    out.push(("transform_vector (non-finite translation)".into(), stringify!($tv), ints(&e["tv"]), wild.$tv(x).to_array().iter().map(|c| *c as f64).collect()));
                }
            )+
            // the stored columns: linear part then translation
            let mut stored = l.clone(); stored.extend(&t);
            out.push(("to_cols_array".into(), "method", stored, a.to_cols_array().iter().map(|c| *c as f64).collect()));
            // composition
            let mut comp = ints(&e["comp_l"]); comp.extend(ints(&e["comp_t"]));
            let mut ab2 = a; ab2 *= b;
            out.push(("affine*affine".into(), "a * b", comp.clone(), (a * b).to_cols_array().iter().map(|c| *c as f64).collect()));
            out.push(("affine*affine".into(), "a *= b", comp.clone(), ab2.to_cols_array().iter().map(|c| *c as f64).collect()));
            out.push(("affine*affine".into(), "[a, b].iter().product()", comp.clone(), [a, b].iter().product::<$A>().to_cols_array().iter().map(|c| *c as f64).collect()));
            // conversion to the homogeneous matrix and mixed products
            let h: $H = a.into();
            out.push(("into matrix".into(), "From", ints(&e["hom"]), h.to_cols_array().iter().map(|c| *c as f64).collect()));
            let gm = <$H as MA>::of_ints(&g);
            out.push(("affine*matrix".into(), "a * m", ints(&e["a_g"]), (a * gm).to_cols_array().iter().map(|c| *c as f64).collect()));
            out.push(("matrix*affine".into(), "m * a", ints(&e["g_a"]), (gm * a).to_cols_array().iter().map(|c| *c as f64).collect()));
            // the other homogeneous matrix type of the same size (Mat3A for Affine2): conversion and both mixed products
            $(
                let hx: $HX = a.into();
                out.push(("into matrix".into(), concat!("From -> ", stringify!($HX)), ints(&e["hom"]), hx.to_cols_array().iter().map(|c| *c as f64).collect()));
                let gx = <$HX as MA>::of_ints(&g);
                out.push(("affine*matrix".into(), concat!("a * m (", stringify!($HX), ")"), ints(&e["a_g"]), (a * gx).to_cols_array().iter().map(|c| *c as f64).collect()));
                out.push(("matrix*affine".into(), concat!("m * a (", stringify!($HX), ")"), ints(&e["g_a"]), (gx * a).to_cols_array().iter().map(|c| *c as f64).collect()));
            )*
            // the matrix form acts the same on points and vectors
            $(
                let x = vecn!($HV, $S, p, $N);
                out.push(("matrix transform_point".into(), stringify!($htp), ints(&e["tp"]), h.$htp(x).to_array().iter().map(|c| *c as f64).collect()));
                out.push(("matrix transform_vector".into(), stringify!($htv), ints(&e["tv"]), h.$htv(x).to_array().iter().map(|c| *c as f64).collect()));
            )*
            // inverse (exact when the linear part is unimodular)
            let il = ints(&e["inv_l"]);
            if !il.is_empty() {
                let mut inv = il.clone(); inv.extend(ints(&e["inv_t"]));
                out.push(("affine inverse".into(), "method", inv.clone(), a.inverse().to_cols_array().iter().map(|c| *c as f64).collect()));
                // Affine inverse converts to the matrix inverse
                let hi: $H = a.inverse().into();
                out.push(("matrix inverse of affine".into(), "Mat::from(a).inverse()", hi.to_cols_array().iter().map(|c| *c as i64).collect(), h.inverse().to_cols_array().iter().map(|c| *c as f64).collect()));
            }
            out
        });
        match r {
            Err(pn) => $cx.rep.mismatch(json!({"prop": $cx.prop, "ty": name, "op": "any", "got": "panic", "panic": pn, "case": $c})),
            Ok(out) => for (op, sp, ex, got) in out {
                $cx.rep.evals += 1;
                let ok = ex.len() == got.len() && ex.iter().zip(&got).all(|(e, g)| (*e as f64) == *g);
                if !ok {
                    $cx.rep.mismatch(json!({"prop": $cx.prop, "ty": name, "op": op, "spelling": sp, "family": $c["f"],
                        "l": e["l"], "t": e["t"], "p": e["p"], "exp": ex, "got": got, "case": $c}));
                }
            },
        }
        }
    }};
}

fn run_aff_case(cx: &mut Cx, c: &Value) {
    match c["n"].as_u64().unwrap() {
        2 => {
            run_aff!(cx, c, Affine2, f32, 2, Mat2, Mat3, matrix2, from_mat2_translation, [(Vec2, transform_point2, transform_vector2)], [(Vec2, transform_point2, transform_vector2)], [Mat3A]);
            run_aff!(cx, c, DAffine2, f64, 2, DMat2, DMat3, matrix2, from_mat2_translation, [(DVec2, transform_point2, transform_vector2)], [(DVec2, transform_point2, transform_vector2)], []);
        }
        _ => {
            run_aff!(cx, c, Affine3A, f32, 3, Mat3, Mat4, matrix3, from_mat3_translation, [(Vec3, transform_point3, transform_vector3), (Vec3A, transform_point3a, transform_vector3a)], [(Vec3, transform_point3, transform_vector3), (Vec3A, transform_point3a, transform_vector3a)], []);
            run_aff!(cx, c, DAffine3, f64, 3, DMat3, DMat4, matrix3, from_mat3_translation, [(DVec3, transform_point3, transform_vector3)], [(DVec3, transform_point3, transform_vector3)], []);
        }
    }
}

// ------------------------------------------------------------------ quaternions (C04, C05)
macro_rules! run_quat {
    ($cx:ident, $c:ident, $Q:ident, $S:ident, $V3:ident, $M3:ident, $M4:ident, [$(($VA:ident, $mulv:ident)),*]) => {{
        let name = stringify!($Q);
        let skip = $cx.only_ty.as_ref().map(|t| t != name).unwrap_or(false);
        if !skip {
        let e = &$c["exp"];
        let kind = $c["kind"].as_str().unwrap();
        let pi = ints(&$c["p"]); let qi = ints(&$c["q"]); let vi = ints(&$c["v"]);
        let half = if kind == "qrot" { 0.5 } else { 1.0 };
        let mkq = |a: &[i64]| $Q::from_xyzw(a[0] as $S * half, a[1] as $S * half, a[2] as $S * half, a[3] as $S * half);
        let arr = |q: $Q| -> Vec<f64> { q.to_array().iter().map(|c| *c as f64).collect() };
        let r = catch(|| {
            let p = mkq(&pi); let q = mkq(&qi);
            let mut out: Vec<(String, &'static str, Vec<f64>, Vec<f64>)> = vec![];
            let fi = |v: &Value| -> Vec<f64> { ints(v).iter().map(|x| *x as f64).collect() };
            if kind == "quat" {
                let mut t = p; t *= q;
                out.push(("mul_quat".into(), "p * q", fi(&e["ham"]), arr(p * q)));
                out.push(("mul_quat".into(), "mul_quat", fi(&e["ham"]), arr(p.mul_quat(q))));
                out.push(("mul_quat".into(), "p *= q", fi(&e["ham"]), arr(t)));
                out.push(("mul_quat".into(), "[p, q].iter().product()", fi(&e["ham"]), arr([p, q].iter().product::<$Q>())));
                out.push(("conjugate".into(), "method", fi(&e["conj"]), arr(p.conjugate())));
                out.push(("add".into(), "p + q", fi(&e["add"]), arr(p + q)));
                out.push(("add".into(), "[p, q].iter().sum()", fi(&e["add"]), arr([p, q].iter().sum::<$Q>())));
                out.push(("sub".into(), "p - q", fi(&e["sub"]), arr(p - q)));
                out.push(("neg".into(), "-p", fi(&e["neg"]), arr(-p)));
                let s = e["s"].as_i64().unwrap() as $S;
                out.push(("scale".into(), "p * s", fi(&e["scaled"]), arr(p * s)));
                if s == 2.0 || s == -2.0 || s == 1.0 || s == -1.0 {
                    out.push(("scale".into(), "p / (1/s)", fi(&e["scaled"]), arr(p / (1.0 / s))));
                }
                out.push(("dot".into(), "method", vec![e["dot"].as_i64().unwrap() as f64], vec![p.dot(q) as f64]));
                out.push(("length_squared".into(), "method", vec![e["n2"].as_i64().unwrap() as f64], vec![p.length_squared() as f64]));
                let v4: Vec<f64> = Into::<[$S; 4]>::into(p).iter().map(|c| *c as f64).collect();
                out.push(("to_array".into(), "Into<[T;4]>", pi.iter().map(|x| *x as f64).collect(), v4));
                // == and != are the component-wise IEEE comparison of the 4-vector: -0 equals +0 (a conjugate or a negation leaves
                // negative zeros behind), a NaN component equals nothing
                let b2f = |b: bool| -> Vec<f64> { vec![if b { 1.0 } else { 0.0 }] };
                let ieee_eq = |a: [$S; 4], b: [$S; 4]| -> bool { (0..4).all(|i| a[i] == b[i]) };
                let cj = p.conjugate();
                let cz = $Q::from_xyzw(0.0 - p.x, 0.0 - p.y, 0.0 - p.z, p.w);          // 0 - 0 = +0 where the conjugate has -0
                out.push(("eq".into(), "conjugate == (0 - x, 0 - y, 0 - z, w)", b2f(true), b2f(cj == cz)));
                out.push(("eq".into(), "!(conjugate != ...)", b2f(false), b2f(cj != cz)));
                out.push(("eq".into(), "-(-p) == p", b2f(true), b2f(-(-p) == p)));
                out.push(("eq".into(), "p == q", b2f(ieee_eq(p.to_array(), q.to_array())), b2f(p == q)));
                out.push(("eq".into(), "p != q", b2f(!ieee_eq(p.to_array(), q.to_array())), b2f(p != q)));
                let nq = $Q::from_xyzw(p.x, <$S>::NAN, p.z, p.w);
                out.push(("eq".into(), "a quaternion with a NaN component == itself", b2f(false), b2f(nq == nq)));
                out.push(("eq".into(), "a quaternion with a NaN component != itself", b2f(true), b2f(nq != nq)));
            } else {
                // p, q are doubled Hurwitz units
                let v = $V3::new(vi[0] as $S, vi[1] as $S, vi[2] as $S);
                let rot = fi(&e["rot"]);
                out.push(("mul_vec3".into(), "q * v", rot.clone(), (p * v).to_array().iter().map(|c| *c as f64).collect()));
                out.push(("mul_vec3".into(), "mul_vec3", rot.clone(), p.mul_vec3(v).to_array().iter().map(|c| *c as f64).collect()));
                $(
                    let va = $VA::new(vi[0] as $S, vi[1] as $S, vi[2] as $S);
                    out.push(("mul_vec3a".into(), "q * Vec3A", rot.clone(), (p * va).to_array().iter().map(|c| *c as f64).collect()));
                    out.push(("mul_vec3a".into(), stringify!($mulv), rot.clone(), p.$mulv(va).to_array().iter().map(|c| *c as f64).collect()));
                    // hidden lane of the operand must not matter
                    let vh = $VA::from_vec4(glam::Vec4::new(vi[0] as f32, vi[1] as f32, vi[2] as f32, 777.0));
                    out.push(("mul_vec3a".into(), "q * Vec3A(hidden lane set)", rot.clone(), (p * vh).to_array().iter().map(|c| *c as f64).collect()));
                )*
                out.push(("rotation by -q".into(), "(-q) * v", rot.clone(), ((-p) * v).to_array().iter().map(|c| *c as f64).collect()));
                out.push(("inverse".into(), "q.inverse() * (q * v)", vi.iter().map(|x| *x as f64).collect(), (p.inverse() * (p * v)).to_array().iter().map(|c| *c as f64).collect()));
                out.push(("inverse".into(), "inverse()", fi(&e["inv2"]).iter().map(|x| x * 0.5).collect(), arr(p.inverse())));
                out.push(("product then rotate".into(), "(p * q) * v", fi(&e["rot_pq"]), ((p * q) * v).to_array().iter().map(|c| *c as f64).collect()));
                out.push(("product then rotate".into(), "p * (q * v)", fi(&e["rot_pq"]), (p * (q * v)).to_array().iter().map(|c| *c as f64).collect()));
                out.push(("mul_quat".into(), "p * q (units)", fi(&e["pq2"]).iter().map(|x| x * 0.5).collect(), arr(p * q)));
                // C05: the matrix of the quaternion
                out.push(("Mat3::from_quat".into(), stringify!($M3), fi(&e["mat"]), $M3::from_quat(p).to_cols_array().iter().map(|c| *c as f64).collect()));
                let m4 = $M4::from_quat(p).to_cols_array();
                let blk: Vec<f64> = [0, 1, 2, 4, 5, 6, 8, 9, 10].iter().map(|i| m4[*i] as f64).collect();
                out.push(("Mat4::from_quat".into(), stringify!($M4), fi(&e["mat"]), blk));
                out.push(("normalize".into(), "(2q).normalize()", pi.iter().map(|x| *x as f64 * 0.5).collect(), arr((p * 2.0).normalize())));
                out.push(("length".into(), "(2q).length()", vec![2.0], vec![(p * 2.0).length() as f64]));
            }
            out
        });
        match r {
            Err(pn) => $cx.rep.mismatch(json!({"prop": $cx.prop, "ty": name, "op": "any", "got": "panic", "panic": pn, "case": $c})),
            Ok(out) => for (op, sp, ex, got) in out {
                $cx.rep.evals += 1;
                let ok = ex.len() == got.len() && ex.iter().zip(&got).all(|(e, g)| *e == *g);
                if !ok {
                    $cx.rep.mismatch(json!({"prop": $cx.prop, "ty": name, "op": op, "spelling": sp, "kind": kind,
                        "p": $c["p"], "q": $c["q"], "v": $c["v"], "exp": ex, "got": got, "case": $c}));
                }
            },
        }
        }
    }};
}

fn run_quat_case(cx: &mut Cx, c: &Value) {
    run_quat!(cx, c, Quat, f32, Vec3, Mat3, Mat4, [(Vec3A, mul_vec3a)]);
    run_quat!(cx, c, DQuat, f64, DVec3, DMat3, DMat4, []);
}

fn main() {
    let args: Vec<String> = std::env::args().collect();
    quiet_panics();
    let mut rep = Report::new();
    let mut cx = Cx { rep: &mut rep, prop: std::env::var("HX_PROP").unwrap_or("C03".into()), only_ty: std::env::var("HX_ONLY_TY").ok() };
    let mut n = 0u64;
    read_cases(&args[1], "CASE", |c| {
        if c["fam"] != "lin" { return; }
        n += 1;
        let kind = c["kind"].as_str().unwrap();
        match kind {
            "mat" => {
                let e = &c["exp"];
                let trivial = ints(&e["m"]).iter().filter(|x| **x != 0).count() <= 1;
                if !trivial { cx.rep.nontrivial += 1; }
                cx.rep.count_op(&format!("mat:{}:{}", c["f"].as_str().unwrap(), c["n"]), 1);
                match c["n"].as_u64().unwrap() {
                    2 => { run_mat::<Mat2>(&mut cx, &c); run_mat::<DMat2>(&mut cx, &c); }
                    3 => { run_mat::<Mat3>(&mut cx, &c); run_mat::<Mat3A>(&mut cx, &c); run_mat::<DMat3>(&mut cx, &c); }
                    _ => { run_mat::<Mat4>(&mut cx, &c); run_mat::<DMat4>(&mut cx, &c); }
                }
            }
            "quat" | "qrot" => {
                let nz = ints(&c["p"]).iter().filter(|x| **x != 0).count() + ints(&c["q"]).iter().filter(|x| **x != 0).count();
                if nz > 2 { cx.rep.nontrivial += 1; }
                cx.rep.count_op(kind, 1);
                run_quat_case(&mut cx, &c);
            }
            "aff" => {
                cx.rep.nontrivial += 1;
                cx.rep.count_op(&format!("aff:{}:{}", c["f"].as_str().unwrap(), c["n"]), 1);
                run_aff_case(&mut cx, &c);
            }
            _ => {}
        }
        if cx.rep.samples.len() < 3 && n % 3001 == 1 { cx.rep.samples.push(c.clone()); }
    });
    rep.cases = n;
    rep.write(&args[2]);
    println!("lin[{}]: cases={} evals={} mismatches={} spec_errors={}", rep.cfg, rep.cases, rep.evals, rep.mismatch_count, rep.spec_error_count);
}
