//! Replay of family `lane` (C01, C07): TLC's cases for element-wise float operations are
//! executed on every float vector type, in every lane position, through every spelling.

use hx::fl::{eqv, Fl, Flt};
use hx::fvec::FV;
use hx::*;
use serde_json::{json, Value};

fn parse_vec(v: &Value) -> Vec<Fl> {
    v.as_array().unwrap().iter().map(Fl::parse).collect()
}
/// lanes (r+i) mod 4 of a 4-lane abstract vector: rotation r, truncated to n lanes
fn pick<T: Clone>(v: &[T], r: usize, n: usize) -> Vec<T> {
    (0..n).map(|i| v[(r + i) % v.len()].clone()).collect()
}
fn conc<T: FV>(l: &[Fl]) -> T {
    let s: Vec<T::S> = l.iter().map(T::S::from_fl).collect();
    T::from_lanes(&s)
}
fn jl(l: &[Fl]) -> Value {
    Value::Array(l.iter().map(|x| x.to_json()).collect())
}
fn bits<T: FV>(v: &T) -> Value {
    Value::Array(v.lanes().iter().map(|x| json!(format!("{:#x}", x.bits64()))).collect())
}

struct Ctx<'a> {
    rep: &'a mut Report,
    only_ty: Option<String>,
}

#[allow(clippy::too_many_arguments)]
fn check_vec<T: FV>(
    cx: &mut Ctx,
    c: &Value,
    spelling: &str,
    rot: usize,
    args: &[Value],
    exp: &[Fl],
    got: &Result<T, String>,
    prim: Option<&[Option<T::S>]>,
) {
    cx.rep.evals += 1;
    match got {
        Err(p) => cx.rep.mismatch(json!({
            "prop": hx::prop_name("C01"), "ty": T::NAME, "op": c["op"], "kind": c["kind"], "spelling": spelling,
            "rot": rot, "args": args, "exp": jl(exp), "got": "panic", "panic": p, "case": c})),
        Ok(g) => {
            let gl = g.lanes();
            for i in 0..T::N {
                if exp[i].is_skip() {
                    cx.rep.lanes_skipped += 1;
                    continue;
                }
                cx.rep.lanes_checked += 1;
                let gf = gl[i].to_fl();
                if let Some(p) = prim {
                    if let Some(pv) = p[i] {
                        if !eqv(&exp[i], &pv.to_fl()) {
                            cx.rep.spec_error(json!({
                                "what": "specification disagrees with the Rust primitive",
                                "ty": T::NAME, "op": c["op"], "kind": c["kind"], "lane": i,
                                "args": args, "exp": exp[i].to_json(), "prim": pv.to_fl().to_json()}));
                            continue;
                        }
                    }
                }
                if !eqv(&exp[i], &gf) {
                    cx.rep.mismatch(json!({
                        "prop": hx::prop_name("C01"), "ty": T::NAME, "op": c["op"], "kind": c["kind"],
                        "spelling": spelling, "rot": rot, "lane": i, "args": args,
                        "exp": exp[i].to_json(), "got": gf.to_json(), "got_bits": bits(g), "case": c}));
                }
            }
        }
    }
}

fn check_bools<T: FV>(
    cx: &mut Ctx,
    c: &Value,
    spelling: &str,
    rot: usize,
    args: &[Value],
    exp: &[bool],
    got: &[bool],
) {
    cx.rep.evals += 1;
    for i in 0..T::N {
        cx.rep.lanes_checked += 1;
        if exp[i] != got[i] {
            cx.rep.mismatch(json!({
                "prop": hx::prop_name("C01"), "ty": T::NAME, "op": c["op"], "kind": c["kind"], "spelling": spelling,
                "rot": rot, "lane": i, "args": args, "exp": exp[i], "got": got[i], "case": c}));
        }
    }
}

fn run_case<T: FV>(cx: &mut Ctx, c: &Value) {
    if let Some(t) = &cx.only_ty {
        if t != T::NAME {
            return;
        }
    }
    let kind = c["kind"].as_str().unwrap();
    let op = c["op"].as_str().unwrap();
    let a = c["args"].as_array().unwrap();
    let fkey = <T::S as Flt>::NAME;
    let n = T::N;
    match kind {
        // the libm backend computes exp / powf with its own routines: there the primitive of the property is libm's, not std's
        "u" | "vs" if c["exp"] == "prim" && cfg!(feature = "libm") => {}
        "u" | "vs" if c["exp"] == "prim" => {
            // lifted primitive without a computed value: every lane must be the Rust primitive of that lane's operands
            let va = parse_vec(&a[0]);
            for r in 0..4 {
                let la = pick(&va, r, n);
                let x: T = conc(&la);
                let (args, res, prim): (Vec<Value>, Result<hx::fvec::Spelled<T>, String>, Vec<Option<T::S>>) = if kind == "u" {
                    (vec![jl(&la)], catch(|| x.un(op)), x.lanes().iter().map(|s| s.prim1(op)).collect())
                } else {
                    let sb = Fl::parse(&a[1]);
                    let s = T::S::from_fl(&sb);
                    (vec![jl(&la), sb.to_json()], catch(|| x.bin_vs(s, op)), x.lanes().iter().map(|p| p.prim2(s, op)).collect())
                };
                let le: Vec<Fl> = prim.iter().map(|p| p.map(|v| v.to_fl()).unwrap_or(Fl::Any)).collect();
                match res {
                    Ok(rs) => for (sp, g) in rs { check_vec::<T>(cx, c, sp, r, &args, &le, &Ok(g), None); },
                    Err(p) => check_vec::<T>(cx, c, "any", r, &args, &le, &Err(p), None),
                }
            }
        }
        "u" if c["exp"].is_object() => {
            let va = parse_vec(&a[0]);
            let ve = parse_vec(&c["exp"][fkey]);
            for r in 0..4 {
                let la = pick(&va, r, n);
                let le = pick(&ve, r, n);
                let x: T = conc(&la);
                let prim: Vec<Option<T::S>> = x.lanes().iter().map(|s| s.prim1(op)).collect();
                let args = [jl(&la)];
                match catch(|| x.un(op)) {
                    Ok(rs) => {
                        for (sp, g) in rs {
                            check_vec::<T>(cx, c, sp, r, &args, &le, &Ok(g), Some(&prim));
                        }
                    }
                    Err(p) => check_vec::<T>(cx, c, "any", r, &args, &le, &Err(p), None),
                }
            }
        }
        "u" => {
            let va = parse_vec(&a[0]);
            let ve: Vec<bool> = c["exp"].as_array().unwrap().iter().map(|b| b.as_bool().unwrap()).collect();
            for r in 0..4 {
                let la = pick(&va, r, n);
                let le = pick(&ve, r, n);
                let x: T = conc(&la);
                let args = [jl(&la)];
                for (sp, g) in x.test(op) {
                    check_bools::<T>(cx, c, sp, r, &args, &le, &g);
                }
            }
        }
        "b" | "vs" | "sv" => {
            let ve = parse_vec(&c["exp"][fkey]);
            for r in 0..4 {
                let le = pick(&ve, r, n);
                let (args, res, prim): (Vec<Value>, Result<hx::fvec::Spelled<T>, String>, Vec<Option<T::S>>) =
                    match kind {
                        "b" => {
                            let la = pick(&parse_vec(&a[0]), r, n);
                            let lb = pick(&parse_vec(&a[1]), r, n);
                            let x: T = conc(&la);
                            let y: T = conc(&lb);
                            let prim = x.lanes().iter().zip(y.lanes()).map(|(p, q)| p.prim2(q, op)).collect();
                            (vec![jl(&la), jl(&lb)], catch(|| x.bin(y, op)), prim)
                        }
                        "vs" => {
                            let la = pick(&parse_vec(&a[0]), r, n);
                            let sb = Fl::parse(&a[1]);
                            let x: T = conc(&la);
                            let s = T::S::from_fl(&sb);
                            let prim = x.lanes().iter().map(|p| p.prim2(s, op)).collect();
                            (vec![jl(&la), sb.to_json()], catch(|| x.bin_vs(s, op)), prim)
                        }
                        _ => {
                            let sa = Fl::parse(&a[0]);
                            let lb = pick(&parse_vec(&a[1]), r, n);
                            let y: T = conc(&lb);
                            let s = T::S::from_fl(&sa);
                            let prim = y.lanes().iter().map(|q| s.prim2(*q, op)).collect();
                            (vec![sa.to_json(), jl(&lb)], catch(|| T::bin_sv(s, y, op)), prim)
                        }
                    };
                match res {
                    Ok(rs) => {
                        for (sp, g) in rs {
                            check_vec::<T>(cx, c, sp, r, &args, &le, &Ok(g), Some(&prim));
                        }
                    }
                    Err(p) => check_vec::<T>(cx, c, "any", r, &args, &le, &Err(p), None),
                }
            }
        }
        "c" if op == "eq" => {
            let key = format!("n{n}");
            let e = c["exp"][&key].as_bool().unwrap();
            let la = pick(&parse_vec(&a[0]), 0, n);
            let lb = pick(&parse_vec(&a[1]), 0, n);
            let x: T = conc(&la);
            let y: T = conc(&lb);
            for (sp, g) in x.eq_(y) {
                cx.rep.evals += 1;
                if g != e {
                    cx.rep.mismatch(json!({"prop": hx::prop_name("C01"), "ty": T::NAME, "op": op, "kind": kind,
                        "spelling": sp, "args": [jl(&la), jl(&lb)], "exp": e, "got": g, "case": c}));
                }
            }
        }
        "c" => {
            let ve: Vec<bool> = c["exp"].as_array().unwrap().iter().map(|b| b.as_bool().unwrap()).collect();
            for r in 0..4 {
                let la = pick(&parse_vec(&a[0]), r, n);
                let lb = pick(&parse_vec(&a[1]), r, n);
                let le = pick(&ve, r, n);
                let x: T = conc(&la);
                let y: T = conc(&lb);
                // oracle cross-check against the primitive comparison
                for i in 0..n {
                    if x.lanes()[i].primcmp(y.lanes()[i], op) != le[i] {
                        cx.rep.spec_error(json!({"what": "spec comparison disagrees with primitive",
                            "op": op, "args": [jl(&la), jl(&lb)], "lane": i}));
                    }
                }
                let args = [jl(&la), jl(&lb)];
                for (sp, g) in x.cmp(y, op) {
                    check_bools::<T>(cx, c, sp, r, &args, &le, &g);
                }
            }
        }
        "t" if op == "abs_diff_eq" => {
            let key = format!("n{n}");
            let e = c["exp"][fkey][&key].as_str().unwrap();
            if e == "oom" {
                cx.rep.lanes_skipped += 1;
                return;
            }
            let la = pick(&parse_vec(&a[0]), 0, n);
            let lb = pick(&parse_vec(&a[1]), 0, n);
            let t = Fl::parse(&a[2]);
            let x: T = conc(&la);
            let y: T = conc(&lb);
            let g = x.abs_diff_eq_(y, T::S::from_fl(&t));
            cx.rep.evals += 1;
            if g != (e == "t") {
                cx.rep.mismatch(json!({"prop": hx::prop_name("C01"), "ty": T::NAME, "op": op, "kind": kind,
                    "spelling": "method", "args": [jl(&la), jl(&lb), t.to_json()], "exp": e, "got": g, "case": c}));
            }
        }
        "t" => {
            let ve = parse_vec(&c["exp"][fkey]);
            for r in 0..4 {
                let la = pick(&parse_vec(&a[0]), r, n);
                let lb = pick(&parse_vec(&a[1]), r, n);
                let lc = pick(&parse_vec(&a[2]), r, n);
                let le = pick(&ve, r, n);
                let x: T = conc(&la);
                let y: T = conc(&lb);
                let z: T = conc(&lc);
                let prim: Vec<Option<T::S>> =
                    (0..n).map(|i| x.lanes()[i].prim3(y.lanes()[i], z.lanes()[i], op)).collect();
                let args = [jl(&la), jl(&lb), jl(&lc)];
                // clamp panics in the primitive when min > max or NaN: those lanes are "any" in the
                // specification; glam's clamp has a glam_assert only. Run it regardless.
                match catch(|| x.tern(y, z, op)) {
                    Ok(rs) => {
                        for (sp, g) in rs {
                            check_vec::<T>(cx, c, sp, r, &args, &le, &Ok(g), Some(&prim));
                        }
                    }
                    Err(p) => {
                        if !(op == "clamp" && cfg!(feature = "glam-assert")) {
                            check_vec::<T>(cx, c, "any", r, &args, &le, &Err(p), None)
                        }
                    }
                }
            }
        }
        "r" => {
            let key = format!("n{n}");
            let la = pick(&parse_vec(&a[0]), 0, n);
            let x: T = conc(&la);
            let e = &c["exp"][&key];
            cx.rep.evals += 1;
            let ok = if let Some(g) = x.red_scalar(op) {
                let ef = Fl::parse(e);
                if ef.is_skip() {
                    cx.rep.lanes_skipped += 1;
                    true
                } else {
                    eqv(&ef, &g.to_fl())
                }
            } else if let Some(g) = x.red_int(op) {
                let ei = e.as_i64().unwrap();
                ei < 0 || ei == g
            } else if let Some(g) = x.red_bool(op) {
                e.as_bool().unwrap() == g
            } else {
                true
            };
            if !ok {
                cx.rep.mismatch(json!({"prop": hx::prop_name("C01"), "ty": T::NAME, "op": op, "kind": kind,
                    "spelling": "method", "args": [jl(&la)], "exp": e,
                    "got": format!("{:?}", (x.red_scalar(op), x.red_int(op), x.red_bool(op))), "case": c}));
            }
        }
        "f" => {
            let ve = parse_vec(&c["exp"][fkey]);
            let seq = a[0].as_array().unwrap();
            for r in 0..4 {
                let le = pick(&ve, r, n);
                let vs: Vec<T> = seq.iter().map(|v| conc::<T>(&pick(&parse_vec(v), r, n))).collect();
                let args: Vec<Value> = seq.iter().map(|v| jl(&pick(&parse_vec(v), r, n))).collect();
                let rs = if op == "sum" { T::sum_(&vs) } else { T::product_(&vs) };
                for (sp, g) in rs {
                    check_vec::<T>(cx, c, sp, r, &args, &le, &Ok(g), None);
                }
            }
        }
        _ => panic!("unknown kind {kind}"),
    }
}

/// a case is non-trivial when some operand lane is a finite value other than +-1 (zeros,
/// infinities and NaNs alone do not count)
fn nontrivial_case(v: &Value) -> bool {
    match v {
        Value::Array(a) if a.len() == 3 && a.iter().all(|x| x.is_number()) => {
            !(a[1].as_u64() == Some(1) && a[2].as_i64() == Some(0))
        }
        Value::Array(a) => a.iter().any(nontrivial_case),
        _ => false,
    }
}

fn main() {
    let args: Vec<String> = std::env::args().collect();
    quiet_panics();
    fl::selftest();
    let mut rep = Report::new();
    let mut cx = Ctx { rep: &mut rep, only_ty: std::env::var("HX_ONLY_TY").ok() };
    let mut n = 0u64;
    let mut nontriv = 0u64;
    read_cases(&args[1], "CASE", |c| {
        if c["fam"] != "lane" || !hx::kind_enabled(c["kind"].as_str().unwrap(), c["op"].as_str().unwrap()) {
            return;
        }
        n += 1;
        if nontrivial_case(&c["args"]) {
            nontriv += 1;
        }
        let key = format!("{}:{}", c["kind"].as_str().unwrap(), c["op"].as_str().unwrap());
        cx.rep.count_op(&key, 1);
        if cx.rep.samples.len() < 3 && n % 7919 == 1 {
            cx.rep.samples.push(c.clone());
        }
        hx::for_each_fv!(run_case(&mut cx, &c));
    });
    rep.cases = n;
    rep.nontrivial = nontriv;
    rep.write(&args[2]);
    println!(
        "lane[{}]: cases={} evals={} lanes_checked={} skipped={} mismatches={} spec_errors={}",
        rep.cfg, rep.cases, rep.evals, rep.lanes_checked, rep.lanes_skipped, rep.mismatch_count, rep.spec_error_count
    );
}
