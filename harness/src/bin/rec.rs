//! Recorder for the code -> specification direction (C01, C13, C14, C07): executes the real library on
//! RANDOM bit patterns and writes one ndjson event per public call with its operands and its result,
//! every number decoded to exact integers.  Nothing is judged here: spec/Trace_Lanes.tla consumes the file
//! and decides every event with arbitrary-precision arithmetic (IeeeW.tla, IntLane.tla).
//!
//!   rec float <out> <seed> <draws>     element-wise float operations on the 7 float vector types
//!   rec int   <out> <seed> <draws>     integer vector operations on the 27 integer vector types
//!   rec conv  <out> <seed> <draws>     as / From / TryFrom between the numeric vector types
//!
//! Wire forms.  float: [] NaN, [s] infinity, [s, e, limb0, limb1, ...] = (-1)^s * m * 2^e with m the stored
//! significand (base-256 limbs, little endian; no limbs for zero).  integer: [sign, limb0, ...].

use hx::conv_gen::{as_cast, from_conv, try_conv, AS_PAIRS, FROM_PAIRS, TRY_PAIRS, TYPES};
use hx::fl::Flt;
use hx::fvec::FV;
use hx::ivec::{IS, IV};
use hx::*;
use serde_json::{json, Value};
use std::io::Write;

fn limbs(mut m: u128) -> Vec<Value> {
    let mut v = vec![];
    while m != 0 {
        v.push(json!((m & 0xff) as u64));
        m >>= 8;
    }
    v
}
/// f32 / f64 bit pattern -> wire form (exact)
fn wf(bits: u64, is32: bool) -> Value {
    let (s, ebits, frac, ebias, mbits, emax) = if is32 {
        ((bits >> 31) & 1, (bits >> 23) & 0xff, bits & 0x7f_ffff, 127i64, 23i64, 0xffu64)
    } else {
        ((bits >> 63) & 1, (bits >> 52) & 0x7ff, bits & 0xf_ffff_ffff_ffff, 1023i64, 52i64, 0x7ffu64)
    };
    if ebits == emax {
        return if frac != 0 { json!([]) } else { json!([s]) };
    }
    let (m, e) = if ebits == 0 { (frac, 1 - ebias - mbits) } else { (frac | (1u64 << mbits), ebits as i64 - ebias - mbits) };
    let mut v = vec![json!(s), json!(if m == 0 { 0 } else { e })];
    v.extend(limbs(m as u128));
    Value::Array(v)
}
fn wz(x: i128) -> Value {
    let mut v = vec![json!(if x < 0 { 1 } else { 0 })];
    v.extend(limbs(x.unsigned_abs()));
    Value::Array(v)
}

// ------------------------------------------------------------------------------------------ floats
/// one random lane: a mix of classes so that ties, cancellation, subnormals, overflow and the integer
/// boundaries 2^23 / 2^52 are all hit with random significands
fn rnd_f(r: &mut Rng, is32: bool) -> u64 {
    let (mb, bias, emaxf) = if is32 { (23u32, 127i64, 0xffi64) } else { (52u32, 1023i64, 0x7ffi64) };
    let frac_mask = (1u64 << mb) - 1;
    let mk = |s: u64, e: i64, f: u64| -> u64 {
        let e = e.clamp(0, emaxf - 1) as u64;
        (s << (if is32 { 31 } else { 63 })) | (e << mb) | (f & frac_mask)
    };
    let s = r.below(2);
    match r.below(20) {
        0..=5 => {
            // any finite or non-finite bit pattern
            let b = r.next();
            if is32 { b & 0xffff_ffff } else { b }
        }
        6..=9 => mk(s, bias + r.below(41) as i64 - 20, r.next()), // moderate exponent, random significand
        10..=11 => {
            // small integer plus a quarter: every tie of floor / ceil / round
            let q = r.below(4096) as f64 / 4.0 * if s == 1 { -1.0 } else { 1.0 };
            if is32 { (q as f32).to_bits() as u64 } else { q.to_bits() }
        }
        12 => mk(s, 0, r.next()),                                      // subnormal
        13 => mk(s, 1 + r.below(3) as i64, r.next()),                  // smallest normals
        14 => mk(s, bias + mb as i64 - 2 + r.below(5) as i64, r.next()), // around 2^mb: last values with a fraction
        15 => mk(s, emaxf - 1 - r.below(3) as i64, r.next()),          // near overflow
        16 => mk(s, bias + r.below(3) as i64 - 1, if r.below(2) == 0 { 0 } else { frac_mask }), // 0.5, 1, 2, just below
        17 => mk(s, bias + 30 + r.below(4) as i64, r.next()),          // around 2^31 / 2^32
        18 => match r.below(4) { 0 => mk(s, 0, 0), 1 => mk(s, emaxf, 0) | ((emaxf as u64) << mb), 2 => mk(0, emaxf, 0) | ((emaxf as u64) << mb) | 1 | (1 << (mb - 1)), _ => mk(s, bias, 0) },
        _ => mk(s, bias + 62 + r.below(4) as i64, r.next()),          // around 2^63 / 2^64
    }
}
/// a partner lane related to `a`: same exponent (cancellation), neighbour, exact multiple, or independent
fn partner(r: &mut Rng, a: u64, is32: bool) -> u64 {
    let mb = if is32 { 23u32 } else { 52 };
    let frac_mask = (1u64 << mb) - 1;
    match r.below(10) {
        0 | 1 => (a & !frac_mask) | (r.next() & frac_mask),                 // same sign and exponent
        2 => ((a & !frac_mask) | (r.next() & frac_mask)) ^ (1 << (if is32 { 31 } else { 63 })), // opposite sign: cancellation
        3 => a.wrapping_add(1),
        4 => a.wrapping_sub(1),
        5 => {
            // a small integer multiple or fraction of a moderate value
            let k = 1 + r.below(7) as u32;
            if is32 { (f32::from_bits(a as u32) / k as f32).to_bits() as u64 } else { (f64::from_bits(a) / k as f64).to_bits() }
        }
        _ => rnd_f(r, is32),
    }
}

const F_UN: &[&str] = &["neg", "abs", "signum", "floor", "ceil", "trunc", "round", "fract", "fract_gl", "recip"];
const F_BIN: &[&str] = &["add", "sub", "mul", "div", "rem", "min", "max", "copysign", "div_euclid", "rem_euclid"];
const F_VS: &[&str] = &["add", "sub", "mul", "div", "rem"];
const F_CMP: &[&str] = &["cmpeq", "cmpne", "cmplt", "cmple", "cmpgt", "cmpge"];

struct Out {
    w: std::io::BufWriter<std::fs::File>,
    n: u64,
    per: std::collections::BTreeMap<String, u64>,
    /// replay mode: only the event with this kind / op / spelling / form is written (all spellings are executed)
    filter: Option<Value>,
}
impl Out {
    fn all_spellings(&self) -> bool {
        self.filter.is_some()
    }
    fn emit(&mut self, mut v: Value) {
        // HX_OPS = comma list of operation names: only those are logged (the random stream is not affected)
        if let Ok(l) = std::env::var("HX_OPS") {
            if !l.split(',').any(|x| x == v["op"].as_str().unwrap_or("")) {
                self.n += 1;
                return;
            }
        }
        if let Ok(l) = std::env::var("HX_TYS") {
            if !l.split(',').any(|x| x == v["ty"].as_str().unwrap_or("")) {
                self.n += 1;
                return;
            }
        }
        if let Some(f) = &self.filter {
            for key in ["k", "op", "sp", "form", "ty"] {
                // a logged panic has no spelling: any spelling of that form matches
                if (key == "form" || !f[key].is_null()) && f[key] != v[key] {
                    return;
                }
            }
        }
        self.n += 1;
        v["i"] = json!(self.n);
        *self.per.entry(format!("{}:{}", v["k"].as_str().unwrap(), v["op"].as_str().unwrap_or(""))).or_insert(0) += 1;
        writeln!(self.w, "{}", v).unwrap();
    }
}

fn rec_float_ty<T: FV>(o: &mut Out, r: &mut Rng, draw: u64) {
    let is32 = <T::S as Flt>::NAME == "f32";
    let a: Vec<u64> = (0..T::N).map(|_| rnd_f(r, is32)).collect();
    let b: Vec<u64> = a.iter().map(|x| partner(r, *x, is32)).collect();
    let c: Vec<u64> = (0..T::N).map(|_| rnd_f(r, is32)).collect();
    exec_float::<T>(o, &a, &b, &c, draw);
}
/// every element-wise operation of one float vector type on the operand lanes a, b, c (bit patterns)
fn exec_float<T: FV>(o: &mut Out, a: &[u64], b: &[u64], c: &[u64], draw: u64) {
    let is32 = <T::S as Flt>::NAME == "f32";
    let fm = if is32 { 32 } else { 64 };
    let mkv = |b: &[u64]| -> T {
        let l: Vec<T::S> = b.iter().map(|x| flt_of::<T::S>(*x)).collect();
        T::from_lanes(&l)
    };
    let enc = |v: &T| -> Value { Value::Array(v.lanes().iter().map(|x| wf(x.bits64(), is32)).collect()) };
    let encb = |b: &[u64]| -> Value { Value::Array(b.iter().map(|x| wf(*x, is32)).collect()) };
    let (a, b, c) = (a.to_vec(), b.to_vec(), c.to_vec());
    let (va, vb, vc) = (mkv(&a), mkv(&b), mkv(&c));
    let all = o.all_spellings();
    let pick = |n: usize| (draw as usize) % n.max(1);
    // the spellings to log: the one chosen by the draw, or all of them in replay mode
    let sel = |n: usize| -> Vec<usize> { if all { (0..n).collect() } else { vec![pick(n)] } };
    for op in F_UN {
        match catch(|| va.un(op)) {
            Ok(rs) if !rs.is_empty() => {
                for i in sel(rs.len()) {
                    let (sp, g) = &rs[i];
                    o.emit(json!({"k": "f1", "f": fm, "op": op, "ty": T::NAME, "sp": sp, "a": encb(&a), "got": enc(g)}));
                }
            }
            Ok(_) => {}
            Err(p) => o.emit(json!({"k": "f1", "f": fm, "op": op, "ty": T::NAME, "a": encb(&a), "panic": p})),
        }
    }
    for op in F_BIN {
        match catch(|| va.bin(vb, op)) {
            Ok(rs) if !rs.is_empty() => {
                for i in sel(rs.len()) {
                    let (sp, g) = &rs[i];
                    o.emit(json!({"k": "f2", "f": fm, "op": op, "ty": T::NAME, "sp": sp, "a": encb(&a), "b": encb(&b), "got": enc(g)}));
                }
            }
            Ok(_) => {}
            Err(p) => o.emit(json!({"k": "f2", "f": fm, "op": op, "ty": T::NAME, "a": encb(&a), "b": encb(&b), "panic": p})),
        }
    }
    // vector op scalar and scalar op vector: the scalar is lane 0 of b
    let s = flt_of::<T::S>(b[0]);
    let sb: Vec<u64> = vec![b[0]; T::N];
    for op in F_VS {
        if let Ok(rs) = catch(|| va.bin_vs(s, op)) {
            for i in sel(rs.len()) {
                let (sp, g) = &rs[i];
                o.emit(json!({"k": "f2", "f": fm, "op": op, "ty": T::NAME, "sp": format!("vs {sp}"), "a": encb(&a), "b": encb(&sb), "got": enc(g)}));
            }
        }
        if let Ok(rs) = catch(|| T::bin_sv(s, va, op)) {
            for i in sel(rs.len()) {
                let (sp, g) = &rs[i];
                o.emit(json!({"k": "f2", "f": fm, "op": op, "ty": T::NAME, "sp": format!("sv {sp}"), "a": encb(&sb), "b": encb(&a), "got": enc(g)}));
            }
        }
    }
    for op in F_CMP {
        if let Ok(rs) = catch(|| va.cmp(vb, op)) {
            for i in sel(rs.len()) {
                let (sp, g) = &rs[i];
                let gb: Vec<u8> = g.iter().map(|x| *x as u8).collect();
                o.emit(json!({"k": "fc", "f": fm, "op": op, "ty": T::NAME, "sp": sp, "a": encb(&a), "b": encb(&b), "got": gb}));
            }
        }
    }
    // mul_add: a * b + c  (fused or not is the build's choice; the specification allows both)
    if let Ok(rs) = catch(|| va.tern(vb, vc, "mul_add")) {
        if !rs.is_empty() {
            o.emit(json!({"k": "f3", "f": fm, "op": "mul_add", "ty": T::NAME, "a": encb(&a), "b": encb(&b), "c": encb(&c), "got": enc(&rs[0].1)}));
        }
    }
    // clamp with ordered bounds (lane-wise min / max of b and c)
    let val = |x: u64| -> f64 { if is32 { f32::from_bits(x as u32) as f64 } else { f64::from_bits(x) } };
    if b.iter().chain(c.iter()).all(|x| !flt_is_nan(*x, is32)) {
        let lo: Vec<u64> = b.iter().zip(c.iter()).map(|(x, y)| if val(*x) <= val(*y) { *x } else { *y }).collect();
        let hi: Vec<u64> = b.iter().zip(c.iter()).map(|(x, y)| if val(*x) <= val(*y) { *y } else { *x }).collect();
        if let Ok(rs) = catch(|| va.tern(mkv(&lo), mkv(&hi), "clamp")) {
            if !rs.is_empty() {
                o.emit(json!({"k": "f3", "f": fm, "op": "clamp", "ty": T::NAME, "a": encb(&a), "b": encb(&lo), "c": encb(&hi), "got": enc(&rs[0].1)}));
            }
        }
    }
    // horizontal min / max on ordered lanes
    if a.iter().all(|x| !flt_is_nan(*x, is32)) {
        for op in ["min_element", "max_element"] {
            if let Some(g) = va.red_scalar(op) {
                o.emit(json!({"k": "fr", "f": fm, "op": op, "ty": T::NAME, "a": encb(&a), "got": wf(g.bits64(), is32)}));
            }
        }
    }
}
fn flt_is_nan(b: u64, is32: bool) -> bool {
    if is32 { f32::from_bits(b as u32).is_nan() } else { f64::from_bits(b).is_nan() }
}
fn flt_of<S: Flt>(b: u64) -> S {
    S::from_bits64(b)
}

// ------------------------------------------------------------------------------------------ integers
fn rnd_i(r: &mut Rng, w: u32, signed: bool) -> i128 {
    let (lo, hi): (i128, i128) = if signed { (-(1i128 << (w - 1)), (1i128 << (w - 1)) - 1) } else { (0, (1i128 << w) - 1) };
    let span = hi - lo + 1;
    let raw = (r.next() as u128 | ((r.next() as u128) << 64)) as i128;
    let v = match r.below(12) {
        0..=3 => lo + (raw.rem_euclid(span)),                                  // uniform
        4 => lo + r.below(4) as i128,
        5 => hi - r.below(4) as i128,
        6 => r.below(7) as i128 - 3,
        7 => { let k = r.below(w as u64) as u32; (1i128 << k) + r.below(3) as i128 - 1 }          // 2^k - 1, 2^k, 2^k + 1
        8 => { let k = r.below(w as u64) as u32; -((1i128 << k) + r.below(3) as i128 - 1) }
        9 => { let k = (w / 2) as u32; (raw.rem_euclid(1i128 << (k + 1))) - (1i128 << k) }       // half-width: products near the edge
        10 => hi / (1 + r.below(5) as i128),
        _ => lo / (1 + r.below(5) as i128),
    };
    v.clamp(lo, hi)
}

const I_UN: &[&str] = &["neg", "not", "abs", "signum"];
const I_BIN: &[&str] = &["add", "sub", "mul", "div", "rem", "min", "max", "bitand", "bitor", "bitxor", "div_euclid", "rem_euclid",
    "checked_add", "checked_sub", "checked_mul", "checked_div", "wrapping_add", "wrapping_sub", "wrapping_mul", "wrapping_div",
    "saturating_add", "saturating_sub", "saturating_mul", "saturating_div"];
const I_MIXED: &[&str] = &["checked_add_unsigned", "checked_sub_unsigned", "wrapping_add_unsigned", "wrapping_sub_unsigned",
    "saturating_add_unsigned", "saturating_sub_unsigned", "checked_add_signed", "wrapping_add_signed", "saturating_add_signed"];
const I_RED1: &[&str] = &["element_sum", "element_product", "length_squared", "min_element", "max_element", "min_position", "max_position"];
const I_RED2: &[&str] = &["dot", "distance_squared", "manhattan_distance", "checked_manhattan_distance", "chebyshev_distance"];

fn vout(o: &mut Out, base: Value, r: Result<hx::ivec::Spelled<hx::ivec::VOut>, String>, pick: usize) {
    let mut ev = base;
    match r {
        Err(_) => {
            ev["out"] = json!("panic");
            ev["got"] = json!([]);
        }
        Ok(rs) if rs.is_empty() => return,
        Ok(rs) => {
            let idx: Vec<usize> = if o.all_spellings() { (0..rs.len()).collect() } else { vec![pick % rs.len()] };
            for i in idx {
                let (sp, g) = &rs[i];
                let mut ev = ev.clone();
                ev["sp"] = json!(sp);
                match g {
                    hx::ivec::VOut::Panic => {
                        ev["out"] = json!("panic");
                        ev["got"] = json!([]);
                    }
                    hx::ivec::VOut::None => {
                        ev["out"] = json!("none");
                        ev["got"] = json!([]);
                    }
                    hx::ivec::VOut::Val(l) => {
                        ev["out"] = json!("val");
                        ev["got"] = Value::Array(l.iter().map(|x| wz(*x)).collect());
                    }
                }
                o.emit(ev);
            }
            return;
        }
    }
    o.emit(ev);
}
fn sout(o: &mut Out, base: Value, r: Option<hx::ivec::Out>) {
    let mut ev = base;
    match r {
        None => return,
        Some(hx::ivec::Out::Panic) => { ev["out"] = json!("panic"); ev["got"] = json!([]); }
        Some(hx::ivec::Out::None) => { ev["out"] = json!("none"); ev["got"] = json!([]); }
        Some(hx::ivec::Out::Val(v)) => { ev["out"] = json!("val"); ev["got"] = wz(v); }
    }
    o.emit(ev);
}

fn rec_int_ty<V: IV>(o: &mut Out, r: &mut Rng, draw: u64) {
    let w = <V::S as IS>::W;
    let sg = <V::S as IS>::SIGNED;
    let a: Vec<i128> = (0..V::N).map(|_| rnd_i(r, w, sg)).collect();
    let mut b: Vec<i128> = (0..V::N).map(|_| rnd_i(r, w, sg)).collect();
    if r.below(4) == 0 { b[r.below(V::N as u64) as usize] = a[0]; }
    let c: Vec<i128> = (0..V::N).map(|_| rnd_i(r, w, sg)).collect();
    let ob: Vec<i128> = (0..V::N).map(|_| rnd_i(r, w, !sg)).collect();
    let cnt: i128 = match r.below(6) { 0 => w as i128, 1 => -1, 2 => w as i128 + 1 + r.below(40) as i128, _ => r.below(w as u64) as i128 };
    let cv: Vec<i128> = (0..V::N).map(|_| if r.below(8) == 0 { w as i128 + r.below(3) as i128 } else { r.below(w as u64) as i128 }).collect();
    exec_int::<V>(o, &a, &b, &c, &ob, cnt, &cv, draw);
}
/// every operation of one integer vector type on the operand lanes
#[allow(clippy::too_many_arguments)]
fn exec_int<V: IV>(o: &mut Out, a: &[i128], b: &[i128], c: &[i128], ob: &[i128], cnt: i128, cv: &[i128], draw: u64) {
    let w = <V::S as IS>::W;
    let sg = <V::S as IS>::SIGNED;
    let prof = if cfg!(debug_assertions) { "dbg" } else { "rel" };
    let (a, b, c, ob, cv) = (a.to_vec(), b.to_vec(), c.to_vec(), ob.to_vec(), cv.to_vec());
    // the 4th "lane" of from_i is ignored by narrower vectors
    let pad = |v: &[i128]| -> Vec<i128> { let mut x = v.to_vec(); while x.len() < 4 { x.push(0); } x };
    let (va, vb, vc) = (V::from_i(&pad(&a)), V::from_i(&pad(&b)), V::from_i(&pad(&c)));
    let ez = |v: &[i128]| -> Value { Value::Array(v.iter().map(|x| wz(*x)).collect()) };
    let base = |k: &str, op: &str| json!({"k": k, "w": w, "sg": sg as u8, "p": prof, "op": op, "ty": V::NAME, "n": V::N});
    let pk = draw as usize;
    for op in I_UN {
        let mut ev = base("i1", op);
        ev["a"] = ez(&a);
        vout(o, ev, catch(|| va.un(op)), pk);
    }
    for op in I_BIN {
        let mut ev = base("i2", op);
        ev["a"] = ez(&a);
        ev["b"] = ez(&b);
        vout(o, ev, catch(|| va.bin(vb, op)), pk);
    }
    let s = <V::S as IS>::of(b[0]);
    let sb = vec![b[0]; V::N];
    for op in ["add", "sub", "mul", "div", "rem", "bitand", "bitor", "bitxor"] {
        let mut ev = base("i2", op);
        ev["a"] = ez(&a);
        ev["b"] = ez(&sb);
        ev["form"] = json!("vs");
        vout(o, ev, catch(|| va.bin_vs(s, op)), pk);
        let mut ev = base("i2", op);
        ev["a"] = ez(&sb);
        ev["b"] = ez(&a);
        ev["form"] = json!("sv");
        vout(o, ev, catch(|| V::bin_sv(s, va, op)), pk);
    }
    if V::HAS_MIXED {
        // operand of the other signedness, same width
        for op in I_MIXED {
            let mut ev = base("im", op);
            ev["a"] = ez(&a);
            ev["b"] = ez(&ob);
            vout(o, ev, catch(|| va.mixed(&pad(&ob), op)), pk);
        }
    }
    // shifts: scalar counts of every count type (in range mostly, sometimes out of range) and vector counts
    for op in ["shl", "shr"] {
        let mut ev = base("is", op);
        ev["a"] = ez(&a);
        ev["c"] = ez(&vec![cnt; V::N]);
        vout(o, ev, catch(|| va.shift(cnt, op)), pk);
        let mut ev = base("is", op);
        ev["a"] = ez(&a);
        ev["form"] = json!("vc");
        ev["c"] = ez(&cv);
        vout(o, ev, catch(|| va.shift_v(&pad(&cv), op)), pk);
    }
    for op in ["cmpeq", "cmpne", "cmplt", "cmple", "cmpgt", "cmpge"] {
        if let Ok(rs) = catch(|| va.cmp(vb, op)) {
            if !rs.is_empty() {
                let mut ev = base("i2", op);
                ev["a"] = ez(&a);
                ev["b"] = ez(&b);
                ev["out"] = json!("val");
                ev["got"] = Value::Array(rs[0].1.iter().map(|x| wz(*x as i128)).collect());
                o.emit(ev);
            }
        }
    }
    // clamp with ordered bounds
    let lo: Vec<i128> = b.iter().zip(c.iter()).map(|(x, y)| *x.min(y)).collect();
    let hi: Vec<i128> = b.iter().zip(c.iter()).map(|(x, y)| *x.max(y)).collect();
    let mut ev = base("i3", "clamp");
    ev["a"] = ez(&a);
    ev["b"] = ez(&lo);
    ev["c"] = ez(&hi);
    vout(o, ev, catch(|| vec![("method", va.clamp_(V::from_i(&pad(&lo)), V::from_i(&pad(&hi))))]), 0);
    for op in I_RED1 {
        let mut ev = base("ir1", op);
        ev["a"] = ez(&a);
        sout(o, ev, va.red1(op));
    }
    for op in I_RED2 {
        let mut ev = base("ir2", op);
        ev["a"] = ez(&a);
        ev["b"] = ez(&b);
        sout(o, ev, va.red2(vb, op));
    }
    let _ = vc;
}

// ------------------------------------------------------------------------------------------ conversions
fn sc_desc(sc: &str) -> Value {
    match sc {
        "f32" => json!({"f": 32}),
        "f64" => json!({"f": 64}),
        "i8" => json!({"w": 8, "sg": 1}), "u8" => json!({"w": 8, "sg": 0}),
        "i16" => json!({"w": 16, "sg": 1}), "u16" => json!({"w": 16, "sg": 0}),
        "i32" => json!({"w": 32, "sg": 1}), "u32" => json!({"w": 32, "sg": 0}),
        "i64" => json!({"w": 64, "sg": 1}),
        _ => json!({"w": 64, "sg": 0}),
    }
}
fn sc_of(ty: &str) -> (&'static str, usize) {
    let t = TYPES.iter().find(|t| t.0 == ty).unwrap();
    (t.1, t.2)
}
fn enc_sc(sc: &str, b: u64) -> Value {
    match sc {
        "f32" => wf(b, true),
        "f64" => wf(b, false),
        "i8" => wz(b as u8 as i8 as i128), "i16" => wz(b as u16 as i16 as i128),
        "i32" => wz(b as u32 as i32 as i128), "i64" => wz(b as i64 as i128),
        "u8" => wz(b as u8 as i128), "u16" => wz(b as u16 as i128), "u32" => wz(b as u32 as i128),
        _ => wz(b as i128),
    }
}
fn rnd_sc(r: &mut Rng, sc: &str, dst: &str) -> u64 {
    match sc {
        "f32" | "f64" => {
            let is32 = sc == "f32";
            // bias towards the edges of the destination's integer range
            if !dst.starts_with('f') && r.below(3) == 0 {
                let w: u32 = dst[1..].parse().unwrap_or(64);
                let k = if dst.starts_with('i') { w - 1 } else { w };
                let base = (2.0f64).powi(k as i32) * if dst.starts_with('i') && r.below(2) == 0 { -1.0 } else { 1.0 };
                let v = base + (r.below(5) as f64 - 2.0) * if is32 { (2.0f64).powi(k as i32 - 23) } else { (2.0f64).powi((k as i32 - 52).max(-2)) } + if r.below(2) == 0 { 0.5 } else { 0.0 };
                return if is32 { (v as f32).to_bits() as u64 } else { v.to_bits() };
            }
            rnd_f(r, is32)
        }
        _ => {
            let w: u32 = if sc == "usize" { 64 } else { sc[1..].parse().unwrap() };
            let signed = sc.starts_with('i');
            let mut v = rnd_i(r, w, signed);
            // integer -> float: values one unit above / below / exactly on a rounding tie of the destination format
            // (2^k + 2^(k-p) is half-way between two neighbours of precision p): wrong if the conversion rounds twice
            let p: u32 = if dst == "f32" { 24 } else if dst == "f64" { 53 } else { 0 };
            let top = if signed { w - 1 } else { w };
            if p != 0 && top > p + 1 && r.below(3) == 0 {
                let k = p + 1 + r.below((top - p - 1) as u64) as u32;           // p+1 <= k <= top-1
                let tie: i128 = (1i128 << k) + (1i128 << (k - p)) + if r.below(2) == 0 { 1i128 << (k - p + 1) } else { 0 };
                v = tie + (r.below(3) as i128 - 1);
                if signed && r.below(2) == 0 { v = -v; }
            }
            (v as u64) & if w == 64 { u64::MAX } else { (1u64 << w) - 1 }
        }
    }
}
fn rec_conv(o: &mut Out, r: &mut Rng, draws: u64) {
    let mut pairs: Vec<(&str, &str, &str)> = vec![];
    for (a, b) in AS_PAIRS { pairs.push((a, b, "as")); }
    for (a, b) in FROM_PAIRS { pairs.push((a, b, "from")); }
    for (a, b) in TRY_PAIRS { pairs.push((a, b, "try")); }
    for d in 0..draws {
        for (pi, (sty, dty, how)) in pairs.iter().enumerate() {
            // a slice of the pairs per draw keeps the trace size proportional to `draws`
            let (ssc, n) = sc_of(sty);
            let (dsc, _) = sc_of(dty);
            if (pi as u64 + d) % 4 != 0 { continue; }          // every pair is exercised in every fourth draw
            let mut bits: Vec<u64> = (0..n).map(|_| rnd_sc(r, ssc, dsc)).collect();
            if *how == "try" && r.below(2) == 0 {
                // mostly fitting values with at most one offender, in a random lane
                let dw: u32 = if dsc == "usize" { 64 } else { dsc[1..].parse().unwrap() };
                let sw: u32 = if ssc == "usize" { 64 } else { ssc[1..].parse().unwrap() };
                for b in bits.iter_mut() { *b = r.below(100) & if sw == 64 { u64::MAX } else { (1u64 << sw) - 1 }; }
                if r.below(3) != 0 {
                    let k = r.below(n as u64) as usize;
                    bits[k] = rnd_sc(r, ssc, dsc);
                }
                let _ = dw;
            }
            exec_conv(o, sty, dty, how, &bits);
            // integer -> float `as`: one more event whose lanes sit one unit above / below a rounding tie of the destination
            // (2^k + 2^(k-p) +- 1): a conversion that rounds twice (through f64, or through a narrower integer) gets these wrong
            let p: u32 = if dsc == "f32" { 24 } else if dsc == "f64" { 53 } else { 0 };
            let sw: u32 = if ssc.starts_with('f') { 0 } else if ssc == "usize" { 64 } else { ssc[1..].parse().unwrap() };
            let top = if ssc.starts_with('i') { sw.saturating_sub(1) } else { sw };
            if *how == "as" && p != 0 && top > p + 1 {
                let tb: Vec<u64> = (0..n).map(|i| {
                    // high magnitudes (where an intermediate f64 or narrower integer has already lost the low bit); the two
                    // combinations a double rounding gets wrong: tie-to-even goes down but the value is above, or the reverse
                    let lo = (p + 1).max(top.saturating_sub(9));
                    let k = lo + r.below((top - lo) as u64) as u32;
                    let (odd, d) = if i % 2 == 0 { (0i128, 1i128) } else { (1i128 << (k - p + 1), -1i128) };
                    let v = (1i128 << k) + (1i128 << (k - p)) + odd + d;
                    let v = if ssc.starts_with('i') && r.below(2) == 0 { -v } else { v };
                    (v as u64) & if sw == 64 { u64::MAX } else { (1u64 << sw) - 1 }
                }).collect();
                exec_conv(o, sty, dty, how, &tb);
            }
        }
    }
}
fn exec_conv(o: &mut Out, sty: &str, dty: &str, how: &str, bits: &[u64]) {
    let (ssc, _) = sc_of(sty);
    let (dsc, _) = sc_of(dty);
    let got: Result<Option<Result<Vec<u64>, ()>>, String> = catch(|| match how {
        "as" => as_cast(sty, dty, bits).map(Ok),
        "from" => from_conv(sty, dty, bits).map(Ok),
        _ => try_conv(sty, dty, bits),
    });
    let mut ev = json!({"k": "cv", "op": how, "s": sc_desc(ssc), "t": sc_desc(dsc), "sty": sty, "dty": dty,
        "a": Value::Array(bits.iter().map(|b| enc_sc(ssc, *b)).collect::<Vec<_>>())});
    match got {
        Err(p) => { ev["out"] = json!("panic"); ev["panic"] = json!(p); ev["got"] = json!([]); }
        Ok(None) => return,
        Ok(Some(Err(()))) => { ev["out"] = json!("err"); ev["got"] = json!([]); }
        Ok(Some(Ok(g))) => { ev["out"] = json!("ok"); ev["got"] = Value::Array(g.iter().map(|b| enc_sc(dsc, *b)).collect()); }
    }
    o.emit(ev);
}

/// `from_slice`, except that a Vec3A gets a poisoned hidden lane (NaN, the infinities, a huge negative ... in rotation): the recorded
/// operands of every polynomial and relational event then also decide that the padding lane takes no part
trait FromSl<S>: Sized { fn fs(l: &[S]) -> Self; }
macro_rules! impl_fromsl { ($($V:ident, $S:ident);+ $(;)?) => {$( impl FromSl<$S> for glam::$V { fn fs(l: &[$S]) -> Self { glam::$V::from_slice(l) } } )+}; }
impl_fromsl!(Vec2, f32; Vec3, f32; Vec4, f32; DVec2, f64; DVec3, f64; DVec4, f64);
impl FromSl<f32> for glam::Vec3A { fn fs(l: &[f32]) -> Self { glam::Vec3A::from_vec4(glam::Vec4::new(l[0], l[1], l[2], hx::fvec::poison())) } }

// ------------------------------------------------------------------------------------------ polynomial accuracy (Trace_Poly)
/// finite value with a moderate exponent (no overflow / underflow in products of four) and a random significand
fn rnd_mod(r: &mut Rng, is32: bool) -> u64 {
    let (mb, bias) = if is32 { (23u32, 127i64) } else { (52u32, 1023i64) };
    let s = r.below(2);
    let e = match r.below(8) { 0 => 0, 1 => r.below(25) as i64 - 12, _ => r.below(7) as i64 - 3 };
    let frac = match r.below(6) { 0 => 0, 1 => 1u64 << (mb - 1), _ => r.next() } & ((1u64 << mb) - 1);
    if r.below(40) == 0 { return s << (if is32 { 31 } else { 63 }); }       // an exact zero now and then
    (s << (if is32 { 31 } else { 63 })) | (((bias + e) as u64) << mb) | frac
}
macro_rules! poly_family {
    ($o:ident, $r:ident, $S:ident, $is32:expr, $fm:expr, $M2:ident, $M3:ident, $M4:ident, $V2:ident, $V3:ident, $V4:ident, $Q:ident, $A2:ident, $A3:ident, [$(($M3x:ident, $V3x:ident)),*]) => {{
        let is32 = $is32;
        let rv = |r: &mut Rng, n: usize| -> Vec<$S> { (0..n).map(|_| <$S>::from_bits(rnd_mod(r, is32) as _)).collect() };
        let w = |x: $S| -> Value { wf(x.to_bits() as u64, is32) };
        let wv = |v: &[$S]| -> Value { Value::Array(v.iter().map(|x| w(*x)).collect()) };
        let wm = |v: &[$S], n: usize| -> Value { Value::Array(v.chunks(n).map(|c| wv(c)).collect()) };
        // the inverse of the same matrix scaled down / up by an exact power of two (determinants around 2^-28 and 2^28: an absolute
        // singularity threshold, or a determinant taken in the wrong precision, shows up there and nowhere near unit scale)
        macro_rules! inv_scaled {
            ($M:ident, $flat:ident, $n:expr, $k:expr) => {{
                for kk in [-($k as i32), $k as i32] {
                    let sc: Vec<$S> = $flat.iter().map(|x| *x * (2.0 as $S).powi(kk)).collect();
                    let m = $M::from_cols_slice(&sc);
                    if m.determinant() != 0.0 && m.inverse().is_finite() {
                        $o.emit(json!({"k": "poly", "op": "inverse", "f": $fm, "ty": stringify!($M), "sp": if kk < 0 { "scaled down" } else { "scaled up" }, "m": wm(&sc, $n), "got": wm(&m.inverse().to_cols_array(), $n)}));
                    }
                }
            }};
        }
        // ---- vectors
        let (a2, b2, a3, b3, a4, b4) = (rv($r, 2), rv($r, 2), rv($r, 3), rv($r, 3), rv($r, 4), rv($r, 4));
        $o.emit(json!({"k": "poly", "op": "dot", "f": $fm, "ty": stringify!($V2), "a": wv(&a2), "b": wv(&b2), "got": w($V2::from_slice(&a2).dot($V2::from_slice(&b2)))}));
        $o.emit(json!({"k": "poly", "op": "perp_dot", "f": $fm, "ty": stringify!($V2), "a": wv(&a2), "b": wv(&b2), "got": w($V2::from_slice(&a2).perp_dot($V2::from_slice(&b2)))}));
        $o.emit(json!({"k": "poly", "op": "dot", "f": $fm, "ty": stringify!($V3), "a": wv(&a3), "b": wv(&b3), "got": w($V3::from_slice(&a3).dot($V3::from_slice(&b3)))}));
        $o.emit(json!({"k": "poly", "op": "cross", "f": $fm, "ty": stringify!($V3), "a": wv(&a3), "b": wv(&b3), "got": wv(&$V3::from_slice(&a3).cross($V3::from_slice(&b3)).to_array())}));
        $o.emit(json!({"k": "poly", "op": "dot", "f": $fm, "ty": stringify!($V4), "a": wv(&a4), "b": wv(&b4), "got": w($V4::from_slice(&a4).dot($V4::from_slice(&b4)))}));
        $o.emit(json!({"k": "poly", "op": "dot", "f": $fm, "ty": stringify!($V4), "sp": "length_squared", "a": wv(&a4), "b": wv(&a4), "got": w($V4::from_slice(&a4).length_squared())}));
        // lerp / midpoint / distance_squared / reflect / project / reject (normalised second operand) as polynomials of the operand lanes
        {
            // the interpolation factor: moderate, or close to 1 (1 - t tiny against t: an evaluation that rounds t * a at the size of a,
            // such as (a - t a) + t b, is then off by far more than a few epsilon of the terms), or close to 0
            let tt: $S = {
                let m: $S = <$S>::from_bits(rnd_mod($r, is32) as _);
                let k = 2 + $r.below(if is32 { 18 } else { 44 }) as i32;
                let d: $S = (1.0 + ($r.below(1 << 20) as $S) / 1048576.0) * (2.0 as $S).powi(-k);
                match $r.below(4) { 0 => 1.0 - d, 1 => 1.0 + d, 2 => d, _ => m }
            };
            macro_rules! vec_polys {
                ($V:ident, $a:ident, $b:ident) => {{
                    let (va, vb) = (<$V as FromSl<_>>::fs(&$a), <$V as FromSl<_>>::fs(&$b));
                    let ty = stringify!($V);
                    $o.emit(json!({"k": "poly", "op": "lerp", "f": $fm, "ty": ty, "a": wv(&$a), "b": wv(&$b), "t": w(tt), "got": wv(&va.lerp(vb, tt).to_array())}));
                    // the cancelling configuration: a factor just below / above 1 and a target far smaller than the start, so that the
                    // exact result is tiny against |a| and only a * (1 - t) computed at its own magnitude is accurate enough
                    {
                        let kk = 3 + $r.below(if is32 { 16 } else { 40 }) as i32;
                        let t1: $S = 1.0 - (1.0 + ($r.below(1 << 20) as $S) / 1048576.0) * (2.0 as $S).powi(-kk) * (if $r.below(4) == 0 { -1.0 } else { 1.0 });
                        let small: Vec<$S> = $b.iter().map(|x| *x * (2.0 as $S).powi(-kk - 2)).collect();
                        let vs = <$V as FromSl<_>>::fs(&small);
                        $o.emit(json!({"k": "poly", "op": "lerp", "f": $fm, "ty": ty, "sp": "cancelling", "a": wv(&$a), "b": wv(&small), "t": w(t1), "got": wv(&va.lerp(vs, t1).to_array())}));
                    }
                    $o.emit(json!({"k": "poly", "op": "midpoint", "f": $fm, "ty": ty, "a": wv(&$a), "b": wv(&$b), "got": wv(&va.midpoint(vb).to_array())}));
                    $o.emit(json!({"k": "poly", "op": "distance_squared", "f": $fm, "ty": ty, "a": wv(&$a), "b": wv(&$b), "got": w(va.distance_squared(vb))}));
                    // nearby points far from the origin (|a| = 2^12 |a - b|): the squared distance is still accurate to a few epsilon of ITSELF
                    {
                        let far: Vec<$S> = $a.iter().map(|x| *x * 4096.0 + 3000.0).collect();
                        let near: Vec<$S> = far.iter().zip($b.iter()).map(|(f, d)| *f + *d).collect();
                        let (vf, vn) = (<$V as FromSl<_>>::fs(&far), <$V as FromSl<_>>::fs(&near));
                        $o.emit(json!({"k": "poly", "op": "distance_squared", "f": $fm, "ty": ty, "sp": "nearby points far from the origin", "a": wv(&far), "b": wv(&near), "got": w(vf.distance_squared(vn))}));
                    }
                    let nb = vb.normalize();
                    if nb.is_finite() {
                        let nl = nb.to_array();
                        $o.emit(json!({"k": "poly", "op": "reflect", "f": $fm, "ty": ty, "a": wv(&$a), "b": wv(&nl), "got": wv(&va.reflect(nb).to_array())}));
                        $o.emit(json!({"k": "poly", "op": "project_onto_normalized", "f": $fm, "ty": ty, "a": wv(&$a), "b": wv(&nl), "got": wv(&va.project_onto_normalized(nb).to_array())}));
                        $o.emit(json!({"k": "poly", "op": "reject_from_normalized", "f": $fm, "ty": ty, "a": wv(&$a), "b": wv(&nl), "got": wv(&va.reject_from_normalized(nb).to_array())}));
                    }
                }};
            }
            vec_polys!($V2, a2, b2);
            vec_polys!($V3, a3, b3);
            vec_polys!($V4, a4, b4);
            $( vec_polys!($V3x, a3, b3); )*
        }
        $(
            $o.emit(json!({"k": "poly", "op": "dot", "f": $fm, "ty": stringify!($V3x), "a": wv(&a3), "b": wv(&b3), "got": w(<$V3x as FromSl<_>>::fs(&a3).dot(<$V3x as FromSl<_>>::fs(&b3)))}));
            $o.emit(json!({"k": "poly", "op": "cross", "f": $fm, "ty": stringify!($V3x), "a": wv(&a3), "b": wv(&b3), "got": wv(&<$V3x as FromSl<_>>::fs(&a3).cross(<$V3x as FromSl<_>>::fs(&b3)).to_array())}));
        )*
        // ---- square matrices
        let (m2a, m2b, m3a, m3b, m4a, m4b) = (rv($r, 4), rv($r, 4), rv($r, 9), rv($r, 9), rv($r, 16), rv($r, 16));
        {
            let (a, b) = ($M2::from_cols_slice(&m2a), $M2::from_cols_slice(&m2b));
            $o.emit(json!({"k": "poly", "op": "mat_mul", "f": $fm, "ty": stringify!($M2), "a": wm(&m2a, 2), "b": wm(&m2b, 2), "got": wm(&(a * b).to_cols_array(), 2)}));
            $o.emit(json!({"k": "poly", "op": "mat_mul", "f": $fm, "ty": stringify!($M2), "sp": "mul_mat2", "a": wm(&m2a, 2), "b": wm(&m2b, 2), "got": wm(&a.mul_mat2(&b).to_cols_array(), 2)}));
            $o.emit(json!({"k": "poly", "op": "mul_vec", "f": $fm, "ty": stringify!($M2), "m": wm(&m2a, 2), "v": wv(&a2), "got": wv(&(a * $V2::from_slice(&a2)).to_array())}));
            $o.emit(json!({"k": "poly", "op": "det", "f": $fm, "ty": stringify!($M2), "m": wm(&m2a, 2), "got": w(a.determinant())}));
            if a.determinant() != 0.0 && a.inverse().is_finite() { $o.emit(json!({"k": "poly", "op": "inverse", "f": $fm, "ty": stringify!($M2), "m": wm(&m2a, 2), "got": wm(&a.inverse().to_cols_array(), 2)})); }
            inv_scaled!($M2, m2a, 2, 14);
        }
        {
            let (a, b) = ($M3::from_cols_slice(&m3a), $M3::from_cols_slice(&m3b));
            $o.emit(json!({"k": "poly", "op": "mat_mul", "f": $fm, "ty": stringify!($M3), "a": wm(&m3a, 3), "b": wm(&m3b, 3), "got": wm(&(a * b).to_cols_array(), 3)}));
            $o.emit(json!({"k": "poly", "op": "mul_vec", "f": $fm, "ty": stringify!($M3), "m": wm(&m3a, 3), "v": wv(&a3), "got": wv(&(a * $V3::from_slice(&a3)).to_array())}));
            $o.emit(json!({"k": "poly", "op": "det", "f": $fm, "ty": stringify!($M3), "m": wm(&m3a, 3), "got": w(a.determinant())}));
            if a.determinant() != 0.0 && a.inverse().is_finite() { $o.emit(json!({"k": "poly", "op": "inverse", "f": $fm, "ty": stringify!($M3), "m": wm(&m3a, 3), "got": wm(&a.inverse().to_cols_array(), 3)})); }
            inv_scaled!($M3, m3a, 3, 9);
            // a nearly singular matrix: the third column is almost a combination of the first two
            {
                let eps3: $S = [1e-2, 1e-3, 1e-4][$r.below(3) as usize];
                let ns: Vec<$S> = vec![m3a[0], m3a[1], m3a[2], m3a[3], m3a[4], m3a[5],
                    m3a[0] * 0.5 + m3a[3] * 2.0 + m3a[6] * eps3, m3a[1] * 0.5 + m3a[4] * 2.0 + m3a[7] * eps3, m3a[2] * 0.5 + m3a[5] * 2.0 + m3a[8] * eps3];
                let mn = $M3::from_cols_slice(&ns);
                if mn.determinant() != 0.0 && mn.inverse().is_finite() { $o.emit(json!({"k": "poly", "op": "inverse", "f": $fm, "ty": stringify!($M3), "sp": "nearly singular", "m": wm(&ns, 3), "got": wm(&mn.inverse().to_cols_array(), 3)})); }
            }
            // 2D homogeneous transforms: linear 2x2 block, translation = third column
            let lin: Vec<$S> = vec![m3a[0], m3a[1], m3a[3], m3a[4]];
            let aff = $M3::from_cols_slice(&[m3a[0], m3a[1], 0.0, m3a[3], m3a[4], 0.0, m3a[6], m3a[7], 1.0]);
            $o.emit(json!({"k": "poly", "op": "affine_point", "f": $fm, "ty": stringify!($M3), "sp": "transform_point2", "m": wm(&lin, 2), "t": wv(&[m3a[6], m3a[7]]), "v": wv(&a2),
                           "got": wv(&aff.transform_point2($V2::from_slice(&a2)).to_array())}));
            $o.emit(json!({"k": "poly", "op": "mul_vec", "f": $fm, "ty": stringify!($M3), "sp": "transform_vector2", "m": wm(&lin, 2), "v": wv(&a2),
                           "got": wv(&aff.transform_vector2($V2::from_slice(&a2)).to_array())}));
        }
        $(
            {
                let (a, b) = ($M3x::from_cols_slice(&m3a), $M3x::from_cols_slice(&m3b));
                $o.emit(json!({"k": "poly", "op": "mat_mul", "f": $fm, "ty": stringify!($M3x), "a": wm(&m3a, 3), "b": wm(&m3b, 3), "got": wm(&(a * b).to_cols_array(), 3)}));
                $o.emit(json!({"k": "poly", "op": "mul_vec", "f": $fm, "ty": stringify!($M3x), "sp": "Vec3A", "m": wm(&m3a, 3), "v": wv(&a3), "got": wv(&(a * <$V3x as FromSl<_>>::fs(&a3)).to_array())}));
                $o.emit(json!({"k": "poly", "op": "mul_vec", "f": $fm, "ty": stringify!($M3x), "sp": "Vec3", "m": wm(&m3a, 3), "v": wv(&a3), "got": wv(&(a * $V3::from_slice(&a3)).to_array())}));
                $o.emit(json!({"k": "poly", "op": "det", "f": $fm, "ty": stringify!($M3x), "m": wm(&m3a, 3), "got": w(a.determinant())}));
                if a.determinant() != 0.0 && a.inverse().is_finite() { $o.emit(json!({"k": "poly", "op": "inverse", "f": $fm, "ty": stringify!($M3x), "m": wm(&m3a, 3), "got": wm(&a.inverse().to_cols_array(), 3)})); }
                inv_scaled!($M3x, m3a, 3, 9);
            }
        )*
        {
            let (a, b) = ($M4::from_cols_slice(&m4a), $M4::from_cols_slice(&m4b));
            $o.emit(json!({"k": "poly", "op": "mat_mul", "f": $fm, "ty": stringify!($M4), "a": wm(&m4a, 4), "b": wm(&m4b, 4), "got": wm(&(a * b).to_cols_array(), 4)}));
            $o.emit(json!({"k": "poly", "op": "mul_vec", "f": $fm, "ty": stringify!($M4), "m": wm(&m4a, 4), "v": wv(&a4), "got": wv(&(a * $V4::from_slice(&a4)).to_array())}));
            $o.emit(json!({"k": "poly", "op": "det", "f": $fm, "ty": stringify!($M4), "m": wm(&m4a, 4), "got": w(a.determinant())}));
            if a.determinant() != 0.0 && a.inverse().is_finite() { $o.emit(json!({"k": "poly", "op": "inverse", "f": $fm, "ty": stringify!($M4), "m": wm(&m4a, 4), "got": wm(&a.inverse().to_cols_array(), 4)})); }
            inv_scaled!($M4, m4a, 4, 7);
            // affine 4x4: last row (0, 0, 0, 1)
            let mut af = m4a.clone();
            af[3] = 0.0; af[7] = 0.0; af[11] = 0.0; af[15] = 1.0;
            let lin: Vec<$S> = vec![af[0], af[1], af[2], af[4], af[5], af[6], af[8], af[9], af[10]];
            let t: Vec<$S> = vec![af[12], af[13], af[14]];
            let m = $M4::from_cols_slice(&af);
            $o.emit(json!({"k": "poly", "op": "affine_point", "f": $fm, "ty": stringify!($M4), "sp": "transform_point3", "m": wm(&lin, 3), "t": wv(&t), "v": wv(&a3),
                           "got": wv(&m.transform_point3($V3::from_slice(&a3)).to_array())}));
            $o.emit(json!({"k": "poly", "op": "mul_vec", "f": $fm, "ty": stringify!($M4), "sp": "transform_vector3", "m": wm(&lin, 3), "v": wv(&a3),
                           "got": wv(&m.transform_vector3($V3::from_slice(&a3)).to_array())}));
            $(
                $o.emit(json!({"k": "poly", "op": "affine_point", "f": $fm, "ty": stringify!($M4), "sp": "transform_point3a", "m": wm(&lin, 3), "t": wv(&t), "v": wv(&a3),
                               "got": wv(&m.transform_point3a(<$V3x as FromSl<_>>::fs(&a3)).to_array())}));
                $o.emit(json!({"k": "poly", "op": "mul_vec", "f": $fm, "ty": stringify!($M4), "sp": "transform_vector3a", "m": wm(&lin, 3), "v": wv(&a3),
                               "got": wv(&m.transform_vector3a(<$V3x as FromSl<_>>::fs(&a3)).to_array())}));
            )*
            // ---- affine types
            let a3f: Vec<$S> = lin.iter().chain(t.iter()).copied().collect();
            let b3f = rv($r, 12);
            let (aa, ab) = ($A3::from_cols_slice(&a3f), $A3::from_cols_slice(&b3f));
            $o.emit(json!({"k": "poly", "op": "affine_point", "f": $fm, "ty": stringify!($A3), "sp": "transform_point3", "m": wm(&lin, 3), "t": wv(&t), "v": wv(&a3),
                           "got": wv(&aa.transform_point3($V3::from_slice(&a3)).to_array())}));
            $o.emit(json!({"k": "poly", "op": "mul_vec", "f": $fm, "ty": stringify!($A3), "sp": "transform_vector3", "m": wm(&lin, 3), "v": wv(&a3),
                           "got": wv(&aa.transform_vector3($V3::from_slice(&a3)).to_array())}));
            // affine * affine: linear part is a matrix product, translation is the first applied to the second's translation
            let prod = (aa * ab).to_cols_array();
            $o.emit(json!({"k": "poly", "op": "mat_mul", "f": $fm, "ty": stringify!($A3), "sp": "affine*affine linear", "a": wm(&lin, 3), "b": wm(&b3f[0..9], 3), "got": wm(&prod[0..9], 3)}));
            $o.emit(json!({"k": "poly", "op": "affine_point", "f": $fm, "ty": stringify!($A3), "sp": "affine*affine translation", "m": wm(&lin, 3), "t": wv(&t), "v": wv(&b3f[9..12]), "got": wv(&prod[9..12])}));
            let a2f: Vec<$S> = vec![m2a[0], m2a[1], m2a[2], m2a[3], a2[0], a2[1]];
            let b2f = rv($r, 6);
            let (ba, bb) = ($A2::from_cols_slice(&a2f), $A2::from_cols_slice(&b2f));
            $o.emit(json!({"k": "poly", "op": "affine_point", "f": $fm, "ty": stringify!($A2), "sp": "transform_point2", "m": wm(&m2a, 2), "t": wv(&a2), "v": wv(&b2),
                           "got": wv(&ba.transform_point2($V2::from_slice(&b2)).to_array())}));
            $o.emit(json!({"k": "poly", "op": "mul_vec", "f": $fm, "ty": stringify!($A2), "sp": "transform_vector2", "m": wm(&m2a, 2), "v": wv(&b2),
                           "got": wv(&ba.transform_vector2($V2::from_slice(&b2)).to_array())}));
            let prod = (ba * bb).to_cols_array();
            $o.emit(json!({"k": "poly", "op": "mat_mul", "f": $fm, "ty": stringify!($A2), "sp": "affine*affine linear", "a": wm(&m2a, 2), "b": wm(&b2f[0..4], 2), "got": wm(&prod[0..4], 2)}));
            $o.emit(json!({"k": "poly", "op": "affine_point", "f": $fm, "ty": stringify!($A2), "sp": "affine*affine translation", "m": wm(&m2a, 2), "t": wv(&a2), "v": wv(&b2f[4..6]), "got": wv(&prod[4..6])}));
        }
        // ---- quaternions (unit operands: the documented domain of rotation)
        {
            let mut qa = $Q::from_slice(&a4).normalize();
            let qb = $Q::from_slice(&b4).normalize();
            // every other draw: a rotation by a tiny angle (w rounds to exactly 1 with a non-zero vector part), or nearly a half turn
            if $r.below(2) == 0 {
                let ax = $V3::from_slice(&b3).normalize();
                let ang: $S = [1e-4, 4e-4, 2e-4, 1e-3, 1e-2, 3.1414, 3e-5][$r.below(7) as usize];
                if ax.is_finite() { qa = $Q::from_axis_angle(ax, ang); }
            }
            if qa.is_finite() && qb.is_finite() {
                let (la, lb) = (qa.to_array(), qb.to_array());
                $o.emit(json!({"k": "poly", "op": "quat_mul", "f": $fm, "ty": stringify!($Q), "a": wv(&la), "b": wv(&lb), "got": wv(&(qa * qb).to_array())}));
                $o.emit(json!({"k": "poly", "op": "quat_mul", "f": $fm, "ty": stringify!($Q), "sp": "mul_quat", "a": wv(&la), "b": wv(&lb), "got": wv(&qa.mul_quat(qb).to_array())}));
                $o.emit(json!({"k": "poly", "op": "quat_rot", "f": $fm, "ty": stringify!($Q), "sp": "q * Vec3", "a": wv(&la), "v": wv(&a3), "got": wv(&(qa * $V3::from_slice(&a3)).to_array())}));
                $(
                    $o.emit(json!({"k": "poly", "op": "quat_rot", "f": $fm, "ty": stringify!($Q), "sp": "q * Vec3A", "a": wv(&la), "v": wv(&a3), "got": wv(&(qa * <$V3x as FromSl<_>>::fs(&a3)).to_array())}));
                )*
                // quaternions that are unit only to the tolerance glam itself accepts (|q|^2 = 1 +- 6e-5, and unit to single precision only):
                // q * v is the vector part of q v q* for EVERY q -- a formula that assumes |q| = 1 exactly (2 w^2 - 1, the unit-length matrix)
                // is off by (|q|^2 - 1) |v|
                for sc in [1.00003 as $S, 0.99997, 1.0 + 6.0e-8] {
                    let qs = qa * sc;
                    let ls: Vec<$S> = qs.to_array().to_vec();
                    $o.emit(json!({"k": "poly", "op": "quat_rot", "f": $fm, "ty": stringify!($Q), "sp": "q * Vec3 (|q| off by a few 1e-5)", "a": wv(&ls), "v": wv(&a3), "got": wv(&(qs * $V3::from_slice(&a3)).to_array())}));
                    $(
                        $o.emit(json!({"k": "poly", "op": "quat_rot", "f": $fm, "ty": stringify!($Q), "sp": "q * Vec3A (|q| off by a few 1e-5)", "a": wv(&ls), "v": wv(&a3), "got": wv(&(qs * <$V3x as FromSl<_>>::fs(&a3)).to_array())}));
                    )*
                }
            }
        }
    }};
}
fn rec_poly(o: &mut Out, r: &mut Rng, draws: u64) {
    use glam::*;
    for _ in 0..draws {
        poly_family!(o, r, f32, true, 32, Mat2, Mat3, Mat4, Vec2, Vec3, Vec4, Quat, Affine2, Affine3A, [(Mat3A, Vec3A)]);
        poly_family!(o, r, f64, false, 64, DMat2, DMat3, DMat4, DVec2, DVec3, DVec4, DQuat, DAffine2, DAffine3, []);
    }
}

// ------------------------------------------------------------------------------------------ matrices entry by entry (Trace_Lanes f1 / f2)
/// +, -, negation, scalar * and / of every matrix type are entry-wise: logged as lane events over the column-major entries
macro_rules! mat_lanes {
    ($o:ident, $r:ident, $M:ident, $S:ident, $is32:expr, $fm:expr, $n:expr, $addm:ident, $subm:ident) => {{
        let is32 = $is32;
        let a: Vec<u64> = (0..$n).map(|_| rnd_f($r, is32)).collect();
        let b: Vec<u64> = a.iter().map(|x| partner($r, *x, is32)).collect();
        let fa: Vec<$S> = a.iter().map(|x| <$S>::from_bits(*x as _)).collect();
        let fb: Vec<$S> = b.iter().map(|x| <$S>::from_bits(*x as _)).collect();
        let (ma, mb) = ($M::from_cols_slice(&fa), $M::from_cols_slice(&fb));
        let encb = |v: &[u64]| -> Value { Value::Array(v.iter().map(|x| wf(*x, is32)).collect()) };
        let enc = |m: &$M| -> Value { Value::Array(m.to_cols_array().iter().map(|x| wf(x.to_bits() as u64, is32)).collect()) };
        let ty = stringify!($M);
        let mut e2 = |op: &str, sp: &str, x: &[u64], y: &[u64], g: Result<$M, String>| {
            match g {
                Ok(g) => $o.emit(json!({"k": "f2", "f": $fm, "op": op, "ty": ty, "sp": sp, "a": encb(x), "b": encb(y), "got": enc(&g)})),
                Err(p) => $o.emit(json!({"k": "f2", "f": $fm, "op": op, "ty": ty, "sp": sp, "a": encb(x), "b": encb(y), "panic": p})),
            }
        };
        e2("add", "a + b", &a, &b, catch(|| ma + mb));
        e2("add", stringify!($addm), &a, &b, catch(|| ma.$addm(&mb)));
        e2("add", "a += b", &a, &b, catch(|| { let mut t = ma; t += mb; t }));
        e2("sub", "a - b", &a, &b, catch(|| ma - mb));
        e2("sub", stringify!($subm), &a, &b, catch(|| ma.$subm(&mb)));
        e2("sub", "a -= b", &a, &b, catch(|| { let mut t = ma; t -= mb; t }));
        // several scalars per matrix: any bit pattern, a moderate value, a small odd integer (x / 3 is not x * (1/3)), near 1
        for k in 0..4u64 {
            let sb: u64 = match k {
                0 => rnd_f($r, is32),
                1 => rnd_mod($r, is32),
                2 => { let v = [3.0f64, 5.0, 7.0, 10.0, -6.0, 11.0, 13.0][$r.below(7) as usize]; if is32 { (v as f32).to_bits() as u64 } else { v.to_bits() } }
                _ => { let v = 1.0f64 + ($r.below(64) as f64 - 32.0) / 256.0; if is32 { (v as f32).to_bits() as u64 } else { v.to_bits() } }
            };
            let s = <$S>::from_bits(sb as _);
            let ss: Vec<u64> = vec![sb; $n];
            match k {
                0 => { e2("mul", "m * s", &a, &ss, catch(|| ma * s)); e2("div", "m / s", &a, &ss, catch(|| ma / s)); }
                1 => { e2("mul", "s * m", &ss, &a, catch(|| s * ma)); e2("div", "div_scalar", &a, &ss, catch(|| ma.div_scalar(s))); }
                2 => { e2("mul", "mul_scalar", &a, &ss, catch(|| ma.mul_scalar(s))); e2("div", "m /= s", &a, &ss, catch(|| { let mut t = ma; t /= s; t }));
                       e2("div", "s / m (glam: m / s)", &a, &ss, catch(|| s / ma)); }
                _ => { e2("mul", "m *= s", &a, &ss, catch(|| { let mut t = ma; t *= s; t })); e2("div", "m / s", &a, &ss, catch(|| ma / s)); }
            }
        }
        if let Ok(g) = catch(|| -ma) { $o.emit(json!({"k": "f1", "f": $fm, "op": "neg", "ty": ty, "sp": "-m", "a": encb(&a), "got": enc(&g)})); }
        if let Ok(g) = catch(|| ma.abs()) { $o.emit(json!({"k": "f1", "f": $fm, "op": "abs", "ty": ty, "sp": "abs", "a": encb(&a), "got": enc(&g)})); }
        // every draw: the sign-sensitive entries (+0, -0, the infinities, the smallest subnormals, a NaN) in rotating positions -- negation
        // is a sign flip, not 0 - x, and abs clears the sign of -0
        {
            let sp: [$S; 7] = [0.0, -0.0, <$S>::INFINITY, <$S>::NEG_INFINITY, <$S>::from_bits(1), -<$S>::from_bits(1), <$S>::NAN];
            let off = $r.below(7) as usize;
            let fz: Vec<$S> = (0..$n).map(|i| sp[(i + off) % 7]).collect();
            let z: Vec<u64> = fz.iter().map(|x| x.to_bits() as u64).collect();
            let mz = $M::from_cols_slice(&fz);
            if let Ok(g) = catch(|| -mz) { $o.emit(json!({"k": "f1", "f": $fm, "op": "neg", "ty": ty, "sp": "-m (signed zeros)", "a": encb(&z), "got": enc(&g)})); }
            if let Ok(g) = catch(|| mz.abs()) { $o.emit(json!({"k": "f1", "f": $fm, "op": "abs", "ty": ty, "sp": "abs (signed zeros)", "a": encb(&z), "got": enc(&g)})); }
        }
    }};
}
/// quaternion +, -, negation, scalar * and / are component-wise
macro_rules! quat_lanes {
    ($o:ident, $r:ident, $Q:ident, $S:ident, $is32:expr, $fm:expr) => {{
        let is32 = $is32;
        let a: Vec<u64> = (0..4).map(|_| rnd_f($r, is32)).collect();
        let b: Vec<u64> = a.iter().map(|x| partner($r, *x, is32)).collect();
        let fa: Vec<$S> = a.iter().map(|x| <$S>::from_bits(*x as _)).collect();
        let fb: Vec<$S> = b.iter().map(|x| <$S>::from_bits(*x as _)).collect();
        let (qa, qb) = ($Q::from_slice(&fa), $Q::from_slice(&fb));
        let encb = |v: &[u64]| -> Value { Value::Array(v.iter().map(|x| wf(*x, is32)).collect()) };
        let enc = |q: &$Q| -> Value { Value::Array(q.to_array().iter().map(|x| wf(x.to_bits() as u64, is32)).collect()) };
        let ty = stringify!($Q);
        let mut e2 = |op: &str, sp: &str, x: &[u64], y: &[u64], g: Result<$Q, String>| {
            match g {
                Ok(g) => $o.emit(json!({"k": "f2", "f": $fm, "op": op, "ty": ty, "sp": sp, "a": encb(x), "b": encb(y), "got": enc(&g)})),
                Err(p) => $o.emit(json!({"k": "f2", "f": $fm, "op": op, "ty": ty, "sp": sp, "a": encb(x), "b": encb(y), "panic": p})),
            }
        };
        e2("add", "a + b", &a, &b, catch(|| qa + qb));
        e2("sub", "a - b", &a, &b, catch(|| qa - qb));
        for k in 0..3u64 {
            let sb: u64 = match k {
                0 => rnd_f($r, is32),
                1 => { let v = [3.0f64, 5.0, 7.0, 10.0, -6.0, 11.0, 13.0][$r.below(7) as usize]; if is32 { (v as f32).to_bits() as u64 } else { v.to_bits() } }
                _ => rnd_mod($r, is32),
            };
            let s = <$S>::from_bits(sb as _);
            let ss: Vec<u64> = vec![sb; 4];
            e2("mul", "q * s", &a, &ss, catch(|| qa * s));
            e2("div", "q / s", &a, &ss, catch(|| qa / s));
        }
        if let Ok(g) = catch(|| -qa) { $o.emit(json!({"k": "f1", "f": $fm, "op": "neg", "ty": ty, "sp": "-q", "a": encb(&a), "got": enc(&g)})); }
    }};
}
fn rec_mat(o: &mut Out, r: &mut Rng, draws: u64) {
    use glam::*;
    for _ in 0..draws {
        quat_lanes!(o, r, Quat, f32, true, 32);
        quat_lanes!(o, r, DQuat, f64, false, 64);
        mat_lanes!(o, r, Mat2, f32, true, 32, 4, add_mat2, sub_mat2);
        mat_lanes!(o, r, Mat3, f32, true, 32, 9, add_mat3, sub_mat3);
        mat_lanes!(o, r, Mat3A, f32, true, 32, 9, add_mat3, sub_mat3);
        mat_lanes!(o, r, Mat4, f32, true, 32, 16, add_mat4, sub_mat4);
        mat_lanes!(o, r, DMat2, f64, false, 64, 4, add_mat2, sub_mat2);
        mat_lanes!(o, r, DMat3, f64, false, 64, 9, add_mat3, sub_mat3);
        mat_lanes!(o, r, DMat4, f64, false, 64, 16, add_mat4, sub_mat4);
    }
}

// ------------------------------------------------------------------------------------------ relational promises (Trace_Rel)
fn unit_f64(r: &mut Rng) -> f64 { (r.next() >> 11) as f64 / (1u64 << 53) as f64 }
macro_rules! rel_vec {
    ($o:ident, $r:ident, $V:ident, $S:ident, $n:expr, $is32:expr, $fm:expr, $rot:tt) => {{
        let is32 = $is32;
        let w = |x: $S| -> Value { wf(x.to_bits() as u64, is32) };
        let wv = |v: &$V| -> Value { Value::Array(v.to_array().iter().map(|x| w(*x)).collect()) };
        let ty = stringify!($V);
        let rv = |r: &mut Rng| -> $V { let l: Vec<$S> = (0..$n).map(|_| <$S>::from_bits(rnd_mod(r, is32) as _)).collect(); <$V as FromSl<_>>::fs(&l) };
        let ro = |r: &mut Rng| -> $V { let l: Vec<$S> = (0..$n).map(|_| (unit_f64(r) * 4.0 - 2.0) as $S).collect(); <$V as FromSl<_>>::fs(&l) };
        // ---- normalize family: arbitrary magnitudes, and vectors within 1e-4 of unit length
        let mut vs = vec![rv($r)];
        { let u = ro($r); let l = u.length(); if l > 0.1 { vs.push(u / l * (1.0 + ((unit_f64($r) - 0.5) * 2e-4) as $S)); } }
        for v in vs {
        if v.length_squared() > 0.0 && v.length_squared().is_finite() && (v.length_squared() as f64) > 1e-30 && (v.length_squared() as f64) < 1e30 {
            $o.emit(json!({"k": "rel", "op": "normalize", "f": $fm, "ty": ty, "sp": "normalize", "v": wv(&v), "got": wv(&v.normalize())}));
            if let Some(g) = v.try_normalize() { $o.emit(json!({"k": "rel", "op": "normalize", "f": $fm, "ty": ty, "sp": "try_normalize", "v": wv(&v), "got": wv(&g)})); }
            $o.emit(json!({"k": "rel", "op": "normalize", "f": $fm, "ty": ty, "sp": "normalize_or_zero", "v": wv(&v), "got": wv(&v.normalize_or_zero())}));
            $o.emit(json!({"k": "rel", "op": "normalize", "f": $fm, "ty": ty, "sp": "normalize_or", "v": wv(&v), "got": wv(&v.normalize_or($V::splat(7.0)))}));
            $o.emit(json!({"k": "rel", "op": "normalize", "f": $fm, "ty": ty, "sp": "normalize_and_length", "v": wv(&v), "got": wv(&v.normalize_and_length().0)}));
        }
        }
        // ---- square roots and quotients through the relations they satisfy
        {
            let (a, b) = (rv($r), rv($r));
            if a.length_squared() > 0.0 && b.length_squared() > 0.0 && a.length_squared().is_finite() && b.length_squared().is_finite() {
                $o.emit(json!({"k": "rel", "op": "length", "f": $fm, "ty": ty, "a": wv(&a), "got": w(a.length())}));
                $o.emit(json!({"k": "rel", "op": "length_recip", "f": $fm, "ty": ty, "a": wv(&a), "got": w(a.length_recip())}));
                $o.emit(json!({"k": "rel", "op": "distance", "f": $fm, "ty": ty, "a": wv(&a), "b": wv(&b), "got": w(a.distance(b))}));
                $o.emit(json!({"k": "rel", "op": "project_onto", "f": $fm, "ty": ty, "a": wv(&a), "b": wv(&b), "got": wv(&a.project_onto(b))}));
                $o.emit(json!({"k": "rel", "op": "reject_from", "f": $fm, "ty": ty, "a": wv(&a), "b": wv(&b), "got": wv(&a.reject_from(b))}));
            }
        }
        // ---- clamp_length family: bounds around, below and above the length
        {
            let a = ro($r);
            let l = a.length();
            if l > 0.1 {
                for (lo, hi) in [(l * 0.5, l * 2.0), (l * 1.5, l * 3.0), (l * 0.1, l * 0.6), (l, l), (0.0 as $S, l * 0.25)] {
                    $o.emit(json!({"k": "rel", "op": "clamp_len", "f": $fm, "ty": ty, "sp": "clamp_length", "a": wv(&a), "min": w(lo), "max": w(hi), "got": wv(&a.clamp_length(lo, hi))}));
                }
                // magnitudes whose product with the bound leaves the range although operand and result are representable
                if is32 {
                    let (hv, tv) = (a * (2.0 as $S).powi(35), a * (2.0 as $S).powi(-40));
                    let (hb, tb) = ((2.0 as $S).powi(100), (2.0 as $S).powi(-100));
                    $o.emit(json!({"k": "rel", "op": "clamp_len", "f": $fm, "ty": ty, "sp": "clamp_length_min (huge)", "a": wv(&hv), "min": w(hb), "max": w((2.0 as $S).powi(120)), "got": wv(&hv.clamp_length_min(hb))}));
                    $o.emit(json!({"k": "rel", "op": "clamp_len", "f": $fm, "ty": ty, "sp": "clamp_length_max (tiny)", "a": wv(&tv), "min": w(0.0), "max": w(tb), "got": wv(&tv.clamp_length_max(tb))}));
                    $o.emit(json!({"k": "rel", "op": "clamp_len", "f": $fm, "ty": ty, "sp": "clamp_length (huge)", "a": wv(&hv), "min": w(hb), "max": w(hb * 4.0), "got": wv(&hv.clamp_length(hb, hb * 4.0))}));
                }
                let big: $S = (2.0 as $S).powi(60);
                $o.emit(json!({"k": "rel", "op": "clamp_len", "f": $fm, "ty": ty, "sp": "clamp_length_max", "a": wv(&a), "min": w(0.0), "max": w(l * 0.5), "got": wv(&a.clamp_length_max(l * 0.5))}));
                $o.emit(json!({"k": "rel", "op": "clamp_len", "f": $fm, "ty": ty, "sp": "clamp_length_max (inside)", "a": wv(&a), "min": w(0.0), "max": w(l * 2.0), "got": wv(&a.clamp_length_max(l * 2.0))}));
                $o.emit(json!({"k": "rel", "op": "clamp_len", "f": $fm, "ty": ty, "sp": "clamp_length_min", "a": wv(&a), "min": w(l * 2.0), "max": w(big), "got": wv(&a.clamp_length_min(l * 2.0))}));
                $o.emit(json!({"k": "rel", "op": "clamp_len", "f": $fm, "ty": ty, "sp": "clamp_length_min (inside)", "a": wv(&a), "min": w(l * 0.5), "max": w(big), "got": wv(&a.clamp_length_min(l * 0.5))}));
            }
        }
        // ---- move_towards
        let a = ro($r);
        let dir = ro($r);
        let dl = dir.length();
        if dl > 0.1 {
            let sep: $S = [5e-3, 0.3, 2.0, 2e-3, 3e-4, 1.0][$r.below(6) as usize];
            let b = a + dir / dl * sep;
            let len = a.distance(b);
            for frac in [0.0 as $S, 0.2, 0.9, 0.999, 1.001, 3.0] {
                let d = len * frac;
                $o.emit(json!({"k": "rel", "op": "move_towards", "f": $fm, "ty": ty, "a": wv(&a), "b": wv(&b), "d": w(d), "got": wv(&a.move_towards(b, d))}));
            }
            let d: $S = 1e-3;
            $o.emit(json!({"k": "rel", "op": "move_towards", "f": $fm, "ty": ty, "a": wv(&a), "b": wv(&b), "d": w(d), "got": wv(&a.move_towards(b, d))}));
            // arrivals from afar (the difference b - a is not exact there, so a + (b - a) is not b): the target ITSELF must come back
            for far in [37.7 as $S, 1234.5, 0.0123] {
                let bf = a + dir / dl * far + $V::splat(0.3337);
                let df = a.distance(bf) * 1.5;
                $o.emit(json!({"k": "rel", "op": "move_towards", "f": $fm, "ty": ty, "sp": "arrival from afar", "a": wv(&a), "b": wv(&bf), "d": w(df), "got": wv(&a.move_towards(bf, df))}));
                // and the other way round: a start far from the origin, a target near it (b - a then lives in a coarser binade than b)
                let df2 = bf.distance(a) * 1.25;
                $o.emit(json!({"k": "rel", "op": "move_towards", "f": $fm, "ty": ty, "sp": "arrival from afar (towards the origin)", "a": wv(&bf), "b": wv(&a), "d": w(df2), "got": wv(&bf.move_towards(a, df2))}));
            }
        }
        rel_vec!(@rot $rot, $o, $r, $V, $S, $n, is32, $fm, w, wv, ro, ty);
    }};
    (@rot rot2, $o:ident, $r:ident, $V:ident, $S:ident, $n:expr, $is32:ident, $fm:expr, $w:ident, $wv:ident, $ro:ident, $ty:ident) => {{
        // 2D: angle_to is signed (|angle| is judged), rotate_towards beyond the remaining angle
        let a = $ro($r);
        if a.length() > 0.1 {
            for k in [3.0 as $S, 0.7, -5.0, 1.0, -1.0, 2.5, -0.3] {
                let b = a * k;
                $o.emit(json!({"k": "rel", "op": "angle_parallel", "f": $fm, "ty": $ty, "quat": 0, "signed": 1, "sp": "angle_to", "a": $wv(&a), "b": $wv(&b), "got": $w(a.angle_to(b))}));
                if k > 0.0 {
                    $o.emit(json!({"k": "rel", "op": "rot_reach", "f": $fm, "ty": $ty, "quat": 0, "sp": "parallel target", "a": $wv(&a), "b": $wv(&b), "got": $wv(&a.rotate_towards(b, 4.0))}));
                }
            }
            let b = $ro($r);
            if b.length() > 0.1 && a.angle_to(b).abs() < 3.0 {
                $o.emit(json!({"k": "rel", "op": "rot_reach", "f": $fm, "ty": $ty, "quat": 0, "sp": "general target", "a": $wv(&a), "b": $wv(&b), "got": $wv(&a.rotate_towards(b, 4.0))}));
            }
            for (tb, sp) in [(b, "general"), (a * 1.5, "parallel"), (a * -2.0, "opposite")] {
                if tb.length() > 0.1 {
                    for st in [0.3 as $S, -0.25, 1.0, -2.0, 5.0] {
                        $o.emit(json!({"k": "rel", "op": "rot_len", "f": $fm, "ty": $ty, "sp": format!("{sp} step {st}"), "a": $wv(&a), "b": $wv(&tb), "got": $wv(&a.rotate_towards(tb, st))}));
                    }
                }
            }
        }
    }};
    (@vslerp $o:ident, $r:ident, $V:ident, $S:ident, $fm:expr, $w:ident, $wv:ident, $ro:ident, $ty:ident) => {{
        // vector slerp at j/8 between directions 0.05 .. 2.8 rad apart with different lengths
        let a0 = $ro($r);
        let side = $ro($r);
        if a0.length() > 0.2 {
            let ah0 = a0.normalize();
            let sp = side - ah0 * side.dot(ah0);
            if sp.length() > 0.1 {
                let ph = sp.normalize();
                let ang: $S = [0.05, 0.3, 1.0, 2.0, 2.8, 1.5][$r.below(6) as usize];
                let a = ah0 * (0.5 + (unit_f64($r) * 3.5) as $S);
                // every draw: a general pair, and exactly opposite directions with a different length (the path is a half circle in some plane)
                let bo = a * [-2.0 as $S, -0.5, -4.0][$r.below(3) as usize];
                let bg = (ah0 * ang.cos() + ph * ang.sin()) * (0.5 + (unit_f64($r) * 3.5) as $S);
                for b in [bg, bo] {
                let rs: Vec<$V> = (0..=8).map(|j| a.slerp(b, j as $S / 8.0)).collect();
                $o.emit(json!({"k": "rel", "op": "vslerp8", "f": $fm, "ty": $ty, "a": $wv(&a), "b": $wv(&b), "ah": $wv(&a.normalize()), "bh": $wv(&b.normalize()),
                    "la": $w(a.length()), "lb": $w(b.length()),
                    "r": rs.iter().map(|x| $wv(x)).collect::<Vec<_>>(), "d": rs.iter().map(|x| $wv(&x.normalize())).collect::<Vec<_>>(),
                    "l": rs.iter().map(|x| $w(x.length())).collect::<Vec<_>>()}));
                }
            }
        }
    }};
    (@rot norot, $o:ident, $r:ident, $V:ident, $S:ident, $n:expr, $is32:ident, $fm:expr, $w:ident, $wv:ident, $ro:ident, $ty:ident) => {};
    (@rot rot, $o:ident, $r:ident, $V:ident, $S:ident, $n:expr, $is32:ident, $fm:expr, $w:ident, $wv:ident, $ro:ident, $ty:ident) => {{
        // ---- angle between parallel / anti-parallel dense vectors, and rotate_towards beyond the remaining angle
        let a = $ro($r);
        if a.length() > 0.1 {
            for k in [3.0 as $S, 0.7, -5.0, 1.0, -1.0, 2.5, -0.3] {
                let b = a * k;
                $o.emit(json!({"k": "rel", "op": "angle_parallel", "f": $fm, "ty": $ty, "quat": 0, "a": $wv(&a), "b": $wv(&b), "got": $w(a.angle_between(b))}));
                if k > 0.0 {
                    $o.emit(json!({"k": "rel", "op": "rot_reach", "f": $fm, "ty": $ty, "quat": 0, "sp": "parallel target", "a": $wv(&a), "b": $wv(&b), "got": $wv(&a.rotate_towards(b, 4.0))}));
                }
            }
            let b = $ro($r);
            if b.length() > 0.1 && a.angle_between(b) < 3.0 {
                $o.emit(json!({"k": "rel", "op": "rot_reach", "f": $fm, "ty": $ty, "quat": 0, "sp": "general target", "a": $wv(&a), "b": $wv(&b), "got": $wv(&a.rotate_towards(b, 4.0))}));
            }
            // any step keeps the length: partial, negative and overshooting steps, towards general, parallel and exactly opposite targets
            for (tb, sp) in [(b, "general"), (a * 1.5, "parallel"), (a * -2.0, "opposite"), (a * -0.5, "opposite")] {
                if tb.length() > 0.1 {
                    for st in [0.3 as $S, -0.25, 1.0, -2.0, 5.0] {
                        $o.emit(json!({"k": "rel", "op": "rot_len", "f": $fm, "ty": $ty, "sp": format!("{sp} step {st}"), "a": $wv(&a), "b": $wv(&tb), "got": $wv(&a.rotate_towards(tb, st))}));
                    }
                }
            }
        }
        rel_vec!(@vslerp $o, $r, $V, $S, $fm, $w, $wv, $ro, $ty);
        // ---- orthogonal / orthonormal companions (z = -1 and z ~ 0 included) and rotation arcs between unit vectors
        for k in 0..3 {
            let raw = match k { 0 => $ro($r), 1 => $V::new(1e-4, 2e-4, -1.0), _ => $V::new(0.6, 0.8, (unit_f64($r) * 2e-3 - 1e-3) as $S) };
            if raw.length() > 0.1 {
                let u = raw.normalize();
                $o.emit(json!({"k": "rel", "op": "ortho", "f": $fm, "ty": $ty, "sp": "any_orthogonal_vector", "unit": 0, "a": $wv(&raw), "got": [$wv(&raw.any_orthogonal_vector())]}));
                $o.emit(json!({"k": "rel", "op": "ortho", "f": $fm, "ty": $ty, "sp": "any_orthonormal_vector", "unit": 1, "a": $wv(&u), "got": [$wv(&u.any_orthonormal_vector())]}));
                let (p1, p2) = u.any_orthonormal_pair();
                $o.emit(json!({"k": "rel", "op": "ortho", "f": $fm, "ty": $ty, "sp": "any_orthonormal_pair", "unit": 1, "a": $wv(&u), "got": [$wv(&p1), $wv(&p2)]}));
            }
        }
    }};
}
macro_rules! rel_quat {
    ($o:ident, $r:ident, $Q:ident, $V3:ident, $S:ident, $is32:expr, $fm:expr) => {{
        let is32 = $is32;
        let w = |x: $S| -> Value { wf(x.to_bits() as u64, is32) };
        let wq = |q: &$Q| -> Value { Value::Array(q.to_array().iter().map(|x| w(*x)).collect()) };
        let ty = stringify!($Q);
        let rq = |r: &mut Rng| -> $Q { let l: Vec<$S> = (0..4).map(|_| (unit_f64(r) * 2.0 - 1.0) as $S).collect(); $Q::from_slice(&l).normalize() };
        let q0 = rq($r);
        let axis = { let l: Vec<$S> = (0..3).map(|_| (unit_f64($r) * 2.0 - 1.0) as $S).collect(); $V3::from_slice(&l).normalize() };
        if q0.is_finite() && axis.is_finite() {
            let ang: $S = [0.05, 0.01, 0.5, 1.5, 2.9, 0.002, 1.0][$r.below(7) as usize];
            let mut q1 = ($Q::from_axis_angle(axis, ang) * q0).normalize();
            if $r.below(3) == 0 { q1 = -q1; }
            let rs: Vec<Value> = (0..=8).map(|j| wq(&q0.slerp(q1, j as $S / 8.0))).collect();
            $o.emit(json!({"k": "rel", "op": "slerp8", "f": $fm, "ty": ty, "q0": wq(&q0), "q1": wq(&q1), "r": rs}));
            // nearly equal but distinct rotations (the linear fallback of slerp): the end point is still the target, not the start
            {
                let tiny: $S = [6.0e-4, 2.5e-4, 9.0e-5][$r.below(3) as usize];
                let qn = ($Q::from_axis_angle(axis, tiny) * q0).normalize();
                let rs: Vec<Value> = (0..=8).map(|j| wq(&q0.slerp(qn, j as $S / 8.0))).collect();
                $o.emit(json!({"k": "rel", "op": "slerp8", "f": $fm, "ty": ty, "sp": "nearly equal rotations", "q0": wq(&q0), "q1": wq(&qn), "r": rs}));
            }
            // extrapolation to integer parameters (both signs, up to 12 steps): the arguments of the sines leave [-pi, pi]
            {
                let q1p = if q0.dot(q1) < 0.0 { -q1 } else { q1 };
                if q0.dot(q1p) > 0.02 {
                    let ks: Vec<i64> = vec![-11, -7, -3, -2, -1, 2, 3, 5, 8, 12];
                    let rk: Vec<Value> = ks.iter().map(|k| wq(&q0.slerp(q1p, *k as $S))).collect();
                    $o.emit(json!({"k": "rel", "op": "slerp_int", "f": $fm, "ty": ty, "q0": wq(&q0), "q1": wq(&q1p), "ks": ks, "r": rk}));
                }
            }
            // the same between well separated rotations (1.5 .. 3.1 rad), where the arguments of the sines wrap around several times
            {
                let ang2: $S = [1.5, 2.2, 2.9, 3.1][$r.below(4) as usize];
                let q2 = ($Q::from_axis_angle(axis, ang2) * q0).normalize();
                let q2p = if q0.dot(q2) < 0.0 { -q2 } else { q2 };
                if q0.dot(q2p) > 0.02 {
                    let ks: Vec<i64> = vec![-9, -6, -4, -3, -2, 3, 4, 5, 7, 10];
                    let rk: Vec<Value> = ks.iter().map(|k| wq(&q0.slerp(q2p, *k as $S))).collect();
                    $o.emit(json!({"k": "rel", "op": "slerp_int", "f": $fm, "ty": ty, "q0": wq(&q0), "q1": wq(&q2p), "ks": ks, "r": rk}));
                }
            }
            // unnormalised inputs with a raw random quaternion
            let raw = { let l: Vec<$S> = (0..4).map(|_| <$S>::from_bits(rnd_mod($r, is32) as _)).collect(); $Q::from_slice(&l) };
            if raw.length_squared() > 0.0 && (raw.length_squared() as f64) > 1e-30 && (raw.length_squared() as f64) < 1e30 {
                $o.emit(json!({"k": "rel", "op": "normalize", "f": $fm, "ty": ty, "sp": "normalize", "v": wq(&raw), "got": wq(&raw.normalize())}));
            }
            let near = q0 * (1.0 + ((unit_f64($r) - 0.5) * 2e-4) as $S);
            $o.emit(json!({"k": "rel", "op": "normalize", "f": $fm, "ty": ty, "sp": "normalize (nearly unit)", "v": wq(&near), "got": wq(&near.normalize())}));
            // rotation arcs between unit vectors: general, nearly parallel, nearly opposite, exactly opposite
            {
                let ua = axis;
                let ub0 = { let l: Vec<$S> = (0..3).map(|_| (unit_f64($r) * 2.0 - 1.0) as $S).collect(); $V3::from_slice(&l).normalize() };
                for ub in [ub0, (ua + ub0 * 1e-3).normalize(), (-ua + ub0 * 1e-3).normalize(), -ua, ua] {
                    if ub.is_finite() {
                        let wv3 = |v: &$V3| -> Value { Value::Array(v.to_array().iter().map(|x| w(*x)).collect()) };
                        $o.emit(json!({"k": "rel", "op": "arc", "f": $fm, "ty": ty, "sp": "from_rotation_arc", "colinear": 0, "a": wv3(&ua), "b": wv3(&ub), "q": wq(&$Q::from_rotation_arc(ua, ub))}));
                        $o.emit(json!({"k": "rel", "op": "arc", "f": $fm, "ty": ty, "sp": "from_rotation_arc_colinear", "colinear": 1, "a": wv3(&ua), "b": wv3(&ub), "q": wq(&$Q::from_rotation_arc_colinear(ua, ub))}));
                    }
                }
            }
            // exactly opposite vectors that are unit only to a few ulp (|a|^2 = 1 -+ 6 epsilon, as q * X is): the half-turn branch must not
            // depend on 1 + a.b crossing a threshold that the rounding of |a|^2 moves (every draw, both sides)
            for sc in [1.0 - 3.0 * <$S>::EPSILON, 1.0 + 3.0 * <$S>::EPSILON] {
                let ua = axis * sc;
                let ub = -ua;
                let wv3 = |v: &$V3| -> Value { Value::Array(v.to_array().iter().map(|x| w(*x)).collect()) };
                $o.emit(json!({"k": "rel", "op": "arc", "f": $fm, "ty": ty, "sp": "from_rotation_arc (opposite, unit to a few ulp)", "colinear": 0, "a": wv3(&ua), "b": wv3(&ub), "q": wq(&$Q::from_rotation_arc(ua, ub))}));
            }
            // the angle between a rotation and itself / its negative is zero; rotating towards beyond the remaining angle reaches the target
            $o.emit(json!({"k": "rel", "op": "angle_parallel", "f": $fm, "ty": ty, "quat": 1, "a": wq(&q0), "b": wq(&q0), "got": w(q0.angle_between(q0))}));
            $o.emit(json!({"k": "rel", "op": "angle_parallel", "f": $fm, "ty": ty, "quat": 1, "sp": "q, -q", "a": wq(&q0), "b": wq(&q0), "got": w(q0.angle_between(-q0))}));
            $o.emit(json!({"k": "rel", "op": "rot_reach", "f": $fm, "ty": ty, "quat": 1, "sp": "q to q", "a": wq(&q0), "b": wq(&q0), "got": wq(&q0.rotate_towards(q0, 0.25))}));
            $o.emit(json!({"k": "rel", "op": "rot_reach", "f": $fm, "ty": ty, "quat": 1, "sp": "q to q1", "a": wq(&q0), "b": wq(&q1), "got": wq(&q0.rotate_towards(q1, 7.0))}));
        }
    }};
}
macro_rules! rel_cam {
    ($o:ident, $r:ident, $S:ident, $is32:expr, $fm:expr, $V3:ident, $M3:ident, $M4:ident, $A3:ident, $Q:ident) => {{
        let is32 = $is32;
        let w = |x: $S| -> Value { wf(x.to_bits() as u64, is32) };
        let wv = |v: &[$S]| -> Value { Value::Array(v.iter().map(|x| w(*x)).collect()) };
        let rnd = |r: &mut Rng| -> $V3 { $V3::new((unit_f64(r) * 2.0 - 1.0) as $S, (unit_f64(r) * 2.0 - 1.0) as $S, (unit_f64(r) * 2.0 - 1.0) as $S) };
        // ---- views: unit dir, unit up at an angle to dir whose sine is 2e-3 .. 1, eye anywhere within +-8
        let dir = rnd($r).normalize();
        let perp = dir.any_orthonormal_vector();
        let perp2 = dir.cross(perp);
        let phi = (unit_f64($r) * 6.283) as $S;
        let side = perp * phi.cos() + perp2 * phi.sin();
        let sn: $S = [2e-3, 8e-3, 5e-3, 0.1, 0.7, 1.0, 3e-2][$r.below(7) as usize];
        let cs = (1.0 - sn * sn).sqrt() * if $r.below(2) == 0 { 1.0 } else { -1.0 };
        let up = (dir * cs + side * sn).normalize();
        let eye = rnd($r) * 8.0;
        if dir.is_finite() && up.is_finite() && dir.length_squared() > 0.5 {
            let m4cols = |m: &$M4| -> (Value, Value) {
                let c = m.to_cols_array();
                (Value::Array(vec![wv(&c[0..3]), wv(&c[4..7]), wv(&c[8..11])]), wv(&c[12..15]))
            };
            let a3cols = |a: &$A3| -> (Value, Value) {
                let c = a.to_cols_array();
                (Value::Array(vec![wv(&c[0..3]), wv(&c[3..6]), wv(&c[6..9])]), wv(&c[9..12]))
            };
            let qcols = |q: &$Q| -> Value {
                let c = $M3::from_quat(*q).to_cols_array();
                Value::Array(vec![wv(&c[0..3]), wv(&c[3..6]), wv(&c[6..9])])
            };
            let base = |hand: &str, ty: &str, sp: &str| json!({"k": "rel", "op": "view", "f": $fm, "ty": ty, "sp": sp, "hand": hand,
                "eye": wv(&eye.to_array()), "dir": wv(&dir.to_array()), "up": wv(&up.to_array())});
            for (hand, sp, m) in [("rh", "look_to_rh", $M4::look_to_rh(eye, dir, up)), ("lh", "look_to_lh", $M4::look_to_lh(eye, dir, up)),
                                  ("rh", "look_at_rh", $M4::look_at_rh(eye, eye + dir, up)), ("lh", "look_at_lh", $M4::look_at_lh(eye, eye + dir, up))] {
                let (lin, t) = m4cols(&m);
                let mut ev = base(hand, stringify!($M4), sp);
                ev["lin"] = lin;
                ev["t"] = t;
                // look_at derives its direction from two points: log the direction it actually used
                if sp.starts_with("look_at") { let d2 = ((eye + dir) - eye).normalize(); ev["dir"] = wv(&d2.to_array()); }
                $o.emit(ev);
            }
            for (hand, sp, a) in [("rh", "look_to_rh", $A3::look_to_rh(eye, dir, up)), ("lh", "look_to_lh", $A3::look_to_lh(eye, dir, up)),
                                  ("rh", "look_at_rh", $A3::look_at_rh(eye, eye + dir, up)), ("lh", "look_at_lh", $A3::look_at_lh(eye, eye + dir, up))] {
                let (lin, t) = a3cols(&a);
                let mut ev = base(hand, stringify!($A3), sp);
                ev["lin"] = lin;
                ev["t"] = t;
                if sp.starts_with("look_at") { let d2 = ((eye + dir) - eye).normalize(); ev["dir"] = wv(&d2.to_array()); }
                $o.emit(ev);
            }
            for (hand, sp, q) in [("rh", "look_to_rh", $Q::look_to_rh(dir, up)), ("lh", "look_to_lh", $Q::look_to_lh(dir, up))] {
                let mut ev = base(hand, stringify!($Q), sp);
                ev["lin"] = qcols(&q);
                $o.emit(ev);
            }
        }
        // ---- projections: tan(fov/2) = 2^tj, any aspect in [1e-2, 1e2], far/near up to 2^20
        let tj0: i32 = $r.below(15) as i32 - 7;          // tan(fov/2) = 2^-7 .. 2^7: fov from 0.016 to pi - 0.016
        let narrow: i32 = -7 + $r.below(2) as i32;       // and every draw a narrow one (a focal length through 1 - cos(fov) cancels there) ...
        let wide: i32 = 7 - $r.below(2) as i32;          // ... and a wide one
        let aspect = ((2.0f64).powf(unit_f64($r) * 13.0 - 6.5)) as $S;
        let near = ((2.0f64).powf(unit_f64($r) * 10.0 - 7.0)) as $S;
        let ratio = [3.0f64, 100.0, 32769.0, 1.0e5, 1.0e6, 1.5][$r.below(6) as usize];
        let far = (near as f64 * ratio) as $S;
        let wm = |m: &$M4| -> Value { let c = m.to_cols_array(); Value::Array(c.chunks(4).map(|x| wv(x)).collect()) };
        for tj in [tj0, narrow, wide] {
        let t = (2.0 as $S).powi(tj);
        let fov = 2.0 * t.atan();
        for (name, conv, hand, m) in [
            ("perspective_rh_gl", "gl", "rh", $M4::perspective_rh_gl(fov, aspect, near, far)),
            ("perspective_lh", "zo", "lh", $M4::perspective_lh(fov, aspect, near, far)),
            ("perspective_rh", "zo", "rh", $M4::perspective_rh(fov, aspect, near, far)),
            ("perspective_infinite_lh", "inf", "lh", $M4::perspective_infinite_lh(fov, aspect, near)),
            ("perspective_infinite_rh", "inf", "rh", $M4::perspective_infinite_rh(fov, aspect, near)),
            ("perspective_infinite_reverse_lh", "infrev", "lh", $M4::perspective_infinite_reverse_lh(fov, aspect, near)),
            ("perspective_infinite_reverse_rh", "infrev", "rh", $M4::perspective_infinite_reverse_rh(fov, aspect, near)),
        ] {
            $o.emit(json!({"k": "rel", "op": "proj", "kind": "persp", "f": $fm, "ty": stringify!($M4), "sp": name, "conv": conv, "hand": hand, "tj": tj,
                "aspect": w(aspect), "near": w(near), "far": w(far), "m": wm(&m)}));
        }
        }
        let (l, rr) = { let a = (unit_f64($r) * 20.0 - 10.0) as $S; let b = a + ((2.0f64).powf(unit_f64($r) * 10.0 - 5.0)) as $S; (a, b) };
        let (b, tp) = { let a = (unit_f64($r) * 20.0 - 10.0) as $S; let c = a + ((2.0f64).powf(unit_f64($r) * 10.0 - 5.0)) as $S; (a, c) };
        for (name, conv, hand, m) in [
            ("orthographic_rh_gl", "gl", "rh", $M4::orthographic_rh_gl(l, rr, b, tp, near, far)),
            ("orthographic_lh", "zo", "lh", $M4::orthographic_lh(l, rr, b, tp, near, far)),
            ("orthographic_rh", "zo", "rh", $M4::orthographic_rh(l, rr, b, tp, near, far)),
        ] {
            $o.emit(json!({"k": "rel", "op": "proj", "kind": "ortho", "f": $fm, "ty": stringify!($M4), "sp": name, "conv": conv, "hand": hand,
                "l": w(l), "r": w(rr), "b": w(b), "t": w(tp), "near": w(near), "far": w(far), "m": wm(&m)}));
        }
    }};
}
macro_rules! rel_rot {
    ($o:ident, $r:ident, $S:ident, $is32:expr, $fm:expr, $V3:ident, $M3:ident, $M4:ident, $A3:ident, $Q:ident, [$($M3X:ident),*]) => {{
        use glam::EulerRot as E;
        let is32 = $is32;
        let w = |x: $S| -> Value { wf(x.to_bits() as u64, is32) };
        let wv = |v: &[$S]| -> Value { Value::Array(v.iter().map(|x| w(*x)).collect()) };
        let wm3 = |c: &[$S]| -> Value { Value::Array(vec![wv(&c[0..3]), wv(&c[3..6]), wv(&c[6..9])]) };
        let lin4 = |m: &$M4| -> Vec<$S> { let c = m.to_cols_array(); vec![c[0], c[1], c[2], c[4], c[5], c[6], c[8], c[9], c[10]] };
        let orders: [(&str, E); 24] = [("XYZ", E::XYZ), ("XYX", E::XYX), ("XZY", E::XZY), ("XZX", E::XZX), ("YZX", E::YZX), ("YZY", E::YZY), ("YXZ", E::YXZ),
            ("YXY", E::YXY), ("ZXY", E::ZXY), ("ZXZ", E::ZXZ), ("ZYX", E::ZYX), ("ZYZ", E::ZYZ), ("ZYXEx", E::ZYXEx), ("XYXEx", E::XYXEx), ("YZXEx", E::YZXEx),
            ("XZXEx", E::XZXEx), ("XZYEx", E::XZYEx), ("YZYEx", E::YZYEx), ("ZXYEx", E::ZXYEx), ("YXYEx", E::YXYEx), ("YXZEx", E::YXZEx), ("ZXZEx", E::ZXZEx),
            ("XYZEx", E::XYZEx), ("ZYZEx", E::ZYZEx)];
        let elem = |ax: u8, a: $S| -> $M3 { match ax { b'X' => $M3::from_rotation_x(a), b'Y' => $M3::from_rotation_y(a), _ => $M3::from_rotation_z(a) } };
        for (name, ord) in orders {
            let nb = name.as_bytes();
            let a = ((unit_f64($r) * 2.0 - 1.0) * 3.1) as $S;
            let c = ((unit_f64($r) * 2.0 - 1.0) * 3.1) as $S;
            // the middle angle keeps 0.15 rad away from the variant's gimbal lock
            let b = if nb[0] == nb[2] { (0.15 + unit_f64($r) * 2.84) as $S * if $r.below(2) == 0 { 1.0 } else { -1.0 } } else { ((unit_f64($r) * 2.0 - 1.0) * 1.42) as $S };
            let es = Value::Array(vec![wm3(&elem(nb[0], a).to_cols_array()), wm3(&elem(nb[1], b).to_cols_array()), wm3(&elem(nb[2], c).to_cols_array())]);
            let base = |ty: &str| json!({"k": "rel", "op": "euler", "f": $fm, "ty": ty, "order": name, "angles": wv(&[a, b, c]), "e": es.clone()});
            let m = $M3::from_euler(ord, a, b, c);
            let (a2, b2, c2) = m.to_euler(ord);
            let mut ev = base(stringify!($M3));
            ev["got"] = wm3(&m.to_cols_array());
            ev["back"] = wm3(&$M3::from_euler(ord, a2, b2, c2).to_cols_array());
            $o.emit(ev);
            let q = $Q::from_euler(ord, a, b, c);
            let (a3, b3, c3) = q.to_euler(ord);
            let mut ev = base(stringify!($Q));
            ev["got"] = wm3(&$M3::from_quat(q).to_cols_array());
            ev["back"] = wm3(&$M3::from_quat($Q::from_euler(ord, a3, b3, c3)).to_cols_array());
            $o.emit(ev);
            let m4 = $M4::from_euler(ord, a, b, c);
            let (a4, b4, c4) = m4.to_euler(ord);
            let mut ev = base(stringify!($M4));
            ev["got"] = wm3(&lin4(&m4));
            ev["back"] = wm3(&lin4(&$M4::from_euler(ord, a4, b4, c4)));
            $o.emit(ev);
        }
        // ---- quaternion <-> matrix on random rotations (small, generic and nearly half-turn rotations: all four extraction branches)
        for _ in 0..8 {
            let axis = $V3::new((unit_f64($r) * 2.0 - 1.0) as $S, (unit_f64($r) * 2.0 - 1.0) as $S, (unit_f64($r) * 2.0 - 1.0) as $S).normalize();
            let ang: $S = match $r.below(5) { 0 => (unit_f64($r) * 6.28 - 3.14) as $S, 1 => 3.1 + (unit_f64($r) * 0.08) as $S, 2 => (10.0f64).powf(-7.5 + 5.5 * unit_f64($r)) as $S, /* tiny rotations, log-uniform 3e-8 .. 1e-2 */ 3 => 2.0 + unit_f64($r) as $S, _ => -(2.2 + unit_f64($r) as $S) };
            if !axis.is_finite() { continue; }
            let q = $Q::from_axis_angle(axis, ang);
            let ev = |ty: &str, sp: &str, q: &$Q, m: &[$S]| json!({"k": "rel", "op": "quat_mat", "f": $fm, "ty": ty, "sp": sp, "q": wv(&q.to_array()), "m": wm3(m)});
            let m3 = $M3::from_quat(q);
            $o.emit(ev(stringify!($M3), "Mat3::from_quat", &q, &m3.to_cols_array()));
            $o.emit(ev(stringify!($M4), "Mat4::from_quat", &q, &lin4(&$M4::from_quat(q))));
            $o.emit(ev(stringify!($A3), "Affine3::from_quat", &q, &$A3::from_quat(q).to_cols_array()[0..9]));
            $( $o.emit(ev(stringify!($M3X), "Mat3A::from_quat", &q, &$M3X::from_quat(q).to_cols_array())); )*
            // axis-angle constructors of the matrix types against the quaternion one; axis-angle extraction rebuilds the rotation
            $o.emit(ev(stringify!($M3), "Mat3::from_axis_angle", &q, &$M3::from_axis_angle(axis, ang).to_cols_array()));
            $o.emit(ev(stringify!($M4), "Mat4::from_axis_angle", &q, &lin4(&$M4::from_axis_angle(axis, ang))));
            $o.emit(ev(stringify!($A3), "Affine3::from_axis_angle", &q, &$A3::from_axis_angle(axis, ang).to_cols_array()[0..9]));
            $( $o.emit(ev(stringify!($M3X), "Mat3A::from_axis_angle", &q, &$M3X::from_axis_angle(axis, ang).to_cols_array())); )*
            for qq in [q, -q] {
                let (ax2, an2) = qq.to_axis_angle();
                $o.emit(ev(stringify!($Q), "from_axis_angle(to_axis_angle(q))", &$Q::from_axis_angle(ax2, an2), &m3.to_cols_array()));
                $o.emit(ev(stringify!($Q), "from_scaled_axis(to_scaled_axis(q))", &$Q::from_scaled_axis(qq.to_scaled_axis()), &m3.to_cols_array()));
            }
            // matrix -> quaternion: the matrix is the operand, the quaternion the result
            $o.emit(ev(stringify!($Q), "Quat::from_mat3", &$Q::from_mat3(&m3), &m3.to_cols_array()));
            let m4 = $M4::from_quat(q);
            $o.emit(ev(stringify!($Q), "Quat::from_mat4", &$Q::from_mat4(&m4), &lin4(&m4)));
            let a3 = $A3::from_quat(q);
            $o.emit(ev(stringify!($Q), "Quat::from_affine3", &$Q::from_affine3(&a3), &a3.to_cols_array()[0..9]));
            $( let mx = $M3X::from_quat(q); $o.emit(ev(stringify!($Q), "Quat::from_mat3a", &$Q::from_mat3a(&mx), &mx.to_cols_array())); )*
        }
    }};
}
fn rec_rel(o: &mut Out, r: &mut Rng, draws: u64) {
    use glam::*;
    for _ in 0..draws {
        rel_vec!(o, r, Vec2, f32, 2, true, 32, rot2);
        rel_vec!(o, r, Vec3, f32, 3, true, 32, rot);
        rel_vec!(o, r, Vec3A, f32, 3, true, 32, rot);
        rel_vec!(o, r, Vec4, f32, 4, true, 32, norot);
        rel_vec!(o, r, DVec2, f64, 2, false, 64, rot2);
        rel_vec!(o, r, DVec3, f64, 3, false, 64, rot);
        rel_vec!(o, r, DVec4, f64, 4, false, 64, norot);
        rel_quat!(o, r, Quat, Vec3, f32, true, 32);
        rel_quat!(o, r, DQuat, DVec3, f64, false, 64);
        rel_cam!(o, r, f32, true, 32, Vec3, Mat3, Mat4, Affine3A, Quat);
        rel_cam!(o, r, f64, false, 64, DVec3, DMat3, DMat4, DAffine3, DQuat);
        rel_rot!(o, r, f32, true, 32, Vec3, Mat3, Mat4, Affine3A, Quat, [Mat3A]);
        rel_rot!(o, r, f64, false, 64, DVec3, DMat3, DMat4, DAffine3, DQuat, []);
    }
}

// ------------------------------------------------------------------------------------------ access histories (Trace_C17)
fn hexs(b: &[u64]) -> Value { Value::Array(b.iter().map(|x| json!(format!("{:#x}", x))).collect()) }
fn rec_acc_ty<V: hx::acc::Acc>(o: &mut Out, r: &mut Rng, steps: u64) {
    use hx::acc::Obs;
    use hx::tv::{Scalar, TV};
    let n = V::N;
    let mask = <V::S as Scalar>::SC.mask();
    // any bit pattern: NaN payloads, -0, subnormals, extremes
    let rb = |r: &mut Rng| -> u64 { match r.below(6) { 0 => 0, 1 => mask, 2 => (mask >> 1) + 1, _ => r.next() & mask } };
    let start: Vec<u64> = (0..n).map(|_| rb(r)).collect();
    let vars = V::variants(&start);
    let mut v = vars[(r.next() as usize) % vars.len()];
    o.emit(json!({"k": "acc", "op": "begin", "ty": V::NAME, "n": n, "obs": hexs(&v.to_bits())}));
    let ctors = ["new", "from_array", "from_slice", "from_array_trait", "from_tuple", "free_fn"];
    let writes = ["field", "index_mut", "as_mut", "with"];
    let reads = ["field", "index", "to_array", "write_to_slice", "into_array", "into_tuple", "as_ref"];
    for _ in 0..steps {
        match r.below(10) {
            0 => {
                let path = ctors[r.below(ctors.len() as u64) as usize];
                let vals: Vec<u64> = (0..n).map(|_| rb(r)).collect();
                let l: Vec<V::S> = vals.iter().map(|x| <V::S as Scalar>::from_u64(*x)).collect();
                if let Some(nv) = V::ctor(path, &l) {
                    v = nv;
                    o.emit(json!({"k": "acc", "op": "ctor", "ty": V::NAME, "path": path, "vals": hexs(&vals), "obs": hexs(&v.to_bits())}));
                }
            }
            1 => {
                let val = rb(r);
                if let Some(nv) = V::ctor("splat", &[<V::S as Scalar>::from_u64(val)]) {
                    v = nv;
                    o.emit(json!({"k": "acc", "op": "splat", "ty": V::NAME, "val": format!("{:#x}", val), "obs": hexs(&v.to_bits())}));
                }
            }
            2..=5 => {
                let path = writes[r.below(writes.len() as u64) as usize];
                let lane = r.below(n as u64) as usize;
                let val = rb(r);
                if v.write(path, lane, <V::S as Scalar>::from_u64(val)) {
                    o.emit(json!({"k": "acc", "op": "write", "ty": V::NAME, "path": path, "lane": lane, "val": format!("{:#x}", val), "obs": hexs(&v.to_bits())}));
                }
            }
            _ => {
                let path = reads[r.below(reads.len() as u64) as usize];
                if let Some(Obs::Lanes(l)) = v.read(path) {
                    let ob: Vec<u64> = l.iter().map(|x| x.to_u64()).collect();
                    o.emit(json!({"k": "acc", "op": "read", "ty": V::NAME, "path": path, "obs": hexs(&ob)}));
                }
            }
        }
    }
}
fn rec_acc(o: &mut Out, r: &mut Rng, draws: u64) {
    use glam::*;
    macro_rules! one { ($V:ident) => { rec_acc_ty::<$V>(o, r, 12 * draws); }; }
    hx::for_tv2!(one);
    hx::for_tv3!(one);
    hx::for_tv4!(one);
    one!(Quat);
    one!(DQuat);
}

// ------------------------------------------------------------------------------------------ matrix access histories (Trace_C06)
fn rec_macc_ty<M: hx::mt::MT>(o: &mut Out, r: &mut Rng, steps: u64) {
    use hx::mt::MObs;
    use hx::tv::Scalar;
    let (rr, cc) = (M::R, M::C);
    let mask = <M::S as Scalar>::SC.mask();
    let rb = |r: &mut Rng| -> u64 { match r.below(6) { 0 => 0, 1 => mask, 2 => (mask >> 1) + 1, _ => r.next() & mask } };
    let bitsof = |m: &M| -> Vec<u64> { m.flat().iter().map(|x| x.to_u64()).collect() };
    let start: Vec<M::S> = (0..rr * cc).map(|_| <M::S as Scalar>::from_u64(rb(r))).collect();
    let mut m = M::from_flat(&start);
    o.emit(json!({"k": "macc", "op": "begin", "ty": M::NAME, "r": rr, "c": cc, "obs": hexs(&bitsof(&m))}));
    let ctors = ["from_cols_array", "from_cols_array_2d", "from_cols_slice", "from_cols", "free_fn"];
    let writes = ["col_mut", "as_mut", "field"];
    let reads = ["to_cols_array", "to_cols_array_2d", "write_cols_to_slice", "as_ref", "cols", "rows", "fields", "transpose"];
    for _ in 0..steps {
        match r.below(10) {
            0 => {
                let path = ctors[r.below(ctors.len() as u64) as usize];
                let vals: Vec<u64> = (0..rr * cc).map(|_| rb(r)).collect();
                let f: Vec<M::S> = vals.iter().map(|x| <M::S as Scalar>::from_u64(*x)).collect();
                if let Some(nm) = M::ctor(path, &f) {
                    m = nm;
                    o.emit(json!({"k": "macc", "op": "ctor", "ty": M::NAME, "path": path, "vals": hexs(&vals), "obs": hexs(&bitsof(&m))}));
                }
            }
            1..=4 => {
                let path = writes[r.below(writes.len() as u64) as usize];
                let (wr, wc) = (r.below(rr as u64) as usize, r.below(cc as u64) as usize);
                let val = rb(r);
                if m.write(path, wr, wc, <M::S as Scalar>::from_u64(val)) {
                    o.emit(json!({"k": "macc", "op": "write", "ty": M::NAME, "path": path, "r": wr, "c": wc, "val": format!("{:#x}", val), "obs": hexs(&bitsof(&m))}));
                }
            }
            _ => {
                let path = reads[r.below(reads.len() as u64) as usize];
                if let Some(MObs::Flat(l)) = m.read(path) {
                    let ob: Vec<u64> = l.iter().map(|x| x.to_u64()).collect();
                    o.emit(json!({"k": "macc", "op": "read", "ty": M::NAME, "path": path, "obs": hexs(&ob)}));
                }
            }
        }
    }
}
fn rec_macc(o: &mut Out, r: &mut Rng, draws: u64) {
    use glam::*;
    macro_rules! one { ($($M:ident),*) => { $( rec_macc_ty::<$M>(o, r, 16 * draws); )* }; }
    one!(Mat2, Mat3, Mat3A, Mat4, DMat2, DMat3, DMat4, Affine2, Affine3A, DAffine2, DAffine3);
}

// ------------------------------------------------------------------------------------------ mask histories (Trace_C15)
fn rec_mask_ty<B: hx::bm::SelObs>(o: &mut Out, r: &mut Rng, steps: u64) {
    use hx::bm::BM;
    let n = B::N;
    let rbools = |r: &mut Rng| -> Vec<bool> { let k = r.below(6); (0..n).map(|i| match k { 0 => true, 1 => false, _ => (r.next() >> (7 + i)) & 1 == 1 }).collect() };
    // any producer of a mask with the given lanes
    let produce = |r: &mut Rng, l: &[bool]| -> B { let vs = B::variants(l); vs[(r.next() as usize) % vs.len()] };
    let obs = |m: &B| -> Value {
        let test: Vec<bool> = (0..n).map(|i| m.test_(i)).collect();
        let fresh = B::mk(&test);
        json!({"test": test, "arr": m.bools(), "sel": m.sel_(), "bitmask": m.bitmask_(), "any": m.any_(), "all": m.all_(),
               "u32": m.u32s().iter().map(|x| match *x { 0 => 0, u32::MAX => 1, _ => 2 }).collect::<Vec<i32>>(),
               "eqfresh": *m == fresh && fresh == *m && !(*m != fresh)})
    };
    let start = rbools(r);
    let mut m = produce(r, &start);
    o.emit(json!({"k": "mask", "op": "begin", "ty": B::NAME, "n": n, "obs": obs(&m)}));
    let ctors = ["new", "splat", "from_array", "from_trait", "free_fn"];
    let bins = ["and", "or", "xor", "and_assign", "or_assign", "xor_assign"];
    for _ in 0..steps {
        match r.below(12) {
            0 => {
                let path = ctors[r.below(ctors.len() as u64) as usize];
                let mut arg = rbools(r);
                if path == "splat" { let b = arg[0]; for x in arg.iter_mut() { *x = b; } }
                if let Some(nm) = B::ctor(path, &arg) {
                    m = nm;
                    o.emit(json!({"k": "mask", "op": "ctor", "ty": B::NAME, "path": path, "arg": arg, "obs": obs(&m)}));
                }
            }
            1 | 2 => { m = m.not_(); o.emit(json!({"k": "mask", "op": "not", "ty": B::NAME, "obs": obs(&m)})); }
            3..=6 => {
                let path = bins[r.below(bins.len() as u64) as usize];
                let arg = rbools(r);
                let b = produce(r, &arg);
                m = m.bin(path, b);
                o.emit(json!({"k": "mask", "op": "bin", "ty": B::NAME, "path": path, "arg": arg, "obs": obs(&m)}));
            }
            7..=10 => {
                let (idx, val) = (r.below(n as u64) as usize, r.below(2) == 1);
                m.set_(idx, val);
                o.emit(json!({"k": "mask", "op": "set", "ty": B::NAME, "idx": idx, "val": val, "obs": obs(&m)}));
            }
            _ => {
                let path = if r.below(2) == 0 { "test" } else { "set" };
                let idx = n + r.below(3) as usize;
                let before = m;
                let panicked = if path == "test" { std::panic::catch_unwind(std::panic::AssertUnwindSafe(|| { let _ = before.test_(idx); })).is_err() }
                               else { let mut t = before; std::panic::catch_unwind(std::panic::AssertUnwindSafe(move || { t.set_(idx, true); })).is_err() };
                o.emit(json!({"k": "mask", "op": "badindex", "ty": B::NAME, "path": path, "idx": idx, "panicked": panicked, "obs": obs(&m)}));
            }
        }
    }
}
fn rec_mask(o: &mut Out, r: &mut Rng, draws: u64) {
    use glam::*;
    macro_rules! one { ($($B:ident),*) => { $( rec_mask_ty::<$B>(o, r, 16 * draws); )* }; }
    one!(BVec2, BVec3, BVec3A, BVec4, BVec4A);
}

// ------------------------------------------------------------------------------------------ swizzle histories (Trace_C16)
/// A random history of swizzle getters and `with_` setters on one register per vector type: getters of the register's own length are
/// written back (the register is permuted in place), the others are only observed, setters replace the named lanes.  Every event logs the
/// method name, its letters, the replacement lanes and the observed lanes / result type; Trace_C16.tla replays it on Swizzle.tla.
fn rec_swz(o: &mut Out, r: &mut Rng, draws: u64) {
    use glam::*;
    use hx::swz_gen;
    use hx::tv::{Scalar, TV};
    const L: [&str; 4] = ["x", "y", "z", "w"];
    fn fam(name: &str) -> &str { let t = name.trim_end_matches('A'); &t[..t.len() - 1] }
    macro_rules! hist {
        ($V:ident, $n:expr, $get:ident, $with:expr) => {{
            let n: usize = $n;
            let mask = <<$V as TV>::S as Scalar>::SC.mask();
            let rb = |r: &mut Rng| -> u64 { match r.below(6) { 0 => 0, 1 => mask, 2 => (mask >> 1) + 1, _ => r.next() & mask } };
            let start: Vec<u64> = (0..n).map(|_| rb(r)).collect();
            let vars = <$V as TV>::variants(&start);
            let mut v: $V = vars[(r.next() as usize) % vars.len()];
            o.emit(json!({"k": "swz", "op": "begin", "ty": <$V as TV>::NAME, "fam": fam(<$V as TV>::NAME), "n": n, "obs": hexs(&v.to_bits())}));
            for _ in 0..(10 * draws) {
                let setter = n > 2 && r.below(3) == 0;
                if setter {
                    // pairwise distinct letters, shorter than the vector
                    let k = 2 + r.below((n - 2) as u64) as usize;
                    let mut idx: Vec<usize> = (0..n).collect();
                    for i in 0..k { let j = i + r.below((n - i) as u64) as usize; idx.swap(i, j); }
                    let nm: Vec<&str> = idx[..k].iter().map(|i| L[*i]).collect();
                    let name: String = nm.concat();
                    // replacement lanes: random bit patterns, or (a quarter of the time) values that COMPARE equal to the lanes they replace but
                    // differ in bits -- the other zero, for floats -- or are the very same bits: a setter that skips "unchanged" lanes shows up
                    let cur = v.to_bits();
                    let fl = <<$V as TV>::S as Scalar>::SC.is_float();
                    let twin = r.below(4) == 0;
                    let rhs: Vec<u64> = (0..k).map(|i| {
                        let c = cur[idx[i]];
                        if !twin { rb(r) }
                        else if fl && (c & (mask >> 1)) == 0 { c ^ ((mask >> 1) + 1) }      // +0 <-> -0
                        else if fl && r.below(2) == 0 { if r.below(2) == 0 { 0 } else { (mask >> 1) + 1 } }
                        else { c }
                    }).collect();
                    let f: fn($V, &str, &[u64]) -> Option<swz_gen::SwOut> = $with;
                    if let Some((bits, rty)) = f(v, &name, &rhs) {
                        v = <$V as TV>::from_bits(&bits);
                        o.emit(json!({"k": "swz", "op": "with", "ty": <$V as TV>::NAME, "name": name, "nm": nm, "rhs": hexs(&rhs), "rty": rty, "obs": hexs(&bits)}));
                    } else {
                        o.emit(json!({"k": "swz", "op": "missing", "ty": <$V as TV>::NAME, "name": format!("with_{}", name)}));
                    }
                } else {
                    let k = 2 + r.below(3) as usize;
                    let nm: Vec<&str> = (0..k).map(|_| L[r.below(n as u64) as usize]).collect();
                    let name: String = nm.concat();
                    if let Some((bits, rty)) = swz_gen::$get(v, &name) {
                        let keep = k == n && r.below(2) == 0;
                        if keep { v = <$V as TV>::from_bits(&bits); }
                        o.emit(json!({"k": "swz", "op": if keep { "perm" } else { "get" }, "ty": <$V as TV>::NAME, "name": name, "nm": nm, "rty": rty, "obs": hexs(&bits)}));
                    } else {
                        o.emit(json!({"k": "swz", "op": "missing", "ty": <$V as TV>::NAME, "name": name}));
                    }
                }
            }
        }};
    }
    macro_rules! h2 { ($V:ident) => { hist!($V, 2, get2, |_v, _n, _r| None) }; }
    macro_rules! h3 { ($V:ident) => { hist!($V, 3, get3, |v, n, r| swz_gen::with3(v, n, r)) }; }
    macro_rules! h4 { ($V:ident) => { hist!($V, 4, get4, |v, n, r| swz_gen::with4(v, n, r)) }; }
    hx::for_tv2!(h2);
    hx::for_tv3!(h3);
    hx::for_tv4!(h4);
}

// ------------------------------------------------------------------------------------------ replay of one event
fn unlimbs(v: &[Value]) -> u128 {
    let mut m: u128 = 0;
    for (i, l) in v.iter().enumerate() { m |= (l.as_u64().unwrap() as u128) << (8 * i); }
    m
}
fn unwz(v: &Value) -> i128 {
    let a = v.as_array().unwrap();
    let m = unlimbs(&a[1..]) as i128;
    if a[0].as_i64().unwrap() == 1 { -m } else { m }
}
/// wire form -> bit pattern
fn unwf(v: &Value, is32: bool) -> u64 {
    let a = v.as_array().unwrap();
    let (sb, mb, bias, emaxf) = if is32 { (31, 23i64, 127i64, 0xffu64) } else { (63, 52i64, 1023i64, 0x7ffu64) };
    if a.is_empty() { return (emaxf << mb) | (1 << (mb - 1)); }
    let s = a[0].as_u64().unwrap() << sb;
    if a.len() == 1 { return s | (emaxf << mb); }
    let m = unlimbs(&a[2..]) as u64;
    if m == 0 { return s; }
    let e = a[1].as_i64().unwrap();
    if m >> mb == 0 { return s | m; }                     // subnormal
    s | (((e + bias + mb) as u64) << mb) | (m & ((1u64 << mb) - 1))
}
fn lanes_f(ev: &Value, key: &str, is32: bool, n: usize) -> Vec<u64> {
    match ev[key].as_array() {
        Some(a) => a.iter().map(|x| unwf(x, is32)).collect(),
        None => vec![0; n],
    }
}
fn lanes_i(ev: &Value, key: &str, n: usize) -> Vec<i128> {
    match ev[key].as_array() {
        Some(a) => a.iter().map(unwz).collect(),
        None => vec![0; n],
    }
}
fn replay_float<T: FV>(o: &mut Out, ev: &Value) {
    if ev["ty"] != T::NAME { return; }
    let is32 = <T::S as Flt>::NAME == "f32";
    let a = lanes_f(ev, "a", is32, T::N);
    let mut b = lanes_f(ev, "b", is32, T::N);
    let c = lanes_f(ev, "c", is32, T::N);
    let sp = ev["sp"].as_str().unwrap_or("");
    // "sv" events were logged with the splatted scalar as `a` and the vector as `b`: exec_float wants (vector, scalar lanes)
    let a2 = if sp.starts_with("sv ") { let v = b.clone(); b = a.clone(); v } else { a };
    if ev["k"] == "f3" && ev["op"] == "clamp" {
        // the recorder derives ordered bounds from b and c; they are ordered already
    }
    exec_float::<T>(o, &a2, &b, &c, 0);
}
fn replay_int<V: IV>(o: &mut Out, ev: &Value) {
    if ev["ty"] != V::NAME { return; }
    let mut a = lanes_i(ev, "a", V::N);
    let mut b = lanes_i(ev, "b", V::N);
    let c = lanes_i(ev, "c", V::N);
    if ev["form"] == "sv" { std::mem::swap(&mut a, &mut b); }
    let k = ev["k"].as_str().unwrap();
    // is: c holds the counts (all equal for the scalar-count form); i3: b, c are the ordered bounds; im: b is the operand of the other signedness
    let cnt = if k == "is" { c[0] } else { 0 };
    exec_int::<V>(o, &a, &b, &c, &b.clone(), cnt, &c, 0);
}

/// where and why the most recent panic happened (recorded silently: many calls are expected to panic and are caught)
static LAST_PANIC: std::sync::Mutex<String> = std::sync::Mutex::new(String::new());
fn main() {
    // an uncaught panic while recording is DATA about the code under test when it comes from inside the library (exit code 3 and a
    // REC-PANIC line with the location), and a harness error otherwise
    std::panic::set_hook(Box::new(|info| {
        let loc = info.location().map(|l| format!("{}:{}", l.file(), l.line())).unwrap_or_default();
        let msg = info.payload().downcast_ref::<String>().cloned().or_else(|| info.payload().downcast_ref::<&str>().map(|s| s.to_string())).unwrap_or_default();
        if let Ok(mut g) = LAST_PANIC.lock() { *g = format!("{loc} :: {msg}"); }
    }));
    if std::panic::catch_unwind(main2).is_err() {
        eprintln!("REC-PANIC {}", LAST_PANIC.lock().map(|g| g.clone()).unwrap_or_default());
        std::process::exit(3);
    }
}
fn main2() {
    let args: Vec<String> = std::env::args().collect();
    let mode = args[1].as_str();
    let path = &args[2];
    if mode == "replay" {
        // rec replay <out> <event.json>: re-execute one logged call on the current tree and log it again
        let ev: Value = serde_json::from_str(&std::fs::read_to_string(&args[3]).unwrap()).unwrap();
        let mut o = Out { w: std::io::BufWriter::new(std::fs::File::create(path).unwrap()), n: 0, per: Default::default(),
                          filter: Some(json!({"k": ev["k"], "op": ev["op"], "sp": ev["sp"], "form": ev["form"], "ty": ev["ty"]})) };
        let k = ev["k"].as_str().unwrap().to_string();
        if k.starts_with('f') {
            for_each_fv!(replay_float(&mut o, &ev));
        } else if k.starts_with('i') {
            let sc = format!("{}{}", if ev["sg"] == 1 { "i" } else { "u" }, ev["w"]);
            for_iv_of!(sc.as_str(), replay_int(&mut o, &ev));
        } else {
            let (ssc, _) = sc_of(ev["sty"].as_str().unwrap());
            let bits: Vec<u64> = ev["a"].as_array().unwrap().iter().map(|x| match ssc {
                "f32" => unwf(x, true),
                "f64" => unwf(x, false),
                _ => unwz(x) as u64 & { let w: u32 = if ssc == "usize" { 64 } else { ssc[1..].parse().unwrap() }; if w == 64 { u64::MAX } else { (1u64 << w) - 1 } },
            }).collect();
            o.filter = None;
            exec_conv(&mut o, ev["sty"].as_str().unwrap(), ev["dty"].as_str().unwrap(), ev["op"].as_str().unwrap(), &bits);
        }
        o.w.flush().unwrap();
        println!("replayed {} events", o.n);
        return;
    }
    let seed: u64 = args[3].parse().unwrap();
    let draws: u64 = args[4].parse().unwrap();
    let mut o = Out { w: std::io::BufWriter::new(std::fs::File::create(path).unwrap()), n: 0, per: Default::default(), filter: None };
    let mut r = Rng::new(seed ^ 0x5eed_0000);
    match mode {
        "float" => {
            for d in 0..draws {
                rec_float_ty::<glam::Vec2>(&mut o, &mut r, d);
                rec_float_ty::<glam::Vec3>(&mut o, &mut r, d);
                rec_float_ty::<glam::Vec3A>(&mut o, &mut r, d);
                rec_float_ty::<glam::Vec4>(&mut o, &mut r, d);
                rec_float_ty::<glam::DVec2>(&mut o, &mut r, d);
                rec_float_ty::<glam::DVec3>(&mut o, &mut r, d);
                rec_float_ty::<glam::DVec4>(&mut o, &mut r, d);
            }
        }
        "int" => {
            for d in 0..draws {
                for sc in ["i8", "u8", "i16", "u16", "i32", "u32", "i64", "u64"] {
                    for_iv_of!(sc, rec_int_ty(&mut o, &mut r, d));
                }
            }
        }
        "conv" => rec_conv(&mut o, &mut r, draws),
        "poly" => rec_poly(&mut o, &mut r, draws),
        "mat" => rec_mat(&mut o, &mut r, draws),
        "rel" => rec_rel(&mut o, &mut r, draws),
        "acc" => rec_acc(&mut o, &mut r, draws),
        "macc" => rec_macc(&mut o, &mut r, draws),
        "swz" => rec_swz(&mut o, &mut r, draws),
        "mask" => rec_mask(&mut o, &mut r, draws),
        _ => panic!("mode"),
    }
    o.w.flush().unwrap();
    let summary = json!({"events": o.n, "per_op": o.per});
    std::fs::write(format!("{path}.summary.json"), summary.to_string()).unwrap();
    println!("recorded {} events", o.n);
}
