//! Replay of families `nopanic`, `slice` and `index` (C18): no float function panics on special
//! values; slice functions touch exactly N elements and panic (before touching anything) on
//! short slices; out-of-range indices panic.  Run also under AddressSanitizer (cfg `asan`).

use glam::*;
use hx::safe_gen::{run, Env};
use hx::*;
use serde_json::{json, Value};

macro_rules! special {
    ($S:ident, $name:expr) => {
        match $name {
            "zero" => 0.0 as $S,
            "negzero" => -0.0 as $S,
            "subnormal" => <$S>::from_bits(3),
            "tiny" => if core::mem::size_of::<$S>() == 4 { (2.0 as $S).powi(-80) } else { (2.0 as $S).powi(-600) },
            "huge" => if core::mem::size_of::<$S>() == 4 { (2.0 as $S).powi(70) } else { (2.0 as $S).powi(600) },
            "inf" => <$S>::INFINITY,
            "neginf" => <$S>::NEG_INFINITY,
            "nan" => <$S>::NAN,
            "max" => <$S>::MAX,
            "one" => 1.0 as $S,
            s => panic!("special {s}"),
        }
    };
}

macro_rules! env {
    ($S:ident) => {
        Env::<$S> {
            va: [1.5, -2.0, 0.75, 3.0], vb: [0.5, 4.0, -1.25, 2.0], vc: [-3.0, 0.25, 2.0, 1.0],
            sa: 0.75, sb: 2.5, sc: 0.5, sd: 10.0,
            qa: [0.5, -0.5, 0.5, 0.5], qb: [0.0, 0.6, 0.0, 0.8],
            ma: [2.0, 0.5, -1.0, 0.0, 0.0, 1.5, 3.0, 0.0, -2.0, 1.0, 0.25, 0.0, 1.0, 2.0, 3.0, 1.0],
            mb: [1.0, 0.0, 0.5, 0.0, -1.0, 2.0, 0.0, 0.0, 0.0, 0.5, 1.0, 0.0, -2.0, 1.0, 4.0, 1.0],
        }
    };
}
macro_rules! put {
    ($e:ident, $S:ident, $slot:expr, $lane:expr, $sp:expr) => {{
        let v = special!($S, $sp);
        let arr: Option<&mut [$S]> = match $slot {
            "va" => Some(&mut $e.va[..]), "vb" => Some(&mut $e.vb[..]), "vc" => Some(&mut $e.vc[..]),
            "qa" => Some(&mut $e.qa[..]), "qb" => Some(&mut $e.qb[..]), "ma" => Some(&mut $e.ma[..]), "mb" => Some(&mut $e.mb[..]),
            _ => None,
        };
        match arr {
            Some(a) => { if $lane == "all" { for x in a.iter_mut() { *x = v; } } else { let l: usize = $lane.parse().unwrap(); a[l] = v; } }
            None => match $slot { "sa" => $e.sa = v, "sb" => $e.sb = v, "sc" => $e.sc = v, "sd" => $e.sd = v, s => panic!("slot {s}") },
        }
    }};
}

/// all argument slots from a pseudo-random stream: a mix of moderate finite values, special values and arbitrary bit patterns
macro_rules! fill_random {
    ($e:ident, $S:ident, $bits:ty, $seed:expr) => {{
        let mut g = Rng::new($seed);
        let mut one = || -> $S {
            match g.below(10) {
                0..=4 => ((g.next() >> 11) as f64 / (1u64 << 53) as f64 * 16.0 - 8.0) as $S,
                5 => [0.0 as $S, -0.0, <$S>::INFINITY, <$S>::NEG_INFINITY, <$S>::NAN, <$S>::MAX, <$S>::MIN, <$S>::MIN_POSITIVE, <$S>::EPSILON, 1.0][g.below(10) as usize],
                6 => <$S>::from_bits(g.below(8) as $bits),                       // subnormals
                _ => <$S>::from_bits(g.next() as $bits),                          // any bit pattern
            }
        };
        for x in $e.va.iter_mut().chain($e.vb.iter_mut()).chain($e.vc.iter_mut()).chain($e.qa.iter_mut()).chain($e.qb.iter_mut())
            .chain($e.ma.iter_mut()).chain($e.mb.iter_mut()) { *x = one(); }
        $e.sa = one(); $e.sb = one(); $e.sc = one(); $e.sd = one();
    }};
}

fn main() {
    let args: Vec<String> = std::env::args().collect();
    quiet_panics();
    let seed0: u64 = std::env::var("HX_SEED").ok().and_then(|s| s.parse().ok()).unwrap_or(1);
    let mut rep = Report::new();
    let mut n = 0u64;
    read_cases(&args[1], "CASE", |c| {
        match c["fam"].as_str().unwrap_or("") {
            "nopanic" => {
                n += 1;
                let k = &c["c"];
                let (ty, op) = (k["ty"].as_str().unwrap(), k["op"].as_str().unwrap());
                rep.count_op(&format!("{ty}"), 1);
                if k["sp"] != "one" { rep.nontrivial += 1; }
                if rep.samples.len() < 3 && n % 9973 == 1 { rep.samples.push(c.clone()); }
                let mut e32 = env!(f32);
                let mut e64 = env!(f64);
                let (slot, lane, sp) = (k["slot"].as_str().unwrap(), k["lane"].as_str().unwrap(), k["sp"].as_str().unwrap());
                if slot == "rand" {
                    let sd = lane.parse::<u64>().unwrap() * 1_000_003 + seed0 * 7919;
                    fill_random!(e32, f32, u32, sd);
                    fill_random!(e64, f64, u64, sd);
                } else {
                    put!(e32, f32, slot, lane, sp);
                    put!(e64, f64, slot, lane, sp);
                }
                if k["slot2"] != "-" {
                    let (s2, p2) = (k["slot2"].as_str().unwrap(), k["sp2"].as_str().unwrap());
                    put!(e32, f32, s2, "all", p2);
                    put!(e64, f64, s2, "all", p2);
                }
                rep.evals += 1;
                match catch(|| run(ty, op, &e32, &e64)) {
                    Ok(true) => {}
                    Ok(false) => rep.spec_error(json!({"what": "operation of the specification is not in the harness dispatch", "ty": ty, "op": op})),
                    Err(p) => rep.mismatch(json!({"prop": "C18", "ty": ty, "op": op, "slot": slot, "lane": lane, "special": sp, "hx_seed": seed0,
                        "slot2": k["slot2"], "special2": k["sp2"], "exp": "returns", "got": "panic", "panic": p, "case": c})),
                }
            }
            "slice" | "index" => {
                n += 1;
                rep.nontrivial += 1;
                hx::safety::run_case(&mut rep, &c);
            }
            _ => {}
        }
    });
    rep.cases = n;
    rep.write(&args[2]);
    println!("safe[{}]: cases={} evals={} mismatches={} spec_errors={}", rep.cfg, rep.cases, rep.evals, rep.mismatch_count, rep.spec_error_count);
}
