//! Replay of family `rot` (C09, and the rotation cases of C05/C10): rotation constructors and
//! Euler sequences on the 45-degree grid, compared with exact ring values within a stated
//! tolerance (1e-5 for f32, 1e-12 for f64; a convention error moves an entry by >= 0.29).

use glam::*;
use hx::*;
use serde_json::{json, Value};

fn ring(v: &Value) -> f64 {
    let a = v.as_array().unwrap();
    (a[0].as_i64().unwrap() as f64 + a[1].as_i64().unwrap() as f64 * std::f64::consts::SQRT_2) / 2f64.powi(a[2].as_i64().unwrap() as i32)
}
fn ringv(v: &Value) -> Vec<f64> { v.as_array().unwrap().iter().map(ring).collect() }

fn order_of(s: &str) -> EulerRot {
    use EulerRot::*;
    match s {
        "ZYX" => ZYX, "ZXY" => ZXY, "YXZ" => YXZ, "YZX" => YZX, "XYZ" => XYZ, "XZY" => XZY,
        "ZYZ" => ZYZ, "ZXZ" => ZXZ, "YXY" => YXY, "YZY" => YZY, "XYX" => XYX, "XZX" => XZX,
        "ZYXEx" => ZYXEx, "ZXYEx" => ZXYEx, "YXZEx" => YXZEx, "YZXEx" => YZXEx, "XYZEx" => XYZEx, "XZYEx" => XZYEx,
        "ZYZEx" => ZYZEx, "ZXZEx" => ZXZEx, "YXYEx" => YXYEx, "YZYEx" => YZYEx, "XYXEx" => XYXEx, "XZXEx" => XZXEx,
        _ => panic!("order {s}"),
    }
}

struct Cx<'a> { rep: &'a mut Report, prop: String }

fn near(cx: &mut Cx, c: &Value, what: &str, ty: &str, exp: &[f64], got: &[f64], tol: f64) {
    cx.rep.evals += 1;
    let ok = exp.len() == got.len() && exp.iter().zip(got).all(|(e, g)| (e - g).abs() <= tol);
    if !ok {
        cx.rep.mismatch(json!({"prop": cx.prop, "ty": ty, "op": what, "kind": c["kind"], "order": c["order"], "ax": c["ax"], "j": c["j"],
            "a": c["a"], "b": c["b"], "c": c["c"], "exp": exp, "got": got, "tol": tol, "case": c}));
    }
}
fn m3_of4(m: &[f64]) -> Vec<f64> { [0, 1, 2, 4, 5, 6, 8, 9, 10].iter().map(|i| m[*i]).collect() }
fn rest_of4(m: &[f64]) -> Vec<f64> { [3, 7, 11, 12, 13, 14, 15].iter().map(|i| m[*i]).collect() }

macro_rules! f64s { ($e:expr) => { $e.iter().map(|x| *x as f64).collect::<Vec<f64>>() }; }

/// all checks for one scalar width
macro_rules! run_width {
    ($cx:ident, $c:ident, $S:ident, $tol:expr, $PI4:expr, $V2:ident, $V3:ident, $Q:ident, $M2:ident, $M3:ident, $M4:ident, $A2:ident, $A3:ident, [$($M3X:ident),*]) => {{
        let kind = $c["kind"].as_str().unwrap();
        let tag = stringify!($S);
        match kind {
            "axis" => {
                let j = $c["j"].as_i64().unwrap();
                let th = (j as $S) * $PI4;
                let tol = $tol * (1.0 + j.abs() as f64);
                let exp = ringv(&$c["exp"]["m"]);
                let ax = $c["ax"].as_str().unwrap();
                let axis = match ax { "X" => $V3::X, "Y" => $V3::Y, _ => $V3::Z };
                let (m3, m4, q, a3) = match ax {
                    "X" => ($M3::from_rotation_x(th), $M4::from_rotation_x(th), $Q::from_rotation_x(th), $A3::from_rotation_x(th)),
                    "Y" => ($M3::from_rotation_y(th), $M4::from_rotation_y(th), $Q::from_rotation_y(th), $A3::from_rotation_y(th)),
                    _ => ($M3::from_rotation_z(th), $M4::from_rotation_z(th), $Q::from_rotation_z(th), $A3::from_rotation_z(th)),
                };
                near($cx, $c, "from_rotation_axis", stringify!($M3), &exp, &f64s!(m3.to_cols_array()), tol);
                $( let mx = match ax { "X" => $M3X::from_rotation_x(th), "Y" => $M3X::from_rotation_y(th), _ => $M3X::from_rotation_z(th) };
                   near($cx, $c, "from_rotation_axis", stringify!($M3X), &exp, &f64s!(mx.to_cols_array()), tol); )*
                let m4v = f64s!(m4.to_cols_array());
                near($cx, $c, "from_rotation_axis", stringify!($M4), &exp, &m3_of4(&m4v), tol);
                near($cx, $c, "from_rotation_axis (affine part)", stringify!($M4), &[0.0, 0.0, 0.0, 0.0, 0.0, 0.0, 1.0], &rest_of4(&m4v), 0.0);
                near($cx, $c, "from_rotation_axis", stringify!($Q), &exp, &f64s!($M3::from_quat(q).to_cols_array()), tol);
                near($cx, $c, "from_rotation_axis unit", stringify!($Q), &[1.0], &[q.length() as f64], tol);
                let a3v = f64s!(a3.to_cols_array());
                near($cx, $c, "from_rotation_axis", stringify!($A3), &exp, &a3v[..9], tol);
                near($cx, $c, "from_rotation_axis translation", stringify!($A3), &[0.0, 0.0, 0.0], &a3v[9..], 0.0);
                // the same through from_axis_angle with the coordinate axis
                near($cx, $c, "from_axis_angle(coordinate axis)", stringify!($M3), &exp, &f64s!($M3::from_axis_angle(axis, th).to_cols_array()), tol);
                near($cx, $c, "from_axis_angle(coordinate axis)", stringify!($Q), &exp, &f64s!($M3::from_quat($Q::from_axis_angle(axis, th)).to_cols_array()), tol);
                // quaternion product of two half rotations = the rotation
                let h = match ax { "X" => $Q::from_rotation_x(th * 0.5), "Y" => $Q::from_rotation_y(th * 0.5), _ => $Q::from_rotation_z(th * 0.5) };
                near($cx, $c, "half * half", stringify!($Q), &exp, &f64s!($M3::from_quat(h * h).to_cols_array()), tol);
            }
            "axis_angle" => {
                let j = $c["j"].as_i64().unwrap();
                let th = (j as $S) * $PI4;
                let tol = $tol * (1.0 + j.abs() as f64);
                let exp = ringv(&$c["exp"]["m"]);
                let av = ringv(&$c["v"]);
                let axis = $V3::new(av[0] as $S, av[1] as $S, av[2] as $S).normalize();
                near($cx, $c, "from_axis_angle", stringify!($M3), &exp, &f64s!($M3::from_axis_angle(axis, th).to_cols_array()), tol);
                $( near($cx, $c, "from_axis_angle", stringify!($M3X), &exp, &f64s!($M3X::from_axis_angle(axis, th).to_cols_array()), tol); )*
                let m4v = f64s!($M4::from_axis_angle(axis, th).to_cols_array());
                near($cx, $c, "from_axis_angle", stringify!($M4), &exp, &m3_of4(&m4v), tol);
                near($cx, $c, "from_axis_angle (affine part)", stringify!($M4), &[0.0, 0.0, 0.0, 0.0, 0.0, 0.0, 1.0], &rest_of4(&m4v), 0.0);
                let q = $Q::from_axis_angle(axis, th);
                near($cx, $c, "from_axis_angle", stringify!($Q), &exp, &f64s!($M3::from_quat(q).to_cols_array()), tol);
                near($cx, $c, "from_axis_angle unit", stringify!($Q), &[1.0], &[q.length() as f64], tol);
                near($cx, $c, "from_axis_angle", stringify!($A3), &exp, &f64s!($A3::from_axis_angle(axis, th).to_cols_array())[..9], tol);
                near($cx, $c, "from_scaled_axis", stringify!($Q), &exp, &f64s!($M3::from_quat($Q::from_scaled_axis(axis * th)).to_cols_array()), tol);
                // extraction rebuilds the rotation
                let (ax2, an2) = q.to_axis_angle();
                near($cx, $c, "to_axis_angle -> from_axis_angle", stringify!($Q), &exp, &f64s!($M3::from_quat($Q::from_axis_angle(ax2, an2)).to_cols_array()), tol * 4.0);
                near($cx, $c, "to_scaled_axis -> from_scaled_axis", stringify!($Q), &exp, &f64s!($M3::from_quat($Q::from_scaled_axis(q.to_scaled_axis())).to_cols_array()), tol * 4.0);
                // the rotation acts on a vector like the matrix: q * axis = axis
                near($cx, $c, "q * axis = axis", stringify!($Q), &f64s!(axis.to_array()), &f64s!((q * axis).to_array()), tol);
            }
            "euler" => {
                let o = order_of($c["order"].as_str().unwrap());
                let (a, b, cc) = (($c["a"].as_i64().unwrap() as $S) * $PI4, ($c["b"].as_i64().unwrap() as $S) * $PI4, ($c["c"].as_i64().unwrap() as $S) * $PI4);
                let exp = ringv(&$c["exp"]["m"]);
                let tol = $tol * 4.0;
                let m3 = $M3::from_euler(o, a, b, cc);
                near($cx, $c, "from_euler", stringify!($M3), &exp, &f64s!(m3.to_cols_array()), tol);
                $( near($cx, $c, "from_euler", stringify!($M3X), &exp, &f64s!($M3X::from_euler(o, a, b, cc).to_cols_array()), tol); )*
                let m4 = $M4::from_euler(o, a, b, cc);
                let m4v = f64s!(m4.to_cols_array());
                near($cx, $c, "from_euler", stringify!($M4), &exp, &m3_of4(&m4v), tol);
                near($cx, $c, "from_euler (affine part)", stringify!($M4), &[0.0, 0.0, 0.0, 0.0, 0.0, 0.0, 1.0], &rest_of4(&m4v), 0.0);
                let q = $Q::from_euler(o, a, b, cc);
                near($cx, $c, "from_euler", stringify!($Q), &exp, &f64s!($M3::from_quat(q).to_cols_array()), tol);
                near($cx, $c, "from_euler unit", stringify!($Q), &[1.0], &[q.length() as f64], tol);
                // extraction: the returned angles rebuild the same rotation (also at gimbal lock, which is on the grid)
                let xt = tol * 16.0;
                let (x, y, z) = m3.to_euler(o);
                near($cx, $c, "to_euler -> from_euler", stringify!($M3), &exp, &f64s!($M3::from_euler(o, x, y, z).to_cols_array()), xt);
                $( let (x, y, z) = $M3X::from_euler(o, a, b, cc).to_euler(o);
                   near($cx, $c, "to_euler -> from_euler", stringify!($M3X), &exp, &f64s!($M3X::from_euler(o, x, y, z).to_cols_array()), xt); )*
                let (x, y, z) = m4.to_euler(o);
                near($cx, $c, "to_euler -> from_euler", stringify!($M4), &exp, &m3_of4(&f64s!($M4::from_euler(o, x, y, z).to_cols_array())), xt);
                let (x, y, z) = q.to_euler(o);
                near($cx, $c, "to_euler -> from_euler", stringify!($Q), &exp, &f64s!($M3::from_quat($Q::from_euler(o, x, y, z)).to_cols_array()), xt);
            }
            "angle2" => {
                let j = $c["j"].as_i64().unwrap();
                let th = (j as $S) * $PI4;
                let tol = $tol * (1.0 + j.abs() as f64);
                let exp = ringv(&$c["exp"]["m"]);
                near($cx, $c, "from_angle", stringify!($M2), &exp, &f64s!($M2::from_angle(th).to_cols_array()), tol);
                near($cx, $c, "from_angle", stringify!($V2), &exp[..2], &f64s!($V2::from_angle(th).to_array()), tol);
                let a2 = f64s!($A2::from_angle(th).to_cols_array());
                near($cx, $c, "from_angle", stringify!($A2), &exp, &a2[..4], tol);
                near($cx, $c, "from_angle translation", stringify!($A2), &[0.0, 0.0], &a2[4..], 0.0);
                let m3 = f64s!($M3::from_angle(th).to_cols_array());
                near($cx, $c, "from_angle (2d in 3x3)", stringify!($M3), &[exp[0], exp[1], 0.0, exp[2], exp[3], 0.0, 0.0, 0.0, 1.0], &m3, tol);
                // rotating X by the angle gives (cos, sin); rotating Y gives (-sin, cos)
                near($cx, $c, "rotate(X)", stringify!($V2), &exp[..2], &f64s!($V2::from_angle(th).rotate($V2::X).to_array()), tol);
                near($cx, $c, "rotate(Y)", stringify!($V2), &exp[2..], &f64s!($V2::from_angle(th).rotate($V2::Y).to_array()), tol);
                near($cx, $c, "M * Y", stringify!($M2), &exp[2..], &f64s!(($M2::from_angle(th) * $V2::Y).to_array()), tol);
                // to_angle returns the angle modulo a full turn
                let back = $V2::from_angle(th).to_angle() as f64;
                let want = (j as f64) * std::f64::consts::FRAC_PI_4;
                let d = (back - want).rem_euclid(std::f64::consts::TAU);
                let d = d.min(std::f64::consts::TAU - d);
                near($cx, $c, "to_angle (mod 2pi)", stringify!($V2), &[0.0], &[d], tol * 4.0);
                // perp is the quarter turn
                near($cx, $c, "perp", stringify!($V2), &[-exp[1], exp[0]], &f64s!($V2::from_angle(th).perp().to_array()), tol);
            }
            "euler_near" => {
                // rebuild relation at distance d from the singular middle angle: tolerance ~ eps / d
                let o = order_of($c["order"].as_str().unwrap());
                let sing = $c["exp"]["sing"].as_bool().unwrap();
                if sing {
                    let di = $c["j"].as_i64().unwrap();
                    let d = (10.0 as $S).powi(-(di as i32) - 1);     // 1e-2 .. 1e-7
                    let eps = $S::EPSILON as f64;
                    if (d as f64) > 200.0 * eps {
                        for sgn in [-1.0 as $S, 1.0] {
                            let (a, b, cc) = (($c["a"].as_i64().unwrap() as $S) * $PI4 + 0.3, ($c["b"].as_i64().unwrap() as $S) * $PI4 + sgn * d, ($c["c"].as_i64().unwrap() as $S) * $PI4 - 0.2);
                            let m = $M3::from_euler(o, a, b, cc);
                            let (x, y, z) = m.to_euler(o);
                            let back = $M3::from_euler(o, x, y, z);
                            let tol = 64.0 * eps / (d as f64) + 64.0 * eps;
                            near($cx, $c, &format!("to_euler near gimbal lock d={:e} ({tag})", d), stringify!($M3), &f64s!(m.to_cols_array()), &f64s!(back.to_cols_array()), tol);
                            let q = $Q::from_euler(o, a, b, cc);
                            let (x, y, z) = q.to_euler(o);
                            let qb = $Q::from_euler(o, x, y, z);
                            near($cx, $c, &format!("to_euler near gimbal lock d={:e} ({tag})", d), stringify!($Q), &f64s!($M3::from_quat(q).to_cols_array()), &f64s!($M3::from_quat(qb).to_cols_array()), tol);
                        }
                    }
                }
            }
            _ => {}
        }
    }};
}

fn main() {
    let args: Vec<String> = std::env::args().collect();
    quiet_panics();
    let mut rep = Report::new();
    let mut cx = Cx { rep: &mut rep, prop: std::env::var("HX_PROP").unwrap_or("C09".into()) };
    let mut n = 0u64;
    read_cases(&args[1], "CASE", |c| {
        if c["fam"] != "rot" { return; }
        n += 1;
        let kind = c["kind"].as_str().unwrap().to_string();
        cx.rep.count_op(&kind, 1);
        let trivial = (kind == "axis" || kind == "angle2") && c["j"].as_i64().unwrap() % 8 == 0;
        if !trivial { cx.rep.nontrivial += 1; }
        if cx.rep.samples.len() < 3 && n % 997 == 1 { cx.rep.samples.push(c.clone()); }
        let r = catch(|| {
            let c = &c;
            let cx = &mut cx;
            run_width!(cx, c, f32, 1e-5, core::f32::consts::FRAC_PI_4, Vec2, Vec3, Quat, Mat2, Mat3, Mat4, Affine2, Affine3A, [Mat3A]);
            run_width!(cx, c, f64, 1e-12, core::f64::consts::FRAC_PI_4, DVec2, DVec3, DQuat, DMat2, DMat3, DMat4, DAffine2, DAffine3, []);
        });
        if let Err(p) = r {
            cx.rep.mismatch(json!({"prop": cx.prop, "ty": "any", "op": kind, "what": "panic", "panic": p, "case": c}));
        }
    });
    rep.cases = n;
    rep.write(&args[2]);
    println!("rot[{}]: cases={} evals={} mismatches={}", rep.cfg, rep.cases, rep.evals, rep.mismatch_count);
}
