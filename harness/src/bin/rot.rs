//! Replay of family `rot` (C09, and the rotation cases of C05/C10): rotation constructors and
//! Euler sequences on the 45-degree grid, compared with exact ring values within a stated
//! tolerance (1e-5 for f32, 1e-12 for f64; a convention error moves an entry by >= 0.29).

use glam::*;
use hx::*;
use serde_json::{json, Value};

fn ring(v: &Value) -> f64 {
    let a = v.as_array().unwrap();
    (a[0].as_i64().unwrap() as f64 + a[1].as_i64().unwrap() as f64 * std::f64::consts::SQRT_2) / 2f64.powi(a[2].as_i64().unwrap() as i32)
}
fn ringv(v: &Value) -> Vec<f64> { v.as_array().unwrap().iter().map(ring).collect() }

fn order_of(s: &str) -> EulerRot {
    use EulerRot::*;
    match s {
        "ZYX" => ZYX, "ZXY" => ZXY, "YXZ" => YXZ, "YZX" => YZX, "XYZ" => XYZ, "XZY" => XZY,
        "ZYZ" => ZYZ, "ZXZ" => ZXZ, "YXY" => YXY, "YZY" => YZY, "XYX" => XYX, "XZX" => XZX,
        "ZYXEx" => ZYXEx, "ZXYEx" => ZXYEx, "YXZEx" => YXZEx, "YZXEx" => YZXEx, "XYZEx" => XYZEx, "XZYEx" => XZYEx,
        "ZYZEx" => ZYZEx, "ZXZEx" => ZXZEx, "YXYEx" => YXYEx, "YZYEx" => YZYEx, "XYXEx" => XYXEx, "XZXEx" => XZXEx,
        _ => panic!("order {s}"),
    }
}

struct Cx<'a> { rep: &'a mut Report, prop: String }

fn near(cx: &mut Cx, c: &Value, what: &str, ty: &str, exp: &[f64], got: &[f64], tol: f64) {
    cx.rep.evals += 1;
    let ok = exp.len() == got.len() && exp.iter().zip(got).all(|(e, g)| (e - g).abs() <= tol);
    if !ok {
        cx.rep.mismatch(json!({"prop": cx.prop, "ty": ty, "op": what, "kind": c["kind"], "order": c["order"], "ax": c["ax"], "j": c["j"],
            "a": c["a"], "b": c["b"], "c": c["c"], "exp": exp, "got": got, "tol": tol, "case": c}));
    }
}
fn m3_of4(m: &[f64]) -> Vec<f64> { [0, 1, 2, 4, 5, 6, 8, 9, 10].iter().map(|i| m[*i]).collect() }
fn rest_of4(m: &[f64]) -> Vec<f64> { [3, 7, 11, 12, 13, 14, 15].iter().map(|i| m[*i]).collect() }

macro_rules! f64s { ($e:expr) => { $e.iter().map(|x| *x as f64).collect::<Vec<f64>>() }; }

/// all checks for one scalar width
macro_rules! run_width {
    ($cx:ident, $c:ident, $S:ident, $tol:expr, $PI4:expr, $V2:ident, $V3:ident, $Q:ident, $M2:ident, $M3:ident, $M4:ident, $A2:ident, $A3:ident, [$($M3X:ident),*]) => {{
        let kind = $c["kind"].as_str().unwrap();
        let tag = stringify!($S);
        match kind {
            "axis" => {
                let j = $c["j"].as_i64().unwrap();
                let th = (j as $S) * $PI4;
                let tol = $tol * (1.0 + j.abs() as f64);
                let exp = ringv(&$c["exp"]["m"]);
                let ax = $c["ax"].as_str().unwrap();
                let axis = match ax { "X" => $V3::X, "Y" => $V3::Y, _ => $V3::Z };
                let (m3, m4, q, a3) = match ax {
                    "X" => ($M3::from_rotation_x(th), $M4::from_rotation_x(th), $Q::from_rotation_x(th), $A3::from_rotation_x(th)),
                    "Y" => ($M3::from_rotation_y(th), $M4::from_rotation_y(th), $Q::from_rotation_y(th), $A3::from_rotation_y(th)),
                    _ => ($M3::from_rotation_z(th), $M4::from_rotation_z(th), $Q::from_rotation_z(th), $A3::from_rotation_z(th)),
                };
                near($cx, $c, "from_rotation_axis", stringify!($M3), &exp, &f64s!(m3.to_cols_array()), tol);
                // the same against sine and cosine of the angle actually passed (evaluated in f64 from the exactly converted argument): a few
                // epsilon whatever the number of turns -- the grid expectation above has to allow for the rounding of j pi/4 itself
                {
                    let (sr, cr) = (th as f64).sin_cos();
                    let refm: [f64; 9] = match ax { "X" => [1.0, 0.0, 0.0, 0.0, cr, sr, 0.0, -sr, cr], "Y" => [cr, 0.0, -sr, 0.0, 1.0, 0.0, sr, 0.0, cr], _ => [cr, sr, 0.0, -sr, cr, 0.0, 0.0, 0.0, 1.0] };
                    let rt = 4.0 * (<$S>::EPSILON as f64);
                    near($cx, $c, "from_rotation_axis = (cos, sin) of the given angle", stringify!($M3), &refm, &f64s!(m3.to_cols_array()), rt);
                    near($cx, $c, "from_rotation_axis = (cos, sin) of the given angle", stringify!($M4), &refm, &m3_of4(&f64s!(m4.to_cols_array())), rt);
                    near($cx, $c, "from_rotation_axis = (cos, sin) of the given angle", stringify!($A3), &refm, &f64s!(a3.to_cols_array())[..9], rt);
                    near($cx, $c, "from_rotation_axis = (cos, sin) of the given angle", stringify!($Q), &refm, &f64s!($M3::from_quat(q).to_cols_array()), 4.0 * rt);
                    near($cx, $c, "from_axis_angle = (cos, sin) of the given angle", stringify!($M3), &refm, &f64s!($M3::from_axis_angle(axis, th).to_cols_array()), 2.0 * rt);
                    near($cx, $c, "from_axis_angle = (cos, sin) of the given angle", stringify!($Q), &refm, &f64s!($M3::from_quat($Q::from_axis_angle(axis, th)).to_cols_array()), 4.0 * rt);
                }
                $( let mx = match ax { "X" => $M3X::from_rotation_x(th), "Y" => $M3X::from_rotation_y(th), _ => $M3X::from_rotation_z(th) };
                   near($cx, $c, "from_rotation_axis", stringify!($M3X), &exp, &f64s!(mx.to_cols_array()), tol); )*
                let m4v = f64s!(m4.to_cols_array());
                near($cx, $c, "from_rotation_axis", stringify!($M4), &exp, &m3_of4(&m4v), tol);
                near($cx, $c, "from_rotation_axis (affine part)", stringify!($M4), &[0.0, 0.0, 0.0, 0.0, 0.0, 0.0, 1.0], &rest_of4(&m4v), 0.0);
                near($cx, $c, "from_rotation_axis", stringify!($Q), &exp, &f64s!($M3::from_quat(q).to_cols_array()), tol);
                near($cx, $c, "from_rotation_axis unit", stringify!($Q), &[1.0], &[q.length() as f64], tol);
                let a3v = f64s!(a3.to_cols_array());
                near($cx, $c, "from_rotation_axis", stringify!($A3), &exp, &a3v[..9], tol);
                near($cx, $c, "from_rotation_axis translation", stringify!($A3), &[0.0, 0.0, 0.0], &a3v[9..], 0.0);
                // the same through from_axis_angle with the coordinate axis
                near($cx, $c, "from_axis_angle(coordinate axis)", stringify!($M3), &exp, &f64s!($M3::from_axis_angle(axis, th).to_cols_array()), tol);
                $( near($cx, $c, "from_axis_angle(coordinate axis)", stringify!($M3X), &exp, &f64s!($M3X::from_axis_angle(axis, th).to_cols_array()), tol); )*
                near($cx, $c, "from_axis_angle(coordinate axis)", stringify!($Q), &exp, &f64s!($M3::from_quat($Q::from_axis_angle(axis, th)).to_cols_array()), tol);
                // quaternion product of two half rotations = the rotation
                let h = match ax { "X" => $Q::from_rotation_x(th * 0.5), "Y" => $Q::from_rotation_y(th * 0.5), _ => $Q::from_rotation_z(th * 0.5) };
                near($cx, $c, "half * half", stringify!($Q), &exp, &f64s!($M3::from_quat(h * h).to_cols_array()), tol);
            }
            "axis_angle" => {
                let j = $c["j"].as_i64().unwrap();
                let th = (j as $S) * $PI4;
                let tol = $tol * (1.0 + j.abs() as f64);
                let exp = ringv(&$c["exp"]["m"]);
                let av = ringv(&$c["v"]);
                let axis = $V3::new(av[0] as $S, av[1] as $S, av[2] as $S).normalize();
                near($cx, $c, "from_axis_angle", stringify!($M3), &exp, &f64s!($M3::from_axis_angle(axis, th).to_cols_array()), tol);
                // the same against the Rodrigues formula evaluated in f64 from the axis and the angle actually passed: a few epsilon whatever
                // the number of turns (an angle re-derived from |axis * angle| is off by an ulp of the ANGLE, 1e-5 rad at 150 rad)
                {
                    let a = f64s!(axis.to_array());
                    let (sr, cr) = (th as f64).sin_cos();
                    let k = 1.0 - cr;
                    let refm = [cr + k * a[0] * a[0], k * a[0] * a[1] + sr * a[2], k * a[0] * a[2] - sr * a[1],
                                k * a[0] * a[1] - sr * a[2], cr + k * a[1] * a[1], k * a[1] * a[2] + sr * a[0],
                                k * a[0] * a[2] + sr * a[1], k * a[1] * a[2] - sr * a[0], cr + k * a[2] * a[2]];
                    let rt = 8.0 * (<$S>::EPSILON as f64);
                    near($cx, $c, "from_axis_angle = Rodrigues of the given axis and angle", stringify!($M3), &refm, &f64s!($M3::from_axis_angle(axis, th).to_cols_array()), rt);
                    near($cx, $c, "from_axis_angle = Rodrigues of the given axis and angle", stringify!($M4), &refm, &m3_of4(&f64s!($M4::from_axis_angle(axis, th).to_cols_array())), rt);
                    near($cx, $c, "from_axis_angle = Rodrigues of the given axis and angle", stringify!($A3), &refm, &f64s!($A3::from_axis_angle(axis, th).to_cols_array())[..9], rt);
                    near($cx, $c, "from_axis_angle = Rodrigues of the given axis and angle", stringify!($Q), &refm, &f64s!($M3::from_quat($Q::from_axis_angle(axis, th)).to_cols_array()), 2.0 * rt);
                    $( near($cx, $c, "from_axis_angle = Rodrigues of the given axis and angle", stringify!($M3X), &refm, &f64s!($M3X::from_axis_angle(axis, th).to_cols_array()), rt); )*
                }
                $( near($cx, $c, "from_axis_angle", stringify!($M3X), &exp, &f64s!($M3X::from_axis_angle(axis, th).to_cols_array()), tol); )*
                $( near($cx, $c, "from_axis_angle", stringify!($M3X), &exp, &f64s!($M3X::from_axis_angle(axis, th).to_cols_array()), tol); )*
                let m4v = f64s!($M4::from_axis_angle(axis, th).to_cols_array());
                near($cx, $c, "from_axis_angle", stringify!($M4), &exp, &m3_of4(&m4v), tol);
                near($cx, $c, "from_axis_angle (affine part)", stringify!($M4), &[0.0, 0.0, 0.0, 0.0, 0.0, 0.0, 1.0], &rest_of4(&m4v), 0.0);
                let q = $Q::from_axis_angle(axis, th);
                near($cx, $c, "from_axis_angle", stringify!($Q), &exp, &f64s!($M3::from_quat(q).to_cols_array()), tol);
                near($cx, $c, "from_axis_angle unit", stringify!($Q), &[1.0], &[q.length() as f64], tol);
                near($cx, $c, "from_axis_angle", stringify!($A3), &exp, &f64s!($A3::from_axis_angle(axis, th).to_cols_array())[..9], tol);
                near($cx, $c, "from_scaled_axis", stringify!($Q), &exp, &f64s!($M3::from_quat($Q::from_scaled_axis(axis * th)).to_cols_array()), tol);
                // extraction rebuilds the rotation
                let (ax2, an2) = q.to_axis_angle();
                near($cx, $c, "to_axis_angle -> from_axis_angle", stringify!($Q), &exp, &f64s!($M3::from_quat($Q::from_axis_angle(ax2, an2)).to_cols_array()), tol * 4.0);
                near($cx, $c, "to_scaled_axis -> from_scaled_axis", stringify!($Q), &exp, &f64s!($M3::from_quat($Q::from_scaled_axis(q.to_scaled_axis())).to_cols_array()), tol * 4.0);
                // the rotation acts on a vector like the matrix: q * axis = axis
                near($cx, $c, "q * axis = axis", stringify!($Q), &f64s!(axis.to_array()), &f64s!((q * axis).to_array()), tol);
            }
            "euler" => {
                let o = order_of($c["order"].as_str().unwrap());
                let (a, b, cc) = (($c["a"].as_i64().unwrap() as $S) * $PI4, ($c["b"].as_i64().unwrap() as $S) * $PI4, ($c["c"].as_i64().unwrap() as $S) * $PI4);
                let exp = ringv(&$c["exp"]["m"]);
                let tol = $tol * 4.0;
                let m3 = $M3::from_euler(o, a, b, cc);
                near($cx, $c, "from_euler", stringify!($M3), &exp, &f64s!(m3.to_cols_array()), tol);
                $( near($cx, $c, "from_euler", stringify!($M3X), &exp, &f64s!($M3X::from_euler(o, a, b, cc).to_cols_array()), tol); )*
                let m4 = $M4::from_euler(o, a, b, cc);
                let m4v = f64s!(m4.to_cols_array());
                near($cx, $c, "from_euler", stringify!($M4), &exp, &m3_of4(&m4v), tol);
                near($cx, $c, "from_euler (affine part)", stringify!($M4), &[0.0, 0.0, 0.0, 0.0, 0.0, 0.0, 1.0], &rest_of4(&m4v), 0.0);
                let q = $Q::from_euler(o, a, b, cc);
                near($cx, $c, "from_euler", stringify!($Q), &exp, &f64s!($M3::from_quat(q).to_cols_array()), tol);
                near($cx, $c, "from_euler unit", stringify!($Q), &[1.0], &[q.length() as f64], tol);
                // extraction: the returned angles rebuild the same rotation (also at gimbal lock, which is on the grid)
                let xt = tol * 16.0;
                let (x, y, z) = m3.to_euler(o);
                near($cx, $c, "to_euler -> from_euler", stringify!($M3), &exp, &f64s!($M3::from_euler(o, x, y, z).to_cols_array()), xt);
                $( let (x, y, z) = $M3X::from_euler(o, a, b, cc).to_euler(o);
                   near($cx, $c, "to_euler -> from_euler", stringify!($M3X), &exp, &f64s!($M3X::from_euler(o, x, y, z).to_cols_array()), xt); )*
                let (x, y, z) = m4.to_euler(o);
                near($cx, $c, "to_euler -> from_euler", stringify!($M4), &exp, &m3_of4(&f64s!($M4::from_euler(o, x, y, z).to_cols_array())), xt);
                let (x, y, z) = q.to_euler(o);
                near($cx, $c, "to_euler -> from_euler", stringify!($Q), &exp, &f64s!($M3::from_quat($Q::from_euler(o, x, y, z)).to_cols_array()), xt);
            }
            "angle2" => {
                let j = $c["j"].as_i64().unwrap();
                let th = (j as $S) * $PI4;
                let tol = $tol * (1.0 + j.abs() as f64);
                let exp = ringv(&$c["exp"]["m"]);
                near($cx, $c, "from_angle", stringify!($M2), &exp, &f64s!($M2::from_angle(th).to_cols_array()), tol);
                {
                    let (sr, cr) = (th as f64).sin_cos();
                    let refm = [cr, sr, -sr, cr];
                    let rt = 4.0 * (<$S>::EPSILON as f64);
                    near($cx, $c, "from_angle = (cos, sin) of the given angle", stringify!($M2), &refm, &f64s!($M2::from_angle(th).to_cols_array()), rt);
                    near($cx, $c, "from_angle = (cos, sin) of the given angle", stringify!($V2), &refm[..2], &f64s!($V2::from_angle(th).to_array()), rt);
                    near($cx, $c, "from_angle = (cos, sin) of the given angle", stringify!($A2), &refm, &f64s!($A2::from_angle(th).to_cols_array())[..4], rt);
                    let m3r = f64s!($M3::from_angle(th).to_cols_array());
                    near($cx, $c, "from_angle = (cos, sin) of the given angle", stringify!($M3), &refm, &[m3r[0], m3r[1], m3r[3], m3r[4]], rt);
                    $( let m3x = f64s!($M3X::from_angle(th).to_cols_array());
                       near($cx, $c, "from_angle = (cos, sin) of the given angle", stringify!($M3X), &refm, &[m3x[0], m3x[1], m3x[3], m3x[4]], rt); )*
                }
                near($cx, $c, "from_angle", stringify!($V2), &exp[..2], &f64s!($V2::from_angle(th).to_array()), tol);
                let a2 = f64s!($A2::from_angle(th).to_cols_array());
                near($cx, $c, "from_angle", stringify!($A2), &exp, &a2[..4], tol);
                near($cx, $c, "from_angle translation", stringify!($A2), &[0.0, 0.0], &a2[4..], 0.0);
                let m3 = f64s!($M3::from_angle(th).to_cols_array());
                near($cx, $c, "from_angle (2d in 3x3)", stringify!($M3), &[exp[0], exp[1], 0.0, exp[2], exp[3], 0.0, 0.0, 0.0, 1.0], &m3, tol);
                $( near($cx, $c, "from_angle (2d in 3x3)", stringify!($M3X), &[exp[0], exp[1], 0.0, exp[2], exp[3], 0.0, 0.0, 0.0, 1.0], &f64s!($M3X::from_angle(th).to_cols_array()), tol); )*
                // rotating X by the angle gives (cos, sin); rotating Y gives (-sin, cos)
                near($cx, $c, "rotate(X)", stringify!($V2), &exp[..2], &f64s!($V2::from_angle(th).rotate($V2::X).to_array()), tol);
                near($cx, $c, "rotate(Y)", stringify!($V2), &exp[2..], &f64s!($V2::from_angle(th).rotate($V2::Y).to_array()), tol);
                near($cx, $c, "M * Y", stringify!($M2), &exp[2..], &f64s!(($M2::from_angle(th) * $V2::Y).to_array()), tol);
                // to_angle returns the angle modulo a full turn
                let back = $V2::from_angle(th).to_angle() as f64;
                let want = (j as f64) * std::f64::consts::FRAC_PI_4;
                let d = (back - want).rem_euclid(std::f64::consts::TAU);
                let d = d.min(std::f64::consts::TAU - d);
                near($cx, $c, "to_angle (mod 2pi)", stringify!($V2), &[0.0], &[d], tol * 4.0);
                // perp is the quarter turn
                near($cx, $c, "perp", stringify!($V2), &[-exp[1], exp[0]], &f64s!($V2::from_angle(th).perp().to_array()), tol);
            }
            "euler_near" => {
                // rebuild relation at distance d from the singular middle angle: tolerance ~ eps / d
                let o = order_of($c["order"].as_str().unwrap());
                let sing = $c["exp"]["sing"].as_bool().unwrap();
                if sing {
                    let di = $c["j"].as_i64().unwrap();
                    let d = (10.0 as $S).powi(-(di as i32) - 1);     // 1e-2 .. 1e-7
                    let eps = $S::EPSILON as f64;
                    if (d as f64) > 200.0 * eps {
                        for sgn in [-1.0 as $S, 1.0] {
                            let (a, b, cc) = (($c["a"].as_i64().unwrap() as $S) * $PI4 + 0.3, ($c["b"].as_i64().unwrap() as $S) * $PI4 + sgn * d, ($c["c"].as_i64().unwrap() as $S) * $PI4 - 0.2);
                            let m = $M3::from_euler(o, a, b, cc);
                            let (x, y, z) = m.to_euler(o);
                            let back = $M3::from_euler(o, x, y, z);
                            let tol = 64.0 * eps / (d as f64) + 64.0 * eps;
                            near($cx, $c, &format!("to_euler near gimbal lock d={:e} ({tag})", d), stringify!($M3), &f64s!(m.to_cols_array()), &f64s!(back.to_cols_array()), tol);
                            let q = $Q::from_euler(o, a, b, cc);
                            let (x, y, z) = q.to_euler(o);
                            let qb = $Q::from_euler(o, x, y, z);
                            near($cx, $c, &format!("to_euler near gimbal lock d={:e} ({tag})", d), stringify!($Q), &f64s!($M3::from_quat(q).to_cols_array()), &f64s!($M3::from_quat(qb).to_cols_array()), tol);
                        }
                    }
                }
            }
            _ => {}
        }
    }};
}

// ------------------------------------------------------------------ scale-rotation-translation (C10)
macro_rules! run_srt {
    ($cx:ident, $c:ident, $S:ident, $tol:expr, $PI4:expr, $V2:ident, $V3:ident, $Q:ident, $M2:ident, $M3:ident, $M4:ident, $A2:ident, $A3:ident, [$($M3X:ident),*]) => {{
        let e = &$c["exp"];
        let lin = ringv(&e["lin"]);
        let sc = ringv(&e["scale"]);
        // `huge`: the translation times 2^121 (f32) / 2^1017 (f64) -- still finite, far beyond the linear part
        let hscale: f64 = if $c["huge"].as_i64().unwrap_or(0) == 1 { if core::mem::size_of::<$S>() == 4 { 2f64.powi(121) } else { 2f64.powi(1017) } } else { 1.0 };
        let tr: Vec<f64> = ringv(&e["t"]).iter().map(|x| x * hscale).collect();
        let smax = sc.iter().fold(1.0f64, |a, b| a.max(b.abs()));
        let tol = $tol * 4.0 * smax;
        if $c["kind"] == "srt3" {
            let sd: Vec<$S> = $c["seed"].as_array().unwrap().iter().map(|x| x.as_i64().unwrap() as $S * $PI4).collect();
            if $c["dk"].as_i64().unwrap_or(0) > 0 {
                // off the grid: angles shifted by (0.3, -0.2, 0.45) rad and scales times (0.7, 1.3, 1.1) -- no products or quotients are exact any
                // more.  No ring expectation exists there; the constructors must agree with each other and the decomposition must rebuild the
                // transform, column by column relative to the column's own scale, to 64 epsilon
                let eps = <$S>::EPSILON as f64;
                // 24 rotations per case: the grid seed shifted by (0.3, -0.2, 0.45) + k (0.37, 0.61, 0.23) rad -- a sign rule that goes wrong for a
                // few percent of the rotations (a mistyped cofactor) needs more than one sample per scale pattern
                for kq in 0..24 {
                let kf = kq as $S;
                let q = $Q::from_euler(EulerRot::XYZ, sd[0] + 0.3 + 0.37 * kf, sd[1] - 0.2 + 0.61 * kf, sd[2] + 0.45 + 0.23 * kf);
                let so = [((sc[0] * 0.7) as $S) as f64, ((sc[1] * 1.3) as $S) as f64, ((sc[2] * 1.1) as $S) as f64];
                let s = $V3::new(so[0] as $S, so[1] as $S, so[2] as $S);
                let t = $V3::new(tr[0] as $S, tr[1] as $S, tr[2] as $S);
                let m4 = $M4::from_scale_rotation_translation(s, q, t);
                let a3 = $A3::from_scale_rotation_translation(s, q, t);
                let prod = $M4::from_translation(t) * $M4::from_quat(q) * $M4::from_scale(s);
                let aprod = $A3::from_translation(t) * $A3::from_quat(q) * $A3::from_scale(s);
                let m4l = m3_of4(&f64s!(m4.to_cols_array()));
                let relcols = |v: &[f64]| -> Vec<f64> { (0..9).map(|k| v[k] / so[k / 3].abs()).collect() };
                near($cx, $c, "from_scale_rotation_translation (off-grid): Affine3 = Mat4", stringify!($A3), &relcols(&m4l), &relcols(&f64s!(a3.to_cols_array())[..9]), 8.0 * eps);
                near($cx, $c, "from_translation * from_quat * from_scale (off-grid)", stringify!($M4), &relcols(&m4l), &relcols(&m3_of4(&f64s!(prod.to_cols_array()))), 8.0 * eps);
                near($cx, $c, "from_translation * from_quat * from_scale (off-grid)", stringify!($A3), &relcols(&m4l), &relcols(&f64s!(aprod.to_cols_array())[..9]), 8.0 * eps);
                let neg = so.iter().filter(|x| **x < 0.0).count() % 2 == 1;
                let ds = [if neg { -so[0].abs() } else { so[0].abs() }, so[1].abs(), so[2].abs()];
                for (who, (s2, r2, t2)) in [(stringify!($M4), m4.to_scale_rotation_translation()), (stringify!($A3), a3.to_scale_rotation_translation())] {
                    near($cx, $c, "to_scale_rotation_translation: translation", who, &tr, &f64s!(t2.to_array()), 0.0);
                    near($cx, $c, "to_scale_rotation_translation: unit rotation (off-grid)", who, &[1.0], &[r2.length() as f64], 16.0 * eps);
                    let s2v = f64s!(s2.to_array());
                    near($cx, $c, "to_scale_rotation_translation: scale relative (off-grid)", who, &[1.0, 1.0, 1.0], &[s2v[0] / ds[0], s2v[1] / ds[1], s2v[2] / ds[2]], 16.0 * eps);
                    let back = m3_of4(&f64s!($M4::from_scale_rotation_translation(s2, r2, t2).to_cols_array()));
                    near($cx, $c, "to_scale_rotation_translation -> recompose (off-grid, per column relative)", who, &relcols(&m4l), &relcols(&back), 64.0 * eps);
                }
                }
            } else {
            let q = $Q::from_euler(EulerRot::XYZ, sd[0], sd[1], sd[2]);
            let s = $V3::new(sc[0] as $S, sc[1] as $S, sc[2] as $S);
            let t = $V3::new(tr[0] as $S, tr[1] as $S, tr[2] as $S);
            let rot = ringv(&e["rot"]);
            let m4 = $M4::from_scale_rotation_translation(s, q, t);
            let m4v = f64s!(m4.to_cols_array());
            near($cx, $c, "from_scale_rotation_translation linear", stringify!($M4), &lin, &m3_of4(&m4v), tol);
            near($cx, $c, "from_scale_rotation_translation last row/column", stringify!($M4), &[0.0, 0.0, 0.0, tr[0], tr[1], tr[2], 1.0], &rest_of4(&m4v), 0.0);
            let a3 = $A3::from_scale_rotation_translation(s, q, t);
            let a3v = f64s!(a3.to_cols_array());
            near($cx, $c, "from_scale_rotation_translation linear", stringify!($A3), &lin, &a3v[..9], tol);
            near($cx, $c, "from_scale_rotation_translation translation", stringify!($A3), &tr, &a3v[9..], 0.0);
            // the determinant of the composed transform is the product of the scales (whatever the translation)
            let sprod = sc[0] * sc[1] * sc[2];
            // (the 4x4 cofactor expansion multiplies the translation into its minors and overflows for the huge translations: that
            // is the arithmetic of determinant(), not part of this property, so those cases take the determinant of the linear part)
            let d4 = if $c["huge"] == 1 { m4.x_axis.truncate().dot(m4.y_axis.truncate().cross(m4.z_axis.truncate())) } else { m4.determinant() };
            near($cx, $c, "determinant = product of the scales (relative)", stringify!($M4), &[1.0], &[d4 as f64 / sprod], $tol * 64.0);
            near($cx, $c, "determinant = product of the scales (relative)", stringify!($A3), &[1.0], &[a3.matrix3.determinant() as f64 / sprod], $tol * 64.0);
            // the documented product of the elementary constructors: translation * rotation * scale
            let prod = $M4::from_translation(t) * $M4::from_quat(q) * $M4::from_scale(s);
            let pv = f64s!(prod.to_cols_array());
            near($cx, $c, "from_translation * from_quat * from_scale", stringify!($M4), &lin, &m3_of4(&pv), tol);
            near($cx, $c, "from_translation * from_quat * from_scale (last row/column)", stringify!($M4), &[0.0, 0.0, 0.0, tr[0], tr[1], tr[2], 1.0], &rest_of4(&pv), 0.0);
            let aprod = $A3::from_translation(t) * $A3::from_quat(q) * $A3::from_scale(s);
            near($cx, $c, "from_translation * from_quat * from_scale", stringify!($A3), &lin, &f64s!(aprod.to_cols_array())[..9], tol);
            // rotation + translation only
            let rt = f64s!($M4::from_rotation_translation(q, t).to_cols_array());
            near($cx, $c, "from_rotation_translation", stringify!($M4), &rot, &m3_of4(&rt), $tol * 4.0);
            near($cx, $c, "from_rotation_translation (last row/column)", stringify!($M4), &[0.0, 0.0, 0.0, tr[0], tr[1], tr[2], 1.0], &rest_of4(&rt), 0.0);
            let art = f64s!($A3::from_rotation_translation(q, t).to_cols_array());
            near($cx, $c, "from_rotation_translation", stringify!($A3), &rot, &art[..9], $tol * 4.0);
            near($cx, $c, "from_rotation_translation translation", stringify!($A3), &tr, &art[9..], 0.0);
            let mt = f64s!($M4::from_mat3_translation($M3::from_quat(q), t).to_cols_array());
            near($cx, $c, "from_mat3_translation", stringify!($M4), &rot, &m3_of4(&mt), $tol * 4.0);
            near($cx, $c, "from_mat3_translation (last row/column)", stringify!($M4), &[0.0, 0.0, 0.0, tr[0], tr[1], tr[2], 1.0], &rest_of4(&mt), 0.0);
            let amt = f64s!($A3::from_mat3_translation($M3::from_quat(q), t).to_cols_array());
            near($cx, $c, "from_mat3_translation", stringify!($A3), &rot, &amt[..9], $tol * 4.0);
            // decomposition: translation exact, rotation unit, documented sign rule, recomposition reproduces the transform
            let detneg = e["detneg"].as_bool().unwrap();
            let ds = ringv(&e["dscale"]);
            for (who, (s2, r2, t2)) in [(stringify!($M4), m4.to_scale_rotation_translation()), (stringify!($A3), a3.to_scale_rotation_translation())] {
                near($cx, $c, "to_scale_rotation_translation: translation", who, &tr, &f64s!(t2.to_array()), 0.0);
                near($cx, $c, "to_scale_rotation_translation: unit rotation", who, &[1.0], &[r2.length() as f64], $tol * 4.0);
                near($cx, $c, &format!("to_scale_rotation_translation: scale (negative x iff det < 0; det<0: {detneg})"), who, &ds, &f64s!(s2.to_array()), tol);
                let back = f64s!($M4::from_scale_rotation_translation(s2, r2, t2).to_cols_array());
                near($cx, $c, "to_scale_rotation_translation -> recompose", who, &lin, &m3_of4(&back), tol * 4.0);
                // each scale and each recomposed column relative to its OWN magnitude (axes 2^-10 and 2^10 may be mixed)
                let s2v = f64s!(s2.to_array());
                let b3 = m3_of4(&back);
                for i in 0..3 {
                    near($cx, $c, &format!("to_scale_rotation_translation: scale[{i}] relative"), who, &[1.0], &[s2v[i] / ds[i]], $tol * 16.0);
                    let colexp: Vec<f64> = lin[3 * i..3 * i + 3].iter().map(|x| x / ds[i].abs()).collect();
                    let colgot: Vec<f64> = b3[3 * i..3 * i + 3].iter().map(|x| x / ds[i].abs()).collect();
                    near($cx, $c, &format!("to_scale_rotation_translation -> recompose column {i} relative"), who, &colexp, &colgot, $tol * 64.0);
                }
            }
            }
        } else {
            let j = $c["j"].as_i64().unwrap();
            let dk = $c["dk"].as_i64().unwrap_or(0) as i32;
            let th = (j as $S) * $PI4 + if dk > 0 { (2.0 as $S).powi(-dk) } else { 0.0 };
            // off the grid the scales leave the powers of two as well (x 0.7, x 1.3): quotients by them are no longer exact
            let sc: Vec<f64> = if dk > 0 { vec![((sc[0] * 0.7) as $S) as f64, ((sc[1] * 1.3) as $S) as f64] } else { sc };
            let s = $V2::new(sc[0] as $S, sc[1] as $S);
            let t = $V2::new(tr[0] as $S, tr[1] as $S);
            let a2 = $A2::from_scale_angle_translation(s, th, t);
            if dk > 0 {
                // just off the grid: no exact expectation, the round trip decides (to a few epsilon of the largest scale: the angle comes
                // from atan2 of two entries with a relative error of a few epsilon each, so it is accurate to a few epsilon absolutely)
                let a2v = f64s!(a2.to_cols_array());
                let (s2, an2, t2) = a2.to_scale_angle_translation();
                let rt = 16.0 * (<$S>::EPSILON as f64) * smax;
                near($cx, $c, "to_scale_angle_translation: translation", stringify!($A2), &tr, &f64s!(t2.to_array()), 0.0);
                let neg = (sc[0] < 0.0) != (sc[1] < 0.0);
                near($cx, $c, "to_scale_angle_translation: scale (off-grid angle)", stringify!($A2), &[if neg { -sc[0].abs() } else { sc[0].abs() }, sc[1].abs()], &f64s!(s2.to_array()), rt);
                let back = f64s!($A2::from_scale_angle_translation(s2, an2, t2).to_cols_array());
                near($cx, $c, "to_scale_angle_translation -> recompose (off-grid angle)", stringify!($A2), &a2v[..4], &back[..4], rt);
                // and the constructors agree with each other there
                near($cx, $c, "from_scale_angle_translation (off-grid angle)", stringify!($M3), &[a2v[0], a2v[1], 0.0, a2v[2], a2v[3], 0.0, tr[0], tr[1], 1.0], &f64s!($M3::from_scale_angle_translation(s, th, t).to_cols_array()), rt);
                near($cx, $c, "from_scale_angle (off-grid angle)", stringify!($M2), &a2v[..4], &f64s!($M2::from_scale_angle(s, th).to_cols_array()), rt);
            } else {
            let a2v = f64s!(a2.to_cols_array());
            near($cx, $c, "from_scale_angle_translation linear", stringify!($A2), &lin, &a2v[..4], tol);
            near($cx, $c, "from_scale_angle_translation translation", stringify!($A2), &tr, &a2v[4..], 0.0);
            let want3 = [lin[0], lin[1], 0.0, lin[2], lin[3], 0.0, tr[0], tr[1], 1.0];
            near($cx, $c, "from_scale_angle_translation", stringify!($M3), &want3, &f64s!($M3::from_scale_angle_translation(s, th, t).to_cols_array()), tol);
            $( near($cx, $c, "from_scale_angle_translation", stringify!($M3X), &want3, &f64s!($M3X::from_scale_angle_translation(s, th, t).to_cols_array()), tol); )*
            near($cx, $c, "from_scale_angle", stringify!($M2), &lin, &f64s!($M2::from_scale_angle(s, th).to_cols_array()), tol);
            let prod = $A2::from_translation(t) * $A2::from_angle(th) * $A2::from_scale(s);
            near($cx, $c, "from_translation * from_angle * from_scale", stringify!($A2), &lin, &f64s!(prod.to_cols_array())[..4], tol);
            let mp = $M3::from_translation(t) * $M3::from_angle(th) * $M3::from_scale(s);
            near($cx, $c, "from_translation * from_angle * from_scale", stringify!($M3), &want3, &f64s!(mp.to_cols_array()), tol);
            $( let mpx = $M3X::from_translation(t) * $M3X::from_angle(th) * $M3X::from_scale(s);
               near($cx, $c, "from_translation * from_angle * from_scale", stringify!($M3X), &want3, &f64s!(mpx.to_cols_array()), tol); )*
            let rot = ringv(&e["rot"]);
            let at = f64s!($A2::from_angle_translation(th, t).to_cols_array());
            near($cx, $c, "from_angle_translation", stringify!($A2), &rot, &at[..4], $tol * 4.0);
            near($cx, $c, "from_angle_translation translation", stringify!($A2), &tr, &at[4..], 0.0);
            let amt = f64s!($A2::from_mat2_translation($M2::from_scale_angle(s, th), t).to_cols_array());
            near($cx, $c, "from_mat2_translation", stringify!($A2), &lin, &amt[..4], tol);
            near($cx, $c, "from_mat2_translation translation", stringify!($A2), &tr, &amt[4..], 0.0);
            let (s2, an2, t2) = a2.to_scale_angle_translation();
            near($cx, $c, "to_scale_angle_translation: translation", stringify!($A2), &tr, &f64s!(t2.to_array()), 0.0);
            let back = f64s!($A2::from_scale_angle_translation(s2, an2, t2).to_cols_array());
            near($cx, $c, "to_scale_angle_translation -> recompose", stringify!($A2), &lin, &back[..4], tol * 4.0);
            }
        }
    }};
}

// ------------------------------------------------------------------ views and projections (C11)
macro_rules! run_cam {
    ($cx:ident, $c:ident, $S:ident, $tol:expr, $V3:ident, $V4:ident, $Q:ident, $M3:ident, $M4:ident, $A3:ident, [$($M3X:ident),*]) => {{
        let kind = $c["kind"].as_str().unwrap();
        if kind == "view" {
            let eye: Vec<f64> = $c["eye"].as_array().unwrap().iter().map(|x| x.as_i64().unwrap() as f64).collect();
            let dirv = ringv(&$c["dir"]);
            let upv = ringv(&$c["up"]);
            let lin = ringv(&$c["lin"]);
            let tr = ringv(&$c["t"]);
            let e = $V3::new(eye[0] as $S, eye[1] as $S, eye[2] as $S);
            let d = $V3::new(dirv[0] as $S, dirv[1] as $S, dirv[2] as $S).normalize();
            let u = $V3::new(upv[0] as $S, upv[1] as $S, upv[2] as $S);
            let center = e + d * 3.0;
            let rh = $c["hand"] == "rh";
            let tol = $tol * 2.0 * (1.0 + eye.iter().fold(0.0f64, |a, b| a.max(b.abs())));
            let want_rest = [0.0, 0.0, 0.0, tr[0], tr[1], tr[2], 1.0];
            let ms = [("look_to", if rh { $M4::look_to_rh(e, d, u) } else { $M4::look_to_lh(e, d, u) }),
                      ("look_at", if rh { $M4::look_at_rh(e, center, u) } else { $M4::look_at_lh(e, center, u) })];
            for (w, m) in ms {
                let v = f64s!(m.to_cols_array());
                near($cx, $c, &format!("{w} rotation part"), stringify!($M4), &lin, &m3_of4(&v), tol);
                near($cx, $c, &format!("{w} translation / last row"), stringify!($M4), &want_rest, &rest_of4(&v), tol);
                // the eye goes to the origin; the view direction to -Z (rh) / +Z (lh)
                near($cx, $c, &format!("{w}: eye -> origin"), stringify!($M4), &[0.0, 0.0, 0.0], &f64s!(m.transform_point3(e).to_array()), tol);
                near($cx, $c, &format!("{w}: dir -> -+Z"), stringify!($M4), &[0.0, 0.0, if rh { -1.0 } else { 1.0 }], &f64s!(m.transform_vector3(d).to_array()), tol);
            }
            let aa = [("look_to", if rh { $A3::look_to_rh(e, d, u) } else { $A3::look_to_lh(e, d, u) }),
                      ("look_at", if rh { $A3::look_at_rh(e, center, u) } else { $A3::look_at_lh(e, center, u) })];
            for (w, a) in aa {
                let v = f64s!(a.to_cols_array());
                near($cx, $c, &format!("{w} rotation part"), stringify!($A3), &lin, &v[..9], tol);
                near($cx, $c, &format!("{w} translation"), stringify!($A3), &tr, &v[9..], tol);
                near($cx, $c, &format!("{w}: eye -> origin"), stringify!($A3), &[0.0, 0.0, 0.0], &f64s!(a.transform_point3(e).to_array()), tol);
            }
            let qs = [("look_to", if rh { $Q::look_to_rh(d, u) } else { $Q::look_to_lh(d, u) }),
                      ("look_at", if rh { $Q::look_at_rh(e, center, u) } else { $Q::look_at_lh(e, center, u) })];
            for (w, q) in qs {
                near($cx, $c, &format!("{w} rotation"), stringify!($Q), &lin, &f64s!($M3::from_quat(q).to_cols_array()), tol);
                near($cx, $c, &format!("{w} unit"), stringify!($Q), &[1.0], &[q.length() as f64], tol);
            }
            let m3 = if rh { $M3::look_to_rh(d, u) } else { $M3::look_to_lh(d, u) };
            near($cx, $c, "look_to", stringify!($M3), &lin, &f64s!(m3.to_cols_array()), tol);
            let m3b = if rh { $M3::look_at_rh(e, center, u) } else { $M3::look_at_lh(e, center, u) };
            near($cx, $c, "look_at", stringify!($M3), &lin, &f64s!(m3b.to_cols_array()), tol);
            $( let mxb = if rh { $M3X::look_at_rh(e, center, u) } else { $M3X::look_at_lh(e, center, u) };
               near($cx, $c, "look_at", stringify!($M3X), &lin, &f64s!(mxb.to_cols_array()), tol); )*
            $( let mx = if rh { $M3X::look_to_rh(d, u) } else { $M3X::look_to_lh(d, u) };
               near($cx, $c, "look_to", stringify!($M3X), &lin, &f64s!(mx.to_cols_array()), tol); )*
        } else {
            let name = $c["name"].as_str().unwrap();
            let n = ring(&$c["near"]) as $S;
            let f = ring(&$c["far"]) as $S;
            let m: $M4 = if kind == "persp" {
                let pa = $c["params"].as_array().unwrap();
                let t = (2.0 as $S).powi(pa[0].as_i64().unwrap() as i32);
                let fov = 2.0 * t.atan();
                let a = (2.0 as $S).powi(pa[1].as_i64().unwrap() as i32);
                match name {
                    "perspective_rh_gl" => $M4::perspective_rh_gl(fov, a, n, f),
                    "perspective_lh" => $M4::perspective_lh(fov, a, n, f),
                    "perspective_rh" => $M4::perspective_rh(fov, a, n, f),
                    "perspective_infinite_lh" => $M4::perspective_infinite_lh(fov, a, n),
                    "perspective_infinite_reverse_lh" => $M4::perspective_infinite_reverse_lh(fov, a, n),
                    "perspective_infinite_rh" => $M4::perspective_infinite_rh(fov, a, n),
                    "perspective_infinite_reverse_rh" => $M4::perspective_infinite_reverse_rh(fov, a, n),
                    _ => panic!("projection {name}"),
                }
            } else {
                let b = ringv(&$c["params"]);
                let (l, r, bo, tp) = (b[0] as $S, b[1] as $S, b[2] as $S, b[3] as $S);
                match name {
                    "orthographic_rh_gl" => $M4::orthographic_rh_gl(l, r, bo, tp, n, f),
                    "orthographic_lh" => $M4::orthographic_lh(l, r, bo, tp, n, f),
                    "orthographic_rh" => $M4::orthographic_rh(l, r, bo, tp, n, f),
                    _ => panic!("projection {name}"),
                }
            };
            for pr in $c["probes"].as_array().unwrap() {
                let p = ringv(&pr["p"]);
                let clip = ringv(&pr["clip"]);
                let mag = clip.iter().fold(1.0f64, |a, b| a.max(b.abs()));
                let tol = $tol * 4.0 * mag;
                let pv = $V3::new(p[0] as $S, p[1] as $S, p[2] as $S);
                let got = m * $V4::new(p[0] as $S, p[1] as $S, p[2] as $S, 1.0);
                near($cx, $c, &format!("{name}: M * (p, 1)"), stringify!($M4), &clip, &f64s!(got.to_array()), tol);
                if clip[3].abs() > 1e-9 {
                    let ndc = [clip[0] / clip[3], clip[1] / clip[3], clip[2] / clip[3]];
                    let nt = $tol * 8.0 * ndc.iter().fold(1.0f64, |a, b| a.max(b.abs()));
                    near($cx, $c, &format!("{name}: project_point3"), stringify!($M4), &ndc, &f64s!(m.project_point3(pv).to_array()), nt);
                }
                if kind == "ortho" {
                    near($cx, $c, &format!("{name}: transform_point3"), stringify!($M4), &clip[..3], &f64s!(m.transform_point3(pv).to_array()), tol);
                }
            }
        }
    }};
}

// ------------------------------------------------------------------ conversion chains (C05)
#[derive(Clone, Copy, Debug)]
enum Rep { Q(Quat), M3(Mat3), M3A(Mat3A), M4(Mat4), A3(Affine3A), DQ(DQuat), DM3(DMat3), DM4(DMat4), DA3(DAffine3) }

fn rep_start(name: &str, a: f64, b: f64, c: f64) -> Rep {
    let o = EulerRot::XYZ;
    let (af, bf, cf) = (a as f32, b as f32, c as f32);
    match name {
        "Quat" => Rep::Q(Quat::from_euler(o, af, bf, cf)),
        "Mat3" => Rep::M3(Mat3::from_euler(o, af, bf, cf)),
        "Mat3A" => Rep::M3A(Mat3A::from_euler(o, af, bf, cf)),
        "Mat4" => Rep::M4(Mat4::from_euler(o, af, bf, cf)),
        "Affine3A" => Rep::A3(Affine3A::from_mat3(Mat3::from_euler(o, af, bf, cf))),
        "DQuat" => Rep::DQ(DQuat::from_euler(o, a, b, c)),
        "DMat3" => Rep::DM3(DMat3::from_euler(o, a, b, c)),
        "DMat4" => Rep::DM4(DMat4::from_euler(o, a, b, c)),
        "DAffine3" => Rep::DA3(DAffine3::from_mat3(DMat3::from_euler(o, a, b, c))),
        _ => panic!("start {name}"),
    }
}
fn rep_hop(r: Rep, f: &str) -> Rep {
    match (r, f) {
        (Rep::Q(q), "Mat3::from_quat") => Rep::M3(Mat3::from_quat(q)),
        (Rep::Q(q), "Mat3A::from_quat") => Rep::M3A(Mat3A::from_quat(q)),
        (Rep::Q(q), "Mat4::from_quat") => Rep::M4(Mat4::from_quat(q)),
        (Rep::Q(q), "Affine3A::from_quat") => Rep::A3(Affine3A::from_quat(q)),
        (Rep::Q(q), "as_dquat") => Rep::DQ(q.as_dquat()),
        (Rep::M3(m), "Quat::from_mat3") => Rep::Q(Quat::from_mat3(&m)),
        (Rep::M3A(m), "Quat::from_mat3a") => Rep::Q(Quat::from_mat3a(&m)),
        (Rep::M4(m), "Quat::from_mat4") => Rep::Q(Quat::from_mat4(&m)),
        (Rep::A3(a), "Quat::from_affine3") => Rep::Q(Quat::from_affine3(&a)),
        (Rep::M3(m), "Mat3A::from") => Rep::M3A(Mat3A::from(m)),
        (Rep::M3A(m), "Mat3::from") => Rep::M3(Mat3::from(m)),
        (Rep::M3(m), "Mat4::from_mat3") => Rep::M4(Mat4::from_mat3(m)),
        (Rep::M3A(m), "Mat4::from_mat3a") => Rep::M4(Mat4::from_mat3a(m)),
        (Rep::M4(m), "Mat3::from_mat4") => Rep::M3(Mat3::from_mat4(m)),
        (Rep::M4(m), "Mat3A::from_mat4") => Rep::M3A(Mat3A::from_mat4(m)),
        (Rep::M3(m), "Affine3A::from_mat3") => Rep::A3(Affine3A::from_mat3(m)),
        (Rep::A3(a), "Mat4::from") => Rep::M4(Mat4::from(a)),
        (Rep::M4(m), "Affine3A::from_mat4") => Rep::A3(Affine3A::from_mat4(m)),
        (Rep::A3(a), "matrix3") => Rep::M3A(a.matrix3),
        (Rep::M3(m), "as_dmat3") => Rep::DM3(m.as_dmat3()),
        (Rep::M3A(m), "as_dmat3") => Rep::DM3(m.as_dmat3()),
        (Rep::M4(m), "as_dmat4") => Rep::DM4(m.as_dmat4()),
        (Rep::A3(a), "as_daffine3") => Rep::DA3(a.as_daffine3()),
        (Rep::DQ(q), "DMat3::from_quat") => Rep::DM3(DMat3::from_quat(q)),
        (Rep::DQ(q), "DMat4::from_quat") => Rep::DM4(DMat4::from_quat(q)),
        (Rep::DQ(q), "DAffine3::from_quat") => Rep::DA3(DAffine3::from_quat(q)),
        (Rep::DQ(q), "as_quat") => Rep::Q(q.as_quat()),
        (Rep::DM3(m), "DQuat::from_mat3") => Rep::DQ(DQuat::from_mat3(&m)),
        (Rep::DM4(m), "DQuat::from_mat4") => Rep::DQ(DQuat::from_mat4(&m)),
        (Rep::DA3(a), "DQuat::from_affine3") => Rep::DQ(DQuat::from_affine3(&a)),
        (Rep::DM3(m), "DMat4::from_mat3") => Rep::DM4(DMat4::from_mat3(m)),
        (Rep::DM4(m), "DMat3::from_mat4") => Rep::DM3(DMat3::from_mat4(m)),
        (Rep::DM3(m), "DAffine3::from_mat3") => Rep::DA3(DAffine3::from_mat3(m)),
        (Rep::DA3(a), "DMat4::from") => Rep::DM4(DMat4::from(a)),
        (Rep::DM4(m), "DAffine3::from_mat4") => Rep::DA3(DAffine3::from_mat4(m)),
        (Rep::DM3(m), "as_mat3") => Rep::M3(m.as_mat3()),
        (Rep::DM4(m), "as_mat4") => Rep::M4(m.as_mat4()),
        (Rep::DA3(a), "as_affine3a") => Rep::A3(a.as_affine3a()),
        (r, f) => panic!("no edge {f} from {:?}", r),
    }
}
/// the action of a representation on a vector, through every method that applies it
fn rep_act(r: Rep, v: [f64; 3]) -> Vec<(&'static str, [f64; 3])> {
    let f = Vec3::new(v[0] as f32, v[1] as f32, v[2] as f32);
    let fa = Vec3A::from(f);
    let d = DVec3::new(v[0], v[1], v[2]);
    let w = |x: Vec3| [x.x as f64, x.y as f64, x.z as f64];
    let wa = |x: Vec3A| [x.x as f64, x.y as f64, x.z as f64];
    let wd = |x: DVec3| [x.x, x.y, x.z];
    match r {
        Rep::Q(q) => vec![("q * v", w(q * f)), ("q * Vec3A", wa(q * fa))],
        Rep::M3(m) => vec![("m * v", w(m * f)), ("m * Vec3A", wa(m * fa))],
        Rep::M3A(m) => vec![("m * v", w(m * f)), ("m * Vec3A", wa(m * fa))],
        Rep::M4(m) => vec![("transform_vector3", w(m.transform_vector3(f))), ("transform_point3", w(m.transform_point3(f))), ("transform_vector3a", wa(m.transform_vector3a(fa))),
                           ("project_point3", w(m.project_point3(f))), ("m * (v,0)", w((m * f.extend(0.0)).truncate()))],
        Rep::A3(a) => vec![("transform_vector3", w(a.transform_vector3(f))), ("transform_point3", w(a.transform_point3(f))), ("transform_point3a", wa(a.transform_point3a(fa)))],
        Rep::DQ(q) => vec![("q * v", wd(q * d))],
        Rep::DM3(m) => vec![("m * v", wd(m * d))],
        Rep::DM4(m) => vec![("transform_vector3", wd(m.transform_vector3(d))), ("transform_point3", wd(m.transform_point3(d)))],
        Rep::DA3(a) => vec![("transform_vector3", wd(a.transform_vector3(d))), ("transform_point3", wd(a.transform_point3(d)))],
    }
}
fn rep_is_f64(r: Rep) -> bool { matches!(r, Rep::DQ(_) | Rep::DM3(_) | Rep::DM4(_) | Rep::DA3(_)) }
fn rep_name(r: Rep) -> &'static str {
    match r { Rep::Q(_) => "Quat", Rep::M3(_) => "Mat3", Rep::M3A(_) => "Mat3A", Rep::M4(_) => "Mat4", Rep::A3(_) => "Affine3A",
              Rep::DQ(_) => "DQuat", Rep::DM3(_) => "DMat3", Rep::DM4(_) => "DMat4", Rep::DA3(_) => "DAffine3" }
}

fn run_chain(cx: &mut Cx, c: &Value) {
    let sd: Vec<f64> = c["seed"].as_array().unwrap().iter().map(|x| x.as_i64().unwrap() as f64 * std::f64::consts::FRAC_PI_4).collect();
    let m = ringv(&c["exp"]["m"]);
    let probes = [[1.0, 2.0, 3.0], [-2.0, 0.5, 1.0], [0.0, 0.0, 1.0]];
    let expect = |v: [f64; 3]| [m[0] * v[0] + m[3] * v[1] + m[6] * v[2], m[1] * v[0] + m[4] * v[1] + m[7] * v[2], m[2] * v[0] + m[5] * v[1] + m[8] * v[2]];
    let r0 = catch(|| rep_start(c["start"].as_str().unwrap(), sd[0], sd[1], sd[2]));
    let Ok(mut r) = r0 else { cx.rep.mismatch(json!({"prop": cx.prop, "ty": c["start"], "op": "start", "what": "panic", "case": c})); return; };
    let mut all_f64 = rep_is_f64(r);
    let path: Vec<&str> = c["path"].as_array().unwrap().iter().map(|x| x.as_str().unwrap()).collect();
    for hop in 0..=path.len() {
        if hop > 0 {
            match catch(|| rep_hop(r, path[hop - 1])) {
                Ok(n) => r = n,
                Err(p) => { cx.rep.mismatch(json!({"prop": cx.prop, "ty": rep_name(r), "op": path[hop - 1], "what": "panic", "panic": p, "case": c})); return; }
            }
            all_f64 = all_f64 && rep_is_f64(r);
        }
        let tol = if all_f64 { 1e-11 } else { 4e-5 };
        for v in probes {
            let e = expect(v);
            for (how, g) in rep_act(r, v) {
                cx.rep.evals += 1;
                if (0..3).any(|i| (e[i] - g[i]).abs() > tol) {
                    cx.rep.mismatch(json!({"prop": cx.prop, "ty": rep_name(r), "op": if hop == 0 { "start" } else { path[hop - 1] }, "how": how,
                        "hop": hop, "branch": c["branch"], "probe": v, "exp": e, "got": g, "tol": tol, "path": c["path"], "seed": c["seed"], "case": c}));
                    return;
                }
            }
        }
        if let Rep::Q(q) = r { if (q.length() as f64 - 1.0).abs() > 1e-5 { cx.rep.mismatch(json!({"prop": cx.prop, "ty": "Quat", "op": "unit length", "got": q.length(), "case": c})); return; } }
        if let Rep::DQ(q) = r { if (q.length() - 1.0).abs() > 1e-5 { cx.rep.mismatch(json!({"prop": cx.prop, "ty": "DQuat", "op": "unit length", "got": q.length(), "case": c})); return; } }
    }
}

fn main() {
    let args: Vec<String> = std::env::args().collect();
    quiet_panics();
    let mut rep = Report::new();
    let mut cx = Cx { rep: &mut rep, prop: std::env::var("HX_PROP").unwrap_or("C09".into()) };
    let mut n = 0u64;
    read_cases(&args[1], "CASE", |c| {
        if c["fam"] == "chain" {
            n += 1;
            cx.rep.nontrivial += 1;
            cx.rep.count_op(&format!("chain:{}:{}", c["start"].as_str().unwrap(), c["branch"].as_str().unwrap()), 1);
            if cx.rep.samples.len() < 3 && n % 9973 == 1 { cx.rep.samples.push(c.clone()); }
            run_chain(&mut cx, &c);
            return;
        }
        if c["fam"] == "cam" {
            n += 1;
            cx.rep.nontrivial += 1;
            let key = if c["kind"] == "view" { format!("view:{}", c["hand"].as_str().unwrap()) } else { c["name"].as_str().unwrap().to_string() };
            cx.rep.count_op(&key, 1);
            if cx.rep.samples.len() < 3 && n % 211 == 1 { let mut sm = c.clone(); if let Some(p) = sm.get_mut("probes") { if let Some(a) = p.as_array_mut() { a.truncate(2); } } cx.rep.samples.push(sm); }
            let r = catch(|| {
                let c = &c;
                let cx = &mut cx;
                run_cam!(cx, c, f32, 1e-5, Vec3, Vec4, Quat, Mat3, Mat4, Affine3A, [Mat3A]);
                run_cam!(cx, c, f64, 1e-12, DVec3, DVec4, DQuat, DMat3, DMat4, DAffine3, []);
            });
            if let Err(p) = r { cx.rep.mismatch(json!({"prop": cx.prop, "ty": "any", "op": "cam", "what": "panic", "panic": p, "case": c})); }
            return;
        }
        if c["fam"] == "srt" {
            n += 1;
            cx.rep.nontrivial += 1;
            cx.rep.count_op(c["kind"].as_str().unwrap(), 1);
            if c["dk"].as_i64().unwrap_or(0) > 0 { cx.rep.count_op(&format!("{}:offgrid", c["kind"].as_str().unwrap()), 1); }
            if c["huge"].as_i64().unwrap_or(0) > 0 { cx.rep.count_op("srt3:huge", 1); }
            if cx.rep.samples.len() < 3 && n % 211 == 1 { cx.rep.samples.push(c.clone()); }
            let r = catch(|| {
                let c = &c;
                let cx = &mut cx;
                run_srt!(cx, c, f32, 1e-5, core::f32::consts::FRAC_PI_4, Vec2, Vec3, Quat, Mat2, Mat3, Mat4, Affine2, Affine3A, [Mat3A]);
                run_srt!(cx, c, f64, 1e-12, core::f64::consts::FRAC_PI_4, DVec2, DVec3, DQuat, DMat2, DMat3, DMat4, DAffine2, DAffine3, []);
            });
            if let Err(p) = r { cx.rep.mismatch(json!({"prop": cx.prop, "ty": "any", "op": "srt", "what": "panic", "panic": p, "case": c})); }
            return;
        }
        if c["fam"] != "rot" { return; }
        n += 1;
        let kind = c["kind"].as_str().unwrap().to_string();
        cx.rep.count_op(&kind, 1);
        let trivial = (kind == "axis" || kind == "angle2") && c["j"].as_i64().unwrap() % 8 == 0;
        if !trivial { cx.rep.nontrivial += 1; }
        if cx.rep.samples.len() < 3 && n % 997 == 1 { cx.rep.samples.push(c.clone()); }
        let r = catch(|| {
            let c = &c;
            let cx = &mut cx;
            run_width!(cx, c, f32, 1e-5, core::f32::consts::FRAC_PI_4, Vec2, Vec3, Quat, Mat2, Mat3, Mat4, Affine2, Affine3A, [Mat3A]);
            run_width!(cx, c, f64, 1e-12, core::f64::consts::FRAC_PI_4, DVec2, DVec3, DQuat, DMat2, DMat3, DMat4, DAffine2, DAffine3, []);
        });
        if let Err(p) = r {
            cx.rep.mismatch(json!({"prop": cx.prop, "ty": "any", "op": kind, "what": "panic", "panic": p, "case": c}));
        }
    });
    rep.cases = n;
    rep.write(&args[2]);
    println!("rot[{}]: cases={} evals={} mismatches={}", rep.cfg, rep.cases, rep.evals, rep.mismatch_count);
}
