//! Matrices and affine transforms as (R, C) grids of bit patterns (family `mat`, C06/C05):
//! every constructor, write path and read path by the name the specification uses.

use crate::tv::Scalar;
use glam::*;

pub enum MObs<S> {
    Flat(Vec<S>),
    Text(String),
    Bool(bool),
}

pub trait MT: Copy + core::fmt::Debug + 'static {
    type S: Scalar;
    const R: usize;
    const C: usize;
    const NAME: &'static str;
    fn from_flat(f: &[Self::S]) -> Self;
    fn flat(&self) -> Vec<Self::S>;
    fn ctor(path: &str, f: &[Self::S]) -> Option<Self>;
    fn konst(name: &str) -> Option<Self>;
    fn write(&mut self, path: &str, r: usize, c: usize, v: Self::S) -> bool;
    fn read(&self, path: &str) -> Option<MObs<Self::S>>;
    /// expected Debug/Display text from the per-column vector formatter
    /// slice and column/row API (C18)
    fn from_cols_slice_(s: &[Self::S]) -> Self;
    fn write_cols_to_slice_(&self, s: &mut [Self::S]);
    fn col_(&self, _i: usize) -> Option<Vec<Self::S>> { None }
    fn col_mut_(&mut self, _i: usize) -> bool { false }
    fn row_(&self, _i: usize) -> Option<Vec<Self::S>> { None }
    fn fmt_expected(f: &[Self::S], debug: bool) -> String;
    /// Display with the precision flag `{:.2}` forwarded to every column
    fn fmt_expected_prec(f: &[Self::S]) -> String;
}

macro_rules! colvec {
    ($CV:ident, $f:ident, $c:expr, 2) => { $CV::new($f[$c * 2], $f[$c * 2 + 1]) };
    ($CV:ident, $f:ident, $c:expr, 3) => { $CV::new($f[$c * 3], $f[$c * 3 + 1], $f[$c * 3 + 2]) };
    ($CV:ident, $f:ident, $c:expr, 4) => { $CV::new($f[$c * 4], $f[$c * 4 + 1], $f[$c * 4 + 2], $f[$c * 4 + 3]) };
}
macro_rules! arr2d {
    ($f:ident, 2, 2) => { [[$f[0], $f[1]], [$f[2], $f[3]]] };
    ($f:ident, 3, 3) => { [[$f[0], $f[1], $f[2]], [$f[3], $f[4], $f[5]], [$f[6], $f[7], $f[8]]] };
    ($f:ident, 4, 4) => { [[$f[0], $f[1], $f[2], $f[3]], [$f[4], $f[5], $f[6], $f[7]], [$f[8], $f[9], $f[10], $f[11]], [$f[12], $f[13], $f[14], $f[15]]] };
    ($f:ident, 2, 3) => { [[$f[0], $f[1]], [$f[2], $f[3]], [$f[4], $f[5]]] };
    ($f:ident, 3, 4) => { [[$f[0], $f[1], $f[2]], [$f[3], $f[4], $f[5]], [$f[6], $f[7], $f[8]], [$f[9], $f[10], $f[11]]] };
}
macro_rules! arr1d {
    ($f:ident, 4) => { [$f[0], $f[1], $f[2], $f[3]] };
    ($f:ident, 6) => { [$f[0], $f[1], $f[2], $f[3], $f[4], $f[5]] };
    ($f:ident, 9) => { [$f[0], $f[1], $f[2], $f[3], $f[4], $f[5], $f[6], $f[7], $f[8]] };
    ($f:ident, 12) => { [$f[0], $f[1], $f[2], $f[3], $f[4], $f[5], $f[6], $f[7], $f[8], $f[9], $f[10], $f[11]] };
    ($f:ident, 16) => { [$f[0], $f[1], $f[2], $f[3], $f[4], $f[5], $f[6], $f[7], $f[8], $f[9], $f[10], $f[11], $f[12], $f[13], $f[14], $f[15]] };
}

macro_rules! impl_mt_square {
    (@asmut yes, $s:ident, $S:ident, $NN:tt, $idx:expr, $v:ident) => {{ let a: &mut [$S; $NN] = $s.as_mut(); a[$idx] = $v; true }};
    (@asmut no, $s:ident, $S:ident, $NN:tt, $idx:expr, $v:ident) => { false };
    (@asref yes, $s:ident, $S:ident, $NN:tt) => {{ let a: &[$S; $NN] = $s.as_ref(); MObs::Flat(a.to_vec()) }};
    (@asref no, $s:ident, $S:ident, $NN:tt) => { return None };
    ($M:ident, $S:ident, $N:tt, $NN:tt, $CV:ident, $DV:ident, $free:ident, $asref:ident, [$(($ci:literal, $ax:ident)),+]) => {
        impl MT for $M {
            type S = $S;
            const R: usize = $N;
            const C: usize = $N;
            const NAME: &'static str = stringify!($M);
            fn from_flat(f: &[$S]) -> Self { $M::from_cols_array(&arr1d!(f, $NN)) }
            fn flat(&self) -> Vec<$S> { self.to_cols_array().to_vec() }
            fn from_cols_slice_(s: &[$S]) -> Self { $M::from_cols_slice(s) }
            fn write_cols_to_slice_(&self, s: &mut [$S]) { self.write_cols_to_slice(s) }
            fn col_(&self, i: usize) -> Option<Vec<$S>> { let v = self.col(i); Some((0..$N).map(|r| v[r]).collect()) }
            fn col_mut_(&mut self, i: usize) -> bool { let _c = self.col_mut(i); true }
            fn row_(&self, i: usize) -> Option<Vec<$S>> { let v = self.row(i); Some((0..$N).map(|r| v[r]).collect()) }
            fn ctor(path: &str, f: &[$S]) -> Option<Self> {
                Some(match path {
                    "from_cols_array" => $M::from_cols_array(&arr1d!(f, $NN)),
                    "from_cols_array_2d" => $M::from_cols_array_2d(&arr2d!(f, $N, $N)),
                    "from_cols_slice" => $M::from_cols_slice(&f[..$NN]),
                    "from_cols" => $M::from_cols($(colvec!($CV, f, $ci, $N)),+),
                    "free_fn" => $free($(colvec!($CV, f, $ci, $N)),+),
                    "from_diagonal" => {
                        // f is the full expected matrix; its diagonal is the argument
                        let d: Vec<$S> = (0..$N).map(|k| f[k * $N + k]).collect();
                        $M::from_diagonal(<$DV as crate::tv::TV>::from_lanes(&d))
                    }
                    _ => return None,
                })
            }
            fn konst(name: &str) -> Option<Self> {
                Some(match name { "ZERO" => $M::ZERO, "IDENTITY" => $M::IDENTITY, "NAN" => $M::NAN, _ => return None })
            }
            fn write(&mut self, path: &str, r: usize, c: usize, v: $S) -> bool {
                match path {
                    "col_mut" => self.col_mut(c)[r] = v,
                    "as_mut" => { if !impl_mt_square!(@asmut $asref, self, $S, $NN, c * $N + r, v) { return false; } }
                    "field" => match c { $($ci => self.$ax[r] = v,)+ _ => unreachable!() },
                    _ => return false,
                }
                true
            }
            fn read(&self, path: &str) -> Option<MObs<$S>> {
                Some(match path {
                    "to_cols_array" => MObs::Flat(self.to_cols_array().to_vec()),
                    "to_cols_array_2d" => MObs::Flat(self.to_cols_array_2d().iter().flat_map(|c| c.iter().copied()).collect()),
                    "write_cols_to_slice" => {
                        // two canaries beyond the last entry: the observation can only match if they are untouched
                        let (c1, c2) = (self.col(0)[1], self.col(1)[0]);
                        let mut b = vec![c1; $NN + 2]; b[$NN + 1] = c2; self.write_cols_to_slice(&mut b[..]);
                        if b[$NN].to_bits() == c1.to_bits() && b[$NN + 1].to_bits() == c2.to_bits() { b.truncate($NN); }
                        MObs::Flat(b)
                    }
                    "as_ref" => { impl_mt_square!(@asref $asref, self, $S, $NN) }
                    "cols" => MObs::Flat((0..$N).flat_map(|c| { let v = self.col(c); (0..$N).map(move |r| v[r]) }).collect()),
                    "rows" => MObs::Flat((0..$N).flat_map(|r| { let v = self.row(r); (0..$N).map(move |c| v[c]) }).collect()),
                    "fields" => MObs::Flat(vec![$(self.$ax),+].iter().flat_map(|v| (0..$N).map(move |r| v[r])).collect()),
                    "transpose" => MObs::Flat(self.transpose().to_cols_array().to_vec()),
                    "row_col_agree" => MObs::Bool((0..$N).all(|r| (0..$N).all(|c| self.col(c)[r].to_u64() == self.row(r)[c].to_u64()))),
                    "debug" => MObs::Text(format!("{:?}", self)),
                    "display" => MObs::Text(format!("{}", self)),
                    "display_prec" => MObs::Text(format!("{:.2}", self)),
                    _ => return None,
                })
            }
            fn fmt_expected_prec(f: &[$S]) -> String {
                let cols: Vec<$CV> = vec![$(colvec!($CV, f, $ci, $N)),+];
                let parts: Vec<String> = cols.iter().map(|c| format!("{:.2}", c)).collect();
                format!("[{}]", parts.join(", "))
            }
            fn fmt_expected(f: &[$S], debug: bool) -> String {
                let cols: Vec<$CV> = vec![$(colvec!($CV, f, $ci, $N)),+];
                if debug {
                    let names = [$(stringify!($ax)),+];
                    let parts: Vec<String> = cols.iter().zip(names).map(|(c, n)| format!("{}: {:?}", n, c)).collect();
                    format!("{} {{ {} }}", stringify!($M), parts.join(", "))
                } else {
                    let parts: Vec<String> = cols.iter().map(|c| format!("{}", c)).collect();
                    format!("[{}]", parts.join(", "))
                }
            }
        }
    };
}

impl_mt_square!(Mat2, f32, 2, 4, Vec2, Vec2, mat2, yes, [(0, x_axis), (1, y_axis)]);
impl_mt_square!(DMat2, f64, 2, 4, DVec2, DVec2, dmat2, yes, [(0, x_axis), (1, y_axis)]);
impl_mt_square!(Mat3, f32, 3, 9, Vec3, Vec3, mat3, yes, [(0, x_axis), (1, y_axis), (2, z_axis)]);
impl_mt_square!(Mat3A, f32, 3, 9, Vec3A, Vec3, mat3a, no, [(0, x_axis), (1, y_axis), (2, z_axis)]);
impl_mt_square!(DMat3, f64, 3, 9, DVec3, DVec3, dmat3, yes, [(0, x_axis), (1, y_axis), (2, z_axis)]);
impl_mt_square!(Mat4, f32, 4, 16, Vec4, Vec4, mat4, yes, [(0, x_axis), (1, y_axis), (2, z_axis), (3, w_axis)]);
impl_mt_square!(DMat4, f64, 4, 16, DVec4, DVec4, dmat4, yes, [(0, x_axis), (1, y_axis), (2, z_axis), (3, w_axis)]);

macro_rules! impl_mt_affine {
    ($M:ident, $S:ident, $R:tt, $C:tt, $RC:tt, $CV:ident, $lin:ident, $LM:ident, [$(($ci:literal, $ax:ident)),+], $tci:literal) => {
        impl MT for $M {
            type S = $S;
            const R: usize = $R;
            const C: usize = $C;
            const NAME: &'static str = stringify!($M);
            fn from_flat(f: &[$S]) -> Self { $M::from_cols_array(&arr1d!(f, $RC)) }
            fn flat(&self) -> Vec<$S> { self.to_cols_array().to_vec() }
            fn from_cols_slice_(s: &[$S]) -> Self { $M::from_cols_slice(s) }
            fn write_cols_to_slice_(&self, s: &mut [$S]) { self.write_cols_to_slice(s) }
            fn ctor(path: &str, f: &[$S]) -> Option<Self> {
                Some(match path {
                    "from_cols_array" => $M::from_cols_array(&arr1d!(f, $RC)),
                    "from_cols_array_2d" => $M::from_cols_array_2d(&arr2d!(f, $R, $C)),
                    "from_cols_slice" => $M::from_cols_slice(&f[..$RC]),
                    "from_cols" => $M::from_cols($(colvec!($CV, f, $ci, $R)),+),
                    _ => return None,
                })
            }
            fn konst(name: &str) -> Option<Self> {
                Some(match name { "ZERO" => $M::ZERO, "IDENTITY" => $M::IDENTITY, "NAN" => $M::NAN, _ => return None })
            }
            fn write(&mut self, path: &str, r: usize, c: usize, v: $S) -> bool {
                match path {
                    // the documented storage: linear part then translation
                    "field" => if c == $tci { self.translation[r] = v } else { self.$lin.col_mut(c)[r] = v },
                    // Deref to the axis columns
                    "col_mut" => match c { $($ci => self.$ax[r] = v,)+ _ => unreachable!() },
                    _ => return false,
                }
                true
            }
            fn read(&self, path: &str) -> Option<MObs<$S>> {
                Some(match path {
                    "to_cols_array" => MObs::Flat(self.to_cols_array().to_vec()),
                    "to_cols_array_2d" => MObs::Flat(self.to_cols_array_2d().iter().flat_map(|c| c.iter().copied()).collect()),
                    "write_cols_to_slice" => {
                        let (c1, c2) = (self.translation[0], self.translation[1]);
                        let mut b = vec![c1; $RC + 2]; b[$RC + 1] = c2; self.write_cols_to_slice(&mut b[..]);
                        if b[$RC].to_bits() == c1.to_bits() && b[$RC + 1].to_bits() == c2.to_bits() { b.truncate($RC); }
                        MObs::Flat(b)
                    }
                    "cols" => MObs::Flat(vec![$(self.$ax),+].iter().flat_map(|v| (0..$R).map(move |r| v[r])).collect()),
                    "fields" => {
                        let mut o: Vec<$S> = self.$lin.to_cols_array().to_vec();
                        o.extend((0..$R).map(|r| self.translation[r]));
                        MObs::Flat(o)
                    }
                    "debug" => MObs::Text(format!("{:?}", self)),
                    "display" => MObs::Text(format!("{}", self)),
                    "display_prec" => MObs::Text(format!("{:.2}", self)),
                    _ => return None,
                })
            }
            fn fmt_expected_prec(f: &[$S]) -> String {
                let cols: Vec<$CV> = vec![$(colvec!($CV, f, $ci, $R)),+];
                let parts: Vec<String> = cols.iter().map(|c| format!("{:.2}", c)).collect();
                format!("[{}]", parts.join(", "))
            }
            fn fmt_expected(f: &[$S], debug: bool) -> String {
                let cols: Vec<$CV> = vec![$(colvec!($CV, f, $ci, $R)),+];
                if debug {
                    let lin = <$LM as MT>::from_flat(&f[..$R * $R]);
                    format!("{} {{ {}: {:?}, translation: {:?} }}", stringify!($M), stringify!($lin), lin, cols[$tci])
                } else {
                    let parts: Vec<String> = cols.iter().map(|c| format!("{}", c)).collect();
                    format!("[{}]", parts.join(", "))
                }
            }
        }
    };
}
impl_mt_affine!(Affine2, f32, 2, 3, 6, Vec2, matrix2, Mat2, [(0, x_axis), (1, y_axis), (2, z_axis)], 2);
impl_mt_affine!(DAffine2, f64, 2, 3, 6, DVec2, matrix2, DMat2, [(0, x_axis), (1, y_axis), (2, z_axis)], 2);
impl_mt_affine!(Affine3A, f32, 3, 4, 12, Vec3A, matrix3, Mat3A, [(0, x_axis), (1, y_axis), (2, z_axis), (3, w_axis)], 3);
impl_mt_affine!(DAffine3, f64, 3, 4, 12, DVec3, matrix3, DMat3, [(0, x_axis), (1, y_axis), (2, z_axis), (3, w_axis)], 3);
