//! Uniform access to the seven float vector types: every element-wise operation through
//! every spelling the library offers (method, operator on values / references, assigning form).

use crate::fl::Flt;
use glam::*;

pub type Spelled<T> = Vec<(&'static str, T)>;

pub trait FV: Copy + core::fmt::Debug + 'static {
    type S: Flt;
    const N: usize;
    const NAME: &'static str;
    fn from_lanes(l: &[Self::S]) -> Self;
    fn lanes(&self) -> Vec<Self::S>;
    fn splat_(s: Self::S) -> Self;
    fn un(self, op: &str) -> Spelled<Self>;
    fn bin(self, b: Self, op: &str) -> Spelled<Self>;
    fn bin_vs(self, s: Self::S, op: &str) -> Spelled<Self>;
    fn bin_sv(s: Self::S, v: Self, op: &str) -> Spelled<Self>;
    fn tern(self, b: Self, c: Self, op: &str) -> Spelled<Self>;
    fn cmp(self, b: Self, op: &str) -> Spelled<Vec<bool>>;
    fn test(self, op: &str) -> Spelled<Vec<bool>>;
    fn eq_(self, b: Self) -> Spelled<bool>;
    fn abs_diff_eq_(self, b: Self, t: Self::S) -> bool;
    fn red_scalar(self, op: &str) -> Option<Self::S>;
    fn red_int(self, op: &str) -> Option<i64>;
    fn red_bool(self, op: &str) -> Option<bool>;
    fn sum_(vs: &[Self]) -> Spelled<Self>;
    fn product_(vs: &[Self]) -> Spelled<Self>;
}

macro_rules! binop_spellings {
    ($a:ident, $b:ident, $op:tt, $opa:tt) => {{
        let mut r = vec![
            ("a op b", $a $op $b),
            ("&a op b", &$a $op $b),
            ("a op &b", $a $op &$b),
            ("&a op &b", &$a $op &$b),
        ];
        let mut t = $a;
        t $opa $b;
        r.push(("a op= b", t));
        let mut t = $a;
        t $opa &$b;
        r.push(("a op= &b", t));
        r
    }};
}
macro_rules! svop_spellings {
    ($s:ident, $v:ident, $op:tt) => {{
        vec![
            ("s op v", $s $op $v),
            ("&s op v", &$s $op $v),
            ("s op &v", $s $op &$v),
            ("&s op &v", &$s $op &$v),
        ]
    }};
}

macro_rules! impl_fv {
    (@build Vec3A, $x:ident, $y:ident, $z:ident) => { Vec3A::from_vec4(Vec4::new($x, $y, $z, poison())) };
    (@build $V:ident, $($f:ident),+) => { $V::new($($f),+) };
    ($V:ident, $S:ident, $N:literal, $M:ident, [$($f:ident),+]) => {
        impl FV for $V {
            type S = $S;
            const N: usize = $N;
            const NAME: &'static str = stringify!($V);
            fn from_lanes(l: &[$S]) -> Self {
                let mut i = 0;
                $( let $f = l[i]; i += 1; )+
                let _ = i;
                impl_fv!(@build $V, $($f),+)
            }
            fn lanes(&self) -> Vec<$S> {
                self.to_array().to_vec()
            }
            fn splat_(s: $S) -> Self { $V::splat(s) }
            fn un(self, op: &str) -> Spelled<Self> {
                match op {
                    "neg" => vec![("-a", -self), ("-&a", -&self)],
                    "abs" => vec![("method", self.abs())],
                    "signum" => vec![("method", self.signum())],
                    "floor" => vec![("method", self.floor())],
                    "ceil" => vec![("method", self.ceil())],
                    "trunc" => vec![("method", self.trunc())],
                    "round" => vec![("method", self.round())],
                    "fract" => vec![("method", self.fract())],
                    "fract_gl" => vec![("method", self.fract_gl())],
                    "recip" => vec![("method", self.recip())],
                    "exp" => vec![("method", self.exp())],
                    _ => vec![],
                }
            }
            fn bin(self, b: Self, op: &str) -> Spelled<Self> {
                let a = self;
                match op {
                    "add" => binop_spellings!(a, b, +, +=),
                    "sub" => binop_spellings!(a, b, -, -=),
                    "mul" => binop_spellings!(a, b, *, *=),
                    "div" => binop_spellings!(a, b, /, /=),
                    "rem" => binop_spellings!(a, b, %, %=),
                    "min" => vec![("method", a.min(b))],
                    "max" => vec![("method", a.max(b))],
                    "copysign" => vec![("method", a.copysign(b))],
                    "div_euclid" => vec![("method", a.div_euclid(b))],
                    "rem_euclid" => vec![("method", a.rem_euclid(b))],
                    _ => vec![],
                }
            }
            fn bin_vs(self, s: $S, op: &str) -> Spelled<Self> {
                let a = self;
                match op {
                    "add" => binop_spellings!(a, s, +, +=),
                    "sub" => binop_spellings!(a, s, -, -=),
                    "mul" => binop_spellings!(a, s, *, *=),
                    "div" => binop_spellings!(a, s, /, /=),
                    "rem" => binop_spellings!(a, s, %, %=),
                    "powf" => vec![("method", a.powf(s))],
                    _ => vec![],
                }
            }
            fn bin_sv(s: $S, v: Self, op: &str) -> Spelled<Self> {
                match op {
                    "add" => svop_spellings!(s, v, +),
                    "sub" => svop_spellings!(s, v, -),
                    "mul" => svop_spellings!(s, v, *),
                    "div" => svop_spellings!(s, v, /),
                    "rem" => svop_spellings!(s, v, %),
                    _ => vec![],
                }
            }
            fn tern(self, b: Self, c: Self, op: &str) -> Spelled<Self> {
                match op {
                    "clamp" => vec![("method", self.clamp(b, c))],
                    "mul_add" => vec![("method", self.mul_add(b, c))],
                    _ => vec![],
                }
            }
            fn cmp(self, b: Self, op: &str) -> Spelled<Vec<bool>> {
                let m = match op {
                    "cmpeq" => self.cmpeq(b),
                    "cmpne" => self.cmpne(b),
                    "cmplt" => self.cmplt(b),
                    "cmple" => self.cmple(b),
                    "cmpgt" => self.cmpgt(b),
                    "cmpge" => self.cmpge(b),
                    _ => return vec![],
                };
                let a: [bool; $N] = m.into();
                let mut r = vec![("into [bool]", a.to_vec())];
                r.push(("test(i)", (0..$N).map(|i| m.test(i)).collect()));
                r.push(("bitmask", (0..$N).map(|i| (m.bitmask() >> i) & 1 == 1).collect()));
                r
            }
            fn test(self, op: &str) -> Spelled<Vec<bool>> {
                match op {
                    "is_nan_mask" => {
                        let a: [bool; $N] = self.is_nan_mask().into();
                        vec![("method", a.to_vec())]
                    }
                    "is_finite_mask" => {
                        let a: [bool; $N] = self.is_finite_mask().into();
                        vec![("method", a.to_vec())]
                    }
                    "sign_mask" => {
                        let b = self.is_negative_bitmask();
                        vec![("is_negative_bitmask", (0..$N).map(|i| (b >> i) & 1 == 1).collect())]
                    }
                    _ => vec![],
                }
            }
            fn eq_(self, b: Self) -> Spelled<bool> {
                vec![("==", self == b), ("!(!=)", !(self != b)), ("&a == &b", &self == &b)]
            }
            fn abs_diff_eq_(self, b: Self, t: $S) -> bool {
                self.abs_diff_eq(b, t)
            }
            fn red_scalar(self, op: &str) -> Option<$S> {
                Some(match op {
                    "min_element" => self.min_element(),
                    "max_element" => self.max_element(),
                    "element_sum" => self.element_sum(),
                    "element_product" => self.element_product(),
                    _ => return None,
                })
            }
            fn red_int(self, op: &str) -> Option<i64> {
                Some(match op {
                    "min_position" => self.min_position() as i64,
                    "max_position" => self.max_position() as i64,
                    "is_negative_bitmask" => self.is_negative_bitmask() as i64,
                    _ => return None,
                })
            }
            fn red_bool(self, op: &str) -> Option<bool> {
                Some(match op {
                    "is_nan" => self.is_nan(),
                    "is_finite" => self.is_finite(),
                    _ => return None,
                })
            }
            fn sum_(vs: &[Self]) -> Spelled<Self> {
                vec![
                    ("iter().sum()", vs.iter().sum::<$V>()),
                    ("into_iter().sum()", vs.iter().copied().sum::<$V>()),
                ]
            }
            fn product_(vs: &[Self]) -> Spelled<Self> {
                vec![
                    ("iter().product()", vs.iter().product::<$V>()),
                    ("into_iter().product()", vs.iter().copied().product::<$V>()),
                ]
            }
        }
    };
}

/// hidden 4th lane of the Vec3A operands of every replayed case: rotates through NaN, +inf, a huge negative and an ordinary value,
/// so that an operation that lets the padding lane take part (a reduction over 4 lanes, a 4-lane mask) gives a wrong visible result
pub fn poison() -> f32 {
    use std::sync::atomic::{AtomicUsize, Ordering};
    static K: AtomicUsize = AtomicUsize::new(0);
    [f32::NAN, f32::INFINITY, -1.0e30, 0.5, f32::NEG_INFINITY, -0.0][K.fetch_add(1, Ordering::Relaxed) % 6]
}
impl_fv!(Vec2, f32, 2, BVec2, [x, y]);
impl_fv!(Vec3, f32, 3, BVec3, [x, y, z]);
impl_fv!(Vec3A, f32, 3, BVec3A, [x, y, z]);
impl_fv!(Vec4, f32, 4, BVec4A, [x, y, z, w]);
impl_fv!(DVec2, f64, 2, BVec2, [x, y]);
impl_fv!(DVec3, f64, 3, BVec3, [x, y, z]);
impl_fv!(DVec4, f64, 4, BVec4, [x, y, z, w]);

/// Run `f::<T>()` for every float vector type.
#[macro_export]
macro_rules! for_each_fv {
    ($f:ident ( $($arg:expr),* )) => {{
        $f::<glam::Vec2>($($arg),*);
        $f::<glam::Vec3>($($arg),*);
        $f::<glam::Vec3A>($($arg),*);
        $f::<glam::Vec4>($($arg),*);
        $f::<glam::DVec2>($($arg),*);
        $f::<glam::DVec3>($($arg),*);
        $f::<glam::DVec4>($($arg),*);
    }};
}
