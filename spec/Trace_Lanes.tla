---------------------------- MODULE Trace_Lanes -----------------------------
(***************************************************************************)
(* Trace validation (code -> specification) of element-wise operations on  *)
(* ARBITRARY operands.  The harness (`rec`) executes the real library on   *)
(* random bit patterns and logs one event per public call: operation,      *)
(* type, spelling, every operand lane and every result lane, decoded to    *)
(* exact integers.  This specification consumes the log, one action per    *)
(* event, and accepts an event iff the result is the one the models        *)
(* predict:                                                                *)
(*   f1 f2 f3 fc fr  float vector operations   (IeeeW: correctly rounded   *)
(*                   IEEE arithmetic with arbitrary-precision integers)    *)
(*   i1 i2 i3 im is ir1 ir2  integer vector operations (IntLane: wrap /    *)
(*                   checked / saturating / panic, per build profile)      *)
(*   cv              as / From / TryFrom conversions                       *)
(* "lane-wise" is part of what is checked: lane i of the result must be    *)
(* the scalar operation on lane i of the operands, for every lane.         *)
(* Acceptance: POSTCONDITION Accepted (all events consumed); the first     *)
(* rejected event is printed.                                              *)
(***************************************************************************)
EXTENDS IeeeW, IntLane, TLC, Json, IOUtils
Rec == ndJsonDeserialize(IOEnv.TRACE)

DecW(v) == IF Len(v) = 0 THEN WNan ELSE IF Len(v) = 1 THEN WInf(v[1]) ELSE WFin(v[1], SubSeq(v, 3, Len(v)), v[2])
DecZ(v) == Z(v[1], SubSeq(v, 2, Len(v)))
Has(ev, name) == name \in DOMAIN ev
\* decoded values are canonical, so equality of values is equality of records (-0 = +0, NaN ~ NaN)
SameC(x, y) == \/ x.k = "any" \/ y.k = "any"
               \/ (IsNanW(x) /\ IsNanW(y))
               \/ x = y
               \/ (IsZeroW(x) /\ IsZeroW(y))
\* C01 compares lanes "as IEEE-754 values (-0 equals +0)"; C03 / C04 say more about NEGATION of matrices and quaternions: it flips
\* every entry exactly, so there the sign of a zero is judged too (-(+0) is -0: negation is a sign flip, not 0 - x)
SameS(x, y) == \/ x.k = "any" \/ y.k = "any"
               \/ (IsNanW(x) /\ IsNanW(y))
               \/ x = y
ExactFlipTypes == {"Mat2", "Mat3", "Mat3A", "Mat4", "DMat2", "DMat3", "DMat4", "Quat", "DQuat"}
SameFor(ev, x, y) == IF ev.op = "neg" /\ "ty" \in DOMAIN ev /\ ev.ty \in ExactFlipTypes THEN SameS(x, y) ELSE SameC(x, y)
FmtOf(n) == IF n = 32 THEN W32 ELSE W64
Lanes(ev) == 1..Len(ev.a)

\* ---- floats ------------------------------------------------------------------------------------
F1ok(ev) == LET f == FmtOf(ev.f) IN
    /\ ev.op \in Ops1W /\ Len(ev.got) = Len(ev.a)
    /\ \A i \in Lanes(ev) : SameFor(ev, Op1W(f, ev.op, DecW(ev.a[i])), DecW(ev.got[i]))
F2ok(ev) == LET f == FmtOf(ev.f) IN
    /\ ev.op \in Ops2W /\ Len(ev.got) = Len(ev.a) /\ Len(ev.b) = Len(ev.a)
    /\ \A i \in Lanes(ev) : SameFor(ev, Op2W(f, ev.op, DecW(ev.a[i]), DecW(ev.b[i])), DecW(ev.got[i]))
FCok(ev) ==
    /\ ev.op \in CmpOpsW /\ Len(ev.got) = Len(ev.a)
    /\ \A i \in Lanes(ev) : ev.got[i] = (IF CmpOpW(ev.op, DecW(ev.a[i]), DecW(ev.b[i])) THEN 1 ELSE 0)
F3ok(ev) == LET f == FmtOf(ev.f) IN
    /\ Len(ev.got) = Len(ev.a)
    /\ \A i \in Lanes(ev) :
         LET a == DecW(ev.a[i]) b == DecW(ev.b[i]) c == DecW(ev.c[i]) g == DecW(ev.got[i]) IN
         CASE ev.op = "clamp"   -> SameC(ClampW(a, b, c), g)
           [] ev.op = "mul_add" -> SameC(FmaW(f, a, b, c), g) \/ SameC(AddW(f, MulW(f, a, b), c), g)   \* fused or not
RECURSIVE FoldW(_, _, _, _)
FoldW(Op(_, _), s, i, acc) == IF i > Len(s) THEN acc ELSE FoldW(Op, s, i + 1, Op(acc, DecW(s[i])))
FRok(ev) ==
    CASE ev.op = "min_element" -> SameC(FoldW(MinW, ev.a, 2, DecW(ev.a[1])), DecW(ev.got))
      [] ev.op = "max_element" -> SameC(FoldW(MaxW, ev.a, 2, DecW(ev.a[1])), DecW(ev.got))

\* ---- integers ----------------------------------------------------------------------------------
TyOf(ev) == Ty(ev.w, ev.sg = 1)
ZV(s) == [i \in 1..Len(s) |-> DecZ(s[i])]
\* the recorded outcome equals the predicted vector outcome
VecMatches(ev, exp) ==
    /\ exp.k = ev.out
    /\ exp.k = "val" => /\ Len(ev.got) = Len(exp.v)
                        /\ \A i \in 1..Len(exp.v) : exp.v[i] = <<9>> \/ exp.v[i] = ev.got[i]
ScalarMatches(ev, exp) == exp.k = ev.out /\ (exp.k = "val" => exp.v = ev.got)
I1ok(ev) == LET T == TyOf(ev) a == ZV(ev.a) IN
    VecMatches(ev, VecOut([i \in 1..Len(a) |-> Lane1(T, ev.p, ev.op, a[i])]))
I2ok(ev) == LET T == TyOf(ev) a == ZV(ev.a) b == ZV(ev.b) IN
    VecMatches(ev, VecOut([i \in 1..Len(a) |-> Lane2(T, ev.p, ev.op, a[i], b[i])]))
IMok(ev) == LET T == TyOf(ev) a == ZV(ev.a) b == ZV(ev.b) IN
    /\ ev.op \in MixedOps(T)
    /\ VecMatches(ev, VecOut([i \in 1..Len(a) |-> LaneMixed(T, ev.op, a[i], b[i])]))
ISok(ev) == LET T == TyOf(ev) a == ZV(ev.a) c == ZV(ev.c) IN
    VecMatches(ev, VecOut([i \in 1..Len(a) |-> Shift(T, ev.p, ev.op, a[i], c[i])]))
I3ok(ev) == LET a == ZV(ev.a) b == ZV(ev.b) c == ZV(ev.c) IN
    VecMatches(ev, VecOut([i \in 1..Len(a) |-> Clamp(a[i], b[i], c[i])]))
IR1ok(ev) == LET T == TyOf(ev) v == ZV(ev.a) p == ev.p IN
    ScalarMatches(ev,
        CASE ev.op = "element_sum"     -> ScalarOut(ElementSum(T, p, v))
          [] ev.op = "element_product" -> ScalarOut(ElementProduct(T, p, v))
          [] ev.op = "length_squared"  -> ScalarOut(LengthSquared(T, p, v))
          [] ev.op = "min_element"     -> ScalarOut(Val(v[MinPos(v) + 1]))
          [] ev.op = "max_element"     -> ScalarOut(Val(v[MaxPos(v) + 1]))
          [] ev.op = "min_position"    -> ScalarOut(Val(ZOf(MinPos(v))))
          [] ev.op = "max_position"    -> ScalarOut(Val(ZOf(MaxPos(v)))))
IR2ok(ev) == LET T == TyOf(ev) v == ZV(ev.a) w == ZV(ev.b) p == ev.p IN
    ScalarMatches(ev,
        CASE ev.op = "dot"                -> ScalarOut(Dot(T, p, v, w))
          [] ev.op = "distance_squared"   -> ScalarOut(DistanceSquared(T, p, v, w))
          [] ev.op = "manhattan_distance" -> ScalarOut(Manhattan(T, p, v, w))
          [] ev.op = "checked_manhattan_distance" -> ScalarOut(CheckedManhattan(T, v, w))
          [] ev.op = "chebyshev_distance" -> ScalarOut(Chebyshev(v, w)))

\* ---- conversions -------------------------------------------------------------------------------
IsF(d) == "f" \in DOMAIN d
TyD(d) == Ty(d.w, d.sg = 1)
\* the exact integer value of a finite float that is an integer (used for the lossless check)
CvLane(ev, i) ==
    LET s == ev.s t == ev.t IN
    IF IsF(s) THEN
        LET x == DecW(ev.a[i]) IN
        IF IsF(t) THEN SameC(NarrowW(FmtOf(t.f), x), DecW(ev.got[i]))                       \* f64 -> f32 rounds, f32 -> f64 exact
        ELSE DecZ(ev.got[i]) = ToIntSatW(x, TMin(TyD(t)), TMax(TyD(t)))                     \* truncate, saturate, NaN -> 0
    ELSE
        LET x == DecZ(ev.a[i]) IN
        IF IsF(t) THEN
            LET g == DecW(ev.got[i]) IN
            /\ SameC(WOfInt(FmtOf(t.f), x), g)                                               \* nearest, ties to even
            /\ ev.op = "from" => (IsFinW(g) /\ (IF IsZeroW(g) THEN x = Z0
                                   ELSE IF g.e >= 0 THEN Z(g.s, NatShl(g.m, g.e)) = x ELSE Z(g.s, g.m) = Z(x.s, NatShl(x.m, -g.e))))   \* From is lossless
        ELSE IF ev.op = "as" THEN DecZ(ev.got[i]) = Wrap(TyD(t), x)                        \* narrowing wraps
        ELSE DecZ(ev.got[i]) = x /\ InRange(TyD(t), x)                                       \* From / successful TryFrom: the same number
CVok(ev) ==
    IF ev.op = "try" THEN
        LET fits == \A i \in Lanes(ev) : InRange(TyD(ev.t), DecZ(ev.a[i])) IN
        IF fits THEN ev.out = "ok" /\ Len(ev.got) = Len(ev.a) /\ \A i \in Lanes(ev) : CvLane(ev, i)
        ELSE ev.out = "err"
    ELSE ev.out = "ok" /\ Len(ev.got) = Len(ev.a) /\ \A i \in Lanes(ev) : CvLane(ev, i)

Matches(ev) ==
    /\ ~Has(ev, "panic") \/ ev.k \in {"i1", "i2", "i3", "im", "is", "ir1", "ir2"}      \* a float op or conversion never panics
    /\ CASE ev.k = "f1" -> F1ok(ev) [] ev.k = "f2" -> F2ok(ev) [] ev.k = "fc" -> FCok(ev)
         [] ev.k = "f3" -> F3ok(ev) [] ev.k = "fr" -> FRok(ev)
         [] ev.k = "i1" -> I1ok(ev) [] ev.k = "i2" -> I2ok(ev) [] ev.k = "im" -> IMok(ev)
         [] ev.k = "is" -> ISok(ev) [] ev.k = "i3" -> I3ok(ev) [] ev.k = "ir1" -> IR1ok(ev) [] ev.k = "ir2" -> IR2ok(ev)
         [] ev.k = "cv" -> CVok(ev)
         [] OTHER -> FALSE

VARIABLE l
Init == l = 1
Next == /\ l <= Len(Rec)
        /\ Matches(Rec[l]) = TRUE              \* "= TRUE": evaluated as one state predicate (TLC would split the disjunctions inside into separate actions)
        /\ l' = l + 1
Spec == Init /\ [][Next]_l
Accepted ==
    IF TLCGet("stats").diameter = Len(Rec) + 1 THEN TRUE
    ELSE /\ PrintT(<<"TRACE-REJECTED", "matched", TLCGet("stats").diameter - 1, "of", Len(Rec)>>)
         /\ PrintT(<<"FIRST-REJECTED-EVENT", ToJson(Rec[TLCGet("stats").diameter])>>)
         /\ FALSE
=============================================================================
