SPECIFICATION Spec
CONSTANT Tier = "quick"
INVARIANT Emit
INVARIANT SelectLaw
CHECK_DEADLOCK FALSE
