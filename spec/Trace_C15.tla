----------------------------- MODULE Trace_C15 ------------------------------
(***************************************************************************)
(* Trace validation (code -> specification) of the mask machine of C15.    *)
(* The harness (`rec mask`) drives BVec2/3/4 and BVec3A/4A through random  *)
(* histories of constructors, !, the six binary operator forms (operand    *)
(* masks from every producer: constructors, lane-by-lane set, vector       *)
(* comparisons with the hidden lane true / false / NaN-produced), set(i,v) *)
(* and out-of-range test / set, and logs after every step everything that  *)
(* can be observed about the register: test(i) of every lane, bitmask,     *)
(* any, all, the [bool; N] and [u32; N] conversions, and the lanes as seen *)
(* by select on a vector.  Each event is one action of MC_C15.tla's        *)
(* machine (MaskCtor / MaskNot / MaskBin / MaskSet) with its arguments     *)
(* bound to the logged values; every logged observation must be the        *)
(* function of the register the specification gives.                       *)
(***************************************************************************)
EXTENDS MC_C15, IOUtils
Rec == ndJsonDeserialize(IOEnv.TRACE)
VARIABLE l
tvars == <<n, m0, m, hist, l>>

Ev1 == Rec[l]
\* everything the event observed is the specification's function of the register v
ObsOk(e, v) ==
    LET o == e.obs IN
    /\ o.test = v /\ o.arr = v /\ o.sel = v
    /\ o.bitmask = Bitmask(v) /\ o.any = MAny(v) /\ o.all = MAll(v)
    /\ o.u32 = [i \in 1..Len(v) |-> IF v[i] THEN 1 ELSE 0]
    /\ o.eqfresh = TRUE                                  \* == with a freshly constructed mask of the same lanes (both ways, and != false)

Begin ==
    /\ Ev1.op = "begin"
    /\ n' = Ev1.n /\ m' = Ev1.obs.test /\ m0' = Ev1.obs.test /\ Len(Ev1.obs.test) = Ev1.n
    /\ ObsOk(Ev1, Ev1.obs.test)
    /\ UNCHANGED hist
TCtor == /\ Ev1.op = "ctor" /\ MaskCtor(Ev1.path, Ev1.arg) /\ ObsOk(Ev1, m') /\ UNCHANGED <<n, m0, hist>>
TNot  == /\ Ev1.op = "not"  /\ MaskNot /\ ObsOk(Ev1, m') /\ UNCHANGED <<n, m0, hist>>
TBin  == /\ Ev1.op = "bin"  /\ MaskBin(Ev1.path, Ev1.arg) /\ ObsOk(Ev1, m') /\ UNCHANGED <<n, m0, hist>>
TSet  == /\ Ev1.op = "set"  /\ MaskSet(Ev1.idx + 1, Ev1.val) /\ ObsOk(Ev1, m') /\ UNCHANGED <<n, m0, hist>>
\* an out-of-range index panics (logged as panicked = TRUE) and leaves the register as it was
TBad  == /\ Ev1.op = "badindex" /\ Ev1.path \in {"test", "set"} /\ Ev1.idx >= n
         /\ Ev1.panicked = TRUE
         /\ ObsOk(Ev1, m) /\ UNCHANGED <<n, m0, m, hist>>

TraceInit == l = 1 /\ n = 2 /\ m = <<FALSE, FALSE>> /\ m0 = m /\ hist = <<>>
TraceNext == /\ l <= Len(Rec)
             /\ (Begin \/ TCtor \/ TNot \/ TBin \/ TSet \/ TBad)
             /\ l' = l + 1
TraceSpec == TraceInit /\ [][TraceNext]_tvars
Accepted ==
    IF TLCGet("stats").diameter = Len(Rec) + 1 THEN TRUE
    ELSE /\ PrintT(<<"TRACE-REJECTED", "matched", TLCGet("stats").diameter - 1, "of", Len(Rec)>>)
         /\ PrintT(<<"FIRST-REJECTED-EVENT", ToJson(Rec[TLCGet("stats").diameter])>>)
         /\ FALSE
=============================================================================
