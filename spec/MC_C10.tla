------------------------------- MODULE MC_C10 -------------------------------
(***************************************************************************)
(* C10: scale-rotation-translation composition and decomposition.          *)
(* Compose(s, R, t) = T * R * S: column i of the linear part is column i   *)
(* of R times s_i, the translation is the last column.  Scales +-2^j,      *)
(* rotations on the exact 45-degree grid, integer translations.            *)
(***************************************************************************)
EXTENDS Rot, FiniteSets, Json
CONSTANTS Tier, Seed
VARIABLES ph, call, res
vars == <<ph, call, res>>
Quick == Tier = "quick"

Pow(j) == IF j >= 0 THEN R(2 ^ j, 0, 0) ELSE R(1, 0, -j)         \* 2^j in the ring
ScaleVal(sg, j) == IF sg = 1 THEN RNeg(Pow(j)) ELSE Pow(j)
Signs3 == {<<a, b, c>> : a, b, c \in {0, 1}}
\* exponents of the three scale magnitudes; 2^-10 .. 2^10 spans the property's [1e-3, 1e3]
Mags3 == IF Quick THEN {<<0, 1, -1>>, <<2, -2, 1>>, <<-10, -10, -9>>, <<10, -10, 0>>, <<9, 10, 10>>}
         ELSE {<<0, 0, 0>>, <<0, 1, -1>>, <<2, -2, 1>>, <<1, 2, 0>>, <<-1, -1, -2>>, <<-10, -10, -9>>, <<10, -10, 0>>, <<9, 10, 10>>, <<-10, 3, 10>>}
Seeds3 == IF Quick THEN {<<a, b, c>> \in (-3..4) \X (-3..4) \X (-3..4) : (a + 2 * b + 3 * c + Seed) % 29 = 0}
          ELSE {<<a, b, c>> \in (-3..4) \X (-3..4) \X (-3..4) : (a + 2 * b + 3 * c + Seed) % 5 = 0}
Trans3 == {<<1, -2, 3>>, <<0, 0, 0>>, <<3, -5, 7>>, <<-40, 24, 12>>}
Calls ==
         \* j = 1: the same translation times a huge power of two (2^121 in f32, 2^1017 in f64): any finite translation is in the domain
         [kind : {"srt3"}, seed : Seeds3, sg : Signs3, mag : Mags3, t : Trans3, j : {0, 1}, dk : {0}]
         \* dk > 0: the same off the grid (angles shifted, scales away from the powers of two): round trip and mutual agreement only
    \cup [kind : {"srt3"}, seed : Seeds3, sg : Signs3, mag : Mags3, t : {<<3, -5, 7>>}, j : {0}, dk : {20}]
    \cup [kind : {"srt2"}, seed : {<<0, 0, 0>>}, sg : {<<a, b, 0>> : a, b \in {0, 1}}, mag : Mags3, t : {<<5, -7, 0>>, <<0, 0, 0>>, <<-48, 96, 0>>}, j : -3..4, dk : {0}]
         \* dk > 0: the angle j pi/4 + 2^-dk, just off the grid (the decomposed angle within 1e-5 .. 1e-8 of 0, +-pi/2 or pi, where an
         \* arccosine-based angle would be ill-conditioned): the harness checks these by the round trip alone
    \cup [kind : {"srt2"}, seed : {<<0, 0, 0>>}, sg : {<<a, b, 0>> : a, b \in {0, 1}}, mag : Mags3, t : {<<5, -7, 0>>}, j : -3..4, dk : {17, 26}]

Eval(c) ==
    IF c.kind = "srt3" THEN
        LET Rm == EulerMat(<<"X", "Y", "Z">>, FALSE, c.seed[1], c.seed[2], c.seed[3])
            s == [i \in 1..3 |-> ScaleVal(c.sg[i], c.mag[i])]
            lin == RMk(LAMBDA r, cc : RMul(RE(Rm, r, cc), s[cc + 1]))              \* R * diag(s)
            neg == (c.sg[1] + c.sg[2] + c.sg[3]) % 2 = 1
        IN [ lin |-> lin, rot |-> Rm, scale |-> s, t |-> [i \in 1..3 |-> RInt(c.t[i])],
             detneg |-> neg,
             \* the documented decomposition: |scale| with the sign of the determinant on x, and the rotation that goes with it
             dscale |-> [i \in 1..3 |-> IF i = 1 /\ neg THEN RNeg(Pow(c.mag[1])) ELSE Pow(c.mag[i])] ]
    ELSE
        LET R2 == Rot2(c.j)
            s == [i \in 1..2 |-> ScaleVal(c.sg[i], c.mag[i])]
            lin == << RMul(R2[1], s[1]), RMul(R2[2], s[1]), RMul(R2[3], s[2]), RMul(R2[4], s[2]) >>
        IN [ lin |-> lin, rot |-> R2, scale |-> s, t |-> [i \in 1..2 |-> RInt(c.t[i])], detneg |-> (c.sg[1] + c.sg[2]) % 2 = 1,
             dscale |-> <<>> ]

Init == ph = "call" /\ call \in Calls /\ res = <<>>
Next == ph = "call" /\ ph' = "ret" /\ res' = Eval(call) /\ UNCHANGED call
Spec == Init /\ [][Next]_vars
Emit == ph = "ret" => PrintT(<<"CASE", ToJson([fam |-> "srt", kind |-> call.kind, seed |-> call.seed, j |-> call.j,
                                                huge |-> IF call.kind = "srt3" THEN call.j ELSE 0,
                                                dk |-> call.dk, exp |-> res])>>)

\* the composed linear part has determinant product(s) and orthogonal columns of the given lengths
SrtTheorems ==
    \* (checked where the ring's 31-bit integers can hold the determinant: magnitudes 2^-3 .. 2^3)
    (ph = "ret" /\ call.kind = "srt3" /\ \A i \in 1..3 : call.mag[i] \in -3..3) =>
        LET L == res.lin  s == res.scale IN
        /\ RDet(L) = RMul(RMul(s[1], s[2]), s[3])
        /\ (RSign(RDet(L)) < 0) = res.detneg
        /\ \A i \in 0..2 : RDot([r \in 1..3 |-> RE(L, r - 1, i)], [r \in 1..3 |-> RE(L, r - 1, i)]) = RMul(s[i + 1], s[i + 1])
        /\ \A i, k \in 0..2 : i # k => RDot([r \in 1..3 |-> RE(L, r - 1, i)], [r \in 1..3 |-> RE(L, r - 1, k)]) = R0
=============================================================================
