-------------------------------- MODULE Big --------------------------------
(***************************************************************************)
(* Arbitrary-precision integers for TLC (whose own integers are 32 bit).   *)
(* A natural is a little-endian sequence of limbs in base 256 without      *)
(* trailing zero limbs (zero is <<>>); an integer is [s, m] with s = 1 for *)
(* negative values (never for zero).  Used for the 16/32/64-bit integer    *)
(* lanes; validated against native arithmetic on every 8-bit pair.         *)
(***************************************************************************)
EXTENDS Integers, Sequences, Bitwise

B == 256

RECURSIVE Trim(_)
Trim(a) == IF a = <<>> THEN a
           ELSE IF a[Len(a)] = 0 THEN Trim(SubSeq(a, 1, Len(a) - 1)) ELSE a

RECURSIVE NatOf(_)
NatOf(n) == IF n = 0 THEN <<>> ELSE <<n % B>> \o NatOf(n \div B)       \* n >= 0 native

RECURSIVE NatToInt(_)
NatToInt(a) == IF a = <<>> THEN 0 ELSE a[1] + B * NatToInt(Tail(a))      \* only when it fits

Limb(a, i) == IF i <= Len(a) THEN a[i] ELSE 0

RECURSIVE NatCmpFrom(_, _, _)
NatCmpFrom(a, b, i) == IF i = 0 THEN 0
                       ELSE IF Limb(a, i) < Limb(b, i) THEN -1
                       ELSE IF Limb(a, i) > Limb(b, i) THEN 1
                       ELSE NatCmpFrom(a, b, i - 1)
NatCmp(a, b) == IF Len(a) < Len(b) THEN -1 ELSE IF Len(a) > Len(b) THEN 1
                ELSE NatCmpFrom(a, b, Len(a))

RECURSIVE NatAddC(_, _, _, _)
NatAddC(a, b, i, c) ==
    IF i > Len(a) /\ i > Len(b) THEN (IF c = 0 THEN <<>> ELSE <<c>>)
    ELSE LET t == Limb(a, i) + Limb(b, i) + c IN <<t % B>> \o NatAddC(a, b, i + 1, t \div B)
NatAdd(a, b) == NatAddC(a, b, 1, 0)

RECURSIVE NatSubC(_, _, _, _)      \* a >= b
NatSubC(a, b, i, br) ==
    IF i > Len(a) THEN <<>>
    ELSE LET t == Limb(a, i) - Limb(b, i) - br IN
         IF t < 0 THEN <<t + B>> \o NatSubC(a, b, i + 1, 1)
         ELSE <<t>> \o NatSubC(a, b, i + 1, 0)
NatSub(a, b) == Trim(NatSubC(a, b, 1, 0))

\* a * d for a single limb-sized multiplier 0 <= d < 2^16
RECURSIVE NatMulSmallC(_, _, _, _)
NatMulSmallC(a, d, i, c) ==
    IF i > Len(a) THEN NatOf(c)
    ELSE LET t == a[i] * d + c IN <<t % B>> \o NatMulSmallC(a, d, i + 1, t \div B)
NatMulSmall(a, d) == IF d = 0 THEN <<>> ELSE NatMulSmallC(a, d, 1, 0)

ShiftLimbs(a, k) == IF a = <<>> THEN a ELSE [i \in 1..k |-> 0] \o a

RECURSIVE NatMulFrom(_, _, _)
NatMulFrom(a, b, j) == IF j > Len(b) THEN <<>>
                       ELSE NatAdd(ShiftLimbs(NatMulSmall(a, b[j]), j - 1), NatMulFrom(a, b, j + 1))
NatMul(a, b) == NatMulFrom(a, b, 1)

NatPow2(k) == ShiftLimbs(<<2 ^ (k % 8)>>, k \div 8)

\* low k bits / floor division by 2^k
NatModPow2(a, k) ==
    LET full == k \div 8
        rem  == k % 8
        lo   == [i \in 1..(IF Len(a) < full THEN Len(a) ELSE full) |-> a[i]]
    IN  IF rem = 0 \/ Len(a) <= full THEN Trim(lo)
        ELSE Trim(lo \o <<a[full + 1] % (2 ^ rem)>>)

RECURSIVE NatHalve(_, _)          \* floor(a / 2^r) for 0 <= r < 8, processing from the top limb
NatHalve(a, r) ==
    [i \in 1..Len(a) |-> (a[i] \div (2 ^ r)) + (Limb(a, i + 1) % (2 ^ r)) * (2 ^ (8 - r))]
NatShr(a, k) ==
    LET full == k \div 8
        rem  == k % 8
        hi   == IF Len(a) <= full THEN <<>> ELSE SubSeq(a, full + 1, Len(a))
    IN  IF rem = 0 THEN hi ELSE Trim(NatHalve(hi, rem))
NatShl(a, k) == IF a = <<>> THEN a ELSE ShiftLimbs(NatMulSmall(a, 2 ^ (k % 8)), k \div 8)     \* linear, not a general product

NatBit(a, k) == (Limb(a, (k \div 8) + 1) \div (2 ^ (k % 8))) % 2
NatBitLen(a) == IF a = <<>> THEN 0
                ELSE LET RECURSIVE bl(_)
                         bl(n) == IF n = 0 THEN 0 ELSE 1 + bl(n \div 2)
                     IN 8 * (Len(a) - 1) + bl(a[Len(a)])

\* binary long division: quotient and remainder of a / b, b # 0
RECURSIVE NatDivStep(_, _, _, _, _)
NatDivStep(a, b, i, q, r) ==
    IF i < 0 THEN [q |-> Trim(q), r |-> r]
    ELSE LET r2 == NatAdd(NatMulSmall(r, 2), IF NatBit(a, i) = 1 THEN <<1>> ELSE <<>>)
         IN  IF NatCmp(r2, b) >= 0
             THEN NatDivStep(a, b, i - 1, NatAdd(NatMulSmall(q, 2), <<1>>), NatSub(r2, b))
             ELSE NatDivStep(a, b, i - 1, NatMulSmall(q, 2), r2)
NatDivMod(a, b) == NatDivStep(a, b, NatBitLen(a) - 1, <<>>, <<>>)

\* bitwise operations on naturals (limb-wise; Bitwise module on 0..255)
NatBitOp(Op(_, _), a, b) ==
    LET n == IF Len(a) > Len(b) THEN Len(a) ELSE Len(b) IN
    Trim([i \in 1..n |-> Op(Limb(a, i), Limb(b, i))])
NatAnd(a, b) == NatBitOp(LAMBDA x, y : x & y, a, b)
NatOr(a, b)  == NatBitOp(LAMBDA x, y : x | y, a, b)
NatXor(a, b) == NatBitOp(LAMBDA x, y : x ^^ y, a, b)

---------------------------------------------------------------------------
\* signed integers
Z(s, m)  == [s |-> IF m = <<>> THEN 0 ELSE s, m |-> m]
ZOf(n)   == IF n < 0 THEN Z(1, NatOf(-n)) ELSE Z(0, NatOf(n))
Z0 == Z(0, <<>>)
Z1 == Z(0, <<1>>)
ZNeg(x)  == Z(1 - x.s, x.m)
ZIsNeg(x) == x.s = 1
ZAbs(x)  == Z(0, x.m)
ZCmp(x, y) == IF x.s # y.s THEN (IF x.s = 1 THEN -1 ELSE 1)
              ELSE IF x.s = 0 THEN NatCmp(x.m, y.m) ELSE NatCmp(y.m, x.m)
ZLt(x, y) == ZCmp(x, y) < 0
ZLe(x, y) == ZCmp(x, y) <= 0
ZAdd(x, y) == IF x.s = y.s THEN Z(x.s, NatAdd(x.m, y.m))
              ELSE IF NatCmp(x.m, y.m) >= 0 THEN Z(x.s, NatSub(x.m, y.m))
              ELSE Z(y.s, NatSub(y.m, x.m))
ZSub(x, y) == ZAdd(x, ZNeg(y))
ZMul(x, y) == Z((x.s + y.s) % 2, NatMul(x.m, y.m))
\* truncated division and remainder (Rust / and %), y # 0
ZDivT(x, y) == Z((x.s + y.s) % 2, NatDivMod(x.m, y.m).q)
ZRemT(x, y) == Z(x.s, NatDivMod(x.m, y.m).r)
ZPow2(k) == Z(0, NatPow2(k))
\* x mod 2^k as a non-negative integer (two's complement low bits)
ZModPow2(x, k) == IF x.s = 0 THEN Z(0, NatModPow2(x.m, k))
                  ELSE LET r == NatModPow2(x.m, k) IN
                       IF r = <<>> THEN Z0 ELSE Z(0, NatSub(NatPow2(k), r))
\* floor(x / 2^k)
ZFloorShr(x, k) == IF x.s = 0 THEN Z(0, NatShr(x.m, k))
                   ELSE \* -ceil(m / 2^k)
                        LET q == NatShr(x.m, k)
                            exact == NatModPow2(x.m, k) = <<>>
                        IN Z(1, IF exact THEN q ELSE NatAdd(q, <<1>>))
ZAndN(x, y) == Z(0, NatAnd(x.m, y.m))      \* on non-negative operands
ZOrN(x, y)  == Z(0, NatOr(x.m, y.m))
ZXorN(x, y) == Z(0, NatXor(x.m, y.m))
\* wire encoding: <<sign, limb0, limb1, ...>>
ZEnc(x) == <<x.s>> \o x.m
ZToInt(x) == IF x.s = 1 THEN -NatToInt(x.m) ELSE NatToInt(x.m)

=============================================================================
