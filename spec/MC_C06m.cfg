SPECIFICATION Spec
CONSTANT Tier = "quick"
INVARIANT Emit
INVARIANT MinorTheorem
INVARIANT AffineRoundTrip
CHECK_DEADLOCK FALSE
