SPECIFICATION Spec
CONSTANT Tier = "quick"
CONSTANT Seed = 1
INVARIANT Emit
INVARIANT ViewTheorems
INVARIANT ProjTheorems
CHECK_DEADLOCK FALSE
