SPECIFICATION Spec
CONSTANT Tier = "quick"
INVARIANT Emit
INVARIANT SliceTheorems
CHECK_DEADLOCK FALSE
