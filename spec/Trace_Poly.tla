----------------------------- MODULE Trace_Poly -----------------------------
(***************************************************************************)
(* Trace validation of "sums of products are exact up to a few epsilon     *)
(* times the sum of the absolute values of the terms" (C02, C03, C04, C06) *)
(* on ARBITRARY finite inputs.                                             *)
(*                                                                         *)
(* The harness (`rec poly`) logs, for each call, only the operands and the *)
(* result of the real code, decoded to exact integers.  The MATHEMATICS is *)
(* defined here: every result component is a polynomial in the operand     *)
(* entries, written as a sequence of signed monomials (sequences of        *)
(* factors).  The specification evaluates, with arbitrary-precision        *)
(* integers (module Big), the exact value S of the polynomial and the sum  *)
(* A of the absolute values of its monomials, and accepts the component    *)
(* iff          |got - S| <= K(op) * u * A ,    u = 2^-24 (f32), 2^-53 (f64)*)
(* where K(op) is about twice the number of roundings on the longest       *)
(* evaluation path of any reasonable evaluation order.                     *)
(* A wrong lane, sign, shuffle constant or operand order changes the       *)
(* result by a whole monomial, i.e. by about A / (number of monomials).    *)
(***************************************************************************)
EXTENDS Dyadic, FiniteSets, TLC, Json, IOUtils
Rec == ndJsonDeserialize(IOEnv.TRACE)

\* a dyadic number  z * 2^e  (z a Big integer)
\* wire form [s, e, limb...] (finite values only)
DecD(v) == DecDy(v)
MinI(a, b) == IF a <= b THEN a ELSE b

\* a monomial is [sg |-> 1 | -1, fs |-> sequence of dyadic factors]
Mono(sg, fs) == [sg |-> sg, fs |-> fs]
RECURSIVE ProdZ(_, _), ProdE(_, _)
ProdZ(fs, i) == IF i > Len(fs) THEN Z1 ELSE ZMul(fs[i].z, ProdZ(fs, i + 1))
ProdE(fs, i) == IF i > Len(fs) THEN 0 ELSE fs[i].e + ProdE(fs, i + 1)
MonoVal(m) == Dy(IF m.sg < 0 THEN ZNeg(ProdZ(m.fs, 1)) ELSE ProdZ(m.fs, 1), ProdE(m.fs, 1))

RECURSIVE MinExp(_, _, _)
MinExp(vals, i, acc) == IF i > Len(vals) THEN acc ELSE MinExp(vals, i + 1, MinI(acc, vals[i].e))
RECURSIVE SumAt(_, _, _, _)
\* sum of the values (or of their magnitudes) as an integer multiple of 2^em
SumAt(vals, i, em, abs) ==
    IF i > Len(vals) THEN Z0
    ELSE LET v == ZMul(IF abs THEN ZAbs(vals[i].z) ELSE vals[i].z, ZPow2(vals[i].e - em))
         IN ZAdd(v, SumAt(vals, i + 1, em, abs))

\* |got - sum of monomials| <= K * 2^-pbits * sum |monomials|
Within(poly, got, K, pbits) ==
    LET vals == [i \in 1..Len(poly) |-> MonoVal(poly[i])]
        em   == MinI(MinExp(vals, 1, got.e), got.e)
        S    == SumAt(vals, 1, em, FALSE)
        A    == SumAt(vals, 1, em, TRUE)
        G    == ZMul(got.z, ZPow2(got.e - em))
    IN  ZLe(ZMul(ZAbs(ZSub(G, S)), ZPow2(pbits)), ZMul(ZOf(K), A))

\* ---- polynomial algebra: polynomials are sequences of monomials ---------------------------------
PConst(x) == << Mono(1, <<x>>) >>
PNeg(p) == [i \in 1..Len(p) |-> Mono(-p[i].sg, p[i].fs)]
PAdd(p, q) == p \o q
PSub(p, q) == p \o PNeg(q)
PMul(p, q) == [k \in 1..(Len(p) * Len(q)) |->
                 LET i == ((k - 1) \div Len(q)) + 1  j == ((k - 1) % Len(q)) + 1
                 IN Mono(p[i].sg * q[j].sg, p[i].fs \o q[j].fs)]
PZero == << >>
RECURSIVE PSumSeq(_, _)
PSumSeq(ps, i) == IF i > Len(ps) THEN PZero ELSE ps[i] \o PSumSeq(ps, i + 1)

\* ---- the mathematics of each operation ------------------------------------------------------------
\* matrices are sequences of columns (column-major, as logged); entry (row r, column c) = M[c][r]
PDot(a, b) == PSumSeq([k \in 1..Len(a) |-> PMul(PConst(a[k]), PConst(b[k]))], 1)
PMatVec(M, v, r) == PSumSeq([k \in 1..Len(M) |-> PMul(PConst(M[k][r]), PConst(v[k]))], 1)
PMatMul(MA, MB, r, c) == PSumSeq([k \in 1..Len(MA) |-> PMul(PConst(MA[k][r]), PConst(MB[c][k]))], 1)
\* determinant: Leibniz sum over permutations
Perms(n) == {p \in [1..n -> 1..n] : \A x, y \in 1..n : x # y => p[x] # p[y]}
Inversions(p, n) == Cardinality({xy \in (1..n) \X (1..n) : xy[1] < xy[2] /\ p[xy[1]] > p[xy[2]]})
RECURSIVE SetToSeqL(_)
SetToSeqL(S) == IF S = {} THEN << >> ELSE LET x == CHOOSE y \in S : TRUE IN <<x>> \o SetToSeqL(S \ {x})
PDet(M) == LET n == Len(M)
               ps == SetToSeqL(Perms(n))
           IN [i \in 1..Len(ps) |-> Mono(IF Inversions(ps[i], n) % 2 = 0 THEN 1 ELSE -1, [c \in 1..n |-> M[c][ps[i][c]]])]
\* cross product, component i (1..3)
Nx(i) == (i % 3) + 1
PCross(a, b, i) == PSub(PMul(PConst(a[Nx(i)]), PConst(b[Nx(Nx(i))])), PMul(PConst(a[Nx(Nx(i))]), PConst(b[Nx(i)])))
\* quaternions as <<x, y, z, w>> of polynomials: Hamilton product from i^2 = j^2 = k^2 = ijk = -1
QMulP(p, q) == <<
    PAdd(PAdd(PMul(p[4], q[1]), PMul(p[1], q[4])), PSub(PMul(p[2], q[3]), PMul(p[3], q[2]))),
    PAdd(PAdd(PMul(p[4], q[2]), PMul(p[2], q[4])), PSub(PMul(p[3], q[1]), PMul(p[1], q[3]))),
    PAdd(PAdd(PMul(p[4], q[3]), PMul(p[3], q[4])), PSub(PMul(p[1], q[2]), PMul(p[2], q[1]))),
    PSub(PSub(PSub(PMul(p[4], q[4]), PMul(p[1], q[1])), PMul(p[2], q[2])), PMul(p[3], q[3])) >>
QOf(q) == [i \in 1..4 |-> PConst(q[i])]
QConjP(q) == <<PNeg(q[1]), PNeg(q[2]), PNeg(q[3]), q[4]>>
QVec(v) == <<PConst(v[1]), PConst(v[2]), PConst(v[3]), PZero>>
\* rotation of a vector: the vector part of q v q*   (a polynomial identity for every q, unit or not)
QRotP(q, v) == QMulP(QMulP(QOf(q), QVec(v)), QConjP(QOf(q)))

\* vector-valued polynomials, component i
PC(x) == PConst(x)
\* a (1 - t) + b t: the two terms the documentation names; 1 - t is one exact factor, so for t near 1 the bound does not
\* contain |a| (an evaluation as (a - t a) + t b loses accuracy there and is rejected)
PLerp(a, b, t, i) == PAdd(PMul(PC(a[i]), PC(DySub(Dy1, t))), PMul(PC(t), PC(b[i])))
PHalf == PC(Dy(Z1, -1))
PMid(a, b, i) == PAdd(PMul(PHalf, PC(a[i])), PMul(PHalf, PC(b[i])))
PTwo == PC(DyInt(2))
PReflect(a, nrm, i) == PSub(PC(a[i]), PMul(PMul(PTwo, PDot(a, nrm)), PC(nrm[i])))                 \* a - 2 (a.n) n
PProjN(a, nrm, i) == PMul(PDot(a, nrm), PC(nrm[i]))                                               \* (a.n) n
PRejN(a, nrm, i) == PSub(PC(a[i]), PProjN(a, nrm, i))
\* squared distance: the terms combined are the squared DIFFERENCES (each difference is one rounding of an exact value), so the
\* bound is relative to sum (a_k - b_k)^2 itself -- the expansion |a|^2 - 2 a.b + |b|^2 cancels catastrophically for nearby points far
\* from the origin and is rejected
PDist2(a, b) == PSumSeq([k \in 1..Len(a) |-> PMul(PC(DySub(a[k], b[k])), PC(DySub(a[k], b[k])))], 1)

DV(s) == [i \in 1..Len(s) |-> DecD(s[i])]
DM(m) == [c \in 1..Len(m) |-> DV(m[c])]
PBits(ev) == IF ev.f = 32 THEN 24 ELSE 53

\* K: about twice the number of roundings on the longest path
KOf(op, n) ==
    CASE op \in {"dot", "mul_vec", "mat_mul", "length_squared"} -> n + 5
      [] op \in {"cross", "perp_dot"} -> 6
      [] op = "affine_point" -> n + 6
      [] op = "det" -> IF n = 2 THEN 6 ELSE IF n = 3 THEN 12 ELSE 24
      [] op \in {"lerp", "midpoint"} -> 6
      [] op \in {"reflect", "project_onto_normalized", "reject_from_normalized"} -> n + 8
      [] op = "distance_squared" -> n + 6
      [] op = "quat_mul" -> 10
      [] op = "quat_rot" -> 20


\* ---- inverse (C03): M inverse(M) = inverse(M) M = I within epsilon times a condition number that is itself a polynomial ----------
\* With X = adj(M) / det(M) computed in floating point, the error of X[k][j] is at most c u (P_kj + Perm |X_kj|) / |det|, where
\* P_kj is the sum of the magnitudes of the monomials of the cofactor behind X_kj and Perm the same for the determinant
\* (the permanent of |M|).  Multiplying the residuals by |det| keeps everything polynomial:
\*     |det| |(M X - I)_ij| <= K u sum_k |M_ik| (P_kj + Perm |X_kj|)        and the mirrored bound for X M - I.
PolyVal(poly) == DySumSeq([i \in 1..Len(poly) |-> MonoVal(poly[i])], 1)
PolyAbs(poly) == DySumSeq([i \in 1..Len(poly) |-> DyAbs(MonoVal(poly[i]))], 1)
\* M without row r and column c (1-based), as columns
Minor(M, r, c) == LET n == Len(M) IN
                  [cc \in 1..(n - 1) |-> [rr \in 1..(n - 1) |-> M[IF cc < c THEN cc ELSE cc + 1][IF rr < r THEN rr ELSE rr + 1]]]
CofAbs(M, k, j) == IF Len(M) = 1 THEN Dy1 ELSE PolyAbs(PDet(Minor(M, j, k)))      \* X[k][j] = (-1)^(k+j) det(M without row j, column k) / det
Ent(A, r, c) == A[c][r]
InverseOk(ev) ==
    LET pb == PBits(ev) M == DM(ev.m) X == DM(ev.got) n == Len(M)
        dp == PDet(M) D == DyAbs(PolyVal(dp)) Perm == PolyAbs(dp)
        K == DyScale(DyInt(1), 6 - pb)                                            \* 64 u
        Delta(i, j) == IF i = j THEN Dy1 ELSE Dy0
        Right(i, j) == DySub(DySumSeq([k \in 1..n |-> DyMul(Ent(M, i, k), Ent(X, k, j))], 1), Delta(i, j))
        Left(i, j)  == DySub(DySumSeq([k \in 1..n |-> DyMul(Ent(X, i, k), Ent(M, k, j))], 1), Delta(i, j))
        \* |det| times the error bound of X[k][j], over c u  (a function: evaluated once per entry)
        EX == [k \in 1..n |-> [j \in 1..n |-> DyAdd(CofAbs(M, k, j), DyMul(Perm, DyAbs(Ent(X, k, j))))]]
        BR(i, j) == DySumSeq([k \in 1..n |-> DyMul(DyAbs(Ent(M, i, k)), EX[k][j])], 1)
        BL(i, j) == DySumSeq([k \in 1..n |-> DyMul(EX[i][k], DyAbs(Ent(M, k, j)))], 1) IN
    /\ DyIsPos(D)
    /\ \A i \in 1..n : \A j \in 1..n :
          /\ DyLe(DyMul(D, DyAbs(Right(i, j))), DyMul(K, BR(i, j)))
          /\ DyLe(DyMul(D, DyAbs(Left(i, j))), DyMul(K, BL(i, j)))

Ok(ev) ==
    LET pb == PBits(ev) IN
    CASE ev.op = "dot" -> LET a == DV(ev.a) b == DV(ev.b) IN Within(PDot(a, b), DecD(ev.got), KOf("dot", Len(a)), pb)
      [] ev.op = "cross" -> LET a == DV(ev.a) b == DV(ev.b) g == DV(ev.got) IN
                            \A i \in 1..3 : Within(PCross(a, b, i), g[i], KOf("cross", 3), pb)
      [] ev.op = "perp_dot" -> LET a == DV(ev.a) b == DV(ev.b) IN
                            Within(PSub(PMul(PConst(a[1]), PConst(b[2])), PMul(PConst(a[2]), PConst(b[1]))), DecD(ev.got), KOf("perp_dot", 2), pb)
      [] ev.op = "mul_vec" -> LET M == DM(ev.m) v == DV(ev.v) g == DV(ev.got) IN
                            /\ Len(g) = Len(M[1])
                            /\ \A r \in 1..Len(g) : Within(PMatVec(M, v, r), g[r], KOf("mul_vec", Len(M)), pb)
      [] ev.op = "mat_mul" -> LET MA == DM(ev.a) MB == DM(ev.b) G == DM(ev.got) IN
                            /\ Len(G) = Len(MB)
                            /\ \A c \in 1..Len(MB) : \A r \in 1..Len(MA[1]) : Within(PMatMul(MA, MB, r, c), G[c][r], KOf("mat_mul", Len(MA)), pb)
      [] ev.op = "det" -> LET M == DM(ev.m) IN Within(PDet(M), DecD(ev.got), KOf("det", Len(M)), pb)
      [] ev.op = "affine_point" ->          \* linear part m (n columns), translation t, point v:  m v + t
                            LET M == DM(ev.m) t == DV(ev.t) v == DV(ev.v) g == DV(ev.got) IN
                            \A r \in 1..Len(g) : Within(PAdd(PMatVec(M, v, r), PConst(t[r])), g[r], KOf("affine_point", Len(M)), pb)
      [] ev.op = "lerp" -> LET a == DV(ev.a) b == DV(ev.b) t == DecD(ev.t) g == DV(ev.got) IN
                            \A i \in 1..Len(a) : Within(PLerp(a, b, t, i), g[i], KOf("lerp", Len(a)), pb)
      [] ev.op = "midpoint" -> LET a == DV(ev.a) b == DV(ev.b) g == DV(ev.got) IN
                            \A i \in 1..Len(a) : Within(PMid(a, b, i), g[i], KOf("midpoint", Len(a)), pb)
      [] ev.op = "reflect" -> LET a == DV(ev.a) b == DV(ev.b) g == DV(ev.got) IN
                            \A i \in 1..Len(a) : Within(PReflect(a, b, i), g[i], KOf("reflect", Len(a)), pb)
      [] ev.op = "project_onto_normalized" -> LET a == DV(ev.a) b == DV(ev.b) g == DV(ev.got) IN
                            \A i \in 1..Len(a) : Within(PProjN(a, b, i), g[i], KOf("project_onto_normalized", Len(a)), pb)
      [] ev.op = "reject_from_normalized" -> LET a == DV(ev.a) b == DV(ev.b) g == DV(ev.got) IN
                            \A i \in 1..Len(a) : Within(PRejN(a, b, i), g[i], KOf("reject_from_normalized", Len(a)), pb)
      [] ev.op = "distance_squared" -> LET a == DV(ev.a) b == DV(ev.b) IN Within(PDist2(a, b), DecD(ev.got), KOf("distance_squared", Len(a)), pb)
      [] ev.op = "inverse" -> InverseOk(ev)
      [] ev.op = "quat_mul" -> LET p == DV(ev.a) q == DV(ev.b) g == DV(ev.got) P == QMulP(QOf(p), QOf(q)) IN
                            \A i \in 1..4 : Within(P[i], g[i], KOf("quat_mul", 4), pb)
      [] ev.op = "quat_rot" -> LET q == DV(ev.a) v == DV(ev.v) g == DV(ev.got) P == QRotP(q, v) IN
                            \A i \in 1..3 : Within(P[i], g[i], KOf("quat_rot", 4), pb)
      [] OTHER -> FALSE

\* theorems about the definitions themselves, checked once at start-up on a fixed example (ASSUME):
\* the Leibniz determinant of a 3x3 integer matrix and the Hamilton product of basis quaternions
I(n) == DyInt(n)
ExM == << <<I(2), I(0), I(1)>>, <<I(1), I(3), I(-1)>>, <<I(0), I(5), I(4)>> >>        \* columns; det = 2*(12+5) - 0 + 1*(5-0) = 39
ASSUME Within(PDet(ExM), DyInt(39), 0, 24)
ASSUME LET P == QMulP(QOf(<<I(1), I(0), I(0), I(0)>>), QOf(<<I(0), I(1), I(0), I(0)>>)) IN       \* i * j = k
       /\ Within(P[3], DyInt(1), 0, 24) /\ Within(P[1], DyInt(0), 0, 24) /\ Within(P[2], DyInt(0), 0, 24) /\ Within(P[4], DyInt(0), 0, 24)
ASSUME LET P == QRotP(<<I(0), I(0), I(1), I(1)>>, <<I(1), I(0), I(0)>>) IN                        \* (1 + k) x (1 - k) = 2 y : a quarter turn about z, scaled by |q|^2 = 2
       /\ Within(P[1], DyInt(0), 0, 24) /\ Within(P[2], DyInt(2), 0, 24) /\ Within(P[3], DyInt(0), 0, 24)

VARIABLE l
Init == l = 1
Next == /\ l <= Len(Rec)
        /\ Ok(Rec[l]) = TRUE
        /\ l' = l + 1
Spec == Init /\ [][Next]_l
Accepted ==
    IF TLCGet("stats").diameter = Len(Rec) + 1 THEN TRUE
    ELSE /\ PrintT(<<"TRACE-REJECTED", "matched", TLCGet("stats").diameter - 1, "of", Len(Rec)>>)
         /\ PrintT(<<"FIRST-REJECTED-EVENT", ToJson(Rec[TLCGet("stats").diameter])>>)
         /\ FALSE
=============================================================================
