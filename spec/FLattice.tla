----------------------------- MODULE FLattice -----------------------------
(***************************************************************************)
(* The finite lattices of IEEE scalars the model checker enumerates.       *)
(* Every element is exactly representable in binary32 (hence in binary64), *)
(* so the same operands are replayed on f32 and f64 types.                 *)
(***************************************************************************)
EXTENDS Ieee

CONSTANT Tier     \* "quick" | "thorough"

Signed(S) == S \o [i \in 1..Len(S) |-> NegF(S[i])]

\* k/4 for k in ks : every x.25 / x.5 / x.75 tie and near-tie
QuarterKs == IF Tier = "quick"
             THEN <<1, 2, 3, 4, 6, 7, 10, 11, 12, 14, 20, 22>>
             ELSE [k \in 1..40 |-> k]
Quarters == [i \in 1..Len(QuarterKs) |-> Canon(0, QuarterKs[i], -2)]

Specials == << Zero(0), Inf(0), NaN(0) >>

Extremes == <<
    Fin(0, 1, -149),          \* smallest subnormal
    Fin(0, 3, -149),          \* a subnormal with two bits
    Fin(0, 1, -126),          \* smallest normal
    Fin(0, 16777215, 104),    \* f32::MAX
    Fin(0, 1, 100),           \* 2^100
    Fin(0, 3, -100),          \* 3 * 2^-100
    Fin(0, 1, -80),           \* square underflows in f32
    Fin(0, 1, 70),            \* square overflows in f32
    Fin(0, 4097, -12),        \* 1 + 2^-12  (fma-sensitive)
    Fin(0, 2049, -11),        \* 1 + 2^-11
    Fin(0, 1, 22),            \* 2^22
    Fin(0, 8388609, -1),      \* 2^22 + 1/2
    Fin(0, 8388607, -1),      \* 2^22 - 1/2
    Fin(0, 4194305, 0),       \* 2^22 + 1
    Fin(0, 16777215, -1),     \* 2^23 - 1/2  (largest f32 with a fraction)
    Fin(0, 1, 23),            \* 2^23
    Fin(0, 8388609, 0),       \* 2^23 + 1
    Fin(0, 8388607, 0),       \* 2^23 - 1
    Fin(0, 1, 24),            \* 2^24
    Fin(0, 16777215, 0),      \* 2^24 - 1
    Fin(0, 8388609, 1),       \* 2^24 + 2
    Fin(0, 1, 31),            \* 2^31
    Fin(0, 16777215, 7),      \* 2^31 - 128
    Fin(0, 8388609, 8),       \* 2^31 + 256
    Fin(0, 1, 32),            \* 2^32
    Fin(0, 1, 63),            \* 2^63
    Fin(0, 1, 64),            \* 2^64
    Fin(0, 3, 20),            \* 3 * 2^20
    Fin(0, 5, -20),           \* 5 * 2^-20
    Fin(0, 7, 0)              \* 7
>>

RawF1 == Signed(Specials \o Quarters \o Extremes)
\* pad to a multiple of four so that four consecutive indices never wrap unevenly
PadTo4(S) == LET r == Len(S) % 4 IN
             IF r = 0 THEN S ELSE S \o [i \in 1..(4 - r) |-> S[i + 3]]
F1 == PadTo4(RawF1)
N1 == Len(F1)

\* a small lattice for ternary operations
RawF3 == Signed(<< Zero(0), Inf(0), NaN(0), Fin(0,1,-1), Fin(0,1,0), Fin(0,3,-1),
                   Fin(0,5,-1), Fin(0,3,0), Fin(0,4097,-12), Fin(0,2049,-11),
                   Fin(0,1,-149), Fin(0,16777215,104), Fin(0,1,23), Fin(0,7,-2) >>)
F3 == PadTo4(RawF3)
N3 == Len(F3)

Wrap1(i, n) == ((i - 1) % n) + 1

=============================================================================
