SPECIFICATION Spec
CONSTANT Tier = "quick"
CONSTANT Seed = 1
INVARIANT Emit
INVARIANT Theorems
INVARIANT AffTheorems
CHECK_DEADLOCK FALSE
