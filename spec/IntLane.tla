------------------------------ MODULE IntLane ------------------------------
(***************************************************************************)
(* Rust's integer primitives on W-bit lanes, as mathematics on unbounded   *)
(* integers (module Big) followed by the range rule of each family:        *)
(* plain operators panic on overflow in a debug profile and wrap in a      *)
(* release profile, checked_ return None, wrapping_ wrap, saturating_ clamp*)
(* Division by zero and MIN / -1 panic in every profile.                   *)
(*                                                                         *)
(* A type is [w, sg];  a profile is "dbg" or "rel";  an outcome is         *)
(* [k |-> "val" | "none" | "panic" | "any", v].                            *)
(***************************************************************************)
EXTENDS Big

Ty(w, sg) == [w |-> w, sg |-> sg]
Unsigned(T) == Ty(T.w, FALSE)
SignedOf(T) == Ty(T.w, TRUE)

TMin(T) == IF T.sg THEN ZNeg(ZPow2(T.w - 1)) ELSE Z0
TMax(T) == IF T.sg THEN ZSub(ZPow2(T.w - 1), Z1) ELSE ZSub(ZPow2(T.w), Z1)
InRange(T, x) == ZLe(TMin(T), x) /\ ZLe(x, TMax(T))
\* the unique representative of x modulo 2^w in the type's range
Wrap(T, x) == LET r == ZModPow2(x, T.w) IN
              IF T.sg /\ ~ZLt(r, ZPow2(T.w - 1)) THEN ZSub(r, ZPow2(T.w)) ELSE r
Sat(T, x) == IF ZLt(x, TMin(T)) THEN TMin(T) ELSE IF ZLt(TMax(T), x) THEN TMax(T) ELSE x
Bits(T, x) == ZModPow2(x, T.w)              \* the two's complement bit pattern as a natural
OfBits(T, b) == Wrap(T, b)
Log2W(T) == CASE T.w = 8 -> 3 [] T.w = 16 -> 4 [] T.w = 32 -> 5 [] T.w = 64 -> 6
ZM1 == ZNeg(Z1)

Val(x)  == [k |-> "val",   v |-> x]
None    == [k |-> "none",  v |-> Z0]
Panic   == [k |-> "panic", v |-> Z0]
AnyOut  == [k |-> "any",   v |-> Z0]
IsVal(o) == o.k = "val"

\* the overflow rule of the plain operators
Arith(T, p, exact) == IF InRange(T, exact) THEN Val(exact)
                      ELSE IF p = "dbg" THEN Panic ELSE Val(Wrap(T, exact))
Checked(T, exact)  == IF InRange(T, exact) THEN Val(exact) ELSE None

DivOverflows(T, x, y) == T.sg /\ x = TMin(T) /\ y = ZM1
ZMinOf(x, y) == IF ZLe(x, y) THEN x ELSE y
ZMaxOf(x, y) == IF ZLe(y, x) THEN x ELSE y

\* ---- unary ---------------------------------------------------------------
Lane1(T, p, op, x) ==
    CASE op = "neg"    -> Arith(T, p, ZNeg(x))
      [] op = "not"    -> Val(OfBits(T, ZSub(ZSub(ZPow2(T.w), Z1), Bits(T, x))))
      [] op = "abs"    -> Arith(T, p, ZAbs(x))
      [] op = "signum" -> Val(IF x = Z0 THEN Z0 ELSE IF ZIsNeg(x) THEN ZM1 ELSE Z1)

\* ---- binary, both operands of type T -------------------------------------
Lane2(T, p, op, x, y) ==
    CASE op = "add" -> Arith(T, p, ZAdd(x, y))
      [] op = "sub" -> Arith(T, p, ZSub(x, y))
      [] op = "mul" -> Arith(T, p, ZMul(x, y))
      [] op = "div" -> IF y = Z0 \/ DivOverflows(T, x, y) THEN Panic ELSE Val(ZDivT(x, y))
      [] op = "rem" -> IF y = Z0 \/ DivOverflows(T, x, y) THEN Panic ELSE Val(ZRemT(x, y))
      [] op = "min" -> Val(ZMinOf(x, y))
      [] op = "max" -> Val(ZMaxOf(x, y))
      [] op = "bitand" -> Val(OfBits(T, ZAndN(Bits(T, x), Bits(T, y))))
      [] op = "bitor"  -> Val(OfBits(T, ZOrN(Bits(T, x), Bits(T, y))))
      [] op = "bitxor" -> Val(OfBits(T, ZXorN(Bits(T, x), Bits(T, y))))
      [] op = "div_euclid" ->
            IF y = Z0 \/ DivOverflows(T, x, y) THEN Panic
            ELSE LET q == ZDivT(x, y) r == ZRemT(x, y) IN
                 IF ZIsNeg(r) THEN (IF ZIsNeg(y) THEN Val(ZAdd(q, Z1)) ELSE Val(ZSub(q, Z1)))
                 ELSE Val(q)
      [] op = "rem_euclid" ->
            IF y = Z0 \/ DivOverflows(T, x, y) THEN Panic
            ELSE LET r == ZRemT(x, y) IN
                 IF ZIsNeg(r) THEN Val(ZAdd(r, ZAbs(y))) ELSE Val(r)
      [] op = "checked_add" -> Checked(T, ZAdd(x, y))
      [] op = "checked_sub" -> Checked(T, ZSub(x, y))
      [] op = "checked_mul" -> Checked(T, ZMul(x, y))
      [] op = "checked_div" -> IF y = Z0 \/ DivOverflows(T, x, y) THEN None ELSE Val(ZDivT(x, y))
      [] op = "wrapping_add" -> Val(Wrap(T, ZAdd(x, y)))
      [] op = "wrapping_sub" -> Val(Wrap(T, ZSub(x, y)))
      [] op = "wrapping_mul" -> Val(Wrap(T, ZMul(x, y)))
      [] op = "wrapping_div" -> IF y = Z0 THEN Panic ELSE Val(Wrap(T, ZDivT(x, y)))
      [] op = "saturating_add" -> Val(Sat(T, ZAdd(x, y)))
      [] op = "saturating_sub" -> Val(Sat(T, ZSub(x, y)))
      [] op = "saturating_mul" -> Val(Sat(T, ZMul(x, y)))
      [] op = "saturating_div" -> IF y = Z0 THEN Panic ELSE Val(Sat(T, ZDivT(x, y)))
      [] op = "abs_diff" -> Val(ZAbs(ZSub(x, y)))                 \* result in Unsigned(T)
      [] op = "cmpeq" -> Val(IF x = y THEN Z1 ELSE Z0)
      [] op = "cmpne" -> Val(IF x # y THEN Z1 ELSE Z0)
      [] op = "cmplt" -> Val(IF ZLt(x, y) THEN Z1 ELSE Z0)
      [] op = "cmple" -> Val(IF ZLe(x, y) THEN Z1 ELSE Z0)
      [] op = "cmpgt" -> Val(IF ZLt(y, x) THEN Z1 ELSE Z0)
      [] op = "cmpge" -> Val(IF ZLe(y, x) THEN Z1 ELSE Z0)

\* ---- mixed signedness: x of type T, y of the other signedness, same width --
LaneMixed(T, op, x, y) ==
    CASE op \in {"checked_add_unsigned", "checked_add_signed"}       -> Checked(T, ZAdd(x, y))
      [] op = "checked_sub_unsigned"                                 -> Checked(T, ZSub(x, y))
      [] op \in {"wrapping_add_unsigned", "wrapping_add_signed"}     -> Val(Wrap(T, ZAdd(x, y)))
      [] op = "wrapping_sub_unsigned"                                -> Val(Wrap(T, ZSub(x, y)))
      [] op \in {"saturating_add_unsigned", "saturating_add_signed"} -> Val(Sat(T, ZAdd(x, y)))
      [] op = "saturating_sub_unsigned"                              -> Val(Sat(T, ZSub(x, y)))
MixedOps(T) == IF T.sg THEN {"checked_add_unsigned", "checked_sub_unsigned", "wrapping_add_unsigned",
                             "wrapping_sub_unsigned", "saturating_add_unsigned", "saturating_sub_unsigned"}
               ELSE {"checked_add_signed", "wrapping_add_signed", "saturating_add_signed"}

\* ---- shifts: count c is any integer (of any count type) --------------------
Shift(T, p, op, x, c) ==
    LET bad  == ZIsNeg(c) \/ ~ZLt(c, ZOf(T.w))
        ce   == NatToInt(ZModPow2(c, Log2W(T)).m)            \* release: count masked to w-1
    IN  IF bad /\ p = "dbg" THEN Panic
        ELSE IF op = "shl" THEN Val(Wrap(T, ZMul(x, ZPow2(ce))))
        ELSE Val(ZFloorShr(x, ce))

\* ---- ternary -----------------------------------------------------------------
Clamp(x, lo, hi) == IF ZLt(hi, lo) THEN AnyOut ELSE Val(ZMinOf(ZMaxOf(x, lo), hi))

\* ---- chains: left-to-right evaluation with the plain operators' overflow rule ----
\* fold of outcomes: a panic anywhere is a panic
Bind2(T, p, F(_, _), a, b) == IF a.k = "panic" \/ b.k = "panic" THEN Panic
                              ELSE Arith(T, p, F(a.v, b.v))
RECURSIVE ChainFrom(_, _, _, _, _, _)
ChainFrom(T, p, F(_, _), acc, s, i) ==
    IF i > Len(s) THEN acc ELSE ChainFrom(T, p, F, Bind2(T, p, F, acc, s[i]), s, i + 1)
SumChain(T, p, s)  == ChainFrom(T, p, ZAdd, s[1], s, 2)       \* s: sequence of outcomes
ProdChain(T, p, s) == ChainFrom(T, p, ZMul, s[1], s, 2)

Dot(T, p, a, b) == SumChain(T, p, [i \in 1..Len(a) |-> Arith(T, p, ZMul(a[i], b[i]))])
ElementSum(T, p, a)     == SumChain(T, p, [i \in 1..Len(a) |-> Val(a[i])])
ElementProduct(T, p, a) == ProdChain(T, p, [i \in 1..Len(a) |-> Val(a[i])])
LengthSquared(T, p, a)  == Dot(T, p, a, a)
DistanceSquared(T, p, a, b) ==
    LET d == [i \in 1..Len(a) |-> Arith(T, p, ZSub(a[i], b[i]))] IN
    IF \E i \in 1..Len(a) : d[i].k = "panic" THEN Panic
    ELSE LET dv == [i \in 1..Len(a) |-> d[i].v] IN Dot(T, p, dv, dv)
\* manhattan: sum of abs_diff in the unsigned type
Manhattan(T, p, a, b) ==
    SumChain(Unsigned(T), p, [i \in 1..Len(a) |-> Val(ZAbs(ZSub(a[i], b[i])))])
CheckedManhattan(T, a, b) ==
    LET U == Unsigned(T)
        RECURSIVE go(_, _)
        go(acc, i) == IF i > Len(a) THEN Val(acc)
                      ELSE LET t == ZAdd(acc, ZAbs(ZSub(a[i], b[i]))) IN
                           IF InRange(U, t) THEN go(t, i + 1) ELSE None
    IN go(Z0, 1)
RECURSIVE MaxOfSeq(_, _, _)
MaxOfSeq(s, i, best) == IF i > Len(s) THEN best ELSE MaxOfSeq(s, i + 1, ZMaxOf(best, s[i]))
Chebyshev(a, b) == LET d == [i \in 1..Len(a) |-> ZAbs(ZSub(a[i], b[i]))] IN Val(MaxOfSeq(d, 2, d[1]))

\* 3-lane cross product: each lane is  u*v - s*t  with both products and the difference checked
CrossLane(T, p, u, v, s, t) ==
    Bind2(T, p, ZSub, Arith(T, p, ZMul(u, v)), Arith(T, p, ZMul(s, t)))
Cross(T, p, a, b) == << CrossLane(T, p, a[2], b[3], b[2], a[3]),
                        CrossLane(T, p, a[3], b[1], b[3], a[1]),
                        CrossLane(T, p, a[1], b[2], b[1], a[2]) >>

RECURSIVE ArgExt(_, _, _, _)
\* first index of the minimum (dir = -1) or maximum (dir = 1), 1-based
ArgExt(a, dir, i, best) ==
    IF i > Len(a) THEN best
    ELSE IF (dir < 0 /\ ZLt(a[i], a[best])) \/ (dir > 0 /\ ZLt(a[best], a[i]))
         THEN ArgExt(a, dir, i + 1, i) ELSE ArgExt(a, dir, i + 1, best)
MinPos(a) == ArgExt(a, -1, 2, 1) - 1
MaxPos(a) == ArgExt(a, 1, 2, 1) - 1

\* ---- the lift: a vector operation panics if some lane panics, is None if some lane is None
VecOut(lanes) ==
    IF \E i \in 1..Len(lanes) : lanes[i].k = "panic" THEN [k |-> "panic", v |-> <<>>]
    ELSE IF \E i \in 1..Len(lanes) : lanes[i].k = "none" THEN [k |-> "none", v |-> <<>>]
    ELSE [k |-> "val", v |-> [i \in 1..Len(lanes) |-> IF lanes[i].k = "any" THEN <<9>> ELSE ZEnc(lanes[i].v)]]
ScalarOut(o) == IF o.k = "val" THEN [k |-> "val", v |-> ZEnc(o.v)] ELSE [k |-> o.k, v |-> <<>>]

=============================================================================
