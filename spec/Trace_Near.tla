----------------------------- MODULE Trace_Near -----------------------------
(***************************************************************************)
(* Two-trace validation with a tolerance: the same behaviours executed in  *)
(* a SIMD build and in the scalar-math build.  Each event carries every    *)
(* register value in Q14 fixed point; the property allows "the rounding    *)
(* slack of re-associated additions", here Tol units of 2^-14 scaled by    *)
(* the magnitude of the value.                                             *)
(***************************************************************************)
EXTENDS Integers, Sequences, TLC, Json, IOUtils
TraceA == ndJsonDeserialize(IOEnv.TRACE_A)
TraceB == ndJsonDeserialize(IOEnv.TRACE_B)
Tol == 2                                  \* 2 * 2^-14 = 1.2e-4 absolute, plus 2^-12 relative
AbsI(n) == IF n < 0 THEN -n ELSE n
Near(x, y) == AbsI(x - y) <= Tol + (AbsI(x) \div 4096)
VARIABLE l
Init == l = 1
Next == /\ l <= Len(TraceA) /\ l <= Len(TraceB)
        /\ TraceA[l].c = TraceB[l].c /\ TraceA[l].k = TraceB[l].k
        /\ Len(TraceA[l].q) = Len(TraceB[l].q)
        \* after an ill-conditioned step (a discontinuity or an amplification beyond 2^10: see tools/gen_c20.py, ILL) in either
        \* build the values are not comparable with a rounding slack; the event is consumed without the comparison
        /\ (TraceA[l].loose = 1 \/ TraceB[l].loose = 1 \/ \A i \in 1..Len(TraceA[l].q) : Near(TraceA[l].q[i], TraceB[l].q[i])) = TRUE
        /\ l' = l + 1
Spec == Init /\ [][Next]_l
Accepted ==
    LET ok == TLCGet("stats").diameter = Len(TraceA) + 1 /\ Len(TraceA) = Len(TraceB) IN
    IF ok THEN TRUE
    ELSE /\ PrintT(<<"SAMEBITS-REJECTED", "matched", TLCGet("stats").diameter - 1, "lenA", Len(TraceA), "lenB", Len(TraceB)>>)
         /\ (TLCGet("stats").diameter <= Len(TraceA) /\ TLCGet("stats").diameter <= Len(TraceB)) =>
               PrintT(<<"FIRST-DIFFERENCE", TraceA[TLCGet("stats").diameter], TraceB[TLCGet("stats").diameter]>>)
         /\ FALSE
=============================================================================
