SPECIFICATION Spec
CONSTANT Tier = "quick"
INVARIANT Emit
INVARIANT SerialTheorems
CHECK_DEADLOCK FALSE
