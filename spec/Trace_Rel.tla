----------------------------- MODULE Trace_Rel ------------------------------
(***************************************************************************)
(* Trace validation of RELATIONAL promises on arbitrary inputs (C02, C12): *)
(* the harness (`rec rel`) logs operands and results of the real code; the *)
(* specification states, as polynomial (in)equalities over exact dyadic    *)
(* rationals, the relation every acceptable result satisfies.  No square   *)
(* root, division or transcendental function is evaluated: lengths are     *)
(* compared through their squares, directions through dot products and the *)
(* Lagrange identity, angles through Chebyshev polynomials of cosines.     *)
(*                                                                         *)
(*  normalize       |r|^2 = 1 within 16 u, r parallel to v, same direction *)
(*  angle_parallel  the angle between (nearly) parallel vectors is finite  *)
(*                  and within T of 0 (same direction) or of pi (opposite) *)
(*  move_towards    within reach: the target itself; otherwise the step    *)
(*                  has length d within E, points at the target            *)
(*  slerp8          r_j = slerp(q0, q1, j/8), j = 0..8: all unit, r_0 = q0,*)
(*                  r_8 = +-q1 (shorter arc), and with c = <q0, r_1>:      *)
(*                  T_8(c) = |<q0,q1>|, <q0,r_j> = T_j(c),                 *)
(*                  <+-q1,r_j> = T_(8-j)(c)   (angle from the start is j/8 *)
(*                  of the total, T_n the Chebyshev polynomials)           *)
(*  rot_reach       rotate_towards by at least the remaining angle ends on *)
(*                  the target direction, finite, length preserved         *)
(*  view            look_to / look_at: rigid (orthonormal, det +1), eye to *)
(*                  the origin, dir to -Z / +Z, up into the +Y half of the *)
(*                  YZ plane with roll error <= 2^5 u / |dir x up|         *)
(*  euler           from_euler(order, a, b, c) is the product of the three *)
(*                  elementary rotations in the order the variant's name   *)
(*                  spells (reversed for the Ex variants); the elementary  *)
(*                  rotations have the exact 0/1 pattern of their axis and *)
(*                  the right-hand sign; to_euler rebuilds the rotation    *)
(*  quat_mat        a unit quaternion and a rotation matrix related by     *)
(*                  from_quat / from_mat3 (any branch) satisfy the         *)
(*                  quaternion-to-matrix polynomial entry by entry         *)
(*  proj            perspective / orthographic: zero pattern, clip w, near *)
(*                  and far planes to the documented depths, fov / box     *)
(*                  planes to +-1, for far/near up to 2^20                 *)
(* u = 2^-24 (f32) / 2^-53 (f64).                                          *)
(***************************************************************************)
EXTENDS Dyadic, TLC, Json, IOUtils
Rec == ndJsonDeserialize(IOEnv.TRACE)

P(ev) == IF ev.f = 32 THEN 24 ELSE 53
AllFinite(s) == \A i \in 1..Len(s) : IsFiniteWire(s[i])
DV(s) == [i \in 1..Len(s) |-> DecDy(s[i])]
RECURSIVE L1From(_, _)
L1From(v, i) == IF i > Len(v) THEN Dy0 ELSE DyAdd(DyAbs(v[i]), L1From(v, i + 1))
L1(v) == L1From(v, 1)
SameVec(a, b) == \A i \in 1..Len(a) : DyCmp(a[i], b[i]) = 0

\* ---- normalize ---------------------------------------------------------------------------------
NormalizeOk(ev) ==
    LET p == P(ev) IN
    /\ AllFinite(ev.got)
    /\ LET v == DV(ev.v) r == DV(ev.got) IN
       /\ DyIsPos(VSq(v))
       /\ DyNear(VSq(r), Dy1, DyPow2(4 - p))                                                    \* |r|^2 = 1 within 16 u
       /\ DyLe(Lagrange(r, v), DyMul(DyPow2(8 - 2 * p), DyMul(VSq(r), VSq(v))))                  \* sin^2 of the angle to v <= (16 u)^2
       /\ DyIsPos(VDot(r, v))

\* ---- angle between (nearly) parallel vectors -------------------------------------------------------
AngleTol(ev) == IF ev.f = 32 THEN DyPow2(-9) ELSE DyPow2(-21)       \* about 5 sqrt(epsilon): the conditioning of arccos at 0 and pi
AngleParallelOk(ev) ==
    LET p == P(ev) a == DV(ev.a) b == DV(ev.b) IN
    /\ DyLe(Lagrange(a, b), DyMul(DyPow2(10 - 2 * p), DyMul(VSq(a), VSq(b))))                    \* the recorded operands ARE parallel within 32 u
    /\ IsFiniteWire(ev.got)
    /\ LET g0 == DecDy(ev.got)
           g == IF "signed" \in DOMAIN ev THEN DyAbs(g0) ELSE g0                  \* angle_to is signed: its magnitude is judged
           t == IF ev.quat = 1 THEN DyScale(AngleTol(ev), 2) ELSE AngleTol(ev) IN     \* a quaternion angle is twice the 4D angle
       IF DyIsPos(VDot(a, b)) THEN ~DyIsNeg(g) /\ DyLe(g, t)
       ELSE DyLe(DySub(PiLo, t), g) /\ DyLe(g, DyAdd(PiHi, t))

\* ---- move_towards ----------------------------------------------------------------------------------------
SnapHi2 == Dy(ZOf(11), -30)                        \* (1.012e-4)^2: the documented snap radius 1e-4, squared, rounded up
MoveOk(ev) ==
    LET p == P(ev) a == DV(ev.a) b == DV(ev.b) d == DecDy(ev.d) IN
    /\ AllFinite(ev.got) /\ ~DyIsNeg(d)
    /\ LET r == DV(ev.got)
           ab == VSub(b, a)
           L2 == VSq(ab)
           d2 == DySq(d)
           rel == DyPow2(6 - p)
           E == DyMul(DyPow2(4 - p), DyAdd(DyAdd(L1(a), L1(b)), d))      \* 16 u (|a|_1 + |b|_1 + d): absolute slack of the step
           m == VSub(r, a)
           m2 == VSq(m)
           reach == DyLe(L2, DyMul(d2, DySub(Dy1, rel)))
           beyond == DyLe(DyMul(d2, DyAdd(Dy1, rel)), L2)
           stepOk == /\ DyLe(m2, DySq(DyAdd(d, E)))                                  \* |m| <= d + E
                     /\ (DyLe(d, E) \/ DyLe(DySq(DySub(d, E)), m2))                  \* |m| >= d - E
                     /\ DyLe(Lagrange(m, ab), DyMul(DySq(E), L2))                    \* off-axis component <= E
                     /\ (DyLe(d, DyScale(E, 1)) \/ DyIsPos(VDot(m, ab)))             \* towards the target
       IN  IF reach THEN SameVec(r, b)                                               \* the target itself once within reach
           ELSE IF DyLe(L2, SnapHi2) THEN SameVec(r, b) \/ stepOk                    \* inside the snap radius either is allowed
           ELSE IF beyond THEN stepOk
           ELSE SameVec(r, b) \/ stepOk                                              \* within rounding slack of the boundary

\* ---- slerp at the nine parameters j/8 -----------------------------------------------------------------------
SlerpTol(ev) == IF ev.f = 32 THEN DyPow2(-12) ELSE DyPow2(-34)
ChebBits(ev) == IF ev.f = 32 THEN 64 ELSE 112          \* working precision of the Chebyshev recurrences: 64 * 2^-bits is far below the tolerance
Ch(ev, n, c) == ChebT(n, c, ChebBits(ev))
Slerp8Ok(ev) ==
    LET q0 == DV(ev.q0) q1r == DV(ev.q1) t == SlerpTol(ev)
        D0 == VDot(q0, q1r)
        q1 == IF DyIsNeg(D0) THEN VNeg(q1r) ELSE q1r                                 \* the shorter arc
        D == DyAbs(D0) IN
    /\ Len(ev.r) = 9 /\ \A j \in 1..9 : AllFinite(ev.r[j])
    /\ DyNear(VSq(q0), Dy1, t) /\ DyNear(VSq(q1), Dy1, t)                            \* the recorded operands are unit quaternions
    /\ LET r == [j \in 1..9 |-> DV(ev.r[j])]
           c == VDot(q0, r[2]) IN
       /\ \A j \in 1..9 : DyNear(VSq(r[j]), Dy1, t)
       \* both end points are reached, to a few ulp (sin(theta) / sin(theta) and sin(0)): also between nearly equal rotations, where the
       \* cosines above cannot tell the start from the end
       /\ LET te == IF ev.f = 32 THEN DyPow2(-20) ELSE DyPow2(-48) IN
          DyLe(VSq(VSub(r[1], q0)), DySq(te)) /\ DyLe(VSq(VSub(r[9], q1)), DySq(te))
       /\ DyNear(Ch(ev, 8, c), D, t)
       /\ \A j \in 0..8 : /\ DyNear(VDot(q0, r[j + 1]), Ch(ev, j, c), t)
                          /\ DyNear(VDot(q1, r[j + 1]), Ch(ev, 8 - j, c), t)

\* ---- rotate_towards by more than the remaining angle -------------------------------------------------------
RotReachOk(ev) ==
    LET p == P(ev) a == DV(ev.a) b == DV(ev.b) IN
    /\ AllFinite(ev.got)
    /\ LET r == DV(ev.got) IN
       IF ev.quat = 1 THEN                                                           \* unit quaternions: the target rotation (either sign)
            /\ DyNear(VSq(r), Dy1, DyPow2(8 - p))
            /\ DyLe(DySub(DyMul(VSq(r), VSq(b)), DyPow2(12 - p)), DySq(VDot(r, b)))  \* cos^2 of the 4D angle >= 1 - 2^12 u
       ELSE /\ DyNear(VSq(r), VSq(a), DyMul(DyPow2(8 - p), VSq(a)))                  \* length preserved
            /\ DyLe(Lagrange(r, b), DyMul(DyPow2(14 - p), DyMul(VSq(r), VSq(b))))    \* parallel to the target (sin^2 <= 2^14 u)
            /\ DyIsPos(VDot(r, b))

\* ---- view transforms (C11): rigid, eye -> origin, dir -> -Z (rh) / +Z (lh), up into the +Y half of the YZ plane -------------
Cross3(a, b) == << DySub(DyMul(a[2], b[3]), DyMul(a[3], b[2])), DySub(DyMul(a[3], b[1]), DyMul(a[1], b[3])), DySub(DyMul(a[1], b[2]), DyMul(a[2], b[1])) >>
\* image of v under the matrix with columns c (column-major): sum_k c[k] * v[k]
MatVec3(c, v) == [r \in 1..3 |-> DyAdd(DyAdd(DyMul(c[1][r], v[1]), DyMul(c[2][r], v[2])), DyMul(c[3][r], v[3]))]
ViewOk(ev) ==
    LET p == P(ev) IN
    /\ \A k \in 1..3 : AllFinite(ev.lin[k])
    /\ LET c == [k \in 1..3 |-> DV(ev.lin[k])]
           d == DV(ev.dir) u == DV(ev.up)
           t1 == DyPow2(7 - p)
           zs == IF ev.hand = "rh" THEN DyInt(-1) ELSE Dy1
           id == MatVec3(c, d)
           iu == MatVec3(c, u)
           Small(x) == DyLe(DyMul(DySq(x), Lagrange(d, u)), DyPow2(2 * (5 - p))) IN
       /\ DyNear(VSq(d), Dy1, t1) /\ DyNear(VSq(u), Dy1, t1)                                       \* the recorded dir and up are unit vectors
       /\ DyLe(DyPow2(-20), Lagrange(d, u))                                                         \* ... and not parallel: |dir x up| >= 2^-10
       \* the side axis is normalize(dir x up): its direction carries an error of about u / |dir x up|, and so does everything that is
       \* orthogonal by construction; |x| <= 2^5 u / |dir x up| is written x^2 |dir x up|^2 <= (2^5 u)^2 (no square root, no division)
       /\ \A i \in 1..3 : DyNear(VSq(c[i]), Dy1, DyScale(t1, 2))                                   \* unit columns
       /\ \A i, j \in 1..3 : i < j => Small(VDot(c[i], c[j]))                                      \* mutually orthogonal
       /\ DyLt(DyPow2(-1), VDot(Cross3(c[1], c[2]), c[3]))                                          \* determinant +1, not -1
       /\ Small(id[1]) /\ Small(id[2]) /\ Small(DySub(id[3], zs))                                   \* the view direction goes to -Z / +Z
       /\ DyIsPos(iu[2])                                                                             \* up lands in the +Y half ...
       /\ DyLe(DyMul(DySq(iu[1]), Lagrange(d, u)), DyPow2(2 * (5 - p)))                             \* ... of the YZ plane: |x| <= 2^5 u / |dir x up|
       /\ ("t" \in DOMAIN ev) =>                                                                    \* matrix / affine forms: the eye goes to the origin
             LET e == DV(ev.eye) tr == DV(ev.t) ie == MatVec3(c, e) IN
             \A r \in 1..3 : DyNear(DyAdd(ie[r], tr[r]), Dy0, DyMul(t1, DyAdd(L1(e), Dy1)))

\* ---- projections (C11): the documented planes go to the documented depths, the field of view / the box to +-1 ----------------
\* m: 4 columns of 4 entries.  Perspective: view-space depth d > 0 in front of the camera is z = -d (rh) / +d (lh)
ProjOk(ev) ==
    LET p == P(ev) IN
    /\ \A k \in 1..4 : AllFinite(ev.m[k])
    /\ LET m == [k \in 1..4 |-> DV(ev.m[k])]
           n == DecDy(ev.near)
           rel == DyPow2(6 - p)
           zero(x) == DyIsZero(x)
           zsgn == IF ev.hand = "rh" THEN DyInt(-1) ELSE Dy1 IN
       IF ev.kind = "persp" THEN
           LET sx == m[1][1] sy == m[2][2] A == m[3][3] Bz == m[4][3]
               t == DyPow2(ev.tj) a == DecDy(ev.aspect)
               zclip(d) == DyAdd(DyMul(DyMul(A, zsgn), d), Bz)
               mag(d) == DyAdd(DyMul(DyAbs(A), d), DyAbs(Bz))
               depthIs(d, want) == DyNear(zclip(d), want, DyMul(rel, DyAdd(mag(d), DyAbs(want)))) IN
           /\ zero(m[1][2]) /\ zero(m[1][3]) /\ zero(m[1][4]) /\ zero(m[2][1]) /\ zero(m[2][3]) /\ zero(m[2][4])
           /\ zero(m[3][1]) /\ zero(m[3][2]) /\ zero(m[4][1]) /\ zero(m[4][2]) /\ zero(m[4][4])
           /\ DyCmp(m[3][4], zsgn) = 0                                                                \* clip w = -z (rh) / +z (lh)
           \* the field of view reaches the library as the floating-point number 2 atan(2^tj): its rounding alone moves cot(fov/2) by a
           \* relative u (pi/2) 2^tj for wide angles, so the tolerance of the two focal terms grows with 2^tj
           /\ DyNear(DyMul(sy, t), Dy1, DyMul(rel, DyAdd(Dy1, t)))                                    \* y = d tan(fov/2) goes to +1
           /\ DyNear(DyMul(DyMul(sx, t), a), Dy1, DyMul(rel, DyAdd(Dy1, t)))                          \* x = d tan(fov/2) aspect goes to +1
           /\ CASE ev.conv = "gl" -> depthIs(n, DyNeg(n)) /\ depthIs(DecDy(ev.far), DecDy(ev.far))     \* near -> -1, far -> +1 (times w = d)
                [] ev.conv = "zo" -> depthIs(n, Dy0) /\ depthIs(DecDy(ev.far), DecDy(ev.far))          \* near -> 0, far -> 1
                [] ev.conv = "inf" -> depthIs(n, Dy0) /\ DyNear(DyMul(A, zsgn), Dy1, rel)              \* near -> 0, infinity -> 1
                [] ev.conv = "infrev" -> depthIs(n, n) /\ DyLe(DyAbs(A), rel)                           \* near -> 1, infinity -> 0
       ELSE
           LET sx == m[1][1] sy == m[2][2] C == m[3][3] tx == m[4][1] ty == m[4][2] tz == m[4][3]
               l == DecDy(ev.l) r == DecDy(ev.r) b == DecDy(ev.b) tp == DecDy(ev.t) f == DecDy(ev.far)
               lin(s, x, o, want) == DyNear(DyAdd(DyMul(s, x), o), want, DyMul(rel, DyAdd(DyAdd(DyAbs(DyMul(s, x)), DyAbs(o)), Dy1)))
               zc(d, want) == lin(DyMul(C, zsgn), d, tz, want) IN
           /\ zero(m[1][2]) /\ zero(m[1][3]) /\ zero(m[1][4]) /\ zero(m[2][1]) /\ zero(m[2][3]) /\ zero(m[2][4])
           /\ zero(m[3][1]) /\ zero(m[3][2]) /\ zero(m[3][4]) /\ DyCmp(m[4][4], Dy1) = 0            \* clip w = 1
           /\ lin(sx, l, tx, DyInt(-1)) /\ lin(sx, r, tx, Dy1) /\ lin(sy, b, ty, DyInt(-1)) /\ lin(sy, tp, ty, Dy1)
           /\ IF ev.conv = "gl" THEN zc(n, DyInt(-1)) /\ zc(f, Dy1) ELSE zc(n, Dy0) /\ zc(f, Dy1)

\* ---- rotations between representations (C05, C09) ----------------------------------------------------------------------
\* 3x3 matrices are sequences of 3 columns; entry (row r, column c) = M[c][r]
MatMul3(A, Bm) == [c \in 1..3 |-> [r \in 1..3 |-> DyAdd(DyAdd(DyMul(A[1][r], Bm[c][1]), DyMul(A[2][r], Bm[c][2])), DyMul(A[3][r], Bm[c][3]))]]
MatNear(A, Bm, t) == \A c \in 1..3 : \A r \in 1..3 : DyNear(A[c][r], Bm[c][r], t)
DM3(m) == [c \in 1..3 |-> DV(m[c])]
\* an elementary rotation about a coordinate axis by an angle of the given sign (right-hand rule): exact 0/1 pattern,
\* the two cosines equal, the two sines opposite, c^2 + s^2 = 1, and sin has the sign of the angle for |angle| < pi
ElemOk(e, axis, ang, p) ==
    LET i == CASE axis = "X" -> 1 [] axis = "Y" -> 2 [] axis = "Z" -> 3
        j == (i % 3) + 1
        k == (j % 3) + 1
        c == e[j][j]  s == e[j][k] IN                                   \* column j = cos e_j + sin e_k ; column k = -sin e_j + cos e_k
    /\ DyCmp(e[i][i], Dy1) = 0 /\ DyIsZero(e[i][j]) /\ DyIsZero(e[i][k]) /\ DyIsZero(e[j][i]) /\ DyIsZero(e[k][i])
    /\ DyCmp(e[k][k], c) = 0 /\ DyCmp(e[k][j], DyNeg(s)) = 0
    /\ DyNear(DyAdd(DySq(c), DySq(s)), Dy1, DyPow2(4 - p))
    /\ (DyLt(DyAbs(ang), PiLo) /\ ~DyIsZero(s)) => (DyIsNeg(s) = DyIsNeg(ang))
\* the axes a variant's name spells (TLC cannot index strings): the 12 sequences with distinct neighbours, each also as ...Ex
OrderAxes(name) == CASE name \in {"XYX", "XYXEx"} -> <<"X", "Y", "X">>
                     [] name \in {"XYZ", "XYZEx"} -> <<"X", "Y", "Z">>
                     [] name \in {"XZX", "XZXEx"} -> <<"X", "Z", "X">>
                     [] name \in {"XZY", "XZYEx"} -> <<"X", "Z", "Y">>
                     [] name \in {"YXY", "YXYEx"} -> <<"Y", "X", "Y">>
                     [] name \in {"YXZ", "YXZEx"} -> <<"Y", "X", "Z">>
                     [] name \in {"YZX", "YZXEx"} -> <<"Y", "Z", "X">>
                     [] name \in {"YZY", "YZYEx"} -> <<"Y", "Z", "Y">>
                     [] name \in {"ZXY", "ZXYEx"} -> <<"Z", "X", "Y">>
                     [] name \in {"ZXZ", "ZXZEx"} -> <<"Z", "X", "Z">>
                     [] name \in {"ZYX", "ZYXEx"} -> <<"Z", "Y", "X">>
                     [] name \in {"ZYZ", "ZYZEx"} -> <<"Z", "Y", "Z">>
ExOrders == {"XYXEx", "XYZEx", "XZXEx", "XZYEx", "YXYEx", "YXZEx", "YZXEx", "YZYEx", "ZXYEx", "ZXZEx", "ZYXEx", "ZYZEx"}
EulerOk(ev) ==
    LET p == P(ev)
        e == [i \in 1..3 |-> DM3(ev.e[i])]
        a == DV(ev.angles)
        ex == ev.order \in ExOrders                                   \* "XYZEx": the extrinsic (reversed) product
        \* intrinsic: R = R_first(a) R_second(b) R_third(c); extrinsic: the reversed product
        want == IF ex THEN MatMul3(MatMul3(e[3], e[2]), e[1]) ELSE MatMul3(MatMul3(e[1], e[2]), e[3]) IN
    /\ \A i \in 1..3 : \A c \in 1..3 : AllFinite(ev.e[i][c])
    /\ \A c \in 1..3 : AllFinite(ev.got[c])
    /\ \A i \in 1..3 : ElemOk(e[i], OrderAxes(ev.order)[i], a[i], p)
    /\ MatNear(DM3(ev.got), want, DyPow2(7 - p))                        \* from_euler is the product the variant's name spells
    /\ ("back" \in DOMAIN ev) => (\A c \in 1..3 : AllFinite(ev.back[c])) /\ MatNear(DM3(ev.back), DM3(ev.got), DyPow2(14 - p))   \* to_euler rebuilds it (away from gimbal lock)

\* the rotation matrix of a unit quaternion, entry by entry (columns)
QuatMat(q) ==
    LET x == q[1] y == q[2] z == q[3] w == q[4]
        two(v) == DyScale(v, 1)
        xx == DyMul(x, x) yy == DyMul(y, y) zz == DyMul(z, z)
        xy == DyMul(x, y) xz == DyMul(x, z) yz == DyMul(y, z) wx == DyMul(w, x) wy == DyMul(w, y) wz == DyMul(w, z) IN
    << << DySub(Dy1, two(DyAdd(yy, zz))), two(DyAdd(xy, wz)), two(DySub(xz, wy)) >>,
       << two(DySub(xy, wz)), DySub(Dy1, two(DyAdd(xx, zz))), two(DyAdd(yz, wx)) >>,
       << two(DyAdd(xz, wy)), two(DySub(yz, wx)), DySub(Dy1, two(DyAdd(xx, yy))) >> >>
\* quat -> matrix (every from_quat) and matrix -> quat (every from_mat*, all four branches): the same polynomial relation
QuatMatOk(ev) ==
    LET p == P(ev) IN
    /\ AllFinite(ev.q) /\ \A c \in 1..3 : AllFinite(ev.m[c])
    /\ LET q == DV(ev.q) IN
       /\ DyNear(VSq(q), Dy1, DyPow2(6 - p))
       /\ MatNear(QuatMat(q), DM3(ev.m), DyPow2(8 - p))

\* ---- results defined through a square root or a quotient, judged through the polynomial relation they satisfy (C02) ----------
\* length, distance: got >= 0 and got^2 = |.|^2;  length_recip: got^2 |a|^2 = 1;  project_onto: got (b.b) = b (a.b);
\* reject_from: got (b.b) = a (b.b) - b (a.b);  all within 2^5 u relative to the magnitudes combined
SqrtRelOk(ev) ==
    LET p == P(ev) rel == DyPow2(5 - p) IN
    CASE ev.op = "length" -> LET a == DV(ev.a) g == DecDy(ev.got) IN
                             IsFiniteWire(ev.got) /\ ~DyIsNeg(g) /\ DyNear(DySq(g), VSq(a), DyMul(rel, VSq(a)))
      [] ev.op = "distance" -> LET d == VSub(DV(ev.a), DV(ev.b)) g == DecDy(ev.got) e1 == DyMul(rel, DyAdd(VSq(DV(ev.a)), VSq(DV(ev.b)))) IN
                             IsFiniteWire(ev.got) /\ ~DyIsNeg(g) /\ DyNear(DySq(g), VSq(d), e1)
      [] ev.op = "length_recip" -> LET a == DV(ev.a) g == DecDy(ev.got) IN
                             IsFiniteWire(ev.got) /\ DyIsPos(g) /\ DyNear(DyMul(DySq(g), VSq(a)), Dy1, rel)
      [] ev.op = "project_onto" -> LET a == DV(ev.a) b == DV(ev.b) g == DV(ev.got) bb == VSq(b) ab == VDot(a, b)
                                       mag == DyMul(L1(a), DyMul(L1(b), L1(b))) IN      \* |a|_1 |b|_1^2 bounds every term
                             AllFinite(ev.got) /\ \A i \in 1..Len(a) : DyNear(DyMul(g[i], bb), DyMul(b[i], ab), DyMul(DyScale(rel, 2), mag))
      [] ev.op = "reject_from" -> LET a == DV(ev.a) b == DV(ev.b) g == DV(ev.got) bb == VSq(b) ab == VDot(a, b)
                                      mag == DyMul(L1(a), DyMul(L1(b), L1(b))) IN
                             AllFinite(ev.got) /\ \A i \in 1..Len(a) : DyNear(DyMul(g[i], bb), DySub(DyMul(a[i], bb), DyMul(b[i], ab)), DyMul(DyScale(rel, 2), mag))

\* ---- vector slerp at the nine parameters j/8 (C12): directions as for quaternions (no arc flip), lengths interpolated linearly ----
\* logged next to the operands: the normalised operands ah, bh, the results r_j, their directions d_j and lengths l_j, and the
\* operand lengths la, lb -- every one of them an output of the library, tied to the operands by the relations below
UnitAlong(x, xh, t) == /\ DyNear(VSq(xh), Dy1, t)
                       /\ DyLe(Lagrange(x, xh), DyMul(DySq(t), VSq(x)))
                       /\ DyIsPos(VDot(x, xh))
LenOf(x, lx, rel) == ~DyIsNeg(lx) /\ DyNear(DySq(lx), VSq(x), DyMul(rel, VSq(x)))
VSlerp8Ok(ev) ==
    LET p == P(ev) t == SlerpTol(ev) rel == DyPow2(6 - p)
        a == DV(ev.a) b == DV(ev.b) ah == DV(ev.ah) bh == DV(ev.bh)
        la == DecDy(ev.la) lb == DecDy(ev.lb) IN
    /\ Len(ev.r) = 9 /\ \A j \in 1..9 : AllFinite(ev.r[j]) /\ AllFinite(ev.d[j]) /\ IsFiniteWire(ev.l[j])
    /\ UnitAlong(a, ah, t) /\ UnitAlong(b, bh, t) /\ LenOf(a, la, rel) /\ LenOf(b, lb, rel)
    /\ LET r == [j \in 1..9 |-> DV(ev.r[j])]
           d == [j \in 1..9 |-> DV(ev.d[j])]
           l == [j \in 1..9 |-> DecDy(ev.l[j])]
           c == VDot(ah, d[2])
           D == VDot(ah, bh) IN
       /\ \A j \in 1..9 : UnitAlong(r[j], d[j], t) /\ LenOf(r[j], l[j], rel)
       /\ DyNear(Ch(ev, 8, c), D, t)
       /\ \A j \in 0..8 : /\ DyNear(VDot(ah, d[j + 1]), Ch(ev, j, c), t)                 \* the angle from the start is j/8 of the total
                          /\ DyNear(VDot(bh, d[j + 1]), Ch(ev, 8 - j, c), t)
                          \* the length is interpolated linearly: 8 l_j = (8 - j) la + j lb
                          /\ DyNear(DyScale(l[j + 1], 3), DyAdd(DyMul(DyInt(8 - j), la), DyMul(DyInt(j), lb)), DyMul(DyScale(t, 3), DyAdd(la, lb)))

\* rotate_towards by ANY step (partial, negative, beyond; parallel and exactly opposite operands included): finite, length preserved
RotLenOk(ev) ==
    LET p == P(ev) a == DV(ev.a) IN
    /\ AllFinite(ev.got)
    /\ DyNear(VSq(DV(ev.got)), VSq(a), DyMul(DyPow2(8 - p), VSq(a)))

\* ---- clamp_length / clamp_length_min / clamp_length_max: direction kept, length inside the requested bounds, untouched if already inside ----
ClampLenOk(ev) ==
    LET p == P(ev) rel == DyPow2(6 - p) a == DV(ev.a) lo == DecDy(ev.min) hi == DecDy(ev.max) a2 == VSq(a)
        lo2 == DySq(lo) hi2 == DySq(hi) IN
    /\ AllFinite(ev.got) /\ DyIsPos(a2) /\ ~DyIsNeg(lo) /\ DyLe(lo, hi)
    /\ LET r == DV(ev.got) r2 == VSq(r) IN
       /\ DyLe(Lagrange(r, a), DyMul(DyPow2(8 - 2 * p), DyMul(r2, a2)))                        \* still along a
       /\ DyIsPos(VDot(r, a))
       /\ DyLe(DyMul(lo2, DySub(Dy1, rel)), r2) /\ DyLe(r2, DyMul(hi2, DyAdd(Dy1, rel)))        \* min <= |r| <= max (within 2^6 u)
       /\ (DyLe(DyMul(lo2, DyAdd(Dy1, rel)), a2) /\ DyLe(a2, DyMul(hi2, DySub(Dy1, rel)))) => SameVec(r, a)   \* clearly inside: returned unchanged

\* ---- any_orthogonal_vector / any_orthonormal_vector / any_orthonormal_pair -------------------------------------------------
OrthoOk(ev) ==
    LET p == P(ev) t == DyPow2(6 - p) a == DV(ev.a) IN
    /\ \A j \in 1..Len(ev.got) : AllFinite(ev.got[j])
    /\ LET g == [j \in 1..Len(ev.got) |-> DV(ev.got[j])] IN
       /\ \A j \in 1..Len(g) : /\ DyLe(DySq(VDot(a, g[j])), DyMul(DySq(t), DyMul(VSq(a), VSq(g[j]))))       \* orthogonal to the input
                                 /\ DyIsPos(VSq(g[j]))
                                 /\ ev.unit = 1 => DyNear(VSq(g[j]), Dy1, t)
       /\ Len(g) = 2 => DyLe(DySq(VDot(g[1], g[2])), DySq(t))                                                    \* and to each other

\* ---- from_rotation_arc(a, b) * a = b; from_rotation_arc_colinear aligns a with +-b (unit inputs; the quaternion is logged) ------------
ArcOk(ev) ==
    LET p == P(ev) t == DyPow2(8 - p) a == DV(ev.a) b == DV(ev.b) IN
    /\ AllFinite(ev.q)
    /\ DyNear(VSq(a), Dy1, t) /\ DyNear(VSq(b), Dy1, t)
    /\ LET q == DV(ev.q) img == MatVec3(QuatMat(q), a)
           \* the arc is ill-conditioned towards opposite vectors: its error grows like u / sqrt(1 + a.b) (the rotation axis a x b
           \* vanishes); exactly opposite vectors take the documented half turn about an arbitrary axis
           w1(bb) == DyAdd(Dy1, VDot(a, bb))
           \* nearly parallel vectors (1 - a.b <= 16 u, the rounding of the lengths included) may be snapped to the identity rotation:
           \* the image of a is then a itself
           gap(bb) == DySub(Dy1, VDot(a, bb))
           snapped(i, bb) == DyLe(gap(bb), DyPow2(4 - p)) /\ DyNear(img[i], a[i], t)
           \* nearly opposite vectors (sin^2 <= 16 u) may be snapped to a half turn about an arbitrary axis: the image of a is then -a
           oppsnap(i, bb) == /\ DyIsNeg(VDot(a, bb)) /\ DyLe(Lagrange(a, bb), DyMul(DyPow2(4 - p), DyMul(VSq(a), VSq(bb))))
                             /\ DyNear(img[i], DyNeg(a[i]), t)
           lane(i, d, bb) == \/ DyLe(DySq(d), DySq(t))
                          \/ (DyIsPos(w1(bb)) /\ DyLe(DyMul(DySq(d), w1(bb)), DySq(DyPow2(6 - p))))
                          \/ snapped(i, bb) \/ oppsnap(i, bb)
           hits(bb) == \A i \in 1..3 : lane(i, DySub(img[i], bb[i]), bb) IN
       /\ DyNear(VSq(q), Dy1, t)
       /\ IF ev.colinear = 1 THEN hits(b) \/ hits(VNeg(b)) ELSE hits(b)

\* ---- slerp extrapolated to integer parameters k (outside [0, 1]): the rotation is the k-th power of the step from q0 to q1, so with
\* D = <q0, q1> (exact from the logged operands):  <q0, r_k> = T_|k|(D)  and  <q1, r_k> = T_|k-1|(D); unit length ----------------------
\* the tolerance follows the conditioning: the implementation takes the angle from its own rounded <q0, q1>, and d T_k / d D = k U_{k-1}(D)
\* (about k^2 for nearly parallel quaternions, about k for well separated ones), so  t = u (32 + 16 |k| max(1, |U_{|k|-1}(D)|)):
\* 1.3e-5 at k = 12 for well separated single-precision quaternions (measured worst case of the unchanged crate: 5e-6), 1.4e-4 when
\* nearly parallel (measured 7.5e-5)
AbsI(n) == IF n < 0 THEN -n ELSE n
SlerpIntTol(ev, k, D) ==
    LET p == P(ev) n == AbsI(k)
        U == IF n = 0 THEN Dy0 ELSE DyAbs(ChebUT(n - 1, D, ChebBits(ev)))
        cond == IF DyLe(U, Dy1) THEN Dy1 ELSE U IN
    DyScale(DyAdd(DyInt(32), DyMul(DyInt(16 * n), cond)), -p)
SlerpIntOk(ev) ==
    LET q0 == DV(ev.q0) q1 == DV(ev.q1) D == VDot(q0, q1) IN
    /\ Len(ev.r) = Len(ev.ks) /\ \A j \in 1..Len(ev.r) : AllFinite(ev.r[j])
    /\ DyNear(VSq(q0), Dy1, SlerpTol(ev)) /\ DyNear(VSq(q1), Dy1, SlerpTol(ev))
    /\ DyIsPos(D)                                                                   \* the recorded pair is on the same hemisphere: no arc flip
    /\ \A j \in 1..Len(ev.r) :
          LET r == DV(ev.r[j]) k == ev.ks[j] t == SlerpIntTol(ev, IF AbsI(k) >= AbsI(k - 1) THEN k ELSE k - 1, D) IN
          /\ DyNear(VSq(r), Dy1, t)
          /\ DyNear(VDot(q0, r), Ch(ev, AbsI(k), D), t)
          /\ DyNear(VDot(q1, r), Ch(ev, AbsI(k - 1), D), t)

Ok(ev) ==
    CASE ev.op = "normalize" -> NormalizeOk(ev)
      [] ev.op = "angle_parallel" -> AngleParallelOk(ev)
      [] ev.op = "move_towards" -> MoveOk(ev)
      [] ev.op = "slerp8" -> Slerp8Ok(ev)
      [] ev.op = "vslerp8" -> VSlerp8Ok(ev)
      [] ev.op = "slerp_int" -> SlerpIntOk(ev)
      [] ev.op = "rot_reach" -> RotReachOk(ev)
      [] ev.op = "rot_len" -> RotLenOk(ev)
      [] ev.op = "clamp_len" -> ClampLenOk(ev)
      [] ev.op = "ortho" -> OrthoOk(ev)
      [] ev.op = "arc" -> ArcOk(ev)
      [] ev.op = "view" -> ViewOk(ev)
      [] ev.op = "euler" -> EulerOk(ev)
      [] ev.op \in {"length", "distance", "length_recip", "project_onto", "reject_from"} -> SqrtRelOk(ev)
      [] ev.op = "quat_mat" -> QuatMatOk(ev)
      [] ev.op = "proj" -> ProjOk(ev)
      [] OTHER -> FALSE

\* the Chebyshev recurrence on known cosines:  T_2(1/2) = -1/2, T_3(1/2) = -1, T_8(0) = 1, T_4(1) = 1
ASSUME /\ DyCmp(Cheb(2, DyPow2(-1)), DyNeg(DyPow2(-1))) = 0 /\ DyCmp(Cheb(3, DyPow2(-1)), DyInt(-1)) = 0
       /\ DyCmp(Cheb(8, Dy0), Dy1) = 0 /\ DyCmp(Cheb(4, Dy1), Dy1) = 0 /\ DyCmp(Cheb(1, DyPow2(-3)), DyPow2(-3)) = 0
\* second kind:  U_2(1/2) = 0, U_3(1) = 4, U_1(1/4) = 1/2
ASSUME /\ DyIsZero(ChebUT(2, DyPow2(-1), 64)) /\ DyCmp(ChebUT(3, Dy1, 64), DyInt(4)) = 0 /\ DyCmp(ChebUT(1, DyPow2(-2), 64), DyPow2(-1)) = 0
\* Lagrange identity on a 3-4-5 example: |a|^2 |b|^2 - (a.b)^2 = |a x b|^2
ASSUME DyCmp(Lagrange(<<DyInt(3), DyInt(0)>>, <<DyInt(3), DyInt(4)>>), DyInt(144)) = 0

VARIABLE l
Init == l = 1
Next == /\ l <= Len(Rec)
        /\ Ok(Rec[l]) = TRUE
        /\ l' = l + 1
Spec == Init /\ [][Next]_l
Accepted ==
    IF TLCGet("stats").diameter = Len(Rec) + 1 THEN TRUE
    ELSE /\ PrintT(<<"TRACE-REJECTED", "matched", TLCGet("stats").diameter - 1, "of", Len(Rec)>>)
         /\ PrintT(<<"FIRST-REJECTED-EVENT", ToJson(Rec[TLCGet("stats").diameter])>>)
         /\ FALSE
=============================================================================
