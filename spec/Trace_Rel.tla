----------------------------- MODULE Trace_Rel ------------------------------
(***************************************************************************)
(* Trace validation of RELATIONAL promises on arbitrary inputs (C02, C12): *)
(* the harness (`rec rel`) logs operands and results of the real code; the *)
(* specification states, as polynomial (in)equalities over exact dyadic    *)
(* rationals, the relation every acceptable result satisfies.  No square   *)
(* root, division or transcendental function is evaluated: lengths are     *)
(* compared through their squares, directions through dot products and the *)
(* Lagrange identity, angles through Chebyshev polynomials of cosines.     *)
(*                                                                         *)
(*  normalize       |r|^2 = 1 within 16 u, r parallel to v, same direction *)
(*  angle_parallel  the angle between (nearly) parallel vectors is finite  *)
(*                  and within T of 0 (same direction) or of pi (opposite) *)
(*  move_towards    within reach: the target itself; otherwise the step    *)
(*                  has length d within E, points at the target            *)
(*  slerp8          r_j = slerp(q0, q1, j/8), j = 0..8: all unit, r_0 = q0,*)
(*                  r_8 = +-q1 (shorter arc), and with c = <q0, r_1>:      *)
(*                  T_8(c) = |<q0,q1>|, <q0,r_j> = T_j(c),                 *)
(*                  <+-q1,r_j> = T_(8-j)(c)   (angle from the start is j/8 *)
(*                  of the total, T_n the Chebyshev polynomials)           *)
(*  rot_reach       rotate_towards by at least the remaining angle ends on *)
(*                  the target direction, finite, length preserved         *)
(* u = 2^-24 (f32) / 2^-53 (f64).                                          *)
(***************************************************************************)
EXTENDS Dyadic, TLC, Json, IOUtils
Rec == ndJsonDeserialize(IOEnv.TRACE)

P(ev) == IF ev.f = 32 THEN 24 ELSE 53
AllFinite(s) == \A i \in 1..Len(s) : IsFiniteWire(s[i])
DV(s) == [i \in 1..Len(s) |-> DecDy(s[i])]
RECURSIVE L1From(_, _)
L1From(v, i) == IF i > Len(v) THEN Dy0 ELSE DyAdd(DyAbs(v[i]), L1From(v, i + 1))
L1(v) == L1From(v, 1)
SameVec(a, b) == \A i \in 1..Len(a) : DyCmp(a[i], b[i]) = 0

\* ---- normalize ---------------------------------------------------------------------------------
NormalizeOk(ev) ==
    LET p == P(ev) IN
    /\ AllFinite(ev.got)
    /\ LET v == DV(ev.v) r == DV(ev.got) IN
       /\ DyIsPos(VSq(v))
       /\ DyNear(VSq(r), Dy1, DyPow2(4 - p))                                                    \* |r|^2 = 1 within 16 u
       /\ DyLe(Lagrange(r, v), DyMul(DyPow2(8 - 2 * p), DyMul(VSq(r), VSq(v))))                  \* sin^2 of the angle to v <= (16 u)^2
       /\ DyIsPos(VDot(r, v))

\* ---- angle between (nearly) parallel vectors -------------------------------------------------------
AngleTol(ev) == IF ev.f = 32 THEN DyPow2(-10) ELSE DyPow2(-22)
AngleParallelOk(ev) ==
    LET p == P(ev) a == DV(ev.a) b == DV(ev.b) IN
    /\ DyLe(Lagrange(a, b), DyMul(DyPow2(10 - 2 * p), DyMul(VSq(a), VSq(b))))                    \* the recorded operands ARE parallel within 32 u
    /\ IsFiniteWire(ev.got)
    /\ LET g0 == DecDy(ev.got)
           g == IF "signed" \in DOMAIN ev THEN DyAbs(g0) ELSE g0                  \* angle_to is signed: its magnitude is judged
           t == IF ev.quat = 1 THEN DyScale(AngleTol(ev), 2) ELSE AngleTol(ev) IN     \* a quaternion angle is twice the 4D angle
       IF DyIsPos(VDot(a, b)) THEN ~DyIsNeg(g) /\ DyLe(g, t)
       ELSE DyLe(DySub(PiLo, t), g) /\ DyLe(g, DyAdd(PiHi, t))

\* ---- move_towards ----------------------------------------------------------------------------------------
SnapHi2 == Dy(ZOf(11), -30)                        \* (1.012e-4)^2: the documented snap radius 1e-4, squared, rounded up
MoveOk(ev) ==
    LET p == P(ev) a == DV(ev.a) b == DV(ev.b) d == DecDy(ev.d) IN
    /\ AllFinite(ev.got) /\ ~DyIsNeg(d)
    /\ LET r == DV(ev.got)
           ab == VSub(b, a)
           L2 == VSq(ab)
           d2 == DySq(d)
           rel == DyPow2(6 - p)
           E == DyMul(DyPow2(4 - p), DyAdd(DyAdd(L1(a), L1(b)), d))      \* 16 u (|a|_1 + |b|_1 + d): absolute slack of the step
           m == VSub(r, a)
           m2 == VSq(m)
           reach == DyLe(L2, DyMul(d2, DySub(Dy1, rel)))
           beyond == DyLe(DyMul(d2, DyAdd(Dy1, rel)), L2)
           stepOk == /\ DyLe(m2, DySq(DyAdd(d, E)))                                  \* |m| <= d + E
                     /\ (DyLe(d, E) \/ DyLe(DySq(DySub(d, E)), m2))                  \* |m| >= d - E
                     /\ DyLe(Lagrange(m, ab), DyMul(DySq(E), L2))                    \* off-axis component <= E
                     /\ (DyLe(d, DyScale(E, 1)) \/ DyIsPos(VDot(m, ab)))             \* towards the target
       IN  IF reach THEN SameVec(r, b)                                               \* the target itself once within reach
           ELSE IF DyLe(L2, SnapHi2) THEN SameVec(r, b) \/ stepOk                    \* inside the snap radius either is allowed
           ELSE IF beyond THEN stepOk
           ELSE SameVec(r, b) \/ stepOk                                              \* within rounding slack of the boundary

\* ---- slerp at the nine parameters j/8 -----------------------------------------------------------------------
SlerpTol(ev) == IF ev.f = 32 THEN DyPow2(-12) ELSE DyPow2(-34)
Slerp8Ok(ev) ==
    LET q0 == DV(ev.q0) q1r == DV(ev.q1) t == SlerpTol(ev)
        D0 == VDot(q0, q1r)
        q1 == IF DyIsNeg(D0) THEN VNeg(q1r) ELSE q1r                                 \* the shorter arc
        D == DyAbs(D0) IN
    /\ Len(ev.r) = 9 /\ \A j \in 1..9 : AllFinite(ev.r[j])
    /\ DyNear(VSq(q0), Dy1, t) /\ DyNear(VSq(q1), Dy1, t)                            \* the recorded operands are unit quaternions
    /\ LET r == [j \in 1..9 |-> DV(ev.r[j])]
           c == VDot(q0, r[2]) IN
       /\ \A j \in 1..9 : DyNear(VSq(r[j]), Dy1, t)
       /\ DyLe(VSq(VSub(r[1], q0)), DySq(t)) /\ DyLe(VSq(VSub(r[9], q1)), DySq(t))    \* both end points are reached
       /\ DyNear(Cheb(8, c), D, t)
       /\ \A j \in 0..8 : /\ DyNear(VDot(q0, r[j + 1]), Cheb(j, c), t)
                          /\ DyNear(VDot(q1, r[j + 1]), Cheb(8 - j, c), t)

\* ---- rotate_towards by more than the remaining angle -------------------------------------------------------
RotReachOk(ev) ==
    LET p == P(ev) a == DV(ev.a) b == DV(ev.b) IN
    /\ AllFinite(ev.got)
    /\ LET r == DV(ev.got) IN
       IF ev.quat = 1 THEN                                                           \* unit quaternions: the target rotation (either sign)
            /\ DyNear(VSq(r), Dy1, DyPow2(8 - p))
            /\ DyLe(DySub(DyMul(VSq(r), VSq(b)), DyPow2(12 - p)), DySq(VDot(r, b)))  \* cos^2 of the 4D angle >= 1 - 2^12 u
       ELSE /\ DyNear(VSq(r), VSq(a), DyMul(DyPow2(8 - p), VSq(a)))                  \* length preserved
            /\ DyLe(Lagrange(r, b), DyMul(DyPow2(14 - p), DyMul(VSq(r), VSq(b))))    \* parallel to the target (sin^2 <= 2^14 u)
            /\ DyIsPos(VDot(r, b))

Ok(ev) ==
    CASE ev.op = "normalize" -> NormalizeOk(ev)
      [] ev.op = "angle_parallel" -> AngleParallelOk(ev)
      [] ev.op = "move_towards" -> MoveOk(ev)
      [] ev.op = "slerp8" -> Slerp8Ok(ev)
      [] ev.op = "rot_reach" -> RotReachOk(ev)
      [] OTHER -> FALSE

\* the Chebyshev recurrence on known cosines:  T_2(1/2) = -1/2, T_3(1/2) = -1, T_8(0) = 1, T_4(1) = 1
ASSUME /\ DyCmp(Cheb(2, DyPow2(-1)), DyNeg(DyPow2(-1))) = 0 /\ DyCmp(Cheb(3, DyPow2(-1)), DyInt(-1)) = 0
       /\ DyCmp(Cheb(8, Dy0), Dy1) = 0 /\ DyCmp(Cheb(4, Dy1), Dy1) = 0 /\ DyCmp(Cheb(1, DyPow2(-3)), DyPow2(-3)) = 0
\* Lagrange identity on a 3-4-5 example: |a|^2 |b|^2 - (a.b)^2 = |a x b|^2
ASSUME DyCmp(Lagrange(<<DyInt(3), DyInt(0)>>, <<DyInt(3), DyInt(4)>>), DyInt(144)) = 0

VARIABLE l
Init == l = 1
Next == /\ l <= Len(Rec)
        /\ Ok(Rec[l]) = TRUE
        /\ l' = l + 1
Spec == Init /\ [][Next]_l
Accepted ==
    IF TLCGet("stats").diameter = Len(Rec) + 1 THEN TRUE
    ELSE /\ PrintT(<<"TRACE-REJECTED", "matched", TLCGet("stats").diameter - 1, "of", Len(Rec)>>)
         /\ PrintT(<<"FIRST-REJECTED-EVENT", ToJson(Rec[TLCGet("stats").diameter])>>)
         /\ FALSE
=============================================================================
