SPECIFICATION Spec
CONSTANT Tier = "quick"
CONSTANT Seed = 1
CONSTANT MaxLen = 4
INVARIANT Emit
PROPERTY ActionPreserved
CHECK_DEADLOCK FALSE
