------------------------------- MODULE MC_C01 -------------------------------
(***************************************************************************)
(* C01: element-wise float vector operations are the lane-wise lift of the *)
(* IEEE primitive.  A call/return machine: an initial state is a pending   *)
(* call (operation + operand vectors drawn from the lattice F1), the single*)
(* transition returns the specified result.  Every returned state is       *)
(* printed as one JSON line for the replay harness.                        *)
(***************************************************************************)
EXTENDS FLattice, FloatVec, Json, TLC, SequencesExt

VARIABLES ph,      \* "call" | "ret"
          call,    \* [kind, op, i, j, k]  : which operation on which lattice indices
          res      \* the specified result (only meaningful when ph = "ret")

vars == <<ph, call, res>>

Lead4(n) == {i \in 1..n : i % 4 = 1}

\* operand vectors (always 4 lanes; narrower types use a prefix / rotation)
VA(i)      == [l \in 1..4 |-> F1[Wrap1(i + l - 1, N1)]]
VB(j)      == [l \in 1..4 |-> F1[Wrap1(j + 3 * (l - 1), N1)]]
TA(i)      == [l \in 1..4 |-> F3[Wrap1(i + l - 1, N3)]]
TB(j)      == [l \in 1..4 |-> F3[Wrap1(j + 3 * (l - 1), N3)]]
TC(k)      == [l \in 1..4 |-> F3[Wrap1(k + 5 * (l - 1), N3)]]
\* reduction operands: two lattice values arranged in four tie patterns
Pat(p, x, y) == CASE p = 1 -> <<x, y, y, x>>
                  [] p = 2 -> <<y, x, x, x>>
                  [] p = 3 -> <<y, y, x, y>>
                  [] p = 4 -> <<y, y, y, x>>

RedJ == IF Tier = "quick" THEN Lead4(N1) ELSE 1..N1
Perm4 == SetToSeq({p \in [1..4 -> 1..4] : \A x, y \in 1..4 : x # y => p[x] # p[y]})
Reductions == {"min_element", "max_element", "min_position", "max_position",
               "is_nan", "is_finite", "is_negative_bitmask"}

\* lifted primitives whose VALUE the specification does not compute (exp, powf): the specification only says that every lane is the
\* primitive of that lane's operands alone -- the expectation "prim" is resolved by the harness with the Rust primitive, lane by lane
PrimUnary == {"exp"}
PrimScalar == {"powf"}
Calls ==
         [kind : {"u"},  op : Unary \cup Tests, i : 1..N1, j : {0}, k : {0}]
    \cup [kind : {"u"},  op : PrimUnary, i : 1..N1, j : {0}, k : {0}]
    \cup [kind : {"vs"}, op : PrimScalar, i : Lead4(N1), j : 1..N1, k : {0}]
    \cup [kind : {"b"},  op : Binary,    i : Lead4(N1), j : 1..N1, k : {0}]
    \cup [kind : {"vs"}, op : ScalarRhs, i : Lead4(N1), j : 1..N1, k : {0}]
    \cup [kind : {"sv"}, op : ScalarRhs, i : Lead4(N1), j : 1..N1, k : {0}]
    \cup [kind : {"c"},  op : Compare \cup {"eq"}, i : Lead4(N1), j : 1..N1, k : {0}]
    \cup [kind : {"t"},  op : Ternary \cup {"abs_diff_eq"}, i : Lead4(N3), j : 1..N3, k : 1..N3]
    \cup [kind : {"r"},  op : Reductions, i : 1..N1, j : RedJ, k : 1..4]
    \cup [kind : {"r"},  op : {"min_element", "max_element", "min_position", "max_position"},
           i : Lead4(N1), j : {0}, k : 5..28]          \* every ordering of four lattice values
    \cup [kind : {"f"},  op : {"sum", "product"}, i : Lead4(N1), j : 1..N1, k : 0..3]

Both(E(_)) == [f32 |-> E(F32), f64 |-> E(F64)]

PerN(E(_)) == [n2 |-> E(2), n3 |-> E(3), n4 |-> E(4)]

Args(c) ==
    CASE c.kind = "u"  -> <<VA(c.i)>>
      [] c.kind \in {"b", "c"} -> <<VA(c.i), VB(c.j)>>
      [] c.kind = "vs" -> <<VA(c.i), F1[c.j]>>
      [] c.kind = "sv" -> <<F1[c.j], VA(c.i)>>
      [] c.kind = "t"  -> IF c.op = "abs_diff_eq"
                          THEN <<TA(c.i), TB(c.j), F3[c.k]>>
                          ELSE <<TA(c.i), TB(c.j), TC(c.k)>>
      [] c.kind = "r"  -> IF c.k <= 4 THEN <<Pat(c.k, F1[c.i], F1[c.j])>>
                          ELSE <<[l \in 1..4 |-> VA(c.i)[Perm4[c.k - 4][l]]]>>
      [] c.kind = "f"  -> <<[n \in 1..c.k |-> IF n = 1 THEN VA(c.i)
                                              ELSE IF n = 2 THEN VB(c.j)
                                              ELSE VA(c.j)]>>

Eval(c) ==
    LET a == Args(c) IN
    CASE c.op \in PrimUnary \cup PrimScalar -> "prim"
      [] c.kind = "u" /\ c.op \in Unary -> Both(LAMBDA f : Vec1(f, c.op, a[1]))
      [] c.kind = "u" /\ c.op \in Tests -> VecTest(c.op, a[1])
      [] c.kind = "b"  -> Both(LAMBDA f : Vec2(f, c.op, a[1], a[2]))
      [] c.kind = "vs" -> Both(LAMBDA f : Vec2(f, c.op, a[1], Splat(4, a[2])))
      [] c.kind = "sv" -> Both(LAMBDA f : Vec2(f, c.op, Splat(4, a[1]), a[2]))
      [] c.kind = "c" /\ c.op = "eq" -> PerN(LAMBDA n : VecEq(Take(a[1], n), Take(a[2], n)))
      [] c.kind = "c" /\ c.op # "eq" -> VecCmp(c.op, a[1], a[2])
      [] c.kind = "t" /\ c.op = "abs_diff_eq" ->
            Both(LAMBDA f : PerN(LAMBDA n : AbsDiffEq(f, Take(a[1], n), Take(a[2], n), a[3])))
      [] c.kind = "t" /\ c.op # "abs_diff_eq" -> Both(LAMBDA f : Vec3(f, c.op, a[1], a[2], a[3]))
      [] c.kind = "r" ->
            PerN(LAMBDA n : LET v == Take(a[1], n) IN
                 CASE c.op = "min_element"  -> MinElement(v)
                   [] c.op = "max_element"  -> MaxElement(v)
                   [] c.op = "min_position" -> MinPosition(v)
                   [] c.op = "max_position" -> MaxPosition(v)
                   [] c.op = "is_nan"       -> VecIsNan(v)
                   [] c.op = "is_finite"    -> VecIsFinite(v)
                   [] c.op = "is_negative_bitmask" -> SignBitmask(v))
      [] c.kind = "f" /\ c.op = "sum"     -> Both(LAMBDA f : SumVecs(f, 4, a[1]))
      [] c.kind = "f" /\ c.op = "product" -> Both(LAMBDA f : ProdVecs(f, 4, a[1]))

Init == /\ ph = "call"
        /\ call \in Calls
        /\ res = <<>>

Return == /\ ph = "call"
          /\ ph' = "ret"
          /\ res' = Eval(call)
          /\ UNCHANGED call

Next == Return
Spec == Init /\ [][Next]_vars

\* ---- emitted for the harness (compact wire encoding) -----------------------
EncArgs(c) ==
    LET a == Args(c) IN
    CASE c.kind = "u"  -> <<EncV(a[1])>>
      [] c.kind \in {"b", "c"} -> <<EncV(a[1]), EncV(a[2])>>
      [] c.kind = "vs" -> <<EncV(a[1]), Enc(a[2])>>
      [] c.kind = "sv" -> <<Enc(a[1]), EncV(a[2])>>
      [] c.kind = "t"  -> IF c.op = "abs_diff_eq"
                          THEN <<EncV(a[1]), EncV(a[2]), Enc(a[3])>>
                          ELSE <<EncV(a[1]), EncV(a[2]), EncV(a[3])>>
      [] c.kind = "r"  -> <<EncV(a[1])>>
      [] c.kind = "f"  -> <<[n \in 1..Len(a[1]) |-> EncV(a[1][n])]>>

EncBoth(r) == [f32 |-> EncV(r.f32), f64 |-> EncV(r.f64)]
EncRes(c, r) ==
    CASE c.op \in PrimUnary \cup PrimScalar -> r
      [] c.kind = "u" /\ c.op \in Unary -> EncBoth(r)
      [] c.kind \in {"b", "vs", "sv", "f"} -> EncBoth(r)
      [] c.kind = "t" /\ c.op # "abs_diff_eq" -> EncBoth(r)
      [] c.kind = "r" /\ c.op \in {"min_element", "max_element"} ->
            [n2 |-> Enc(r.n2), n3 |-> Enc(r.n3), n4 |-> Enc(r.n4)]
      [] OTHER -> r

Emit == ph = "ret" =>
          PrintT(<<"CASE", ToJson([fam |-> "lane", kind |-> call.kind, op |-> call.op,
                                   args |-> EncArgs(call), exp |-> EncRes(call, res)])>>)

\* ---- theorems about the lift, checked on every returned state ------------
\* lane independence: permuting / truncating operand lanes permutes / truncates the result,
\* which is what entitles the harness to rotate a case through every lane position and to
\* use a prefix of the four lanes on narrower vectors.
LiftEquivariant ==
    (ph = "ret" /\ call.kind = "b") =>
        LET a == Args(call) IN
        /\ Vec2(F32, call.op, RotL(a[1]), RotL(a[2])) = RotL(res.f32)
        /\ Vec2(F32, call.op, Take(a[1], 3), Take(a[2], 3)) = Take(res.f32, 3)
        /\ Vec2(F64, call.op, RotL(a[1]), RotL(a[2])) = RotL(res.f64)

\* commutativity of + and * as IEEE values
Commutes ==
    (ph = "ret" /\ call.kind = "b" /\ call.op \in {"add", "mul"}) =>
        LET a == Args(call)
            r == Vec2(F32, call.op, a[2], a[1]) IN
        \A l \in 1..4 : \/ IsOom(r[l]) \/ IsOom(res.f32[l]) \/ Eqv(r[l], res.f32[l])

=============================================================================
