------------------------------- MODULE Dyadic -------------------------------
(***************************************************************************)
(* Exact arithmetic on dyadic rationals  z * 2^e  (z a Big integer): every *)
(* finite f32 / f64 value is one, and sums, differences and products of    *)
(* dyadics are dyadics, so polynomial relations between recorded inputs    *)
(* and outputs (squared lengths, dot and cross products, Chebyshev         *)
(* polynomials of cosines) are decided exactly, without square roots or    *)
(* transcendental functions.                                               *)
(***************************************************************************)
EXTENDS Big

Dy(z, e) == [z |-> z, e |-> e]
DyInt(n) == Dy(ZOf(n), 0)
DyPow2(k) == Dy(Z1, k)                       \* 2^k, k any integer
Dy0 == DyInt(0)
Dy1 == DyInt(1)
\* wire form [s, e, limb...] of a finite float; [] (NaN) and [s] (infinity) are not dyadics
IsFiniteWire(v) == Len(v) >= 2
\* (a NaN or an infinity decodes to the sentinel 2^3000, far outside every tolerance and every recorded magnitude: a relation that
\* compares it with an exact value fails -- the event is rejected -- instead of TLC stopping on an ill-formed value)
DecDy(v) == IF Len(v) >= 2 THEN Dy(Z(v[1], SubSeq(v, 3, Len(v))), v[2]) ELSE Dy(Z1, 3000)

DyMinE(a, b) == IF a.e <= b.e THEN a.e ELSE b.e
DyAt(a, e) == ZMul(a.z, ZPow2(a.e - e))      \* a as an integer multiple of 2^e, e <= a.e
DyAdd(a, b) == LET e == DyMinE(a, b) IN Dy(ZAdd(DyAt(a, e), DyAt(b, e)), e)
DyNeg(a) == Dy(ZNeg(a.z), a.e)
DySub(a, b) == DyAdd(a, DyNeg(b))
DyMul(a, b) == Dy(ZMul(a.z, b.z), a.e + b.e)
DyAbs(a) == Dy(ZAbs(a.z), a.e)
DySq(a) == DyMul(a, a)
DyCmp(a, b) == LET e == DyMinE(a, b) IN ZCmp(DyAt(a, e), DyAt(b, e))
DyLe(a, b) == DyCmp(a, b) <= 0
DyLt(a, b) == DyCmp(a, b) < 0
DyIsZero(a) == a.z.m = <<>>
DyIsNeg(a) == ~DyIsZero(a) /\ a.z.s = 1
DyIsPos(a) == ~DyIsZero(a) /\ a.z.s = 0
DyScale(a, k) == Dy(a.z, a.e + k)            \* a * 2^k
\* |a - b| <= t
DyNear(a, b, t) == DyLe(DyAbs(DySub(a, b)), t)

\* vectors: sequences of dyadics
RECURSIVE DySumSeq(_, _)
DySumSeq(s, i) == IF i > Len(s) THEN Dy0 ELSE DyAdd(s[i], DySumSeq(s, i + 1))
VDot(a, b) == DySumSeq([i \in 1..Len(a) |-> DyMul(a[i], b[i])], 1)
VSq(a) == VDot(a, a)
VSub(a, b) == [i \in 1..Len(a) |-> DySub(a[i], b[i])]
VAdd(a, b) == [i \in 1..Len(a) |-> DyAdd(a[i], b[i])]
VNeg(a) == [i \in 1..Len(a) |-> DyNeg(a[i])]
\* squared sine times both squared lengths (Lagrange): |a|^2 |b|^2 - (a.b)^2  >= 0, zero iff parallel
Lagrange(a, b) == DySub(DyMul(VSq(a), VSq(b)), DySq(VDot(a, b)))

\* Chebyshev polynomial T_n(c) = cos(n acos c), by the recurrence T_{n+1} = 2 c T_n - T_{n-1}
RECURSIVE ChebFrom(_, _, _, _, _)
ChebFrom(c, n, k, tk, tkm1) == IF k = n THEN tk ELSE ChebFrom(c, n, k + 1, DySub(DyScale(DyMul(c, tk), 1), tkm1), tk)
Cheb(n, c) == IF n = 0 THEN Dy1 ELSE ChebFrom(c, n, 1, c, Dy1)

\* x rounded towards minus infinity to a multiple of 2^-k (keeps the limb count of long recurrences bounded; the error < 2^-k
\* is accounted for by the caller's tolerance)
DyTrunc(x, k) == IF x.e >= -k THEN x ELSE Dy(ZFloorShr(x.z, -k - x.e), -k)
\* the same recurrence with every intermediate truncated to 2^-k: |ChebT - T_n| <= n^2 2^-k
RECURSIVE ChebTFrom(_, _, _, _, _, _)
ChebTFrom(c, n, k, tk, tkm1, bits) == IF k = n THEN tk ELSE ChebTFrom(c, n, k + 1, DyTrunc(DySub(DyScale(DyMul(c, tk), 1), tkm1), bits), tk, bits)
ChebT(n, c, bits) == IF n = 0 THEN Dy1 ELSE ChebTFrom(DyTrunc(c, bits), n, 1, DyTrunc(c, bits), Dy1, bits)

\* Chebyshev polynomial of the second kind U_n(c) = sin((n+1) acos c) / sin(acos c)  (U_0 = 1, U_1 = 2c, same recurrence), truncated
\* alike: T_n' = n U_{n-1}, so n |U_{n-1}(c)| is the conditioning of T_n(c) with respect to c
ChebUT(n, c, bits) == IF n = 0 THEN Dy1 ELSE ChebTFrom(DyTrunc(c, bits), n, 1, DyTrunc(DyScale(c, 1), bits), Dy1, bits)

\* rational bounds of pi (for "the angle is pi within t")
PiLo == Dy(ZOf(843314856), -28)              \* 3.14159265... * 2^28 rounded down
PiHi == Dy(ZOf(843314857), -28)
=============================================================================
