------------------------------ MODULE MC_IeeeW ------------------------------
(***************************************************************************)
(* Two independently written models of IEEE arithmetic must agree:         *)
(* Ieee.tla (native 31-bit integers, declines with "oom") and IeeeW.tla    *)
(* (arbitrary precision).  Every pair of the F1 lattice, every operation,  *)
(* both formats; plus identities IeeeW must satisfy beyond Ieee's reach.   *)
(***************************************************************************)
EXTENDS FLattice, IeeeW, TLC
VARIABLES i, j
vars == <<i, j>>

ToW(f, x) == CASE x.k = "nan" -> WNan [] x.k = "inf" -> WInf(x.s) [] x.k = "zero" -> WZero(x.s)
               [] x.k = "fin" -> WCanon(f, x.s, NatOf(x.m), x.e)
\* strict: the sign of zero must agree as well; NaN matches NaN; oom / any decline
Agree(f, r, w) == \/ r.k \in {"oom", "any"} \/ w.k = "any"
                  \/ (r.k = "nan" /\ w.k = "nan")
                  \/ (r.k # "nan" /\ ToW(f, r) = w)
AgreeLoose(f, r, w) == r.k \in {"oom", "any"} \/ SameW(ToW(f, r), w)
Decided(r) == r.k \notin {"oom", "any"}

Fmts == << <<F32, W32>>, <<F64, W64>> >>
Init == i \in 1..N1 /\ j = 0            \* j = 0: nothing to check yet (initial states are checked by one thread)
Next == j = 0 /\ j' \in 1..N1 /\ UNCHANGED i
Spec == Init /\ [][Next]_vars

Check2(name, r, w, f) == Agree(f, r, w) \/ (PrintT(<<"DISAGREE", name, r, w>>) /\ FALSE)
Unary ==
    j > 0 => \A k \in 1..2 : LET f == Fmts[k][1] g == Fmts[k][2] x == F1[i] a == ToW(g, F1[i]) IN
      j = 1 =>
        /\ Check2("floor", Floor(x), FloorW(g, a), g) /\ Check2("ceil", Ceil(x), CeilW(g, a), g)
        /\ Check2("trunc", Trunc(x), TruncW(g, a), g) /\ Check2("round", Round(x), RoundHalfAwayW(g, a), g)
        /\ Check2("fract", Fract(f, x), FractW(g, a), g) /\ Check2("fract_gl", FractGl(f, x), FractGlW(g, a), g)
        /\ Check2("recip", Recip(f, x), RecipW(g, a), g) /\ Check2("sqrt", Sqrt(f, x), SqrtW(g, a), g)
        /\ Check2("signum", Signum(x), SignumW(g, a), g) /\ Check2("narrow", Narrow(F32, x), NarrowW(W32, a), W32)
Binary ==
    j > 0 => \A k \in 1..2 : LET f == Fmts[k][1] g == Fmts[k][2] x == F1[i] y == F1[j] a == ToW(g, F1[i]) b == ToW(g, F1[j]) IN
        /\ Check2("add", Add(f, x, y), AddW(g, a, b), g) /\ Check2("sub", Sub(f, x, y), SubW(g, a, b), g)
        /\ Check2("mul", Mul(f, x, y), MulW(g, a, b), g) /\ Check2("div", Div(f, x, y), DivW(g, a, b), g)
        /\ Check2("rem", Rem(x, y), RemW(g, a, b), g)
        /\ Check2("div_euclid", DivEuclid(f, x, y), DivEuclidW(g, a, b), g)
        /\ Check2("rem_euclid", RemEuclid(f, x, y), RemEuclidW(g, a, b), g)
        /\ (AgreeLoose(g, MinF(x, y), MinW(a, b)) \/ (PrintT(<<"DISAGREE", "min", x, y>>) /\ FALSE))
        /\ (AgreeLoose(g, MaxF(x, y), MaxW(a, b)) \/ (PrintT(<<"DISAGREE", "max", x, y>>) /\ FALSE))
        /\ (IsNum(x) /\ IsNum(y)) => /\ Lt(x, y) = LtW(a, b) /\ Le(x, y) = LeW(a, b) /\ EqF(x, y) = EqW(a, b)
        /\ (IsNan(x) \/ IsNan(y)) => ~LtW(a, b) /\ ~LeW(a, b) /\ ~EqW(a, b)
\* fused multiply-add on the diagonal-ish triples (i, j, i+j)
Ternary ==
    j > 0 => \A k \in 1..2 : LET f == Fmts[k][1] g == Fmts[k][2] x == F1[i] y == F1[j] z == F1[Wrap1(i + 2 * j, N1)] IN
        Check2("fma", Fma(f, x, y, z), FmaW(g, ToW(g, x), ToW(g, y), ToW(g, z)), g)
\* identities of the wide model that need no second model
WideLaws ==
    j > 0 => LET g == W32 a == ToW(W32, F1[i]) b == ToW(W32, F1[j]) IN
        /\ SameW(AddW(g, a, b), AddW(g, b, a)) /\ SameW(MulW(g, a, b), MulW(g, b, a))
        /\ (IsFinW(a) /\ ~IsZeroW(a) /\ a.s = 0) =>
              \* sqrt(a*a) = a whenever a*a is exact (no rounding): here checked through the f64 format
              LET sq == MulW(W64, a, a) IN SameW(SqrtW(W64, sq), a)
        /\ (IsFinW(a) /\ IsFinW(b) /\ ~IsZeroW(b)) =>
              \* a = trunc(a/b)*b + (a rem b) exactly: |rem| < |b| and the sign of a
              LET r == RemW(g, a, b) IN IsFinW(r) /\ (IsZeroW(r) \/ r.s = a.s) /\ MagCmp(r, b) < 0
\* how much the narrow model decides: counted for the evidence
Counts == TRUE
=============================================================================
