------------------------------- MODULE MC_Fold -------------------------------
(***************************************************************************)
(* Sum and Product over iterators as a fold machine.  The accumulator      *)
(* starts at the unit of the operation (ZERO for Sum; ONE / the identity   *)
(* matrix / the identity quaternion / the identity transform for Product)  *)
(* and every Push combines it with the next item ON THE RIGHT (acc * x:    *)
(* matrix, quaternion and affine products do not commute).  Every state -- *)
(* including the initial one: the EMPTY iterator -- is a behaviour to      *)
(* replay: `items.iter().sum()`, `.into_iter().sum()`, `.iter().product()`,*)
(* `.into_iter().product()` on the real types must return the accumulator. *)
(* Algebras: vectors (lane-wise, every numeric vector type), square        *)
(* matrices, quaternions, affine transforms (as homogeneous matrices).     *)
(* Items are small integers, so every type computes them exactly.          *)
(***************************************************************************)
EXTENDS LinAlg, Json
CONSTANT Tier
VARIABLES alg, n, op, items, acc
vars == <<alg, n, op, items, acc>>
MaxLen == IF Tier = "quick" THEN 3 ELSE 4

Take(v, k) == [i \in 1..k |-> v[i]]
\* ---- items ------------------------------------------------------------------------------------------------------------------
VecItems(k) == {Take(v, k) : v \in {<<1, 2, 3, 0>>, <<2, 0, 1, 3>>, <<3, 1, 2, 1>>}}             \* non-negative: unsigned types too
MatItems(k) == { Mk(k, LAMBDA r, c : ((r + 2 * c) % 3) - 1),                                    \* dense, entries -1..1
                 Mk(k, LAMBDA r, c : IF c = (r + 1) % k THEN 2 ELSE IF r = c THEN 1 ELSE 0),    \* identity + 2 * cyclic shift
                 Mk(k, LAMBDA r, c : IF r = 0 THEN c + 1 ELSE IF r = c THEN -1 ELSE 0) }        \* first row 1..k, -1 on the diagonal
QuatItems == {<<1, 2, 0, -1>>, <<0, 1, 1, 1>>, <<2, 0, -1, 1>>}
\* affine transforms of dimension k as homogeneous (k+1) x (k+1) matrices: linear part from MatItems(k), translation in the last column
Homog(k, L, t) == Mk(k + 1, LAMBDA r, c : IF r < k /\ c < k THEN E(k, L, r, c) ELSE IF c = k /\ r < k THEN t[r + 1] ELSE IF r = k /\ c = k THEN 1 ELSE 0)
AffItems(k) == LET Ls == MatItems(k) IN
    { Homog(k, CHOOSE L \in Ls : E(k, L, 0, 0) = -1 /\ E(k, L, 0, 1) = 1, <<1, -2, 3>>),
      Homog(k, CHOOSE L \in Ls : E(k, L, 0, 0) = 1 /\ E(k, L, 0, 1) = 2, <<0, 3, -1>>),
      Homog(k, Ident(k), <<2, 1, -3>>) }

Algs == {<<"vec", k>> : k \in 2..4} \cup {<<"mat", k>> : k \in 2..4} \cup {<<"quat", 4>>} \cup {<<"aff", k>> : k \in 2..3}
OpsOf(a) == IF a = "aff" THEN {"product"} ELSE {"sum", "product"}
ItemsOf(a, k) == CASE a = "vec" -> VecItems(k) [] a = "mat" -> MatItems(k) [] a = "quat" -> QuatItems [] a = "aff" -> AffItems(k)

Dim(a, k) == IF a = "aff" THEN k + 1 ELSE k
Unit(a, k, o) ==
    CASE o = "sum" /\ a = "mat"      -> [i \in 1..(k * k) |-> 0]
      [] o = "sum"                   -> [i \in 1..k |-> 0]
      [] a = "vec"                   -> [i \in 1..k |-> 1]
      [] a = "quat"                  -> <<0, 0, 0, 1>>
      [] OTHER                       -> Ident(Dim(a, k))
Comb(a, k, o, x, y) ==
    CASE o = "sum"                   -> [i \in 1..Len(x) |-> x[i] + y[i]]
      [] a = "vec"                   -> [i \in 1..k |-> x[i] * y[i]]
      [] a = "quat"                  -> Hamilton(x, y)
      [] OTHER                       -> MatMul(Dim(a, k), x, y)

Init == /\ \E p \in Algs : alg = p[1] /\ n = p[2]
        /\ op \in OpsOf(alg)
        /\ items = <<>> /\ acc = Unit(alg, n, op)
Push(x) == /\ Len(items) < MaxLen
           /\ items' = Append(items, x)
           /\ acc' = Comb(alg, n, op, acc, x)
           /\ UNCHANGED <<alg, n, op>>
Next == \E x \in ItemsOf(alg, n) : Push(x)
Spec == Init /\ [][Next]_vars

Emit == PrintT(<<"CASE", ToJson([fam |-> "fold", alg |-> alg, n |-> n, op |-> op, len |-> Len(items), items |-> items, exp |-> acc])>>)

\* ---- theorems: the fold is a monoid homomorphism (units, associativity), defined independently of the machine's left fold ------------
RECURSIVE FoldR(_, _, _, _)
FoldR(a, k, o, s) == IF s = <<>> THEN Unit(a, k, o) ELSE Comb(a, k, o, Head(s), FoldR(a, k, o, Tail(s)))     \* right fold
Monoid ==
    /\ acc = FoldR(alg, n, op, items)                                                         \* left fold = right fold
    /\ \A i \in 0..Len(items) :
          acc = Comb(alg, n, op, FoldR(alg, n, op, SubSeq(items, 1, i)), FoldR(alg, n, op, SubSeq(items, i + 1, Len(items))))
    /\ \A x \in ItemsOf(alg, n) : Comb(alg, n, op, Unit(alg, n, op), x) = x /\ Comb(alg, n, op, x, Unit(alg, n, op)) = x
\* the products really do not commute (otherwise the order of the fold would be unobservable)
ASSUME \E x, y \in MatItems(2) : MatMul(2, x, y) # MatMul(2, y, x)
ASSUME \E x, y \in QuatItems : Hamilton(x, y) # Hamilton(y, x)
ASSUME \A k \in 2..3 : \E x, y \in AffItems(k) : MatMul(k + 1, x, y) # MatMul(k + 1, y, x)
ASSUME \A k \in 2..4 : Cardinality(MatItems(k)) = 3 /\ Cardinality(VecItems(k)) = 3
ASSUME \A k \in 2..3 : Cardinality(AffItems(k)) = 3
=============================================================================
