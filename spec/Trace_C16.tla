----------------------------- MODULE Trace_C16 ------------------------------
(***************************************************************************)
(* Trace validation (code -> specification) of the swizzle machine of C16. *)
(* The harness (`rec swz`) drives every vector type through a random       *)
(* history of swizzle getters and with_ setters over random bit patterns:  *)
(* getters of the register's own length are (half of the time) written     *)
(* back, so that the register is permuted in place and later calls see the *)
(* composition; setters replace the named lanes.  Each event is one action *)
(* over Swizzle.tla's index maps (the SwzGet / SwzWith the model checker   *)
(* enumerates in MC_C16), with the name bound to the logged letters; the   *)
(* logged observation must be what the action yields, and the logged       *)
(* result type the documented one.  Lanes are opaque bit-pattern strings.  *)
(***************************************************************************)
EXTENDS Swizzle, Json, IOUtils
Rec == ndJsonDeserialize(IOEnv.TRACE)
VARIABLES n, fam, ty, reg, l
tvars == <<n, fam, ty, reg, l>>

Ev1 == Rec[l]
Digit(k) == CASE k = 2 -> "2" [] k = 3 -> "3" [] k = 4 -> "4"
\* the name is spelled by letters of the register, and the logged method name is those letters
NameOk(e) == /\ Len(e.nm) \in 2..4
             /\ \A i \in 1..Len(e.nm) : e.nm[i] \in {Letters[j] : j \in 1..n}
             /\ e.name = NameStr(e.nm)
\* documented result type: Self for a name as long as the register, else the plain vector of the family
RtyOk(e, k) == e.rty = (IF k = n THEN ty ELSE fam \o Digit(k))

Begin ==
    /\ Ev1.op = "begin"
    /\ n' = Ev1.n /\ fam' = Ev1.fam /\ ty' = Ev1.ty /\ reg' = Ev1.obs /\ Len(Ev1.obs) = Ev1.n
TraceGet ==
    /\ Ev1.op = "get" /\ Ev1.ty = ty /\ NameOk(Ev1)
    /\ Ev1.obs = SwzGet(Ev1.nm, reg)
    /\ RtyOk(Ev1, Len(Ev1.nm))
    /\ UNCHANGED <<n, fam, ty, reg>>
TracePerm ==
    /\ Ev1.op = "perm" /\ Ev1.ty = ty /\ NameOk(Ev1) /\ Len(Ev1.nm) = n
    /\ reg' = SwzGet(Ev1.nm, reg) /\ reg' = Ev1.obs
    /\ Ev1.rty = ty
    /\ UNCHANGED <<n, fam, ty>>
TraceWith ==
    /\ Ev1.op = "with" /\ Ev1.ty = ty /\ NameOk(Ev1)
    /\ Ev1.nm \in SetterNames(n) /\ Len(Ev1.rhs) = Len(Ev1.nm)
    /\ reg' = SwzWith(Ev1.nm, reg, Ev1.rhs) /\ reg' = Ev1.obs
    /\ Ev1.rty = ty
    /\ UNCHANGED <<n, fam, ty>>
\* (an event "missing" -- a name of the documented families that the crate does not provide -- matches no action)

TraceInit == l = 1 /\ n = 2 /\ fam = "-" /\ ty = "-" /\ reg = <<"-", "-">>
TraceNext == /\ l <= Len(Rec)
             /\ (Begin \/ TraceGet \/ TracePerm \/ TraceWith)
             /\ l' = l + 1
TraceSpec == TraceInit /\ [][TraceNext]_tvars
Accepted ==
    IF TLCGet("stats").diameter = Len(Rec) + 1 THEN TRUE
    ELSE /\ PrintT(<<"TRACE-REJECTED", "matched", TLCGet("stats").diameter - 1, "of", Len(Rec)>>)
         /\ PrintT(<<"FIRST-REJECTED-EVENT", ToJson(Rec[TLCGet("stats").diameter])>>)
         /\ FALSE
=============================================================================
