------------------------------- MODULE Ieee -------------------------------
(***************************************************************************)
(* Abstract IEEE-754 binary floating point, exact on the dyadic lattice.   *)
(*                                                                         *)
(* A scalar is a record [k, s, m, e]:                                      *)
(*    k = "nan" | "inf" | "zero" | "fin"      (kind)                       *)
(*    s = 0 | 1                                (sign bit)                  *)
(*    fin:  value = (-1)^s * m * 2^e  with m odd, 0 < m < 2^31             *)
(* plus two non-values of the same shape:                                  *)
(*    k = "oom"  -- the exact result needs more than 31-bit integers: the  *)
(*                  specification declines to predict (harness skips lane) *)
(*    k = "any"  -- the property leaves the lane unspecified               *)
(*                                                                         *)
(* A format is [p, emin, emax]: p bits of precision, emin the exponent of  *)
(* the smallest subnormal's unit (2^emin), emax the top exponent.          *)
(* Every operation is the IEEE-754 correctly rounded one (round to nearest *)
(* ties to even), computed with integer arithmetic only.                   *)
(***************************************************************************)
EXTENDS Integers, Sequences, TLC

F32 == [p |-> 24, emin |-> -149, emax |-> 127]
F64 == [p |-> 53, emin |-> -1074, emax |-> 1023]

NaN(s)      == [k |-> "nan",  s |-> s, m |-> 0, e |-> 0]
Inf(s)      == [k |-> "inf",  s |-> s, m |-> 0, e |-> 0]
Zero(s)     == [k |-> "zero", s |-> s, m |-> 0, e |-> 0]
Fin(s,m,e)  == [k |-> "fin",  s |-> s, m |-> m, e |-> e]
Oom         == [k |-> "oom",  s |-> 0, m |-> 0, e |-> 0]
AnyVal      == [k |-> "any",  s |-> 0, m |-> 0, e |-> 0]

IsNan(x)    == x.k = "nan"
IsInf(x)    == x.k = "inf"
IsZero(x)   == x.k = "zero"
IsFin(x)    == x.k = "fin"
IsOom(x)    == x.k = "oom"
IsNum(x)    == x.k \in {"inf", "zero", "fin"}      \* an ordered (non-NaN) value
IsFinite(x) == x.k \in {"zero", "fin"}
Known(x)    == x.k \in {"nan", "inf", "zero", "fin"}

MaxInt == 2147483647
Lim30  == 1073741824      \* 2^30: every intermediate integer stays below 2^31

RECURSIVE BitLen(_)
BitLen(n) == IF n = 0 THEN 0 ELSE 1 + BitLen(n \div 2)

RECURSIVE Tz(_)            \* number of trailing zero bits of n > 0
Tz(n) == IF n % 2 = 1 THEN 0 ELSE 1 + Tz(n \div 2)

Pow2(n) == 2^n             \* 0 <= n <= 30

Abs(n) == IF n < 0 THEN -n ELSE n
Max(a, b) == IF a >= b THEN a ELSE b
Min(a, b) == IF a <= b THEN a ELSE b

\* the canonical scalar for the integer M * 2^E (M >= 0), no rounding
Canon(s, M, E) ==
    IF M = 0 THEN Zero(s)
    ELSE LET t == Tz(M) IN Fin(s, M \div Pow2(t), E + t)

Top(x) == x.e + BitLen(x.m) - 1                 \* floor(log2 |x|), x fin

\* is the finite value m*2^e exactly representable in format f ?
Representable(f, x) ==
    \/ x.k # "fin"
    \/ /\ BitLen(x.m) <= f.p
       /\ x.e >= f.emin
       /\ Top(x) <= f.emax

(***************************************************************************)
(* RoundToFormat(f, s, M, E, st): round the real number                    *)
(*      (-1)^s * (M + t) * 2^E,   0 <= M < 2^31,                           *)
(* where t = 0 if st = 0 and t is an unknown real in (0,1) if st = 1       *)
(* ("sticky": there are non-zero bits below the unit of M), to format f.   *)
(* Returns Oom when M does not carry enough bits to decide the rounding.   *)
(***************************************************************************)
RoundToFormat(f, s, M, E, st) ==
    IF M = 0 THEN (IF st = 0 THEN Zero(s) ELSE Oom)
    ELSE
    LET L == BitLen(M)
        t == E + L - 1                              \* top exponent
        q == Max(t - f.p + 1, f.emin)               \* quantum exponent
        sh == q - E                                  \* bits to drop
    IN  IF sh <= 0 THEN
            \* nothing dropped from M: exact iff no sticky tail
            IF st = 1 THEN Oom
            ELSE IF t > f.emax THEN Inf(s) ELSE Canon(s, M, E)
        ELSE IF sh > L + 1 THEN Zero(s)             \* below a quarter quantum
        ELSE IF sh = L + 1 THEN Zero(s)             \* value < 2^(q-1): below half
        ELSE
        LET d    == Pow2(sh)
            Q    == M \div d
            R    == M % d
            half == d \div 2
            up   == \/ R > half
                    \/ R = half /\ st = 1
                    \/ R = half /\ st = 0 /\ Q % 2 = 1
            Q2   == IF up THEN Q + 1 ELSE Q
        IN  IF Q2 = 0 THEN Zero(s)
            ELSE IF q + BitLen(Q2) - 1 > f.emax THEN Inf(s)
            ELSE Canon(s, Q2, q)

\* Round an already-canonical finite/zero value (e.g. an f64 lattice value to f32)
RoundVal(f, x) ==
    IF x.k = "fin" THEN RoundToFormat(f, x.s, x.m, x.e, 0) ELSE x

---------------------------------------------------------------------------
(* Ordering and equality of values (no rounding involved).                 *)

\* compare magnitudes of two fin values: -1, 0, 1
CmpMag(x, y) ==
    LET tx == Top(x) ty == Top(y) IN
    IF tx # ty THEN (IF tx < ty THEN -1 ELSE 1)
    ELSE \* same top bit: align mantissas to the same bit length
      LET lx == BitLen(x.m) ly == BitLen(y.m)
          l  == Max(lx, ly)
          ax == x.m * Pow2(l - lx)
          ay == y.m * Pow2(l - ly)
      IN IF ax < ay THEN -1 ELSE IF ax > ay THEN 1 ELSE 0

\* total order key comparison on non-NaN values: -1, 0, 1   (-0 = +0)
Cmp(x, y) ==
    LET sgn(v) == IF v.k = "zero" THEN 0 ELSE IF v.s = 1 THEN -1 ELSE 1
        sx == sgn(x) sy == sgn(y)
    IN  IF sx # sy THEN (IF sx < sy THEN -1 ELSE 1)
        ELSE IF sx = 0 THEN 0
        ELSE \* same non-zero sign
          LET mag == IF x.k = "inf" THEN (IF y.k = "inf" THEN 0 ELSE 1)
                     ELSE IF y.k = "inf" THEN -1
                     ELSE CmpMag(x, y)
          IN sx * mag

Lt(x, y) == IsNum(x) /\ IsNum(y) /\ Cmp(x, y) < 0
Le(x, y) == IsNum(x) /\ IsNum(y) /\ Cmp(x, y) <= 0
Gt(x, y) == IsNum(x) /\ IsNum(y) /\ Cmp(x, y) > 0
Ge(x, y) == IsNum(x) /\ IsNum(y) /\ Cmp(x, y) >= 0
EqF(x, y) == IsNum(x) /\ IsNum(y) /\ Cmp(x, y) = 0      \* IEEE ==
NeF(x, y) == ~EqF(x, y)                                  \* IEEE != (true on NaN)

\* the equality the properties use: -0 = +0, NaN ~ NaN
Eqv(x, y) == \/ IsNan(x) /\ IsNan(y)
             \/ EqF(x, y)

---------------------------------------------------------------------------
(* Sign operations                                                         *)

NegF(x)  == IF Known(x) THEN [x EXCEPT !.s = 1 - x.s] ELSE x
AbsF(x)  == IF Known(x) THEN [x EXCEPT !.s = 0] ELSE x
CopySign(x, y) == IF Known(x) /\ Known(y) THEN [x EXCEPT !.s = y.s] ELSE Oom
SignBit(x) == x.s = 1
One(s) == Fin(s, 1, 0)
\* Rust f32::signum: NaN -> NaN, otherwise copysign(1, x)
Signum(x) == IF IsNan(x) THEN NaN(0) ELSE IF Known(x) THEN One(x.s) ELSE x

---------------------------------------------------------------------------
(* Addition                                                                *)

\* exact signed sum of two fin values when it fits, as a rounded value
AddFin(f, x, y) ==
    LET big   == IF CmpMag(x, y) >= 0 THEN x ELSE y
        small == IF CmpMag(x, y) >= 0 THEN y ELSE x
        qb    == Max(Top(big) - f.p + 1, f.emin)
    IN  IF Top(small) < qb - 2 /\ Representable(f, big)
        THEN big                                   \* |small| < quantum/4: absorbed
        ELSE
        LET e0 == Min(x.e, y.e)
            shx == x.e - e0
            shy == y.e - e0
        IN  IF BitLen(x.m) + shx > 29 \/ BitLen(y.m) + shy > 29 THEN Oom
            ELSE
            LET X == x.m * Pow2(shx)
                Y == y.m * Pow2(shy)
                sx == IF x.s = 1 THEN -X ELSE X
                sy == IF y.s = 1 THEN -Y ELSE Y
                S  == sx + sy
            IN  IF S = 0 THEN Zero(IF x.s = 1 /\ y.s = 1 THEN 1 ELSE 0)
                ELSE RoundToFormat(f, IF S < 0 THEN 1 ELSE 0, Abs(S), e0, 0)

Add(f, x, y) ==
    IF ~Known(x) \/ ~Known(y) THEN Oom
    ELSE IF IsNan(x) \/ IsNan(y) THEN NaN(0)
    ELSE IF IsInf(x) THEN (IF IsInf(y) /\ x.s # y.s THEN NaN(0) ELSE x)
    ELSE IF IsInf(y) THEN y
    ELSE IF IsZero(x) THEN (IF IsZero(y) THEN Zero(IF x.s = 1 /\ y.s = 1 THEN 1 ELSE 0) ELSE y)
    ELSE IF IsZero(y) THEN x
    ELSE AddFin(f, x, y)

Sub(f, x, y) == Add(f, x, NegF(y))

---------------------------------------------------------------------------
(* Multiplication                                                          *)

Mul(f, x, y) ==
    IF ~Known(x) \/ ~Known(y) THEN Oom
    ELSE IF IsNan(x) \/ IsNan(y) THEN NaN(0)
    ELSE LET s == (x.s + y.s) % 2 IN
    IF IsInf(x) THEN (IF IsZero(y) THEN NaN(0) ELSE Inf(s))
    ELSE IF IsInf(y) THEN (IF IsZero(x) THEN NaN(0) ELSE Inf(s))
    ELSE IF IsZero(x) \/ IsZero(y) THEN Zero(s)
    ELSE IF Top(x) + Top(y) > f.emax THEN Inf(s)                  \* |x y| >= 2^(emax+1): overflows whatever the mantissas
    ELSE IF Top(x) + Top(y) + 2 <= f.emin - 1 THEN Zero(s)        \* |x y| < 2^(emin-1): below half the smallest subnormal
    ELSE IF BitLen(x.m) + BitLen(y.m) > 30 THEN Oom
    ELSE RoundToFormat(f, s, x.m * y.m, x.e + y.e, 0)

---------------------------------------------------------------------------
(* Division: bit-serial long division, quotient bits until either the      *)
(* remainder is zero (exact) or 28 bits are known (enough for p <= 24).    *)

RECURSIVE LongDiv(_, _, _, _, _)
\* invariant: R < D ; Q accumulated quotient ; n = number of fraction bits produced
LongDiv(R, D, Q, n, want) ==
    IF R = 0 \/ BitLen(Q) >= want THEN [q |-> Q, r |-> R, n |-> n]
    ELSE LET R2 == 2 * R IN
         IF R2 >= D THEN LongDiv(R2 - D, D, 2 * Q + 1, n + 1, want)
         ELSE LongDiv(R2, D, 2 * Q, n + 1, want)

DivFin(f, s, x, y) ==
    \* x.m / y.m * 2^(x.e - y.e)
    LET q0 == x.m \div y.m
        r0 == x.m % y.m
    IN  IF BitLen(q0) > 28 THEN Oom
        ELSE
        LET want == IF f.p <= 24 THEN 28 ELSE 30
            ld == LongDiv(r0, y.m, q0, 0, want)
        IN  IF ld.r # 0 /\ f.p > 24 THEN Oom       \* inexact f64 quotient: not decidable in 31 bits
            ELSE RoundToFormat(f, s, ld.q, x.e - y.e - ld.n, IF ld.r = 0 THEN 0 ELSE 1)

Div(f, x, y) ==
    IF ~Known(x) \/ ~Known(y) THEN Oom
    ELSE IF IsNan(x) \/ IsNan(y) THEN NaN(0)
    ELSE LET s == (x.s + y.s) % 2 IN
    IF IsInf(x) THEN (IF IsInf(y) THEN NaN(0) ELSE Inf(s))
    ELSE IF IsInf(y) THEN Zero(s)
    ELSE IF IsZero(y) THEN (IF IsZero(x) THEN NaN(0) ELSE Inf(s))
    ELSE IF IsZero(x) THEN Zero(s)
    ELSE DivFin(f, s, x, y)

Recip(f, x) == Div(f, One(0), x)

---------------------------------------------------------------------------
(* Fused multiply-add: x*y + z with one rounding                           *)

Fma(f, x, y, z) ==
    IF ~Known(x) \/ ~Known(y) \/ ~Known(z) THEN Oom
    ELSE IF IsNan(x) \/ IsNan(y) \/ IsNan(z) THEN NaN(0)
    ELSE LET s == (x.s + y.s) % 2 IN
    IF IsInf(x) \/ IsInf(y) THEN
        (IF IsZero(x) \/ IsZero(y) THEN NaN(0)
         ELSE IF IsInf(z) /\ z.s # s THEN NaN(0) ELSE Inf(s))
    ELSE IF IsInf(z) THEN z
    ELSE IF IsZero(x) \/ IsZero(y) THEN
        (IF IsZero(z) THEN Zero(IF s = 1 /\ z.s = 1 THEN 1 ELSE 0) ELSE z)
    ELSE IF BitLen(x.m) + BitLen(y.m) > 29 THEN Oom
    ELSE
    LET P  == x.m * y.m          \* exact product, odd
        pe == x.e + y.e
    IN  IF IsZero(z) THEN RoundToFormat(f, s, P, pe, 0)
        ELSE
        LET e0  == Min(pe, z.e)
            shp == pe - e0
            shz == z.e - e0
        IN  IF BitLen(P) + shp > 29 \/ BitLen(z.m) + shz > 29 THEN Oom
            ELSE
            LET A == P * Pow2(shp)
                B == z.m * Pow2(shz)
                S == (IF s = 1 THEN -A ELSE A) + (IF z.s = 1 THEN -B ELSE B)
            IN  IF S = 0 THEN Zero(0)
                ELSE RoundToFormat(f, IF S < 0 THEN 1 ELSE 0, Abs(S), e0, 0)

---------------------------------------------------------------------------
(* Rounding to integral values                                             *)

\* integer part I and "has fraction" of a fin value; only for -30 <= e < 0
IntPart(x)  == x.m \div Pow2(-x.e)
FracPart(x) == x.m % Pow2(-x.e)          \* non-zero because m is odd

\* from a signed integer magnitude build the canonical value
OfInt(s, n) == Canon(s, n, 0)

Trunc(x) ==
    IF x.k # "fin" THEN x
    ELSE IF x.e >= 0 THEN x
    ELSE IF Top(x) < 0 THEN Zero(x.s)
    ELSE OfInt(x.s, IntPart(x))

Floor(x) ==
    IF x.k # "fin" THEN x
    ELSE IF x.e >= 0 THEN x
    ELSE IF Top(x) < 0 THEN (IF x.s = 1 THEN One(1) ELSE Zero(0))
    ELSE IF x.s = 0 THEN OfInt(0, IntPart(x)) ELSE OfInt(1, IntPart(x) + 1)

Ceil(x) ==
    IF x.k # "fin" THEN x
    ELSE IF x.e >= 0 THEN x
    ELSE IF Top(x) < 0 THEN (IF x.s = 0 THEN One(0) ELSE Zero(1))
    ELSE IF x.s = 1 THEN OfInt(1, IntPart(x)) ELSE OfInt(0, IntPart(x) + 1)

\* round half away from zero (Rust f32::round)
Round(x) ==
    IF x.k # "fin" THEN x
    ELSE IF x.e >= 0 THEN x
    ELSE IF Top(x) < -1 THEN Zero(x.s)                   \* |x| < 1/2
    ELSE IF Top(x) = -1 THEN One(x.s)                    \* 1/2 <= |x| < 1
    ELSE LET half == Pow2(-x.e - 1) IN
         IF FracPart(x) >= half THEN OfInt(x.s, IntPart(x) + 1)
         ELSE OfInt(x.s, IntPart(x))

\* results of the integral roundings are always representable (|x| >= 2^(p-1) is
\* already integral), so no format rounding is needed.

\* Rust fract: x - x.trunc()  (exact)
Fract(f, x)   == Sub(f, x, Trunc(x))
\* GLSL fract: x - x.floor()
FractGl(f, x) == Sub(f, x, Floor(x))

---------------------------------------------------------------------------
(* Truncated remainder (C fmod, Rust %): exact, sign of the dividend       *)

RECURSIVE PowMod(_, _, _)     \* 2^n mod d, by repeated doubling (n may be large)
PowMod(b, n, d) ==             \* b * 2^n mod d, with b < d < 2^15
    IF n = 0 THEN b % d ELSE PowMod((2 * b) % d, n - 1, d)

RemFin(x, y) ==
    \* |x| mod |y| as a canonical value with sign of x
    IF CmpMag(x, y) < 0 THEN x
    ELSE
    LET e0 == Min(x.e, y.e) IN
    IF y.e > x.e THEN
        \* y = my * 2^(ye - xe) in units of 2^xe ; |x| >= |y| bounds the shift
        IF BitLen(y.m) + (y.e - x.e) > 30 THEN Oom
        ELSE Canon(x.s, x.m % (y.m * Pow2(y.e - x.e)), x.e)
    ELSE
        \* x = mx * 2^(xe - ye) in units of 2^ye : possibly a huge quotient
        IF BitLen(x.m) + (x.e - y.e) <= 30
        THEN Canon(x.s, (x.m * Pow2(x.e - y.e)) % y.m, y.e)
        ELSE IF BitLen(y.m) > 15 \/ BitLen(x.m) > 15 THEN Oom
        ELSE Canon(x.s, PowMod(x.m % y.m, x.e - y.e, y.m), y.e)

Rem(x, y) ==
    IF ~Known(x) \/ ~Known(y) THEN Oom
    ELSE IF IsNan(x) \/ IsNan(y) \/ IsInf(x) \/ IsZero(y) THEN NaN(0)
    ELSE IF IsInf(y) THEN x
    ELSE IF IsZero(x) THEN x
    ELSE RemFin(x, y)

\* Rust f32::div_euclid / rem_euclid (library definitions, with their roundings)
DivEuclid(f, x, y) ==
    LET q == Trunc(Div(f, x, y))
        r == Rem(x, y)
    IN  IF IsOom(q) \/ IsOom(r) THEN Oom
        ELSE IF Lt(r, Zero(0))
             THEN (IF Gt(y, Zero(0)) THEN Sub(f, q, One(0)) ELSE Add(f, q, One(0)))
             ELSE q

RemEuclid(f, x, y) ==
    LET r == Rem(x, y) IN
    IF IsOom(r) THEN Oom
    ELSE IF Lt(r, Zero(0)) THEN Add(f, r, AbsF(y)) ELSE r

---------------------------------------------------------------------------
(* min / max / clamp on non-NaN operands (NaN operands: unspecified)       *)

MinF(x, y) == IF ~Known(x) \/ ~Known(y) THEN Oom
              ELSE IF IsNan(x) \/ IsNan(y) THEN AnyVal
              ELSE IF Cmp(x, y) <= 0 THEN x ELSE y
MaxF(x, y) == IF ~Known(x) \/ ~Known(y) THEN Oom
              ELSE IF IsNan(x) \/ IsNan(y) THEN AnyVal
              ELSE IF Cmp(x, y) >= 0 THEN x ELSE y
\* clamp(x, lo, hi) requires lo <= hi (otherwise unspecified here)
ClampF(x, lo, hi) ==
    IF ~Known(x) \/ ~Known(lo) \/ ~Known(hi) THEN Oom
    ELSE IF IsNan(x) \/ IsNan(lo) \/ IsNan(hi) THEN AnyVal
    ELSE IF Cmp(lo, hi) > 0 THEN AnyVal
    ELSE IF Cmp(x, lo) < 0 THEN lo ELSE IF Cmp(x, hi) > 0 THEN hi ELSE x

---------------------------------------------------------------------------
(* Exact square root of perfect squares (m * 2^e with e even, m a square)  *)

RECURSIVE ISqrtB(_, _, _)
ISqrtB(n, lo, hi) ==     \* largest r in lo..hi with r*r <= n ; hi <= 46340
    IF lo >= hi THEN lo
    ELSE LET mid == (lo + hi + 1) \div 2 IN
         IF mid * mid <= n THEN ISqrtB(n, mid, hi) ELSE ISqrtB(n, lo, mid - 1)
ISqrt(n) == ISqrtB(n, 0, 46340)

Sqrt(f, x) ==
    IF ~Known(x) THEN Oom
    ELSE IF IsNan(x) THEN NaN(0)
    ELSE IF IsZero(x) THEN x
    ELSE IF x.s = 1 THEN NaN(0)
    ELSE IF IsInf(x) THEN x
    ELSE IF x.e % 2 # 0 THEN
         \* odd exponent: m*2^e = (2m)*2^(e-1); 2m is a perfect square never (m odd) -> inexact
         Oom
    ELSE LET r == ISqrt(x.m) IN
         IF r * r = x.m THEN RoundToFormat(f, 0, r, x.e \div 2, 0) ELSE Oom

---------------------------------------------------------------------------
(* Conversions                                                             *)

\* f64 -> f32 (or any narrowing): one rounding
Narrow(f, x) == IF x.k = "fin" THEN RoundToFormat(f, x.s, x.m, x.e, 0) ELSE x

\* float -> integer `as` cast: truncate, saturate to [lo, hi], NaN -> 0.
\* lo, hi given as TLC integers (only for targets of at most 31 bits).
ToIntSat(x, lo, hi) ==
    IF IsNan(x) THEN 0
    ELSE IF IsInf(x) THEN (IF x.s = 1 THEN lo ELSE hi)
    ELSE IF IsZero(x) THEN 0
    ELSE IF Top(x) < 0 THEN 0
    ELSE IF Top(x) >= 31 THEN (IF x.s = 1 THEN lo ELSE hi)
    ELSE LET mag == IF x.e >= 0 THEN x.m * Pow2(x.e) ELSE IntPart(x)
             v   == IF x.s = 1 THEN -mag ELSE mag
         IN  IF v < lo THEN lo ELSE IF v > hi THEN hi ELSE v

\* integer -> float: one rounding of an integer |n| < 2^31
OfIntRounded(f, n) ==
    IF n = 0 THEN Zero(0) ELSE RoundToFormat(f, IF n < 0 THEN 1 ELSE 0, Abs(n), 0, 0)


---------------------------------------------------------------------------
(* Compact wire encoding for the harness: fin -> <<s, m, e>>, the rest a   *)
(* short string ("nan0", "inf1", "zero0", "oom0", "any0").                 *)
Enc(x) == IF x.k = "fin" THEN <<x.s, x.m, x.e>>
          ELSE IF x.s = 1 THEN x.k \o "1" ELSE x.k \o "0"
EncV(v) == [i \in 1..Len(v) |-> Enc(v[i])]

=============================================================================
