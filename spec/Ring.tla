-------------------------------- MODULE Ring --------------------------------
(***************************************************************************)
(* The ring Z[sqrt 2, 1/2]: numbers (a + b sqrt2) / 2^k as triples         *)
(* <<a, b, k>>, normalised so that k = 0 or one of a, b is odd.            *)
(* It contains the sines and cosines of all multiples of 45 degrees, hence *)
(* the entries of every rotation matrix on the 45-degree grid and the      *)
(* components of every unit quaternion on the 90-degree grid: exact        *)
(* arithmetic for rotations, with no floating point in the specification.  *)
(***************************************************************************)
EXTENDS Integers, Sequences, TLC

RECURSIVE RNorm(_)
RNorm(x) == IF x[3] > 0 /\ x[1] % 2 = 0 /\ x[2] % 2 = 0 THEN RNorm(<<x[1] \div 2, x[2] \div 2, x[3] - 1>>)
            ELSE IF x[1] = 0 /\ x[2] = 0 THEN <<0, 0, 0>> ELSE x
R(a, b, k) == RNorm(<<a, b, k>>)
RInt(n)  == <<n, 0, 0>>
R0 == <<0, 0, 0>>
R1 == <<1, 0, 0>>
RHalfSqrt2 == <<0, 1, 1>>                 \* sqrt2 / 2
RAdd(x, y) == LET k == IF x[3] > y[3] THEN x[3] ELSE y[3]
                  sx == 2 ^ (k - x[3])
                  sy == 2 ^ (k - y[3])
              IN R(x[1] * sx + y[1] * sy, x[2] * sx + y[2] * sy, k)
RNeg(x) == <<-x[1], -x[2], x[3]>>
RSub(x, y) == RAdd(x, RNeg(y))
RMul(x, y) == R(x[1] * y[1] + 2 * x[2] * y[2], x[1] * y[2] + x[2] * y[1], x[3] + y[3])
RHalf(x) == R(x[1], x[2], x[3] + 1)
\* sign of a + b sqrt2
RSign(x) == LET a == x[1] b == x[2] IN
            IF a = 0 /\ b = 0 THEN 0
            ELSE IF a >= 0 /\ b >= 0 THEN 1
            ELSE IF a <= 0 /\ b <= 0 THEN -1
            ELSE IF a > 0 THEN (IF a * a > 2 * b * b THEN 1 ELSE -1)     \* a > 0 > b
            ELSE (IF 2 * b * b > a * a THEN 1 ELSE -1)                     \* b > 0 > a
RLt(x, y) == RSign(RSub(x, y)) < 0
RLe(x, y) == RSign(RSub(x, y)) <= 0

\* cosine and sine of j eighth-turns (j * 45 degrees)
Cos8(j) == LET m == ((j % 8) + 8) % 8 IN
           CASE m = 0 -> R1 [] m = 1 -> RHalfSqrt2 [] m = 2 -> R0 [] m = 3 -> RNeg(RHalfSqrt2)
             [] m = 4 -> RNeg(R1) [] m = 5 -> RNeg(RHalfSqrt2) [] m = 6 -> R0 [] m = 7 -> RHalfSqrt2
Sin8(j) == Cos8(j - 2)

\* ---- vectors and 3x3 matrices over the ring (matrices flat, column-major) -----
RE(m, r, c) == m[c * 3 + r + 1]
RMk(F(_, _)) == [k \in 1..9 |-> F((k - 1) % 3, (k - 1) \div 3)]
RIdent == RMk(LAMBDA r, c : IF r = c THEN R1 ELSE R0)
RMatMul(A, B) == RMk(LAMBDA r, c : RAdd(RAdd(RMul(RE(A, r, 0), RE(B, 0, c)), RMul(RE(A, r, 1), RE(B, 1, c))), RMul(RE(A, r, 2), RE(B, 2, c))))
RMatT(A) == RMk(LAMBDA r, c : RE(A, c, r))
RMatVec(A, v) == [r \in 1..3 |-> RAdd(RAdd(RMul(RE(A, r - 1, 0), v[1]), RMul(RE(A, r - 1, 1), v[2])), RMul(RE(A, r - 1, 2), v[3]))]
RDet(A) == RSub(RAdd(RAdd(RMul(RMul(RE(A, 0, 0), RE(A, 1, 1)), RE(A, 2, 2)), RMul(RMul(RE(A, 0, 1), RE(A, 1, 2)), RE(A, 2, 0))),
                     RMul(RMul(RE(A, 0, 2), RE(A, 1, 0)), RE(A, 2, 1))),
                RAdd(RAdd(RMul(RMul(RE(A, 0, 2), RE(A, 1, 1)), RE(A, 2, 0)), RMul(RMul(RE(A, 0, 1), RE(A, 1, 0)), RE(A, 2, 2))),
                     RMul(RMul(RE(A, 0, 0), RE(A, 1, 2)), RE(A, 2, 1))))
RDot(a, b) == RAdd(RAdd(RMul(a[1], b[1]), RMul(a[2], b[2])), RMul(a[3], b[3]))
RCross(a, b) == << RSub(RMul(a[2], b[3]), RMul(a[3], b[2])), RSub(RMul(a[3], b[1]), RMul(a[1], b[3])), RSub(RMul(a[1], b[2]), RMul(a[2], b[1])) >>

\* elemental rotations by j eighth-turns, counter-clockwise by the right-hand rule:
\* Rz(quarter) maps X to Y, Rx(quarter) maps Y to Z, Ry(quarter) maps Z to X.
Rx(j) == LET c == Cos8(j) s == Sin8(j) IN << R1, R0, R0,   R0, c, s,   R0, RNeg(s), c >>
Ry(j) == LET c == Cos8(j) s == Sin8(j) IN << c, R0, RNeg(s),   R0, R1, R0,   s, R0, c >>
Rz(j) == LET c == Cos8(j) s == Sin8(j) IN << c, s, R0,   RNeg(s), c, R0,   R0, R0, R1 >>
RAxis(ax, j) == CASE ax = "X" -> Rx(j) [] ax = "Y" -> Ry(j) [] ax = "Z" -> Rz(j)
IsRotation(A) == RMatMul(A, RMatT(A)) = RIdent /\ RDet(A) = R1

\* quaternions over the ring, <<x, y, z, w>>
RQMul(p, q) ==
    << RAdd(RAdd(RMul(p[4], q[1]), RMul(p[1], q[4])), RSub(RMul(p[2], q[3]), RMul(p[3], q[2]))),
       RAdd(RSub(RMul(p[4], q[2]), RMul(p[1], q[3])), RAdd(RMul(p[2], q[4]), RMul(p[3], q[1]))),
       RAdd(RAdd(RMul(p[4], q[3]), RMul(p[1], q[2])), RSub(RMul(p[3], q[4]), RMul(p[2], q[1]))),
       RSub(RSub(RSub(RMul(p[4], q[4]), RMul(p[1], q[1])), RMul(p[2], q[2])), RMul(p[3], q[3])) >>
RQConj(q) == << RNeg(q[1]), RNeg(q[2]), RNeg(q[3]), q[4] >>
RQNorm2(q) == RAdd(RAdd(RMul(q[1], q[1]), RMul(q[2], q[2])), RAdd(RMul(q[3], q[3]), RMul(q[4], q[4])))
\* unit quaternion of the rotation by j QUARTER turns about a coordinate axis (half angle j * 45 degrees)
QAxisQuarter(ax, j) == LET c == Cos8(j) s == Sin8(j) IN
    CASE ax = "X" -> <<s, R0, R0, c>> [] ax = "Y" -> <<R0, s, R0, c>> [] ax = "Z" -> <<R0, R0, s, c>>
\* rotation matrix of a unit ring quaternion, by the sandwich on the basis vectors
RQSandwich(q, v) == LET r == RQMul(RQMul(q, <<v[1], v[2], v[3], R0>>), RQConj(q)) IN <<r[1], r[2], r[3]>>
RMatOfQuat(q) == RQSandwich(q, <<R1, R0, R0>>) \o RQSandwich(q, <<R0, R1, R0>>) \o RQSandwich(q, <<R0, R0, R1>>)

=============================================================================
