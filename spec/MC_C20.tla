------------------------------- MODULE MC_C20 -------------------------------
(***************************************************************************)
(* C20: glam outputs satisfy glam preconditions; assertions never change   *)
(* results.  A type-state machine: registers are typed by the precondition *)
(* class consumers rely on (unit vector, unit quaternion, orthonormal      *)
(* rotation, affine / rigid matrix ...).  Every operation of C20Ops reads  *)
(* registers and writes one register; its postcondition re-establishes the *)
(* class of the register it writes.  Hence every chain of non-violating    *)
(* operations keeps every register valid (OutputsMeetPreconditions) and    *)
(* must not panic under glam-assert; a violating call panics under         *)
(* glam-assert and only there; and the value written never depends on the  *)
(* configuration (Outcome below).                                          *)
(***************************************************************************)
EXTENDS C20Ops, Integers, Sequences, FiniteSets, Json, TLC
CONSTANTS Tier, MaxLen
VARIABLES chain, valid, seedid
vars == <<chain, valid, seedid>>

Regs == {o.dst : o \in Ops}
Good == {o \in Ops : ~o.viol}
Bad  == {o \in Ops : o.viol}
Seeds == IF Tier = "quick" THEN 1..3 ELSE 1..8

\* what a call does in a build configuration: the value never depends on the configuration
Outcome(o, cfg) == IF o.viol /\ cfg = "assert" THEN "panic" ELSE "value"

Init == chain = <<>> /\ valid = [r \in Regs |-> TRUE] /\ seedid \in Seeds
Step(o) == /\ chain' = Append(chain, [op |-> o.op, expect_assert |-> Outcome(o, "assert"), expect_plain |-> Outcome(o, "plain")])
           /\ valid' = [valid EXCEPT ![o.dst] = ~o.viol]       \* a violating call may leave garbage: it ends the chain
           /\ UNCHANGED seedid
Ended == chain # <<>> /\ chain[Len(chain)].expect_assert = "panic"
Next == /\ Len(chain) < MaxLen /\ ~Ended
        /\ \/ \E o \in Good : Step(o)
           \/ (Len(chain) = MaxLen - 1 /\ \E o \in Bad : Step(o))          \* a violating call only as the last step
Spec == Init /\ [][Next]_vars

OutputsMeetPreconditions == ~Ended => \A r \in Regs : valid[r]
AssertNeverChangesValue == \A o \in Ops : Outcome(o, "plain") = "value" /\ (Outcome(o, "assert") = "value" <=> ~o.viol)
Emit == (Len(chain) = MaxLen \/ Ended) => PrintT(<<"CASE", ToJson([fam |-> "chain20", seed |-> seedid, chain |-> chain])>>)
=============================================================================
