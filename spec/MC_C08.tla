------------------------------- MODULE MC_C08 -------------------------------
(***************************************************************************)
(* C08: the unused fourth lane of Vec3A / Mat3A / Affine3A / BVec3A.       *)
(*                                                                         *)
(* A typed register machine.  Registers of the four padded types carry,    *)
(* besides their value, a `taint`: what the hidden lane may contain --     *)
(*   "copy"    (constructed with new(): a copy of z),                      *)
(*   "inj"     (an adversarial payload injected through from_vec4 /        *)
(*              From<__m128> / Mat4 -> Affine3A ...),                      *)
(*   "garbage" (whatever an arithmetic / shuffle result leaves there).     *)
(* The specification of every operation is a function of the visible lanes *)
(* only, so the self-composed machine (two runs that agree on visible      *)
(* lanes and differ on hidden payloads) can never diverge: that is the     *)
(* invariant.  TLC enumerates the well-typed programs; the harness runs    *)
(* each program once per hidden payload and requires bit-identical visible *)
(* results and observations.                                               *)
(***************************************************************************)
EXTENDS Integers, Sequences, FiniteSets, Json, TLC

CONSTANTS Tier, MaxLen
VARIABLES prog,      \* the program so far: sequence of [op, a, b, dst]
          taint      \* register name -> taint of its hidden lane

vars == <<prog, taint>>

VRegs == {"v0", "v1", "v2"}          \* Vec3A
MRegs == {"m0", "m1"}                \* Mat3A
ARegs == {"a0", "a1"}                \* Affine3A
BRegs == {"b0", "b1"}                \* BVec3A
Padded == VRegs \cup MRegs \cup ARegs \cup BRegs

\* operation signatures: name |-> <<argument kinds>>, result kind   (kinds: V M A B; "-" none)
VV_V == {"add", "sub", "mul", "div", "rem", "min", "max", "cross", "copysign", "project_onto", "reject_from",
         "reflect", "midpoint", "div_euclid", "rem_euclid", "dot_into_vec"}
V_V  == {"neg", "abs", "signum", "floor", "ceil", "round", "trunc", "fract", "fract_gl", "recip", "exp", "normalize",
         "normalize_or_zero", "any_orthogonal_vector", "any_orthonormal_vector", "zyx", "yzx", "xxy", "zzz",
         "with_x", "with_z", "mul_s", "s_mul", "add_s", "div_s", "clamp_length_max", "lerp_self", "from_vec3_roundtrip",
         "extend_truncate", "quat_mul", "mat4_transform_point3a", "mat4_transform_vector3a", "mat4_project_point3a",
         "inject"}
VV_B == {"cmpeq", "cmpne", "cmplt", "cmple", "cmpgt", "cmpge"}
V_B  == {"is_nan_mask", "is_finite_mask"}
BB_B == {"and", "or", "xor"}
B_B  == {"not"}
BVV_V == {"select"}
MV_V == {"mat_mul_vec3a", "mat_mul_op"}
M_M  == {"transpose", "inverse", "neg_m", "abs_m", "mul_s_m", "inject_m"}
MM_M == {"mul_mat3", "add_mat3", "sub_mat3"}
VVV_M == {"from_cols"}
M_V  == {"col1", "row2"}
AV_V == {"transform_point3a", "transform_vector3a"}
A_A  == {"inverse_a", "inject_a"}
AA_A == {"mul_a"}
M_A  == {"from_mat3a_a"}
A_M  == {"matrix3_of"}

Reg(S) == CHOOSE r \in S : TRUE
\* a step: operation, argument registers, destination register
Steps ==
         [op : VV_V, a : VRegs, b : VRegs, c : {"-"}, dst : {"v2"}]
    \cup [op : V_V,  a : VRegs, b : {"-"}, c : {"-"}, dst : {"v0", "v2"}]
    \cup [op : VV_B, a : VRegs, b : VRegs, c : {"-"}, dst : {"b0"}]
    \cup [op : V_B,  a : VRegs, b : {"-"}, c : {"-"}, dst : {"b1"}]
    \cup [op : BB_B, a : BRegs, b : BRegs, c : {"-"}, dst : {"b0"}]
    \cup [op : B_B,  a : BRegs, b : {"-"}, c : {"-"}, dst : {"b1"}]
    \cup [op : BVV_V, a : BRegs, b : {"v0"}, c : {"v1"}, dst : {"v2"}]
    \cup [op : MV_V, a : MRegs, b : VRegs, c : {"-"}, dst : {"v2"}]
    \cup [op : M_M,  a : MRegs, b : {"-"}, c : {"-"}, dst : {"m1"}]
    \cup [op : MM_M, a : MRegs, b : MRegs, c : {"-"}, dst : {"m1"}]
    \cup [op : VVV_M, a : {"v0"}, b : {"v1"}, c : {"v2"}, dst : {"m0"}]
    \cup [op : M_V,  a : MRegs, b : {"-"}, c : {"-"}, dst : {"v1"}]
    \cup [op : AV_V, a : ARegs, b : VRegs, c : {"-"}, dst : {"v2"}]
    \cup [op : A_A,  a : ARegs, b : {"-"}, c : {"-"}, dst : {"a1"}]
    \cup [op : AA_A, a : ARegs, b : ARegs, c : {"-"}, dst : {"a1"}]
    \cup [op : M_A,  a : MRegs, b : {"-"}, c : {"-"}, dst : {"a0"}]
    \cup [op : A_M,  a : ARegs, b : {"-"}, c : {"-"}, dst : {"m0"}]

Injecting == {"inject", "inject_m", "inject_a"}
\* operations whose result's hidden lane is whatever the SIMD computation leaves there
ResultTaint(s) == IF s.op \in Injecting THEN "inj"
                  ELSE IF s.op \in {"with_x", "with_z"} THEN taint[s.a]       \* a lane store keeps the old hidden lane
                  ELSE "garbage"

Init == /\ prog = <<>>
        /\ taint \in [Padded -> {"copy", "inj"}]
        /\ \A r \in Padded : taint[r] = "inj"          \* every initial register is injected (worst case)

Step(s) == /\ prog' = Append(prog, s)
           /\ taint' = [taint EXCEPT ![s.dst] = ResultTaint(s)]

Next == Len(prog) < MaxLen /\ \E s \in Steps : Step(s)
Spec == Init /\ [][Next]_vars

\* quick tier: enumerate every single step and a strided sample of two-step programs
Emit == (Len(prog) = MaxLen) => PrintT(<<"CASE", ToJson([fam |-> "hid", prog |-> prog])>>)

\* ---- the property -----------------------------------------------------------------
\* the visible part of a result is a function of the visible parts of the operands: in this
\* specification no operation has access to the hidden lane at all -- the taint is bookkeeping
\* that never feeds back into a value.  TLC checks the bookkeeping is total and that some
\* register is always tainted (so the programs exercise the property).
TypeOK == /\ DOMAIN taint = Padded
          /\ \A r \in Padded : taint[r] \in {"copy", "inj", "garbage"}
NonVacuous == \E r \in Padded : taint[r] # "copy"

=============================================================================
