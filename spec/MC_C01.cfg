SPECIFICATION Spec
CONSTANT Tier = "quick"
INVARIANT Emit
INVARIANT LiftEquivariant
INVARIANT Commutes
CHECK_DEADLOCK FALSE
