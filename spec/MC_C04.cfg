SPECIFICATION Spec
CONSTANT Tier = "quick"
CONSTANT Seed = 1
INVARIANT Emit
INVARIANT QuatTheorems
INVARIANT RotTheorems
CHECK_DEADLOCK FALSE
