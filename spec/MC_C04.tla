------------------------------- MODULE MC_C04 -------------------------------
(***************************************************************************)
(* C04: quaternion algebra on integer components (exact) and rotation of   *)
(* vectors by the 24 Hurwitz unit quaternions (exact: components 0, +-1/2, *)
(* +-1 map integer vectors to integer vectors).                            *)
(***************************************************************************)
EXTENDS LinAlg, Json
CONSTANTS Tier, Seed
VARIABLES ph, call, res
vars == <<ph, call, res>>

Quick == Tier = "quick"
Rng == IF Quick THEN -1..1 ELSE -2..2
Q4(S) == S \X S \X S \X S
\* doubled Hurwitz units: 2q has integer components and norm^2 = 4
Hurwitz2 == {q \in Q4({-2, 0, 2}) : QNorm2(q) = 4} \cup Q4({-1, 1})
V3 == LET S == IF Quick THEN {-2, 0, 1} ELSE -2..2 IN S \X S \X S
Stride(S, k) == S      \* placeholder for symmetry with MC_C03

PairIdx == IF Quick THEN {0} ELSE {Seed % 4}
Calls ==
         [kind : {"quat"}, p : Q4(Rng), q : IF Quick THEN Q4(Rng) ELSE {x \in Q4(Rng) : (x[1] + 5 * x[2] + 25 * x[3] + 125 * x[4]) % 4 = Seed % 4}, v : {<<0, 0, 0>>}]
    \cup [kind : {"qrot"}, p : Hurwitz2, q : IF Quick THEN {x \in Hurwitz2 : x[4] >= 0 /\ x[1] + x[2] >= 0} ELSE Hurwitz2, v : V3]

ScalarOf(c) == 2 * c.p[1] + c.q[2] - 1

Eval(c) ==
    IF c.kind = "quat" THEN
        [ ham |-> Hamilton(c.p, c.q), conj |-> Conj(c.p),
          add |-> [i \in 1..4 |-> c.p[i] + c.q[i]], sub |-> [i \in 1..4 |-> c.p[i] - c.q[i]],
          neg |-> [i \in 1..4 |-> -c.p[i]], s |-> ScalarOf(c), scaled |-> [i \in 1..4 |-> ScalarOf(c) * c.p[i]],
          dot |-> QDot(c.p, c.q), n2 |-> QNorm2(c.p) ]
    ELSE
        \* p, q are doubled unit quaternions: the true ones are p/2, q/2
        LET sw == Sandwich(c.p, c.v)                        \* 4 * (rotation of v by p/2)
            pq == Hamilton(c.p, c.q)                        \* 4 * ((p/2)(q/2))
        IN [ rot |-> [i \in 1..3 |-> sw[i] \div 4],
             mat |-> [k \in 1..9 |-> MatOfQuatScaled(c.p)[k] \div 4],
             pq2 |-> [i \in 1..4 |-> pq[i] \div 2],          \* doubled product (again a doubled Hurwitz unit)
             rot_pq |-> [i \in 1..3 |-> Sandwich(pq, c.v)[i] \div 16],   \* rotation by the product
             inv2 |-> Conj(c.p) ]

Init == ph = "call" /\ call \in Calls /\ res = <<>>
Next == ph = "call" /\ ph' = "ret" /\ res' = Eval(call) /\ UNCHANGED call
Spec == Init /\ [][Next]_vars

Emit == ph = "ret" =>
    PrintT(<<"CASE", ToJson([fam |-> "lin", kind |-> call.kind, p |-> call.p, q |-> call.q, v |-> call.v, exp |-> res])>>)

\* ---- theorems (the oracle is checked against the algebra, not against glam) ----
QuatTheorems ==
    (ph = "ret" /\ call.kind = "quat") =>
        LET p == call.p  q == call.q  r == <<1, -2, 0, 1>> IN
        /\ Hamilton(Hamilton(p, q), r) = Hamilton(p, Hamilton(q, r))              \* associativity
        /\ QNorm2(Hamilton(p, q)) = QNorm2(p) * QNorm2(q)                          \* |pq|^2 = |p|^2 |q|^2
        /\ Conj(Hamilton(p, q)) = Hamilton(Conj(q), Conj(p))
        /\ Hamilton(p, Conj(p)) = <<0, 0, 0, QNorm2(p)>>
        /\ Hamilton(<<1, 0, 0, 0>>, <<0, 1, 0, 0>>) = <<0, 0, 1, 0>>               \* i j = k
        /\ Hamilton(<<0, 1, 0, 0>>, <<1, 0, 0, 0>>) = <<0, 0, -1, 0>>              \* j i = -k
RotTheorems ==
    (ph = "ret" /\ call.kind = "qrot") =>
        LET p == call.p  q == call.q  v == call.v
            sw == Sandwich(p, v) IN
        /\ \A i \in 1..3 : sw[i] % 4 = 0                                           \* Hurwitz units preserve the lattice
        /\ Dot3(sw, sw) = 16 * Dot3(v, v)                                          \* length preserved
        /\ Sandwich([i \in 1..4 |-> -p[i]], v) = sw                                \* q and -q rotate alike
        /\ Sandwich(Hamilton(p, q), v) = Sandwich(p, Sandwich(q, v))               \* (q p) v = q (p v)
        /\ Sandwich(Conj(p), [i \in 1..3 |-> sw[i] \div 4]) = [i \in 1..3 |-> 4 * v[i]]   \* undone by the inverse
        \* the matrix of q acts like q, and matrix_of(q p) = matrix_of(q) matrix_of(p)
        /\ MatVec(3, MatOfQuatScaled(p), v) = sw
        /\ MatOfQuatScaled(Hamilton(p, q)) = MatMul(3, MatOfQuatScaled(p), MatOfQuatScaled(q))
        /\ Det(3, MatOfQuatScaled(p)) = 64                                         \* proper rotation (scaled by 4)
        /\ Cardinality(Hurwitz2) = 24
        /\ Hamilton(p, q) \in {[i \in 1..4 |-> 2 * h[i]] : h \in Hurwitz2}         \* closure of the group

=============================================================================
