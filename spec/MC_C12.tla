------------------------------- MODULE MC_C12 -------------------------------
(***************************************************************************)
(* C12: interpolation, steering and clamping helpers.                      *)
(*  - exact (module Ieee): vector lerp / midpoint and FloatExt lerp,       *)
(*    inverse_lerp, remap on dyadic operands;                              *)
(*  - exact rotations (ring): quaternion slerp / lerp / rotate_towards     *)
(*    between rotations about one axis (shorter arc rule included), vector *)
(*    rotate_towards and slerp between lattice directions;                 *)
(*  - relational (stated here, evaluated by the harness): move_towards,    *)
(*    clamp_length*, from_rotation_arc*, any_orthogonal/orthonormal*.      *)
(***************************************************************************)
EXTENDS Rot, Ieee, FiniteSets, Json
CONSTANTS Tier, Seed
VARIABLES ph, call, res
vars == <<ph, call, res>>
Quick == Tier = "quick"

\* ---- exact lerp family ---------------------------------------------------------------
LVals == << Fin(0, 1, 0), Fin(1, 3, 0), Fin(0, 5, -1), Fin(1, 7, -2), Zero(0), Fin(0, 1, 10), Fin(1, 3, -5), Fin(0, 16777215, 104),
            Fin(0, 1, -149), Fin(1, 9, 3), Fin(0, 11, -3), Fin(0, 1, 100) >>
SVals == << Zero(0), Fin(0, 1, -2), Fin(0, 1, -1), Fin(0, 3, -2), Fin(0, 1, 0), Fin(1, 1, -1), Fin(0, 1, 1) >>   \* 0, 1/4, 1/2, 3/4, 1, -1/2, 2
OneF == Fin(0, 1, 0)
HalfF == Fin(0, 1, -1)
LerpF(f, a, b, s) == Add(f, Mul(f, a, Sub(f, OneF, s)), Mul(f, b, s))          \* a*(1-s) + b*s   (vector lerp)
LerpX(f, a, b, s) == Add(f, a, Mul(f, Sub(f, b, a), s))                        \* a + (b-a)*s     (FloatExt::lerp)
InvLerp(f, a, b, v) == Div(f, Sub(f, v, a), Sub(f, b, a))
Mid(f, a, b) == Mul(f, Add(f, a, b), HalfF)
W(i, n) == ((i - 1) % n) + 1

\* ---- rotations about one axis: quaternion interpolation -------------------------------
\* q(ax, j): rotation by j quarter turns (its half angle is j eighth-turns); q(j+4) = -q(j)
\* shorter-arc difference of half angles, in eighth-turns, for quaternions j0 -> j1
HalfDiff(j0, j1) ==
    LET d == (((j1 - j0) % 8) + 8) % 8                      \* 0..7
        e == IF d > 4 THEN d - 8 ELSE d                     \* -3..4
    IN IF e = 4 THEN 0 ELSE IF e = 3 THEN -1 ELSE IF e = -3 THEN 1 ELSE e       \* |e| > 2: the dot product is negative -> flip
\* s given in quarters (0..4 = 0, 1/4, 1/2, 3/4, 1): rotation angle of the result in eighth-turns is 2*j0 + 2*s*d
SlerpAngle8(j0, j1, s4) == 2 * j0 + ((2 * s4 * HalfDiff(j0, j1)) \div 4)
SlerpOnGrid(j0, j1, s4) == (2 * s4 * HalfDiff(j0, j1)) % 4 = 0

Calls ==
         [kind : {"lerp"}, i : 1..Len(LVals), j : 1..Len(LVals), k : 1..Len(SVals), ax : {"-"}]
    \cup [kind : {"qslerp"}, i : -2..5, j : -2..5, k : 0..4, ax : Axes]
    \cup [kind : {"qtowards"}, i : -2..5, j : -2..5, k : {0, 1, 2, 3, 5, 9}, ax : Axes]         \* max angle k eighth-turns
    \cup [kind : {"vtowards"}, i : 0..7, j : 0..7, k : {0, 1, 2, 3, 5, 9, -1, -2, -9}, ax : {"Z"}]   \* directions i, j eighth-turns in the XY plane
    \cup [kind : {"vslerp"}, i : 0..7, j : 0..7, k : 0..4, ax : {"Z"}]
    \cup [kind : {"arc"}, i : 1..Cardinality(LatticeAxes), j : 1..Cardinality(LatticeAxes), k : {0}, ax : {"-"}]
    \cup [kind : {"ortho"}, i : 1..Cardinality(LatticeAxes), j : {0}, k : {0}, ax : {"-"}]
    \cup [kind : {"move"}, i : {0, 1, 2, 3}, j : {0, 1, 4, 5, 6, -1}, k : {1, 2}, ax : {"-"}]   \* Pythagorean segment scaled by k, step j
    \cup [kind : {"clamp"}, i : {0, 1, 2, 3}, j : {0, 2, 5, 7}, k : {0, 3, 5, 12}, ax : {"-"}]  \* clamp_length(min = j, max = j + k)

LatSeq == LET RECURSIVE go(_) go(T) == IF T = {} THEN <<>> ELSE LET x == CHOOSE y \in T : TRUE IN <<x>> \o go(T \ {x}) IN go(LatticeAxes)

\* signed shorter angle from direction i to direction j in the plane, in eighth-turns (-3..4)
PlaneDiff(i, j) == LET d == (((j - i) % 8) + 8) % 8 IN IF d > 4 THEN d - 8 ELSE d
AbsI(n) == IF n < 0 THEN -n ELSE n
MinI(a, b) == IF a <= b THEN a ELSE b

\* two rotations exactly half a turn apart (half-angle difference of a quarter turn, dot product 0) have two equally
\* short arcs: the direction is not determined, so only the end points are specified there
Valid(c) == CASE c.kind = "qslerp" -> SlerpOnGrid(c.i, c.j, c.k) /\ (AbsI(HalfDiff(c.i, c.j)) = 2 => c.k \in {0, 4})
              [] c.kind = "qtowards" -> (AbsI(HalfDiff(c.i, c.j)) = 2 => c.k \in {0, 5, 9})
              [] c.kind = "vslerp" -> PlaneDiff(c.i, c.j) # 4 /\ (c.k * PlaneDiff(c.i, c.j)) % 4 = 0   \* not opposite; result on the grid
              [] OTHER -> TRUE


Eval(c) ==
    CASE c.kind = "lerp" ->
            LET a == LVals[c.i] b == LVals[c.j] s == SVals[c.k]
                a2 == LVals[W(c.i + 3, Len(LVals))] b2 == LVals[W(c.j + 5, Len(LVals))] IN
            [ a |-> <<Enc(a), Enc(a2)>>, b |-> <<Enc(b), Enc(b2)>>, s |-> Enc(s),
              f32 |-> [lerp |-> <<Enc(LerpF(F32, a, b, s)), Enc(LerpF(F32, a2, b2, s))>>, mid |-> <<Enc(Mid(F32, a, b)), Enc(Mid(F32, a2, b2))>>,
                       xlerp |-> Enc(LerpX(F32, a, b, s)), inv |-> Enc(InvLerp(F32, a, b, s))],
              f64 |-> [lerp |-> <<Enc(LerpF(F64, a, b, s)), Enc(LerpF(F64, a2, b2, s))>>, mid |-> <<Enc(Mid(F64, a, b)), Enc(Mid(F64, a2, b2))>>,
                       xlerp |-> Enc(LerpX(F64, a, b, s)), inv |-> Enc(InvLerp(F64, a, b, s))] ]
      [] c.kind = "qslerp" ->
            \* expected rotation matrix of slerp(q(ax, i), q(ax, j), k/4); lerp (normalised) agrees at the midpoint and the ends
            [ m |-> RAxis(c.ax, SlerpAngle8(c.i, c.j, c.k)), lerp_same |-> (c.k \in {0, 2, 4}) ]
      [] c.kind = "qtowards" ->
            \* rotate_towards by at most k eighth-turns of rotation angle (the remaining rotation angle is 2*|d| eighth-turns)
            LET d == HalfDiff(c.i, c.j)
                step == MinI(c.k, 2 * AbsI(d))
            IN [ m |-> RAxis(c.ax, 2 * c.i + (IF d < 0 THEN -step ELSE step)), reached |-> c.k >= 2 * AbsI(d) ]
      [] c.kind = "vtowards" ->
            \* direction i (length 2) rotated towards direction j (length 3) by at most k eighth-turns; negative k rotates away
            \* but no further than the direction opposite to the target
            LET d == PlaneDiff(c.i, c.j)
                ad == AbsI(d)
                step == IF c.k >= 0 THEN MinI(c.k, ad) ELSE -MinI(-c.k, 4 - ad)
                sgn == IF d < 0 THEN -1 ELSE 1
            IN [ dir |-> << Cos8(c.i + sgn * step), Sin8(c.i + sgn * step) >>, len |-> 2, ambiguous |-> (ad = 4 \/ ad = 0) ]
      [] c.kind = "vslerp" ->
            LET d == PlaneDiff(c.i, c.j) IN
            [ dir |-> << Cos8(c.i + ((c.k * d) \div 4)), Sin8(c.i + ((c.k * d) \div 4)) >>, len4 |-> 2 * (4 - c.k) + 3 * c.k ]   \* 4 * lerp(2, 3, k/4)
      [] c.kind = "arc" -> [ from |-> LatSeq[c.i], to |-> LatSeq[c.j] ]
      [] c.kind = "ortho" -> [ from |-> LatSeq[c.i] ]
      [] c.kind = "move" -> [ x |-> 0 ]
      [] c.kind = "clamp" -> [ x |-> 0 ]

Init == ph = "call" /\ call \in {c \in Calls : Valid(c)} /\ res = <<>>
Next == ph = "call" /\ ph' = "ret" /\ res' = Eval(call) /\ UNCHANGED call
Spec == Init /\ [][Next]_vars
Emit == ph = "ret" => PrintT(<<"CASE", ToJson([fam |-> "interp", kind |-> call.kind, i |-> call.i, j |-> call.j, k |-> call.k, ax |-> call.ax, exp |-> res])>>)

\* ---- theorems ------------------------------------------------------------------------
InterpTheorems ==
    ph = "ret" =>
        CASE call.kind = "lerp" ->
                LET a == LVals[call.i] b == LVals[call.j] IN
                \* endpoints are hit exactly for finite operands (s = 0 is SVals[1], s = 1 is SVals[5])
                /\ Eqv(LerpF(F32, a, b, SVals[1]), a) /\ Eqv(LerpF(F32, a, b, SVals[5]), b)
                /\ Eqv(LerpX(F32, a, b, SVals[1]), a)
          [] call.kind = "qslerp" ->
                \* both ends are reached, the path is the shorter arc (at most a quarter turn of half angle), and
                \* replacing the target by its negative gives the same rotation
                /\ RAxis(call.ax, SlerpAngle8(call.i, call.j, 0)) = RAxis(call.ax, 2 * call.i)
                /\ RAxis(call.ax, SlerpAngle8(call.i, call.j, 4)) = RAxis(call.ax, 2 * call.j)
                /\ HalfDiff(call.i, call.j) \in -2..2
                /\ HalfDiff(call.i, call.j + 4) = HalfDiff(call.i, call.j) \/ AbsI(HalfDiff(call.i, call.j)) = 2
          [] call.kind = "qtowards" ->
                res.reached => res.m = RAxis(call.ax, 2 * call.j)                 \* the target itself once within reach
          [] OTHER -> TRUE

=============================================================================
