--------------------------- MODULE Trace_SameBits ---------------------------
(***************************************************************************)
(* Two-trace validation: the same TLC-generated behaviours were executed   *)
(* in two builds of the working tree (e.g. with and without glam-assert,   *)
(* or baseline SSE2 vs +fma/+avx2); each wrote one event per step with a   *)
(* digest of every register's bit pattern.  The property "the build        *)
(* configuration never changes a value" is: the two traces are equal,      *)
(* event by event.  TLC consumes them in lock step.                        *)
(***************************************************************************)
EXTENDS Integers, Sequences, TLC, Json, IOUtils

TraceA == ndJsonDeserialize(IOEnv.TRACE_A)
TraceB == ndJsonDeserialize(IOEnv.TRACE_B)

VARIABLE l
Init == l = 1
Next == /\ l <= Len(TraceA) /\ l <= Len(TraceB)
        /\ TraceA[l] = TraceB[l]           \* same chain, same step, same bits
        /\ l' = l + 1
Spec == Init /\ [][Next]_l

\* accepted iff every event of both traces was consumed
Accepted ==
    LET ok == TLCGet("stats").diameter = Len(TraceA) + 1 /\ Len(TraceA) = Len(TraceB) IN
    IF ok THEN TRUE
    ELSE /\ PrintT(<<"SAMEBITS-REJECTED", "matched", TLCGet("stats").diameter - 1, "lenA", Len(TraceA), "lenB", Len(TraceB)>>)
         /\ (TLCGet("stats").diameter <= Len(TraceA) /\ TLCGet("stats").diameter <= Len(TraceB)) =>
               PrintT(<<"FIRST-DIFFERENCE", TraceA[TLCGet("stats").diameter], TraceB[TLCGet("stats").diameter]>>)
         /\ FALSE
=============================================================================
