----------------------------- MODULE Trace_C08 ------------------------------
(***************************************************************************)
(* Trace validation for C08: every TLC-generated program of the typed      *)
(* register machine (MC_C08) is executed once per hidden-lane payload; the *)
(* harness logs, for every (program c, payload p, step k), a digest h of   *)
(* everything observable after the step (about 400 words: every accessor,  *)
(* reduction, comparison, conversion, product and the Debug / Display text *)
(* of every register).  The property: what is observable is a function of  *)
(* the program and the step alone -- never of the payload.                 *)
(* The runs of one program are consecutive, payload 0 (hidden lanes are    *)
(* benign copies) first: it defines the reference the others must equal.   *)
(***************************************************************************)
EXTENDS Integers, Sequences, TLC, Json, IOUtils
Rec == ndJsonDeserialize(IOEnv.TRACE)
VARIABLES l, ref, prog
vars == <<l, ref, prog>>
Init == l = 1 /\ ref = <<>> /\ prog = 0
Reference ==            \* a step of the benign run: recorded
    /\ Rec[l].p = 0
    /\ ref' = IF Rec[l].k = 0 THEN <<Rec[l].h>> ELSE Append(ref, Rec[l].h)
    /\ prog' = Rec[l].c
Payload ==              \* the same step under another payload: must be indistinguishable
    /\ Rec[l].p > 0
    /\ Rec[l].c = prog /\ Rec[l].k + 1 <= Len(ref)
    /\ Rec[l].h = ref[Rec[l].k + 1]
    /\ UNCHANGED <<ref, prog>>
Next == l <= Len(Rec) /\ (Reference \/ Payload) /\ l' = l + 1
Spec == Init /\ [][Next]_vars
Accepted ==
    IF TLCGet("stats").diameter = Len(Rec) + 1 THEN TRUE
    ELSE /\ PrintT(<<"TRACE-REJECTED", "matched", TLCGet("stats").diameter - 1, "of", Len(Rec)>>)
         /\ PrintT(<<"FIRST-REJECTED-EVENT", ToJson(Rec[TLCGet("stats").diameter])>>)
         /\ FALSE
=============================================================================
