--------------------------------- MODULE Rot ---------------------------------
(***************************************************************************)
(* Rotations on the 45-degree grid, exactly, over the ring Z[sqrt2, 1/2].  *)
(* Euler sequences are defined from the SPELLING of the variant name (the  *)
(* letters name the axes left to right; `Ex` reverses the product), not    *)
(* from glam's order table, so that the table is checked, not copied.      *)
(***************************************************************************)
EXTENDS Ring

Axes == {"X", "Y", "Z"}
\* the 24 variant names: three letters, adjacent letters distinct; with and without "Ex"
Orders3 == {<<a, b, c>> \in Axes \X Axes \X Axes : a # b /\ b # c}
OrderName(o, ex) == o[1] \o o[2] \o o[3] \o (IF ex THEN "Ex" ELSE "")
\* intrinsic: R = R_first(a) R_second(b) R_third(c);  extrinsic (Ex): the reversed product
EulerMat(o, ex, a, b, c) ==
    IF ex THEN RMatMul(RMatMul(RAxis(o[3], c), RAxis(o[2], b)), RAxis(o[1], a))
    ELSE RMatMul(RMatMul(RAxis(o[1], a), RAxis(o[2], b)), RAxis(o[3], c))
\* middle angles (in eighth-turns) at which the sequence is singular (gimbal lock)
Singular(o, b) == IF o[1] = o[3] THEN b % 4 = 0 ELSE (b % 4 = 2 \/ b % 4 = -2)

\* lattice axes: the 6 coordinate directions and the 12 face diagonals (unit length in the ring)
H == RHalfSqrt2
NH == RNeg(RHalfSqrt2)
LatticeAxes ==
    { <<R1, R0, R0>>, <<RNeg(R1), R0, R0>>, <<R0, R1, R0>>, <<R0, RNeg(R1), R0>>, <<R0, R0, R1>>, <<R0, R0, RNeg(R1)>> }
    \cup { <<x, y, R0>> : x \in {H, NH}, y \in {H, NH} }
    \cup { <<x, R0, z>> : x \in {H, NH}, z \in {H, NH} }
    \cup { <<R0, y, z>> : y \in {H, NH}, z \in {H, NH} }
\* Rodrigues: R = cos I + sin [a]x + (1 - cos) a a^T
Rodrigues(ax, j) ==
    LET c == Cos8(j) s == Sin8(j) omc == RSub(R1, c)
        K(r, cc) == CASE r = cc -> R0
                      [] r = 0 /\ cc = 1 -> RNeg(ax[3]) [] r = 0 /\ cc = 2 -> ax[2]
                      [] r = 1 /\ cc = 0 -> ax[3]       [] r = 1 /\ cc = 2 -> RNeg(ax[1])
                      [] r = 2 /\ cc = 0 -> RNeg(ax[2]) [] r = 2 /\ cc = 1 -> ax[1]
    IN RMk(LAMBDA r, cc : RAdd(RAdd(IF r = cc THEN c ELSE R0, RMul(s, K(r, cc))), RMul(omc, RMul(ax[r + 1], ax[cc + 1]))))

\* 2-D rotation by j eighth-turns: columns (cos, sin), (-sin, cos)
Rot2(j) == << Cos8(j), Sin8(j), RNeg(Sin8(j)), Cos8(j) >>

=============================================================================
