SPECIFICATION Spec
CONSTANT Tier = "quick"
INVARIANT Unary
INVARIANT Binary
INVARIANT Ternary
INVARIANT WideLaws
CHECK_DEADLOCK FALSE
