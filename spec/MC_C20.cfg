SPECIFICATION Spec
CONSTANT Tier = "quick"
CONSTANT MaxLen = 2
INVARIANT Emit
INVARIANT OutputsMeetPreconditions
INVARIANT AssertNeverChangesValue
CHECK_DEADLOCK FALSE
