------------------------------- MODULE Lanes -------------------------------
(***************************************************************************)
(* Vectors as functions 1..N -> scalar, for any scalar domain.             *)
(* Lift1/2/3 are the *statement* of "lane-wise": output lane i depends on  *)
(* lane i of the operands alone.                                           *)
(***************************************************************************)
EXTENDS Integers, Sequences, FiniteSets

Dim(v) == Len(v)

Lift1(Op(_), a)          == [i \in 1..Len(a) |-> Op(a[i])]
Lift2(Op(_, _), a, b)    == [i \in 1..Len(a) |-> Op(a[i], b[i])]
Lift3(Op(_, _, _), a, b, c) == [i \in 1..Len(a) |-> Op(a[i], b[i], c[i])]

Splat(n, x)   == [i \in 1..n |-> x]
Take(v, n)    == [i \in 1..n |-> v[i]]          \* truncate to the first n lanes
Extend(v, x)  == Append(v, x)
RotL(v)       == [i \in 1..Len(v) |-> v[(i % Len(v)) + 1]]   \* lane rotation

\* left folds (Iterator::sum / product are left folds from the identity)
RECURSIVE FoldL(_, _, _)
FoldL(Op(_, _), z, s) == IF s = <<>> THEN z ELSE FoldL(Op, Op(z, Head(s)), Tail(s))

\* masks are functions 1..N -> BOOLEAN
MAnd(a, b) == [i \in 1..Len(a) |-> a[i] /\ b[i]]
MOr(a, b)  == [i \in 1..Len(a) |-> a[i] \/ b[i]]
MXor(a, b) == [i \in 1..Len(a) |-> a[i] # b[i]]
MNot(a)    == [i \in 1..Len(a) |-> ~a[i]]
MAny(a)    == \E i \in 1..Len(a) : a[i]
MAll(a)    == \A i \in 1..Len(a) : a[i]
RECURSIVE BitmaskFrom(_, _)
BitmaskFrom(a, i) == IF i > Len(a) THEN 0
                     ELSE (IF a[i] THEN 2^(i-1) ELSE 0) + BitmaskFrom(a, i + 1)
Bitmask(a) == BitmaskFrom(a, 1)
Select(m, a, b) == [i \in 1..Len(m) |-> IF m[i] THEN a[i] ELSE b[i]]

\* first index (0-based, as the API reports it) of an element satisfying "best"
\* Better(x, y) is a strict "x is better than y"
RECURSIVE ArgBest(_, _, _, _)
ArgBest(Better(_, _), v, i, best) ==
    IF i > Len(v) THEN best
    ELSE IF Better(v[i], v[best]) THEN ArgBest(Better, v, i + 1, i)
    ELSE ArgBest(Better, v, i + 1, best)
FirstBest(Better(_, _), v) == ArgBest(Better, v, 2, 1)      \* 1-based index

=============================================================================
