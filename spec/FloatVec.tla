------------------------------ MODULE FloatVec ------------------------------
(***************************************************************************)
(* Reference semantics of the element-wise float vector API (family        *)
(* `lane`, `reduce`, `mask` of DESIGN appendix A) on Ieee scalars.         *)
(* Operation names are the harness dispatch keys.                          *)
(***************************************************************************)
EXTENDS Ieee, Lanes

\* ---- scalar primitives by name -------------------------------------------
Prim1(f, op, x) ==
    CASE op = "neg"      -> NegF(x)
      [] op = "abs"      -> AbsF(x)
      [] op = "signum"   -> Signum(x)
      [] op = "floor"    -> Floor(x)
      [] op = "ceil"     -> Ceil(x)
      [] op = "trunc"    -> Trunc(x)
      [] op = "round"    -> Round(x)
      [] op = "fract"    -> Fract(f, x)
      [] op = "fract_gl" -> FractGl(f, x)
      [] op = "recip"    -> Recip(f, x)

Prim2(f, op, x, y) ==
    CASE op = "add"        -> Add(f, x, y)
      [] op = "sub"        -> Sub(f, x, y)
      [] op = "mul"        -> Mul(f, x, y)
      [] op = "div"        -> Div(f, x, y)
      [] op = "rem"        -> Rem(x, y)
      [] op = "min"        -> MinF(x, y)
      [] op = "max"        -> MaxF(x, y)
      [] op = "copysign"   -> CopySign(x, y)
      [] op = "div_euclid" -> DivEuclid(f, x, y)
      [] op = "rem_euclid" -> RemEuclid(f, x, y)

Prim3(f, op, x, y, z) ==
    CASE op = "clamp"   -> ClampF(x, y, z)
      [] op = "mul_add" -> Fma(f, x, y, z)

PrimCmp(op, x, y) ==
    CASE op = "cmpeq" -> EqF(x, y)
      [] op = "cmpne" -> NeF(x, y)
      [] op = "cmplt" -> Lt(x, y)
      [] op = "cmple" -> Le(x, y)
      [] op = "cmpgt" -> Gt(x, y)
      [] op = "cmpge" -> Ge(x, y)

PrimTest(op, x) ==
    CASE op = "is_nan_mask"    -> IsNan(x)
      [] op = "is_finite_mask" -> IsFinite(x)
      [] op = "sign_mask"      -> SignBit(x)

Unary    == {"neg", "abs", "signum", "floor", "ceil", "trunc", "round", "fract", "fract_gl", "recip"}
Binary   == {"add", "sub", "mul", "div", "rem", "min", "max", "copysign", "div_euclid", "rem_euclid"}
\* binary operators that also exist in vector (op) scalar and scalar (op) vector form
ScalarRhs == {"add", "sub", "mul", "div", "rem"}
Ternary  == {"clamp", "mul_add"}
Compare  == {"cmpeq", "cmpne", "cmplt", "cmple", "cmpgt", "cmpge"}
Tests    == {"is_nan_mask", "is_finite_mask", "sign_mask"}

\* ---- the lift: the statement of C01 --------------------------------------
Vec1(f, op, a)       == Lift1(LAMBDA x : Prim1(f, op, x), a)
Vec2(f, op, a, b)    == Lift2(LAMBDA x, y : Prim2(f, op, x, y), a, b)
Vec3(f, op, a, b, c) == Lift3(LAMBDA x, y, z : Prim3(f, op, x, y, z), a, b, c)
VecCmp(op, a, b)     == Lift2(LAMBDA x, y : PrimCmp(op, x, y), a, b)
VecTest(op, a)       == Lift1(LAMBDA x : PrimTest(op, x), a)

\* whole-vector predicates
VecEq(a, b)    == MAll(VecCmp("cmpeq", a, b))      \* PartialEq::eq
VecIsNan(a)    == MAny(VecTest("is_nan_mask", a))
VecIsFinite(a) == MAll(VecTest("is_finite_mask", a))
SignBitmask(a) == Bitmask(VecTest("sign_mask", a))

\* abs_diff_eq(a, b, tol): every |a_i - b_i| <= tol.  "oom" when a lane is undecidable.
AbsDiffLane(f, x, y, t) == LET d == AbsF(Sub(f, x, y)) IN
                           IF IsOom(d) THEN "oom" ELSE IF Le(d, t) THEN "t" ELSE "f"
AbsDiffEq(f, a, b, t) ==
    LET r == [i \in 1..Len(a) |-> AbsDiffLane(f, a[i], b[i], t)] IN
    IF \E i \in 1..Len(a) : r[i] = "f" THEN "f"
    ELSE IF \E i \in 1..Len(a) : r[i] = "oom" THEN "oom" ELSE "t"

\* ---- horizontal reductions (defined only when no lane is NaN) -------------
HasNan(a) == \E i \in 1..Len(a) : IsNan(a[i])
MinElement(a) == IF HasNan(a) THEN AnyVal ELSE a[FirstBest(LAMBDA x, y : Cmp(x, y) < 0, a)]
MaxElement(a) == IF HasNan(a) THEN AnyVal ELSE a[FirstBest(LAMBDA x, y : Cmp(x, y) > 0, a)]
\* positions: 0-based index of the first extremal lane; -1 = unspecified
MinPosition(a) == IF HasNan(a) THEN -1 ELSE FirstBest(LAMBDA x, y : Cmp(x, y) < 0, a) - 1
MaxPosition(a) == IF HasNan(a) THEN -1 ELSE FirstBest(LAMBDA x, y : Cmp(x, y) > 0, a) - 1

\* Iterator::sum / product of a sequence of vectors: lane-wise left folds
SumVecs(f, n, vs)  == [i \in 1..n |-> FoldL(LAMBDA x, y : Add(f, x, y), Zero(0), [k \in 1..Len(vs) |-> vs[k][i]])]
ProdVecs(f, n, vs) == [i \in 1..n |-> FoldL(LAMBDA x, y : Mul(f, x, y), One(0),  [k \in 1..Len(vs) |-> vs[k][i]])]

=============================================================================
