SPECIFICATION Spec
CONSTANT Tier = "quick"
CONSTANT Seed = 1
INVARIANT Emit
INVARIANT ConvTheorems
CHECK_DEADLOCK FALSE
