------------------------------- MODULE MC_C02 -------------------------------
(***************************************************************************)
(* C02: vector geometry.  Exact layers decided by enumeration:             *)
(*  - bilinear forms (dot, cross, perp_dot, length_squared,                *)
(*    distance_squared, element_sum/product) on small integer vectors,     *)
(*    where every result is an exact integer;                              *)
(*  - length / distance / length_recip / normalize* on Pythagorean tuples  *)
(*    scaled by powers of two (exact square roots, rational directions);   *)
(*  - the fallback rule of the normalize family on zero, subnormal,        *)
(*    underflowing, overflowing and non-finite inputs, computed with the   *)
(*    Ieee module (length_squared under- or overflows exactly as in f32);  *)
(*  - project / reject / reflect / refract on lattice inputs;              *)
(*  - angle_between / angle_to on integer vector pairs whose angle is a    *)
(*    multiple of pi/12 (TLC checks cos^2 of each table row).              *)
(* The error-bound predicate for arbitrary inputs is Trace_C02.tla.        *)
(***************************************************************************)
EXTENDS LinAlg, Ieee, Json
CONSTANTS Tier, Seed
VARIABLES ph, call, res
vars == <<ph, call, res>>
Quick == Tier = "quick"

Rng == IF Quick THEN -2..2 ELSE -3..3
V3s == Rng \X Rng \X Rng
Sel(a, b) == ~Quick \/ (a[1] + 3 * a[2] + 5 * a[3] + 7 * b[1] + 11 * b[2] + 13 * b[3] + Seed) % 4 = 0

\* Pythagorean tuples <<x, y, z, w, length>>
Pyth == { <<3, 4, 0, 0, 5>>, <<1, 2, 2, 0, 3>>, <<2, 3, 6, 0, 7>>, <<1, 4, 8, 0, 9>>, <<1, 1, 1, 1, 2>>, <<2, 4, 5, 6, 9>>, <<0, 0, 0, 5, 5>>,
          <<-3, 4, 0, 0, 5>>, <<2, -6, 3, 0, 7>>, <<-1, -2, -2, 0, 3>>, <<6, 0, -8, 0, 10>>, <<0, -12, 5, 0, 13>> }
Scales == IF Quick THEN {-30, -3, 0, 5, 40} ELSE {-60, -30, -10, -3, 0, 1, 5, 20, 40, 60}      \* powers of two

\* special inputs for the fallback rule: one distinguished lane value, the others zero or the same
Spec1 == << Zero(0), Zero(1), Fin(0, 1, -149), Fin(0, 3, -140), Fin(0, 1, -80), Fin(0, 3, -70), Fin(0, 1, 70), Fin(0, 5, 90), Fin(0, 16777215, 104),
            Inf(0), Inf(1), NaN(0), Fin(0, 1, -64), Fin(0, 1, 63), Fin(0, 1, -63) >>

\* integer vector pairs with a known angle k * pi / 12
AnglePairs == { << <<1, 0, 0>>, <<1, 0, 0>>, 0 >>, << <<2, 0, 0>>, <<1, 1, 0>>, 3 >>, << <<1, 0, 0>>, <<0, 3, 0>>, 6 >>, << <<1, 0, 0>>, <<-1, 1, 0>>, 9 >>,
                << <<1, 0, 0>>, <<-4, 0, 0>>, 12 >>, << <<1, 1, 0>>, <<0, 1, 1>>, 4 >>, << <<1, 1, 0>>, <<0, -2, -2>>, 8 >>,
                << <<1, 1, 0>>, <<1, 2, 1>>, 2 >>, << <<1, 1, 0>>, <<-1, -2, -1>>, 10 >>, << <<0, 3, 4>>, <<0, 3, 4>>, 0 >>, << <<0, 0, 2>>, <<5, 0, 0>>, 6 >>,
                << <<1, 2, 1>>, <<-3, -3, 0>>, 10 >>, << <<0, 1, 1>>, <<1, 0, 1>>, 4 >>, << <<3, 0, 3>>, <<0, 2, 0>>, 6 >> }
\* cos^2 of k*pi/12 as a fraction <<num, den>> for the k that occur, and the sign of the cosine
Cos2(k) == CASE k \in {0, 12} -> <<1, 1>> [] k \in {2, 10} -> <<3, 4>> [] k \in {3, 9} -> <<1, 2>> [] k \in {4, 8} -> <<1, 4>> [] k = 6 -> <<0, 1>>
CosSign(k) == IF k < 6 THEN 1 ELSE IF k = 6 THEN 0 ELSE -1

Calls ==
         {c \in [kind : {"bilinear"}, a : V3s, b : V3s, k : {0}, sp : {0}] : Sel(c.a, c.b)}
    \cup [kind : {"pyth"}, a : Pyth, b : {<<0, 0, 0>>}, k : Scales, sp : {0}]
    \cup [kind : {"fallback"}, a : {<<0, 0, 0>>}, b : {<<0, 0, 0>>}, k : 0..3, sp : 1..Len(Spec1)]      \* k: lane pattern
    \cup [kind : {"angle"}, a : AnglePairs, b : {<<0, 0, 0>>}, k : {-3, 0, 4}, sp : {0}]                  \* k: scale exponent of the second vector
    \cup {c \in [kind : {"project"}, a : V3s, b : V3s, k : {0}, sp : {0}] : Sel(c.b, c.a) /\ c.b # <<0, 0, 0>> /\ (~Quick \/ c.a[1] = 1)}

Sq(x) == x * x
IntF(n) == IF n = 0 THEN Zero(0) ELSE Canon(IF n < 0 THEN 1 ELSE 0, AbsI(n), 0)
\* the f32 squared length of a vector of Ieee lanes, summed left to right (any order is exact or over/underflows alike here)
LenSq(f, v) == LET s2 == [i \in 1..Len(v) |-> Mul(f, v[i], v[i])] IN
               IF Len(v) = 2 THEN Add(f, s2[1], s2[2]) ELSE IF Len(v) = 3 THEN Add(f, Add(f, s2[1], s2[2]), s2[3]) ELSE Add(f, Add(f, Add(f, s2[1], s2[2]), s2[3]), s2[4])
\* the normalize family returns its fallback iff 1/length is not finite and positive
UsesFallback(f, v) == LET l2 == LenSq(f, v) IN
                      IF IsOom(l2) THEN "unknown"                         \* the model declines (needs more than 31-bit integers)
                      ELSE IF IsNan(l2) \/ IsZero(l2) \/ IsInf(l2) THEN "yes"   \* length 0, inf or NaN: 1/length is inf, 0 or NaN
                      ELSE "no"
Pattern(k, x) == CASE k = 0 -> <<x, Zero(0), Zero(0), Zero(0)>> [] k = 1 -> <<Zero(0), x, Zero(0), x>> [] k = 2 -> <<x, x, x, x>> [] k = 3 -> <<Zero(0), Zero(0), x, Zero(0)>>

Eval(c) ==
    CASE c.kind = "bilinear" ->
            [ dot |-> Dot3(c.a, c.b), cross |-> Cross3(c.a, c.b), perp_dot |-> c.a[1] * c.b[2] - c.a[2] * c.b[1], dot2 |-> c.a[1] * c.b[1] + c.a[2] * c.b[2],
              len2 |-> Dot3(c.a, c.a), dist2 |-> Sq(c.a[1] - c.b[1]) + Sq(c.a[2] - c.b[2]) + Sq(c.a[3] - c.b[3]),
              sum |-> c.a[1] + c.a[2] + c.a[3], prod |-> c.a[1] * c.a[2] * c.a[3],
              dot4 |-> Dot3(c.a, c.b) + c.a[1] * c.b[3] ]              \* 4-lane vectors use w = (a.x, b.z)
      [] c.kind = "pyth" -> [ len |-> c.a[5], scale |-> c.k ]
      [] c.kind = "fallback" ->
            LET v == Pattern(c.k, Spec1[c.sp]) IN
            [ v |-> EncV(v), fb2 |-> UsesFallback(F32, <<v[1], v[2]>>), fb3 |-> UsesFallback(F32, <<v[1], v[2], v[3]>>), fb4 |-> UsesFallback(F32, v),
              fb2d |-> UsesFallback(F64, <<v[1], v[2]>>), fb3d |-> UsesFallback(F64, <<v[1], v[2], v[3]>>), fb4d |-> UsesFallback(F64, v) ]
      [] c.kind = "angle" -> [ twelfths |-> c.a[3], scale |-> c.k ]
      [] c.kind = "project" ->
            \* project_onto(a, b) = b (a.b)/(b.b): numerators and the common denominator
            [ num |-> [i \in 1..3 |-> c.b[i] * Dot3(c.a, c.b)], den |-> Dot3(c.b, c.b),
              \* reflect a about the plane with (non-unit) normal b: a - 2 b (a.b)/(b.b), as numerators over den
              refl |-> [i \in 1..3 |-> c.a[i] * Dot3(c.b, c.b) - 2 * c.b[i] * Dot3(c.a, c.b)] ]

Init == ph = "call" /\ call \in Calls /\ res = <<>>
Next == ph = "call" /\ ph' = "ret" /\ res' = Eval(call) /\ UNCHANGED call
Spec == Init /\ [][Next]_vars
Emit == ph = "ret" => PrintT(<<"CASE", ToJson([fam |-> "geom", kind |-> call.kind, a |-> call.a, b |-> call.b, k |-> call.k, exp |-> res])>>)

GeomTheorems ==
    ph = "ret" =>
        CASE call.kind = "bilinear" ->
                LET a == call.a b == call.b cr == res.cross IN
                /\ Dot3(cr, a) = 0 /\ Dot3(cr, b) = 0                                             \* the cross product is orthogonal to both
                /\ Dot3(cr, cr) = Dot3(a, a) * Dot3(b, b) - Sq(Dot3(a, b))                        \* Lagrange identity
                /\ Cross3(b, a) = [i \in 1..3 |-> -cr[i]]
                /\ res.dist2 = Dot3(a, a) + Dot3(b, b) - 2 * Dot3(a, b)
          [] call.kind = "pyth" -> Sq(call.a[1]) + Sq(call.a[2]) + Sq(call.a[3]) + Sq(call.a[4]) = Sq(call.a[5])
          [] call.kind = "angle" ->
                LET a == call.a[1] b == call.a[2] k == call.a[3] d == Dot3(a, b) IN
                /\ Sq(d) * Cos2(k)[2] = Cos2(k)[1] * Dot3(a, a) * Dot3(b, b)
                /\ (IF d > 0 THEN 1 ELSE IF d < 0 THEN -1 ELSE 0) = CosSign(k)
          [] call.kind = "project" ->
                \* the projection is parallel to b and the rejection orthogonal to it
                /\ Cross3(res.num, call.b) = <<0, 0, 0>>
                /\ Dot3([i \in 1..3 |-> call.a[i] * res.den - res.num[i]], call.b) = 0
          [] OTHER -> TRUE
=============================================================================
