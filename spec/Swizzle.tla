------------------------------ MODULE Swizzle ------------------------------
(***************************************************************************)
(* Swizzles as index maps derived from the letters of the method name.     *)
(* A name is a sequence of letters, e.g. <<"z","x","y">> for zxy().        *)
(***************************************************************************)
EXTENDS Integers, Sequences, FiniteSets, TLC

Letters == <<"x", "y", "z", "w">>
LetterIdx(l) == CASE l = "x" -> 1 [] l = "y" -> 2 [] l = "z" -> 3 [] l = "w" -> 4

\* all names of length k over the first n letters
Names(n, k) == [1..k -> {Letters[i] : i \in 1..n}]
GetterNames(n) == Names(n, 2) \cup Names(n, 3) \cup Names(n, 4)
Injective(nm) == \A i, j \in 1..Len(nm) : i # j => nm[i] # nm[j]
\* with_ setters exist for names of pairwise distinct letters, shorter than the vector
SetterNames(n) == {nm \in Names(n, 2) \cup Names(n, 3) : Injective(nm) /\ Len(nm) < n}

SwzGet(nm, v) == [i \in 1..Len(nm) |-> v[LetterIdx(nm[i])]]

\* position of lane j of the source in the name (0 if not named)
PosIn(nm, j) == IF \E i \in 1..Len(nm) : LetterIdx(nm[i]) = j
                THEN CHOOSE i \in 1..Len(nm) : LetterIdx(nm[i]) = j ELSE 0
SwzWith(nm, v, r) == [j \in 1..Len(v) |-> IF PosIn(nm, j) = 0 THEN v[j] ELSE r[PosIn(nm, j)]]

NameStr(nm) == IF Len(nm) = 2 THEN nm[1] \o nm[2]
               ELSE IF Len(nm) = 3 THEN nm[1] \o nm[2] \o nm[3]
               ELSE nm[1] \o nm[2] \o nm[3] \o nm[4]

\* documented result type: same length as the source -> Self, otherwise the plain vector
\* of the family (fam is the family prefix, e.g. "Vec", "DVec", "I16Vec")
ResultLen(nm) == Len(nm)

=============================================================================
