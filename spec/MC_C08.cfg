SPECIFICATION Spec
CONSTANT Tier = "quick"
CONSTANT MaxLen = 2
INVARIANT Emit
INVARIANT TypeOK
INVARIANT NonVacuous
CHECK_DEADLOCK FALSE
