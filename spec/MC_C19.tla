------------------------------- MODULE MC_C19 -------------------------------
(***************************************************************************)
(* C19: serialisation and interop.  A value is its flat sequence of N      *)
(* scalar elements in lane / column-major order.                           *)
(*   serde:    Tokens(v) = TupleStruct(name, N), e1 .. eN, End             *)
(*             FromTokens(name, es) = value iff Len(es) = N, else error    *)
(*   bytes:    the byte image is the concatenation of the elements' native *)
(*             byte strings in the same order (padding excluded); only     *)
(*             padding-free types may be Pod                               *)
(*   mint:     column matrices carry the columns, row matrices the rows    *)
(***************************************************************************)
EXTENDS Integers, Sequences, FiniteSets, Json, TLC
CONSTANT Tier
VARIABLES ph, call, res
vars == <<ph, call, res>>

VecFam == { <<"Vec", "f32", 4>>, <<"DVec", "f64", 8>>, <<"I8Vec", "i8", 1>>, <<"U8Vec", "u8", 1>>, <<"I16Vec", "i16", 2>>, <<"U16Vec", "u16", 2>>,
            <<"IVec", "i32", 4>>, <<"UVec", "u32", 4>>, <<"I64Vec", "i64", 8>>, <<"U64Vec", "u64", 8>>, <<"USizeVec", "usize", 8>> }
\* [name, n (elements), scalar, bytes per scalar, storage bytes (with padding), kind, rows, cols]
Ty(name, n, sc, sz, store, kind, r, c) == [name |-> name, n |-> n, sc |-> sc, sz |-> sz, store |-> store, kind |-> kind, r |-> r, c |-> c]
Types ==
    { Ty(f[1] \o ToString(d), d, f[2], f[3], d * f[3], "vec", d, 1) : f \in VecFam, d \in 2..4 }
    \cup { Ty("Vec4", 4, "f32", 4, 16, "vec", 4, 1), Ty("Vec3A", 3, "f32", 4, 16, "vec", 3, 1),
           Ty("Quat", 4, "f32", 4, 16, "quat", 4, 1), Ty("DQuat", 4, "f64", 8, 32, "quat", 4, 1),
           Ty("Mat2", 4, "f32", 4, 16, "mat", 2, 2), Ty("Mat3", 9, "f32", 4, 36, "mat", 3, 3), Ty("Mat3A", 9, "f32", 4, 48, "mat", 3, 3),
           Ty("Mat4", 16, "f32", 4, 64, "mat", 4, 4), Ty("DMat2", 4, "f64", 8, 32, "mat", 2, 2), Ty("DMat3", 9, "f64", 8, 72, "mat", 3, 3),
           Ty("DMat4", 16, "f64", 8, 128, "mat", 4, 4),
           Ty("Affine2", 6, "f32", 4, 32, "aff", 2, 3), Ty("Affine3A", 12, "f32", 4, 64, "aff", 3, 4),
           Ty("DAffine2", 6, "f64", 8, 48, "aff", 2, 3), Ty("DAffine3", 12, "f64", 8, 96, "aff", 3, 4),
           Ty("BVec2", 2, "bool", 1, 2, "mask", 2, 1), Ty("BVec3", 3, "bool", 1, 3, "mask", 3, 1), Ty("BVec4", 4, "bool", 1, 4, "mask", 4, 1),
           Ty("BVec3A", 3, "bool", 1, 16, "mask", 3, 1), Ty("BVec4A", 4, "bool", 1, 16, "mask", 4, 1) }

T(k) == "t" \o ToString(k)
Elems(n) == [k \in 1..n |-> T(k)]
\* the serde token stream of a value
Tokens(ty) == <<[tok |-> "struct", name |-> ty.name, len |-> ty.n]>> \o [k \in 1..ty.n |-> [tok |-> "elem", name |-> T(k), len |-> 0]] \o <<[tok |-> "end", name |-> "", len |-> 0]>>
\* deserialising a stream of k elements
FromTokens(ty, k) == IF k = ty.n THEN "ok" ELSE "error"
\* padding-free iff the storage is exactly the elements
PaddingFree(ty) == ty.store = ty.n * ty.sz
\* mint: a column-major mint matrix lists the same flat order; a row-major one the transposed listing
RowMajor(R, C, m) == [k \in 1..(R * C) |-> m[((k - 1) % C) * R + ((k - 1) \div C) + 1]]

Calls == [ty : Types, len : {-1}] \cup { [ty |-> t, len |-> k] : t \in Types, k \in 0..18 }
Valid(c) == c.len <= c.ty.n + 2
Eval(c) == IF c.len = -1
           THEN [ tokens |-> Tokens(c.ty), elems |-> Elems(c.ty.n), padding_free |-> PaddingFree(c.ty),
                  rowmajor |-> IF c.ty.kind = "mat" THEN RowMajor(c.ty.r, c.ty.c, Elems(c.ty.n)) ELSE <<>>, accept |-> "ok" ]
           ELSE [ tokens |-> <<>>, elems |-> Elems(c.len), padding_free |-> PaddingFree(c.ty), rowmajor |-> <<>>, accept |-> FromTokens(c.ty, c.len) ]

Init == ph = "call" /\ call \in {c \in Calls : Valid(c)} /\ res = <<>>
Next == ph = "call" /\ ph' = "ret" /\ res' = Eval(call) /\ UNCHANGED call
Spec == Init /\ [][Next]_vars
Emit == ph = "ret" => PrintT(<<"CASE", ToJson([fam |-> "serial", ty |-> call.ty, len |-> call.len, exp |-> res])>>)
SerialTheorems == ph = "ret" =>
    /\ (call.len = -1) => Len(res.tokens) = call.ty.n + 2
    /\ (call.len >= 0) => (res.accept = "ok" <=> call.len = call.ty.n)
    /\ Cardinality(Types) = 52
=============================================================================
