------------------------------- MODULE MC_C06 -------------------------------
(***************************************************************************)
(* C06: register machine for one matrix / affine value over opaque tokens. *)
(* Constructors, write paths (col_mut, AsMut, axis fields) and read paths  *)
(* (to_cols_array(_2d), write_cols_to_slice, AsRef, col, row, axis fields, *)
(* transpose, Debug/Display) are the actions.                              *)
(***************************************************************************)
EXTENDS Layout, Json

CONSTANTS Tier, MaxHist
VARIABLES shape, m0, m, hist
vars == <<shape, m0, m, hist>>

Shapes == { <<2, 2>>, <<3, 3>>, <<4, 4>>, <<2, 3>>, <<3, 4>> }
R == shape[1]
C == shape[2]
Square == R = C
T(k) == "t" \o ToString(k)
Distinct(n) == [k \in 1..n |-> T(k)]
Reversed(n) == [k \in 1..n |-> T(n + 1 - k)]

CtorPaths == {"from_cols_array", "from_cols_array_2d", "from_cols_slice", "from_cols", "free_fn"}
WritePaths == {"col_mut", "as_mut", "field"}
ReadPaths == {"to_cols_array", "to_cols_array_2d", "write_cols_to_slice", "as_ref", "cols", "rows", "fields",
              "transpose", "debug", "display", "display_prec", "row_col_agree"}
WTok == {"q1", "q2"}

Obs(path, mm) == IF path \in {"rows", "transpose"} THEN RowMajor(R, C, mm) ELSE mm

Ev(act, path, r, c, tok, post, obs) ==
    [act |-> act, path |-> path, r |-> r, c |-> c, tok |-> tok, post |-> post, obs |-> obs]

\* the effect of each action on the stored entries alone (shared with the trace specification Trace_C06)
ConstructM(vals) == m' = vals
WriteM(r, c, t) == m' = [m EXCEPT ![Flat(R, r, c)] = t]

Construct(path, vals) ==
    /\ ConstructM(vals)
    /\ hist' = Append(hist, Ev("ctor", path, 0, 0, "-", vals, vals))
    /\ UNCHANGED <<shape, m0>>
FromDiagonal ==
    /\ Square
    /\ LET d == [k \in 1..R |-> T(10 + k)]
           v == Diagonal(R, d, "zero") IN
       /\ m' = v
       /\ hist' = Append(hist, Ev("ctor", "from_diagonal", 0, 0, "-", v, v))
    /\ UNCHANGED <<shape, m0>>
Const(name) ==
    LET v == CASE name = "ZERO" -> [k \in 1..(R * C) |-> "zero"]
               [] name = "NAN"  -> [k \in 1..(R * C) |-> "nan"]
               [] name = "IDENTITY" -> [k \in 1..(R * C) |-> IF (k - 1) % R = (k - 1) \div R THEN "one" ELSE "zero"]
    IN /\ m' = v
       /\ hist' = Append(hist, Ev("const", name, 0, 0, "-", v, v))
       /\ UNCHANGED <<shape, m0>>
Write(path, r, c, t) ==
    LET v == [m EXCEPT ![Flat(R, r, c)] = t] IN
    /\ WriteM(r, c, t)
    /\ hist' = Append(hist, Ev("write", path, r, c, t, v, v))
    /\ UNCHANGED <<shape, m0>>
Read(path) ==
    /\ path \in {"rows", "transpose", "row_col_agree"} => (path = "rows" \/ Square \/ path = "row_col_agree")
    /\ hist' = Append(hist, Ev("read", path, 0, 0, "-", m, Obs(path, m)))
    /\ UNCHANGED <<shape, m0, m>>

Init == /\ shape \in Shapes
        /\ m = Distinct(shape[1] * shape[2])
        /\ m0 = m
        /\ hist = <<>>

Next == /\ Len(hist) < MaxHist
        /\ \/ \E p \in CtorPaths : Construct(p, Reversed(R * C))
           \/ FromDiagonal
           \/ \E nm \in {"ZERO", "NAN", "IDENTITY"} : Const(nm)
           \/ \E p \in WritePaths, r \in 0..(R - 1), c \in 0..(C - 1), t \in WTok : Write(p, r, c, t)
           \/ \E p \in ReadPaths : Read(p)

Spec == Init /\ [][Next]_vars

Emit == Len(hist) = MaxHist =>
    PrintT(<<"CASE", ToJson([fam |-> "mat", r |-> R, c |-> C, init |-> m0, steps |-> hist])>>)

\* ---- the property on the machine ---------------------------------------------
WriteChangesOnlyThatEntry ==
    [][ \A p \in WritePaths, r \in 0..(R - 1), c \in 0..(C - 1), t \in WTok :
            Write(p, r, c, t) => /\ Entry(R, m', r, c) = t
                                 /\ \A k \in 1..(R * C) : k # Flat(R, r, c) => m'[k] = m[k] ]_vars
LayoutTheorems ==
    /\ ColRowAgree(R, C, m)
    /\ TransposeInvolution(R, C, m)
    /\ Square => \A r \in 0..(R - 1), c \in 0..(C - 1) : Entry(R, Transpose(R, C, m), r, c) = Entry(R, m, c, r)

=============================================================================
