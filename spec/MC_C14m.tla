------------------------------ MODULE MC_C14m -------------------------------
(* C14: conversions that only move lanes: extend / truncate, (smaller vector, scalar) pairs,   *)
(* Vec3 <-> Vec3A, Quat <-> Vec4, masks (true is 1, false is 0).  Token operands, bit-for-bit. *)
EXTENDS Integers, Sequences, Lanes, Json, TLC
CONSTANT Tier
VARIABLES ph, call, res
vars == <<ph, call, res>>
Pal == << <<"p1", "p2", "p3", "p4">>, <<"p5", "p6", "p7", "p8">> >>
Extra == <<"q1", "q2">>
Calls ==
         [kind : {"extend"}, n : {2, 3}, pal : 1..2, mask : {<<>>}]
    \cup [kind : {"truncate"}, n : {3, 4}, pal : 1..2, mask : {<<>>}]
    \cup [kind : {"pair"}, n : {2, 3}, pal : 1..2, mask : {<<>>}]            \* From<(VecN, s)>
    \cup [kind : {"pair_front"}, n : {3}, pal : 1..2, mask : {<<>>}]         \* From<(s, Vec3)> for Vec4
    \cup [kind : {"triple"}, n : {2}, pal : 1..2, mask : {<<>>}]             \* From<(Vec2, s, s)> for Vec4
    \cup [kind : {"two"}, n : {2}, pal : 1..2, mask : {<<>>}]                \* From<(Vec2, Vec2)> for Vec4
    \cup [kind : {"same"}, n : {3, 4}, pal : 1..2, mask : {<<>>}]            \* Vec3 <-> Vec3A, Quat <-> Vec4
    \cup UNION {[kind : {"mask"}, n : {k}, pal : {1}, mask : [1..k -> BOOLEAN]] : k \in 2..4}
Src(c) == Take(Pal[c.pal], c.n)
Eval(c) == CASE c.kind = "extend"     -> Append(Src(c), Extra[1])
             [] c.kind = "truncate"   -> Take(Src(c), c.n - 1)
             [] c.kind = "pair"       -> Append(Src(c), Extra[1])
             [] c.kind = "pair_front" -> <<Extra[1]>> \o Src(c)
             [] c.kind = "triple"     -> Src(c) \o Extra
             [] c.kind = "two"        -> Src(c) \o Take(Pal[3 - c.pal], 2)
             [] c.kind = "same"       -> Src(c)
             [] c.kind = "mask"       -> [i \in 1..c.n |-> IF c.mask[i] THEN "one" ELSE "zero"]
Init == ph = "call" /\ call \in Calls /\ res = <<>>
Next == ph = "call" /\ ph' = "ret" /\ res' = Eval(call) /\ UNCHANGED call
Spec == Init /\ [][Next]_vars
Emit == ph = "ret" => PrintT(<<"CASE", ToJson([fam |-> "move", kind |-> call.kind, n |-> call.n, src |-> Src(call),
                                                other |-> Take(Pal[3 - call.pal], 2), extra |-> Extra, mask |-> call.mask, exp |-> res])>>)
\* extend then truncate is the identity
RoundTrip == (ph = "ret" /\ call.kind = "extend") => Take(res, call.n) = Src(call)
=============================================================================
