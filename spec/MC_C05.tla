------------------------------- MODULE MC_C05 -------------------------------
(***************************************************************************)
(* C05: Quat, Mat3/Mat3A, Mat4 and Affine types are interchangeable views  *)
(* of a transform.  The conversion graph: nodes are representations, edges *)
(* the public conversion functions.  A behaviour walks the graph from a    *)
(* seed rotation (on the exact 45-degree grid); the invariant is that the  *)
(* ACTION (the rotation matrix applied to probe vectors) never changes.    *)
(***************************************************************************)
EXTENDS Rot, FiniteSets, Json

CONSTANTS Tier, Seed, MaxLen
VARIABLES node, start, path, seed, action
vars == <<node, start, path, seed, action>>
Quick == Tier = "quick"

Nodes == {"Quat", "Mat3", "Mat3A", "Mat4", "Affine3A", "DQuat", "DMat3", "DMat4", "DAffine3"}
\* edges: <<from, to, function>>
Edges == {
    <<"Quat", "Mat3", "Mat3::from_quat">>, <<"Quat", "Mat3A", "Mat3A::from_quat">>, <<"Quat", "Mat4", "Mat4::from_quat">>,
    <<"Quat", "Affine3A", "Affine3A::from_quat">>, <<"Quat", "DQuat", "as_dquat">>,
    <<"Mat3", "Quat", "Quat::from_mat3">>, <<"Mat3A", "Quat", "Quat::from_mat3a">>, <<"Mat4", "Quat", "Quat::from_mat4">>,
    <<"Affine3A", "Quat", "Quat::from_affine3">>,
    <<"Mat3", "Mat3A", "Mat3A::from">>, <<"Mat3A", "Mat3", "Mat3::from">>, <<"Mat3", "Mat4", "Mat4::from_mat3">>,
    <<"Mat3A", "Mat4", "Mat4::from_mat3a">>, <<"Mat4", "Mat3", "Mat3::from_mat4">>, <<"Mat4", "Mat3A", "Mat3A::from_mat4">>,
    <<"Mat3", "Affine3A", "Affine3A::from_mat3">>, <<"Affine3A", "Mat4", "Mat4::from">>, <<"Mat4", "Affine3A", "Affine3A::from_mat4">>,
    <<"Affine3A", "Mat3A", "matrix3">>, <<"Mat3", "DMat3", "as_dmat3">>, <<"Mat3A", "DMat3", "as_dmat3">>, <<"Mat4", "DMat4", "as_dmat4">>,
    <<"Affine3A", "DAffine3", "as_daffine3">>,
    <<"DQuat", "DMat3", "DMat3::from_quat">>, <<"DQuat", "DMat4", "DMat4::from_quat">>, <<"DQuat", "DAffine3", "DAffine3::from_quat">>,
    <<"DQuat", "Quat", "as_quat">>, <<"DMat3", "DQuat", "DQuat::from_mat3">>, <<"DMat4", "DQuat", "DQuat::from_mat4">>,
    <<"DAffine3", "DQuat", "DQuat::from_affine3">>, <<"DMat3", "DMat4", "DMat4::from_mat3">>, <<"DMat4", "DMat3", "DMat3::from_mat4">>,
    <<"DMat3", "DAffine3", "DAffine3::from_mat3">>, <<"DAffine3", "DMat4", "DMat4::from">>, <<"DMat4", "DAffine3", "DAffine3::from_mat4">>,
    <<"DMat3", "Mat3", "as_mat3">>, <<"DMat4", "Mat4", "as_mat4">>, <<"DAffine3", "Affine3A", "as_affine3a">> }

\* seed rotations: Euler XYZ triples of the grid -- dense rotations that reach all four branches of
\* the matrix -> quaternion conversion (trace > 0, and each of x, y, z dominant), including half turns
SeedAngles == IF Quick THEN {<<a, b, c>> \in (-3..4) \X (-3..4) \X (-3..4) : (a + 2 * b + 3 * c + Seed) % 11 = 0}
              ELSE (-3..4) \X (-3..4) \X (-3..4)
SeedMat(s) == EulerMat(<<"X", "Y", "Z">>, FALSE, s[1], s[2], s[3])
\* which branch of the documented trace-based conversion a rotation falls in (for coverage accounting)
Branch(m) == LET m00 == RE(m, 0, 0) m11 == RE(m, 1, 1) m22 == RE(m, 2, 2) IN
             IF RSign(m22) <= 0 THEN (IF RSign(RSub(m11, m00)) <= 0 THEN "x" ELSE "y")
             ELSE (IF RSign(RAdd(m11, m00)) <= 0 THEN "z" ELSE "w")

Init == /\ node \in (IF Quick THEN {"Quat", "Mat3", "Mat4", "Affine3A", "DQuat"} ELSE Nodes)
        /\ start = node
        /\ path = <<>>
        /\ seed \in SeedAngles
        /\ action = SeedMat(seed)

Convert(e) == /\ e[1] = node
              /\ node' = e[2]
              /\ path' = Append(path, e[3])
              /\ action' = action                  \* a conversion never changes what the transform does
              /\ UNCHANGED <<seed, start>>
Next == Len(path) < MaxLen /\ \E e \in Edges : Convert(e)
Spec == Init /\ [][Next]_vars

ActionPreserved == [][action' = action]_vars
Emit == (Len(path) = MaxLen \/ ~(\E e \in Edges : e[1] = node)) =>
    PrintT(<<"CASE", ToJson([fam |-> "chain", start |-> start, path |-> path, seed |-> seed,
                             branch |-> Branch(action), exp |-> [m |-> action]])>>)
\* every node can reach a quaternion and a matrix (the graph is strongly connected enough to mix representations)
ASSUME \A n \in Nodes : \E e \in Edges : e[1] = n
ASSUME IsRotation(SeedMat(<<1, 2, 3>>))

=============================================================================
