------------------------------ MODULE MC_C15s -------------------------------
(* C15: select(mask, a, b) on token operands, for every mask value.        *)
EXTENDS Integers, Sequences, Lanes, Json, TLC
CONSTANT Tier
VARIABLES ph, call, res
vars == <<ph, call, res>>
A == <<"p1", "p2", "p3", "p4">>
B == <<"q1", "q2", "q3", "q4">>
Calls == UNION {[n : {k}, mask : [1..k -> BOOLEAN], swap : BOOLEAN] : k \in 2..4}
Arg1(c) == Take(IF c.swap THEN B ELSE A, c.n)
Arg2(c) == Take(IF c.swap THEN A ELSE B, c.n)
Init == ph = "call" /\ call \in Calls /\ res = <<>>
Next == ph = "call" /\ ph' = "ret" /\ res' = Select(call.mask, Arg1(call), Arg2(call)) /\ UNCHANGED call
Spec == Init /\ [][Next]_vars
Emit == ph = "ret" => PrintT(<<"CASE", ToJson([fam |-> "select", n |-> call.n, mask |-> call.mask,
                                                a |-> Arg1(call), b |-> Arg2(call), exp |-> res])>>)
SelectLaw == ph = "ret" => \A i \in 1..call.n : res[i] = IF call.mask[i] THEN Arg1(call)[i] ELSE Arg2(call)[i]
=============================================================================
