SPECIFICATION Spec
CONSTANT Tier = "quick"
CONSTANT Seed = 1
INVARIANT Emit
INVARIANT InterpTheorems
CHECK_DEADLOCK FALSE
