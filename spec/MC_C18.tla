------------------------------- MODULE MC_C18 -------------------------------
(***************************************************************************)
(* C18 (first half): in builds without glam-assert no public float         *)
(* function panics, whatever special value is put in whatever argument.    *)
(* The vocabulary of functions is module C18Ops (generated from the same   *)
(* table as the harness dispatch).  A call puts one special value into one *)
(* argument slot (all lanes, or a single lane / matrix entry), or special   *)
(* values into two slots at once; the specified outcome is "returns".      *)
(***************************************************************************)
EXTENDS C18Ops, Integers, Sequences, FiniteSets, Json, TLC
CONSTANTS Tier, Seed
VARIABLES ph, call, res
vars == <<ph, call, res>>
Quick == Tier = "quick"

Specials == {"zero", "negzero", "subnormal", "tiny", "huge", "inf", "neginf", "nan", "max"}
PairSpecials == { <<"zero", "zero">>, <<"nan", "inf">>, <<"inf", "neginf">>, <<"huge", "tiny">>, <<"zero", "inf">>, <<"subnormal", "huge">>, <<"nan", "nan">>, <<"inf", "inf">> }
Lanes(w) == IF w = 1 THEN {"all"} ELSE {"all"} \cup {ToString(l) : l \in 0..(w - 1)}

SingleOf(o, s) == [ty : {o.ty}, op : {o.op}, slot : {s[1]}, lane : Lanes(s[2]), sp : Specials, slot2 : {"-"}, sp2 : {"-"}]
PairOf(o, s, t, p) == [ty : {o.ty}, op : {o.op}, slot : {s[1]}, lane : {"all"}, sp : {p[1]}, slot2 : {t[1]}, sp2 : {p[2]}]
Single == UNION { UNION { SingleOf(o, s) : s \in o.slots } : o \in Ops }
Pairs  == UNION { UNION { UNION { UNION { PairOf(o, s, t, p) : p \in PairSpecials } : t \in {x \in o.slots : x[1] # s[1]} } : s \in o.slots } : o \in Ops }
\* every argument slot filled with a pseudo-random bit pattern (finite, special and arbitrary values mixed): the draw is named by its
\* index, the harness derives the values from (index, Seed)
RandDraws == IF Quick THEN 1..6 ELSE 1..96
Rand == UNION { [ty : {o.ty}, op : {o.op}, slot : {"rand"}, lane : {ToString(k) : k \in RandDraws}, sp : {"random"}, slot2 : {"-"}, sp2 : {"-"}] : o \in Ops }
Calls == Single \cup Pairs \cup Rand
\* documented panics of this family: none.  (Slices, indices and integer arithmetic are MC_C18b / C13.)
Panics(c) == FALSE

Init == ph = "call" /\ call \in Calls /\ res = "-"
Next == ph = "call" /\ ph' = "ret" /\ res' = (IF Panics(call) THEN "panic" ELSE "ok") /\ UNCHANGED call
Spec == Init /\ [][Next]_vars
Emit == ph = "ret" => PrintT(<<"CASE", ToJson([fam |-> "nopanic", c |-> call, exp |-> res])>>)
NeverPanics == ph = "ret" => res = "ok"
=============================================================================
