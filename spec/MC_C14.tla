------------------------------- MODULE MC_C14 -------------------------------
(***************************************************************************)
(* C14: conversions between vector types match the primitive conversions   *)
(* lane by lane.  Numeric conversions: `as` casts (int->int wraps,         *)
(* float->int truncates and saturates with NaN -> 0, int->float and        *)
(* f64->f32 round to nearest), From (lossless), TryFrom (Ok iff every lane *)
(* fits).  Scalars are IntLane integers (module Big) and Ieee floats.      *)
(***************************************************************************)
EXTENDS IntLane, Ieee, Lanes, Json

CONSTANTS Tier, Seed
VARIABLES ph, call, res
vars == <<ph, call, res>>

IntTypes == {Ty(w, s) : w \in {8, 16, 32, 64}, s \in BOOLEAN}
TyName(T) == (IF T.sg THEN "i" ELSE "u") \o ToString(T.w)
Fmt(n) == IF n = "f32" THEN F32 ELSE F64

PadTo4(S) == LET r == Len(S) % 4 IN IF r = 0 THEN S ELSE S \o [i \in 1..(4 - r) |-> S[i + 1]]
\* integer source lattice: extremes of the type and the boundaries of every narrower target
IntSrc(T) ==
    LET P(k) == ZPow2(k)
        pos == << Z0, Z1, ZOf(2), ZOf(127), ZOf(128), ZOf(255), ZOf(256), ZOf(32767), ZOf(32768), ZOf(65535), ZOf(65536),
                  ZSub(P(24), Z1), P(24), ZAdd(P(24), Z1), ZAdd(P(24), ZOf(3)), ZSub(P(31), Z1), P(31), ZSub(P(32), Z1), P(32),
                  ZAdd(P(32), Z1), ZSub(P(53), Z1), ZAdd(P(53), Z1), ZSub(P(63), Z1), P(63), ZSub(P(63), P(10)), ZSub(P(64), Z1),
                  ZSub(P(64), P(11)), ZAdd(P(62), P(8)) >>
        all == pos \o [i \in 1..Len(pos) |-> ZNeg(pos[i])] \o << ZSub(ZNeg(P(31)), Z1), ZSub(ZNeg(P(15)), Z1), ZOf(-129) >>
        ok  == SelectSeq(all, LAMBDA z : InRange(T, z))
    IN PadTo4(ok)

\* float source lattice: specials, fractions, and values just inside / outside every integer range
FSrcPos == << Zero(0), Inf(0), NaN(0), Fin(0, 1, -1), Fin(0, 16777215, -24), Fin(0, 1, 0), Fin(0, 3, -1), Fin(0, 5, -1),
              Fin(0, 255, -1), Fin(0, 127, 0), Fin(0, 1, 7), Fin(0, 257, -1), Fin(0, 255, 0), Fin(0, 511, -1), Fin(0, 1, 8),
              Fin(0, 65535, -1), Fin(0, 32767, 0), Fin(0, 1, 15), Fin(0, 65537, -1), Fin(0, 65535, 0), Fin(0, 131071, -1), Fin(0, 1, 16),
              Fin(0, 16777215, 7), Fin(0, 1, 31), Fin(0, 8388609, 8), Fin(0, 16777215, 8), Fin(0, 1, 32), Fin(0, 8388609, 9),
              Fin(0, 16777215, 39), Fin(0, 1, 63), Fin(0, 8388609, 40), Fin(0, 16777215, 40), Fin(0, 1, 64), Fin(0, 8388609, 41),
              Fin(0, 16777215, 104), Fin(0, 1, -149), Fin(0, 1, 100), Fin(0, 12345, -3) >>
\* f64-only values (need more than 24 bits, or exceed the f32 exponent range)
F64Only == << Fin(0, 2147483647, 0), Fin(0, 2147483647, -1), Fin(0, 1073741825, -30), Fin(0, 33554433, -25), Fin(0, 33554435, -25),
              Fin(0, 16777217, 0), Fin(0, 16777219, 0), Fin(0, 1, 128), Fin(0, 16777215, 105), Fin(0, 33554431, 103),
              Fin(0, 1, -150), Fin(0, 3, -151), Fin(0, 3, -150), Fin(0, 1, -1074), Fin(0, 1, 1023), Fin(0, 1431655765, 1) >>
SignedBoth(S) == S \o [i \in 1..Len(S) |-> NegF(S[i])]
FSrc(n) == PadTo4(SignedBoth(IF n = "f32" THEN FSrcPos ELSE FSrcPos \o F64Only))

\* ---- the conversion semantics -------------------------------------------------
\* value of a finite float as an exact integer part (truncation toward zero), as a Big integer
TruncToZ(x) == IF x.e >= 0 THEN Z(x.s, NatMul(NatOf(x.m), NatPow2(x.e)))
               ELSE Z(x.s, NatShr(NatOf(x.m), -x.e))
FloatToInt(T, x) ==       \* Rust `as`: NaN -> 0, saturating, truncating
    IF IsNan(x) THEN Z0
    ELSE IF IsInf(x) THEN (IF x.s = 1 THEN TMin(T) ELSE TMax(T))
    ELSE IF IsZero(x) THEN Z0
    ELSE IF Top(x) >= 70 THEN (IF x.s = 1 THEN TMin(T) ELSE TMax(T))
    ELSE Sat(T, TruncToZ(x))
\* integer -> float: round to nearest, ties to even (Oom when the odd mantissa needs more than 31 bits)
IntToFloat(f, z) ==
    IF z = Z0 THEN Zero(0)
    ELSE LET L == NatBitLen(z.m) IN
         IF L <= 30 THEN RoundToFormat(f, z.s, NatToInt(z.m), 0, 0)
         ELSE LET sh == L - 30
                  M == NatToInt(NatShr(z.m, sh))
                  st == IF NatModPow2(z.m, sh) = <<>> THEN 0 ELSE 1
              IN RoundToFormat(f, z.s, M, sh, st)

Calls ==
    \* int -> int
         UNION {UNION {[kind : {"ii"}, s : {TyName(S)}, t : {TyName(T)}, i : {i \in 1..Len(IntSrc(S)) : i % 4 = 1}] : T \in IntTypes \ {S}} : S \in IntTypes}
    \* int -> float
    \cup UNION {[kind : {"if"}, s : {TyName(S)}, t : {"f32", "f64"}, i : {i \in 1..Len(IntSrc(S)) : i % 4 = 1}] : S \in IntTypes}
    \* float -> int
    \cup UNION {[kind : {"fi"}, s : {n}, t : {TyName(T)}, i : {i \in 1..Len(FSrc(n)) : i % 4 = 1}] : n \in {"f32", "f64"}, T \in IntTypes}
    \* float -> float
    \cup [kind : {"ff"}, s : {"f64"}, t : {"f32"}, i : {i \in 1..Len(FSrc("f64")) : i % 4 = 1}]
    \cup [kind : {"ff"}, s : {"f32"}, t : {"f64"}, i : {i \in 1..Len(FSrc("f32")) : i % 4 = 1}]

TyOf(n) == CHOOSE T \in IntTypes : TyName(T) = n
SrcLanes(c) == IF c.kind \in {"ii", "if"} THEN [l \in 1..4 |-> IntSrc(TyOf(c.s))[c.i + l - 1]]
               ELSE [l \in 1..4 |-> FSrc(c.s)[c.i + l - 1]]

Eval(c) ==
    LET a == SrcLanes(c) IN
    CASE c.kind = "ii" ->
            LET S == TyOf(c.s) T == TyOf(c.t) IN
            [ as |-> [l \in 1..4 |-> ZEnc(Wrap(T, a[l]))],
              fits |-> [l \in 1..4 |-> InRange(T, a[l])],            \* TryFrom: Ok iff every lane fits
              lossless |-> (ZLe(TMin(T), TMin(S)) /\ ZLe(TMax(S), TMax(T))) ]   \* From may exist only then
      [] c.kind = "if" ->
            [ as |-> [l \in 1..4 |-> Enc(IntToFloat(Fmt(c.t), a[l]))], fits |-> <<>>,
              \* lossless iff every value of the type is exactly representable
              lossless |-> TyOf(c.s).w < Fmt(c.t).p ]
      [] c.kind = "fi" ->
            [ as |-> [l \in 1..4 |-> ZEnc(FloatToInt(TyOf(c.t), a[l]))], fits |-> <<>>, lossless |-> FALSE ]
      [] c.kind = "ff" ->
            [ as |-> [l \in 1..4 |-> Enc(IF c.t = "f32" THEN Narrow(F32, a[l]) ELSE a[l])], fits |-> <<>>,
              lossless |-> c.t = "f64" ]

EncSrc(c) == IF c.kind \in {"ii", "if"} THEN [l \in 1..4 |-> ZEnc(SrcLanes(c)[l])] ELSE EncV(SrcLanes(c))

Init == ph = "call" /\ call \in Calls /\ res = <<>>
Next == ph = "call" /\ ph' = "ret" /\ res' = Eval(call) /\ UNCHANGED call
Spec == Init /\ [][Next]_vars

Emit == ph = "ret" =>
    PrintT(<<"CASE", ToJson([fam |-> "conv", kind |-> call.kind, s |-> call.s, t |-> call.t, src |-> EncSrc(call), exp |-> res])>>)

\* ---- theorems ------------------------------------------------------------------
ConvTheorems ==
    ph = "ret" =>
        LET a == SrcLanes(call) IN
        CASE call.kind = "ii" ->
                LET S == TyOf(call.s) T == TyOf(call.t) IN
                \A l \in 1..4 :
                    /\ InRange(T, a[l]) => Wrap(T, a[l]) = a[l]                  \* `as` is the identity on values that fit
                    /\ Wrap(S, Wrap(T, a[l])) = a[l] \/ T.w < S.w \/ ~InRange(T, a[l])   \* widening round trip
                    /\ res.lossless => InRange(T, a[l])
          [] call.kind = "fi" ->
                LET T == TyOf(call.t) IN
                \A l \in 1..4 : InRange(T, FloatToInt(T, a[l]))
          [] call.kind = "if" ->
                \* int -> float -> int returns the value whenever the conversion was exact
                \A l \in 1..4 : LET f == IntToFloat(Fmt(call.t), a[l]) IN
                    (res.lossless /\ ~IsOom(f)) => FloatToInt(TyOf(call.s), f) = a[l]
          [] OTHER -> TRUE

=============================================================================
