SPECIFICATION Spec
CONSTANT Tier = "quick"
CONSTANT Seed = 1
INVARIANT Emit
INVARIANT NeverPanics
CHECK_DEADLOCK FALSE
