------------------------------- MODULE MC_C09 -------------------------------
(***************************************************************************)
(* C09: rotation constructors and all 24 Euler orders, on the 45-degree    *)
(* grid where every matrix entry is an exact element of Z[sqrt2, 1/2].     *)
(* (Also the rotation cases C05 / C10 / C20 re-use.)                       *)
(***************************************************************************)
EXTENDS Rot, FiniteSets, Json

CONSTANTS Tier, Seed
VARIABLES ph, call, res
vars == <<ph, call, res>>
Quick == Tier = "quick"

\* eighth-turns, beyond +-pi and 2pi, and a few angles of many turns (8 to 125): the conventions do not depend on the number of turns
Ang == IF Quick THEN {-201, -5, -3, -2, -1, 0, 1, 2, 3, 4, 6, 9, 67} ELSE (-9..9) \cup {-1001, -201, -67, 67, 203, 998}
EAng == IF Quick THEN {-3, -2, 0, 1, 2, 3, 4} ELSE -3..4                       \* Euler angles: one full turn of the grid
Sel(a, b, c) == ~Quick \/ (a + 3 * b + 5 * c) % 3 = Seed % 3

Calls ==
         [kind : {"axis"}, ax : Axes, j : Ang, o : {<<>>}, ex : {FALSE}, a : {0}, b : {0}, c : {0}, v : {<<>>}]
    \cup [kind : {"axis_angle"}, ax : {"-"}, j : Ang, o : {<<>>}, ex : {FALSE}, a : {0}, b : {0}, c : {0}, v : LatticeAxes]
    \cup {x \in [kind : {"euler"}, ax : {"-"}, j : {0}, o : Orders3, ex : BOOLEAN, a : EAng, b : EAng, c : EAng, v : {<<>>}] : Sel(x.a, x.b, x.c)}
    \cup [kind : {"angle2"}, ax : {"-"}, j : Ang, o : {<<>>}, ex : {FALSE}, a : {0}, b : {0}, c : {0}, v : {<<>>}]
    \* to_euler near the singularity: relational (rebuild) with tolerance eps / distance
    \cup [kind : {"euler_near"}, ax : {"-"}, j : 1..6, o : Orders3, ex : BOOLEAN, a : {1, -2}, b : {0, 2, -2, 4}, c : {3}, v : {<<>>}]

Eval(c) ==
    CASE c.kind = "axis"       -> [m |-> RAxis(c.ax, c.j), sing |-> FALSE]
      [] c.kind = "axis_angle" -> [m |-> Rodrigues(c.v, c.j), sing |-> FALSE]
      [] c.kind = "euler"      -> [m |-> EulerMat(c.o, c.ex, c.a, c.b, c.c), sing |-> Singular(c.o, c.b)]
      [] c.kind = "angle2"     -> [m |-> Rot2(c.j), sing |-> FALSE]
      [] c.kind = "euler_near" -> [m |-> <<>>, sing |-> Singular(c.o, c.b)]

Init == ph = "call" /\ call \in Calls /\ res = <<>>
Next == ph = "call" /\ ph' = "ret" /\ res' = Eval(call) /\ UNCHANGED call
Spec == Init /\ [][Next]_vars

Emit == ph = "ret" =>
    PrintT(<<"CASE", ToJson([fam |-> "rot", kind |-> call.kind, ax |-> call.ax, j |-> call.j,
                             order |-> IF call.o = <<>> THEN "" ELSE OrderName(call.o, call.ex),
                             a |-> call.a, b |-> call.b, c |-> call.c, v |-> call.v, exp |-> res])>>)

\* ---- theorems: every constructed matrix is a proper rotation; right-hand rule; composition ----
RotTheorems ==
    ph = "ret" =>
        CASE call.kind \in {"axis", "axis_angle", "euler"} ->
                /\ IsRotation(res.m)
                /\ call.kind = "axis_angle" =>
                      /\ RMatVec(res.m, call.v) = call.v                               \* the axis is fixed
                      /\ Rodrigues(call.v, 0) = RIdent
                      /\ RMatMul(Rodrigues(call.v, call.j), Rodrigues(call.v, 1)) = Rodrigues(call.v, call.j + 1)
                      \* Rodrigues on a coordinate axis is the elemental rotation
                      /\ call.v = <<R0, R0, R1>> => res.m = Rz(call.j)
                      /\ call.v = <<R1, R0, R0>> => res.m = Rx(call.j)
                      /\ call.v = <<R0, R1, R0>> => res.m = Ry(call.j)
                /\ call.kind = "axis" =>
                      /\ RAxis(call.ax, call.j + 8) = res.m                             \* periodic
                      /\ RMatMul(res.m, RAxis(call.ax, -call.j)) = RIdent
                      \* matrix of the quarter-turn quaternion = the matrix of twice as many eighth-turns
                      /\ RMatOfQuat(QAxisQuarter(call.ax, call.j)) = RAxis(call.ax, 2 * call.j)
                      /\ RQNorm2(QAxisQuarter(call.ax, call.j)) = R1
                /\ call.kind = "euler" =>
                      \* an extrinsic sequence is the intrinsic sequence of the reversed name with reversed angles
                      /\ EulerMat(call.o, TRUE, call.a, call.b, call.c) = EulerMat(<<call.o[3], call.o[2], call.o[1]>>, FALSE, call.c, call.b, call.a)
          [] call.kind = "angle2" ->
                /\ RAdd(RMul(res.m[1], res.m[1]), RMul(res.m[2], res.m[2])) = R1       \* cos^2 + sin^2 = 1
          [] OTHER -> TRUE
RightHandRule ==
    /\ RMatVec(Rz(2), <<R1, R0, R0>>) = <<R0, R1, R0>>       \* a quarter turn about Z takes X to Y
    /\ RMatVec(Rx(2), <<R0, R1, R0>>) = <<R0, R0, R1>>       \* about X takes Y to Z
    /\ RMatVec(Ry(2), <<R0, R0, R1>>) = <<R1, R0, R0>>       \* about Y takes Z to X
    /\ \A j, k \in -3..4 : RMatMul(Rz(j), Rz(k)) = Rz(j + k) /\ RAdd(RMul(Cos8(j), Cos8(j)), RMul(Sin8(j), Sin8(j))) = R1
    /\ Cardinality(Orders3) = 12 /\ Cardinality(LatticeAxes) = 18
ASSUME RightHandRule

=============================================================================
