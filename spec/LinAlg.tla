------------------------------- MODULE LinAlg -------------------------------
(***************************************************************************)
(* Exact linear algebra over the integers (TLC's native integers; the      *)
(* model checker keeps entries small).  Matrices are N x N, flat and       *)
(* column-major like module Layout; vectors are sequences; quaternions are *)
(* <<x, y, z, w>>.  Everything is defined from the mathematical definition *)
(* (Leibniz determinant, adjugate by signed minors, Hamilton's relations,  *)
(* rotation as the sandwich q v conj(q)), not from glam formulas.           *)
(***************************************************************************)
EXTENDS Integers, Sequences, FiniteSets, TLC

E(N, m, r, c) == m[c * N + r + 1]                       \* entry, 0-based (row, column)
Mk(N, F(_, _)) == [k \in 1..(N * N) |-> F((k - 1) % N, (k - 1) \div N)]   \* F(r, c)

RECURSIVE SumTo(_, _)
SumTo(F(_), n) == IF n < 0 THEN 0 ELSE F(n) + SumTo(F, n - 1)        \* sum F(0..n)

Ident(N)          == Mk(N, LAMBDA r, c : IF r = c THEN 1 ELSE 0)
MatMul(N, A, B)   == Mk(N, LAMBDA r, c : SumTo(LAMBDA k : E(N, A, r, k) * E(N, B, k, c), N - 1))
MatT(N, A)        == Mk(N, LAMBDA r, c : E(N, A, c, r))
MatAdd(N, A, B)   == [k \in 1..(N * N) |-> A[k] + B[k]]
MatSub(N, A, B)   == [k \in 1..(N * N) |-> A[k] - B[k]]
MatNeg(N, A)      == [k \in 1..(N * N) |-> -A[k]]
MatScale(N, A, s) == [k \in 1..(N * N) |-> s * A[k]]
\* M * v as the linear combination of the columns with the components of v (column vectors)
ColOf(N, A, c)    == [r \in 1..N |-> A[c * N + r]]
MatVec(N, A, v)   == [r \in 1..N |-> SumTo(LAMBDA c : v[c + 1] * E(N, A, r - 1, c), N - 1)]
VecAdd(a, b)      == [i \in 1..Len(a) |-> a[i] + b[i]]
VecNeg(a)         == [i \in 1..Len(a) |-> -a[i]]

\* ---- determinant: Leibniz expansion over all permutations -------------------
Perms(N) == {p \in [1..N -> 1..N] : \A i, j \in 1..N : i # j => p[i] # p[j]}
Inversions(N, p) == Cardinality({<<i, j>> \in (1..N) \X (1..N) : i < j /\ p[i] > p[j]})
Sign(N, p) == IF Inversions(N, p) % 2 = 0 THEN 1 ELSE -1
RECURSIVE ProdTo(_, _)
ProdTo(F(_), n) == IF n < 1 THEN 1 ELSE F(n) * ProdTo(F, n - 1)      \* product F(1..n)
RECURSIVE SumSet(_, _)
SumSet(F(_), S) == IF S = {} THEN 0 ELSE LET x == CHOOSE y \in S : TRUE IN F(x) + SumSet(F, S \ {x})
\* the permutation tables are constants: compute them once
P2 == Perms(2)
P3 == Perms(3)
P4 == Perms(4)
PermsOf(N) == CASE N = 1 -> Perms(1) [] N = 2 -> P2 [] N = 3 -> P3 [] N = 4 -> P4
Det(N, A) == SumSet(LAMBDA p : Sign(N, p) * ProdTo(LAMBDA i : E(N, A, i - 1, p[i] - 1), N), PermsOf(N))

\* minor: delete row dr and column dc (0-based), as an (N-1) x (N-1) matrix
MinorRC(N, A, dr, dc) ==
    Mk(N - 1, LAMBDA r, c : E(N, A, IF r < dr THEN r ELSE r + 1, IF c < dc THEN c ELSE c + 1))
\* adjugate: transpose of the cofactor matrix
Adj(N, A) == Mk(N, LAMBDA r, c : (IF (r + c) % 2 = 0 THEN 1 ELSE -1) * Det(N - 1, MinorRC(N, A, c, r)))
\* cofactor expansion along the first column (an independent second definition)
DetCofactor(N, A) == SumTo(LAMBDA r : (IF r % 2 = 0 THEN 1 ELSE -1) * E(N, A, r, 0) * Det(N - 1, MinorRC(N, A, r, 0)), N - 1)

IsPow2(n) == n \in {1, 2, 4, 8, 16, 32, 64, 128, 256, 512, 1024}
Log2(n) == CHOOSE k \in 0..10 : 2 ^ k = n
AbsI(n) == IF n < 0 THEN -n ELSE n

\* ---- quaternions <<x, y, z, w>> : Hamilton's i^2 = j^2 = k^2 = ijk = -1 -----------
Hamilton(p, q) ==
    << p[4] * q[1] + p[1] * q[4] + p[2] * q[3] - p[3] * q[2],
       p[4] * q[2] - p[1] * q[3] + p[2] * q[4] + p[3] * q[1],
       p[4] * q[3] + p[1] * q[2] - p[2] * q[1] + p[3] * q[4],
       p[4] * q[4] - p[1] * q[1] - p[2] * q[2] - p[3] * q[3] >>
Conj(q)   == << -q[1], -q[2], -q[3], q[4] >>
QNorm2(q) == q[1] * q[1] + q[2] * q[2] + q[3] * q[3] + q[4] * q[4]
QDot(p, q) == p[1] * q[1] + p[2] * q[2] + p[3] * q[3] + p[4] * q[4]
\* |q|^2 times the rotation of v by q/|q| : the vector part of q (v, 0) q*
Sandwich(q, v) == LET r == Hamilton(Hamilton(q, <<v[1], v[2], v[3], 0>>), Conj(q)) IN <<r[1], r[2], r[3]>>
\* |q|^2 times the rotation matrix of q: columns are the images of the basis vectors
MatOfQuatScaled(q) ==
    LET cx == Sandwich(q, <<1, 0, 0>>) cy == Sandwich(q, <<0, 1, 0>>) cz == Sandwich(q, <<0, 0, 1>>)
    IN cx \o cy \o cz

Dot3(a, b)   == a[1] * b[1] + a[2] * b[2] + a[3] * b[3]
Cross3(a, b) == << a[2] * b[3] - a[3] * b[2], a[3] * b[1] - a[1] * b[3], a[1] * b[2] - a[2] * b[1] >>

=============================================================================
