------------------------------ MODULE MC_C18b -------------------------------
(***************************************************************************)
(* C18 (second half): the documented panics.  Slices are sequences of      *)
(* canary tokens; from_slice / write_to_slice / from_cols_slice /          *)
(* write_cols_to_slice read or write exactly the first N elements, panic   *)
(* iff the slice is shorter than N, and a panic leaves the destination     *)
(* untouched ("raised before any memory is touched").  Index / col / row / *)
(* minor functions panic iff the index is out of range.                    *)
(***************************************************************************)
EXTENDS Integers, Sequences, FiniteSets, Json, TLC
CONSTANT Tier
VARIABLES ph, call, res
vars == <<ph, call, res>>

\* element counts of the value classes
Classes == { <<"vec2", 2>>, <<"vec3", 3>>, <<"vec4", 4>>, <<"quat", 4>>, <<"mat2", 4>>, <<"mat3", 9>>, <<"mat4", 16>>, <<"aff2", 6>>, <<"aff3", 12>> }
Dim(cls) == CASE cls \in {"vec2", "mat2", "aff2"} -> 2 [] cls \in {"vec3", "mat3", "aff3"} -> 3 [] OTHER -> 4
Cols(cls) == CASE cls = "aff2" -> 3 [] cls = "aff3" -> 4 [] OTHER -> Dim(cls)
T(k) == "t" \o ToString(k)                   \* value lanes
C(k) == "t" \o ToString(16 + k)              \* canaries
Value(n) == [k \in 1..n |-> T(k)]
Canary(len) == [k \in 1..len |-> C(k)]

WriteToSlice(n, s) == IF Len(s) >= n THEN [outcome |-> "ok", slice |-> [k \in 1..Len(s) |-> IF k <= n THEN T(k) ELSE s[k]]]
                      ELSE [outcome |-> "panic", slice |-> s]
FromSlice(n, s) == IF Len(s) >= n THEN [outcome |-> "ok", slice |-> s, value |-> [k \in 1..n |-> s[k]]]
                   ELSE [outcome |-> "panic", slice |-> s, value |-> <<>>]
MaxIdx == 99   \* stands for usize::MAX

Calls ==
         UNION { [kind : {"write", "from"}, cls : {c[1]}, n : {c[2]}, len : 0..(c[2] + 4), idx : {0}, jdx : {0}] : c \in Classes }
    \cup UNION { [kind : {"index", "index_mut"}, cls : {c[1]}, n : {c[2]}, len : {0}, idx : (0..(c[2] + 2)) \cup {MaxIdx}, jdx : {0}] : c \in {x \in Classes : x[1] \in {"vec2", "vec3", "vec4"}} }
    \cup UNION { [kind : {"col", "col_mut", "row"}, cls : {c[1]}, n : {c[2]}, len : {0}, idx : (0..(Dim(c[1]) + 2)) \cup {MaxIdx}, jdx : {0}] : c \in {x \in Classes : x[1] \in {"mat2", "mat3", "mat4"}} }
    \cup [kind : {"minor"}, cls : {"mat3", "mat4"}, n : {0}, len : {0}, idx : (0..5) \cup {MaxIdx}, jdx : (0..5) \cup {MaxIdx}]

Eval(c) ==
    CASE c.kind = "write" -> WriteToSlice(c.n, Canary(c.len))
      [] c.kind = "from"  -> FromSlice(c.n, Canary(c.len))
      [] c.kind \in {"index", "index_mut"} -> [outcome |-> IF c.idx < c.n THEN "ok" ELSE "panic"]
      [] c.kind \in {"col", "col_mut"} -> [outcome |-> IF c.idx < Cols(c.cls) THEN "ok" ELSE "panic"]
      [] c.kind = "row" -> [outcome |-> IF c.idx < Dim(c.cls) THEN "ok" ELSE "panic"]
      [] c.kind = "minor" -> [outcome |-> IF c.idx < Dim(c.cls) /\ c.jdx < Dim(c.cls) THEN "ok" ELSE "panic"]

Init == ph = "call" /\ call \in Calls /\ res = <<>>
Next == ph = "call" /\ ph' = "ret" /\ res' = Eval(call) /\ UNCHANGED call
Spec == Init /\ [][Next]_vars
Emit == ph = "ret" => PrintT(<<"CASE", ToJson([fam |-> IF call.kind \in {"write", "from"} THEN "slice" ELSE "index", c |-> call,
                                                canary |-> Canary(call.len), exp |-> res])>>)
\* a panic never changes the destination; a successful write changes exactly the first n elements
SliceTheorems ==
    (ph = "ret" /\ call.kind = "write") =>
        /\ res.outcome = "panic" <=> call.len < call.n
        /\ res.outcome = "panic" => res.slice = Canary(call.len)
        /\ res.outcome = "ok" => \A k \in 1..call.len : (k > call.n => res.slice[k] = Canary(call.len)[k]) /\ (k <= call.n => res.slice[k] = T(k))
=============================================================================
