------------------------------- MODULE Layout -------------------------------
(***************************************************************************)
(* Storage conventions of matrices and affine transforms (C06).            *)
(* A matrix of shape (R, C) is its flat column-major listing of R*C        *)
(* entries: entry (r, c) (0-based) is at flat index c*R + r + 1.           *)
(* Affine2 is the shape (2, 3), Affine3 the shape (3, 4): linear columns   *)
(* first, translation last.                                                *)
(***************************************************************************)
EXTENDS Integers, Sequences, FiniteSets, TLC

Flat(R, r, c) == c * R + r + 1
Entry(R, m, r, c) == m[Flat(R, r, c)]
Col(R, m, c) == [r \in 1..R |-> m[c * R + r]]               \* column c (0-based)
Row(R, C, m, r) == [c \in 1..C |-> m[(c - 1) * R + r + 1]]  \* row r (0-based)
\* listing the entries row by row (= the flat listing of the transpose)
RowMajor(R, C, m) == [k \in 1..(R * C) |-> m[((k - 1) % C) * R + ((k - 1) \div C) + 1]]
Transpose(R, C, m) == RowMajor(R, C, m)                      \* as a (C, R) column-major matrix
Diagonal(N, d, zero) == [k \in 1..(N * N) |-> IF (k - 1) % N = (k - 1) \div N THEN d[((k - 1) % N) + 1] ELSE zero]
\* the minor of a K x K matrix: drop column i and row j (0-based)
Minor(K, m, i, j) ==
    [k \in 1..((K - 1) * (K - 1)) |->
        LET c == (k - 1) \div (K - 1)
            r == (k - 1) % (K - 1)
            sc == IF c < i THEN c ELSE c + 1
            sr == IF r < j THEN r ELSE r + 1
        IN m[Flat(K, sr, sc)]]
\* top-left (R2, C2) block of an (R, C) matrix
Block(R, m, R2, C2) == [k \in 1..(R2 * C2) |-> m[Flat(R, (k - 1) % R2, (k - 1) \div R2)]]
\* embed an (R, C) matrix into a larger (R2, C2) one, filling with the identity pattern
Embed(R, C, m, R2, C2, zero, one) ==
    [k \in 1..(R2 * C2) |->
        LET c == (k - 1) \div R2
            r == (k - 1) % R2
        IN IF r < R /\ c < C THEN m[Flat(R, r, c)] ELSE IF r = c THEN one ELSE zero]

\* theorems (checked by TLC on token matrices)
TransposeInvolution(R, C, m) == Transpose(C, R, Transpose(R, C, m)) = m
ColRowAgree(R, C, m) == \A r \in 0..(R - 1), c \in 0..(C - 1) : Col(R, m, c)[r + 1] = Row(R, C, m, r)[c + 1]

=============================================================================
