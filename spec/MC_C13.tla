------------------------------- MODULE MC_C13 -------------------------------
(***************************************************************************)
(* C13: integer vectors are the lane-wise lift of Rust's integer           *)
(* primitives.  Call/return machine as in MC_C01: an initial state is a    *)
(* pending call on operand vectors drawn from the type's lattice (all 256  *)
(* values for the 8-bit types, the boundary lattice for wider ones), the   *)
(* transition returns the outcome in both build profiles.                  *)
(***************************************************************************)
EXTENDS IntLane, Lanes, Json, TLC, SequencesExt

CONSTANTS Tier, Seed, Only       \* Only = "all" | "cmp" (C15 re-uses the comparison calls alone)
VARIABLES ph, call, res
vars == <<ph, call, res>>

Widths == {8, 16, 32, 64}
Types  == {Ty(w, s) : w \in Widths, s \in BOOLEAN}
TyName(T) == (IF T.sg THEN "i" ELSE "u") \o ToString(T.w)

\* ---- lattices -----------------------------------------------------------------
PadTo4(S) == LET r == Len(S) % 4 IN IF r = 0 THEN S ELSE S \o [i \in 1..(4 - r) |-> S[i + 1]]
\* boundary lattice of a type: extremes, small values, square-root boundary (mul overflow),
\* powers of two and their neighbours
Bnd(T) ==
    LET h == T.w \div 2
        P(k) == ZPow2(k) IN
    IF T.sg THEN PadTo4(<< TMin(T), ZAdd(TMin(T), Z1), ZNeg(P(h)), ZSub(ZNeg(P(h)), Z1), ZOf(-3), ZOf(-2), ZM1,
                           Z0, Z1, ZOf(2), ZOf(3), ZSub(P(h), Z1), P(h), ZAdd(P(h), Z1),
                           ZSub(P(h - 1), Z1), P(T.w - 2), ZSub(TMax(T), Z1), TMax(T), ZOf(7), ZOf(-7) >>)
    ELSE PadTo4(<< Z0, Z1, ZOf(2), ZOf(3), ZSub(P(h), Z1), P(h), ZAdd(P(h), Z1), ZOf(7),
                   ZSub(P(T.w - 1), Z1), P(T.w - 1), ZAdd(P(T.w - 1), Z1), ZSub(TMax(T), Z1), TMax(T),
                   ZSub(P(h - 1), Z1), P(T.w - 2), ZOf(5) >>)
\* all values of an 8-bit type
All8(T) == IF T.sg THEN [i \in 1..256 |-> ZOf(i - 129)] ELSE [i \in 1..256 |-> ZOf(i - 1)]
\* boundary lattice (plus 24 seeded values for 8 bits); exhaustive for 8 bits in the thorough tier for the
\* element-wise kinds (unary, binary, vector-scalar, mixed signedness): all 256 x 256 operand pairs
LatB(T) == IF T.w = 8 THEN PadTo4(Bnd(T) \o [i \in 1..24 |-> All8(T)[((i * 37 + Seed * 11) % 256) + 1]]) ELSE Bnd(T)
XKinds == {"u", "b", "vs", "sv", "m"}
Lat(T, kd) == IF T.w = 8 /\ Tier = "thorough" /\ kd \in XKinds THEN All8(T) ELSE LatB(T)
NL(T, kd) == Len(Lat(T, kd))
W1(i, n) == ((i - 1) % n) + 1
Lead4(n) == {i \in 1..n : i % 4 = 1}

VA(T, kd, i)  == [l \in 1..4 |-> Lat(T, kd)[W1(i + l - 1, NL(T, kd))]]
VB(T, kd, j)  == [l \in 1..4 |-> Lat(T, kd)[W1(j + 3 * (l - 1), NL(T, kd))]]
VC(T, kd, k)  == [l \in 1..4 |-> Lat(T, kd)[W1(k + 5 * (l - 1), NL(T, kd))]]
\* operand of the other signedness (mixed operations)
Other(T) == Ty(T.w, ~T.sg)
VO(T, kd, j)  == [l \in 1..4 |-> Lat(Other(T), kd)[W1(j + 3 * (l - 1), NL(Other(T), kd))]]

\* shift counts: in range, at and beyond the width, negative, large
Counts(T) == << Z0, Z1, ZOf(T.w - 1), ZOf(T.w), ZOf(T.w + 1), ZOf(2 * T.w), ZM1, ZOf(7), ZOf(3), ZOf(127),
                ZOf(-128), ZOf(255), ZOf(65), ZOf(33) >>

UnOps(T)  == IF T.sg THEN {"neg", "not", "abs", "signum"} ELSE {"not"}
BinOps    == {"add", "sub", "mul", "div", "rem", "min", "max", "bitand", "bitor", "bitxor",
              "div_euclid", "rem_euclid", "checked_add", "checked_sub", "checked_mul", "checked_div",
              "wrapping_add", "wrapping_sub", "wrapping_mul", "wrapping_div",
              "saturating_add", "saturating_sub", "saturating_mul", "saturating_div"}
CmpOps    == {"cmpeq", "cmpne", "cmplt", "cmple", "cmpgt", "cmpge"}
ScalarOps == {"add", "sub", "mul", "div", "rem"}
ScalarBitOps == {"bitand", "bitor", "bitxor"}
Red1Fold == {"element_sum", "element_product", "length_squared"}
Red1Ext  == {"min_element", "max_element", "min_position", "max_position"}
Perm4 == SetToSeq({p \in [1..4 -> 1..4] : \A x, y \in 1..4 : x # y => p[x] # p[y]})
Pat(p, x, y) == CASE p = 25 -> <<x, y, y, x>> [] p = 26 -> <<y, x, x, x>> [] p = 27 -> <<y, y, x, y>> [] p = 28 -> <<y, y, y, x>>
Red2 == {"dot", "distance_squared", "manhattan_distance", "checked_manhattan_distance", "chebyshev_distance"}

\* the calls of a type, as a sequence of sets: Init draws from each separately (their union would exceed
\* the size TLC is willing to build as one explicit set in the thorough tier)
CallParts(T) == <<
    [t : {T}, kind : {"u"},  op : UnOps(T), i : 1..NL(T, "u"), j : {0}, k : {0}],
    [t : {T}, kind : {"b"},  op : BinOps \cup CmpOps, i : Lead4(NL(T, "b")), j : 1..NL(T, "b"), k : {0}],
    [t : {T}, kind : {"vs"}, op : ScalarOps \cup ScalarBitOps, i : Lead4(NL(T, "vs")), j : 1..NL(T, "vs"), k : {0}],
    [t : {T}, kind : {"sv"}, op : ScalarOps, i : Lead4(NL(T, "sv")), j : 1..NL(T, "sv"), k : {0}],
    [t : {T}, kind : {"m"},  op : MixedOps(T), i : Lead4(NL(T, "m")), j : 1..NL(Other(T), "m"), k : {0}],
    [t : {T}, kind : {"sh"}, op : {"shl", "shr"}, i : Lead4(NL(T, "sh")), j : 1..Len(Counts(T)), k : {0}],
    [t : {T}, kind : {"shv"}, op : {"shl", "shr"}, i : Lead4(NL(T, "shv")), j : 1..Len(Counts(T)), k : {0}],
    [t : {T}, kind : {"t"},  op : {"clamp"}, i : Lead4(NL(T, "t")), j : Lead4(NL(T, "t")), k : Lead4(NL(T, "t"))],
    [t : {T}, kind : {"r1"}, op : Red1Fold, i : 1..NL(T, "r1"), j : {0}, k : {1}],
    [t : {T}, kind : {"r1"}, op : Red1Ext, i : Lead4(NL(T, "r1")), j : {0}, k : 1..24],           \* every ordering of 4 values
    [t : {T}, kind : {"r1"}, op : Red1Ext, i : 1..NL(T, "r1"), j : Lead4(NL(T, "r1")), k : 25..28],  \* tie patterns
    [t : {T}, kind : {"r2"}, op : Red2, i : 1..NL(T, "r2"), j : Lead4(NL(T, "r2")), k : {0}],
    \* placed extremes: lane i runs over the whole range (MIN vs MAX), lane j differs by one (k = 0, 2) or not at all (k = 1: the sum is
    \* exactly the unsigned maximum), one more lane differs by one (k = 2), the others are equal -- the running sum of a distance
    \* overflows exactly at a chosen lane, whatever the order of the two
    [t : {T}, kind : {"r2p"}, op : Red2, i : 1..4, j : 1..4, k : 0..2],
    [t : {T}, kind : {"x"},  op : {"cross"}, i : 1..NL(T, "x"), j : Lead4(NL(T, "x")), k : {0}],
    [t : {T}, kind : {"f"},  op : {"sum", "product"}, i : Lead4(NL(T, "f")), j : Lead4(NL(T, "f")), k : 0..3] >>
CmpPart(T) == [t : {T}, kind : {"b"}, op : CmpOps, i : Lead4(NL(T, "b")), j : 1..NL(T, "b"), k : {0}]
InCalls(c) == IF Only = "cmp" THEN \E T \in Types : c \in CmpPart(T)
              ELSE /\ \E T \in Types : \E n \in 1..15 : c \in CallParts(T)[n]
                   /\ (c.kind = "r2p" => c.i # c.j)

Args(c) ==
    LET T == c.t IN
    CASE c.kind = "u" -> <<VA(T, c.kind, c.i)>>
      [] c.kind = "r1" -> IF c.k <= 24 THEN <<[l \in 1..4 |-> VA(T, c.kind, c.i)[Perm4[c.k][l]]]>>
                          ELSE <<Pat(c.k, Lat(T, c.kind)[c.i], Lat(T, c.kind)[c.j])>>
      [] c.kind \in {"b", "r2", "x"} -> <<VA(T, c.kind, c.i), VB(T, c.kind, c.j)>>
      [] c.kind = "r2p" ->
            LET third == CHOOSE l \in 1..4 : l # c.i /\ l # c.j /\ \A m \in 1..4 : (m # c.i /\ m # c.j) => l <= m IN
            << [l \in 1..4 |-> IF l = c.i THEN TMin(T) ELSE ZOf(7)],
               [l \in 1..4 |-> IF l = c.i THEN TMax(T)
                                ELSE IF l = c.j THEN (IF c.k = 1 THEN ZOf(7) ELSE ZOf(8))
                                ELSE IF l = third /\ c.k = 2 THEN ZOf(6) ELSE ZOf(7)] >>
      [] c.kind = "vs" -> <<VA(T, c.kind, c.i), Lat(T, c.kind)[c.j]>>
      [] c.kind = "sv" -> <<Lat(T, c.kind)[c.j], VA(T, c.kind, c.i)>>
      [] c.kind = "m"  -> <<VA(T, c.kind, c.i), VO(T, c.kind, c.j)>>
      [] c.kind = "sh" -> <<VA(T, c.kind, c.i), Counts(T)[c.j]>>
      [] c.kind = "shv" -> <<VA(T, c.kind, c.i), [l \in 1..4 |-> Counts(T)[W1(c.j + l - 1, Len(Counts(T)))]]>>
      [] c.kind = "t"  -> <<VA(T, c.kind, c.i), VB(T, c.kind, c.j), VC(T, c.kind, c.k)>>
      [] c.kind = "f"  -> <<[n \in 1..c.k |-> IF n = 1 THEN VA(T, c.kind, c.i) ELSE IF n = 2 THEN VB(T, c.kind, c.j) ELSE VA(T, c.kind, c.j)]>>

PerN(E(_)) == [n2 |-> E(2), n3 |-> E(3), n4 |-> E(4)]
Prof(E(_)) == [dbg |-> E("dbg"), rel |-> E("rel")]

\* fold a sequence of vectors lane-wise with the overflow rule of + or *
FoldVecs(T, p, F(_, _), id, vs) ==
    [l \in 1..4 |-> ChainFrom(T, p, F, Val(id), [n \in 1..Len(vs) |-> Val(vs[n][l])], 1)]

\* per-lane outcomes (the harness combines the lanes it selects with the VecOut rule:
\* panic if some lane panics, else None if some lane is None)
LanesOut(lanes) == [i \in 1..Len(lanes) |-> [k |-> lanes[i].k, v |-> IF lanes[i].k = "val" THEN ZEnc(lanes[i].v) ELSE <<>>]]

Eval(c) ==
    LET T == c.t
        a == Args(c) IN
    CASE c.kind = "u"  -> Prof(LAMBDA p : LanesOut([l \in 1..4 |-> Lane1(T, p, c.op, a[1][l])]))
      [] c.kind = "b"  -> Prof(LAMBDA p : LanesOut([l \in 1..4 |-> Lane2(T, p, c.op, a[1][l], a[2][l])]))
      [] c.kind = "vs" -> Prof(LAMBDA p : LanesOut([l \in 1..4 |-> Lane2(T, p, c.op, a[1][l], a[2])]))
      [] c.kind = "sv" -> Prof(LAMBDA p : LanesOut([l \in 1..4 |-> Lane2(T, p, c.op, a[1], a[2][l])]))
      [] c.kind = "m"  -> Prof(LAMBDA p : LanesOut([l \in 1..4 |-> LaneMixed(T, c.op, a[1][l], a[2][l])]))
      [] c.kind = "sh" -> Prof(LAMBDA p : LanesOut([l \in 1..4 |-> Shift(T, p, c.op, a[1][l], a[2])]))
      [] c.kind = "shv" -> Prof(LAMBDA p : LanesOut([l \in 1..4 |-> Shift(T, p, c.op, a[1][l], a[2][l])]))
      [] c.kind = "t"  -> Prof(LAMBDA p : LanesOut([l \in 1..4 |-> Clamp(a[1][l], a[2][l], a[3][l])]))
      [] c.kind = "r1" -> Prof(LAMBDA p : PerN(LAMBDA n : LET v == Take(a[1], n) IN
              CASE c.op = "element_sum"     -> ScalarOut(ElementSum(T, p, v))
                [] c.op = "element_product" -> ScalarOut(ElementProduct(T, p, v))
                [] c.op = "length_squared"  -> ScalarOut(LengthSquared(T, p, v))
                [] c.op = "min_element"     -> ScalarOut(Val(v[MinPos(v) + 1]))
                [] c.op = "max_element"     -> ScalarOut(Val(v[MaxPos(v) + 1]))
                [] c.op = "min_position"    -> ScalarOut(Val(ZOf(MinPos(v))))
                [] c.op = "max_position"    -> ScalarOut(Val(ZOf(MaxPos(v))))))
      [] c.kind \in {"r2", "r2p"} -> Prof(LAMBDA p : PerN(LAMBDA n : LET v == Take(a[1], n) w == Take(a[2], n) IN
              CASE c.op = "dot"                -> ScalarOut(Dot(T, p, v, w))
                [] c.op = "distance_squared"   -> ScalarOut(DistanceSquared(T, p, v, w))
                [] c.op = "manhattan_distance" -> ScalarOut(Manhattan(T, p, v, w))
                [] c.op = "checked_manhattan_distance" -> ScalarOut(CheckedManhattan(T, v, w))
                [] c.op = "chebyshev_distance" -> ScalarOut(Chebyshev(v, w))))
      [] c.kind = "x"  -> Prof(LAMBDA p : VecOut(Cross(T, p, Take(a[1], 3), Take(a[2], 3))))
      [] c.kind = "f"  -> Prof(LAMBDA p : LanesOut(IF c.op = "sum" THEN FoldVecs(T, p, ZAdd, Z0, a[1])
                                                 ELSE FoldVecs(T, p, ZMul, Z1, a[1])))

EncV(v) == [i \in 1..Len(v) |-> ZEnc(v[i])]
EncArgs(c) ==
    LET a == Args(c) IN
    CASE c.kind \in {"u", "r1"} -> <<EncV(a[1])>>
      [] c.kind \in {"b", "r2", "r2p", "x", "m", "shv"} -> <<EncV(a[1]), EncV(a[2])>>
      [] c.kind \in {"vs", "sh"} -> <<EncV(a[1]), ZEnc(a[2])>>
      [] c.kind = "sv" -> <<ZEnc(a[1]), EncV(a[2])>>
      [] c.kind = "t"  -> <<EncV(a[1]), EncV(a[2]), EncV(a[3])>>
      [] c.kind = "f"  -> <<[n \in 1..Len(a[1]) |-> EncV(a[1][n])]>>

Init == ph = "call" /\ InCalls(call) /\ res = <<>>
Return == ph = "call" /\ ph' = "ret" /\ res' = Eval(call) /\ UNCHANGED call
Next == Return
Spec == Init /\ [][Next]_vars

Emit == ph = "ret" =>
    PrintT(<<"CASE", ToJson([fam |-> "int", ty |-> TyName(call.t), kind |-> IF call.kind = "r2p" THEN "r2" ELSE call.kind, op |-> call.op,
                             args |-> EncArgs(call), exp |-> res])>>)

\* ---- theorems about the integer model, checked on every returned binary state ----
Outs(c, p) == [l \in 1..4 |-> Lane2(c.t, p, c.op, Args(c)[1][l], Args(c)[2][l])]
\* checked = Some(v)  =>  wrapping = saturating = plain = v ;  checked = None <=> exact result out of range
CheckedAgrees ==
    (ph = "ret" /\ call.kind = "b" /\ call.op \in {"checked_add", "checked_sub", "checked_mul"}) =>
        LET T == call.t
            a == Args(call)
            base == CASE call.op = "checked_add" -> "add" [] call.op = "checked_sub" -> "sub" [] OTHER -> "mul" IN
        \A l \in 1..4 :
            LET ck == Lane2(T, "dbg", call.op, a[1][l], a[2][l])
                wr == Lane2(T, "dbg", "wrapping_" \o base, a[1][l], a[2][l])
                st == Lane2(T, "dbg", "saturating_" \o base, a[1][l], a[2][l])
                pd == Lane2(T, "dbg", base, a[1][l], a[2][l])
                pr == Lane2(T, "rel", base, a[1][l], a[2][l]) IN
            /\ ck.k = "val" => (wr = ck /\ st = ck /\ pd = ck /\ pr = ck)
            /\ ck.k = "none" <=> pd.k = "panic"
            /\ pr = wr                                         \* release arithmetic is wrapping
            /\ InRange(T, wr.v) /\ InRange(T, st.v)
\* division identity: x = (x / y) * y + x % y, |x % y| < |y|, sign(x % y) = sign(x)
DivIdentity ==
    (ph = "ret" /\ call.kind = "b" /\ call.op = "div") =>
        LET T == call.t  a == Args(call) IN
        \A l \in 1..4 :
            LET q == Lane2(T, "dbg", "div", a[1][l], a[2][l])
                r == Lane2(T, "dbg", "rem", a[1][l], a[2][l])
                e == Lane2(T, "dbg", "rem_euclid", a[1][l], a[2][l])
                d == Lane2(T, "dbg", "div_euclid", a[1][l], a[2][l]) IN
            q.k = "val" =>
              /\ ZAdd(ZMul(q.v, a[2][l]), r.v) = a[1][l]
              /\ ZLt(ZAbs(r.v), ZAbs(a[2][l]))
              /\ (r.v = Z0 \/ ZIsNeg(r.v) = ZIsNeg(a[1][l]))
              /\ ~ZIsNeg(e.v) /\ ZLt(e.v, ZAbs(a[2][l]))
              /\ ZAdd(ZMul(d.v, a[2][l]), e.v) = a[1][l]
\* Wrap is a ring homomorphism Z -> Z/2^w
WrapHom ==
    (ph = "ret" /\ call.kind = "b" /\ call.op = "wrapping_mul") =>
        LET T == call.t  a == Args(call) IN
        \A l \in 1..4 :
            /\ Wrap(T, ZMul(Wrap(T, ZAdd(a[1][l], a[2][l])), a[2][l]))
                 = Wrap(T, ZAdd(ZMul(a[1][l], a[2][l]), ZMul(a[2][l], a[2][l])))
            /\ Wrap(T, Wrap(T, a[1][l])) = Wrap(T, a[1][l])
\* De Morgan on the bit operations
DeMorgan ==
    (ph = "ret" /\ call.kind = "b" /\ call.op = "bitand") =>
        LET T == call.t  a == Args(call)
            N(x) == Lane1(T, "dbg", "not", x).v IN
        \A l \in 1..4 :
            N(Lane2(T, "dbg", "bitand", a[1][l], a[2][l]).v) = Lane2(T, "dbg", "bitor", N(a[1][l]), N(a[2][l])).v

=============================================================================
