------------------------------ MODULE MC_C06m -------------------------------
(* C06/C05 data-movement calls between matrix shapes: minors, blocks, embeddings. *)
EXTENDS Layout, Json
CONSTANT Tier
VARIABLES ph, call, res
vars == <<ph, call, res>>
T(k) == "t" \o ToString(k)
Distinct(n) == [k \in 1..n |-> T(k)]
Calls ==
         [kind : {"minor"}, k : {3, 4}, i : 0..3, j : 0..3]
    \cup [kind : {"block"}, k : {3, 4}, i : {0}, j : {0}]      \* from_mat3 (2x2 block) / from_mat4 (3x3 block)
    \cup [kind : {"embed"}, k : {2, 3}, i : {0}, j : {0}]      \* from_mat2 (into 3x3) / from_mat3 (into 4x4)
    \cup [kind : {"affine_to_mat"}, k : {2, 3}, i : {0}, j : {0}]   \* Affine2 -> Mat3, Affine3 -> Mat4
    \cup [kind : {"mat_to_affine"}, k : {2, 3}, i : {0}, j : {0}]   \* Mat3 -> Affine2, Mat4 -> Affine3 (last row dropped)
Valid(c) == c.kind = "minor" => (c.i < c.k /\ c.j < c.k)
Src(c) == CASE c.kind \in {"minor", "block"} -> Distinct(c.k * c.k)
            [] c.kind = "embed" -> Distinct(c.k * c.k)
            [] c.kind = "affine_to_mat" -> Distinct(c.k * (c.k + 1))
            [] c.kind = "mat_to_affine" -> Distinct((c.k + 1) * (c.k + 1))
Eval(c) == CASE c.kind = "minor" -> Minor(c.k, Src(c), c.i, c.j)
             [] c.kind = "block" -> Block(c.k, Src(c), c.k - 1, c.k - 1)
             [] c.kind = "embed" -> Embed(c.k, c.k, Src(c), c.k + 1, c.k + 1, "zero", "one")
             [] c.kind = "affine_to_mat" -> Embed(c.k, c.k + 1, Src(c), c.k + 1, c.k + 1, "zero", "one")
             [] c.kind = "mat_to_affine" -> Block(c.k + 1, Src(c), c.k, c.k + 1)
Init == ph = "call" /\ call \in {c \in Calls : Valid(c)} /\ res = <<>>
Next == ph = "call" /\ ph' = "ret" /\ res' = Eval(call) /\ UNCHANGED call
Spec == Init /\ [][Next]_vars
Emit == ph = "ret" => PrintT(<<"CASE", ToJson([fam |-> "matmove", kind |-> call.kind, k |-> call.k, i |-> call.i, j |-> call.j,
                                                src |-> Src(call), exp |-> res])>>)
\* a minor keeps exactly the entries outside column i and row j, in order
MinorTheorem == (ph = "ret" /\ call.kind = "minor") =>
    LET K == call.k IN
    /\ Len(res) = (K - 1) * (K - 1)
    /\ \A r \in 0..(K - 1), c \in 0..(K - 1) :
          (r # call.j /\ c # call.i) <=> (\E x \in 1..Len(res) : res[x] = Entry(K, Src(call), r, c))
\* affine -> matrix -> affine is the identity
AffineRoundTrip == (ph = "ret" /\ call.kind = "affine_to_mat") =>
    Block(call.k + 1, res, call.k, call.k + 1) = Src(call)
=============================================================================
