SPECIFICATION Spec
CONSTANT Tier = "quick"
CONSTANT Seed = 1
CONSTANT Only = "all"
INVARIANT Emit
INVARIANT CheckedAgrees
INVARIANT DivIdentity
INVARIANT WrapHom
INVARIANT DeMorgan
CHECK_DEADLOCK FALSE
