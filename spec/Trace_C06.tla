----------------------------- MODULE Trace_C06 ------------------------------
(***************************************************************************)
(* Trace validation (code -> specification) of the matrix / affine access  *)
(* machine of C06.  The harness (`rec macc`) drives every matrix and affine*)
(* type through a random history of constructors, entry writes (col_mut,   *)
(* AsMut, axis fields) and reads (to_cols_array(_2d), write_cols_to_slice, *)
(* AsRef, col, row, axis fields, transpose) over random bit patterns.      *)
(* Each logged call is one action of the register machine of MC_C06 with   *)
(* its arguments bound; what a read observes must be Obs(path, m): the     *)
(* column-major listing, or the row-major one for `rows` / `transpose`.    *)
(***************************************************************************)
EXTENDS MC_C06, IOUtils
Rec == ndJsonDeserialize(IOEnv.TRACE)
VARIABLE l
tvars == <<shape, m0, m, hist, l>>
Ev1 == Rec[l]

Begin ==
    /\ Ev1.op = "begin"
    /\ <<Ev1.r, Ev1.c>> \in Shapes
    /\ shape' = <<Ev1.r, Ev1.c>> /\ m' = Ev1.obs /\ m0' = Ev1.obs /\ Len(Ev1.obs) = Ev1.r * Ev1.c
    /\ UNCHANGED hist
TraceConstruct ==
    /\ Ev1.op = "ctor" /\ Ev1.path \in CtorPaths
    /\ Len(Ev1.vals) = R * C
    /\ ConstructM(Ev1.vals) /\ m' = Ev1.obs                            \* from_cols* list column 0 first
    /\ UNCHANGED <<shape, m0, hist>>
TraceWrite ==
    /\ Ev1.op = "write" /\ Ev1.path \in WritePaths
    /\ Ev1.r \in 0..(R - 1) /\ Ev1.c \in 0..(C - 1)
    /\ WriteM(Ev1.r, Ev1.c, Ev1.val) /\ m' = Ev1.obs                   \* exactly the entry at row r, column c changed
    /\ UNCHANGED <<shape, m0, hist>>
TraceRead ==
    /\ Ev1.op = "read" /\ Ev1.path \in ReadPaths
    /\ Ev1.path \in {"rows", "transpose"} => (Ev1.path = "rows" \/ Square)
    /\ Ev1.obs = Obs(Ev1.path, m)
    /\ UNCHANGED <<shape, m0, m, hist>>

TraceInit == l = 1 /\ shape = <<2, 2>> /\ m = <<"-", "-", "-", "-">> /\ m0 = m /\ hist = <<>>
TraceNext == /\ l <= Len(Rec)
             /\ (Begin \/ TraceConstruct \/ TraceWrite \/ TraceRead)
             /\ l' = l + 1
TraceSpec == TraceInit /\ [][TraceNext]_tvars
Accepted ==
    IF TLCGet("stats").diameter = Len(Rec) + 1 THEN TRUE
    ELSE /\ PrintT(<<"TRACE-REJECTED", "matched", TLCGet("stats").diameter - 1, "of", Len(Rec)>>)
         /\ PrintT(<<"FIRST-REJECTED-EVENT", ToJson(Rec[TLCGet("stats").diameter])>>)
         /\ FALSE
=============================================================================
