------------------------------- MODULE MC_C15 -------------------------------
(***************************************************************************)
(* C15: the mask algebra as a register machine over N boolean lanes, and   *)
(* select.  Every mutating action is followed by the full observation      *)
(* (bitmask, any, all, test(i), ==, array conversions, Debug/Display,      *)
(* Hash), all of which must be functions of the N lanes only.              *)
(***************************************************************************)
EXTENDS Integers, Sequences, FiniteSets, Lanes, Json, TLC

CONSTANTS Tier, MaxHist
VARIABLES n, m0, m, hist
vars == <<n, m0, m, hist>>

Masks(k) == [1..k -> BOOLEAN]
BinOps == {"and", "or", "xor", "and_assign", "or_assign", "xor_assign"}
Ctors == {"new", "splat", "from_array", "from_trait", "free_fn"}

Apply2(op, a, b) == CASE op \in {"and", "and_assign"} -> MAnd(a, b)
                      [] op \in {"or", "or_assign"}   -> MOr(a, b)
                      [] op \in {"xor", "xor_assign"} -> MXor(a, b)

\* what every read path must report for a mask value
BoolStr(b) == IF b THEN "true" ELSE "false"
HexStr(b)  == IF b THEN "0xffffffff" ELSE "0x0"
RECURSIVE Join(_, _, _)
Join(F(_), s, i) == IF i > Len(s) THEN "" ELSE (IF i > 1 THEN ", " ELSE "") \o F(s[i]) \o Join(F, s, i + 1)
Observation(v) ==
    [ lanes |-> v, bitmask |-> Bitmask(v), any |-> MAny(v), all |-> MAll(v),
      u32 |-> [i \in 1..Len(v) |-> IF v[i] THEN 1 ELSE 0],        \* 1 stands for 0xffff_ffff
      display |-> "[" \o Join(BoolStr, v, 1) \o "]",
      debug_args |-> "(" \o Join(HexStr, v, 1) \o ")" ]             \* after the type name

Ev(act, op, arg, idx, post) == [act |-> act, op |-> op, arg |-> arg, idx |-> idx, obs |-> Observation(post)]

\* the effect of each action on the mask register alone (also the actions of the trace specification Trace_C15.tla)
MaskCtor(p, v) == /\ p \in Ctors /\ Len(v) = n /\ (p = "splat" => \A i \in 1..n : v[i] = v[1])
                  /\ m' = v
MaskNot == m' = MNot(m)
MaskBin(op, b) == /\ op \in BinOps /\ Len(b) = n
                  /\ m' = Apply2(op, m, b)
MaskSet(i, val) == /\ i \in 1..n
                   /\ m' = [m EXCEPT ![i] = val]

Construct(p, v) == /\ MaskCtor(p, v)
                   /\ hist' = Append(hist, Ev("ctor", p, v, 0, v))
                   /\ UNCHANGED <<n, m0>>
Not == /\ MaskNot
       /\ hist' = Append(hist, Ev("not", "not", m, 0, MNot(m)))
       /\ UNCHANGED <<n, m0>>
Bin(op, b) == /\ MaskBin(op, b)
              /\ hist' = Append(hist, Ev("bin", op, b, 0, Apply2(op, m, b)))
              /\ UNCHANGED <<n, m0>>
Set(i, val) == LET v == [m EXCEPT ![i] = val] IN
               /\ MaskSet(i, val)
               /\ hist' = Append(hist, Ev("set", "set", <<val>>, i - 1, v))
               /\ UNCHANGED <<n, m0>>
\* invalid index: test / set must panic and leave the mask unchanged
BadIndex(op, i) == /\ hist' = Append(hist, [act |-> "badindex", op |-> op, arg |-> <<>>, idx |-> i, obs |-> Observation(m)])
                   /\ UNCHANGED <<n, m0, m>>

Init == /\ n \in 2..4
        /\ m \in (IF Tier = "quick" THEN {[i \in 1..n |-> TRUE], [i \in 1..n |-> i % 2 = 0]} ELSE Masks(n))
        /\ m0 = m
        /\ hist = <<>>

Next == /\ Len(hist) < MaxHist
        /\ \/ hist = <<>> /\ \E p \in Ctors, v \in Masks(n) : Construct(p, v)      \* constructors only as a first step
           \/ Not
           \/ \E op \in BinOps, b \in Masks(n) : Bin(op, b)
           \/ \E i \in 1..n, val \in BOOLEAN : Set(i, val)
           \/ \E op \in {"test", "set"}, i \in {n, n + 1, n + 2, -1} : BadIndex(op, i)    \* -1 stands for usize::MAX

Spec == Init /\ [][Next]_vars

Emit == Len(hist) = MaxHist =>
    PrintT(<<"CASE", ToJson([fam |-> "mask", n |-> n, init |-> m0, steps |-> hist])>>)

\* ---- boolean algebra theorems on the machine's state ----------------------------
Algebra ==
    /\ MNot(MNot(m)) = m
    /\ MAll(m) <=> Bitmask(m) = 2 ^ n - 1
    /\ MAny(m) <=> Bitmask(m) # 0
    /\ \A b \in Masks(n) :
          /\ MNot(MAnd(m, b)) = MOr(MNot(m), MNot(b))            \* De Morgan
          /\ MXor(m, b) = MAnd(MOr(m, b), MNot(MAnd(m, b)))
          /\ Select(m, b, b) = b
          /\ Bitmask(MAnd(m, b)) + Bitmask(MOr(m, b)) = Bitmask(m) + Bitmask(b)
SetChangesOnlyThatLane ==
    [][ \A i \in 1..n, val \in BOOLEAN : Set(i, val) => \A j \in 1..n : j # i => m'[j] = m[j] ]_vars

=============================================================================
