SPECIFICATION Spec
CONSTANT Tier = "quick"
INVARIANT Emit
INVARIANT ReadAfterWrite
INVARIANT Compose
CHECK_DEADLOCK FALSE
