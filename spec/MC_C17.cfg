SPECIFICATION Spec
CONSTANT Tier = "quick"
CONSTANT MaxHist = 1
INVARIANT Emit
INVARIANT TypeOK
INVARIANT ObservationsAgree
PROPERTY WriteChangesOnlyThatLane
PROPERTY ReadsArePure
CHECK_DEADLOCK FALSE
