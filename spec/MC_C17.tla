------------------------------- MODULE MC_C17 -------------------------------
EXTENDS Access, Json
CONSTANT Tier

\* the initial register is part of the behaviour the harness replays
Emit == Len(hist) = MaxHist =>
          PrintT(<<"CASE", ToJson([fam |-> "acc", n |-> n, init |-> reg0, steps |-> hist])>>)

=============================================================================
