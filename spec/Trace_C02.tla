----------------------------- MODULE Trace_C02 ------------------------------
(***************************************************************************)
(* Trace validation of the error bound of C02 on ARBITRARY f32 inputs.     *)
(* The harness records, for each call of a sum-of-products function (dot,  *)
(* length_squared, cross, perp_dot, element_sum, distance_squared), the    *)
(* exact factors of every term and the value the real code returned, all   *)
(* as (sign, odd mantissa, exponent).  The specification evaluates the     *)
(* exact real-arithmetic sum S and the sum of magnitudes A with arbitrary- *)
(* precision integers (module Big) and accepts the event iff               *)
(*        |got - S| <= K * 2^-24 * A                                       *)
(* ("a few units of machine epsilon times the sum of the magnitudes of the *)
(* terms combined").  No floating point is involved in the judgement.      *)
(***************************************************************************)
EXTENDS Big, TLC, Json, IOUtils
Rec == ndJsonDeserialize(IOEnv.TRACE)
K == 6                                       \* units of 2^-24 (= 3 machine epsilons of 2^-23)

Fac(f) == [z |-> Z(f[1], NatOf(f[2])), e |-> f[3]]            \* (-1)^s * m * 2^e ; m = 0 for zero
TermZ(t) == [z |-> ZMul(Fac(t[1]).z, Fac(t[2]).z), e |-> Fac(t[1]).e + Fac(t[2]).e]
MinOf(S) == CHOOSE x \in S : \A y \in S : x <= y
RECURSIVE SumZ(_, _, _, _)
SumZ(ts, i, emin, abs) == IF i > Len(ts) THEN Z0
                          ELSE LET t == TermZ(ts[i])
                                   v == ZMul(IF abs THEN ZAbs(t.z) ELSE t.z, ZPow2(t.e - emin))
                               IN ZAdd(v, SumZ(ts, i + 1, emin, abs))
WithinBound(ev) ==
    LET ts == ev.terms
        g == Fac(ev.got)
        emin == MinOf({TermZ(ts[i]).e : i \in 1..Len(ts)} \cup {g.e})
        S == SumZ(ts, 1, emin, FALSE)
        A == SumZ(ts, 1, emin, TRUE)
        G == ZMul(g.z, ZPow2(g.e - emin))
        err == ZAbs(ZSub(G, S))
    IN ZLe(ZMul(err, ZPow2(24)), ZMul(ZOf(K), A))

VARIABLE l
Init == l = 1
Next == /\ l <= Len(Rec)
        /\ WithinBound(Rec[l])
        /\ l' = l + 1
Spec == Init /\ [][Next]_l
Accepted ==
    IF TLCGet("stats").diameter = Len(Rec) + 1 THEN TRUE
    ELSE /\ PrintT(<<"TRACE-REJECTED", "matched", TLCGet("stats").diameter - 1, "of", Len(Rec)>>)
         /\ PrintT(<<"FIRST-REJECTED-EVENT", Rec[TLCGet("stats").diameter]>>)
         /\ FALSE
=============================================================================
