----------------------------- MODULE Trace_C17 ------------------------------
(***************************************************************************)
(* Trace validation (code -> specification) of the access machine of C17.  *)
(* The harness (`rec acc`) drives every vector type through a random       *)
(* history of constructors, writes and reads over random bit patterns and  *)
(* logs each call with its arguments and what it observed.  Each event is  *)
(* one action of Access.tla (the same ConstructReg / SplatReg / WriteReg / *)
(* ReadReg the model checker explores), with the arguments bound to the    *)
(* logged values; the logged observation must be the register the action   *)
(* leaves.  Lanes are opaque bit-pattern strings, so NaN payloads and -0   *)
(* are distinguished.  A "begin" event starts the history of the next type.*)
(***************************************************************************)
EXTENDS Access, Json, IOUtils
Rec == ndJsonDeserialize(IOEnv.TRACE)
VARIABLE l
tvars == <<n, reg0, reg, hist, l>>

Ev1 == Rec[l]
Begin ==
    /\ Ev1.op = "begin"
    /\ n' = Ev1.n /\ reg' = Ev1.obs /\ reg0' = Ev1.obs /\ Len(Ev1.obs) = Ev1.n
    /\ UNCHANGED hist
TraceConstruct ==
    /\ Ev1.op = "ctor" /\ Ev1.path \in CtorPaths
    /\ Len(Ev1.vals) = n
    /\ ConstructReg(Ev1.vals) /\ reg' = Ev1.obs
    /\ UNCHANGED <<n, reg0, hist>>
TraceSplat ==
    /\ Ev1.op = "splat"
    /\ SplatReg(Ev1.val) /\ reg' = Ev1.obs
    /\ UNCHANGED <<n, reg0, hist>>
TraceWrite ==
    /\ Ev1.op = "write" /\ Ev1.path \in WritePaths
    /\ Ev1.lane \in 0..(n - 1)
    /\ WriteReg(Ev1.lane + 1, Ev1.val) /\ reg' = Ev1.obs              \* exactly that lane changed, as observed through to_array
    /\ UNCHANGED <<n, reg0, hist>>
TraceRead ==
    /\ Ev1.op = "read" /\ Ev1.path \in ReadPaths
    /\ Ev1.obs = reg                                                   \* every read path observes the register
    /\ ReadReg
    /\ UNCHANGED <<n, reg0, hist>>

TraceInit == l = 1 /\ n = 2 /\ reg = <<"-", "-">> /\ reg0 = reg /\ hist = <<>>
TraceNext == /\ l <= Len(Rec)
        /\ (Begin \/ TraceConstruct \/ TraceSplat \/ TraceWrite \/ TraceRead)
        /\ l' = l + 1
TraceSpec == TraceInit /\ [][TraceNext]_tvars
Accepted ==
    IF TLCGet("stats").diameter = Len(Rec) + 1 THEN TRUE
    ELSE /\ PrintT(<<"TRACE-REJECTED", "matched", TLCGet("stats").diameter - 1, "of", Len(Rec)>>)
         /\ PrintT(<<"FIRST-REJECTED-EVENT", ToJson(Rec[TLCGet("stats").diameter])>>)
         /\ FALSE
=============================================================================
