SPECIFICATION TraceSpec
CONSTANT MaxHist = 1
POSTCONDITION Accepted
CHECK_DEADLOCK FALSE
