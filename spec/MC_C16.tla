------------------------------- MODULE MC_C16 -------------------------------
(***************************************************************************)
(* C16: every swizzle getter / with_ setter permutes exactly the lanes its *)
(* name spells.  Token machine: a register of n lanes holding opaque       *)
(* tokens; Get and With are the two actions.  Complete enumeration of all  *)
(* names x a palette of source registers.                                  *)
(***************************************************************************)
EXTENDS Swizzle, Json

CONSTANT Tier
VARIABLES ph, call, res
vars == <<ph, call, res>>

\* source registers (token names are resolved to bit patterns by the harness, per scalar type)
Sources == << <<"p1", "p2", "p3", "p4">>,        \* pairwise distinct (NaN payloads, -0, ...)
              <<"p5", "p5", "p6", "p6">>,        \* equal lanes
              <<"p7", "p8", "p7", "p8">>,
              <<"zero", "one", "max", "min">>,
              <<"zero", "p2", "zero", "p2">> >>          \* +0 and -0 (floats): lanes that compare equal to their twins below
Repl == <<"q1", "q2", "q3">>                     \* replacement lanes, distinct from every source
\* "~t" is the twin of token t: it compares equal to t but has other bits where the scalar type has such values (the other zero);
\* a setter that skips lanes it believes unchanged is exposed by writing the twins of the lanes already there
Twin(t) == "~" \o t

Take(v, n) == [i \in 1..n |-> v[i]]

Calls ==
    UNION {
      [kind : {"get"},  n : {n}, name : GetterNames(n), src : 1..Len(Sources)]
      \cup [kind : {"with"}, n : {n}, name : SetterNames(n), src : 1..Len(Sources)]
      \cup [kind : {"withtwin"}, n : {n}, name : SetterNames(n), src : {1, 4, 5}]
    : n \in 2..4 }

Src(c) == Take(Sources[c.src], c.n)
Rhs(c) == IF c.kind = "withtwin" THEN [i \in 1..Len(c.name) |-> Twin(SwzGet(c.name, Src(c))[i])] ELSE Take(Repl, Len(c.name))
Eval(c) == IF c.kind = "get" THEN SwzGet(c.name, Src(c))
           ELSE SwzWith(c.name, Src(c), Rhs(c))

Init == ph = "call" /\ call \in Calls /\ res = <<>>
Return == ph = "call" /\ ph' = "ret" /\ res' = Eval(call) /\ UNCHANGED call
Next == Return
Spec == Init /\ [][Next]_vars

Emit == ph = "ret" =>
    PrintT(<<"CASE", ToJson([fam |-> "swz", kind |-> IF call.kind = "withtwin" THEN "with" ELSE call.kind, twin |-> call.kind = "withtwin", n |-> call.n,
                             name |-> NameStr(call.name), src |-> Src(call),
                             rhs |-> IF call.kind = "get" THEN <<>> ELSE Rhs(call),
                             exp |-> res])>>)

\* ---- theorems ---------------------------------------------------------------
\* reading back what was written returns it; writing back what was read is the identity
ReadAfterWrite == (ph = "ret" /\ call.kind \in {"with", "withtwin"}) =>
                      /\ SwzGet(call.name, res) = Rhs(call)
                      /\ SwzWith(call.name, Src(call), SwzGet(call.name, Src(call))) = Src(call)
                      \* untouched lanes are unchanged
                      /\ \A j \in 1..call.n : PosIn(call.name, j) = 0 => res[j] = Src(call)[j]
\* getters compose as index maps
Compose == (ph = "ret" /\ call.kind = "get" /\ Len(call.name) = call.n) =>
               \A nm2 \in Names(call.n, 2) :
                   SwzGet(nm2, res) = [i \in 1..2 |-> Src(call)[LetterIdx(call.name[LetterIdx(nm2[i])])]]

ASSUME Cardinality(GetterNames(2)) = 28 /\ Cardinality(GetterNames(3)) = 117 /\ Cardinality(GetterNames(4)) = 336
ASSUME Cardinality(SetterNames(2)) = 0 /\ Cardinality(SetterNames(3)) = 6 /\ Cardinality(SetterNames(4)) = 36

=============================================================================
