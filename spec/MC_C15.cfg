SPECIFICATION Spec
CONSTANT Tier = "quick"
CONSTANT MaxHist = 2
INVARIANT Emit
INVARIANT Algebra
PROPERTY SetChangesOnlyThatLane
CHECK_DEADLOCK FALSE
