------------------------------- MODULE MC_C03 -------------------------------
(***************************************************************************)
(* C03 (and the product laws of C06): matrix product, transpose,           *)
(* determinant, adjugate and inverse on integer matrices, where every      *)
(* polynomial result is an exact integer.  Call/return machine: a state is *)
(* a matrix drawn from one of the enumeration families; the transition     *)
(* returns all results of the operations on it.                            *)
(***************************************************************************)
EXTENDS LinAlg, Json

CONSTANTS Tier, Seed
VARIABLES ph, call, res
vars == <<ph, call, res>>

Quick == Tier = "quick"

\* ---- enumeration families ----------------------------------------------------
Digit(x, b, k) == (x \div (b ^ k)) % b
\* linear congruential stream for the seeded dense families (values stay below 2^31)
Lcg(x) == (x * 1103 + 12345) % 65536
RECURSIVE LcgN(_, _)
LcgN(x, n) == IF n = 0 THEN x ELSE LcgN(Lcg(x), n - 1)
Rnd(idx, k, lo, hi) == lo + ((LcgN((idx * 31 + k * 7 + Seed * 13) % 65536, 3) \div 7) % (hi - lo + 1))

LexLess(q, p) == \E i \in 1..4 : q[i] < p[i] /\ \A j \in 1..(i - 1) : q[j] = p[j]
PermSeq4 == LET S == P4 IN
            [i \in 1..24 |-> CHOOSE p \in S : Cardinality({q \in S : LexLess(q, p)}) = i - 1]

Mat(c) ==
    LET N == c.n IN
    CASE c.f = "bin01"  -> [k \in 1..16 |-> Digit(c.idx, 2, k - 1)]
      [] c.f = "grid3"  -> [k \in 1..9  |-> Digit(c.idx, 3, k - 1) - 1]
      [] c.f = "grid5"  -> [k \in 1..9  |-> Digit(c.idx, 5, k - 1) - 2]
      [] c.f = "all2"   -> [k \in 1..4  |-> Digit(c.idx, 17, k - 1) - 8]
      [] c.f = "small2" -> [k \in 1..4  |-> Digit(c.idx, 7, k - 1) - 3]
      [] c.f = "dense"  -> [k \in 1..(N * N) |-> Rnd(c.idx, k, -3, 3)]
      [] c.f = "perm"   -> \* signed permutation matrices: permutation idx \div 16, sign pattern idx % 16
            LET p == PermSeq4[(c.idx \div 16) + 1] IN
            Mk(4, LAMBDA r, cc : IF p[cc + 1] = r + 1 THEN (IF Digit(c.idx, 2, cc) = 1 THEN -1 ELSE 1) ELSE 0)
      [] c.f = "unimod" -> \* unit lower times unit upper triangular: determinant 1
            LET L == Mk(N, LAMBDA r, cc : IF r = cc THEN 1 ELSE IF r > cc THEN Rnd(c.idx, r * N + cc, -2, 2) ELSE 0)
                U == Mk(N, LAMBDA r, cc : IF r = cc THEN 1 ELSE IF r < cc THEN Rnd(c.idx + 977, r * N + cc, -2, 2) ELSE 0)
            IN MatMul(N, L, U)
      [] c.f = "pow2"   -> \* unimodular times a diagonal of powers of two: determinant +-2^k
            LET L == Mk(N, LAMBDA r, cc : IF r = cc THEN 1 ELSE IF r > cc THEN Rnd(c.idx, r * N + cc, -2, 2) ELSE 0)
                U == Mk(N, LAMBDA r, cc : IF r = cc THEN (IF Rnd(c.idx, 50 + r, 0, 1) = 1 THEN -1 ELSE 1) * (2 ^ Rnd(c.idx, 60 + r, 0, 2))
                                          ELSE IF r < cc THEN Rnd(c.idx + 977, r * N + cc, -2, 2) ELSE 0)
            IN MatMul(N, L, U)
      [] c.f = "rankdef" -> \* last column is the sum of the others: determinant exactly 0
            LET B == [k \in 1..(N * N) |-> Rnd(c.idx, k, -3, 3)] IN
            Mk(N, LAMBDA r, cc : IF cc < N - 1 THEN E(N, B, r, cc) ELSE SumTo(LAMBDA j : E(N, B, r, j), N - 2))


Stride(n, s) == {i \in 0..(n - 1) : i % s = Seed % s}
Calls ==
    (IF Quick THEN [f : {"bin01"}, n : {4}, idx : Stride(65536, 16)] ELSE [f : {"bin01"}, n : {4}, idx : 0..65535])
    \cup (IF Quick THEN [f : {"grid3"}, n : {3}, idx : Stride(19683, 3)] ELSE [f : {"grid3"}, n : {3}, idx : 0..19682])
    \cup (IF Quick THEN {} ELSE [f : {"grid5"}, n : {3}, idx : Stride(1953125, 16)])
    \cup (IF Quick THEN [f : {"small2"}, n : {2}, idx : 0..2400] ELSE [f : {"all2"}, n : {2}, idx : 0..83520])
    \cup [f : {"dense"}, n : {2, 3, 4}, idx : 1..(IF Quick THEN 1500 ELSE 20000)]
    \cup [f : {"perm"}, n : {4}, idx : 0..383]
    \cup [f : {"unimod", "pow2", "rankdef"}, n : {2, 3, 4}, idx : 1..(IF Quick THEN 300 ELSE 3000)]
    \* affine transforms: linear part n x n (dense or unimodular) with an integer translation
    \cup [f : {"aff_dense", "aff_unimod"}, n : {2, 3}, idx : 1..(IF Quick THEN 400 ELSE 4000)]

\* partner matrix / vector / scalar for the binary operations
Partner(c) == [k \in 1..(c.n * c.n) |-> Rnd(c.idx + 4242, k, -3, 3)]
VecOf(c)   == [k \in 1..c.n |-> Rnd(c.idx + 777, k, -4, 4)]
ScalarOf(c) == Rnd(c.idx, 99, -3, 3)

\* ---- affine transforms (linear part L, translation t) as (N+1) x (N+1) homogeneous matrices ----
Homog(N, L, t) == Mk(N + 1, LAMBDA r, cc : IF r < N /\ cc < N THEN E(N, L, r, cc)
                                          ELSE IF cc = N /\ r < N THEN t[r + 1]
                                          ELSE IF r = cc THEN 1 ELSE 0)
LinOf(c) == IF c.f = "aff_unimod" THEN Mat([c EXCEPT !.f = "unimod"]) ELSE Mat([c EXCEPT !.f = "dense"])
EvalAff(c) ==
    LET N == c.n
        L == LinOf(c)
        t == [k \in 1..N |-> Rnd(c.idx + 555, k, -5, 5)]
        L2 == Partner(c)
        t2 == [k \in 1..N |-> Rnd(c.idx + 666, k, -5, 5)]
        p == VecOf(c)
        H == Homog(N, L, t)
        H2 == Homog(N, L2, t2)
        G == [k \in 1..((N + 1) * (N + 1)) |-> Rnd(c.idx + 888, k, -2, 2)]     \* a general (non-affine) matrix
        d == Det(N, L)
        Li == MatScale(N, Adj(N, L), d)           \* the inverse when d = +-1
    IN [ l |-> L, t |-> t, l2 |-> L2, t2 |-> t2, p |-> p, g |-> G,
         tp |-> VecAdd(MatVec(N, L, p), t),                       \* transform_point  = L p + t
         tv |-> MatVec(N, L, p),                                  \* transform_vector = L p
         comp_l |-> MatMul(N, L, L2), comp_t |-> VecAdd(MatVec(N, L, t2), t),
         hom |-> H,                                               \* the homogeneous matrix of the transform
         a_g |-> MatMul(N + 1, H, G), g_a |-> MatMul(N + 1, G, H),   \* affine * matrix, matrix * affine
         det |-> d,
         inv_l |-> IF AbsI(d) = 1 THEN Li ELSE <<>>,
         inv_t |-> IF AbsI(d) = 1 THEN VecNeg(MatVec(N, Li, t)) ELSE <<>> ]

EvalMat(c) ==
    LET N == c.n
        A == Mat(c)
        B == Partner(c)
        v == VecOf(c)
        s == ScalarOf(c)
        d == Det(N, A)
    IN [ m |-> A, p |-> B, v |-> v, s |-> s,
         det |-> d, adj |-> Adj(N, A), tr |-> MatT(N, A),
         mul |-> MatMul(N, A, B), mulv |-> MatVec(N, A, v),
         assoc |-> MatVec(N, A, MatVec(N, B, v)),
         add |-> MatAdd(N, A, B), sub |-> MatSub(N, A, B), neg |-> MatNeg(N, A), scaled |-> MatScale(N, A, s),
         \* exact inverse adj/det when det = +-2^k: numerators and the power of two
         invk |-> IF d # 0 /\ IsPow2(AbsI(d)) THEN Log2(AbsI(d)) ELSE -1,
         invn |-> IF d # 0 /\ IsPow2(AbsI(d)) THEN MatScale(N, Adj(N, A), IF d < 0 THEN -1 ELSE 1) ELSE <<>> ]

Eval(c) == IF c.f \in {"aff_dense", "aff_unimod"} THEN EvalAff(c) ELSE EvalMat(c)

Init == ph = "call" /\ call \in Calls /\ res = <<>>
Next == ph = "call" /\ ph' = "ret" /\ res' = Eval(call) /\ UNCHANGED call
Spec == Init /\ [][Next]_vars

Emit == ph = "ret" =>
    PrintT(<<"CASE", ToJson([fam |-> "lin", kind |-> IF call.f \in {"aff_dense", "aff_unimod"} THEN "aff" ELSE "mat",
                             f |-> call.f, n |-> call.n, exp |-> res])>>)

\* ---- theorems of linear algebra, checked on every returned state (validates the oracle) ----
AffTheorems ==
    (ph = "ret" /\ call.f \in {"aff_dense", "aff_unimod"}) =>
        LET N == call.n
            H == res.hom
            H2 == Homog(N, res.l2, res.t2)
            ph1 == Append(res.p, 1)
            ph0 == Append(res.p, 0) IN
        \* conversion commutes with composition: Homog(a * b) = Homog(a) * Homog(b)
        /\ Homog(N, res.comp_l, res.comp_t) = MatMul(N + 1, H, H2)
        \* the homogeneous matrix acts like the affine transform on points (w = 1) and vectors (w = 0)
        /\ MatVec(N + 1, H, ph1) = Append(res.tp, 1)
        /\ MatVec(N + 1, H, ph0) = Append(res.tv, 0)
        \* inverse converts to the matrix inverse
        /\ res.inv_l # <<>> => MatMul(N + 1, H, Homog(N, res.inv_l, res.inv_t)) = Ident(N + 1)

Theorems ==
    (ph = "ret" /\ call.f \notin {"aff_dense", "aff_unimod"}) =>
        LET N == call.n  A == res.m  B == res.p  v == res.v IN
        /\ Det(N, MatMul(N, A, B)) = Det(N, A) * Det(N, B)                      \* multiplicativity
        /\ MatMul(N, A, res.adj) = MatScale(N, Ident(N), res.det)               \* A adj(A) = det(A) I
        /\ MatMul(N, res.adj, A) = MatScale(N, Ident(N), res.det)
        /\ MatT(N, MatMul(N, A, B)) = MatMul(N, MatT(N, B), MatT(N, A))         \* (AB)^T = B^T A^T
        /\ MatVec(N, MatMul(N, A, B), v) = res.assoc                            \* (AB)v = A(Bv)
        /\ DetCofactor(N, A) = res.det                                          \* Leibniz = cofactor expansion
        /\ Det(N, MatT(N, A)) = res.det
        /\ MatT(N, MatT(N, A)) = A
        /\ call.f = "rankdef" => res.det = 0
        /\ call.f = "unimod" => res.det = 1
        /\ call.f = "perm" => res.det \in {1, -1}
        \* M v is the combination of the columns
        /\ res.mulv = [r \in 1..N |-> SumTo(LAMBDA cc : v[cc + 1] * ColOf(N, A, cc)[r], N - 1)]

=============================================================================
