SPECIFICATION Spec
CONSTANT Tier = "quick"
CONSTANT Seed = 1
INVARIANT Emit
INVARIANT RotTheorems
CHECK_DEADLOCK FALSE
