------------------------------- MODULE IeeeW -------------------------------
(***************************************************************************)
(* IEEE-754 binary arithmetic on ARBITRARY f32 / f64 values: the same      *)
(* operations as module Ieee, but with arbitrary-precision integers        *)
(* (module Big), so that no operand is out of reach of the model.  Written *)
(* independently of Ieee.tla; MC_IeeeW checks that the two agree wherever  *)
(* Ieee.tla does not decline, and the trace specification Trace_Lanes uses *)
(* this module to judge executions recorded on random bit patterns.        *)
(*                                                                         *)
(* A value is  [k |-> "nan"]                                               *)
(*          |  [k |-> "inf", s]                                            *)
(*          |  [k |-> "fin", s, m, e]     (-1)^s * m * 2^e                 *)
(* with m a natural number in Big's limb form.  Values of a format are     *)
(* kept CANONICAL: m = <<>> (zero, e = 0), or m has exactly p bits         *)
(* (normal), or e = emin and m has fewer than p bits (subnormal).  This is *)
(* the (significand, exponent) pair stored in the bit pattern, so equality *)
(* of canonical values is equality of records (up to the sign of zero).    *)
(***************************************************************************)
EXTENDS Big

W32 == [p |-> 24, emin |-> -149, emax |-> 127]
W64 == [p |-> 53, emin |-> -1074, emax |-> 1023]

WNan        == [k |-> "nan"]
WInf(s)     == [k |-> "inf", s |-> s]
WFin(s,m,e) == [k |-> "fin", s |-> s, m |-> m, e |-> e]
WZero(s)    == WFin(s, <<>>, 0)
WAny        == [k |-> "any"]                      \* the property leaves the result unspecified

IsNanW(x)  == x.k = "nan"
IsInfW(x)  == x.k = "inf"
IsFinW(x)  == x.k = "fin"
IsZeroW(x) == x.k = "fin" /\ x.m = <<>>
IsNumW(x)  == x.k \in {"inf", "fin"}

MaxI(a, b) == IF a >= b THEN a ELSE b
MinI(a, b) == IF a <= b THEN a ELSE b
NOne == <<1>>

\* m * 2^t in format f once the significand has been fitted to at most p bits
Fit(f, s, m, t) == IF m = <<>> THEN WZero(s)
                   ELSE IF t + NatBitLen(m) - 1 > f.emax THEN WInf(s)
                   ELSE WFin(s, m, t)

(***************************************************************************)
(* RoundW(f, s, N, e, sticky): the value (-1)^s * (N + d) * 2^e, where d=0 *)
(* unless sticky, in which case 0 < d < 1, rounded to nearest (ties to     *)
(* even) in format f.  Callers that pass sticky supply N with at least     *)
(* p + 2 bits, so a sticky tail never reaches the exact branch.            *)
(***************************************************************************)
RoundW(f, s, N, e, sticky) ==
    IF N = <<>> THEN WZero(s)
    ELSE LET L == NatBitLen(N)
             t == MaxI(e + L - f.p, f.emin)               \* exponent of the result's unit
         IN  IF t <= e THEN Fit(f, s, NatShl(N, e - t), t)  \* nothing is dropped
             ELSE LET sh == t - e
                      q  == NatShr(N, sh)
                      r  == NatModPow2(N, sh)
                      c  == NatCmp(r, NatPow2(sh - 1))
                      up == c > 0 \/ (c = 0 /\ (sticky \/ NatBit(q, 0) = 1))
                      q2 == IF up THEN NatAdd(q, NOne) ELSE q
                  IN  IF NatBitLen(q2) > f.p THEN Fit(f, s, NatShr(q2, 1), t + 1)
                      ELSE Fit(f, s, q2, t)

WCanon(f, s, N, e) == RoundW(f, s, N, e, FALSE)         \* of a representable value: its canonical form
WOfInt(f, z) == RoundW(f, z.s, z.m, 0, FALSE)            \* integer -> float conversion (z a Big integer)
WOne(f) == WCanon(f, 0, NOne, 0)

\* ---- sign operations -----------------------------------------------------
NegW(x)  == IF IsNanW(x) THEN x ELSE [x EXCEPT !.s = 1 - x.s]
AbsW(x)  == IF IsNanW(x) THEN x ELSE [x EXCEPT !.s = 0]
CopySignW(x, y) == IF IsNanW(x) THEN x ELSE IF IsNanW(y) THEN WAny ELSE [x EXCEPT !.s = y.s]
SignumW(f, x) == IF IsNanW(x) THEN x ELSE [WOne(f) EXCEPT !.s = x.s]

\* ---- ordering (no rounding) ----------------------------------------------
\* compare two non-NaN values: -1, 0, 1   (-0 = +0)
MagCmp(x, y) ==          \* finite magnitudes
    IF x.m = <<>> THEN (IF y.m = <<>> THEN 0 ELSE -1)
    ELSE IF y.m = <<>> THEN 1
    ELSE LET em == MinI(x.e, y.e) IN NatCmp(NatShl(x.m, x.e - em), NatShl(y.m, y.e - em))
CmpW(x, y) ==
    LET sx == IF IsZeroW(x) THEN 0 ELSE x.s
        sy == IF IsZeroW(y) THEN 0 ELSE y.s
    IN  IF IsZeroW(x) /\ IsZeroW(y) THEN 0
        ELSE IF sx # sy THEN (IF sx = 1 THEN -1 ELSE 1)
        ELSE LET mag == IF IsInfW(x) THEN (IF IsInfW(y) THEN 0 ELSE 1)
                        ELSE IF IsInfW(y) THEN -1 ELSE MagCmp(x, y)
             IN IF sx = 1 THEN -mag ELSE mag
Unordered(x, y) == IsNanW(x) \/ IsNanW(y)
LtW(x, y) == ~Unordered(x, y) /\ CmpW(x, y) < 0
LeW(x, y) == ~Unordered(x, y) /\ CmpW(x, y) <= 0
EqW(x, y) == ~Unordered(x, y) /\ CmpW(x, y) = 0
\* IEEE value equality as the properties define it: -0 = +0, NaN ~ NaN, WAny matches everything
SameW(x, y) == \/ x.k = "any" \/ y.k = "any"
               \/ (IsNanW(x) /\ IsNanW(y))
               \/ (IsNumW(x) /\ IsNumW(y) /\ CmpW(x, y) = 0)

\* ---- arithmetic ------------------------------------------------------------
\* exact sum of the finite non-zero  (-1)^sa * ma * 2^ea  and  (-1)^sb * mb * 2^eb, then one rounding
SumRound(f, sa, ma, ea, sb, mb, eb) ==
    LET em  == MinI(ea, eb)
        sum == ZAdd(Z(sa, NatShl(ma, ea - em)), Z(sb, NatShl(mb, eb - em)))
    IN  IF sum.m = <<>> THEN WZero(0) ELSE RoundW(f, sum.s, sum.m, em, FALSE)

AddW(f, a, b) ==
    IF IsNanW(a) \/ IsNanW(b) THEN WNan
    ELSE IF IsInfW(a) THEN (IF IsInfW(b) /\ b.s # a.s THEN WNan ELSE a)
    ELSE IF IsInfW(b) THEN b
    ELSE IF IsZeroW(a) /\ IsZeroW(b) THEN WZero(IF a.s = 1 /\ b.s = 1 THEN 1 ELSE 0)
    ELSE IF IsZeroW(a) THEN b
    ELSE IF IsZeroW(b) THEN a
    ELSE SumRound(f, a.s, a.m, a.e, b.s, b.m, b.e)
SubW(f, a, b) == AddW(f, a, NegW(b))

MulW(f, a, b) ==
    IF IsNanW(a) \/ IsNanW(b) THEN WNan
    ELSE LET s == (a.s + b.s) % 2 IN
         IF IsInfW(a) \/ IsInfW(b) THEN (IF IsZeroW(a) \/ IsZeroW(b) THEN WNan ELSE WInf(s))
         ELSE IF IsZeroW(a) \/ IsZeroW(b) THEN WZero(s)
         ELSE RoundW(f, s, NatMul(a.m, b.m), a.e + b.e, FALSE)

DivW(f, a, b) ==
    IF IsNanW(a) \/ IsNanW(b) THEN WNan
    ELSE LET s == (a.s + b.s) % 2 IN
         IF IsInfW(a) THEN (IF IsInfW(b) THEN WNan ELSE WInf(s))
         ELSE IF IsInfW(b) THEN WZero(s)
         ELSE IF IsZeroW(b) THEN (IF IsZeroW(a) THEN WNan ELSE WInf(s))
         ELSE IF IsZeroW(a) THEN WZero(s)
         ELSE LET sh == MaxI(0, f.p + 2 + NatBitLen(b.m) - NatBitLen(a.m))     \* quotient gets >= p + 2 bits
                  dm == NatDivMod(NatShl(a.m, sh), b.m)
              IN  RoundW(f, s, dm.q, a.e - sh - b.e, dm.r # <<>>)
RecipW(f, a) == DivW(f, WOne(f), a)

\* fused multiply-add: a * b + c with one rounding
FmaW(f, a, b, c) ==
    IF IsNanW(a) \/ IsNanW(b) \/ IsNanW(c) THEN WNan
    ELSE LET s == (a.s + b.s) % 2 IN
         IF IsInfW(a) \/ IsInfW(b) THEN
              (IF IsZeroW(a) \/ IsZeroW(b) THEN WNan
               ELSE IF IsInfW(c) /\ c.s # s THEN WNan ELSE WInf(s))
         ELSE IF IsInfW(c) THEN c
         ELSE IF IsZeroW(a) \/ IsZeroW(b) THEN
              (IF IsZeroW(c) THEN WZero(IF s = 1 /\ c.s = 1 THEN 1 ELSE 0) ELSE c)
         ELSE IF IsZeroW(c) THEN RoundW(f, s, NatMul(a.m, b.m), a.e + b.e, FALSE)
         ELSE SumRound(f, s, NatMul(a.m, b.m), a.e + b.e, c.s, c.m, c.e)

\* integer square root by bisection on the bits
RECURSIVE NatSqrtBits(_, _, _)
NatSqrtBits(n, r, i) ==
    IF i < 0 THEN r
    ELSE LET c == NatAdd(r, NatPow2(i)) IN
         IF NatCmp(NatMul(c, c), n) <= 0 THEN NatSqrtBits(n, c, i - 1) ELSE NatSqrtBits(n, r, i - 1)
NatSqrt(n) == IF n = <<>> THEN <<>> ELSE NatSqrtBits(n, <<>>, (NatBitLen(n) + 1) \div 2)

SqrtW(f, a) ==
    IF IsNanW(a) THEN WNan
    ELSE IF IsZeroW(a) THEN a
    ELSE IF a.s = 1 THEN WNan
    ELSE IF IsInfW(a) THEN a
    ELSE LET want == 2 * (f.p + 2)
             sh0  == MaxI(0, want - NatBitLen(a.m))
             sh   == IF (a.e - sh0) % 2 = 0 THEN sh0 ELSE sh0 + 1        \* make the exponent even
             n    == NatShl(a.m, sh)
             r    == NatSqrt(n)
         IN  RoundW(f, 0, r, (a.e - sh) \div 2, NatMul(r, r) # n)

\* ---- rounding to integers (results are exact) -----------------------------------
\* integer part and "has a fraction" of a finite non-zero magnitude
IntPartW(a) == IF a.e >= 0 THEN NatShl(a.m, a.e) ELSE NatShr(a.m, -a.e)
HasFracW(a) == a.e < 0 /\ NatModPow2(a.m, -a.e) # <<>>
\* 0: below one half, 1: exactly one half, 2: above   (of the fractional part)
FracVsHalfW(a) == IF a.e >= 0 THEN 0
                 ELSE LET c == NatCmp(NatModPow2(a.m, -a.e), NatPow2(-a.e - 1)) IN
                      IF c < 0 THEN 0 ELSE IF c = 0 THEN 1 ELSE 2
OfMag(f, s, n) == IF n = <<>> THEN WZero(s) ELSE RoundW(f, s, n, 0, FALSE)
Special1(a) == IsNanW(a) \/ IsInfW(a) \/ IsZeroW(a)
TruncW(f, a) == IF Special1(a) THEN a ELSE OfMag(f, a.s, IntPartW(a))
FloorW(f, a) == IF Special1(a) THEN a
                ELSE IF a.s = 1 /\ HasFracW(a) THEN OfMag(f, 1, NatAdd(IntPartW(a), NOne)) ELSE OfMag(f, a.s, IntPartW(a))
CeilW(f, a)  == IF Special1(a) THEN a
                ELSE IF a.s = 0 /\ HasFracW(a) THEN OfMag(f, 0, NatAdd(IntPartW(a), NOne)) ELSE OfMag(f, a.s, IntPartW(a))
\* ties away from zero (Rust's round)
RoundHalfAwayW(f, a) == IF Special1(a) THEN a
                ELSE IF FracVsHalfW(a) >= 1 THEN OfMag(f, a.s, NatAdd(IntPartW(a), NOne)) ELSE OfMag(f, a.s, IntPartW(a))
\* glam: fract = self - self.trunc(); fract_gl = self - self.floor()
FractW(f, a)   == SubW(f, a, TruncW(f, a))
FractGlW(f, a) == SubW(f, a, FloorW(f, a))

\* ---- remainder (exact) -------------------------------------------------------------
\* 2^k mod d by square and multiply (d > 0)
RECURSIVE NatPow2Mod(_, _)
NatPow2Mod(k, d) == IF k = 0 THEN NatDivMod(NOne, d).r
                    ELSE IF k % 2 = 1 THEN NatDivMod(NatMulSmall(NatPow2Mod(k - 1, d), 2), d).r
                    ELSE LET h == NatPow2Mod(k \div 2, d) IN NatDivMod(NatMul(h, h), d).r
\* |a| mod |b| for finite non-zero a, b as  r * 2^er
RemMag(a, b) ==
    IF a.e >= b.e THEN
        LET k == a.e - b.e IN
        IF k <= 64 THEN [r |-> NatDivMod(NatShl(a.m, k), b.m).r, e |-> b.e]
        ELSE [r |-> NatDivMod(NatMul(NatDivMod(a.m, b.m).r, NatPow2Mod(k, b.m)), b.m).r, e |-> b.e]
    ELSE LET k == b.e - a.e IN
         IF k >= NatBitLen(a.m) THEN [r |-> a.m, e |-> a.e]                          \* |a| < |b|
         ELSE [r |-> NatDivMod(a.m, NatShl(b.m, k)).r, e |-> a.e]
RemW(f, a, b) ==
    IF IsNanW(a) \/ IsNanW(b) \/ IsInfW(a) \/ IsZeroW(b) THEN WNan
    ELSE IF IsInfW(b) \/ IsZeroW(a) THEN a
    ELSE LET rm == RemMag(a, b) IN
         IF rm.r = <<>> THEN WZero(a.s) ELSE RoundW(f, a.s, rm.r, rm.e, FALSE)
IsNegW(x) == IsNumW(x) /\ ~IsZeroW(x) /\ x.s = 1          \* x < 0
IsPosW(x) == IsNumW(x) /\ ~IsZeroW(x) /\ x.s = 0          \* x > 0
\* Rust's f32::div_euclid / rem_euclid, with every intermediate rounding
DivEuclidW(f, a, b) ==
    LET q == TruncW(f, DivW(f, a, b)) IN
    IF IsNegW(RemW(f, a, b)) THEN (IF IsPosW(b) THEN SubW(f, q, WOne(f)) ELSE AddW(f, q, WOne(f))) ELSE q
RemEuclidW(f, a, b) ==
    LET r == RemW(f, a, b) IN IF IsNegW(r) THEN AddW(f, r, AbsW(b)) ELSE r

\* ---- min / max / clamp: specified on ordered operands only --------------------------
MinW(a, b) == IF Unordered(a, b) THEN WAny ELSE IF CmpW(a, b) <= 0 THEN a ELSE b
MaxW(a, b) == IF Unordered(a, b) THEN WAny ELSE IF CmpW(a, b) >= 0 THEN a ELSE b
ClampW(x, lo, hi) == IF IsNanW(x) \/ IsNanW(lo) \/ IsNanW(hi) \/ CmpW(lo, hi) > 0 THEN WAny
                     ELSE MinW(MaxW(x, lo), hi)

\* ---- conversions ------------------------------------------------------------------
\* float -> float (f64 -> f32 rounds to nearest, f32 -> f64 is exact)
NarrowW(f, a) == IF IsFinW(a) /\ ~IsZeroW(a) THEN RoundW(f, a.s, a.m, a.e, FALSE) ELSE a
\* float -> integer `as`: truncate toward zero, saturate, NaN -> 0    (lo, hi Big integers)
ToIntSatW(a, lo, hi) ==
    IF IsNanW(a) THEN Z0
    ELSE IF IsInfW(a) THEN (IF a.s = 1 THEN lo ELSE hi)
    ELSE IF IsZeroW(a) THEN Z0
    ELSE LET z == Z(a.s, IntPartW(a)) IN IF ZLt(z, lo) THEN lo ELSE IF ZLt(hi, z) THEN hi ELSE z

\* ---- named dispatch for the trace specification ------------------------------------------
Op1W(f, op, a) ==
    CASE op = "neg" -> NegW(a) [] op = "abs" -> AbsW(a) [] op = "signum" -> SignumW(f, a)
      [] op = "floor" -> FloorW(f, a) [] op = "ceil" -> CeilW(f, a) [] op = "trunc" -> TruncW(f, a)
      [] op = "round" -> RoundHalfAwayW(f, a) [] op = "fract" -> FractW(f, a) [] op = "fract_gl" -> FractGlW(f, a)
      [] op = "recip" -> RecipW(f, a) [] op = "sqrt" -> SqrtW(f, a)
Op2W(f, op, a, b) ==
    CASE op = "add" -> AddW(f, a, b) [] op = "sub" -> SubW(f, a, b) [] op = "mul" -> MulW(f, a, b)
      [] op = "div" -> DivW(f, a, b) [] op = "rem" -> RemW(f, a, b)
      [] op = "div_euclid" -> DivEuclidW(f, a, b) [] op = "rem_euclid" -> RemEuclidW(f, a, b)
      [] op = "min" -> MinW(a, b) [] op = "max" -> MaxW(a, b) [] op = "copysign" -> CopySignW(a, b)
CmpOpW(op, a, b) ==
    CASE op = "cmpeq" -> EqW(a, b) [] op = "cmpne" -> ~EqW(a, b)
      [] op = "cmplt" -> LtW(a, b) [] op = "cmple" -> LeW(a, b)
      [] op = "cmpgt" -> LtW(b, a) [] op = "cmpge" -> LeW(b, a)
Ops1W == {"neg", "abs", "signum", "floor", "ceil", "trunc", "round", "fract", "fract_gl", "recip", "sqrt"}
Ops2W == {"add", "sub", "mul", "div", "rem", "div_euclid", "rem_euclid", "min", "max", "copysign"}
CmpOpsW == {"cmpeq", "cmpne", "cmplt", "cmple", "cmpgt", "cmpge"}
=============================================================================
