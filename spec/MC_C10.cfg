SPECIFICATION Spec
CONSTANT Tier = "quick"
CONSTANT Seed = 1
INVARIANT Emit
INVARIANT SrtTheorems
CHECK_DEADLOCK FALSE
