SPECIFICATION Spec
CONSTANT Tier = "quick"
INVARIANT Agree
CHECK_DEADLOCK FALSE
