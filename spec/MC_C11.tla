------------------------------- MODULE MC_C11 -------------------------------
(***************************************************************************)
(* C11: view and projection matrices.                                      *)
(* View: look_to_rh/lh(eye, dir, up) is THE rigid transform that sends the *)
(* eye to the origin, dir to -Z (rh) / +Z (lh) and up into the +Y half of  *)
(* the YZ plane -- stated as theorems TLC checks on the exact construction *)
(* over Z[sqrt2, 1/2].                                                     *)
(* Projection: each constructor is specified by the plane mapping the docs *)
(* promise (near/far -> documented depths, fov/box planes -> +-1, clip     *)
(* w = -z (rh) or +z (lh)); expected clip coordinates of probe points are  *)
(* exact dyadic numbers.                                                   *)
(***************************************************************************)
EXTENDS Rot, FiniteSets, Json
CONSTANTS Tier, Seed
VARIABLES ph, call, res
vars == <<ph, call, res>>
Quick == Tier = "quick"

\* ---- dyadic helpers (ring elements with b = 0) ---------------------------------
D(n, k) == R(n, 0, k)                         \* n / 2^k
P2(j) == IF j >= 0 THEN R(2 ^ j, 0, 0) ELSE R(1, 0, -j)
\* inverse of +-2^j given as a ring element
InvP2(x) == LET a == x[1] k == x[3] IN      \* x = a / 2^k with |a| a power of two
            LET s == IF a < 0 THEN -1 ELSE 1
                m == IF a < 0 THEN -a ELSE a
                j == CHOOSE e \in 0..30 : 2 ^ e = m
            IN R(s * (2 ^ k), 0, j)

\* ---- views -------------------------------------------------------------------------
Norm2Scale(n2) == CASE n2 = R1 -> R1 [] n2 = D(1, 1) -> R(0, 1, 0) [] n2 = D(2, 0) -> R(0, 1, 1) [] n2 = D(1, 2) -> D(2, 0)
RScaleV(v, s) == [i \in 1..3 |-> RMul(v[i], s)]
RNormalize(v) == RScaleV(v, Norm2Scale(RDot(v, v)))
RNegV(v) == [i \in 1..3 |-> RNeg(v[i])]
\* the construction (f = dir, s = normalize(f x up), u = s x f; rows s, u, -f)
ViewRh(eye, dir, up) ==
    LET f == dir
        s == RNormalize(RCross(f, up))
        u == RCross(s, f)
    IN [ lin |-> << s[1], u[1], RNeg(f[1]),  s[2], u[2], RNeg(f[2]),  s[3], u[3], RNeg(f[3]) >>,
         t   |-> << RNeg(RDot(s, eye)), RNeg(RDot(u, eye)), RDot(f, eye) >> ]
ViewLh(eye, dir, up) == ViewRh(eye, RNegV(dir), up)
UnitAxes == { <<R1, R0, R0>>, <<RNeg(R1), R0, R0>>, <<R0, R1, R0>>, <<R0, RNeg(R1), R0>>, <<R0, R0, R1>>, <<R0, R0, RNeg(R1)>> }
Eyes == IF Quick THEN { <<4, 3, 7>>, <<0, 0, 0>>, <<-2, 5, 1>> } ELSE { <<4, 3, 7>>, <<0, 0, 0>>, <<-2, 5, 1>>, <<1, 0, 0>>, <<0, -3, 0>>, <<-6, -1, 2>> }
NotParallel(d, u) == RCross(d, u) # <<R0, R0, R0>>

\* ---- projections -------------------------------------------------------------------
\* depth convention -> (depth at near, depth at far)
\* expected clip coordinates of the view-space point (x, y, depth d in front of the camera)
PerspClip(conv, t, a, n, f, x, y, d) ==
    LET lo == CASE conv = "gl" -> RNeg(R1) [] conv = "zo" -> R0
        hi == R1
        \* z_ndc(d) = alpha + beta / d with z_ndc(n) = lo, z_ndc(f) = hi
        beta == RMul(RMul(RSub(lo, hi), RMul(n, f)), InvP2(RSub(f, n)))
        alpha == RSub(lo, RMul(RMul(RSub(lo, hi), f), InvP2(RSub(f, n))))
        zc == CASE conv \in {"gl", "zo"} -> RAdd(RMul(alpha, d), beta)
                [] conv = "inf"    -> RSub(d, n)           \* depth 0 at near, -> 1 at infinity
                [] conv = "infrev" -> n                    \* depth 1 at near, -> 0 at infinity
    IN << RMul(x, InvP2(RMul(t, a))), RMul(y, InvP2(t)), zc, d >>
OrthoClip(conv, l, r, b, tp, n, f, x, y, d) ==
    LET iw == InvP2(RSub(r, l)) ih == InvP2(RSub(tp, b)) id == InvP2(RSub(f, n)) IN
    << RMul(RSub(RAdd(x, x), RAdd(r, l)), iw), RMul(RSub(RAdd(y, y), RAdd(tp, b)), ih),
       IF conv = "gl" THEN RMul(RSub(RAdd(d, d), RAdd(f, n)), id) ELSE RMul(RSub(d, n), id), R1 >>

Persps == { [name |-> "perspective_rh_gl", hand |-> "rh", conv |-> "gl"], [name |-> "perspective_lh", hand |-> "lh", conv |-> "zo"],
            [name |-> "perspective_rh", hand |-> "rh", conv |-> "zo"], [name |-> "perspective_infinite_lh", hand |-> "lh", conv |-> "inf"],
            [name |-> "perspective_infinite_reverse_lh", hand |-> "lh", conv |-> "infrev"], [name |-> "perspective_infinite_rh", hand |-> "rh", conv |-> "inf"],
            [name |-> "perspective_infinite_reverse_rh", hand |-> "rh", conv |-> "infrev"] }
Orthos == { [name |-> "orthographic_rh_gl", hand |-> "rh", conv |-> "gl"], [name |-> "orthographic_lh", hand |-> "lh", conv |-> "zo"],
            [name |-> "orthographic_rh", hand |-> "rh", conv |-> "zo"] }
Tans == {-1, 0, 1}                 \* tan(fov/2) = 2^j
Aspects == IF Quick THEN {-2, 0, 1} ELSE -2..2
NearFar == IF Quick THEN { <<D(1, 0), D(3, 0)>>, <<D(1, 1), D(9, 1)>>, <<D(1, 5), D(32769, 5)>> }
           ELSE { <<D(1, 0), D(3, 0)>>, <<D(1, 1), D(9, 1)>>, <<D(1, 5), D(32769, 5)>>, <<D(2, 0), D(1026, 0)>>, <<D(1, 3), D(3, 3)>> }
Boxes == { << D(-1, 0), D(1, 0), D(-1, 0), D(1, 0) >>, << D(-8, 0), D(8, 0), D(0, 0), D(8, 0) >>, << D(2, 0), D(6, 0), D(-3, 0), D(-1, 0) >>,
           << D(-1, 1), D(7, 1), D(1, 2), D(5, 2) >> }
\* probe points as fractions of the frustum: lateral in {-1, -1/2, 0, 1/2, 1} of the half extent, depth index 0..3
Lat == IF Quick THEN {D(-1, 0), D(0, 0), D(1, 1), D(1, 0)} ELSE {D(-1, 0), D(-1, 1), D(0, 0), D(1, 1), D(1, 0)}
DepthAt(n, f, i) == CASE i = 0 -> n [] i = 1 -> f [] i = 2 -> RHalf(RAdd(n, f)) [] i = 3 -> RAdd(n, RMul(RSub(f, n), D(1, 2)))

Calls ==
         [kind : {"view"}, hand : {"rh", "lh"}, eye : Eyes, dir : LatticeAxes, up : UnitAxes, p : {<<>>}, q : {0}]
    \cup [kind : {"persp"}, hand : {"-"}, eye : {<<>>}, dir : Persps, up : NearFar, p : Tans \X Aspects, q : {0}]
    \cup [kind : {"ortho"}, hand : {"-"}, eye : {<<>>}, dir : Orthos, up : NearFar, p : Boxes, q : {0}]
Valid(c) == c.kind = "view" => NotParallel(c.dir, c.up)

EvalView(c) ==
    LET eye == [i \in 1..3 |-> RInt(c.eye[i])]
        v == IF c.hand = "rh" THEN ViewRh(eye, c.dir, c.up) ELSE ViewLh(eye, c.dir, c.up)
    IN [ lin |-> v.lin, t |-> v.t, probes |-> <<>> ]
EvalPersp(c) ==
    LET pr == c.dir  n == c.up[1]  f == c.up[2]  t == P2(c.p[1])  a == P2(c.p[2])
        pts == { <<lx, ly, di>> \in Lat \X Lat \X (0..3) : TRUE }
        One(pt) == LET d == DepthAt(n, f, pt[3])
                       x == RMul(RMul(pt[1], d), RMul(t, a))          \* lateral position as a fraction of the half width at depth d
                       y == RMul(RMul(pt[2], d), t)
                       zv == IF pr.hand = "rh" THEN RNeg(d) ELSE d
                   IN [ p |-> <<x, y, zv>>, clip |-> PerspClip(pr.conv, t, a, n, f, x, y, d) ]
    IN [ lin |-> <<>>, t |-> <<>>, probes |-> {One(pt) : pt \in pts} ]
EvalOrtho(c) ==
    LET pr == c.dir  n == c.up[1]  f == c.up[2]  l == c.p[1]  r == c.p[2]  b == c.p[3]  tp == c.p[4]
        pts == { <<lx, ly, di>> \in Lat \X Lat \X (0..3) : TRUE }
        One(pt) == LET d == DepthAt(n, f, pt[3])
                       x == RAdd(RHalf(RAdd(l, r)), RMul(pt[1], RHalf(RSub(r, l))))
                       y == RAdd(RHalf(RAdd(b, tp)), RMul(pt[2], RHalf(RSub(tp, b))))
                       zv == IF pr.hand = "rh" THEN RNeg(d) ELSE d
                   IN [ p |-> <<x, y, zv>>, clip |-> OrthoClip(pr.conv, l, r, b, tp, n, f, x, y, d) ]
    IN [ lin |-> <<>>, t |-> <<>>, probes |-> {One(pt) : pt \in pts} ]
Eval(c) == CASE c.kind = "view" -> EvalView(c) [] c.kind = "persp" -> EvalPersp(c) [] c.kind = "ortho" -> EvalOrtho(c)

Init == ph = "call" /\ call \in {c \in Calls : Valid(c)} /\ res = <<>>
Next == ph = "call" /\ ph' = "ret" /\ res' = Eval(call) /\ UNCHANGED call
Spec == Init /\ [][Next]_vars

SetToSeqOf(S) == LET RECURSIVE go(_) go(T) == IF T = {} THEN <<>> ELSE LET x == CHOOSE y \in T : TRUE IN <<x>> \o go(T \ {x}) IN go(S)
Emit == ph = "ret" =>
    PrintT(<<"CASE", ToJson(
        IF call.kind = "view"
        THEN [fam |-> "cam", kind |-> "view", hand |-> call.hand, eye |-> call.eye, dir |-> call.dir, up |-> call.up, lin |-> res.lin, t |-> res.t]
        ELSE [fam |-> "cam", kind |-> call.kind, name |-> call.dir.name, hand |-> call.dir.hand, conv |-> call.dir.conv,
              near |-> call.up[1], far |-> call.up[2], params |-> call.p, probes |-> SetToSeqOf(res.probes)])>>)

\* ---- the defining properties of a view transform, as theorems on the construction ----
ViewTheorems ==
    (ph = "ret" /\ call.kind = "view") =>
        LET eye == [i \in 1..3 |-> RInt(call.eye[i])]
            L == res.lin
            img(v) == RMatVec(L, v)
            zsign == IF call.hand = "rh" THEN RNeg(R1) ELSE R1 IN
        /\ IsRotation(L)                                                        \* rigid: orthonormal, determinant +1
        /\ [i \in 1..3 |-> RAdd(img(eye)[i], res.t[i])] = <<R0, R0, R0>>      \* the eye goes to the origin
        /\ img(call.dir) = <<R0, R0, zsign>>                                    \* the view direction goes to -Z (rh) / +Z (lh)
        /\ img(call.up)[1] = R0 /\ RSign(img(call.up)[2]) > 0                   \* up lands in the +Y half of the YZ plane
\* the projection's promises at the documented planes
ProjTheorems ==
    (ph = "ret" /\ call.kind = "persp") =>
        \A pr \in res.probes :
            LET ndc == [i \in 1..3 |-> pr.clip[i]] w == pr.clip[4] IN
            /\ RSign(w) > 0                                                      \* w = -z (rh) or +z (lh): positive in front
            /\ w = (IF call.dir.hand = "rh" THEN RNeg(pr.p[3]) ELSE pr.p[3])
            \* inside the frustum: |x_clip| <= w, |y_clip| <= w
            /\ RLe(ndc[1], w) /\ RLe(RNeg(w), ndc[1]) /\ RLe(ndc[2], w) /\ RLe(RNeg(w), ndc[2])
            \* depth at the near plane
            /\ (w = call.up[1]) => ndc[3] = (CASE call.dir.conv = "gl" -> RNeg(w) [] call.dir.conv \in {"zo", "inf"} -> R0 [] call.dir.conv = "infrev" -> w)
            /\ (w = call.up[2] /\ call.dir.conv \in {"gl", "zo"}) => ndc[3] = w   \* far plane -> depth 1

=============================================================================
