SPECIFICATION Spec
CONSTANT Tier = "quick"
INVARIANT Emit
INVARIANT Monoid
CHECK_DEADLOCK FALSE
