SPECIFICATION Spec
CONSTANT Tier = "quick"
CONSTANT Seed = 1
INVARIANT Emit
INVARIANT GeomTheorems
CHECK_DEADLOCK FALSE
