SPECIFICATION Spec
POSTCONDITION Accepted
CHECK_DEADLOCK FALSE
