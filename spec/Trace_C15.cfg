SPECIFICATION TraceSpec
CONSTANT Tier = "quick"
CONSTANT MaxHist = 1
POSTCONDITION Accepted
CHECK_DEADLOCK FALSE
