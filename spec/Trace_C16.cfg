SPECIFICATION TraceSpec
POSTCONDITION Accepted
CHECK_DEADLOCK FALSE
