------------------------------- MODULE Access -------------------------------
(***************************************************************************)
(* C17: the element access paths of a vector / quaternion.  One register   *)
(* of n lanes over opaque tokens.  Constructors, write paths and read      *)
(* paths are the actions; every path must address the same n lanes.        *)
(***************************************************************************)
EXTENDS Integers, Sequences, FiniteSets, TLC

CONSTANTS MaxHist          \* bound on the history length (1 for BFS, 32 for simulation)

VARIABLES n,               \* dimension of the register (2, 3 or 4), fixed per behaviour
          reg0,            \* the register the behaviour started from
          reg,             \* the abstract state: lane -> token
          hist             \* the operations performed, each with its expected observation

vars == <<n, reg0, reg, hist>>

Tok == {"p1", "p2", "p4"}        \* NaN payload / -0 / negative NaN payload (floats); distinct patterns (ints)

CtorPaths  == {"new", "from_array", "from_slice", "from_array_trait", "from_tuple", "free_fn"}
WritePaths == {"field", "index_mut", "as_mut", "with"}
ReadPaths  == {"field", "index", "to_array", "write_to_slice", "into_array", "into_tuple",
               "as_ref", "debug", "display", "display_prec", "eq_self"}

\* named constants: lanes in named tokens
Unit(k, i, a, b) == [j \in 1..k |-> IF j = i THEN a ELSE b]
ConstVal(k, c) ==
    CASE c = "ZERO"    -> [j \in 1..k |-> "zero"]
      [] c = "ONE"     -> [j \in 1..k |-> "one"]
      [] c = "NEG_ONE" -> [j \in 1..k |-> "negone"]
      [] c = "MIN"     -> [j \in 1..k |-> "min"]
      [] c = "MAX"     -> [j \in 1..k |-> "max"]
      [] c = "NAN"     -> [j \in 1..k |-> "nan"]
      [] c = "INFINITY"     -> [j \in 1..k |-> "inf"]
      [] c = "NEG_INFINITY" -> [j \in 1..k |-> "neginf"]
      [] c = "X" -> Unit(k, 1, "one", "zero")
      [] c = "Y" -> Unit(k, 2, "one", "zero")
      [] c = "Z" -> Unit(k, 3, "one", "zero")
      [] c = "W" -> Unit(k, 4, "one", "zero")
      [] c = "NEG_X" -> Unit(k, 1, "negone", "zero")
      [] c = "NEG_Y" -> Unit(k, 2, "negone", "zero")
      [] c = "NEG_Z" -> Unit(k, 3, "negone", "zero")
      [] c = "NEG_W" -> Unit(k, 4, "negone", "zero")
Consts(k) == {"ZERO", "ONE", "NEG_ONE", "MIN", "MAX", "NAN", "INFINITY", "NEG_INFINITY", "X", "Y", "NEG_X", "NEG_Y"}
             \cup (IF k >= 3 THEN {"Z", "NEG_Z"} ELSE {}) \cup (IF k >= 4 THEN {"W", "NEG_W"} ELSE {})

Ev(act, path, lane, tok, post) ==
    [act |-> act, path |-> path, lane |-> lane, tok |-> tok, post |-> post]

\* the effect of each action on the register alone (shared with the trace specification Trace_C17, which binds the
\* arguments to logged values and drops the history variable)
ConstructReg(vals) == reg' = vals
SplatReg(t) == reg' = [j \in 1..n |-> t]
WriteReg(lane, t) == reg' = [reg EXCEPT ![lane] = t]
ReadReg == UNCHANGED reg

Construct(path, vals) ==
    /\ ConstructReg(vals)
    /\ hist' = Append(hist, Ev("ctor", path, 0, "-", vals))
    /\ UNCHANGED <<n, reg0>>

Splat(t) ==
    /\ SplatReg(t)
    /\ hist' = Append(hist, Ev("ctor", "splat", 0, t, [j \in 1..n |-> t]))
    /\ UNCHANGED <<n, reg0>>

Const(c) ==
    /\ reg' = ConstVal(n, c)
    /\ hist' = Append(hist, Ev("const", c, 0, "-", ConstVal(n, c)))
    /\ UNCHANGED <<n, reg0>>

Write(path, lane, t) ==
    /\ WriteReg(lane, t)
    /\ hist' = Append(hist, Ev("write", path, lane - 1, t, [reg EXCEPT ![lane] = t]))
    /\ UNCHANGED <<n, reg0>>

Read(path) ==
    /\ ReadReg
    /\ hist' = Append(hist, Ev("read", path, 0, "-", reg))
    /\ UNCHANGED <<n, reg0>>

\* long (simulated) histories concentrate on interleaved reads and writes: few constructor values
CtorVals == IF MaxHist = 1 THEN [1..n -> Tok]
            ELSE {[j \in 1..n |-> IF j % 2 = 1 THEN "p1" ELSE "p4"]}

Init == /\ n \in 2..4
        /\ reg \in [1..n -> Tok]
        /\ reg0 = reg
        /\ hist = <<>>

Next == /\ Len(hist) < MaxHist
        /\ \/ \E p \in CtorPaths, v \in CtorVals : Construct(p, v)
           \/ \E t \in Tok : Splat(t)
           \/ \E c \in Consts(n) : Const(c)
           \/ \E p \in WritePaths, l \in 1..n, t \in Tok : Write(p, l, t)
           \/ \E p \in ReadPaths : Read(p)

Spec == Init /\ [][Next]_vars

---------------------------------------------------------------------------
\* The property, as formulas over the machine.
TypeOK == n \in 2..4 /\ DOMAIN reg = 1..n

\* a write changes exactly the addressed lane
WriteChangesOnlyThatLane ==
    [][ \A p \in WritePaths, l \in 1..n, t \in Tok :
          Write(p, l, t) => /\ reg'[l] = t
                            /\ \A j \in 1..n : j # l => reg'[j] = reg[j] ]_vars

\* reads never change the register, whatever the path
ReadsArePure == [][ \A p \in ReadPaths : Read(p) => reg' = reg ]_vars

\* every event's expected observation is the register after the event (so all read
\* paths agree with each other and with every write path)
ObservationsAgree == \A i \in 1..Len(hist) : i = Len(hist) => hist[i].post = reg

=============================================================================
