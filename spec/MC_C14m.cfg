SPECIFICATION Spec
CONSTANT Tier = "quick"
INVARIANT Emit
INVARIANT RoundTrip
CHECK_DEADLOCK FALSE
